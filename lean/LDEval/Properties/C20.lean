/-
  C20 — Locality: results depend only on referenced data.

  "An evaluation result is unchanged by anything the configuration does not reference: adding
  context attributes that no clause or bucket-by names, adding an individual context of a kind that
  no target, clause, rollout or segment mentions and no kind-test clause can match, changing flag
  metadata (version, deleted, client-side availability, debug date, sampling, migration, summary
  exclusion), reordering values inside a clause or keys inside a target list, reordering
  well-formed clauses inside a rule, or appending rules after the deciding one; inserting a
  never-matching rule before the deciding rule changes only the reported rule index."

  Phrase by phrase:

  1. metadata ............... `metadata`, `metadata_excludeFromSummaries`, `evaluate_metadata`
                              (the *whole observation* of `evaluate`, not just the detail)
  2. appended rules ......... `append_rules`, `append_rules_general`, `append_rules_evalBody`
  3. inserted dead rule ..... `insert_dead_rule` (+ `shiftFrom_*`), `in_empty_never_matches`
  4. value / key order ...... `perm_target_keys`, `perm_targetMatch`, `doOp_plain_index_free`,
                              `perm_values`, `perm_values_clause`
  5. clause order ........... `perm_clauses`
  6. unreferenced attribute . `valueForRef_addAttr`, `valueForRef_addAttr_shadowed`,
                              `clauseMatchNoSeg_mapInd`, `computeBucket_mapInd`,
                              `unreferenced_attribute`, `add_unreferenced_attribute` (whole Spec)
  7. unreferenced kind ...... `extraKind_multi`, `extraKind_single`, `targetMatch_extraKind`,
                              `clauseMatchNoSeg_extraKind`, `computeBucket_extraKind`,
                              `segLists_extraKind`, `unreferenced_kind(_multi/_single)` (whole Spec)

  6 and 7 go through one generic congruence of the Spec in the context,
  `evalFlag_ctx` (`LDEval/Proofs/CtxCongr.lean`).

  Entry point (theorem audit, last section; helpers in `LDEval/Proofs/AuditLocality.lean`): each
  family is lifted to the observation `Obs` of `evaluate`.
    whole `Obs` equal ......... `evaluate_unreferenced_attribute`, `evaluate_unreferenced_kind(_multi/_single)`,
                                `evaluate_metadata`, `evaluate_append_rules(_of_kind)`, `evaluate_perm_values`,
                                `evaluate_perm_clauses_pure` (rule without segment clauses), `evaluate_rules_equiv`
    whole `Obs` up to the
    rule-index shift .......... `evaluate_insert_dead_rule` (dead rule that leaves the state alone)
    result minus status,
    `isExperiment` ............ `evaluate_perm_clauses_result`, `evaluate_insert_dead_rule_result` (segment clauses
                                allowed); events, flag lookups, outcome: `evaluate_rules_events`
    any top-level name ........ `evaluate_unreferenced_top`, `evaluate_change_name`, `evaluate_change_anonymous`,
                                `evaluate_remove_unreferenced_attribute` (section 8; whole `Obs` equal)
    stored flags' metadata .... `stored_metadata`, `stored_metadata_both` (section 9; Spec result);
                                `evaluate_stored_metadata(_both)` (section 10; whole `Obs`, for everything
                                but the version / excludeFromSummaries that prerequisite events report);
                                `evaluate_stored_segment_metadata` (section 11; version / deleted of stored segments)
    NOT invariant (F6) ........ `clause_order_observable`; `shortcut_observable` for `ShortcutNeutral`

  A caveat that the proofs make precise (7): turning a *single `user`* context into a
  multi-context is observable by a segment that has a per-kind list (`includedContexts` /
  `excludedContexts`) for kind `user`, because the evaluator skips the per-kind lists for a single
  `user` context (`segLists`, `onlyDefault`).  See `ShortcutNeutral` and the counterexample at the
  end of the file.
-/
import LDEval.Properties.C03
import LDEval.Properties.C04
import LDEval.Properties.C05
import LDEval.Proofs.CtxCongr
import LDEval.Proofs.AuditLocality

namespace LD.C20

/-! ## 1. Flag metadata -/
section Metadata

variable {seg : Spec.SegRec} {env : Env}

/-- The flag with its metadata replaced. -/
def withMeta (f : Flag) (m : FlagMeta) (b : Bool) : Flag :=
  { f with fmeta := m, excludeFromSummaries := b }

example (f : Flag) (m) : withMeta f m f.excludeFromSummaries = { f with fmeta := m } := rfl
example (f : Flag) (b) : withMeta f f.fmeta b = { f with excludeFromSummaries := b } := rfl

theorem getValueForVR_withMeta (f : Flag) (m b) (vr : VariationOrRollout) (r : Reason) :
    Spec.getValueForVR env (withMeta f m b) vr r = Spec.getValueForVR env f vr r := rfl

theorem rulesLoop_withMeta (f : Flag) (m b) :
    ∀ rules i, Spec.rulesLoop seg env (withMeta f m b) rules i = Spec.rulesLoop seg env f rules i := by
  intro rules
  induction rules with
  | nil => intro i; rfl
  | cons r rs ih => intro i; simp only [Spec.rulesLoop, ih, getValueForVR_withMeta]

theorem evalBody_withMeta (rec : Spec.FlagRec) (f : Flag) (m b) (chain : List String) :
    Spec.evalBody rec seg env (withMeta f m b) chain = Spec.evalBody rec seg env f chain := by
  unfold Spec.evalBody
  rw [rulesLoop_withMeta]
  rfl

section Model
variable {seg : LD.SegRec} {env : Env}

theorem m_getValueForVR_withMeta (f : Flag) (m b) (vr : VariationOrRollout) (r : Reason) (st : St) :
    LD.getValueForVR env (withMeta f m b) vr r st = LD.getValueForVR env f vr r st := rfl

theorem m_rulesLoop_withMeta (f : Flag) (m b) :
    ∀ rules i st, LD.rulesLoop seg env (withMeta f m b) rules i st = LD.rulesLoop seg env f rules i st := by
  intro rules
  induction rules with
  | nil => intro i st; rfl
  | cons r rs ih =>
    intro i st
    simp only [LD.rulesLoop, ih, m_getValueForVR_withMeta]
    rfl

theorem m_prereqLoop_withMeta (rec : LD.FlagRec) (f : Flag) (m b) (chain : List String) :
    ∀ ps st, LD.prereqLoop rec env (withMeta f m b) chain ps st = LD.prereqLoop rec env f chain ps st := by
  intro ps
  induction ps with
  | nil => intro st; rfl
  | cons p ps ih =>
    intro st
    simp only [LD.prereqLoop, ih]
    rfl

theorem m_evalBody_withMeta (rec : LD.FlagRec) (f : Flag) (m b) (chain : List String) (st : St) :
    LD.evalBody rec seg env (withMeta f m b) chain st = LD.evalBody rec seg env f chain st := by
  unfold LD.evalBody LD.checkPrereqs
  simp only [m_rulesLoop_withMeta, m_prereqLoop_withMeta]
  rfl

theorem isExperimentResult_withMeta (f : Flag) (m b) (r : Reason) :
    isExperimentResult (withMeta f m b) r = isExperimentResult f r := rfl

theorem evaluate_withMeta (env : Env) (f : Flag) (m b) :
    evaluate env (withMeta f m b) = evaluate env f := by
  unfold evaluate
  have : ∀ n, LD.evalFlag (segFuel env.store) n env (withMeta f m b) [] {} =
      LD.evalFlag (segFuel env.store) n env f [] {} := by
    intro n
    cases n with
    | zero => rfl
    | succ n => exact m_evalBody_withMeta _ f m b [] {}
  rw [this]
  rfl
end Model

/-- **1. Metadata** (Spec).  The stateless specification never reads `fmeta` (version, deleted,
client-side availability, track-events, debug date, sampling ratio, migration settings). -/
theorem metadata (sf n : Nat) (env : Env) (f : Flag) (chain : List String) (m : FlagMeta) :
    Spec.evalFlag sf n env { f with fmeta := m } chain = Spec.evalFlag sf n env f chain := by
  cases n with
  | zero => rfl
  | succ n => exact evalBody_withMeta _ f m f.excludeFromSummaries chain

/-- … nor the flag's own `excludeFromSummaries`. -/
theorem metadata_excludeFromSummaries (sf n : Nat) (env : Env) (f : Flag) (chain : List String)
    (b : Bool) :
    Spec.evalFlag sf n env { f with excludeFromSummaries := b } chain =
      Spec.evalFlag sf n env f chain := by
  cases n with
  | zero => rfl
  | succ n => exact evalBody_withMeta _ f f.fmeta b chain

/-- **1. Metadata** (entry point).  Everything observable about `Evaluator.Evaluate` — result,
`isExperiment`, prerequisite events, log lines, store lookups, big-segment queries — is unchanged
by a change of the evaluated flag's metadata.  (The metadata of *prerequisite* flags is copied into
their events — `prereqVersion`, `excludeFromSummaries` — and nowhere else.) -/
theorem evaluate_metadata (env : Env) (f : Flag) (m : FlagMeta) :
    evaluate env { f with fmeta := m } = evaluate env f :=
  evaluate_withMeta env f m f.excludeFromSummaries

theorem evaluate_metadata_excludeFromSummaries (env : Env) (f : Flag) (b : Bool) :
    evaluate env { f with excludeFromSummaries := b } = evaluate env f :=
  evaluate_withMeta env f f.fmeta b

theorem isExperimentResult_metadata (f : Flag) (m : FlagMeta) (r : Reason) :
    isExperimentResult { f with fmeta := m } r = isExperimentResult f r := rfl

end Metadata

/-! ## 2–3. Rules after / before the deciding rule -/
section Rules
variable {seg : Spec.SegRec} {env : Env}

theorem append_rules (seg : Spec.SegRec) (env : Env) (f : Flag) (rules extra : List FlagRule) (i : Nat)
    (h : ∃ pre r post, rules = pre ++ r :: post ∧
      (∀ q ∈ pre, Spec.clausesMatch seg env [] q.clauses = .ok false) ∧
      (Spec.clausesMatch seg env [] r.clauses = .ok true ∨
        ∃ e, Spec.clausesMatch seg env [] r.clauses = .err e)) :
    Spec.rulesLoop seg env f (rules ++ extra) i = Spec.rulesLoop seg env f rules i := by
  obtain ⟨pre, r, post, rfl, hpre, hr⟩ := h
  induction pre generalizing i with
  | nil =>
    rcases hr with hr | ⟨e, hr⟩ <;> simp only [List.nil_append, List.cons_append, Spec.rulesLoop, hr]
  | cons q pre ih =>
    have hq := hpre q (List.mem_cons_self ..)
    simp only [List.cons_append, Spec.rulesLoop, hq]
    exact ih (i + 1) (fun q' hq' => hpre q' (List.mem_cons_of_mem _ hq'))

/-- Also when evaluation runs out of fuel in the deciding rule (never happens, C10). -/
theorem append_rules_general (seg : Spec.SegRec) (env : Env) (f : Flag) (rules extra : List FlagRule) (i : Nat)
    (h : ∃ r ∈ rules, Spec.clausesMatch seg env [] r.clauses ≠ .ok false) :
    Spec.rulesLoop seg env f (rules ++ extra) i = Spec.rulesLoop seg env f rules i := by
  obtain ⟨r, hr, hne⟩ := h
  induction rules generalizing i with
  | nil => cases hr
  | cons q rules ih =>
    simp only [List.cons_append, Spec.rulesLoop]
    cases hq : Spec.clausesMatch seg env [] q.clauses with
    | err e => rfl
    | oof => rfl
    | ok b =>
      cases b with
      | true => rfl
      | false =>
        simp only []
        rcases List.mem_cons.1 hr with rfl | hr'
        · exact absurd hq hne
        · exact ih (i + 1) hr'

/-! shifting -/
def shiftReason (k : Nat) (r : Reason) : Reason :=
  if r.kind = .ruleMatch ∧ r.ruleIndex ≥ k then { r with ruleIndex := r.ruleIndex + 1 } else r

def shiftDetail (k : Nat) (d : Detail) : Detail := { d with reason := shiftReason k d.reason }

def shiftFrom (k : Nat) (r : Option (Detail × Bool)) : Option (Detail × Bool) :=
  r.map fun p => (shiftDetail k p.1, p.2)

theorem shiftDetail_forError (k : Nat) (e : ErrKind) :
    shiftDetail k (Detail.forError e) = Detail.forError e := by
  simp [shiftDetail, shiftReason, Detail.forError, Reason.error]

theorem shiftReason_toExperiment (k : Nat) (r : Reason) :
    shiftReason k r.toExperiment = (shiftReason k r).toExperiment := by
  unfold shiftReason Reason.toExperiment
  cases hk : r.kind <;> simp [hk] <;> split <;> simp [hk]

theorem shiftDetail_getVariation (k : Nat) (f : Flag) (i : Int) (r : Reason) :
    shiftDetail k (Spec.getVariation f i r) = Spec.getVariation f i (shiftReason k r) := by
  unfold Spec.getVariation
  split
  · exact shiftDetail_forError k _
  · rfl

theorem shiftDetail_getValueForVR (k : Nat) (f : Flag) (vr : VariationOrRollout) (r : Reason) :
    shiftDetail k (Spec.getValueForVR env f vr r) = Spec.getValueForVR env f vr (shiftReason k r) := by
  unfold Spec.getValueForVR
  cases variationOrRollout env vr f.key f.salt with
  | error e => exact shiftDetail_forError k _
  | ok p =>
    obtain ⟨idx, inExp⟩ := p
    simp only []
    rw [shiftDetail_getVariation]
    cases inExp
    · rfl
    · simp only [if_true, shiftReason_toExperiment]

theorem shiftReason_ruleMatch_ge (k i : Nat) (id : String) (h : k ≤ i) :
    shiftReason k (.ruleMatch i id) = .ruleMatch (i + 1) id := by
  have : (i : Int) ≥ (k : Int) := by omega
  simp [shiftReason, Reason.ruleMatch, this]

theorem shiftReason_ruleMatch_lt (k i : Nat) (id : String) (h : i < k) :
    shiftReason k (.ruleMatch i id) = .ruleMatch i id := by
  have : ¬ (i : Int) ≥ (k : Int) := by omega
  simp [shiftReason, Reason.ruleMatch, this]

theorem shiftReason_fallthrough (k : Nat) : shiftReason k .fallthrough = .fallthrough := by
  simp [shiftReason, Reason.fallthrough]

theorem rulesLoop_succ (seg : Spec.SegRec) (env : Env) (f : Flag) (post : List FlagRule) :
    ∀ i k, k ≤ i → Spec.rulesLoop seg env f post (i + 1) = shiftFrom k (Spec.rulesLoop seg env f post i) := by
  induction post with
  | nil =>
    intro i k _
    simp only [Spec.rulesLoop, shiftFrom, Option.map_some, shiftDetail_getValueForVR,
      shiftReason_fallthrough]
  | cons r rs ih =>
    intro i k hk
    simp only [Spec.rulesLoop]
    cases Spec.clausesMatch seg env [] r.clauses with
    | err e => simp only [shiftFrom, Option.map_some, shiftDetail_forError]
    | oof => rfl
    | ok b =>
      cases b with
      | true =>
        simp only [shiftFrom, Option.map_some, shiftDetail_getValueForVR,
          shiftReason_ruleMatch_ge k i r.id hk]
      | false => exact ih (i + 1) k (by omega)

theorem insert_dead_rule (seg : Spec.SegRec) (env : Env) (f : Flag) (pre post : List FlagRule)
    (dead : FlagRule) (i : Nat)
    (hdead : Spec.clausesMatch seg env [] dead.clauses = .ok false) :
    Spec.rulesLoop seg env f (pre ++ dead :: post) i =
      shiftFrom (i + pre.length) (Spec.rulesLoop seg env f (pre ++ post) i) := by
  induction pre generalizing i with
  | nil =>
    simp only [List.nil_append, Spec.rulesLoop, hdead, List.length_nil, Nat.add_zero]
    exact rulesLoop_succ seg env f post i i (Nat.le_refl _)
  | cons q pre ih =>
    simp only [List.cons_append, Spec.rulesLoop, List.length_cons]
    cases Spec.clausesMatch seg env [] q.clauses with
    | err e => simp only [shiftFrom, Option.map_some, shiftDetail_forError]
    | oof => rfl
    | ok b =>
      cases b with
      | true =>
        simp only [shiftFrom, Option.map_some, shiftDetail_getValueForVR,
          shiftReason_ruleMatch_lt (i + (pre.length + 1)) i q.id (by omega)]
      | false =>
        simp only []
        rw [ih (i + 1)]
        congr 1
        omega

theorem matchAny_in_empty (rx : RegexOracle) (c : Clause) (hop : c.op = "in") (hv : c.values = [])
    (hpre : c.pre = {}) (u : J) : matchAny rx c u = false := by
  unfold matchAny
  simp only [hop, beq_self_eq_true, if_true]
  rw [findValue_plain c (by rw [hpre]), hv]
  cases u <;> rfl

theorem in_empty_never_matches (rx : RegexOracle) (ctx : Ctx) (c : Clause)
    (hop : c.op = "in") (hv : c.values = []) (hneg : c.negate = false) (hpre : c.pre = {})
    (hdef : c.attr.isDefined = true) (herr : c.attr.errOf = none) (hkind : c.attr.raw ≠ "kind") :
    clauseMatchNoSeg rx ctx c = .ok false := by
  have hm := matchAny_in_empty rx c hop hv hpre
  have hk : (c.attr.raw == "kind") = false := by simpa using hkind
  unfold clauseMatchNoSeg
  have hany : ∀ xs : List J, xs.any (matchAny rx c) = false := by
    intro xs; rw [List.any_eq_false]; intro x _; rw [hm]; exact Bool.false_ne_true
  simp only [hdef, herr, hk, hneg, hm, hany, maybeNegate, Bool.not_true, Bool.false_eq_true, if_false,
    Option.isSome_none]
  split
  · rfl
  · split
    · rfl
    · rfl
    · split <;> rfl

theorem dead_rule_example (seg : Spec.SegRec) (env : Env) (r : FlagRule) (c : Clause)
    (hr : r.clauses = [c])
    (hop : c.op = "in") (hv : c.values = []) (hneg : c.negate = false) (hpre : c.pre = {})
    (hdef : c.attr.isDefined = true) (herr : c.attr.errOf = none) (hkind : c.attr.raw ≠ "kind") :
    Spec.clausesMatch seg env [] r.clauses = .ok false := by
  have hs : (c.op == "segmentMatch") = false := by rw [hop]; decide
  simp only [hr, Spec.clausesMatch, Spec.clauseMatch, hs, Bool.false_eq_true, if_false,
    in_empty_never_matches env.rx env.ctx c hop hv hneg hpre hdef herr hkind, Res.ofExcept]
end Rules

/-! ## 4–5. Order of values, keys and clauses -/
section Order

theorem perm_contains {α} [BEq α] [LawfulBEq α] {l l' : List α} (h : l.Perm l') (a : α) :
    l.contains a = l'.contains a := by
  rw [Bool.eq_iff_iff]; simp only [List.contains_iff_mem, h.mem_iff]

theorem perm_any {α} {l l' : List α} (h : l.Perm l') (p : α → Bool) : l.any p = l'.any p := by
  rw [Bool.eq_iff_iff]; simp only [List.any_eq_true, h.mem_iff]

theorem perm_target_keys (key : String) (vs vs' : List String) (h : vs.Perm vs') :
    findKey key vs none = findKey key vs' none := by
  simp only [findKey]; exact perm_contains h key

theorem perm_target_keys_preprocessed (key : String) (vs vs' : List String) (h : vs.Perm vs') :
    findKey key vs (preprocessStringSet vs) = findKey key vs' (preprocessStringSet vs') := by
  rw [C03.findKey_table_transparent, C03.findKey_table_transparent]
  exact perm_target_keys key vs vs' h

theorem perm_targetMatch (ctx : Ctx) (t : Target) (vs' : List String) (hpre : t.pre = none)
    (h : t.values.Perm vs') : targetMatch ctx { t with values := vs' } = targetMatch ctx t := by
  unfold targetMatch Target.findKey
  simp only [hpre, perm_target_keys _ _ _ h]

theorem perm_targetMatch_preprocessed (ctx : Ctx) (t : Target) (vs' : List String)
    (h : t.values.Perm vs') :
    targetMatch ctx { t with values := vs', pre := preprocessStringSet vs' } =
      targetMatch ctx { t with pre := preprocessStringSet t.values } := by
  unfold targetMatch Target.findKey
  simp only [perm_target_keys_preprocessed _ _ _ h]

theorem perm_segTargetMatch (ctx : Ctx) (t : SegmentTarget) (vs' : List String) (hpre : t.pre = none)
    (h : t.values.Perm vs') : segTargetMatch ctx { t with values := vs' } = segTargetMatch ctx t := by
  unfold segTargetMatch SegmentTarget.findKey
  simp only [hpre, perm_target_keys _ _ _ h]

/-- For a plain clause `doOp` reads its index only to fetch the clause value at that index. -/
theorem doOp_plain_index_free (rx : RegexOracle) (c c' : Clause) (hpre : c.pre = {}) (hpre' : c'.pre = {})
    (hop : c'.op = c.op) (u cv : J) (i j : Nat)
    (hi : c.values[i]? = some cv) (hj : c'.values[j]? = some cv) :
    doOp rx c u cv i = doOp rx c' u cv j := by
  have hts : c.valueAsTimestamp i = Time.valueToTimestamp cv := by
    simp [Clause.valueAsTimestamp, hpre, hi]
  have hsv : c.valueAsSemVer i = parseSemVer cv := by
    simp [Clause.valueAsSemVer, hpre, hi]
  have hre : c.valueAsRegexp rx i = parseRegexp rx cv := by
    simp [Clause.valueAsRegexp, hpre, hi]
  have hts' : c'.valueAsTimestamp j = Time.valueToTimestamp cv := by
    simp [Clause.valueAsTimestamp, hpre', hj]
  have hsv' : c'.valueAsSemVer j = parseSemVer cv := by
    simp [Clause.valueAsSemVer, hpre', hj]
  have hre' : c'.valueAsRegexp rx j = parseRegexp rx cv := by
    simp [Clause.valueAsRegexp, hpre', hj]
  unfold doOp
  simp only [hts, hsv, hre, hts', hsv', hre', hop]

/-- The index-free operator test of a plain clause: operator name, context value, clause value. -/
def opTest (rx : RegexOracle) (op : String) (u cv : J) : Bool :=
  doOp rx { op := op, values := [cv] } u cv 0

theorem doOp_plain_eq_opTest (rx : RegexOracle) (c : Clause) (hpre : c.pre = {}) (u cv : J) (i : Nat)
    (hi : c.values[i]? = some cv) : doOp rx c u cv i = opTest rx c.op u cv :=
  doOp_plain_index_free rx c { op := c.op, values := [cv] } hpre rfl rfl u cv i 0 hi rfl

theorem matchAny_plain (rx : RegexOracle) (c : Clause) (hpre : c.pre = {}) (u : J) :
    matchAny rx c u =
      if c.op == "in" then linearFind c.values u else c.values.any (opTest rx c.op u) := by
  unfold matchAny
  split
  · exact findValue_plain c (by rw [hpre]) u
  · rw [Bool.eq_iff_iff, anyIdx_iff, List.any_eq_true]
    simp only [Nat.zero_add]
    constructor
    · rintro ⟨j, hj, h⟩
      refine ⟨c.values[j], List.getElem_mem hj, ?_⟩
      rwa [← doOp_plain_eq_opTest rx c hpre u _ j (List.getElem?_eq_getElem hj)]
    · rintro ⟨v, hv, h⟩
      obtain ⟨j, hj, rfl⟩ := List.getElem_of_mem hv
      refine ⟨j, hj, ?_⟩
      rwa [doOp_plain_eq_opTest rx c hpre u _ j (List.getElem?_eq_getElem hj)]

theorem perm_linearFind {vs vs' : List J} (h : vs.Perm vs') (u : J) :
    linearFind vs u = linearFind vs' u := by
  cases u <;> simp only [linearFind] <;> exact perm_any h _

theorem perm_values (rx : RegexOracle) (c : Clause) (vs' : List J) (hpre : c.pre = {})
    (h : c.values.Perm vs') (u : J) :
    matchAny rx { c with values := vs' } u = matchAny rx c u := by
  rw [matchAny_plain rx c hpre, matchAny_plain rx { c with values := vs' } hpre]
  simp only [perm_linearFind h, perm_any h]

theorem perm_values_clause (rx : RegexOracle) (ctx : Ctx) (c : Clause) (vs' : List J)
    (hpre : c.pre = {}) (h : c.values.Perm vs') :
    clauseMatchNoSeg rx ctx { c with values := vs' } = clauseMatchNoSeg rx ctx c := by
  have hm : matchAny rx { c with values := vs' } = matchAny rx c :=
    funext (perm_values rx c vs' hpre h)
  unfold clauseMatchNoSeg clauseMatchByKind
  simp only [hm]

/-! clause order -/
theorem perm_clauses (rec : Spec.SegRec) (env : Env) (chain : List String) (cs cs' : List Clause)
    (h : cs.Perm cs') (hok : ∀ c ∈ cs, ∃ b, Spec.clauseMatch rec env chain c = .ok b) :
    Spec.clausesMatch rec env chain cs' = Spec.clausesMatch rec env chain cs := by
  induction h with
  | nil => rfl
  | cons x _ ih =>
    simp only [Spec.clausesMatch]
    rw [ih (fun c hc => hok c (List.mem_cons_of_mem _ hc))]
  | swap x y l =>
    obtain ⟨bx, hx⟩ := hok x (List.mem_cons_of_mem _ (List.mem_cons_self ..))
    obtain ⟨by', hy⟩ := hok y (List.mem_cons_self ..)
    simp only [Spec.clausesMatch, hx, hy]
    cases bx <;> cases by' <;> rfl
  | trans h₁ _ ih₁ ih₂ =>
    rw [ih₂ (fun c hc => hok c (h₁.mem_iff.2 hc)), ih₁ hok]
end Order

/-! ## 6. Unreferenced attributes -/

/-- `b` differs from `a` at most in the custom attribute `name` (added, removed or changed). -/
structure AgreeExcept (name : String) (a b : SCtx) : Prop where
  kind : b.kind = a.kind
  key : b.key = a.key
  name_ : b.name = a.name
  anonymous : b.anonymous = a.anonymous
  secondary : b.secondary = a.secondary
  attrs : ∀ n, n ≠ name → b.attrs.lookup n = a.attrs.lookup n

/-- Append a custom attribute (existing lookups are unchanged: the first match wins). -/
def addAttr (sc : SCtx) (name : String) (v : J) : SCtx :=
  { sc with attrs := sc.attrs ++ [(name, v)] }

theorem lookup_append_single (attrs : List (String × J)) (name n : String) (v : J) (h : n ≠ name) :
    (attrs ++ [(name, v)]).lookup n = attrs.lookup n := by
  have hb : (n == name) = false := by simpa using h
  simp [List.lookup_append, List.lookup, hb]

theorem addAttr_agree (sc : SCtx) (name : String) (v : J) : AgreeExcept name sc (addAttr sc name v) :=
  ⟨rfl, rfl, rfl, rfl, rfl, fun n hn => lookup_append_single sc.attrs name n v hn⟩

/-- The reference does not address attribute `name` (or is invalid, in which case no attribute
is read at all). -/
def RefAvoids (r : Ref) (name : String) : Prop := r.errOf.isSome ∨ r.component 0 ≠ name

theorem topLevel_agree {name : String} {a b : SCtx} (h : AgreeExcept name a b) (n : String)
    (hn : n ≠ name) : b.topLevel n = a.topLevel n := by
  unfold SCtx.topLevel
  simp only [h.kind, h.key, h.name_, h.anonymous, h.attrs n hn]

theorem valueForRef_agree {name : String} {a b : SCtx} (h : AgreeExcept name a b) (r : Ref)
    (hr : RefAvoids r name) : b.valueForRef r = a.valueForRef r := by
  unfold SCtx.valueForRef
  rcases hr with hr | hr
  · simp only [hr, if_true]
  · rw [topLevel_agree h _ hr]

/-- 6a. An added attribute is invisible to every reference that does not name it. -/
theorem valueForRef_addAttr (sc : SCtx) (r : Ref) (name : String) (v : J)
    (hr : RefAvoids r name) : (addAttr sc name v).valueForRef r = sc.valueForRef r :=
  valueForRef_agree (addAttr_agree sc name v) r hr

/-- 6b. An added attribute that is shadowed — its name is one of the four built-in names, or the
context already has an attribute of that name — is invisible to *every* reference. -/
theorem valueForRef_addAttr_shadowed (sc : SCtx) (r : Ref) (name : String) (v : J)
    (h : name ∈ ["kind", "key", "name", "anonymous"] ∨ (sc.attrs.lookup name).isSome) :
    (addAttr sc name v).valueForRef r = sc.valueForRef r := by
  have ht : ∀ n, (addAttr sc name v).topLevel n = sc.topLevel n := by
    intro n
    by_cases hn : n = name
    · subst hn
      unfold SCtx.topLevel
      split
      · rfl
      · split
        · rfl
        · split
          · rfl
          · split
            · rfl
            · rename_i h1 h2 h3 h4
              rcases h with h | h
              · simp only [List.mem_cons, List.not_mem_nil, or_false] at h
                simp only [beq_iff_eq] at h1 h2 h3 h4
                rcases h with h | h | h | h <;> contradiction
              · show (sc.attrs ++ [(n, v)]).lookup n = sc.attrs.lookup n
                rw [List.lookup_append]
                cases hl : sc.attrs.lookup n with
                | none => rw [hl] at h; cases h
                | some x => rfl
    · exact topLevel_agree (addAttr_agree sc name v) n hn
  unfold SCtx.valueForRef
  rw [ht]

theorem valueForRef_key (sc : SCtx) : sc.valueForRef (Ref.newLiteral "key") = .str sc.key := by
  have : Ref.newLiteral "key" = { single := "key", raw := "key" } := by decide
  rw [this]
  rfl

/-! mapInd -/
def mapInd (g : SCtx → SCtx) : Ctx → Ctx
  | .invalid => .invalid
  | .single c => .single (g c)
  | .multi cs => .multi (cs.map g)

section MapInd
variable {name : String} {g : SCtx → SCtx} (hg : ∀ sc, AgreeExcept name sc (g sc))
include hg

theorem find_kind_map (k : String) (cs : List SCtx) :
    (cs.map g).find? (fun sc => sc.kind == k) = (cs.find? (fun sc => sc.kind == k)).map g := by
  induction cs with
  | nil => rfl
  | cons c cs ih =>
    simp only [List.map_cons, List.find?_cons, (hg c).kind]
    cases c.kind == k
    · exact ih
    · rfl

theorem byKind_mapInd (ctx : Ctx) (k : String) :
    (mapInd g ctx).byKind k = (ctx.byKind k).map g := by
  cases ctx with
  | invalid => rfl
  | single c => exact find_kind_map hg (normKind k) [c]
  | multi cs => exact find_kind_map hg (normKind k) cs

theorem keyByKind_mapInd (ctx : Ctx) (k : String) :
    (mapInd g ctx).keyByKind k = ctx.keyByKind k := by
  unfold Ctx.keyByKind
  rw [byKind_mapInd hg]
  cases ctx.byKind k with
  | none => rfl
  | some sc => simp only [Option.map_some, (hg sc).key]

theorem kind_mapInd (ctx : Ctx) : (mapInd g ctx).kind = ctx.kind := by
  cases ctx with
  | invalid => rfl
  | single c => exact (hg c).kind
  | multi cs => rfl

theorem clauseMatchByKind_mapInd (rx : RegexOracle) (c : Clause) (ctx : Ctx) :
    clauseMatchByKind rx c (mapInd g ctx) = clauseMatchByKind rx c ctx := by
  cases ctx with
  | invalid => rfl
  | single sc => simp only [clauseMatchByKind, mapInd, Ctx.kind, (hg sc).kind]
  | multi cs =>
    simp only [clauseMatchByKind, mapInd, List.any_map]
    congr 1
    funext sc
    simp only [Function.comp, (hg sc).kind]

theorem targetMatch_mapInd (ctx : Ctx) (t : Target) :
    targetMatch (mapInd g ctx) t = targetMatch ctx t := by
  unfold targetMatch
  rw [byKind_mapInd hg]
  cases ctx.byKind t.contextKind with
  | none => rfl
  | some sc => simp only [Option.map_some, (hg sc).key]

theorem anyTargetMatch_mapInd (ctx : Ctx) (f : Flag) :
    anyTargetMatch (mapInd g ctx) f = anyTargetMatch ctx f := by
  have : targetMatch (mapInd g ctx) = targetMatch ctx := funext (targetMatch_mapInd hg ctx)
  unfold anyTargetMatch
  rw [this]

theorem segLists_mapInd (ctx : Ctx) (s : Segment) :
    segLists (mapInd g ctx) s = segLists ctx s := by
  have h1 : segTargetMatch (mapInd g ctx) = segTargetMatch ctx := by
    funext t; unfold segTargetMatch; rw [keyByKind_mapInd hg]
  unfold segLists
  rw [h1, keyByKind_mapInd hg, kind_mapInd hg]

/-- 6c. A clause whose reference avoids the attribute (or that tests the kind) gives the same
answer. -/
theorem clauseMatchNoSeg_mapInd (rx : RegexOracle) (ctx : Ctx) (c : Clause)
    (h : c.attr.raw = "kind" ∨ RefAvoids c.attr name) :
    clauseMatchNoSeg rx (mapInd g ctx) c = clauseMatchNoSeg rx ctx c := by
  unfold clauseMatchNoSeg
  rw [clauseMatchByKind_mapInd hg, byKind_mapInd hg]
  split
  · rfl
  · split
    · rfl
    · split
      · rfl
      · rename_i h1 h2 h3
        rcases h with h | h
        · rw [h] at h3; simp at h3
        · cases ctx.byKind c.contextKind with
          | none => rfl
          | some sc => simp only [Option.map_some, valueForRef_agree (hg sc) c.attr h]

/-- 6d. Bucketing by a reference that avoids the attribute (or by the key: experiments and
undefined bucket-by) gives the same bucket. -/
theorem computeBucket_mapInd (sk : Bool) (ctx : Ctx) (isExp : Bool) (seed : Option Int)
    (kind key : String) (attr : Ref) (salt : String)
    (h : isExp = true ∨ attr.isDefined = false ∨ RefAvoids attr name) :
    computeBucket sk (mapInd g ctx) isExp seed kind key attr salt =
      computeBucket sk ctx isExp seed kind key attr salt := by
  have hin : bucketInput sk (mapInd g ctx) isExp seed kind key attr salt =
      bucketInput sk ctx isExp seed kind key attr salt := by
    unfold bucketInput
    simp only [byKind_mapInd hg]
    split
    · rfl
    · cases ctx.byKind kind with
      | none => rfl
      | some sc =>
        have hv : (g sc).valueForRef (if (isExp || !attr.isDefined) = true then Ref.newLiteral "key" else attr) =
            sc.valueForRef (if (isExp || !attr.isDefined) = true then Ref.newLiteral "key" else attr) := by
          split
          · rw [valueForRef_key, valueForRef_key, (hg sc).key]
          · rename_i hu
            rcases h with h | h | h
            · simp [h] at hu
            · simp [h] at hu
            · exact valueForRef_agree (hg sc) attr h
        simp only [Option.map_some, hv, (hg sc).secondary]
  unfold computeBucket
  rw [hin]

end MapInd

/-! ### 6e. Lifting to whole evaluations -/

/-- The clause does not read attribute `name`: it is a segment-match clause (no attribute read),
a kind test, or its reference avoids the name. -/
def ClauseAvoids (c : Clause) (name : String) : Prop :=
  c.op = "segmentMatch" ∨ c.attr.raw = "kind" ∨ RefAvoids c.attr name

/-- A bucket-by reference that does not read `name` (undefined means "bucket by key"). -/
def BucketByAvoids (attr : Ref) (name : String) : Prop :=
  attr.isDefined = false ∨ RefAvoids attr name

/-- A fixed variation, an experiment (always bucketed by key) or a rollout whose bucket-by avoids
the name. -/
def VRAvoids (vr : VariationOrRollout) (name : String) : Prop :=
  vr.variation.isSome ∨ vr.rollout.isExperiment = true ∨ BucketByAvoids vr.rollout.bucketBy name

def FlagAvoids (f : Flag) (name : String) : Prop :=
  (∀ r ∈ f.rules, (∀ c ∈ r.clauses, ClauseAvoids c name) ∧ VRAvoids r.vr name) ∧
  VRAvoids f.fallthrough name

def SegAvoids (s : Segment) (name : String) : Prop :=
  ∀ r ∈ s.rules, (∀ c ∈ r.clauses, ClauseAvoids c name) ∧
    (r.weight = none ∨ BucketByAvoids r.bucketBy name)

section Lift6
variable {name : String} {g : SCtx → SCtx} (hg : ∀ sc, AgreeExcept name sc (g sc)) (env : Env)
include hg

theorem clauseOK_of_avoids (c : Clause) (h : ClauseAvoids c name) :
    ClauseOK env (mapInd g env.ctx) c := by
  rcases h with h | h
  · exact .inl h
  · exact .inr (clauseMatchNoSeg_mapInd hg env.rx env.ctx c h)

theorem vrOK_of_avoids (vr : VariationOrRollout) (h : VRAvoids vr name) :
    VROK env (mapInd g env.ctx) vr := by
  rcases h with h | h
  · exact .inl h
  · exact .inr (fun _ _ _ => computeBucket_mapInd hg _ _ _ _ _ _ _ _ h)

theorem flagOK_of_avoids (f : Flag) (h : FlagAvoids f name) : FlagOK env (mapInd g env.ctx) f :=
  ⟨anyTargetMatch_mapInd hg env.ctx f,
   fun r hr => ⟨fun c hc => clauseOK_of_avoids hg env c ((h.1 r hr).1 c hc),
                vrOK_of_avoids hg env r.vr (h.1 r hr).2⟩,
   vrOK_of_avoids hg env _ h.2⟩

theorem segOK_of_avoids (s : Segment) (h : SegAvoids s name) : SegOK env (mapInd g env.ctx) s :=
  ⟨segLists_mapInd hg env.ctx s, keyByKind_mapInd hg env.ctx _,
   fun r hr => ⟨fun c hc => clauseOK_of_avoids hg env c ((h r hr).1 c hc),
     (h r hr).2.imp id (fun hb => fun _ _ _ =>
        computeBucket_mapInd hg _ _ _ _ _ _ _ _ (.inr hb))⟩⟩

/-- **6. Unreferenced attribute.**  Changing (adding, removing, replacing) a custom attribute
`name` in any of the individual contexts does not change the result of evaluating `f`, provided no
clause and no bucket-by of `f`, of any flag of the store (prerequisites) or of any segment of the
store refers to `name`. -/
theorem unreferenced_attribute
    (hF : ∀ fl ∈ env.store.flags.map (·.2), FlagAvoids fl name)
    (hS : ∀ s ∈ env.store.segments.map (·.2), SegAvoids s name)
    (sf n : Nat) (f : Flag) (hf : FlagAvoids f name) (chain : List String) :
    Spec.evalFlag sf n (withCtx env (mapInd g env.ctx)) f chain = Spec.evalFlag sf n env f chain :=
  evalFlag_ctx (fun fl hfl => flagOK_of_avoids hg env fl (hF fl hfl))
    (fun s hs => segOK_of_avoids hg env s (hS s hs)) sf n f (flagOK_of_avoids hg env f hf) chain

end Lift6

theorem AgreeExcept.refl (name : String) (sc : SCtx) : AgreeExcept name sc sc :=
  ⟨rfl, rfl, rfl, rfl, rfl, fun _ _ => rfl⟩

/-- Add the attribute to the individual contexts of kind `k` only. -/
def addAttrTo (k name : String) (v : J) (sc : SCtx) : SCtx :=
  if sc.kind == k then addAttr sc name v else sc

theorem addAttrTo_agree (k name : String) (v : J) (sc : SCtx) :
    AgreeExcept name sc (addAttrTo k name v sc) := by
  unfold addAttrTo
  split
  · exact addAttr_agree sc name v
  · exact AgreeExcept.refl name sc

/-- The property as worded: adding a context attribute that no clause or bucket-by names. -/
theorem add_unreferenced_attribute (env : Env) (k name : String) (v : J)
    (hF : ∀ fl ∈ env.store.flags.map (·.2), FlagAvoids fl name)
    (hS : ∀ s ∈ env.store.segments.map (·.2), SegAvoids s name)
    (sf n : Nat) (f : Flag) (hf : FlagAvoids f name) (chain : List String) :
    Spec.evalFlag sf n (withCtx env (mapInd (addAttrTo k name v) env.ctx)) f chain =
      Spec.evalFlag sf n env f chain :=
  unreferenced_attribute (addAttrTo_agree k name v) env hF hS sf n f hf chain

/-! ## 7. Unreferenced kinds -/

/-- `ctx'` is `ctx` plus individual context(s) of kind `k`: every lookup by another kind gives the
same individual context, and a kind test that `k` does not satisfy gives the same answer. -/
structure ExtraKind (k : String) (ctx ctx' : Ctx) : Prop where
  byKind : ∀ kind, normKind kind ≠ k → ctx'.byKind kind = ctx.byKind kind
  kindClause : ∀ rx c, matchAny rx c (.str k) = false →
    clauseMatchByKind rx c ctx' = clauseMatchByKind rx c ctx

theorem find_append_extra (cs : List SCtx) (extra : SCtx) (kind : String)
    (h : normKind kind ≠ extra.kind) :
    (cs ++ [extra]).find? (fun sc => sc.kind == normKind kind) =
      cs.find? (fun sc => sc.kind == normKind kind) := by
  have : (extra.kind == normKind kind) = false := by
    simpa using fun e => h e.symm
  simp [List.find?_append, this]

/-- 7a. A multi-context with one more individual context. -/
theorem extraKind_multi (cs : List SCtx) (extra : SCtx) :
    ExtraKind extra.kind (.multi cs) (.multi (cs ++ [extra])) where
  byKind := fun kind h => find_append_extra cs extra kind h
  kindClause := by
    intro rx c h
    simp only [clauseMatchByKind, List.any_append, List.any_cons, List.any_nil, h, Bool.or_false]

/-- 7b. A single context made into a multi-context by adding one individual context. -/
theorem extraKind_single (sc extra : SCtx) :
    ExtraKind extra.kind (.single sc) (.multi [sc, extra]) where
  byKind := fun kind h => find_append_extra [sc] extra kind h
  kindClause := by
    intro rx c h
    simp only [clauseMatchByKind, List.any_cons, List.any_nil, h, Bool.or_false, Ctx.kind]

section Kind
variable {k : String} {ctx ctx' : Ctx} (h : ExtraKind k ctx ctx')
include h

theorem keyByKind_extraKind (kind : String) (hk : normKind kind ≠ k) :
    ctx'.keyByKind kind = ctx.keyByKind kind := by
  unfold Ctx.keyByKind; rw [h.byKind kind hk]

/-- 7c. Targets of another kind. -/
theorem targetMatch_extraKind (t : Target) (ht : normKind t.contextKind ≠ k) :
    targetMatch ctx' t = targetMatch ctx t := by
  unfold targetMatch; rw [h.byKind _ ht]

theorem segTargetMatch_extraKind (t : SegmentTarget) (ht : normKind t.contextKind ≠ k) :
    segTargetMatch ctx' t = segTargetMatch ctx t := by
  unfold segTargetMatch; rw [keyByKind_extraKind h _ ht]

theorem anyTargetMatch_extraKind (f : Flag)
    (h1 : ∀ t ∈ f.targets, normKind t.contextKind ≠ k)
    (h2 : ∀ t ∈ f.contextTargets, normKind t.contextKind ≠ k) :
    anyTargetMatch ctx' f = anyTargetMatch ctx f := by
  unfold anyTargetMatch
  split
  · exact C03.findSome?_congr' _ _ _ (fun t ht => targetMatch_extraKind h t (h1 t ht))
  · apply C03.findSome?_congr'
    intro t ht
    split
    · cases hfind : f.targets.find? (fun t1 => t1.variation == t.variation) with
      | none => rfl
      | some t1 =>
        exact targetMatch_extraKind h t1 (h1 t1 (List.mem_of_find?_eq_some hfind))
    · exact targetMatch_extraKind h t (h2 t ht)

/-- The clause is blind to kind `k`: a kind test that `k` fails, or an attribute test on another
kind. -/
def ClauseIgnoresKind (rx : RegexOracle) (c : Clause) (k : String) : Prop :=
  (c.attr.raw = "kind" → matchAny rx c (.str k) = false) ∧
  (c.attr.raw ≠ "kind" → normKind c.contextKind ≠ k)

/-- 7d. Clauses. -/
theorem clauseMatchNoSeg_extraKind (rx : RegexOracle) (c : Clause)
    (hc : ClauseIgnoresKind rx c k) :
    clauseMatchNoSeg rx ctx' c = clauseMatchNoSeg rx ctx c := by
  unfold clauseMatchNoSeg
  split
  · rfl
  · split
    · rfl
    · split
      · rename_i h3
        rw [h.kindClause rx c (hc.1 (by simpa using h3))]
      · rename_i h3
        rw [h.byKind _ (hc.2 (by simpa using h3))]

/-- 7e. Bucketing. -/
theorem computeBucket_extraKind (sk : Bool) (isExp : Bool) (seed : Option Int)
    (kind key : String) (attr : Ref) (salt : String) (hk : normKind kind ≠ k) :
    computeBucket sk ctx' isExp seed kind key attr salt =
      computeBucket sk ctx isExp seed kind key attr salt := by
  unfold computeBucket bucketInput
  simp only [h.byKind kind hk]

/-- 7f. The list checks of a segment.  Besides the obvious conditions — the extra kind is not the
default kind and no per-kind list is of the extra kind — the lists must be insensitive to the
"single `user` context" shortcut: either both contexts take it or neither (`hU` left), or the
original takes it and no per-kind list is for kind `user` (`hU` right). -/
theorem segLists_extraKind (s : Segment) (hk : k ≠ defaultKind)
    (hi : ∀ t ∈ s.includedContexts, normKind t.contextKind ≠ k)
    (he : ∀ t ∈ s.excludedContexts, normKind t.contextKind ≠ k)
    (hU : (ctx'.kind == defaultKind) = (ctx.kind == defaultKind) ∨
      (ctx.kind = defaultKind ∧
        (∀ t ∈ s.includedContexts, normKind t.contextKind ≠ defaultKind) ∧
        (∀ t ∈ s.excludedContexts, normKind t.contextKind ≠ defaultKind))) :
    segLists ctx' s = segLists ctx s := by
  have hdk : ctx'.keyByKind defaultKind = ctx.keyByKind defaultKind :=
    keyByKind_extraKind h defaultKind (by
      have : normKind defaultKind = defaultKind := by decide
      rw [this]; exact Ne.symm hk)
  have hany : ∀ ts : List SegmentTarget, (∀ t ∈ ts, normKind t.contextKind ≠ k) →
      ts.any (segTargetMatch ctx') = ts.any (segTargetMatch ctx) := by
    intro ts hts
    induction ts with
    | nil => rfl
    | cons t ts ih =>
      simp only [List.any_cons, segTargetMatch_extraKind h t (hts t (List.mem_cons_self ..)),
        ih (fun t' ht' => hts t' (List.mem_cons_of_mem _ ht'))]
  unfold segLists
  simp only [hdk, hany _ hi, hany _ he]
  rcases hU with hU | ⟨hU, hi', he'⟩
  · rw [hU]
  · have hnone : ∀ ts : List SegmentTarget, (∀ t ∈ ts, normKind t.contextKind ≠ defaultKind) →
        ts.any (segTargetMatch ctx) = false := by
      intro ts hts
      rw [List.any_eq_false]
      intro t ht
      have h1 : t.contextKind ≠ "" := by
        intro e; exact hts t ht (by simp [normKind, e])
      have h2 : t.contextKind ≠ "user" := by
        intro e; exact hts t ht (by simp [normKind, e, defaultKind])
      simp [segTargetMatch, C05.keyByKind_none_of_user ctx hU t.contextKind h1 h2]
    simp only [hnone _ hi', hnone _ he', Bool.and_false]

end Kind

/-! ### 7g. Lifting to whole evaluations -/

def VRIgnoresKind (vr : VariationOrRollout) (k : String) : Prop :=
  vr.variation.isSome ∨ normKind vr.rollout.contextKind ≠ k

def FlagIgnoresKind (rx : RegexOracle) (f : Flag) (k : String) : Prop :=
  (∀ t ∈ f.targets, normKind t.contextKind ≠ k) ∧
  (∀ t ∈ f.contextTargets, normKind t.contextKind ≠ k) ∧
  (∀ r ∈ f.rules, (∀ c ∈ r.clauses, c.op = "segmentMatch" ∨ ClauseIgnoresKind rx c k) ∧
    VRIgnoresKind r.vr k) ∧
  VRIgnoresKind f.fallthrough k

def SegIgnoresKind (rx : RegexOracle) (s : Segment) (k : String) : Prop :=
  (∀ t ∈ s.includedContexts, normKind t.contextKind ≠ k) ∧
  (∀ t ∈ s.excludedContexts, normKind t.contextKind ≠ k) ∧
  normKind s.unboundedContextKind ≠ k ∧
  ∀ r ∈ s.rules, (∀ c ∈ r.clauses, c.op = "segmentMatch" ∨ ClauseIgnoresKind rx c k) ∧
    (r.weight = none ∨ normKind r.rolloutContextKind ≠ k)

/-- The "single `user` context" shortcut of the segment lists is not observable on segment `s`. -/
def ShortcutNeutral (ctx ctx' : Ctx) (s : Segment) : Prop :=
  (ctx'.kind == defaultKind) = (ctx.kind == defaultKind) ∨
    (ctx.kind = defaultKind ∧
      (∀ t ∈ s.includedContexts, normKind t.contextKind ≠ defaultKind) ∧
      (∀ t ∈ s.excludedContexts, normKind t.contextKind ≠ defaultKind))

section Lift7
variable {k : String} (env : Env) {ctx' : Ctx} (h : ExtraKind k env.ctx ctx')
include h

theorem vrOK_of_ignores (vr : VariationOrRollout) (hv : VRIgnoresKind vr k) : VROK env ctx' vr :=
  hv.imp id (fun hk => fun _ _ _ => computeBucket_extraKind h _ _ _ _ _ _ _ hk)

theorem clauseOK_of_ignores (c : Clause)
    (hc : c.op = "segmentMatch" ∨ ClauseIgnoresKind env.rx c k) : ClauseOK env ctx' c :=
  hc.imp id (fun hc => clauseMatchNoSeg_extraKind h env.rx c hc)

theorem flagOK_of_ignores (f : Flag) (hf : FlagIgnoresKind env.rx f k) : FlagOK env ctx' f :=
  ⟨anyTargetMatch_extraKind h f hf.1 hf.2.1,
   fun r hr => ⟨fun c hc => clauseOK_of_ignores env h c ((hf.2.2.1 r hr).1 c hc),
                vrOK_of_ignores env h r.vr (hf.2.2.1 r hr).2⟩,
   vrOK_of_ignores env h _ hf.2.2.2⟩

theorem segOK_of_ignores (hk : k ≠ defaultKind) (s : Segment) (hs : SegIgnoresKind env.rx s k)
    (hU : ShortcutNeutral env.ctx ctx' s) : SegOK env ctx' s :=
  ⟨segLists_extraKind h s hk hs.1 hs.2.1 hU, keyByKind_extraKind h _ hs.2.2.1,
   fun r hr => ⟨fun c hc => clauseOK_of_ignores env h c ((hs.2.2.2 r hr).1 c hc),
     (hs.2.2.2 r hr).2.imp id
       (fun hb => fun _ _ _ => computeBucket_extraKind h _ _ _ _ _ _ _ hb)⟩⟩

/-- **7. Unreferenced kind.**  Adding an individual context of a kind `k` (not the default kind)
that no target, clause, rollout or segment of the configuration in scope mentions and that no
kind-test clause matches leaves the result unchanged — provided the "single `user` context"
shortcut of the segment lists is not observable (`ShortcutNeutral`; automatic when the original
context is already a multi-context, or a single context of a kind other than `user`). -/
theorem unreferenced_kind (hk : k ≠ defaultKind)
    (hF : ∀ fl ∈ env.store.flags.map (·.2), FlagIgnoresKind env.rx fl k)
    (hS : ∀ s ∈ env.store.segments.map (·.2), SegIgnoresKind env.rx s k ∧ ShortcutNeutral env.ctx ctx' s)
    (sf n : Nat) (f : Flag) (hf : FlagIgnoresKind env.rx f k) (chain : List String) :
    Spec.evalFlag sf n (withCtx env ctx') f chain = Spec.evalFlag sf n env f chain :=
  evalFlag_ctx (fun fl hfl => flagOK_of_ignores env h fl (hF fl hfl))
    (fun s hs => segOK_of_ignores env h hk s (hS s hs).1 (hS s hs).2) sf n f
    (flagOK_of_ignores env h f hf) chain

end Lift7

/-- 7, multi-context form: no shortcut condition is needed. -/
theorem unreferenced_kind_multi (env : Env) (cs : List SCtx) (extra : SCtx)
    (hctx : env.ctx = .multi cs) (hk : extra.kind ≠ defaultKind)
    (hF : ∀ fl ∈ env.store.flags.map (·.2), FlagIgnoresKind env.rx fl extra.kind)
    (hS : ∀ s ∈ env.store.segments.map (·.2), SegIgnoresKind env.rx s extra.kind)
    (sf n : Nat) (f : Flag) (hf : FlagIgnoresKind env.rx f extra.kind) (chain : List String) :
    Spec.evalFlag sf n (withCtx env (.multi (cs ++ [extra]))) f chain =
      Spec.evalFlag sf n env f chain := by
  have h : ExtraKind extra.kind env.ctx (.multi (cs ++ [extra])) := by
    rw [hctx]; exact extraKind_multi cs extra
  refine unreferenced_kind env h hk hF (fun s hs => ⟨hS s hs, .inl ?_⟩) sf n f hf chain
  rw [hctx]; rfl

/-- 7, single-context form: the original context is not of kind `user`, or no segment has a
per-kind list for kind `user`. -/
theorem unreferenced_kind_single (env : Env) (sc extra : SCtx)
    (hctx : env.ctx = .single sc) (hk : extra.kind ≠ defaultKind)
    (hU : sc.kind ≠ defaultKind ∨ ∀ s ∈ env.store.segments.map (·.2),
      (∀ t ∈ s.includedContexts, normKind t.contextKind ≠ defaultKind) ∧
      (∀ t ∈ s.excludedContexts, normKind t.contextKind ≠ defaultKind))
    (hF : ∀ fl ∈ env.store.flags.map (·.2), FlagIgnoresKind env.rx fl extra.kind)
    (hS : ∀ s ∈ env.store.segments.map (·.2), SegIgnoresKind env.rx s extra.kind)
    (sf n : Nat) (f : Flag) (hf : FlagIgnoresKind env.rx f extra.kind) (chain : List String) :
    Spec.evalFlag sf n (withCtx env (.multi [sc, extra])) f chain =
      Spec.evalFlag sf n env f chain := by
  have h : ExtraKind extra.kind env.ctx (.multi [sc, extra]) := by
    rw [hctx]; exact extraKind_single sc extra
  refine unreferenced_kind env h hk hF (fun s hs => ⟨hS s hs, ?_⟩) sf n f hf chain
  rw [hctx]
  by_cases hsc : sc.kind = defaultKind
  · rcases hU with hU | hU
    · exact absurd hsc hU
    · exact .inr ⟨hsc, hU s hs⟩
  · left
    have h1 : (sc.kind == defaultKind) = false := by simpa using hsc
    have h2 : ("multi" == defaultKind) = false := by decide
    show ("multi" == defaultKind) = (sc.kind == defaultKind)
    rw [h1, h2]

/-! ## Flag-level and Spec-level corollaries of 2–5 -/

/-- `rulesLoop` reads the flag only for value selection, not for its rule list. -/
theorem rulesLoop_rules_irrelevant (seg : Spec.SegRec) (env : Env) (f : Flag) (rules' : List FlagRule) :
    ∀ rs i, Spec.rulesLoop seg env { f with rules := rules' } rs i = Spec.rulesLoop seg env f rs i := by
  intro rs
  induction rs with
  | nil => intro i; rfl
  | cons r rs ih =>
    intro i
    simp only [Spec.rulesLoop, ih]
    rfl

/-- **2, flag level.**  Appending rules to a flag whose decision is taken by one of its rules (or
before the rules stage) does not change `evalBody`, whatever the recursion does. -/
theorem append_rules_evalBody (rec : Spec.FlagRec) (seg : Spec.SegRec) (env : Env) (f : Flag)
    (extra : List FlagRule) (chain : List String)
    (h : ∃ r ∈ f.rules, Spec.clausesMatch seg env [] r.clauses ≠ .ok false) :
    Spec.evalBody rec seg env { f with rules := f.rules ++ extra } chain =
      Spec.evalBody rec seg env f chain := by
  unfold Spec.evalBody
  simp only [rulesLoop_rules_irrelevant, append_rules_general seg env f f.rules extra 0 h]
  rfl

/-- What `shiftFrom` keeps: the value, the variation index, the `ok` bit, and every field of the
reason except the rule index. -/
theorem shiftFrom_keeps (k : Nat) (r : Option (Detail × Bool)) :
    (shiftFrom k r).map (fun p => (p.1.value, p.1.index, p.2, p.1.reason.kind, p.1.reason.ruleId,
        p.1.reason.prereqKey, p.1.reason.errorKind, p.1.reason.inExperiment,
        p.1.reason.bigSegmentsStatus)) =
      r.map (fun p => (p.1.value, p.1.index, p.2, p.1.reason.kind, p.1.reason.ruleId,
        p.1.reason.prereqKey, p.1.reason.errorKind, p.1.reason.inExperiment,
        p.1.reason.bigSegmentsStatus)) := by
  cases r with
  | none => rfl
  | some p =>
    simp only [shiftFrom, Option.map_some, shiftDetail, shiftReason]
    split <;> rfl

/-- What `shiftFrom` changes: nothing unless the reason is RULE_MATCH at an index `≥ k`. -/
theorem shiftFrom_of_not_ruleMatch (k : Nat) (d : Detail) (ok : Bool)
    (h : d.reason.kind ≠ .ruleMatch ∨ d.reason.ruleIndex < k) :
    shiftFrom k (some (d, ok)) = some (d, ok) := by
  have : ¬ (d.reason.kind = .ruleMatch ∧ d.reason.ruleIndex ≥ k) := by
    rintro ⟨h1, h2⟩
    rcases h with h | h
    · exact h h1
    · omega
  simp only [shiftFrom, Option.map_some, shiftDetail, shiftReason, if_neg this]

/-- **4, Spec level.**  Reordering the values of a plain non-segment clause. -/
theorem perm_values_spec (rec : Spec.SegRec) (env : Env) (chain : List String) (c : Clause)
    (vs' : List J) (hseg : c.op ≠ "segmentMatch") (hpre : c.pre = {}) (h : c.values.Perm vs') :
    Spec.clauseMatch rec env chain { c with values := vs' } = Spec.clauseMatch rec env chain c := by
  have hs : (c.op == "segmentMatch") = false := by simpa using hseg
  simp only [Spec.clauseMatch, hs, Bool.false_eq_true, if_false,
    perm_values_clause env.rx env.ctx c vs' hpre h]

/-- **5, rule level.**  Reordering the clauses of a flag rule all of which evaluate without error
does not change the rule loop. -/
theorem perm_clauses_rule (seg : Spec.SegRec) (env : Env) (f : Flag) (r : FlagRule)
    (cs' : List Clause) (rs : List FlagRule) (i : Nat) (h : r.clauses.Perm cs')
    (hok : ∀ c ∈ r.clauses, ∃ b, Spec.clauseMatch seg env [] c = .ok b) :
    Spec.rulesLoop seg env f ({ r with clauses := cs' } :: rs) i =
      Spec.rulesLoop seg env f (r :: rs) i := by
  simp only [Spec.rulesLoop, perm_clauses seg env [] r.clauses cs' h hok]

/-! ## 8. Non-vacuity -/

section Examples

/-- A concrete never-matching clause: `email in []`. -/
def deadClause : Clause := { attr := Ref.newRef "email", op := "in", values := [] }

example (rx : RegexOracle) (ctx : Ctx) : clauseMatchNoSeg rx ctx deadClause = .ok false :=
  in_empty_never_matches rx ctx deadClause rfl rfl rfl rfl (by decide) (by decide) (by decide)

example (seg : Spec.SegRec) (env : Env) :
    Spec.clausesMatch seg env [] ({ clauses := [deadClause] } : FlagRule).clauses = .ok false :=
  dead_rule_example seg env _ deadClause rfl rfl rfl rfl rfl (by decide) (by decide) (by decide)

/-- The shift moves a RULE_MATCH at or after the insertion point and nothing else. -/
example : (shiftDetail 1 { reason := .ruleMatch 2 "r" }).reason.ruleIndex = 3 := by decide
example : (shiftDetail 3 { reason := .ruleMatch 2 "r" }).reason.ruleIndex = 2 := by decide
example : (shiftDetail 0 { reason := .fallthrough }).reason = .fallthrough := by decide

/-- The hypothesis of `perm_clauses` cannot be dropped: with an erroring clause the order is
observable (first error / first non-match wins). -/
example (seg : Spec.SegRec) (env : Env) :
    Spec.clausesMatch seg env [] [deadClause, {}] = .ok false ∧
    Spec.clausesMatch seg env [] [{}, deadClause] = .err .emptyAttr := by
  have h1 : Spec.clauseMatch seg env [] deadClause = .ok false := by
    have := in_empty_never_matches env.rx env.ctx deadClause rfl rfl rfl rfl
      (by decide) (by decide) (by decide)
    have hs : (deadClause.op == "segmentMatch") = false := by decide
    simp only [Spec.clauseMatch, hs, Bool.false_eq_true, if_false, this, Res.ofExcept]
  have h2 : Spec.clauseMatch seg env [] {} = .err .emptyAttr := by
    have hs : (({} : Clause).op == "segmentMatch") = false := by decide
    have hd : (!({} : Clause).attr.isDefined) = true := by decide
    simp only [Spec.clauseMatch, hs, Bool.false_eq_true, if_false, clauseMatchNoSeg, hd, if_true,
      Res.ofExcept]
  exact ⟨by simp only [Spec.clausesMatch, h1], by simp only [Spec.clausesMatch, h2]⟩

def exUser : SCtx := { kind := "user", key := "k" }
def emailClause : Clause :=
  { attr := Ref.newRef "email", op := "in", values := [.str "x@y"] }
def nameClause : Clause :=
  { attr := Ref.newRef "name", op := "in", values := [.str "x@y"] }

/-- A *referenced* attribute does matter (the hypothesis `RefAvoids` is not vacuous) … -/
example (rx : RegexOracle) :
    clauseMatchNoSeg rx (.single exUser) emailClause = .ok false ∧
    clauseMatchNoSeg rx (.single (addAttr exUser "email" (.str "x@y"))) emailClause = .ok true := by
  constructor <;> rfl

/-- … an unreferenced one does not … -/
example (rx : RegexOracle) (v : J) :
    clauseMatchNoSeg rx (mapInd (addAttrTo "user" "plan" v) (.single exUser)) emailClause =
      clauseMatchNoSeg rx (.single exUser) emailClause :=
  clauseMatchNoSeg_mapInd (addAttrTo_agree "user" "plan" v) rx _ _ (.inr (.inr (by decide)))

/-- … and one shadowed by a built-in name is never seen, even by a clause that names it. -/
example (v : J) : (addAttr exUser "name" v).valueForRef nameClause.attr = exUser.valueForRef nameClause.attr :=
  valueForRef_addAttr_shadowed exUser _ "name" v (.inl (by decide))

def exOrg : SCtx := { kind := "org", key := "o" }

/-- A segment with a per-kind list for kind `user`. -/
def exSeg : Segment := { key := "s", includedContexts := [{ contextKind := "user", values := ["k"] }] }

/-- The caveat of 7 is real: for a single `user` context the per-kind lists are skipped, so adding
an individual context of an unrelated kind makes this segment's list match. -/
example :
    segLists (.single exUser) exSeg = none ∧
    segLists (.multi [exUser, exOrg]) exSeg = some true := by
  constructor <;> decide

/-- … whereas from a multi-context (or a single non-`user` context) nothing changes. -/
example (extra : SCtx) (hk : extra.kind ≠ "user") :
    segLists (.multi ([exUser, exOrg] ++ [extra])) exSeg = segLists (.multi [exUser, exOrg]) exSeg :=
  segLists_extraKind (extraKind_multi [exUser, exOrg] extra) exSeg hk
    (by intro t ht; simp only [exSeg, List.mem_cons, List.not_mem_nil, or_false] at ht
        subst ht; intro e; exact hk e.symm)
    (by intro t ht; cases ht) (.inl rfl)

end Examples

/-! ## Strengthened statements (theorem audit) -/

section Audit

/-! ### 6–7 at the entry point: the WHOLE observation of `evaluate`

The model-level context congruence `evaluate_ctx` (`Proofs/AuditLocality.lean`) turns the two
context perturbations into equalities of `Obs`: result (big-segments status included),
`isExperiment`, prerequisite events, log lines, flag and segment lookups, big-segment queries and
membership checks. -/

theorem mapInd_invalid_iff (g : SCtx → SCtx) (ctx : Ctx) :
    mapInd g ctx = .invalid ↔ ctx = .invalid := by
  cases ctx <;> simp [mapInd]

/-- **6, entry point.**  Changing (adding, removing, replacing) a custom attribute that no clause
and no bucket-by of the evaluated flag, of any stored flag or of any stored segment refers to
changes NOTHING observable about `Evaluator.Evaluate`: not the result, its big-segments status or
experiment bit, not the prerequisite events, not the log lines, not which flags, segments and
big-segment memberships are looked up. -/
theorem evaluate_unreferenced_attribute {name : String} {g : SCtx → SCtx}
    (hg : ∀ sc, AgreeExcept name sc (g sc)) (env : Env)
    (hF : ∀ fl ∈ env.store.flags.map (·.2), FlagAvoids fl name)
    (hS : ∀ s ∈ env.store.segments.map (·.2), SegAvoids s name)
    (f : Flag) (hf : FlagAvoids f name) :
    evaluate (withCtx env (mapInd g env.ctx)) f = evaluate env f :=
  evaluate_ctx (fun fl hfl => flagOK_of_avoids hg env fl (hF fl hfl))
    (fun s hs => segOK_of_avoids hg env s (hS s hs)) f (flagOK_of_avoids hg env f hf)
    (mapInd_invalid_iff g env.ctx)

/-- 6 as worded: adding an attribute `name` to the individual contexts of kind `k`. -/
theorem evaluate_add_unreferenced_attribute (env : Env) (k name : String) (v : J)
    (hF : ∀ fl ∈ env.store.flags.map (·.2), FlagAvoids fl name)
    (hS : ∀ s ∈ env.store.segments.map (·.2), SegAvoids s name)
    (f : Flag) (hf : FlagAvoids f name) :
    evaluate (withCtx env (mapInd (addAttrTo k name v) env.ctx)) f = evaluate env f :=
  evaluate_unreferenced_attribute (addAttrTo_agree k name v) env hF hS f hf

/-- **7, entry point.**  Adding individual context(s) of a kind `k` that nothing in scope mentions
changes nothing observable about `Evaluate`.  Side conditions, all needed: `k` is not the default
kind; `ShortcutNeutral` for every stored segment (the evaluator skips the per-kind segment lists for
a single `user` context, so turning such a context into a multi-context makes a per-kind list for
kind `user` visible — counterexample `shortcut_observable` below); and the new context is invalid
exactly when the old one is (an invalid context is answered USER_NOT_SPECIFIED before anything is
read). -/
theorem evaluate_unreferenced_kind {k : String} (env : Env) {ctx' : Ctx}
    (h : ExtraKind k env.ctx ctx') (hinv : ctx' = .invalid ↔ env.ctx = .invalid)
    (hk : k ≠ defaultKind)
    (hF : ∀ fl ∈ env.store.flags.map (·.2), FlagIgnoresKind env.rx fl k)
    (hS : ∀ s ∈ env.store.segments.map (·.2),
      SegIgnoresKind env.rx s k ∧ ShortcutNeutral env.ctx ctx' s)
    (f : Flag) (hf : FlagIgnoresKind env.rx f k) :
    evaluate (withCtx env ctx') f = evaluate env f :=
  evaluate_ctx (fun fl hfl => flagOK_of_ignores env h fl (hF fl hfl))
    (fun s hs => segOK_of_ignores env h hk s (hS s hs).1 (hS s hs).2) f
    (flagOK_of_ignores env h f hf) hinv

/-- 7, multi-context form (no shortcut condition). -/
theorem evaluate_unreferenced_kind_multi (env : Env) (cs : List SCtx) (extra : SCtx)
    (hctx : env.ctx = .multi cs) (hk : extra.kind ≠ defaultKind)
    (hF : ∀ fl ∈ env.store.flags.map (·.2), FlagIgnoresKind env.rx fl extra.kind)
    (hS : ∀ s ∈ env.store.segments.map (·.2), SegIgnoresKind env.rx s extra.kind)
    (f : Flag) (hf : FlagIgnoresKind env.rx f extra.kind) :
    evaluate (withCtx env (.multi (cs ++ [extra]))) f = evaluate env f := by
  have h : ExtraKind extra.kind env.ctx (.multi (cs ++ [extra])) := by
    rw [hctx]; exact extraKind_multi cs extra
  refine evaluate_unreferenced_kind env h (by rw [hctx]; simp) hk hF
    (fun s hs => ⟨hS s hs, .inl ?_⟩) f hf
  rw [hctx]; rfl

/-- 7, single-context form: the original context is not of kind `user`, or no stored segment has a
per-kind list for kind `user`. -/
theorem evaluate_unreferenced_kind_single (env : Env) (sc extra : SCtx)
    (hctx : env.ctx = .single sc) (hk : extra.kind ≠ defaultKind)
    (hU : sc.kind ≠ defaultKind ∨ ∀ s ∈ env.store.segments.map (·.2),
      (∀ t ∈ s.includedContexts, normKind t.contextKind ≠ defaultKind) ∧
      (∀ t ∈ s.excludedContexts, normKind t.contextKind ≠ defaultKind))
    (hF : ∀ fl ∈ env.store.flags.map (·.2), FlagIgnoresKind env.rx fl extra.kind)
    (hS : ∀ s ∈ env.store.segments.map (·.2), SegIgnoresKind env.rx s extra.kind)
    (f : Flag) (hf : FlagIgnoresKind env.rx f extra.kind) :
    evaluate (withCtx env (.multi [sc, extra])) f = evaluate env f := by
  have h : ExtraKind extra.kind env.ctx (.multi [sc, extra]) := by
    rw [hctx]; exact extraKind_single sc extra
  refine evaluate_unreferenced_kind env h (by rw [hctx]; simp) hk hF
    (fun s hs => ⟨hS s hs, ?_⟩) f hf
  rw [hctx]
  by_cases hsc : sc.kind = defaultKind
  · rcases hU with hU | hU
    · exact absurd hsc hU
    · exact .inr ⟨hsc, hU s hs⟩
  · left
    have h1 : (sc.kind == defaultKind) = false := by simpa using hsc
    have h2 : ("multi" == defaultKind) = false := by decide
    show ("multi" == defaultKind) = (sc.kind == defaultKind)
    rw [h1, h2]

/-! ### 2 at the entry point: appended rules -/

/-- **2, entry point.**  Appending rules to a flag one of whose rules does not evaluate to "no
match" (it matches, or it is malformed) changes nothing observable about `Evaluate` — result,
status, `isExperiment` (which indexes the rule list), events, log lines, lookups, queries.  The
hypothesis is about the Spec at the fuel `evaluate` uses; `evaluate_append_rules_of_kind` replaces it
by a condition on the returned reason. -/
theorem evaluate_append_rules (env : Env) (f : Flag) (extra : List FlagRule)
    (h : ∃ r ∈ f.rules,
      Spec.clausesMatch (Spec.segContains (segFuel env.store) env) env [] r.clauses ≠ .ok false) :
    evaluate env { f with rules := f.rules ++ extra } = evaluate env f := by
  apply evaluate_rules_eq
  · intro st1 hc _
    apply m_rulesLoop_append
    intro hft
    obtain ⟨r, hr, hne⟩ := h
    exact hne (fallsThrough_spec (segContains_refines _ env) f.rules st1 hc hft r hr)
  · intro i rule hr
    have hi : i < f.rules.length := (List.getElem?_eq_some_iff.mp hr).1
    rw [List.getElem?_append_left hi, hr]; rfl

/-- **2, entry point, by the returned reason.**  If `Evaluate` answers OFF, TARGET_MATCH,
PREREQUISITE_FAILED or RULE_MATCH — i.e. anything decided before the fallthrough; an ERROR may come
from the fallthrough's rollout and is covered by `evaluate_append_rules` — then appending rules
changes nothing observable. -/
theorem evaluate_append_rules_of_kind (env : Env) (f : Flag) (extra : List FlagRule)
    (hk : (evaluate env f).result.detail.reason.kind = .off ∨
          (evaluate env f).result.detail.reason.kind = .targetMatch ∨
          (evaluate env f).result.detail.reason.kind = .prereqFailed ∨
          (evaluate env f).result.detail.reason.kind = .ruleMatch) :
    evaluate env { f with rules := f.rules ++ extra } = evaluate env f := by
  apply evaluate_rules_eq
  · intro st1 _ hE
    apply m_rulesLoop_append
    intro hft
    obtain ⟨d, st', hrl, hkind⟩ := fallsThrough_kind _ env f f.rules 0 st1 hft
    rw [hrl] at hE
    by_cases hc : env.ctx = .invalid
    · rw [(evaluate_invalid f hc).2] at hk
      simp [Detail.forError, Reason.error] at hk
    · rcases evaluate_valid f hc hE with ⟨d1, ok1, h1, -, hd⟩ | ⟨h1, -⟩
      · cases h1
        rw [hd, withStatus_kind] at hk
        rcases hkind with hkind | hkind <;> rw [hkind] at hk <;> simp at hk
      · cases h1
  · intro i rule hr
    have hi : i < f.rules.length := (List.getElem?_eq_some_iff.mp hr).1
    rw [List.getElem?_append_left hi, hr]; rfl

/-! ### 4–5 at the entry point: observationally equivalent rules -/

/-- **Equivalent rules.**  Replacing the rules of a flag one by one by rules with the same
variation-or-rollout, id and track-events bit whose clauses evaluate alike (same answer, same effect
on the per-call state, from every state) changes nothing observable about `Evaluate`. -/
theorem evaluate_rules_equiv (env : Env) (f : Flag) (rules' : List FlagRule)
    (h : List.Forall₂ (RuleEquiv (segContains (segFuel env.store) env) env) f.rules rules') :
    evaluate env { f with rules := rules' } = evaluate env f := by
  apply evaluate_rules_eq
  · intro st1 _ _; exact m_rulesLoop_equiv _ env f h 0 st1
  · intro i rule hr
    rw [forall₂_getElem?_trackEvents h i, hr]; rfl

theorem forall₂_same {α} {R : α → α → Prop} (hrefl : ∀ x, R x x) : ∀ l : List α, List.Forall₂ R l l
  | [] => .nil
  | x :: l => .cons (hrefl x) (forall₂_same hrefl l)

theorem forall₂_replace {α} {R : α → α → Prop} (hrefl : ∀ x, R x x) (pre post : List α) {r r' : α}
    (h : R r r') : List.Forall₂ R (pre ++ r :: post) (pre ++ r' :: post) := by
  induction pre with
  | nil => exact .cons h (forall₂_same hrefl post)
  | cons x pre ih => exact .cons (hrefl x) ih

/-- Replacing the clause list of one rule by one that evaluates alike. -/
theorem evaluate_replace_clauses (env : Env) (f : Flag) (pre : List FlagRule) (r : FlagRule)
    (post : List FlagRule) (cs' : List Clause) (hr : f.rules = pre ++ r :: post)
    (h : ∀ st, clausesMatch (segContains (segFuel env.store) env) env [] cs' st =
      clausesMatch (segContains (segFuel env.store) env) env [] r.clauses st) :
    evaluate env { f with rules := pre ++ { r with clauses := cs' } :: post } = evaluate env f := by
  apply evaluate_rules_equiv
  rw [hr]
  exact forall₂_replace (RuleEquiv.refl _ env) pre post ⟨rfl, rfl, rfl, h⟩

theorem m_clauseMatch_perm_values (rec : LD.SegRec) (env : Env) (chain : List String) (c : Clause)
    (vs' : List J) (hseg : c.op ≠ "segmentMatch") (hpre : c.pre = {}) (h : c.values.Perm vs')
    (st : St) :
    clauseMatch rec env chain { c with values := vs' } st = clauseMatch rec env chain c st := by
  have hs : (c.op == "segmentMatch") = false := by simpa using hseg
  simp only [clauseMatch, hs, Bool.false_eq_true, if_false,
    perm_values_clause env.rx env.ctx c vs' hpre h]

theorem m_clausesMatch_replace (rec : LD.SegRec) (env : Env) (chain : List String) (c c' : Clause)
    (h : ∀ st, clauseMatch rec env chain c' st = clauseMatch rec env chain c st) :
    ∀ (cpre cpost : List Clause) (st : St),
      clausesMatch rec env chain (cpre ++ c' :: cpost) st =
        clausesMatch rec env chain (cpre ++ c :: cpost) st := by
  intro cpre
  induction cpre with
  | nil => intro cpost st; simp only [List.nil_append, clausesMatch, h]
  | cons x cpre ih => intro cpost st; simp only [List.cons_append, clausesMatch, ih]

/-- **4, entry point.**  Reordering the values of a plain (not preprocessed) non-segment clause of a
rule of the evaluated flag changes nothing observable about `Evaluate`.  (`c.pre = {}`: compose with
C14 for preprocessed clauses.  For a `segmentMatch` clause the value order IS observable: it is the
order of the segment lookups and big-segment queries, and decides which error comes first.) -/
theorem evaluate_perm_values (env : Env) (f : Flag) (pre : List FlagRule) (r : FlagRule)
    (post : List FlagRule) (cpre : List Clause) (c : Clause) (cpost : List Clause) (vs' : List J)
    (hr : f.rules = pre ++ r :: post) (hcl : r.clauses = cpre ++ c :: cpost)
    (hseg : c.op ≠ "segmentMatch") (hpre : c.pre = {}) (h : c.values.Perm vs') :
    evaluate env { f with rules :=
      pre ++ { r with clauses := cpre ++ { c with values := vs' } :: cpost } :: post } =
      evaluate env f := by
  apply evaluate_replace_clauses env f pre r post _ hr
  intro st
  rw [hcl]
  exact m_clausesMatch_replace _ env [] c _
    (m_clauseMatch_perm_values _ env [] c vs' hseg hpre h) cpre cpost st

/-- Clauses none of which is a segment match do not touch the per-call state, and their conjunction
is the Spec's. -/
theorem m_clausesMatch_pure (rec : LD.SegRec) (recS : Spec.SegRec) (env : Env) (chain : List String) :
    ∀ cs, (∀ c ∈ cs, c.op ≠ "segmentMatch") → ∀ st,
      clausesMatch rec env chain cs st = (Spec.clausesMatch recS env chain cs, st) := by
  intro cs
  induction cs with
  | nil => intro _ st; rfl
  | cons c cs ih =>
    intro h st
    have hs : (c.op == "segmentMatch") = false := by simpa using h c (List.mem_cons_self ..)
    simp only [clausesMatch, Spec.clausesMatch, clauseMatch, Spec.clauseMatch, hs,
      Bool.false_eq_true, if_false]
    cases Res.ofExcept (clauseMatchNoSeg env.rx env.ctx c) with
    | ok b =>
      cases b with
      | true => exact ih (fun c' hc' => h c' (List.mem_cons_of_mem _ hc')) st
      | false => rfl
    | err e => rfl
    | oof => rfl

/-- **5, entry point, rules without segment clauses.**  Reordering the clauses of a rule none of
which is a `segmentMatch` and all of which evaluate without error changes nothing observable about
`Evaluate`. -/
theorem evaluate_perm_clauses_pure (env : Env) (f : Flag) (pre : List FlagRule) (r : FlagRule)
    (post : List FlagRule) (cs' : List Clause) (hr : f.rules = pre ++ r :: post)
    (h : r.clauses.Perm cs')
    (hpure : ∀ c ∈ r.clauses, c.op ≠ "segmentMatch" ∧
      ∃ b, clauseMatchNoSeg env.rx env.ctx c = .ok b) :
    evaluate env { f with rules := pre ++ { r with clauses := cs' } :: post } = evaluate env f := by
  apply evaluate_replace_clauses env f pre r post _ hr
  intro st
  rw [m_clausesMatch_pure _ (Spec.segContains 0 env) env [] cs'
      (fun c hc => (hpure c (h.mem_iff.mpr hc)).1) st,
    m_clausesMatch_pure _ (Spec.segContains 0 env) env [] r.clauses (fun c hc => (hpure c hc).1) st,
    perm_clauses _ env [] r.clauses cs' h]
  intro c hc
  obtain ⟨hseg, b, hb⟩ := hpure c hc
  have hs : (c.op == "segmentMatch") = false := by simpa using hseg
  exact ⟨b, by simp only [Spec.clauseMatch, hs, Bool.false_eq_true, if_false, hb, Res.ofExcept]⟩

/-! ### 3 at the entry point: an inserted never-matching rule -/

/-- `shiftFrom` on a model outcome together with its final state (which is left alone). -/
def shiftOut (k : Nat) (x : FlagOut × St) : FlagOut × St :=
  (match x.1 with | .done d ok => .done (shiftDetail k d) ok | .oof => .oof, x.2)

theorem m_getVariation_shift (k : Nat) (env : Env) (f : Flag) (i : Int) (r : Reason) (st : St) :
    LD.getVariation env f i (shiftReason k r) st =
      (shiftDetail k (LD.getVariation env f i r st).1, (LD.getVariation env f i r st).2) := by
  unfold LD.getVariation
  split
  · simp only [shiftDetail_forError]
  · rfl

theorem m_getValueForVR_shift (k : Nat) (env : Env) (f : Flag) (vr : VariationOrRollout)
    (r : Reason) (st : St) :
    LD.getValueForVR env f vr (shiftReason k r) st =
      (shiftDetail k (LD.getValueForVR env f vr r st).1, (LD.getValueForVR env f vr r st).2) := by
  unfold LD.getValueForVR
  cases variationOrRollout env vr f.key f.salt with
  | error e => simp only [shiftDetail_forError]
  | ok p =>
    obtain ⟨idx, inExp⟩ := p
    simp only []
    cases inExp
    · exact m_getVariation_shift k env f idx r st
    · simp only [if_true, ← shiftReason_toExperiment]
      exact m_getVariation_shift k env f idx _ st

theorem m_rulesLoop_succ (seg : LD.SegRec) (env : Env) (f : Flag) (post : List FlagRule) :
    ∀ i k st, k ≤ i →
      LD.rulesLoop seg env f post (i + 1) st = shiftOut k (LD.rulesLoop seg env f post i st) := by
  induction post with
  | nil =>
    intro i k st _
    have h := m_getValueForVR_shift k env f f.fallthrough .fallthrough st
    rw [shiftReason_fallthrough] at h
    have h1 : (LD.getValueForVR env f f.fallthrough .fallthrough st).1 =
        shiftDetail k (LD.getValueForVR env f f.fallthrough .fallthrough st).1 :=
      congrArg Prod.fst h
    simp only [LD.rulesLoop, shiftOut]
    rw [← h1]
  | cons r rs ih =>
    intro i k st hk
    simp only [LD.rulesLoop]
    generalize LD.clausesMatch seg env [] r.clauses st = q
    obtain ⟨res, st1⟩ := q
    cases res with
    | err e => simp only [shiftOut, shiftDetail_forError]
    | oof => rfl
    | ok b =>
      cases b with
      | true =>
        have h := m_getValueForVR_shift k env f r.vr (.ruleMatch i r.id) st1
        rw [shiftReason_ruleMatch_ge k i r.id hk] at h
        simp only [shiftOut]
        rw [h]
      | false => exact ih (i + 1) k st1 (by omega)

/-- Model level: a rule whose clauses always say "no match" and leave the per-call state alone can
be inserted anywhere; only the reported index of a later matching rule moves. -/
theorem m_insert_dead_rule (seg : LD.SegRec) (env : Env) (f : Flag) (pre post : List FlagRule)
    (dead : FlagRule)
    (hdead : ∀ st, LD.clausesMatch seg env [] dead.clauses st = (.ok false, st)) :
    ∀ i st, LD.rulesLoop seg env f (pre ++ dead :: post) i st =
      shiftOut (i + pre.length) (LD.rulesLoop seg env f (pre ++ post) i st) := by
  induction pre with
  | nil =>
    intro i st
    simp only [List.nil_append, LD.rulesLoop, hdead, List.length_nil, Nat.add_zero]
    exact m_rulesLoop_succ seg env f post i i st (Nat.le_refl _)
  | cons q pre ih =>
    intro i st
    simp only [List.cons_append, LD.rulesLoop, List.length_cons]
    generalize LD.clausesMatch seg env [] q.clauses st = x
    obtain ⟨res, st1⟩ := x
    cases res with
    | err e => simp only [shiftOut, shiftDetail_forError]
    | oof => rfl
    | ok b =>
      cases b with
      | true =>
        have h := m_getValueForVR_shift (i + (pre.length + 1)) env f q.vr (.ruleMatch i q.id) st1
        rw [shiftReason_ruleMatch_lt (i + (pre.length + 1)) i q.id (by omega)] at h
        have h1 : (LD.getValueForVR env f q.vr (.ruleMatch i q.id) st1).1 =
            shiftDetail (i + (pre.length + 1)) (LD.getValueForVR env f q.vr (.ruleMatch i q.id) st1).1 :=
          congrArg Prod.fst h
        simp only [shiftOut]
        rw [← h1]
      | false =>
        simp only []
        rw [ih (i + 1) st1]
        congr 1
        omega

theorem shiftReason_status (k : Nat) (r : Reason) (s : Option Status) :
    shiftReason k { r with bigSegmentsStatus := s } =
      { shiftReason k r with bigSegmentsStatus := s } := by
  unfold shiftReason
  split <;> rfl

theorem shiftDetail_of_not_ruleMatch (k : Nat) (d : Detail) (h : d.reason.kind ≠ .ruleMatch) :
    shiftDetail k d = d := by
  have : ¬ (d.reason.kind = .ruleMatch ∧ d.reason.ruleIndex ≥ k) := fun h' => h h'.1
  simp only [shiftDetail, shiftReason, if_neg this]

/-- `isExperiment` follows the shift: the shifted index in the longer list names the same rule. -/
theorem isExperimentResult_insert (f : Flag) (pre post : List FlagRule) (dead : FlagRule)
    (hr : f.rules = pre ++ post) (r : Reason) :
    isExperimentResult { f with rules := pre ++ dead :: post } (shiftReason pre.length r) =
      isExperimentResult f r := by
  by_cases hc : r.kind = .ruleMatch ∧ r.ruleIndex ≥ pre.length
  · obtain ⟨hk, hi⟩ := hc
    have hs : shiftReason pre.length r = { r with ruleIndex := r.ruleIndex + 1 } := by
      simp only [shiftReason, hk, hi, and_self, if_true]
    rw [hs]
    unfold isExperimentResult
    simp only [hk, hr]
    have h0 : r.ruleIndex ≥ 0 := by omega
    have h1 : r.ruleIndex + 1 ≥ 0 := by omega
    simp only [h0, h1, if_true]
    have e1 : (r.ruleIndex + 1).toNat = r.ruleIndex.toNat + 1 := by omega
    have e2 : pre.length ≤ r.ruleIndex.toNat := by omega
    rw [e1, List.getElem?_append_right (by omega), List.getElem?_append_right e2]
    have e3 : r.ruleIndex.toNat + 1 - pre.length = (r.ruleIndex.toNat - pre.length) + 1 := by omega
    rw [e3, List.getElem?_cons_succ]
  · have hs : shiftReason pre.length r = r := by simp only [shiftReason, if_neg hc]
    rw [hs]
    unfold isExperimentResult
    split
    · rfl
    · cases hk : r.kind <;> simp only []
      split
      · rename_i h0
        have hlt : r.ruleIndex.toNat < pre.length := by
          have : ¬ r.ruleIndex ≥ pre.length := fun h => hc ⟨hk, h⟩
          omega
        rw [hr, List.getElem?_append_left hlt, List.getElem?_append_left hlt]
      · rfl

/-- `finish` commutes with the shift when the experiment bit does. -/
theorem finish_shiftOut (f f' : Flag) (k : Nat) (x : FlagOut × St)
    (hexp : ∀ r, isExperimentResult f' (shiftReason k r) = isExperimentResult f r) :
    (finish f' (shiftOut k x).1 (shiftOut k x).2).result.detail =
      shiftDetail k (finish f x.1 x.2).result.detail ∧
    (finish f' (shiftOut k x).1 (shiftOut k x).2).result.isExperiment =
      (finish f x.1 x.2).result.isExperiment ∧
    (finish f' (shiftOut k x).1 (shiftOut k x).2).outcome = (finish f x.1 x.2).outcome ∧
    (finish f' (shiftOut k x).1 (shiftOut k x).2).events = (finish f x.1 x.2).events ∧
    (finish f' (shiftOut k x).1 (shiftOut k x).2).logs = (finish f x.1 x.2).logs ∧
    (finish f' (shiftOut k x).1 (shiftOut k x).2).flagLookups = (finish f x.1 x.2).flagLookups ∧
    (finish f' (shiftOut k x).1 (shiftOut k x).2).segLookups = (finish f x.1 x.2).segLookups ∧
    (finish f' (shiftOut k x).1 (shiftOut k x).2).bsQueries = (finish f x.1 x.2).bsQueries ∧
    (finish f' (shiftOut k x).1 (shiftOut k x).2).memChecks = (finish f x.1 x.2).memChecks := by
  obtain ⟨out, st⟩ := x
  cases out with
  | oof =>
    refine ⟨?_, ?_, rfl, rfl, rfl, rfl, rfl, rfl, rfl⟩
    · show (finish f' .oof st).result.detail = shiftDetail k (finish f .oof st).result.detail
      unfold finish
      cases st.status
      · exact (shiftDetail_forError _ _).symm
      · simp [shiftDetail, shiftReason, Detail.forError, Reason.error]
    · show (finish f' .oof st).result.isExperiment = (finish f .oof st).result.isExperiment
      unfold finish
      cases st.status <;> rfl
  | done d ok =>
    refine ⟨?_, ?_, rfl, rfl, rfl, rfl, rfl, rfl, rfl⟩
    · show (finish f' (.done (shiftDetail k d) ok) st).result.detail =
        shiftDetail k (finish f (.done d ok) st).result.detail
      unfold finish
      cases st.status with
      | none => rfl
      | some s => simp only [shiftDetail, shiftReason_status]
    · show (finish f' (.done (shiftDetail k d) ok) st).result.isExperiment =
        (finish f (.done d ok) st).result.isExperiment
      unfold finish
      cases st.status with
      | none => exact hexp d.reason
      | some s =>
        have := hexp { d.reason with bigSegmentsStatus := some s }
        rw [shiftReason_status] at this
        exact this

/-- **3, entry point.**  Inserting, anywhere in the rule list, a rule that never matches and whose
clauses leave the per-call state alone (e.g. any rule without `segmentMatch` clauses that evaluates
to "no match", see `m_clausesMatch_pure` and `in_empty_never_matches`) changes only the reported rule
index — by `shiftDetail`: +1 for a RULE_MATCH at or after the insertion point, nothing else.  The
value, the variation index, every other field of the reason INCLUDING the big-segments status,
`isExperiment`, the events, log lines, lookups, queries and membership checks are unchanged.  (A
dead rule WITH segment clauses does add lookups and possibly a status: for it only
`evaluate_insert_dead_rule_result` holds.) -/
theorem evaluate_insert_dead_rule (env : Env) (f : Flag) (pre post : List FlagRule)
    (dead : FlagRule) (hr : f.rules = pre ++ post)
    (hdead : ∀ st, LD.clausesMatch (segContains (segFuel env.store) env) env [] dead.clauses st =
      (.ok false, st)) :
    (evaluate env { f with rules := pre ++ dead :: post }).result.detail =
      shiftDetail pre.length (evaluate env f).result.detail ∧
    (evaluate env { f with rules := pre ++ dead :: post }).result.isExperiment =
      (evaluate env f).result.isExperiment ∧
    (evaluate env { f with rules := pre ++ dead :: post }).outcome = (evaluate env f).outcome ∧
    (evaluate env { f with rules := pre ++ dead :: post }).events = (evaluate env f).events ∧
    (evaluate env { f with rules := pre ++ dead :: post }).logs = (evaluate env f).logs ∧
    (evaluate env { f with rules := pre ++ dead :: post }).flagLookups =
      (evaluate env f).flagLookups ∧
    (evaluate env { f with rules := pre ++ dead :: post }).segLookups =
      (evaluate env f).segLookups ∧
    (evaluate env { f with rules := pre ++ dead :: post }).bsQueries = (evaluate env f).bsQueries ∧
    (evaluate env { f with rules := pre ++ dead :: post }).memChecks = (evaluate env f).memChecks := by
  by_cases hc : env.ctx = .invalid
  · unfold evaluate
    simp only [hc]
    refine ⟨(shiftDetail_forError _ _).symm, ?_⟩
    simp
  · rw [evaluate_eq_finish env _ hc, evaluate_eq_finish env f hc]
    have hE : evalFlag (segFuel env.store) (flagFuel env.store) env
          { f with rules := pre ++ dead :: post } [] {} =
        shiftOut pre.length (evalFlag (segFuel env.store) (flagFuel env.store) env f [] {}) := by
      show LD.evalBody (evalFlag (segFuel env.store) _ env) (segContains (segFuel env.store) env) env
          { f with rules := pre ++ dead :: post } [] {} =
        shiftOut pre.length (LD.evalBody (evalFlag (segFuel env.store) _ env)
          (segContains (segFuel env.store) env) env f [] {})
      apply m_evalBody_rules (R := fun x y => x = shiftOut pre.length y)
      · intro x hx
        obtain ⟨out, st⟩ := x
        cases out with
        | oof => rfl
        | done d ok =>
          simp only [shiftOut, shiftDetail_of_not_ruleMatch _ d (hx d ok rfl)]
      · intro _ _ _
        rw [hr, m_insert_dead_rule _ env f pre post dead hdead 0 _, Nat.zero_add]
    rw [hE]
    exact finish_shiftOut f _ pre.length _ (isExperimentResult_insert f pre post dead hr)

/-! ### 3 and 5 in general (rules WITH segment clauses): what is invariant and what is not

A rule with `segmentMatch` clauses reads the store and possibly the big-segment provider while it is
evaluated.  Moving a clause past a short-circuiting one, or inserting a never-matching rule that
consults a segment, therefore changes `segLookups`, `bsQueries`, `memChecks` and — open finding F6 —
the `bigSegmentsStatus` annotation of the reason (`clause_order_observable` below is a
machine-checked instance).  What IS invariant: value, variation index, every reason field except
that annotation, and `isExperiment`. -/

/-- Spec analogue of `m_evalBody_rules`. -/
theorem evalBody_rules {R : Option (Detail × Bool) → Option (Detail × Bool) → Prop}
    (hrefl : ∀ x : Option (Detail × Bool),
      (∀ d ok, x = some (d, ok) → d.reason.kind ≠ .ruleMatch) → R x x)
    (rec : Spec.FlagRec) (seg : Spec.SegRec) (env : Env) (f : Flag) (rules' : List FlagRule)
    (chain : List String)
    (h : f.on = true → Spec.checkPrereqs rec env f chain = .ok → anyTargetMatch env.ctx f = none →
      R (Spec.rulesLoop seg env f rules' 0) (Spec.rulesLoop seg env f f.rules 0)) :
    R (Spec.evalBody rec seg env { f with rules := rules' } chain)
      (Spec.evalBody rec seg env f chain) := by
  unfold Spec.evalBody
  simp only [rulesLoop_rules_irrelevant]
  show R (if !f.on then _ else
    match Spec.checkPrereqs rec env f chain with
    | .oof => _ | .malformed => _ | .failed k => _
    | .ok => (match anyTargetMatch env.ctx f with | some v => _ | none => _)) _
  cases hon : f.on with
  | false =>
    apply hrefl
    intro d ok hd
    simp only [Bool.not_false, if_true, Option.some.injEq, Prod.mk.injEq] at hd
    rw [← hd.1]
    exact getOffValue_kind_ne_ruleMatch f _ (by decide)
  | true =>
    simp only [Bool.not_true, Bool.false_eq_true, if_false]
    have h' := h hon
    revert h'
    generalize Spec.checkPrereqs rec env f chain = q
    intro h'
    cases q with
    | oof => exact hrefl _ (by intro d ok hd; cases hd)
    | malformed =>
      apply hrefl
      intro d ok hd
      simp only [Option.some.injEq, Prod.mk.injEq] at hd
      rw [← hd.1]; decide
    | failed k =>
      apply hrefl
      intro d ok hd
      simp only [Option.some.injEq, Prod.mk.injEq] at hd
      rw [← hd.1]
      exact getOffValue_kind_ne_ruleMatch f _ (by simp [Reason.prereqFailed])
    | ok =>
      cases ht : anyTargetMatch env.ctx f with
      | some v =>
        apply hrefl
        intro d ok hd
        simp only [Option.some.injEq, Prod.mk.injEq] at hd
        rw [← hd.1]
        exact getVariation_kind_ne_ruleMatch f _ _ (by decide)
      | none => exact h' rfl ht

theorem evaluate_isExperiment' (env : Env) (f : Flag) :
    (evaluate env f).result.isExperiment =
      isExperimentResult f (evaluate env f).result.detail.reason := by
  unfold evaluate
  split <;> rfl

/-- **Transfer of a Spec-level relation to the result of `evaluate`.**  If the Spec result of `f'`
is that of `f` with the reason transformed by `TR` (which commutes with the status annotation and
with `isExperiment`), then so is `evaluate`'s result up to the big-segments status annotation, and
`isExperiment` is the same. -/
theorem evaluate_result_of_spec (env : Env) (f f' : Flag) (TR : Reason → Reason)
    (hTR : ∀ r s, TR { r with bigSegmentsStatus := s } = { TR r with bigSegmentsStatus := s })
    (hTe : TR (Reason.error .userNotSpecified) = Reason.error .userNotSpecified)
    (hexp : ∀ r, isExperimentResult f' (TR r) = isExperimentResult f r)
    (hs : ∀ d ok, Spec.evalFlag (segFuel env.store) (flagFuel env.store) env f [] = some (d, ok) →
      Spec.evalFlag (segFuel env.store) (flagFuel env.store) env f' [] =
        some ({ d with reason := TR d.reason }, ok)) :
    noStatus (evaluate env f').result.detail =
      noStatus { (evaluate env f).result.detail with
        reason := TR (evaluate env f).result.detail.reason } ∧
    (evaluate env f').result.isExperiment = (evaluate env f).result.isExperiment := by
  have h1 := evaluate_noStatus_of_spec env f f' (fun d => { d with reason := TR d.reason })
    (by intro d s; cases s
        · rfl
        · show noStatus { d with reason := TR { d.reason with bigSegmentsStatus := some _ } } = _
          rw [hTR]; rfl)
    (by simp only [Detail.forError, hTe]) hs
  refine ⟨h1, ?_⟩
  rw [evaluate_isExperiment', evaluate_isExperiment', ← isExperimentResult_noStatusR f',
    ← hexp (evaluate env f).result.detail.reason, ← isExperimentResult_noStatusR f' (TR _)]
  have h2 := congrArg Detail.reason h1
  simp only [noStatus] at h2
  rw [h2]

theorem rulesLoop_replace_clauses (seg : Spec.SegRec) (env : Env) (f : Flag) (r : FlagRule)
    (cs' : List Clause) (post : List FlagRule)
    (h : Spec.clausesMatch seg env [] cs' = Spec.clausesMatch seg env [] r.clauses) :
    ∀ (pre : List FlagRule) (i : Nat),
      Spec.rulesLoop seg env f (pre ++ { r with clauses := cs' } :: post) i =
        Spec.rulesLoop seg env f (pre ++ r :: post) i := by
  intro pre
  induction pre with
  | nil => intro i; simp only [List.nil_append, Spec.rulesLoop, h]
  | cons q pre ih => intro i; simp only [List.cons_append, Spec.rulesLoop, ih]

theorem map_trackEvents_getElem? (l l' : List FlagRule)
    (h : l'.map (·.trackEvents) = l.map (·.trackEvents)) (i : Nat) :
    (l'[i]?).map (·.trackEvents) = (l[i]?).map (·.trackEvents) := by
  rw [← List.getElem?_map, ← List.getElem?_map, h]

/-- **5, entry point, any clauses.**  Reordering the clauses of a rule all of which evaluate without
error (segment-match clauses included) leaves the value, the variation index, the reason up to its
`bigSegmentsStatus` annotation, and `isExperiment` of `Evaluate` unchanged.  NOT invariant in
general: the annotation itself, the segment lookups, the big-segment queries and membership checks
(F6, `clause_order_observable`); when the rule has no segment clause everything is invariant
(`evaluate_perm_clauses_pure`). -/
theorem evaluate_perm_clauses_result (env : Env) (f : Flag) (pre : List FlagRule) (r : FlagRule)
    (post : List FlagRule) (cs' : List Clause) (hr : f.rules = pre ++ r :: post)
    (h : r.clauses.Perm cs')
    (hok : ∀ c ∈ r.clauses, ∃ b,
      Spec.clauseMatch (Spec.segContains (segFuel env.store) env) env [] c = .ok b) :
    noStatus (evaluate env { f with rules := pre ++ { r with clauses := cs' } :: post }).result.detail =
      noStatus (evaluate env f).result.detail ∧
    (evaluate env { f with rules := pre ++ { r with clauses := cs' } :: post }).result.isExperiment =
      (evaluate env f).result.isExperiment := by
  refine evaluate_result_of_spec env f _ id (fun _ _ => rfl) rfl ?_ ?_
  · intro rs
    apply isExperimentResult_rules
    intro _ _
    apply map_trackEvents_getElem?
    rw [hr]; simp
  · intro d ok hd
    have : Spec.evalFlag (segFuel env.store) (flagFuel env.store) env
          { f with rules := pre ++ { r with clauses := cs' } :: post } [] =
        Spec.evalFlag (segFuel env.store) (flagFuel env.store) env f [] := by
      show Spec.evalBody _ _ env _ [] = Spec.evalBody _ _ env f []
      apply evalBody_rules (R := Eq) (fun _ _ => rfl)
      intro _ _ _
      rw [hr]
      exact rulesLoop_replace_clauses _ env f r cs' post
        (perm_clauses _ env [] r.clauses cs' h hok) pre 0
    rw [this, hd]
    rfl

/-- **3, entry point, any dead rule.**  Inserting a rule that the Spec evaluates to "no match"
(segment clauses allowed) changes, of `Evaluate`'s result, only the reported rule index
(`shiftReason`) and possibly the `bigSegmentsStatus` annotation; value, variation index, the other
reason fields and `isExperiment` are unchanged.  With a dead rule that does not touch the state
everything else is unchanged too (`evaluate_insert_dead_rule`). -/
theorem evaluate_insert_dead_rule_result (env : Env) (f : Flag) (pre post : List FlagRule)
    (dead : FlagRule) (hr : f.rules = pre ++ post)
    (hdead : Spec.clausesMatch (Spec.segContains (segFuel env.store) env) env [] dead.clauses =
      .ok false) :
    noStatus (evaluate env { f with rules := pre ++ dead :: post }).result.detail =
      noStatus (shiftDetail pre.length (evaluate env f).result.detail) ∧
    (evaluate env { f with rules := pre ++ dead :: post }).result.isExperiment =
      (evaluate env f).result.isExperiment := by
  refine evaluate_result_of_spec env f _ (shiftReason pre.length) (shiftReason_status _) ?_
    (isExperimentResult_insert f pre post dead hr) ?_
  · simp [shiftReason, Reason.error]
  · intro d ok hd
    have : Spec.evalFlag (segFuel env.store) (flagFuel env.store) env
          { f with rules := pre ++ dead :: post } [] =
        shiftFrom pre.length
          (Spec.evalFlag (segFuel env.store) (flagFuel env.store) env f []) := by
      show Spec.evalBody _ _ env _ [] = shiftFrom pre.length (Spec.evalBody _ _ env f [])
      apply evalBody_rules (R := fun x y => x = shiftFrom pre.length y)
      · intro x hx
        cases x with
        | none => rfl
        | some p => exact (shiftFrom_of_not_ruleMatch _ p.1 p.2 (.inl (hx p.1 p.2 rfl))).symm
      · intro _ _ _
        rw [hr, insert_dead_rule _ env f pre post dead 0 hdead, Nat.zero_add]
    rw [this, hd]
    rfl

/-! ### The rule list never influences prerequisite events or flag lookups -/

theorem logErr_events (env : Env) (k : String) (e : EvalErr) (st : St) :
    (logErr env k e st).events = st.events := by
  unfold logErr; split <;> rfl

theorem m_getVariation_frame (env : Env) (f : Flag) (i : Int) (r : Reason) (st : St) :
    (LD.getVariation env f i r st).2.events = st.events ∧
    (LD.getVariation env f i r st).2.flagLookups = st.flagLookups := by
  unfold LD.getVariation
  split
  · exact ⟨logErr_events .., logErr_flagLookups ..⟩
  · exact ⟨rfl, rfl⟩

theorem m_getValueForVR_frame (env : Env) (f : Flag) (vr : VariationOrRollout) (r : Reason)
    (st : St) :
    (LD.getValueForVR env f vr r st).2.events = st.events ∧
    (LD.getValueForVR env f vr r st).2.flagLookups = st.flagLookups := by
  unfold LD.getValueForVR
  cases variationOrRollout env vr f.key f.salt with
  | error e => exact ⟨logErr_events .., logErr_flagLookups ..⟩
  | ok p => exact m_getVariation_frame ..

/-- The rule loop records no event and looks up no flag. -/
theorem m_rulesLoop_frame {seg : LD.SegRec} {env : Env} (hseg : SegRecS env seg) (f : Flag) :
    ∀ rs i st, (LD.rulesLoop seg env f rs i st).2.events = st.events ∧
      (LD.rulesLoop seg env f rs i st).2.flagLookups = st.flagLookups := by
  intro rs
  induction rs with
  | nil => intro i st; exact m_getValueForVR_frame ..
  | cons r rs ih =>
    intro i st
    simp only [LD.rulesLoop]
    have hf := star_sprim_frame (clausesMatch_sreach hseg [] r.clauses st)
    revert hf
    generalize LD.clausesMatch seg env [] r.clauses st = q
    obtain ⟨res, st1⟩ := q
    intro hf
    cases res with
    | err e => exact ⟨(logErr_events ..).trans hf.2.2, (logErr_flagLookups ..).trans hf.2.1⟩
    | oof => exact ⟨hf.2.2, hf.2.1⟩
    | ok b =>
      cases b with
      | true =>
        have h := m_getValueForVR_frame env f r.vr (.ruleMatch i r.id) st1
        exact ⟨h.1.trans hf.2.2, h.2.trans hf.2.1⟩
      | false =>
        have h := ih (i + 1) st1
        exact ⟨h.1.trans hf.2.2, h.2.trans hf.2.1⟩

theorem finish_events (f : Flag) (out : FlagOut) (st : St) : (finish f out st).events = st.events := by
  cases out <;> rfl

/-- **Any change of the evaluated flag's rule list** — reordered clauses with segment matches,
inserted or appended rules of any kind — leaves the prerequisite events, the flag lookups and the
outcome of `Evaluate` unchanged: prerequisites are evaluated before the rules, and rules never
evaluate flags.  Together with `evaluate_perm_clauses_result` / `evaluate_insert_dead_rule_result`
this is the complete list of invariant components in the general case (segment lookups, queries,
membership checks and the status annotation are not invariant: `clause_order_observable`; log
lines are not invariant under arbitrary changes, and are not treated for reorderings). -/
theorem evaluate_rules_events (env : Env) (f : Flag) (rules' : List FlagRule) :
    (evaluate env { f with rules := rules' }).events = (evaluate env f).events ∧
    (evaluate env { f with rules := rules' }).flagLookups = (evaluate env f).flagLookups ∧
    (evaluate env { f with rules := rules' }).outcome = (evaluate env f).outcome := by
  refine ⟨?_, ?_, by rw [evaluate_total, evaluate_total]⟩ <;>
  · by_cases hc : env.ctx = .invalid
    · unfold evaluate
      simp only [hc]
    · rw [evaluate_eq_finish env _ hc, evaluate_eq_finish env f hc]
      have hE : (evalFlag (segFuel env.store) (flagFuel env.store) env
            { f with rules := rules' } [] {}).2.events =
          (evalFlag (segFuel env.store) (flagFuel env.store) env f [] {}).2.events ∧
          (evalFlag (segFuel env.store) (flagFuel env.store) env
            { f with rules := rules' } [] {}).2.flagLookups =
          (evalFlag (segFuel env.store) (flagFuel env.store) env f [] {}).2.flagLookups := by
        show (LD.evalBody (evalFlag (segFuel env.store) _ env) (segContains (segFuel env.store) env)
            env { f with rules := rules' } [] {}).2.events =
          (LD.evalBody (evalFlag (segFuel env.store) _ env) (segContains (segFuel env.store) env)
            env f [] {}).2.events ∧ _
        apply m_evalBody_rules
          (R := fun x y => x.2.events = y.2.events ∧ x.2.flagLookups = y.2.flagLookups)
          (fun _ _ => ⟨rfl, rfl⟩)
        intro _ _ _
        have h1 := m_rulesLoop_frame (segContains_sreach (segFuel env.store) env) f rules' 0
        have h2 := m_rulesLoop_frame (segContains_sreach (segFuel env.store) env) f f.rules 0
        exact ⟨(h1 _).1.trans (h2 _).1.symm, (h1 _).2.trans (h2 _).2.symm⟩
      first
        | (rw [finish_events, finish_events]; exact hE.1)
        | (rw [finish_flagLookups, finish_flagLookups]; exact hE.2)

/-! ### Non-vacuity and counterexamples at the entry point -/

section AuditExamples

/-- A store with an unbounded segment `big` (generation 1) and a regular segment `s`. -/
def bigSeg : Segment := { key := "big", unbounded := true, generation := some 1 }

/-- The provider answers every key with "no membership, status STALE". -/
def auditEnv : Env :=
  { opts := { logger := true }, store := { segments := [("big", bigSeg), ("s", exSeg)] },
    bs := some { dflt := { status := some .stale } },
    ctx := .single exUser, rx := fun _ _ => none }

def segClause : Clause := { op := "segmentMatch", values := [.str "big"] }
def kindClause : Clause := { attr := Ref.newRef "kind", op := "in", values := [.str "user"] }
def keyClause : Clause := { attr := Ref.newRef "key", op := "in", values := [.str "j", .str "k"] }

/-- An on flag with two variations whose single rule has the given clauses. -/
def ruleFlag (cs : List Clause) : Flag :=
  { key := "f", on := true, variations := [.bool false, .bool true],
    fallthrough := { variation := some 0 },
    rules := [{ id := "r", clauses := cs, vr := { variation := some 1 }, trackEvents := true }] }

/-- **F6, machine-checked.**  Both clauses evaluate without error (`email in []` is false, the
segment clause is false); with the dead clause first the segment clause is never reached, swapped it
is: same value, index, reason kind and `isExperiment`, but the reason gains
`bigSegmentsStatus = STALE` and the segment lookup, the provider query differ.  So the full-`Obs`
form of clause-order invariance is false; `evaluate_perm_clauses_result` is the strongest true
form.  Go input: a rule `[{attribute:"email", op:"in", values:[]}, {op:"segmentMatch",
values:["big"]}]` vs. the same clauses swapped, `big` unbounded, provider status STALE. -/
theorem clause_order_observable :
    (evaluate auditEnv (ruleFlag [deadClause, segClause])).result.detail.reason.bigSegmentsStatus
      = none ∧
    (evaluate auditEnv (ruleFlag [segClause, deadClause])).result.detail.reason.bigSegmentsStatus
      = some .stale ∧
    (evaluate auditEnv (ruleFlag [deadClause, segClause])).segLookups = [] ∧
    (evaluate auditEnv (ruleFlag [segClause, deadClause])).segLookups = ["big"] ∧
    (evaluate auditEnv (ruleFlag [deadClause, segClause])).bsQueries = [] ∧
    (evaluate auditEnv (ruleFlag [segClause, deadClause])).bsQueries = ["k"] ∧
    (evaluate auditEnv (ruleFlag [deadClause, segClause])).result.detail.reason.kind = .fallthrough ∧
    (evaluate auditEnv (ruleFlag [segClause, deadClause])).result.detail.reason.kind = .fallthrough := by
  decide +kernel

/-- The same pair as a refutation of the full-observation form. -/
example : evaluate auditEnv (ruleFlag [segClause, deadClause]) ≠
    evaluate auditEnv (ruleFlag [deadClause, segClause]) := by
  intro h
  have := congrArg Obs.bsQueries h
  revert this
  decide +kernel

/-- Likewise a dead rule WITH a segment clause, inserted before the deciding rule, is observable in
the queries (so `evaluate_insert_dead_rule` needs its state-neutrality hypothesis). -/
example :
    (evaluate auditEnv (ruleFlag [kindClause])).bsQueries = [] ∧
    (evaluate auditEnv { ruleFlag [kindClause] with
      rules := { clauses := [segClause] } :: (ruleFlag [kindClause]).rules }).bsQueries = ["k"] := by
  decide +kernel

/-- `shortcut_observable`: the `ShortcutNeutral` hypothesis of `evaluate_unreferenced_kind` cannot be
dropped at the entry point either.  Segment `s` has a per-kind list for kind `user`; the single
`user` context skips it (FALLTHROUGH), the same context plus an unrelated `org` context reads it
(RULE_MATCH). -/
theorem shortcut_observable :
    (evaluate auditEnv (ruleFlag [{ op := "segmentMatch", values := [.str "s"] }])
      ).result.detail.reason.kind = .fallthrough ∧
    (evaluate (withCtx auditEnv (.multi [exUser, exOrg]))
      (ruleFlag [{ op := "segmentMatch", values := [.str "s"] }])).result.detail.reason.kind =
      .ruleMatch := by
  decide +kernel

/-- Hypotheses of `evaluate_unreferenced_attribute` on a concrete configuration: the flag tests
`key`, the stored segments have no rules, the added attribute is `plan`. -/
example (v : J) :
    evaluate (withCtx auditEnv (mapInd (addAttrTo "user" "plan" v) auditEnv.ctx))
      (ruleFlag [keyClause, segClause]) = evaluate auditEnv (ruleFlag [keyClause, segClause]) := by
  apply evaluate_add_unreferenced_attribute
  · intro fl hfl; simp [auditEnv] at hfl
  · intro s hs
    simp only [auditEnv, List.map_cons, List.map_nil, List.mem_cons, List.not_mem_nil, or_false] at hs
    rcases hs with rfl | rfl <;> intro r hr <;> simp [bigSeg, exSeg] at hr
  · refine ⟨?_, .inl rfl⟩
    intro r hr
    simp only [ruleFlag, List.mem_cons, List.not_mem_nil, or_false] at hr
    subst hr
    refine ⟨?_, .inl rfl⟩
    intro c hc
    simp only [List.mem_cons, List.not_mem_nil, or_false] at hc
    rcases hc with rfl | rfl
    · exact .inr (.inr (.inr (by decide)))
    · exact .inl rfl

/-- Hypothesis of `evaluate_append_rules_of_kind` / `evaluate_append_rules`: the rule matches. -/
example : (evaluate auditEnv (ruleFlag [kindClause])).result.detail.reason.kind = .ruleMatch := by
  decide +kernel
example (extra : List FlagRule) :
    evaluate auditEnv { ruleFlag [kindClause] with rules := (ruleFlag [kindClause]).rules ++ extra } =
      evaluate auditEnv (ruleFlag [kindClause]) :=
  evaluate_append_rules_of_kind auditEnv _ extra (.inr (.inr (.inr (by decide +kernel))))

/-- Hypotheses of `evaluate_perm_values`: the two values of `keyClause` swapped. -/
example :
    evaluate auditEnv { ruleFlag [keyClause, segClause] with rules :=
      [] ++ { (ruleFlag [keyClause, segClause]).rules.head! with clauses :=
        [] ++ { keyClause with values := [.str "k", .str "j"] } :: [segClause] } :: [] } =
      evaluate auditEnv (ruleFlag [keyClause, segClause]) :=
  evaluate_perm_values auditEnv _ [] _ [] [] keyClause [segClause] _ rfl rfl (by decide) rfl
    (List.Perm.swap _ _ _)

/-- Hypotheses of `evaluate_perm_clauses_pure`: two attribute clauses swapped. -/
example :
    evaluate auditEnv { ruleFlag [keyClause, kindClause] with rules :=
      [] ++ { (ruleFlag [keyClause, kindClause]).rules.head! with
        clauses := [kindClause, keyClause] } :: [] } =
      evaluate auditEnv (ruleFlag [keyClause, kindClause]) := by
  refine evaluate_perm_clauses_pure auditEnv _ [] _ [] _ rfl (List.Perm.swap _ _ _) ?_
  intro c hc
  simp only [ruleFlag, List.head!, List.mem_cons, List.not_mem_nil, or_false] at hc
  rcases hc with rfl | rfl
  · exact ⟨by decide, true, by decide +kernel⟩
  · exact ⟨by decide, true, by decide +kernel⟩

/-- Hypotheses of `evaluate_insert_dead_rule`: the dead rule `email in []` in front. -/
example :
    (evaluate auditEnv { ruleFlag [kindClause] with
      rules := [] ++ { clauses := [deadClause] } :: (ruleFlag [kindClause]).rules }).result.detail =
      shiftDetail 0 (evaluate auditEnv (ruleFlag [kindClause])).result.detail := by
  refine (evaluate_insert_dead_rule auditEnv (ruleFlag [kindClause]) [] _
    { clauses := [deadClause] } rfl ?_).1
  intro st
  rw [m_clausesMatch_pure _ (Spec.segContains 0 auditEnv) auditEnv [] _
    (by intro c hc; simp only [List.mem_cons, List.not_mem_nil, or_false] at hc; subst hc; decide)]
  rw [dead_rule_example _ auditEnv _ deadClause rfl rfl rfl rfl rfl (by decide) (by decide)
    (by decide)]

end AuditExamples

end Audit

/-! ## 8. Unreferenced built-in attributes (`name`, `anonymous`) and removed attributes

  
  `C20.lean`, section 6, proves that a change to a custom attribute `name` (relation `AgreeExcept`)
  is invisible when nothing refers to `name`.  `AgreeExcept` fixes the built-in fields `name` and
  `anonymous`, so it says nothing about a context whose *name* or *anonymous* flag changes.  Both are
  ordinary addressable attributes of the Go context (`getTopLevelAddressableAttributeSingleKind`,
  model: `SCtx.topLevel`), and the property's phrase "adding context attributes that no clause or
  bucket-by names" covers them as much as a custom attribute.

  This file restates the family with the weaker relation `AgreeTop`: the two individual contexts
  have the same kind, key and secondary key, and the same *top-level lookup* at every name other
  than `name` — whatever field that lookup comes from.  Everything in section 6 goes through with
  it; `AgreeExcept` is the special case (`AgreeExcept.toTop`), and so are

    * `setName`, `setAnonymous` ........ `AgreeTop "name"`, `AgreeTop "anonymous"`
    * `removeAttr` ..................... `AgreeExcept name` (every entry of that name is dropped, so
                                          no shadowed value becomes visible)

  Entry-point theorems (whole observation `Obs` of `evaluate`):
    `evaluate_unreferenced_top`, `evaluate_change_name`, `evaluate_change_anonymous`,
    `evaluate_remove_unreferenced_attribute`.

  The harness evaluates the same three perturbations on the real code (families
  `remove-unreferenced-attribute` and `unreferenced-builtin` of the C20 check).
-/


/-- `b` differs from `a` at most in what the top-level name `name` resolves to. -/
structure AgreeTop (name : String) (a b : SCtx) : Prop where
  kind : b.kind = a.kind
  key : b.key = a.key
  secondary : b.secondary = a.secondary
  top : ∀ n, n ≠ name → b.topLevel n = a.topLevel n

theorem AgreeExcept.toTop {name : String} {a b : SCtx} (h : AgreeExcept name a b) :
    AgreeTop name a b :=
  ⟨h.kind, h.key, h.secondary, fun n hn => topLevel_agree h n hn⟩

theorem AgreeTop.refl (name : String) (sc : SCtx) : AgreeTop name sc sc :=
  ⟨rfl, rfl, rfl, fun _ _ => rfl⟩

theorem valueForRef_agreeTop {name : String} {a b : SCtx} (h : AgreeTop name a b) (r : Ref)
    (hr : RefAvoids r name) : b.valueForRef r = a.valueForRef r := by
  unfold SCtx.valueForRef
  rcases hr with hr | hr
  · simp only [hr, if_true]
  · rw [h.top _ hr]

/-! ### The three perturbations -/

/-- Set (or clear) the name of the individual contexts of kind `k`. -/
def setName (k : String) (v : Option String) (sc : SCtx) : SCtx :=
  if sc.kind == k then { sc with name := v } else sc

/-- Set the anonymous flag of the individual contexts of kind `k`. -/
def setAnonymous (k : String) (v : Bool) (sc : SCtx) : SCtx :=
  if sc.kind == k then { sc with anonymous := v } else sc

/-- Remove every entry of the custom attribute `name` from the individual contexts of kind `k`. -/
def removeAttr (k name : String) (sc : SCtx) : SCtx :=
  if sc.kind == k then { sc with attrs := sc.attrs.filter (fun p => p.1 != name) } else sc

theorem setName_agree (k : String) (v : Option String) (sc : SCtx) :
    AgreeTop "name" sc (setName k v sc) := by
  unfold setName
  split
  · refine ⟨rfl, rfl, rfl, fun n hn => ?_⟩
    have hb : (n == "name") = false := by simpa using hn
    unfold SCtx.topLevel
    simp only [hb]
    rfl
  · exact AgreeTop.refl _ sc

theorem setAnonymous_agree (k : String) (v : Bool) (sc : SCtx) :
    AgreeTop "anonymous" sc (setAnonymous k v sc) := by
  unfold setAnonymous
  split
  · refine ⟨rfl, rfl, rfl, fun n hn => ?_⟩
    have hb : (n == "anonymous") = false := by simpa using hn
    unfold SCtx.topLevel
    simp only [hb]
    rfl
  · exact AgreeTop.refl _ sc

theorem lookup_filter_ne (attrs : List (String × J)) (name n : String) (h : n ≠ name) :
    (attrs.filter (fun p => p.1 != name)).lookup n = attrs.lookup n := by
  induction attrs with
  | nil => rfl
  | cons p ps ih =>
    obtain ⟨a, v⟩ := p
    by_cases ha : a = name
    · subst ha
      have hb : (n == a) = false := by simpa using h
      simp only [List.filter_cons, bne_self_eq_false, Bool.false_eq_true, if_false, List.lookup, hb, ih]
    · have hne : (a != name) = true := by simpa using ha
      simp only [List.filter_cons, hne, if_true, List.lookup]
      cases n == a
      · exact ih
      · rfl

theorem removeAttr_agree (k name : String) (sc : SCtx) : AgreeExcept name sc (removeAttr k name sc) := by
  unfold removeAttr
  split
  · exact ⟨rfl, rfl, rfl, rfl, rfl, fun n hn => lookup_filter_ne sc.attrs name n hn⟩
  · exact AgreeExcept.refl name sc

/-- After the removal the attribute is really gone (the perturbation is not the identity on a
context that had it). -/
theorem removeAttr_lookup (k name : String) (sc : SCtx) (hk : (sc.kind == k) = true) :
    (removeAttr k name sc).attrs.lookup name = none := by
  unfold removeAttr
  simp only [hk, if_true]
  induction sc.attrs with
  | nil => rfl
  | cons p ps ih =>
    obtain ⟨a, v⟩ := p
    by_cases ha : a = name
    · subst ha
      simpa only [List.filter_cons, bne_self_eq_false, Bool.false_eq_true, if_false] using ih
    · have hne : (a != name) = true := by simpa using ha
      have hb : (name == a) = false := by simpa using (fun h : name = a => ha h.symm)
      simp only [List.filter_cons, hne, if_true, List.lookup, hb]
      exact ih

/-! ### Section 6 of `C20.lean` again, for `AgreeTop` -/

section MapTop
variable {name : String} {g : SCtx → SCtx} (hg : ∀ sc, AgreeTop name sc (g sc))
include hg

theorem find_kind_mapTop (k : String) (cs : List SCtx) :
    (cs.map g).find? (fun sc => sc.kind == k) = (cs.find? (fun sc => sc.kind == k)).map g := by
  induction cs with
  | nil => rfl
  | cons c cs ih =>
    simp only [List.map_cons, List.find?_cons, (hg c).kind]
    cases c.kind == k
    · exact ih
    · rfl

theorem byKind_mapTop (ctx : Ctx) (k : String) :
    (mapInd g ctx).byKind k = (ctx.byKind k).map g := by
  cases ctx with
  | invalid => rfl
  | single c => exact find_kind_mapTop hg (normKind k) [c]
  | multi cs => exact find_kind_mapTop hg (normKind k) cs

theorem keyByKind_mapTop (ctx : Ctx) (k : String) :
    (mapInd g ctx).keyByKind k = ctx.keyByKind k := by
  unfold Ctx.keyByKind
  rw [byKind_mapTop hg]
  cases ctx.byKind k with
  | none => rfl
  | some sc => simp only [Option.map_some, (hg sc).key]

theorem kind_mapTop (ctx : Ctx) : (mapInd g ctx).kind = ctx.kind := by
  cases ctx with
  | invalid => rfl
  | single c => exact (hg c).kind
  | multi cs => rfl

theorem clauseMatchByKind_mapTop (rx : RegexOracle) (c : Clause) (ctx : Ctx) :
    clauseMatchByKind rx c (mapInd g ctx) = clauseMatchByKind rx c ctx := by
  cases ctx with
  | invalid => rfl
  | single sc => simp only [clauseMatchByKind, mapInd, Ctx.kind, (hg sc).kind]
  | multi cs =>
    simp only [clauseMatchByKind, mapInd, List.any_map]
    congr 1
    funext sc
    simp only [Function.comp, (hg sc).kind]

theorem targetMatch_mapTop (ctx : Ctx) (t : Target) :
    targetMatch (mapInd g ctx) t = targetMatch ctx t := by
  unfold targetMatch
  rw [byKind_mapTop hg]
  cases ctx.byKind t.contextKind with
  | none => rfl
  | some sc => simp only [Option.map_some, (hg sc).key]

theorem anyTargetMatch_mapTop (ctx : Ctx) (f : Flag) :
    anyTargetMatch (mapInd g ctx) f = anyTargetMatch ctx f := by
  have : targetMatch (mapInd g ctx) = targetMatch ctx := funext (targetMatch_mapTop hg ctx)
  unfold anyTargetMatch
  rw [this]

theorem segLists_mapTop (ctx : Ctx) (s : Segment) :
    segLists (mapInd g ctx) s = segLists ctx s := by
  have h1 : segTargetMatch (mapInd g ctx) = segTargetMatch ctx := by
    funext t; unfold segTargetMatch; rw [keyByKind_mapTop hg]
  unfold segLists
  rw [h1, keyByKind_mapTop hg, kind_mapTop hg]

theorem clauseMatchNoSeg_mapTop (rx : RegexOracle) (ctx : Ctx) (c : Clause)
    (h : c.attr.raw = "kind" ∨ RefAvoids c.attr name) :
    clauseMatchNoSeg rx (mapInd g ctx) c = clauseMatchNoSeg rx ctx c := by
  unfold clauseMatchNoSeg
  rw [clauseMatchByKind_mapTop hg, byKind_mapTop hg]
  split
  · rfl
  · split
    · rfl
    · split
      · rfl
      · rename_i h1 h2 h3
        rcases h with h | h
        · rw [h] at h3; simp at h3
        · cases ctx.byKind c.contextKind with
          | none => rfl
          | some sc => simp only [Option.map_some, valueForRef_agreeTop (hg sc) c.attr h]

theorem computeBucket_mapTop (sk : Bool) (ctx : Ctx) (isExp : Bool) (seed : Option Int)
    (kind key : String) (attr : Ref) (salt : String)
    (h : isExp = true ∨ attr.isDefined = false ∨ RefAvoids attr name) :
    computeBucket sk (mapInd g ctx) isExp seed kind key attr salt =
      computeBucket sk ctx isExp seed kind key attr salt := by
  have hin : bucketInput sk (mapInd g ctx) isExp seed kind key attr salt =
      bucketInput sk ctx isExp seed kind key attr salt := by
    unfold bucketInput
    simp only [byKind_mapTop hg]
    split
    · rfl
    · cases ctx.byKind kind with
      | none => rfl
      | some sc =>
        have hv : (g sc).valueForRef (if (isExp || !attr.isDefined) = true then Ref.newLiteral "key" else attr) =
            sc.valueForRef (if (isExp || !attr.isDefined) = true then Ref.newLiteral "key" else attr) := by
          split
          · rw [valueForRef_key, valueForRef_key, (hg sc).key]
          · rename_i hu
            rcases h with h | h | h
            · simp [h] at hu
            · simp [h] at hu
            · exact valueForRef_agreeTop (hg sc) attr h
        simp only [Option.map_some, hv, (hg sc).secondary]
  unfold computeBucket
  rw [hin]

end MapTop

section LiftTop
variable {name : String} {g : SCtx → SCtx} (hg : ∀ sc, AgreeTop name sc (g sc)) (env : Env)
include hg

theorem clauseOK_of_avoidsTop (c : Clause) (h : ClauseAvoids c name) :
    ClauseOK env (mapInd g env.ctx) c := by
  rcases h with h | h
  · exact .inl h
  · exact .inr (clauseMatchNoSeg_mapTop hg env.rx env.ctx c h)

theorem vrOK_of_avoidsTop (vr : VariationOrRollout) (h : VRAvoids vr name) :
    VROK env (mapInd g env.ctx) vr := by
  rcases h with h | h
  · exact .inl h
  · exact .inr (fun _ _ _ => computeBucket_mapTop hg _ _ _ _ _ _ _ _ h)

theorem flagOK_of_avoidsTop (f : Flag) (h : FlagAvoids f name) : FlagOK env (mapInd g env.ctx) f :=
  ⟨anyTargetMatch_mapTop hg env.ctx f,
   fun r hr => ⟨fun c hc => clauseOK_of_avoidsTop hg env c ((h.1 r hr).1 c hc),
                vrOK_of_avoidsTop hg env r.vr (h.1 r hr).2⟩,
   vrOK_of_avoidsTop hg env _ h.2⟩

theorem segOK_of_avoidsTop (s : Segment) (h : SegAvoids s name) : SegOK env (mapInd g env.ctx) s :=
  ⟨segLists_mapTop hg env.ctx s, keyByKind_mapTop hg env.ctx _,
   fun r hr => ⟨fun c hc => clauseOK_of_avoidsTop hg env c ((h r hr).1 c hc),
     (h r hr).2.imp id (fun hb => fun _ _ _ =>
        computeBucket_mapTop hg _ _ _ _ _ _ _ _ (.inr hb))⟩⟩

/-- **6 for any top-level name, Spec level.**  Changing what the top-level name `name` resolves to
— a custom attribute, or the built-in `name` / `anonymous` — in any of the individual contexts does
not change the result of evaluating `f`, provided no clause and no bucket-by in scope refers to
`name`. -/
theorem unreferenced_top
    (hF : ∀ fl ∈ env.store.flags.map (·.2), FlagAvoids fl name)
    (hS : ∀ s ∈ env.store.segments.map (·.2), SegAvoids s name)
    (sf n : Nat) (f : Flag) (hf : FlagAvoids f name) (chain : List String) :
    Spec.evalFlag sf n (withCtx env (mapInd g env.ctx)) f chain = Spec.evalFlag sf n env f chain :=
  evalFlag_ctx (fun fl hfl => flagOK_of_avoidsTop hg env fl (hF fl hfl))
    (fun s hs => segOK_of_avoidsTop hg env s (hS s hs)) sf n f (flagOK_of_avoidsTop hg env f hf) chain

/-- **6 for any top-level name, entry point**: the WHOLE observation of `Evaluator.Evaluate`
(result with big-segments status, experiment bit, prerequisite events, log lines, flag / segment /
big-segment lookups) is unchanged. -/
theorem evaluate_unreferenced_top
    (hF : ∀ fl ∈ env.store.flags.map (·.2), FlagAvoids fl name)
    (hS : ∀ s ∈ env.store.segments.map (·.2), SegAvoids s name)
    (f : Flag) (hf : FlagAvoids f name) :
    evaluate (withCtx env (mapInd g env.ctx)) f = evaluate env f :=
  evaluate_ctx (fun fl hfl => flagOK_of_avoidsTop hg env fl (hF fl hfl))
    (fun s hs => segOK_of_avoidsTop hg env s (hS s hs)) f (flagOK_of_avoidsTop hg env f hf)
    (mapInd_invalid_iff g env.ctx)

end LiftTop

/-- Setting, changing or clearing the *name* of the individual contexts of kind `k` changes nothing
observable when nothing in scope refers to the attribute `name`. -/
theorem evaluate_change_name (env : Env) (k : String) (v : Option String)
    (hF : ∀ fl ∈ env.store.flags.map (·.2), FlagAvoids fl "name")
    (hS : ∀ s ∈ env.store.segments.map (·.2), SegAvoids s "name")
    (f : Flag) (hf : FlagAvoids f "name") :
    evaluate (withCtx env (mapInd (setName k v) env.ctx)) f = evaluate env f :=
  evaluate_unreferenced_top (setName_agree k v) env hF hS f hf

/-- Flipping the *anonymous* flag of the individual contexts of kind `k` changes nothing observable
when nothing in scope refers to the attribute `anonymous`. -/
theorem evaluate_change_anonymous (env : Env) (k : String) (v : Bool)
    (hF : ∀ fl ∈ env.store.flags.map (·.2), FlagAvoids fl "anonymous")
    (hS : ∀ s ∈ env.store.segments.map (·.2), SegAvoids s "anonymous")
    (f : Flag) (hf : FlagAvoids f "anonymous") :
    evaluate (withCtx env (mapInd (setAnonymous k v) env.ctx)) f = evaluate env f :=
  evaluate_unreferenced_top (setAnonymous_agree k v) env hF hS f hf

/-- *Removing* a custom attribute that nothing in scope refers to changes nothing observable (the
converse direction of `evaluate_add_unreferenced_attribute`). -/
theorem evaluate_remove_unreferenced_attribute (env : Env) (k name : String)
    (hF : ∀ fl ∈ env.store.flags.map (·.2), FlagAvoids fl name)
    (hS : ∀ s ∈ env.store.segments.map (·.2), SegAvoids s name)
    (f : Flag) (hf : FlagAvoids f name) :
    evaluate (withCtx env (mapInd (removeAttr k name) env.ctx)) f = evaluate env f :=
  evaluate_unreferenced_attribute (removeAttr_agree k name) env hF hS f hf

/-! ### Non-vacuity and necessity of the hypothesis -/

/-- The hypotheses are met by a flag with a real clause (on `email`) and the perturbation is not
the identity. -/
example : FlagAvoids (ruleFlag [emailClause]) "name" ∧
    setName "user" (some "n") exUser ≠ exUser := by
  refine ⟨⟨?_, ?_⟩, ?_⟩
  · intro r hr
    simp only [ruleFlag, List.mem_cons, List.not_mem_nil, or_false] at hr
    subst hr
    exact ⟨fun c hc => by
      simp only [List.mem_cons, List.not_mem_nil, or_false] at hc
      subst hc
      exact .inr (.inr (.inr (by decide))), .inl (by decide)⟩
  · exact .inl (by decide)
  · intro h
    have := congrArg SCtx.name h
    simp [setName, exUser] at this

/-- The hypothesis is needed: a reference to `name` does see the change. -/
theorem name_observable :
    (setName "user" (some "n") exUser).valueForRef (Ref.newRef "name") ≠
      exUser.valueForRef (Ref.newRef "name") := by
  have h1 : (setName "user" (some "n") exUser).valueForRef (Ref.newRef "name") = .str "n" := by
    rfl
  have h2 : exUser.valueForRef (Ref.newRef "name") = .null := by rfl
  rw [h1, h2]
  intro h
  cases h

#print axioms evaluate_unreferenced_top
#print axioms evaluate_change_name
#print axioms evaluate_change_anonymous
#print axioms evaluate_remove_unreferenced_attribute
#print axioms name_observable

/-! ## 9. Metadata of flags held in the store (Spec level)

  C20 (metadata, continued) — the metadata of flags *held in the store* (reached as prerequisites)
  is irrelevant to the Spec result.

  `C20.metadata` / `metadata_excludeFromSummaries` say that the Spec never reads the metadata of the
  flag being evaluated.  Here the same is shown for every flag of the store at once: pushing all
  stored flags through any function `g` that changes nothing but `fmeta` / `excludeFromSummaries`
  (lookup keys unchanged) leaves `Spec.evalFlag` unchanged — `stored_metadata`; and also when the
  evaluated flag itself goes through `g` — `stored_metadata_both`.

  This is the Spec-level (result) form; at the entry point the version, track-events setting and
  `excludeFromSummaries` of a prerequisite flag are copied into its prerequisite event, so the full
  observation is invariant only modulo those event fields (harness families `metadata-store` and
  `metadata-store-reported`).
-/


/-- `g` changes nothing but metadata. -/
def MetaOnly (g : Flag → Flag) : Prop := ∀ fl, ∃ m b, g fl = withMeta fl m b

/-- The environment whose stored flags all went through `g` (lookup keys unchanged). -/
def remetaStore (env : Env) (g : Flag → Flag) : Env :=
  { env with store := { env.store with flags := env.store.flags.map (fun p => (p.1, g p.2)) } }

section StoreMeta
variable {env : Env} {g : Flag → Flag}

/-! ### Lookups -/

theorem findFlag_remeta (env : Env) (g : Flag → Flag) (k : String) :
    (remetaStore env g).store.findFlag k = (env.store.findFlag k).map g := by
  show (((env.store.flags.map (fun p => (p.1, g p.2))).find? (·.1 == k)).map (·.2)) =
    ((env.store.flags.find? (·.1 == k)).map (·.2)).map g
  induction env.store.flags with
  | nil => rfl
  | cons p ps ih =>
    simp only [List.map_cons, List.find?_cons]
    cases p.1 == k
    · exact ih
    · rfl

theorem findSegment_remeta (env : Env) (g : Flag → Flag) (k : String) :
    (remetaStore env g).store.findSegment k = env.store.findSegment k := rfl

/-! ### Everything that does not read `store.flags` -/

theorem segMatchValues_remeta (rec : Spec.SegRec) (negate : Bool) (chain : List String) :
    ∀ vs, Spec.segMatchValues rec (remetaStore env g) negate chain vs =
      Spec.segMatchValues rec env negate chain vs := by
  intro vs
  induction vs with
  | nil => rfl
  | cons v vs ih =>
    cases v with
    | str k =>
      simp only [Spec.segMatchValues]
      show (match env.store.findSegment k with | none => _ | some seg => _) = _
      cases hf : env.store.findSegment k with
      | none => exact ih
      | some seg => simp only [ih]
    | null => simp only [Spec.segMatchValues]; exact ih
    | bool b => simp only [Spec.segMatchValues]; exact ih
    | num q => simp only [Spec.segMatchValues]; exact ih
    | arr xs => simp only [Spec.segMatchValues]; exact ih
    | obj kvs => simp only [Spec.segMatchValues]; exact ih
    | raw w => simp only [Spec.segMatchValues]; exact ih

theorem clauseMatch_remeta (rec : Spec.SegRec) (chain : List String) (c : Clause) :
    Spec.clauseMatch rec (remetaStore env g) chain c = Spec.clauseMatch rec env chain c := by
  unfold Spec.clauseMatch
  rw [segMatchValues_remeta]
  rfl

theorem clausesMatch_remeta (rec : Spec.SegRec) (chain : List String) :
    ∀ cs, Spec.clausesMatch rec (remetaStore env g) chain cs = Spec.clausesMatch rec env chain cs := by
  intro cs
  induction cs with
  | nil => rfl
  | cons c cs ih => simp only [Spec.clausesMatch, clauseMatch_remeta, ih]

theorem segRuleMatch_remeta (rec : Spec.SegRec) (chain : List String) (key salt : String)
    (r : SegmentRule) :
    Spec.segRuleMatch rec (remetaStore env g) chain key salt r =
      Spec.segRuleMatch rec env chain key salt r := by
  unfold Spec.segRuleMatch
  rw [clausesMatch_remeta]
  rfl

theorem segRules_remeta (rec : Spec.SegRec) (chain : List String) (s : Segment) :
    ∀ rs, Spec.segRules rec (remetaStore env g) chain s rs = Spec.segRules rec env chain s rs := by
  intro rs
  induction rs with
  | nil => rfl
  | cons r rs ih => simp only [Spec.segRules, segRuleMatch_remeta, ih]

theorem segBody_remeta (rec : Spec.SegRec) (s : Segment) (chain : List String) :
    Spec.segBody rec (remetaStore env g) s chain = Spec.segBody rec env s chain := by
  unfold Spec.segBody
  simp only [segRules_remeta]
  rfl

theorem segContains_remeta (env : Env) (g : Flag → Flag) (n : Nat) :
    Spec.segContains n (remetaStore env g) = Spec.segContains n env := by
  induction n with
  | zero => rfl
  | succ n ih =>
    funext s chain
    show Spec.segBody (Spec.segContains n (remetaStore env g)) (remetaStore env g) s chain = _
    rw [ih, segBody_remeta]
    rfl

theorem variationOrRollout_remeta (vr : VariationOrRollout) (key salt : String) :
    variationOrRollout (remetaStore env g) vr key salt = variationOrRollout env vr key salt := rfl

theorem getValueForVR_remeta (f : Flag) (vr : VariationOrRollout) (r : Reason) :
    Spec.getValueForVR (remetaStore env g) f vr r = Spec.getValueForVR env f vr r := rfl

theorem rulesLoop_remeta (seg : Spec.SegRec) (f : Flag) :
    ∀ rs i, Spec.rulesLoop seg (remetaStore env g) f rs i = Spec.rulesLoop seg env f rs i := by
  intro rs
  induction rs with
  | nil => intro i; rfl
  | cons r rs ih =>
    intro i
    simp only [Spec.rulesLoop, clausesMatch_remeta, getValueForVR_remeta, ih]

/-! ### The part that does read `store.flags` -/

theorem MetaOnly.key (hg : MetaOnly g) (fl : Flag) : (g fl).key = fl.key := by
  obtain ⟨m, b, h⟩ := hg fl; rw [h]; rfl

theorem MetaOnly.on (hg : MetaOnly g) (fl : Flag) : (g fl).on = fl.on := by
  obtain ⟨m, b, h⟩ := hg fl; rw [h]; rfl

/-- The prerequisite loop over the re-metadata'd store, for any two recursive evaluators that
agree modulo `g`. -/
theorem prereqLoop_remeta (hg : MetaOnly g) {rec rec' : Spec.FlagRec}
    (hrec : ∀ pf chain, rec' (g pf) chain = rec pf chain) (chain : List String) :
    ∀ ps, Spec.prereqLoop rec' (remetaStore env g) chain ps = Spec.prereqLoop rec env chain ps := by
  intro ps
  induction ps with
  | nil => rfl
  | cons p ps ih =>
    simp only [Spec.prereqLoop, findFlag_remeta]
    cases hf : env.store.findFlag p.key with
    | none => rfl
    | some pf => simp only [Option.map_some, hg.key, hg.on, hrec, ih]

theorem evalBody_remeta (hg : MetaOnly g) {rec rec' : Spec.FlagRec}
    (hrec : ∀ pf chain, rec' (g pf) chain = rec pf chain) (seg : Spec.SegRec)
    (f : Flag) (chain : List String) :
    Spec.evalBody rec' seg (remetaStore env g) f chain = Spec.evalBody rec seg env f chain := by
  unfold Spec.evalBody Spec.checkPrereqs
  simp only [prereqLoop_remeta hg hrec, rulesLoop_remeta]
  rfl

end StoreMeta

/-- The Spec never reads the evaluated flag's `fmeta` / `excludeFromSummaries` (both at once). -/
theorem evalFlag_withMeta (sf n : Nat) (env : Env) (f : Flag) (m : FlagMeta) (b : Bool)
    (chain : List String) :
    Spec.evalFlag sf n env (withMeta f m b) chain = Spec.evalFlag sf n env f chain := by
  cases n with
  | zero => rfl
  | succ n => exact evalBody_withMeta _ f m b chain

theorem evalFlag_metaOnly {g : Flag → Flag} (hg : MetaOnly g) (sf n : Nat) (env : Env) (f : Flag)
    (chain : List String) :
    Spec.evalFlag sf n env (g f) chain = Spec.evalFlag sf n env f chain := by
  obtain ⟨m, b, h⟩ := hg f
  rw [h]
  exact evalFlag_withMeta sf n env f m b chain

/-- **Stored metadata.**  Changing the metadata (`fmeta`, `excludeFromSummaries`) of every flag
held in the store — the flags reached as prerequisites — does not change the result. -/
theorem stored_metadata (env : Env) (g : Flag → Flag) (hg : MetaOnly g) (sf n : Nat) (f : Flag)
    (chain : List String) :
    Spec.evalFlag sf n (remetaStore env g) f chain = Spec.evalFlag sf n env f chain := by
  induction n generalizing f chain with
  | zero => rfl
  | succ n ih =>
    show Spec.evalBody (Spec.evalFlag sf n (remetaStore env g))
      (Spec.segContains sf (remetaStore env g)) (remetaStore env g) f chain = _
    rw [segContains_remeta]
    exact evalBody_remeta hg
      (fun pf ch => (evalFlag_metaOnly hg sf n (remetaStore env g) pf ch).trans (ih pf ch)) _ f chain

/-- … also when the evaluated flag itself went through `g` (e.g. it is one of the stored flags). -/
theorem stored_metadata_both (env : Env) (g : Flag → Flag) (hg : MetaOnly g) (sf n : Nat) (f : Flag)
    (chain : List String) :
    Spec.evalFlag sf n (remetaStore env g) (g f) chain = Spec.evalFlag sf n env f chain :=
  (evalFlag_metaOnly hg sf n (remetaStore env g) f chain).trans (stored_metadata env g hg sf n f chain)

/-! ### Non-vacuity -/

/-- A concrete `g` that bumps the version, flips `deleted` and flips `excludeFromSummaries`. -/
def bumpMeta (fl : Flag) : Flag :=
  withMeta fl { fl.fmeta with version := fl.fmeta.version + 1, deleted := !fl.fmeta.deleted }
    (!fl.excludeFromSummaries)

theorem bumpMeta_metaOnly : MetaOnly bumpMeta := fun _ => ⟨_, _, rfl⟩

/-- `bumpMeta` satisfies `MetaOnly` and is not the identity (it changes every flag). -/
example : MetaOnly bumpMeta ∧ ∀ fl, bumpMeta fl ≠ fl := by
  refine ⟨bumpMeta_metaOnly, fun fl h => ?_⟩
  have h' : (bumpMeta fl).excludeFromSummaries = fl.excludeFromSummaries := by rw [h]
  have h'' : (!fl.excludeFromSummaries) = fl.excludeFromSummaries := h'
  cases hb : fl.excludeFromSummaries <;> rw [hb] at h'' <;> cases h''

/-- The store really changes: a store with one flag, after `bumpMeta`, holds a different version. -/
example :
    let env : Env := { opts := {}, store := { flags := [("a", { key := "a" })] }, bs := none,
                       ctx := .invalid, rx := default }
    ((remetaStore env bumpMeta).store.findFlag "a").map (·.fmeta.version) = some 1 ∧
    (env.store.findFlag "a").map (·.fmeta.version) = some 0 := by
  decide

example (env : Env) (sf n : Nat) (f : Flag) (chain : List String) :
    Spec.evalFlag sf n (remetaStore env bumpMeta) (bumpMeta f) chain = Spec.evalFlag sf n env f chain :=
  stored_metadata_both env bumpMeta bumpMeta_metaOnly sf n f chain

#print axioms stored_metadata
#print axioms stored_metadata_both

/-! ## 10. Metadata of flags held in the store (entry point, whole observation)

  C20 (metadata, continued) — the metadata of flags *held in the store*, at the entry point.

  Section 9 of `C20.lean` shows that the Spec result does not depend on the metadata of stored flags.
  Here the same is shown for the stateful model and the WHOLE observation of `LD.evaluate`, for every
  `g` that changes only metadata that is not copied into a prerequisite event (everything in `fmeta`
  except `version`).
-/


/-- `g` changes only metadata that is neither read by evaluation nor copied into a prerequisite
event: everything in `fmeta` except `version` (deleted, client-side availability, track-events,
debug date, sampling ratio, migration). -/
def MetaUnreported (g : Flag → Flag) : Prop :=
  ∀ fl, ∃ m, g fl = withMeta fl m fl.excludeFromSummaries ∧ m.version = fl.fmeta.version

section StoreMetaModel
variable {env : Env} {g : Flag → Flag}

theorem MetaUnreported.metaOnly (hg : MetaUnreported g) : MetaOnly g := fun fl => by
  obtain ⟨m, h, _⟩ := hg fl
  exact ⟨m, _, h⟩

/-! ### Fuel -/

theorem segFuel_remeta (env : Env) (g : Flag → Flag) :
    segFuel (remetaStore env g).store = segFuel env.store := rfl

theorem flagFuel_remeta (hg : MetaOnly g) (env : Env) :
    flagFuel (remetaStore env g).store = flagFuel env.store := by
  show distinctCount ((env.store.flags.map (fun p => (p.1, g p.2))).map (·.2.key)) + 2 =
    distinctCount (env.store.flags.map (·.2.key)) + 2
  rw [List.map_map]
  have : ((fun p : String × Flag => p.2.key) ∘ fun p : String × Flag => (p.1, g p.2)) =
      (fun p : String × Flag => p.2.key) := by
    funext p
    exact hg.key p.2
  rw [this]

/-! ### Everything that does not read `store.flags` -/

theorem m_segMatchValues_remeta (rec : LD.SegRec) (negate : Bool) (chain : List String) :
    ∀ vs st, LD.segMatchValues rec (remetaStore env g) negate chain vs st =
      LD.segMatchValues rec env negate chain vs st := by
  intro vs
  induction vs with
  | nil => intro st; rfl
  | cons v vs ih =>
    intro st
    cases v with
    | str k =>
      simp only [LD.segMatchValues]
      show (match env.store.findSegment k with | none => _ | some seg => _) = _
      cases hf : env.store.findSegment k with
      | none => exact ih _
      | some seg => simp only [ih]
    | null => simp only [LD.segMatchValues]; exact ih _
    | bool b => simp only [LD.segMatchValues]; exact ih _
    | num q => simp only [LD.segMatchValues]; exact ih _
    | arr xs => simp only [LD.segMatchValues]; exact ih _
    | obj kvs => simp only [LD.segMatchValues]; exact ih _
    | raw w => simp only [LD.segMatchValues]; exact ih _

theorem m_clauseMatch_remeta (rec : LD.SegRec) (chain : List String) (c : Clause) (st : St) :
    LD.clauseMatch rec (remetaStore env g) chain c st = LD.clauseMatch rec env chain c st := by
  unfold LD.clauseMatch
  rw [m_segMatchValues_remeta]
  rfl

theorem m_clausesMatch_remeta (rec : LD.SegRec) (chain : List String) :
    ∀ cs st, LD.clausesMatch rec (remetaStore env g) chain cs st =
      LD.clausesMatch rec env chain cs st := by
  intro cs
  induction cs with
  | nil => intro st; rfl
  | cons c cs ih => intro st; simp only [LD.clausesMatch, m_clauseMatch_remeta, ih]

theorem m_segRuleMatch_remeta (rec : LD.SegRec) (chain : List String) (key salt : String)
    (r : SegmentRule) (st : St) :
    LD.segRuleMatch rec (remetaStore env g) chain key salt r st =
      LD.segRuleMatch rec env chain key salt r st := by
  unfold LD.segRuleMatch
  rw [m_clausesMatch_remeta]
  rfl

theorem m_segRules_remeta (rec : LD.SegRec) (chain : List String) (s : Segment) :
    ∀ rs st, LD.segRules rec (remetaStore env g) chain s rs st = LD.segRules rec env chain s rs st := by
  intro rs
  induction rs with
  | nil => intro st; rfl
  | cons r rs ih => intro st; simp only [LD.segRules, m_segRuleMatch_remeta, ih]

theorem m_bigSegMembership_remeta (key : String) (st : St) :
    LD.bigSegMembership (remetaStore env g) key st = LD.bigSegMembership env key st := rfl

theorem m_segBody_remeta (rec : LD.SegRec) (s : Segment) (chain : List String) (st : St) :
    LD.segBody rec (remetaStore env g) s chain st = LD.segBody rec env s chain st := by
  unfold LD.segBody
  simp only [m_segRules_remeta, m_bigSegMembership_remeta]
  rfl

theorem m_segContains_remeta (env : Env) (g : Flag → Flag) (n : Nat) :
    LD.segContains n (remetaStore env g) = LD.segContains n env := by
  induction n with
  | zero => rfl
  | succ n ih =>
    funext s chain st
    show LD.segBody (LD.segContains n (remetaStore env g)) (remetaStore env g) s chain st = _
    rw [ih, m_segBody_remeta]
    rfl

theorem m_logErr_remeta (k : String) (e : EvalErr) (st : St) :
    LD.logErr (remetaStore env g) k e st = LD.logErr env k e st := rfl

theorem m_getVariation_remeta (f : Flag) (i : Int) (r : Reason) (st : St) :
    LD.getVariation (remetaStore env g) f i r st = LD.getVariation env f i r st := rfl

theorem m_getOffValue_remeta (f : Flag) (r : Reason) (st : St) :
    LD.getOffValue (remetaStore env g) f r st = LD.getOffValue env f r st := rfl

theorem m_getValueForVR_remeta (f : Flag) (vr : VariationOrRollout) (r : Reason) (st : St) :
    LD.getValueForVR (remetaStore env g) f vr r st = LD.getValueForVR env f vr r st := rfl

theorem m_rulesLoop_remeta (seg : LD.SegRec) (f : Flag) :
    ∀ rs i st, LD.rulesLoop seg (remetaStore env g) f rs i st = LD.rulesLoop seg env f rs i st := by
  intro rs
  induction rs with
  | nil => intro i st; rfl
  | cons r rs ih =>
    intro i st
    simp only [LD.rulesLoop, m_clausesMatch_remeta, m_getValueForVR_remeta, m_logErr_remeta, ih]

/-! ### The part that does read `store.flags` -/

theorem MetaUnreported.version (hg : MetaUnreported g) (fl : Flag) :
    (g fl).fmeta.version = fl.fmeta.version := by
  obtain ⟨m, h, hv⟩ := hg fl; rw [h]; exact hv

theorem MetaUnreported.exclude (hg : MetaUnreported g) (fl : Flag) :
    (g fl).excludeFromSummaries = fl.excludeFromSummaries := by
  obtain ⟨m, h, _⟩ := hg fl; rw [h]; rfl

theorem MetaUnreported.isExperimentResult (hg : MetaUnreported g) (fl : Flag) (r : Reason) :
    LD.isExperimentResult (g fl) r = LD.isExperimentResult fl r := by
  obtain ⟨m, h, _⟩ := hg fl; rw [h]; rfl

/-- The prerequisite loop over the re-metadata'd store, for any two recursive evaluators that
agree modulo `g`. -/
theorem m_prereqLoop_remeta (hg : MetaUnreported g) {rec rec' : LD.FlagRec}
    (hrec : ∀ pf chain st, rec' (g pf) chain st = rec pf chain st) (f : Flag) (chain : List String) :
    ∀ ps st, LD.prereqLoop rec' (remetaStore env g) f chain ps st =
      LD.prereqLoop rec env f chain ps st := by
  intro ps
  induction ps with
  | nil => intro st; rfl
  | cons p ps ih =>
    intro st
    simp only [LD.prereqLoop, findFlag_remeta]
    cases hf : env.store.findFlag p.key with
    | none => rfl
    | some pf =>
      simp only [Option.map_some, hg.metaOnly.key, hg.metaOnly.on, hg.version, hg.exclude,
        hg.isExperimentResult, hrec, ih, m_logErr_remeta]
      rfl

theorem m_evalBody_remeta (hg : MetaUnreported g) {rec rec' : LD.FlagRec}
    (hrec : ∀ pf chain st, rec' (g pf) chain st = rec pf chain st) (seg : LD.SegRec)
    (f : Flag) (chain : List String) (st : St) :
    LD.evalBody rec' seg (remetaStore env g) f chain st = LD.evalBody rec seg env f chain st := by
  unfold LD.evalBody LD.checkPrereqs
  simp only [m_prereqLoop_remeta hg hrec, m_rulesLoop_remeta, m_getOffValue_remeta,
    m_getVariation_remeta]
  rfl

end StoreMetaModel

/-- The model never reads the evaluated flag's `fmeta` / `excludeFromSummaries`. -/
theorem m_evalFlag_withMeta (sf n : Nat) (env : Env) (f : Flag) (m : FlagMeta) (b : Bool)
    (chain : List String) (st : St) :
    LD.evalFlag sf n env (withMeta f m b) chain st = LD.evalFlag sf n env f chain st := by
  cases n with
  | zero => rfl
  | succ n => exact m_evalBody_withMeta _ f m b chain st

theorem m_evalFlag_metaOnly {g : Flag → Flag} (hg : MetaOnly g) (sf n : Nat) (env : Env) (f : Flag)
    (chain : List String) (st : St) :
    LD.evalFlag sf n env (g f) chain st = LD.evalFlag sf n env f chain st := by
  obtain ⟨m, b, h⟩ := hg f
  rw [h]
  exact m_evalFlag_withMeta sf n env f m b chain st

/-- **Stored metadata, model.**  Result and final state (events, logs, lookups, queries) of the
stateful evaluator are unchanged. -/
theorem m_stored_metadata (env : Env) (g : Flag → Flag) (hg : MetaUnreported g) (sf n : Nat)
    (f : Flag) (chain : List String) (st : St) :
    LD.evalFlag sf n (remetaStore env g) f chain st = LD.evalFlag sf n env f chain st := by
  induction n generalizing f chain st with
  | zero => rfl
  | succ n ih =>
    show LD.evalBody (LD.evalFlag sf n (remetaStore env g))
      (LD.segContains sf (remetaStore env g)) (remetaStore env g) f chain st = _
    rw [m_segContains_remeta]
    exact m_evalBody_remeta hg
      (fun pf ch s => (m_evalFlag_metaOnly hg.metaOnly sf n (remetaStore env g) pf ch s).trans
        (ih pf ch s)) _ f chain st

/-- **Stored metadata, entry point.**  The WHOLE observation of `Evaluate` (result, status, experiment bit,
prerequisite events, log lines, lookups, big-segment queries) is unchanged. -/
theorem evaluate_stored_metadata (env : Env) (g : Flag → Flag) (hg : MetaUnreported g) (f : Flag) :
    evaluate (remetaStore env g) f = evaluate env f := by
  unfold evaluate
  rw [segFuel_remeta, flagFuel_remeta hg.metaOnly, m_stored_metadata env g hg]
  rfl

theorem evaluate_stored_metadata_both (env : Env) (g : Flag → Flag) (hg : MetaUnreported g) (f : Flag) :
    evaluate (remetaStore env g) (g f) = evaluate env f := by
  obtain ⟨m, h, _⟩ := hg f
  rw [h, evaluate_withMeta]
  exact evaluate_stored_metadata env g hg f

/-! ### Non-vacuity -/

/-- A concrete `g` that flips `deleted` and moves the debug date (the version stays). -/
def touchMeta (fl : Flag) : Flag :=
  withMeta fl { fl.fmeta with deleted := !fl.fmeta.deleted,
                              debugEventsUntilDate := fl.fmeta.debugEventsUntilDate + 1 }
    fl.excludeFromSummaries

theorem touchMeta_unreported : MetaUnreported touchMeta := fun _ => ⟨_, rfl, rfl⟩

/-- `touchMeta` satisfies `MetaUnreported` and is not the identity (it changes every flag). -/
example : MetaUnreported touchMeta ∧ ∀ fl, touchMeta fl ≠ fl := by
  refine ⟨touchMeta_unreported, fun fl h => ?_⟩
  have h' : (touchMeta fl).fmeta.deleted = fl.fmeta.deleted := by rw [h]
  have h'' : (!fl.fmeta.deleted) = fl.fmeta.deleted := h'
  cases hb : fl.fmeta.deleted <;> rw [hb] at h'' <;> cases h''

example (env : Env) (f : Flag) :
    evaluate (remetaStore env touchMeta) (touchMeta f) = evaluate env f :=
  evaluate_stored_metadata_both env touchMeta touchMeta_unreported f

#print axioms evaluate_stored_metadata
#print axioms evaluate_stored_metadata_both

/-! ## 11. Metadata of segments held in the store (entry point, whole observation)

  C20 (metadata, continued) — the metadata (`version`, `deleted`) of SEGMENTS held in the store,
  at the entry point.

  Sections 9 and 10 of `C20.lean` show that the observation of `LD.evaluate` does not depend on the
  metadata of stored flags.  Here the same is shown for stored segments: pushing every stored
  segment through any `g` that changes nothing but `version` / `deleted` (lookup keys unchanged)
  leaves the WHOLE observation unchanged.
-/


/-- The segment with its metadata (version, deleted) replaced. -/
def _root_.LD.Segment.withSegMeta (s : Segment) (v : Int) (d : Bool) : Segment :=
  { s with version := v, deleted := d }

/-- `g` changes nothing but a segment's metadata. -/
def SegMetaOnly (g : Segment → Segment) : Prop := ∀ s, ∃ v d, g s = s.withSegMeta v d

/-- The environment whose stored segments all went through `g` (lookup keys unchanged). -/
def remetaSegments (env : Env) (g : Segment → Segment) : Env :=
  { env with store := { env.store with segments := env.store.segments.map (fun p => (p.1, g p.2)) } }

section SegMetaModel
variable {env : Env} {g : Segment → Segment}

/-! ### Lookups and fuel -/

theorem findSegment_remetaSegments (env : Env) (g : Segment → Segment) (k : String) :
    (remetaSegments env g).store.findSegment k = (env.store.findSegment k).map g := by
  show (((env.store.segments.map (fun p => (p.1, g p.2))).find? (·.1 == k)).map (·.2)) =
    ((env.store.segments.find? (·.1 == k)).map (·.2)).map g
  induction env.store.segments with
  | nil => rfl
  | cons p ps ih =>
    simp only [List.map_cons, List.find?_cons]
    cases p.1 == k
    · exact ih
    · rfl

theorem findFlag_remetaSegments (env : Env) (g : Segment → Segment) (k : String) :
    (remetaSegments env g).store.findFlag k = env.store.findFlag k := rfl

theorem SegMetaOnly.key (hg : SegMetaOnly g) (s : Segment) : (g s).key = s.key := by
  obtain ⟨v, d, h⟩ := hg s; rw [h]; rfl

theorem flagFuel_remetaSegments (env : Env) (g : Segment → Segment) :
    flagFuel (remetaSegments env g).store = flagFuel env.store := rfl

theorem segFuel_remetaSegments (hg : SegMetaOnly g) (env : Env) :
    segFuel (remetaSegments env g).store = segFuel env.store := by
  show distinctCount ((env.store.segments.map (fun p => (p.1, g p.2))).map (·.2.key)) + 2 =
    distinctCount (env.store.segments.map (·.2.key)) + 2
  rw [List.map_map]
  have : ((fun p : String × Segment => p.2.key) ∘ fun p : String × Segment => (p.1, g p.2)) =
      (fun p : String × Segment => p.2.key) := by
    funext p
    exact hg.key p.2
  rw [this]

/-! ### The segment recursion -/

theorem s_segMatchValues {rec rec' : LD.SegRec}
    (hrec : ∀ s chain st, rec' (g s) chain st = rec s chain st) (negate : Bool)
    (chain : List String) :
    ∀ vs st, LD.segMatchValues rec' (remetaSegments env g) negate chain vs st =
      LD.segMatchValues rec env negate chain vs st := by
  intro vs
  induction vs with
  | nil => intro st; rfl
  | cons v vs ih =>
    intro st
    cases v with
    | str k =>
      simp only [LD.segMatchValues, findSegment_remetaSegments]
      cases hf : env.store.findSegment k with
      | none => exact ih _
      | some seg => simp only [Option.map_some, hrec, ih]
    | null => simp only [LD.segMatchValues]; exact ih _
    | bool b => simp only [LD.segMatchValues]; exact ih _
    | num q => simp only [LD.segMatchValues]; exact ih _
    | arr xs => simp only [LD.segMatchValues]; exact ih _
    | obj kvs => simp only [LD.segMatchValues]; exact ih _
    | raw w => simp only [LD.segMatchValues]; exact ih _

theorem s_clauseMatch {rec rec' : LD.SegRec}
    (hrec : ∀ s chain st, rec' (g s) chain st = rec s chain st)
    (chain : List String) (c : Clause) (st : St) :
    LD.clauseMatch rec' (remetaSegments env g) chain c st = LD.clauseMatch rec env chain c st := by
  unfold LD.clauseMatch
  rw [s_segMatchValues hrec]
  rfl

theorem s_clausesMatch {rec rec' : LD.SegRec}
    (hrec : ∀ s chain st, rec' (g s) chain st = rec s chain st) (chain : List String) :
    ∀ cs st, LD.clausesMatch rec' (remetaSegments env g) chain cs st =
      LD.clausesMatch rec env chain cs st := by
  intro cs
  induction cs with
  | nil => intro st; rfl
  | cons c cs ih => intro st; simp only [LD.clausesMatch, s_clauseMatch hrec, ih]

theorem s_segRuleMatch {rec rec' : LD.SegRec}
    (hrec : ∀ s chain st, rec' (g s) chain st = rec s chain st) (chain : List String)
    (key salt : String) (r : SegmentRule) (st : St) :
    LD.segRuleMatch rec' (remetaSegments env g) chain key salt r st =
      LD.segRuleMatch rec env chain key salt r st := by
  unfold LD.segRuleMatch
  rw [s_clausesMatch hrec]
  rfl

theorem s_segRules {rec rec' : LD.SegRec}
    (hrec : ∀ s chain st, rec' (g s) chain st = rec s chain st) (chain : List String)
    (s : Segment) (v : Int) (d : Bool) :
    ∀ rs st, LD.segRules rec' (remetaSegments env g) chain (s.withSegMeta v d) rs st =
      LD.segRules rec env chain s rs st := by
  intro rs
  induction rs with
  | nil => intro st; rfl
  | cons r rs ih =>
    intro st
    simp only [LD.segRules, s_segRuleMatch hrec, ih]
    rfl

theorem s_bigSegMembership (key : String) (st : St) :
    LD.bigSegMembership (remetaSegments env g) key st = LD.bigSegMembership env key st := rfl

theorem s_segLists (ctx : Ctx) (s : Segment) (v : Int) (d : Bool) :
    LD.segLists ctx (s.withSegMeta v d) = LD.segLists ctx s := rfl

theorem s_bigSegmentRef (s : Segment) (v : Int) (d : Bool) :
    LD.bigSegmentRef (s.withSegMeta v d) = LD.bigSegmentRef s := rfl

theorem s_segBody_withSegMeta {rec rec' : LD.SegRec}
    (hrec : ∀ s chain st, rec' (g s) chain st = rec s chain st)
    (s : Segment) (v : Int) (d : Bool) (chain : List String) (st : St) :
    LD.segBody rec' (remetaSegments env g) (s.withSegMeta v d) chain st =
      LD.segBody rec env s chain st := by
  unfold LD.segBody
  simp only [s_segRules hrec, s_bigSegMembership, s_segLists, s_bigSegmentRef]
  rfl

/-- One level of the segment recursion over the re-metadata'd store, for any two recursive
evaluators that agree modulo `g`. -/
theorem s_segBody (hg : SegMetaOnly g) {rec rec' : LD.SegRec}
    (hrec : ∀ s chain st, rec' (g s) chain st = rec s chain st)
    (s : Segment) (chain : List String) (st : St) :
    LD.segBody rec' (remetaSegments env g) (g s) chain st = LD.segBody rec env s chain st := by
  obtain ⟨v, d, h⟩ := hg s
  rw [h]
  exact s_segBody_withSegMeta hrec s v d chain st

theorem s_segContains (hg : SegMetaOnly g) (env : Env) (n : Nat) :
    ∀ s chain st, LD.segContains n (remetaSegments env g) (g s) chain st =
      LD.segContains n env s chain st := by
  induction n with
  | zero => intro s chain st; rfl
  | succ n ih =>
    intro s chain st
    show LD.segBody (LD.segContains n (remetaSegments env g)) (remetaSegments env g) (g s) chain st = _
    exact s_segBody hg ih s chain st

/-! ### The flag level -/

theorem s_logErr (k : String) (e : EvalErr) (st : St) :
    LD.logErr (remetaSegments env g) k e st = LD.logErr env k e st := rfl

theorem s_getVariation (f : Flag) (i : Int) (r : Reason) (st : St) :
    LD.getVariation (remetaSegments env g) f i r st = LD.getVariation env f i r st := rfl

theorem s_getOffValue (f : Flag) (r : Reason) (st : St) :
    LD.getOffValue (remetaSegments env g) f r st = LD.getOffValue env f r st := rfl

theorem s_getValueForVR (f : Flag) (vr : VariationOrRollout) (r : Reason) (st : St) :
    LD.getValueForVR (remetaSegments env g) f vr r st = LD.getValueForVR env f vr r st := rfl

theorem s_rulesLoop {seg seg' : LD.SegRec}
    (hseg : ∀ s chain st, seg' (g s) chain st = seg s chain st) (f : Flag) :
    ∀ rs i st, LD.rulesLoop seg' (remetaSegments env g) f rs i st =
      LD.rulesLoop seg env f rs i st := by
  intro rs
  induction rs with
  | nil => intro i st; rfl
  | cons r rs ih =>
    intro i st
    simp only [LD.rulesLoop, s_clausesMatch hseg, s_getValueForVR, s_logErr, ih]

theorem s_prereqLoop {rec rec' : LD.FlagRec}
    (hrec : ∀ pf chain st, rec' pf chain st = rec pf chain st) (f : Flag) (chain : List String) :
    ∀ ps st, LD.prereqLoop rec' (remetaSegments env g) f chain ps st =
      LD.prereqLoop rec env f chain ps st := by
  intro ps
  induction ps with
  | nil => intro st; rfl
  | cons p ps ih =>
    intro st
    simp only [LD.prereqLoop, findFlag_remetaSegments]
    cases hf : env.store.findFlag p.key with
    | none => rfl
    | some pf =>
      simp only [hrec, ih, s_logErr]
      rfl

theorem s_evalBody {rec rec' : LD.FlagRec}
    (hrec : ∀ pf chain st, rec' pf chain st = rec pf chain st) {seg seg' : LD.SegRec}
    (hseg : ∀ s chain st, seg' (g s) chain st = seg s chain st)
    (f : Flag) (chain : List String) (st : St) :
    LD.evalBody rec' seg' (remetaSegments env g) f chain st = LD.evalBody rec seg env f chain st := by
  unfold LD.evalBody LD.checkPrereqs
  simp only [s_prereqLoop hrec, s_rulesLoop hseg, s_getOffValue, s_getVariation]
  rfl

end SegMetaModel

/-- **Stored segment metadata, model.**  Result and final state (events, logs, lookups, queries) of
the stateful evaluator are unchanged. -/
theorem m_stored_segment_metadata (env : Env) (g : Segment → Segment) (hg : SegMetaOnly g)
    (sf n : Nat) (f : Flag) (chain : List String) (st : St) :
    LD.evalFlag sf n (remetaSegments env g) f chain st = LD.evalFlag sf n env f chain st := by
  induction n generalizing f chain st with
  | zero => rfl
  | succ n ih =>
    show LD.evalBody (LD.evalFlag sf n (remetaSegments env g))
      (LD.segContains sf (remetaSegments env g)) (remetaSegments env g) f chain st = _
    exact s_evalBody (fun pf ch s => ih pf ch s) (s_segContains hg env sf) f chain st

/-- **Stored segment metadata, entry point.** The WHOLE observation of `Evaluate` (result, status,
experiment bit, prerequisite events, log lines, lookups, big-segment queries) is unchanged. -/
theorem evaluate_stored_segment_metadata (env : Env) (g : Segment → Segment) (hg : SegMetaOnly g)
    (f : Flag) :
    evaluate (remetaSegments env g) f = evaluate env f := by
  unfold evaluate
  rw [segFuel_remetaSegments hg, flagFuel_remetaSegments, m_stored_segment_metadata env g hg]
  rfl

/-! ### Non-vacuity -/

/-- A concrete `g` that bumps the version and flips `deleted`. -/
def bumpSegMeta (s : Segment) : Segment := s.withSegMeta (s.version + 1) (!s.deleted)

theorem bumpSegMeta_segMetaOnly : SegMetaOnly bumpSegMeta := fun _ => ⟨_, _, rfl⟩

/-- `bumpSegMeta` satisfies `SegMetaOnly` and is not the identity (it changes every segment). -/
example : SegMetaOnly bumpSegMeta ∧ ∀ s, bumpSegMeta s ≠ s := by
  refine ⟨bumpSegMeta_segMetaOnly, fun s h => ?_⟩
  have h' : (bumpSegMeta s).deleted = s.deleted := by rw [h]
  have h'' : (!s.deleted) = s.deleted := h'
  cases hb : s.deleted <;> rw [hb] at h'' <;> cases h''

/-- The store really changes: a store with one segment, after `bumpSegMeta`, holds a different
version and a flipped `deleted`. -/
example :
    let env : Env := { opts := {}, store := { segments := [("a", { key := "a" })] }, bs := none,
                       ctx := .invalid, rx := default }
    ((remetaSegments env bumpSegMeta).store.findSegment "a").map (fun s => (s.version, s.deleted))
        = some (1, true) ∧
    (env.store.findSegment "a").map (fun s => (s.version, s.deleted)) = some (0, false) := by
  decide

example (env : Env) (f : Flag) :
    evaluate (remetaSegments env bumpSegMeta) f = evaluate env f :=
  evaluate_stored_segment_metadata env bumpSegMeta bumpSegMeta_segMetaOnly f

#print axioms m_stored_segment_metadata
#print axioms evaluate_stored_segment_metadata

/-! ## 12. Reported metadata of stored flags (one-step lemma; completed in 12b below)

  The full statement — NOT proved here — is

      eraseObs (evaluate (remetaStore env g) f) = eraseObs (evaluate env f)      for every `MetaOnly g`

  i.e. ANY change to the metadata of the flags held in the store (version and `excludeFromSummaries`
  included) is invisible except in the two event fields that report them (`eraseEv`).  What is
  proved is the step where the two runs actually differ: `e_prereqLoop_remeta`, a simulation of
  `prereqLoop` under states that agree up to `eraseSt`, for recursive evaluators related by `RecSim`.
  Missing: the (routine) simulation lemmas for the functions that never touch `events`, and the
  induction on fuel that establishes `RecSim` for `evalFlag`.  Until then the full statement is
  carried by the harness family `metadata-store-reported` on the real code, and by
  `evaluate_stored_metadata` (section 10) for everything but the two reported fields.
-/

open LD

/-- Forget the two event fields that report a prerequisite flag's metadata. -/
def eraseEv (e : Event) : Event := { e with prereqVersion := 0, excludeFromSummaries := false }
def eraseObs (o : Obs) : Obs := { o with events := o.events.map eraseEv }
def eraseSt (st : St) : St := { st with events := st.events.map eraseEv }

theorem eraseSt_eq_iff (a b : St) : eraseSt a = eraseSt b ↔
    (a.status = b.status ∧ a.cache = b.cache ∧ a.logs = b.logs ∧ a.flagLookups = b.flagLookups ∧
      a.segLookups = b.segLookups ∧ a.bsQueries = b.bsQueries ∧ a.memChecks = b.memChecks ∧
      a.events.map eraseEv = b.events.map eraseEv) := by
  cases a; cases b
  simp only [eraseSt, St.mk.injEq]
  tauto

theorem eraseSt_logErr (env : Env) (k : String) (e : EvalErr) {a b : St}
    (h : eraseSt a = eraseSt b) : eraseSt (LD.logErr env k e a) = eraseSt (LD.logErr env k e b) := by
  rw [eraseSt_eq_iff] at h ⊢
  obtain ⟨h1, h2, h3, h4, h5, h6, h7, h8⟩ := h
  unfold LD.logErr
  split <;> simp [*]

/-- Two recursive evaluators agree modulo `g` and modulo the two reported event fields. -/
def RecSim (g : Flag → Flag) (rec' rec : LD.FlagRec) : Prop :=
  ∀ pf chain a b, eraseSt a = eraseSt b →
    (rec' (g pf) chain a).1 = (rec pf chain b).1 ∧
      eraseSt (rec' (g pf) chain a).2 = eraseSt (rec pf chain b).2

/-- One-step lemma: the prerequisite loop over a store whose flags had ANY metadata change. -/
theorem e_prereqLoop_remeta {g : Flag → Flag} (hg : MetaOnly g) (env : Env) {rec' rec : LD.FlagRec}
    (hrec : RecSim g rec' rec) (f : Flag) (chain : List String) :
    ∀ ps a b, eraseSt a = eraseSt b →
      (LD.prereqLoop rec' (remetaStore env g) f chain ps a).1 =
        (LD.prereqLoop rec env f chain ps b).1 ∧
      eraseSt (LD.prereqLoop rec' (remetaStore env g) f chain ps a).2 =
        eraseSt (LD.prereqLoop rec env f chain ps b).2 := by
  intro ps
  induction ps with
  | nil => intro a b h; exact ⟨rfl, h⟩
  | cons p ps ih =>
    intro a b h
    have h1 : eraseSt { a with flagLookups := a.flagLookups ++ [p.key] } =
        eraseSt { b with flagLookups := b.flagLookups ++ [p.key] } := by
      rw [eraseSt_eq_iff] at h ⊢
      obtain ⟨h1, h2, h3, h4, h5, h6, h7, h8⟩ := h
      simp [*]
    simp only [LD.prereqLoop, findFlag_remeta]
    cases hf : env.store.findFlag p.key with
    | none => exact ⟨rfl, h1⟩
    | some pf =>
      simp only [Option.map_some, hg.key, hg.on]
      obtain ⟨m, bx, hgpf⟩ := hg pf
      have hexp : ∀ r, LD.isExperimentResult (g pf) r = LD.isExperimentResult pf r := by
        intro r; rw [hgpf]; rfl
      by_cases hc : chain.contains pf.key
      · simp only [hc, if_true]
        exact ⟨trivial, eraseSt_logErr _ _ _ h1⟩
      · simp only [hc]
        have hr := hrec pf chain _ _ h1
        revert hr
        rcases rec' (g pf) chain { a with flagLookups := a.flagLookups ++ [p.key] } with ⟨o', s'⟩
        rcases rec pf chain { b with flagLookups := b.flagLookups ++ [p.key] } with ⟨o, s⟩
        rintro ⟨ho, hs⟩
        simp only at ho hs
        subst ho
        cases o' with
        | oof => exact ⟨rfl, hs⟩
        | done d ok =>
          have hst : a.status = b.status := ((eraseSt_eq_iff _ _).1 h).1
          have hs3 : eraseSt { s' with status := updateStatus a.status s'.status } =
              eraseSt { s with status := updateStatus b.status s.status } := by
            rw [eraseSt_eq_iff] at hs ⊢
            obtain ⟨h1, h2, h3, h4, h5, h6, h7, h8⟩ := hs
            simp [*]
          simp only [hexp]
          cases ok with
          | false => exact ⟨rfl, hs3⟩
          | true =>
            simp only [Bool.not_true, Bool.false_eq_true, if_false]
            have hs4 : eraseSt (if env.opts.recorder then
                  { ({ s' with status := updateStatus a.status s'.status } : St) with
                    events := s'.events ++
                      [{ targetKey := f.key, prereqKey := pf.key,
                         prereqVersion := (g pf).fmeta.version,
                         result := ⟨d, isExperimentResult pf d.reason⟩,
                         excludeFromSummaries := (g pf).excludeFromSummaries }] }
                else { s' with status := updateStatus a.status s'.status }) =
                eraseSt (if env.opts.recorder then
                  { ({ s with status := updateStatus b.status s.status } : St) with
                    events := s.events ++
                      [{ targetKey := f.key, prereqKey := pf.key,
                         prereqVersion := pf.fmeta.version,
                         result := ⟨d, isExperimentResult pf d.reason⟩,
                         excludeFromSummaries := pf.excludeFromSummaries }] }
                else { s with status := updateStatus b.status s.status }) := by
              split
              · rw [eraseSt_eq_iff] at hs ⊢
                obtain ⟨h1, h2, h3, h4, h5, h6, h7, h8⟩ := hs
                simp [*, eraseEv]
              · exact hs3
            split
            · exact ⟨rfl, hs4⟩
            · exact ih _ _ hs4

/-! ### 12b. The full statement of section 12, proved

  `evaluate_stored_metadata_modulo_reported`: for every `MetaOnly g`, the observation of `Evaluate`
  is unchanged except in the two event fields that report a prerequisite's metadata.  Route: frame
  lemmas (`fr_*`: the functions that never touch `events` commute with replacing that field),
  `sim_of_fr`, `e_evalBody_remeta`, `e_evalFlag_remeta` (fuel induction establishing `RecSim`).
  The header of section 12 above predates this proof: nothing is missing any more.
-/

open LD

def setEv (ev : List Event) (st : St) : St := { st with events := ev }

def Fr {α : Type} (F : St → α × St) : Prop :=
  ∀ ev st, F (setEv ev st) = ((F st).1, setEv ev (F st).2)

def SegFr (rec : LD.SegRec) : Prop := ∀ s ch, Fr (rec s ch)

theorem fr_segMatchValues {rec : LD.SegRec} (hrec : SegFr rec) (env : Env) (negate : Bool)
    (chain : List String) : ∀ vs, Fr (LD.segMatchValues rec env negate chain vs) := by
  intro vs
  induction vs with
  | nil => intro ev st; rfl
  | cons v vs ih =>
    intro ev st
    cases v with
    | str k =>
      simp only [LD.segMatchValues]
      have e : ({ setEv ev st with segLookups := (setEv ev st).segLookups ++ [k] } : St) =
          setEv ev { st with segLookups := st.segLookups ++ [k] } := rfl
      rw [e]
      cases env.store.findSegment k with
      | none => exact ih _ _
      | some seg =>
        simp only [hrec seg chain ev]
        generalize rec seg chain { st with segLookups := st.segLookups ++ [k] } = p
        rcases p with ⟨r, s2⟩
        rcases r with b | e | _
        · cases b
          · exact ih _ _
          · rfl
        · rfl
        · rfl
    | null => simp only [LD.segMatchValues]; exact ih _ _
    | bool b => simp only [LD.segMatchValues]; exact ih _ _
    | num q => simp only [LD.segMatchValues]; exact ih _ _
    | arr xs => simp only [LD.segMatchValues]; exact ih _ _
    | obj kvs => simp only [LD.segMatchValues]; exact ih _ _
    | raw w => simp only [LD.segMatchValues]; exact ih _ _

theorem fr_clauseMatch {rec : LD.SegRec} (hrec : SegFr rec) (env : Env) (chain : List String)
    (c : Clause) : Fr (LD.clauseMatch rec env chain c) := by
  intro ev st
  unfold LD.clauseMatch
  split
  · exact fr_segMatchValues hrec env _ chain _ ev st
  · rfl

theorem fr_clausesMatch {rec : LD.SegRec} (hrec : SegFr rec) (env : Env) (chain : List String) :
    ∀ cs, Fr (LD.clausesMatch rec env chain cs) := by
  intro cs
  induction cs with
  | nil => intro ev st; rfl
  | cons c cs ih =>
    intro ev st
    simp only [LD.clausesMatch, fr_clauseMatch hrec env chain c ev st]
    generalize LD.clauseMatch rec env chain c st = p
    rcases p with ⟨r, s2⟩
    rcases r with b | e | _
    · cases b
      · rfl
      · exact ih _ _
    · rfl
    · rfl

theorem fr_segRuleMatch {rec : LD.SegRec} (hrec : SegFr rec) (env : Env) (chain : List String)
    (key salt : String) (r : SegmentRule) : Fr (LD.segRuleMatch rec env chain key salt r) := by
  intro ev st
  simp only [LD.segRuleMatch, fr_clausesMatch hrec env chain r.clauses ev st]
  generalize LD.clausesMatch rec env chain r.clauses st = p
  rcases p with ⟨r', s2⟩
  rcases r' with b | e | _
  · cases b
    · rfl
    · simp only
      split
      · rfl
      · split
        · rfl
        · split <;> rfl
  · rfl
  · rfl

theorem fr_segRules {rec : LD.SegRec} (hrec : SegFr rec) (env : Env) (chain : List String)
    (s : Segment) : ∀ rs, Fr (LD.segRules rec env chain s rs) := by
  intro rs
  induction rs with
  | nil => intro ev st; rfl
  | cons r rs ih =>
    intro ev st
    simp only [LD.segRules, fr_segRuleMatch hrec env chain s.key s.salt r ev st]
    generalize LD.segRuleMatch rec env chain s.key s.salt r st = p
    rcases p with ⟨r', s2⟩
    rcases r' with b | e | _
    · cases b
      · exact ih _ _
      · rfl
    · rfl
    · rfl

theorem fr_bigSegMembership (env : Env) (key : String) : Fr (LD.bigSegMembership env key) := by
  intro ev st
  unfold LD.bigSegMembership
  have e : (setEv ev st).cache = st.cache := rfl
  rw [e]
  cases st.cache.lookup key with
  | some m => rfl
  | none => cases env.bs <;> rfl

theorem fr_segBody {rec : LD.SegRec} (hrec : SegFr rec) (env : Env) (s : Segment)
    (chain : List String) : Fr (LD.segBody rec env s chain) := by
  intro ev st
  unfold LD.segBody
  split
  · rfl
  · simp only
    split
    · split
      · rfl
      · split
        · rfl
        · rw [fr_bigSegMembership env _ ev st]
          generalize LD.bigSegMembership env _ st = p
          rcases p with ⟨m, s1⟩
          cases m with
          | none => exact fr_segRules hrec env _ s _ ev s1
          | some tbl =>
            simp only
            split
            · rfl
            · exact fr_segRules hrec env _ s _ ev { s1 with memChecks := s1.memChecks ++ [(_, bigSegmentRef s)] }
    · split
      · rfl
      · exact fr_segRules hrec env _ s _ ev st

theorem fr_segContains (env : Env) : ∀ n, SegFr (LD.segContains n env) := by
  intro n
  induction n with
  | zero => intro s ch ev st; rfl
  | succ n ih => intro s ch; exact fr_segBody ih env s ch

theorem fr_logErr (env : Env) (k : String) (e : EvalErr) (ev : List Event) (st : St) :
    LD.logErr env k e (setEv ev st) = setEv ev (LD.logErr env k e st) := by
  unfold LD.logErr
  split <;> rfl

theorem fr_getVariation (env : Env) (f : Flag) (i : Int) (r : Reason) :
    Fr (LD.getVariation env f i r) := by
  intro ev st
  unfold LD.getVariation
  split
  · simp only [fr_logErr]
  · rfl

theorem fr_getOffValue (env : Env) (f : Flag) (r : Reason) : Fr (LD.getOffValue env f r) := by
  intro ev st
  unfold LD.getOffValue
  split
  · rfl
  · exact fr_getVariation env f _ r ev st

theorem fr_getValueForVR (env : Env) (f : Flag) (vr : VariationOrRollout) (r : Reason) :
    Fr (LD.getValueForVR env f vr r) := by
  intro ev st
  unfold LD.getValueForVR
  split
  · simp only [fr_logErr]
  · exact fr_getVariation env f _ _ ev st

theorem fr_rulesLoop {seg : LD.SegRec} (hseg : SegFr seg) (env : Env) (f : Flag) :
    ∀ rs i, Fr (LD.rulesLoop seg env f rs i) := by
  intro rs
  induction rs with
  | nil =>
    intro i ev st
    simp only [LD.rulesLoop, fr_getValueForVR env f _ _ ev st]
  | cons r rs ih =>
    intro i ev st
    simp only [LD.rulesLoop, fr_clausesMatch hseg env [] r.clauses ev st]
    generalize LD.clausesMatch seg env [] r.clauses st = p
    rcases p with ⟨r', s2⟩
    rcases r' with b | e | _
    · cases b
      · exact ih _ _ _
      · simp only [fr_getValueForVR env f _ _ ev s2]
    · simp only [fr_logErr]
    · rfl

/-- A framed function is a simulation modulo `eraseSt`. -/
theorem sim_of_fr {α : Type} {F : St → α × St} (h : Fr F) {a b : St}
    (hab : eraseSt a = eraseSt b) :
    (F a).1 = (F b).1 ∧ eraseSt (F a).2 = eraseSt (F b).2 := by
  have hb : b = setEv b.events a := by
    rw [eraseSt_eq_iff] at hab
    obtain ⟨h1, h2, h3, h4, h5, h6, h7, h8⟩ := hab
    cases a; cases b
    simp only [setEv, St.mk.injEq] at *
    simp [*]
  have ha : (F a).2.events = a.events := by
    have e : a = setEv a.events a := by cases a; rfl
    have := h a.events a
    rw [← e] at this
    have h2 := congrArg (fun p => p.2.events) this
    simpa [setEv] using h2
  have hF := h b.events a
  rw [← hb] at hF
  rw [hF]
  refine ⟨rfl, ?_⟩
  rw [eraseSt_eq_iff]
  simp only [setEv, ha]
  simpa using ((eraseSt_eq_iff _ _).1 hab).2.2.2.2.2.2.2

theorem e_evalBody_remeta {g : Flag → Flag} (hg : MetaOnly g) (env : Env) {rec' rec : LD.FlagRec}
    (hrec : RecSim g rec' rec) {seg : LD.SegRec} (hseg : SegFr seg) (f : Flag)
    (chain : List String) (a b : St) (hab : eraseSt a = eraseSt b) :
    (LD.evalBody rec' seg (remetaStore env g) f chain a).1 = (LD.evalBody rec seg env f chain b).1 ∧
      eraseSt (LD.evalBody rec' seg (remetaStore env g) f chain a).2 =
        eraseSt (LD.evalBody rec seg env f chain b).2 := by
  unfold LD.evalBody LD.checkPrereqs
  simp only [m_rulesLoop_remeta, m_getOffValue_remeta, m_getVariation_remeta]
  have hctx : (remetaStore env g).ctx = env.ctx := rfl
  rw [hctx]
  split
  · have := sim_of_fr (fr_getOffValue env f .off) hab
    exact ⟨by simp only [this.1], this.2⟩
  · have hp : (if f.prerequisites.isEmpty then (PrereqOut.ok, a)
          else LD.prereqLoop rec' (remetaStore env g) f (chain ++ [f.key]) f.prerequisites a).1 =
        (if f.prerequisites.isEmpty then (PrereqOut.ok, b)
          else LD.prereqLoop rec env f (chain ++ [f.key]) f.prerequisites b).1 ∧
        eraseSt (if f.prerequisites.isEmpty then (PrereqOut.ok, a)
          else LD.prereqLoop rec' (remetaStore env g) f (chain ++ [f.key]) f.prerequisites a).2 =
        eraseSt (if f.prerequisites.isEmpty then (PrereqOut.ok, b)
          else LD.prereqLoop rec env f (chain ++ [f.key]) f.prerequisites b).2 := by
      split
      · exact ⟨rfl, hab⟩
      · exact e_prereqLoop_remeta hg env hrec f _ _ a b hab
    revert hp
    generalize (if f.prerequisites.isEmpty then (PrereqOut.ok, a)
          else LD.prereqLoop rec' (remetaStore env g) f (chain ++ [f.key]) f.prerequisites a) = p
    generalize (if f.prerequisites.isEmpty then (PrereqOut.ok, b)
          else LD.prereqLoop rec env f (chain ++ [f.key]) f.prerequisites b) = q
    rcases p with ⟨o, s⟩
    rcases q with ⟨o', s'⟩
    rintro ⟨ho, hs⟩
    simp only at ho hs
    subst ho
    cases o with
    | oof => exact ⟨rfl, hs⟩
    | malformed => exact ⟨rfl, hs⟩
    | failed k =>
      have := sim_of_fr (fr_getOffValue env f (.prereqFailed k)) hs
      exact ⟨by simp only [this.1], this.2⟩
    | ok =>
      simp only
      cases anyTargetMatch env.ctx f with
      | some v =>
        have := sim_of_fr (fr_getVariation env f v .targetMatch) hs
        exact ⟨by simp only [this.1], this.2⟩
      | none => exact sim_of_fr (fr_rulesLoop hseg env f f.rules 0) hs

theorem e_evalFlag_remeta {g : Flag → Flag} (hg : MetaOnly g) (env : Env) (sf : Nat) :
    ∀ n, RecSim g (LD.evalFlag sf n (remetaStore env g)) (LD.evalFlag sf n env) := by
  intro n
  induction n with
  | zero => intro pf chain a b h; exact ⟨rfl, h⟩
  | succ n ih =>
    intro pf chain a b h
    rw [m_evalFlag_metaOnly hg]
    have key := e_evalBody_remeta hg env ih (fr_segContains env sf) pf chain a b h
    have e1 : LD.evalFlag sf (n + 1) (remetaStore env g) pf chain a =
        LD.evalBody (LD.evalFlag sf n (remetaStore env g)) (LD.segContains sf env)
          (remetaStore env g) pf chain a := by
      rw [← m_segContains_remeta env g sf]; rfl
    have e2 : LD.evalFlag sf (n + 1) env pf chain b =
        LD.evalBody (LD.evalFlag sf n env) (LD.segContains sf env) env pf chain b := rfl
    rw [e1, e2]
    exact key

theorem evaluate_stored_metadata_modulo_reported (env : Env) (g : Flag → Flag) (hg : MetaOnly g)
    (f : Flag) :
    eraseObs (evaluate (remetaStore env g) f) = eraseObs (evaluate env f) := by
  unfold evaluate
  rw [segFuel_remeta, flagFuel_remeta hg]
  have hctx : (remetaStore env g).ctx = env.ctx := rfl
  rw [hctx]
  have hsim := e_evalFlag_remeta hg env (segFuel env.store) (flagFuel env.store) f [] {} {} rfl
  rw [m_evalFlag_metaOnly hg] at hsim
  revert hsim
  generalize LD.evalFlag (segFuel env.store) (flagFuel env.store) (remetaStore env g) f [] {} = p
  generalize LD.evalFlag (segFuel env.store) (flagFuel env.store) env f [] {} = q
  rcases p with ⟨o, s⟩
  rcases q with ⟨o', s'⟩
  rintro ⟨ho, hs⟩
  simp only at ho hs
  subst ho
  rw [eraseSt_eq_iff] at hs
  obtain ⟨h1, h2, h3, h4, h5, h6, h7, h8⟩ := hs
  split
  · rfl
  · simp only [eraseObs, h1, h3, h4, h5, h6, h7, h8]

end LD.C20

#print axioms LD.C20.metadata
#print axioms LD.C20.metadata_excludeFromSummaries
#print axioms LD.C20.evaluate_metadata
#print axioms LD.C20.isExperimentResult_metadata
#print axioms LD.C20.append_rules
#print axioms LD.C20.append_rules_general
#print axioms LD.C20.append_rules_evalBody
#print axioms LD.C20.insert_dead_rule
#print axioms LD.C20.shiftFrom_keeps
#print axioms LD.C20.in_empty_never_matches
#print axioms LD.C20.perm_target_keys
#print axioms LD.C20.perm_target_keys_preprocessed
#print axioms LD.C20.perm_targetMatch
#print axioms LD.C20.doOp_plain_index_free
#print axioms LD.C20.perm_values
#print axioms LD.C20.perm_values_clause
#print axioms LD.C20.perm_clauses
#print axioms LD.C20.valueForRef_addAttr
#print axioms LD.C20.valueForRef_addAttr_shadowed
#print axioms LD.C20.clauseMatchNoSeg_mapInd
#print axioms LD.C20.computeBucket_mapInd
#print axioms LD.C20.evalFlag_ctx
#print axioms LD.C20.unreferenced_attribute
#print axioms LD.C20.add_unreferenced_attribute
#print axioms LD.C20.extraKind_multi
#print axioms LD.C20.extraKind_single
#print axioms LD.C20.targetMatch_extraKind
#print axioms LD.C20.clauseMatchNoSeg_extraKind
#print axioms LD.C20.computeBucket_extraKind
#print axioms LD.C20.segLists_extraKind
#print axioms LD.C20.unreferenced_kind
#print axioms LD.C20.unreferenced_kind_multi
#print axioms LD.C20.unreferenced_kind_single
#print axioms LD.C20.evaluate_ctx
#print axioms LD.C20.evaluate_unreferenced_attribute
#print axioms LD.C20.evaluate_add_unreferenced_attribute
#print axioms LD.C20.evaluate_unreferenced_kind
#print axioms LD.C20.evaluate_unreferenced_kind_multi
#print axioms LD.C20.evaluate_unreferenced_kind_single
#print axioms LD.C20.evaluate_rules_eq
#print axioms LD.C20.evaluate_append_rules
#print axioms LD.C20.evaluate_append_rules_of_kind
#print axioms LD.C20.evaluate_rules_equiv
#print axioms LD.C20.evaluate_replace_clauses
#print axioms LD.C20.evaluate_perm_values
#print axioms LD.C20.evaluate_perm_clauses_pure
#print axioms LD.C20.evaluate_insert_dead_rule
#print axioms LD.C20.evaluate_result_of_spec
#print axioms LD.C20.evaluate_perm_clauses_result
#print axioms LD.C20.evaluate_insert_dead_rule_result
#print axioms LD.C20.clause_order_observable
#print axioms LD.C20.shortcut_observable
#print axioms LD.C20.evaluate_rules_events

/-
  C06 — Bucket value is the canonical LaunchDarkly hash.

  The bucket assigned to a context for a rollout, experiment or weighted segment rule is the number
  formed by the first 15 hexadecimal digits of SHA-1 over `<seed>.<v>` when a seed is given and
  `<key>.<salt>.<v>` otherwise, divided by 0xFFFFFFFFFFFFFFF in single precision, where v is the
  context key of the rollout's kind or, for non-experiment rollouts with a bucket-by attribute,
  that attribute if it is a string or an integer-valued number (decimal rendering); `.secondary`
  is appended only when the secondary-key option is on, the rollout is not an experiment and the
  context has one.  A missing kind, missing attribute or non-string/non-integer attribute gives
  bucket 0 and an invalid bucket-by reference gives MALFORMED_FLAG, so assignments are identical
  across SDKs, releases, processes and input lengths.
-/
import LDEval.Proofs.Rollout

namespace LD.C06
open LD.SoftF32

/-! ### Specification of the hashed bytes as plain concatenation -/

def bytes (s : String) : List UInt8 := s.toUTF8.toList

/-- `<seed>.` or `<key>.<salt>.` -/
def prefixBytes (seed : Option Int) (key salt : String) : List UInt8 :=
  match seed with
  | some s => decimal s ++ [46]
  | none => bytes key ++ [46] ++ bytes salt ++ [46]

/-- How the bucketing value is rendered: a string as itself, an integer-valued number in int64
range in decimal; anything else is not a bucketing value.  An unparsed value (`J.raw`) is rendered
as the value it parses to (`IsString()` / `StringValue()` / `IsInt()` / `IntValue()` all parse). -/
def renderValue (v : J) : Option (List UInt8) :=
  match v.unraw with
  | .str s => some (bytes s)
  | .num q => if ratIsInt q then some (decimal (goInt q)) else none
  | _ => none

theorem renderValue_raw (v : J) : renderValue (.raw v) = renderValue v := by simp [renderValue]

def hashInput (seed : Option Int) (key salt : String) (v : List UInt8)
    (secondary : Option String) : List UInt8 :=
  prefixBytes seed key salt ++ v ++ (match secondary with | some s => 46 :: bytes s | none => [])

/-- The attribute actually bucketed by: the key for experiments and when no bucket-by is given. -/
def effectiveRef (isExp : Bool) (attr : Ref) : Ref :=
  if isExp || !attr.isDefined then Ref.newLiteral "key" else attr

/-- The secondary key that takes part in the hash. -/
def effectiveSecondary (sec isExp : Bool) (sc : SCtx) : Option String :=
  if sec && !isExp then sc.secondary else none

/-! ### 2. The buffer refines concatenation, for every capacity -/

theorem buffer_refines_concat (b : LocalBuffer) :
    (∀ bs, (b.append bs).data = b.data ++ bs) ∧
    (∀ ch, (b.appendByte ch).data = b.data ++ [ch]) ∧
    (∀ s, (b.appendString s).data = b.data ++ bytes s) ∧
    (∀ n, (b.appendInt n).data = b.data ++ decimal n) :=
  ⟨LocalBuffer.append_data b, LocalBuffer.appendByte_data b, LocalBuffer.appendString_data b,
    LocalBuffer.appendInt_data b⟩

/-- A script of appends. -/
inductive Step where
  | byte (ch : UInt8)
  | string (s : String)
  | int (n : Int)
  | raw (bs : List UInt8)

def Step.run (b : LocalBuffer) : Step → LocalBuffer
  | .byte ch => b.appendByte ch
  | .string s => b.appendString s
  | .int n => b.appendInt n
  | .raw bs => b.append bs

def Step.bytes : Step → List UInt8
  | .byte ch => [ch]
  | .string s => C06.bytes s
  | .int n => decimal n
  | .raw bs => bs

theorem Step.run_data (b : LocalBuffer) (st : Step) : (st.run b).data = b.data ++ st.bytes := by
  cases st <;>
    simp [Step.run, Step.bytes, C06.bytes, LocalBuffer.append_data, LocalBuffer.appendByte_data,
      LocalBuffer.appendString_data, LocalBuffer.appendInt_data]

/-- Any script of appends yields the concatenation of what was appended — whatever the capacity
and however often the buffer had to be reallocated. -/
theorem script_data (script : List Step) (b : LocalBuffer) :
    (script.foldl Step.run b).data = b.data ++ (script.map Step.bytes).flatten := by
  induction script generalizing b with
  | nil => simp
  | cons st rest ih => simp [List.foldl_cons, ih, Step.run_data, List.append_assoc]

/-- The data produced by a script of appends is the same for any two initial capacities (and any
two buffers with equal contents). -/
theorem capacity_irrelevant_script (script : List Step) (b1 b2 : LocalBuffer)
    (h : b1.data = b2.data) :
    (script.foldl Step.run b1).data = (script.foldl Step.run b2).data := by
  rw [script_data, script_data, h]

theorem capacity_irrelevant (c1 c2 : Nat) (seed : Option Int) (key salt : String) :
    (hashPrefix (LocalBuffer.new c1) seed key salt).data =
      (hashPrefix (LocalBuffer.new c2) seed key salt).data := by
  rw [hashPrefix_data, hashPrefix_data]

theorem prefix_data (cap : Nat) (seed : Option Int) (key salt : String) :
    (hashPrefix (LocalBuffer.new cap) seed key salt).data = prefixBytes seed key salt := by
  rw [hashPrefix_data]; cases seed <;> rfl

/-- A buffer is never shorter than its capacity allows: the invariant `len ≤ cap` is preserved. -/
theorem cap_invariant (b : LocalBuffer) (bs : List UInt8) (h : b.data.length ≤ b.cap) :
    (b.append bs).data.length ≤ (b.append bs).cap :=
  LocalBuffer.cap_ge_length b bs h

/-! ### 1. Byte-exact layout of the hash input -/

/-- The specification of `computeBucketValue` up to hashing: an error, a reason for bucket 0, or
the bytes to hash — as plain list concatenation, with no buffer and no capacity. -/
def specInput (sec : Bool) (ctx : Ctx) (isExp : Bool) (seed : Option Int)
    (ck key : String) (attr : Ref) (salt : String) :
    Except EvalErr (Except BucketFail (List UInt8)) :=
  if !(isExp || !attr.isDefined) && attr.errOf.isSome then .error (.badAttrRef attr.raw)
  else match ctx.byKind ck with
    | none => .ok (.error .contextLacksKind)
    | some sc =>
      let v := sc.valueForRef (effectiveRef isExp attr)
      if v.isNull then .ok (.error .attributeNotFound)
      else match renderValue v with
        | none => .ok (.error .attributeWrongType)
        | some bs => .ok (.ok (hashInput seed key salt bs (effectiveSecondary sec isExp sc)))

theorem isNull_false_of (v : J) (h : v.unraw = .null → False) : v.isNull = false :=
  (J.isNull_eq_false_iff v).2 h

theorem renderValue_none_of (v : J) (h2 : ∀ s, v.unraw = .str s → False)
    (h3 : ∀ q, v.unraw = .num q → False) : renderValue v = none := by
  unfold renderValue
  cases hv : v.unraw with
  | str s => exact absurd hv (h2 s)
  | num q => exact absurd hv (h3 q)
  | _ => rfl

/-- The buffer-based implementation computes exactly the specification (for the 100-byte initial
capacity it uses; by `capacity_irrelevant_script` for any other as well). -/
theorem bucketInput_refines (sec : Bool) (ctx : Ctx) (isExp : Bool) (seed : Option Int)
    (ck key : String) (attr : Ref) (salt : String) :
    (bucketInput sec ctx isExp seed ck key attr salt).map (Except.map LocalBuffer.data) =
      specInput sec ctx isExp seed ck key attr salt := by
  unfold bucketInput specInput
  simp only [show (if (isExp || !attr.isDefined) = true then Ref.newLiteral "key" else attr)
    = effectiveRef isExp attr from rfl]
  split
  · rfl
  · cases hk : ctx.byKind ck with
    | none => rfl
    | some sc =>
      simp only []
      split
      · rename_i r e heq
        split at heq
        · rename_i hv
          cases heq
          simp only [J.isNull, hv]; rfl
        · cases heq
        · rename_i q hv
          split at heq
          · cases heq
          · rename_i hq
            cases heq
            simp [J.isNull, renderValue, hv, hq, Except.map]
        · rename_i x h1 h2 h3
          cases heq
          rw [isNull_false_of _ h1, renderValue_none_of _ h2 h3]
          rfl
      · rename_i r buf heq
        split at heq
        · cases heq
        · rename_i s hv
          cases heq
          cases hs : (sec && !isExp) <;> cases hsec : sc.secondary <;>
            simp [renderValue, J.isNull, hv, hashInput, effectiveSecondary, hs, hsec, Except.map, prefix_data,
              LocalBuffer.appendByte_data, LocalBuffer.appendString_data, bytes]
        · rename_i q hv
          split at heq
          · rename_i hq
            cases heq
            cases hs : (sec && !isExp) <;> cases hsec : sc.secondary <;>
              simp [renderValue, J.isNull, hv, hashInput, effectiveSecondary, hs, hsec, hq, Except.map,
                prefix_data, LocalBuffer.appendByte_data, LocalBuffer.appendString_data,
                LocalBuffer.appendInt_data, bytes]
          · cases heq
        · cases heq

/-- The specification of `computeBucketValue`. -/
def specBucket (sec : Bool) (ctx : Ctx) (isExp : Bool) (seed : Option Int)
    (ck key : String) (attr : Ref) (salt : String) : Except EvalErr (Rat × BucketFail) :=
  match specInput sec ctx isExp seed ck key attr salt with
  | .error e => .error e
  | .ok (.error f) => .ok (0, f)
  | .ok (.ok input) => .ok (bucketOfInput input, .none)

theorem computeBucket_eq_spec (sec : Bool) (ctx : Ctx) (isExp : Bool) (seed : Option Int)
    (ck key : String) (attr : Ref) (salt : String) :
    computeBucket sec ctx isExp seed ck key attr salt =
      specBucket sec ctx isExp seed ck key attr salt := by
  unfold computeBucket specBucket
  rw [← bucketInput_refines]
  cases bucketInput sec ctx isExp seed ck key attr salt with
  | error e => rfl
  | ok r => cases r <;> rfl

/-- The reference is usable: either it is not looked at, or it is valid. -/
def RefOK (isExp : Bool) (attr : Ref) : Prop :=
  (isExp || !attr.isDefined) = true ∨ attr.errOf = none

theorem refOK_iff (isExp : Bool) (attr : Ref) :
    RefOK isExp attr ↔ ¬ ((!(isExp || !attr.isDefined) && attr.errOf.isSome) = true) := by
  unfold RefOK
  cases (isExp || !attr.isDefined) <;> cases attr.errOf <;> simp

/-- Exactly when `specInput` yields bytes to hash, and which. -/
theorem specInput_ok_iff (sec : Bool) (ctx : Ctx) (isExp : Bool) (seed : Option Int)
    (ck key : String) (attr : Ref) (salt : String) (input : List UInt8) :
    specInput sec ctx isExp seed ck key attr salt = .ok (.ok input) ↔
      RefOK isExp attr ∧ ∃ sc v, ctx.byKind ck = some sc ∧
        renderValue (sc.valueForRef (effectiveRef isExp attr)) = some v ∧
        input = hashInput seed key salt v (effectiveSecondary sec isExp sc) := by
  rw [refOK_iff]
  constructor
  · intro h
    unfold specInput at h
    split at h
    · cases h
    · rename_i hc
      refine ⟨hc, ?_⟩
      split at h
      · cases h
      · rename_i sc hk
        simp only [] at h
        split at h
        · cases h
        · split at h
          · cases h
          · rename_i bs hr
            simp only [Except.ok.injEq] at h
            exact ⟨sc, bs, hk, hr, h.symm⟩
  · intro ⟨hc, sc, v, hk, hr, hi⟩
    have hn : (sc.valueForRef (effectiveRef isExp attr)).isNull = false := by
      apply isNull_false_of
      intro e
      simp only [renderValue, e] at hr
      cases hr
    rw [specInput, if_neg hc, hk]
    simp only [hn, hr, hi]
    rfl

/-- **1. Byte-exact layout.**  Whenever the implementation hashes, what it hashes is
`<prefix><value>[.<secondary>]` — independent of the 100-byte initial capacity. -/
theorem input_layout (sec : Bool) (ctx : Ctx) (isExp : Bool) (seed : Option Int)
    (ck key : String) (attr : Ref) (salt : String) (buf : LocalBuffer)
    (h : bucketInput sec ctx isExp seed ck key attr salt = .ok (.ok buf)) :
    ∃ sc v, ctx.byKind ck = some sc ∧
      renderValue (sc.valueForRef (if isExp || !attr.isDefined then Ref.newLiteral "key" else attr))
        = some v ∧
      buf.data = hashInput seed key salt v (if sec && !isExp then sc.secondary else none) := by
  have hr := bucketInput_refines sec ctx isExp seed ck key attr salt
  rw [h] at hr
  have hs : specInput sec ctx isExp seed ck key attr salt = .ok (.ok buf.data) := hr.symm
  obtain ⟨_, sc, v, h1, h2, h3⟩ := (specInput_ok_iff ..).mp hs
  exact ⟨sc, v, h1, h2, h3⟩

/-- Conversely: with a usable reference, a context of the kind and a renderable value, the
implementation hashes exactly these bytes. -/
theorem bucket_of_layout (sec : Bool) (ctx : Ctx) (isExp : Bool) (seed : Option Int)
    (ck key : String) (attr : Ref) (salt : String) (sc : SCtx) (v : List UInt8)
    (hok : RefOK isExp attr) (hsc : ctx.byKind ck = some sc)
    (hv : renderValue (sc.valueForRef (effectiveRef isExp attr)) = some v) :
    computeBucket sec ctx isExp seed ck key attr salt =
      .ok (bucketOfInput (hashInput seed key salt v (effectiveSecondary sec isExp sc)), .none) := by
  have hs := (specInput_ok_iff sec ctx isExp seed ck key attr salt _).mpr
    ⟨hok, sc, v, hsc, hv, rfl⟩
  rw [computeBucket_eq_spec, specBucket, hs]

/-! ### 3. The value -/

theorem longScale_is_pow2 : longScale = SoftF32.pow2 60 := longScale_eq

/-- Dividing a float32 by 2^60 is exact. -/
theorem div_pow2_exact (x : Rat) : rnd (rnd x / pow2 60) = rnd x / pow2 60 := by
  have e : pow2 (-60) = 1 / pow2 60 := by
    have := pow2_sub 0 60
    rw [pow2_zero] at this
    simpa using this
  have h : rnd x / pow2 60 = rnd x * pow2 (-60) := by rw [e]; ring
  rw [h, rnd_mul_pow2, rnd_idem]

/-- From hash input to bucket: the 15-hex-digit number, converted to float32, divided by 2^60. -/
theorem bucketOfInput_value (input : List UInt8) :
    ∃ v : UInt64, parseHexU64 ((Sha1.hexEncode (Sha1.sum input)).take 15) = some v ∧
      v.toNat = hexValue ((Sha1.hexEncode (Sha1.sum input)).take 15) ∧
      v.toNat < 2 ^ 60 ∧
      bucketOfInput input = SoftF32.rnd (v.toNat : Rat) / SoftF32.pow2 60 := by
  have hlen : ((Sha1.hexEncode (Sha1.sum input)).take 15).length = 15 := by
    rw [List.length_take, hexEncode_length, sha1_sum_length]; rfl
  have hne : (Sha1.hexEncode (Sha1.sum input)).take 15 ≠ [] := by
    intro h; rw [h] at hlen; simp at hlen
  obtain ⟨v, hv, hval, hlt⟩ := parseHexU64_hex _ hne (by omega)
    (fun c hc => hexEncode_isLowerHex _ c (List.mem_of_mem_take hc))
  rw [hlen] at hlt
  refine ⟨v, hv, hval, hlt, ?_⟩
  have : bucketOfInput input = SoftF32.div (SoftF32.ofInt v.toNat) longScale := by
    simp [bucketOfInput, hv]
  rw [this, longScale_is_pow2]
  unfold SoftF32.div SoftF32.ofInt
  rw [div_pow2_exact]
  norm_num

theorem specInput_fail_ne_none (sec : Bool) (ctx : Ctx) (isExp : Bool) (seed : Option Int)
    (ck key : String) (attr : Ref) (salt : String) :
    specInput sec ctx isExp seed ck key attr salt ≠ .ok (.error .none) := by
  unfold specInput
  split
  · simp
  · split
    · simp
    · simp only []
      split
      · simp
      · split <;> simp

/-- A successful bucket computation came from hashing. -/
theorem hashed_of_ok (sec : Bool) (ctx : Ctx) (isExp : Bool) (seed : Option Int)
    (ck key : String) (attr : Ref) (salt : String) (b : Rat)
    (h : computeBucket sec ctx isExp seed ck key attr salt = .ok (b, .none)) :
    ∃ input, specInput sec ctx isExp seed ck key attr salt = .ok (.ok input) ∧
      b = bucketOfInput input := by
  rw [computeBucket_eq_spec, specBucket] at h
  have hne := specInput_fail_ne_none sec ctx isExp seed ck key attr salt
  cases hs : specInput sec ctx isExp seed ck key attr salt with
  | error e => rw [hs] at h; cases h
  | ok r =>
    cases r with
    | error f =>
      rw [hs] at h
      simp only [Except.ok.injEq, Prod.mk.injEq] at h
      rw [hs, h.2] at hne
      exact absurd rfl hne
    | ok input =>
      rw [hs] at h
      simp only [Except.ok.injEq, Prod.mk.injEq] at h
      exact ⟨input, rfl, h.1.symm⟩

/-- **3. The value.** -/
theorem value (sec : Bool) (ctx : Ctx) (isExp : Bool) (seed : Option Int)
    (ck key : String) (attr : Ref) (salt : String) (b : Rat)
    (h : computeBucket sec ctx isExp seed ck key attr salt = .ok (b, .none)) :
    ∃ (input : List UInt8) (v : UInt64),
      parseHexU64 ((Sha1.hexEncode (Sha1.sum input)).take 15) = some v ∧ v.toNat < 2 ^ 60 ∧
      b = SoftF32.rnd (v.toNat : Rat) / SoftF32.pow2 60 := by
  obtain ⟨input, _, hb⟩ := hashed_of_ok sec ctx isExp seed ck key attr salt b h
  obtain ⟨v, hv, _, hlt, he⟩ := bucketOfInput_value input
  exact ⟨input, v, hv, hlt, hb.trans he⟩

/-- The value together with what was hashed: the complete statement of the property. -/
theorem value_layout (sec : Bool) (ctx : Ctx) (isExp : Bool) (seed : Option Int)
    (ck key : String) (attr : Ref) (salt : String) (b : Rat)
    (h : computeBucket sec ctx isExp seed ck key attr salt = .ok (b, .none)) :
    ∃ (sc : SCtx) (vb : List UInt8) (v : UInt64),
      ctx.byKind ck = some sc ∧
      renderValue (sc.valueForRef (effectiveRef isExp attr)) = some vb ∧
      parseHexU64 ((Sha1.hexEncode (Sha1.sum
        (hashInput seed key salt vb (effectiveSecondary sec isExp sc)))).take 15) = some v ∧
      v.toNat = hexValue ((Sha1.hexEncode (Sha1.sum
        (hashInput seed key salt vb (effectiveSecondary sec isExp sc)))).take 15) ∧
      v.toNat < 2 ^ 60 ∧
      b = SoftF32.rnd (v.toNat : Rat) / SoftF32.pow2 60 := by
  obtain ⟨input, hs, hb⟩ := hashed_of_ok sec ctx isExp seed ck key attr salt b h
  obtain ⟨_, sc, vb, h1, h2, rfl⟩ := (specInput_ok_iff ..).mp hs
  obtain ⟨v, hv, hval, hlt, he⟩ := bucketOfInput_value
    (hashInput seed key salt vb (effectiveSecondary sec isExp sc))
  exact ⟨sc, vb, v, h1, h2, hv, hval, hlt, hb.trans he⟩

theorem range (sec : Bool) (ctx : Ctx) (isExp : Bool) (seed : Option Int)
    (ck key : String) (attr : Ref) (salt : String) (b : Rat) (fail : BucketFail)
    (h : computeBucket sec ctx isExp seed ck key attr salt = .ok (b, fail)) :
    0 ≤ b ∧ b ≤ 1 :=
  Rollout.computeBucket_range h

/-! ### 4. The bucket-0 cases -/

theorem zero_cases (sec : Bool) (ctx : Ctx) (isExp : Bool) (seed : Option Int)
    (ck key : String) (attr : Ref) (salt : String) (hok : RefOK isExp attr) :
    (ctx.byKind ck = none →
      computeBucket sec ctx isExp seed ck key attr salt = .ok (0, .contextLacksKind)) ∧
    (∀ sc, ctx.byKind ck = some sc → (sc.valueForRef (effectiveRef isExp attr)).unraw = .null →
      computeBucket sec ctx isExp seed ck key attr salt = .ok (0, .attributeNotFound)) ∧
    (∀ sc, ctx.byKind ck = some sc → (sc.valueForRef (effectiveRef isExp attr)).unraw ≠ .null →
      renderValue (sc.valueForRef (effectiveRef isExp attr)) = none →
      computeBucket sec ctx isExp seed ck key attr salt = .ok (0, .attributeWrongType)) := by
  have hc := (refOK_iff isExp attr).mp hok
  refine ⟨?_, ?_, ?_⟩
  · intro hk
    rw [computeBucket_eq_spec, specBucket, specInput, if_neg hc, hk]
  · intro sc hk hv
    rw [computeBucket_eq_spec, specBucket, specInput, if_neg hc, hk]
    simp [(J.isNull_iff _).2 hv]
  · intro sc hk hv hr
    have hn : (sc.valueForRef (effectiveRef isExp attr)).isNull = false :=
      isNull_false_of _ (fun e => hv e)
    rw [computeBucket_eq_spec, specBucket, specInput, if_neg hc, hk]
    simp [hn, hr]

/-- The values that are not bucketable: everything but strings and integer-valued numbers in the
int64 range. -/
theorem renderValue_none_iff (v : J) :
    renderValue v = none ↔ (∀ s, v.unraw ≠ .str s) ∧ (∀ q, v.unraw = .num q → ratIsInt q = false) := by
  unfold renderValue
  cases v.unraw with
  | str s => simp
  | num q => cases hq : ratIsInt q <;> simp [hq]
  | _ => simp

/-! ### 5. Invalid bucket-by reference -/

theorem invalid_bucketby (sec : Bool) (ctx : Ctx) (seed : Option Int)
    (ck key : String) (attr : Ref) (salt : String)
    (hdef : attr.isDefined = true) (herr : attr.errOf.isSome = true) :
    computeBucket sec ctx false seed ck key attr salt = .error (.badAttrRef attr.raw) ∧
    (EvalErr.badAttrRef attr.raw).kind = .malformedFlag := by
  refine ⟨?_, rfl⟩
  rw [computeBucket_eq_spec, specBucket, specInput]
  simp [hdef, herr]

/-- The error arises in no other way. -/
theorem error_iff (sec : Bool) (ctx : Ctx) (isExp : Bool) (seed : Option Int)
    (ck key : String) (attr : Ref) (salt : String) (e : EvalErr) :
    computeBucket sec ctx isExp seed ck key attr salt = .error e ↔
      (isExp = false ∧ attr.isDefined = true ∧ attr.errOf.isSome = true ∧
        e = .badAttrRef attr.raw) := by
  rw [computeBucket_eq_spec, specBucket]
  by_cases hc : (!(isExp || !attr.isDefined) && attr.errOf.isSome) = true
  · have hs : specInput sec ctx isExp seed ck key attr salt = .error (.badAttrRef attr.raw) := by
      rw [specInput, if_pos hc]
    rw [hs]
    have : isExp = false ∧ attr.isDefined = true ∧ attr.errOf.isSome = true := by
      revert hc; cases isExp <;> cases attr.isDefined <;> cases attr.errOf.isSome <;> simp
    simp [this, eq_comm]
  · have : ¬ (isExp = false ∧ attr.isDefined = true ∧ attr.errOf.isSome = true) := by
      revert hc; cases isExp <;> cases attr.isDefined <;> cases attr.errOf.isSome <;> simp
    have hne : ∀ e', specInput sec ctx isExp seed ck key attr salt ≠ .error e' := by
      intro e'
      rw [specInput, if_neg hc]
      split
      · simp
      · simp only []
        split
        · simp
        · split <;> simp
    constructor
    · intro h
      cases hs : specInput sec ctx isExp seed ck key attr salt with
      | error e' => exact absurd hs (hne e')
      | ok r => rw [hs] at h; cases r <;> cases h
    · intro ⟨a, b, c, _⟩
      exact absurd ⟨a, b, c⟩ this

/-! ### 6. Experiments; the secondary key -/

/-- Experiments always bucket by key: neither the bucket-by reference (valid or not) nor the
secondary-key option is looked at. -/
theorem experiment_by_key (sec sec' : Bool) (ctx : Ctx) (seed : Option Int)
    (ck key : String) (attr attr' : Ref) (salt : String) :
    computeBucket sec ctx true seed ck key attr salt =
      computeBucket sec' ctx true seed ck key attr' salt :=
  Rollout.computeBucket_experiment sec sec' ctx seed ck key attr attr' salt

theorem effectiveSecondary_isSome (sec isExp : Bool) (sc : SCtx) :
    (effectiveSecondary sec isExp sc).isSome = true ↔
      sec = true ∧ isExp = false ∧ sc.secondary.isSome = true := by
  unfold effectiveSecondary
  cases sec <;> cases isExp <;> simp

/-- The secondary key contributes `.<secondary>` iff the option is on, the rollout is not an
experiment and the context has a secondary key; otherwise nothing follows the value. -/
theorem secondary_only_when (sec : Bool) (ctx : Ctx) (isExp : Bool) (seed : Option Int)
    (ck key : String) (attr : Ref) (salt : String) (buf : LocalBuffer)
    (h : bucketInput sec ctx isExp seed ck key attr salt = .ok (.ok buf)) :
    ∃ sc v, ctx.byKind ck = some sc ∧
      renderValue (sc.valueForRef (effectiveRef isExp attr)) = some v ∧
      ((sec = true ∧ isExp = false ∧ sc.secondary.isSome = true) →
        ∃ s, sc.secondary = some s ∧ buf.data = prefixBytes seed key salt ++ v ++ 46 :: bytes s) ∧
      (¬ (sec = true ∧ isExp = false ∧ sc.secondary.isSome = true) →
        buf.data = prefixBytes seed key salt ++ v) := by
  obtain ⟨sc, v, h1, h2, h3⟩ := input_layout sec ctx isExp seed ck key attr salt buf h
  refine ⟨sc, v, h1, h2, ?_, ?_⟩
  · intro ⟨a, b, c⟩
    obtain ⟨s, hs⟩ := Option.isSome_iff_exists.mp c
    exact ⟨s, hs, by rw [h3]; simp [hashInput, a, b, hs]⟩
  · intro hn
    have : (if (sec && !isExp) = true then sc.secondary else none) = none := by
      cases sec <;> cases isExp <;> cases hsec : sc.secondary <;> simp_all
    rw [h3, this]
    simp [hashInput]

/-! ### 7. Non-vacuity: golden vectors of the real SDK, evaluated by the kernel -/

section Examples

theorem eq_ok_of_toOption {ε α} {r : Except ε α} {x : α} (h : r.toOption = some x) : r = .ok x := by
  cases r with
  | error e => cases h
  | ok a => cases h; rfl

def userA : Ctx := .single { kind := "user", key := "userKeyA" }

/-- 118-character key: the hash input (133 bytes) outgrows the 100-byte initial buffer. -/
def longKey : String :=
  "userKeyA-0123456789-0123456789-0123456789-0123456789-0123456789-0123456789-0123456789-0123456789-0123456789-0123456789"

def userLong : Ctx := .single { kind := "user", key := longKey }

def userAttrs : Ctx := .single
  { kind := "user", key := "userKey", secondary := some "sec",
    attrs := [("intAttr", .num 33333), ("strAttr", .str "33333"), ("floatAttr", .num (67/2)),
              ("boolAttr", .bool true)] }

/-- What is hashed for the golden vector: `hashKey.saltyA.userKeyA`. -/
example : hashInput none "hashKey" "saltyA" (bytes "userKeyA") none = bytes "hashKey.saltyA.userKeyA" := by
  decide +kernel
example : hashInput (some 61) "hashKey" "saltyA" (bytes "userKeyA") none = bytes "61.userKeyA" := by
  decide +kernel
example : hashInput (some (-61)) "hashKey" "saltyA" (decimal 33333) (some "s") = bytes "-61.33333.s" := by
  decide +kernel

/-- Golden vector of the SDK's tests: key "userKeyA", flag key "hashKey", salt "saltyA" gives
0.42157587 (as a float32: exactly 14145739 / 2^25). -/
example : computeBucket false userA false none "" "hashKey" {} "saltyA"
    = .ok ((14145739 : Rat) / 33554432, .none) :=
  eq_ok_of_toOption (by decide +kernel)
example : |(14145739 : Rat) / 33554432 - 0.42157587| < 1 / 100000000 := by norm_num [abs_lt]

/-- With seed 61 the same context gets 0.09801207 (SDK golden vector). -/
example : computeBucket false userA false (some 61) "" "hashKey" {} "saltyA"
    = .ok ((13154957 : Rat) / 134217728, .none) :=
  eq_ok_of_toOption (by decide +kernel)
example : |(13154957 : Rat) / 134217728 - 0.09801207| < 1 / 100000000 := by norm_num [abs_lt]

/-- Bucket by an integer attribute 33333: 0.54771423 (SDK golden vector), the same as for the
string "33333". -/
example : computeBucket false userAttrs false none "" "hashKey" (Ref.newRef "intAttr") "saltyA"
    = .ok ((35895 : Rat) / 65536, .none) :=
  eq_ok_of_toOption (by decide +kernel)
example : computeBucket false userAttrs false none "" "hashKey" (Ref.newRef "strAttr") "saltyA"
    = .ok ((35895 : Rat) / 65536, .none) :=
  eq_ok_of_toOption (by decide +kernel)
example : |(35895 : Rat) / 65536 - 0.54771423| < 1 / 100000000 := by norm_num [abs_lt]

/-- An unparsed (raw) bucket-by attribute is bucketed by the value it parses to: the bucket for
`raw (str s)` is the bucket for `str s` (and likewise for an integer), for every `s`. -/
def userWith (v : J) : Ctx := .single { kind := "user", key := "userKey", attrs := [("a", v)] }

example (s : String) :
    computeBucket false (userWith (.raw (.str s))) false none "" "hashKey" (Ref.newRef "a") "saltyA" =
      computeBucket false (userWith (.str s)) false none "" "hashKey" (Ref.newRef "a") "saltyA" := rfl
example (q : Rat) :
    computeBucket false (userWith (.raw (.num q))) false none "" "hashKey" (Ref.newRef "a") "saltyA" =
      computeBucket false (userWith (.num q)) false none "" "hashKey" (Ref.newRef "a") "saltyA" := rfl
example : computeBucket false (userWith (.raw (.str "33333"))) false none "" "hashKey" (Ref.newRef "a") "saltyA"
    = .ok ((35895 : Rat) / 65536, .none) :=
  eq_ok_of_toOption (by decide +kernel)
/-- … and a raw `null` member is a missing attribute, a raw array a wrong type. -/
example : computeBucket false (userWith (.obj [("b", .raw .null)])) false none "" "hashKey"
    (Ref.newRef "/a/b") "saltyA" = .ok (0, .attributeNotFound) :=
  eq_ok_of_toOption (by decide +kernel)
example : computeBucket false (userWith (.raw (.arr [.str "x"]))) false none "" "hashKey"
    (Ref.newRef "a") "saltyA" = .ok (0, .attributeWrongType) :=
  eq_ok_of_toOption (by decide +kernel)

/-- The secondary key changes the bucket only when the option is on and it is no experiment. -/
example : computeBucket true userAttrs false none "" "hashKey" (Ref.newRef "intAttr") "saltyA"
    = .ok ((11969519 : Rat) / 33554432, .none) :=
  eq_ok_of_toOption (by decide +kernel)
example : computeBucket true userAttrs true none "" "hashKey" (Ref.newRef "intAttr") "saltyA"
    = .ok ((210357 : Rat) / 8388608, .none) :=
  eq_ok_of_toOption (by decide +kernel)
/-- ... and an experiment does not even look at an invalid bucket-by reference. -/
example : computeBucket false userAttrs true none "" "hashKey" (Ref.newRef "///") "saltyA"
    = .ok ((210357 : Rat) / 8388608, .none) :=
  eq_ok_of_toOption (by decide +kernel)

/-- Bucket-0 cases. -/
example : computeBucket false userAttrs false none "" "hashKey" (Ref.newRef "floatAttr") "saltyA"
    = .ok (0, .attributeWrongType) :=
  eq_ok_of_toOption (by decide +kernel)
example : computeBucket false userAttrs false none "" "hashKey" (Ref.newRef "boolAttr") "saltyA"
    = .ok (0, .attributeWrongType) :=
  eq_ok_of_toOption (by decide +kernel)
example : computeBucket false userAttrs false none "" "hashKey" (Ref.newRef "nope") "saltyA"
    = .ok (0, .attributeNotFound) :=
  eq_ok_of_toOption (by decide +kernel)
example : computeBucket false userAttrs false none "org" "hashKey" (Ref.newRef "intAttr") "saltyA"
    = .ok (0, .contextLacksKind) :=
  eq_ok_of_toOption (by decide +kernel)

/-- Invalid bucket-by reference on a non-experiment rollout: MALFORMED_FLAG. -/
example : computeBucket false userAttrs false none "" "hashKey" (Ref.newRef "///") "saltyA"
    = .error (.badAttrRef "///") :=
  (invalid_bucketby false userAttrs none "" "hashKey" (Ref.newRef "///") "saltyA"
    (by decide +kernel) (by decide +kernel)).1

/-- An input longer than the initial capacity: same function, no truncation. -/
example : (hashInput none "hashKey" "saltyA" (bytes longKey) none).length = 133 := by decide +kernel
example : computeBucket false userLong false none "" "hashKey" {} "saltyA"
    = .ok ((5411183 : Rat) / 134217728, .none) :=
  eq_ok_of_toOption (by decide +kernel)
/-- The buffer really was reallocated on the way (capacity 100 → 200). -/
example : ((bucketInput false userLong false none "" "hashKey" {} "saltyA").toOption.bind
    Except.toOption).map (fun b => (b.data.length, b.cap)) = some (133, 200) := by decide +kernel

end Examples

/-! ## Strengthened statements (theorem audit) -/

/-- Truncation of an integer is that integer. -/
theorem ratTrunc_intCast' (n : Int) : ratTrunc (n : Rat) = n := by
  unfold ratTrunc
  rw [Rat.num_intCast]
  split
  · exact Rat.floor_intCast n
  · rw [← Rat.intCast_neg, Rat.floor_intCast]; omega

/-- Audit #22: an integer-valued number in the int64 range (`Value.IsInt`) IS its numerator, and
`IntValue()` returns exactly that integer — no truncation, no out-of-range sentinel.  For the Go code:
the text hashed for a numeric bucket-by attribute is the decimal rendering of the number itself. -/
theorem goInt_of_ratIsInt {q : Rat} (h : ratIsInt q = true) :
    q = (q.num : Rat) ∧ goInt q = q.num ∧ int64Min ≤ q.num ∧ q.num ≤ int64Max := by
  unfold ratIsInt at h
  simp only [Bool.and_eq_true, beq_iff_eq, decide_eq_true_eq] at h
  obtain ⟨⟨hd, h1⟩, h2⟩ := h
  have hq : q = (q.num : Rat) := (Rat.den_eq_one_iff q |>.mp hd).symm
  refine ⟨hq, ?_, h1, h2⟩
  unfold goInt
  simp only
  rw [hq, ratTrunc_intCast', Rat.num_intCast]
  rw [if_neg]
  omega

/-- `renderValue` of such a number is the decimal rendering of that integer. -/
theorem renderValue_int {q : Rat} (h : ratIsInt q = true) :
    renderValue (.num q) = some (decimal q.num) := by
  simp [renderValue, h, (goInt_of_ratIsInt h).2.1]

/-- Conversely every integer in the int64 range is rendered, as itself. -/
theorem renderValue_intCast (n : Int) (h1 : int64Min ≤ n) (h2 : n ≤ int64Max) :
    renderValue (.num (n : Rat)) = some (decimal n) := by
  have h : ratIsInt (n : Rat) = true := by
    unfold ratIsInt
    simp [Rat.num_intCast, Rat.den_intCast, h1, h2]
  rw [renderValue_int h, Rat.num_intCast]

-- Non-vacuity: 33333 is rendered as the five digits "33333".
example : renderValue (.num 33333) = some [51, 51, 51, 51, 51] := by
  have := renderValue_intCast 33333 (by decide) (by decide)
  simpa using this.trans (by decide)

end LD.C06

#print axioms LD.C06.input_layout
#print axioms LD.C06.bucketInput_refines
#print axioms LD.C06.computeBucket_eq_spec
#print axioms LD.C06.bucket_of_layout
#print axioms LD.C06.buffer_refines_concat
#print axioms LD.C06.script_data
#print axioms LD.C06.capacity_irrelevant_script
#print axioms LD.C06.capacity_irrelevant
#print axioms LD.C06.longScale_is_pow2
#print axioms LD.C06.div_pow2_exact
#print axioms LD.C06.bucketOfInput_value
#print axioms LD.C06.value
#print axioms LD.C06.value_layout
#print axioms LD.C06.range
#print axioms LD.C06.zero_cases
#print axioms LD.C06.invalid_bucketby
#print axioms LD.C06.error_iff
#print axioms LD.C06.experiment_by_key
#print axioms LD.C06.secondary_only_when
#print axioms LD.C06.goInt_of_ratIsInt
#print axioms LD.C06.renderValue_int

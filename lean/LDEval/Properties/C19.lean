/-
  C19 — Malformed data is always diagnosed in the error log.

  "Whenever an evaluation returns MALFORMED_FLAG and an error logger was configured, at least one
  error line was written during that call and it names the key of the flag in which the problem was
  detected and the nature of the problem (bad variation index, missing/invalid attribute reference,
  empty rollout, circular prerequisite, invalid or circular segment); with no logger, or a nil
  logger option, behaviour is otherwise identical and nothing panics.  Results that are not errors
  on the evaluated flag's own path write nothing unless a nested prerequisite flag was itself
  malformed."

  Statements; the proofs appeal to LDEval/Proofs/{Reach,Refine,StatusLog,LoggerIrrelevant}.lean.
-/
import LDEval.Proofs.StatusLog
import LDEval.Proofs.LoggerIrrelevant
import LDEval.Proofs.AuditLog

namespace LD.C19

/-! ### 1. Every error detail of `evalFlag` is logged -/

/-- Strong form.  If `evalFlag` returns an error detail (or aborts, `ok = false`) and a logger is
configured, then the LAST log line `l` is new (written during this call), its error is of the
MALFORMED_FLAG class, and it names the flag `f` itself — or, only when the evaluation was aborted
by a nested prerequisite, one of the prerequisite flags the store returned for a lookup made during
this call.  The line carries that flag's OWN key `pf.key`; the data provider is free to return, for
the lookup key `k`, a flag whose own key is not `k` (for a provider that does not,
`logged_flag_line_consistent` gives `l.flagKey ∈ ` the new lookups). -/
theorem logged_flag_line {sf n : Nat} {env : Env} {f : Flag} {chain : List String} {st st' : St}
    {d : Detail} {ok : Bool} (hl : env.opts.logger = true)
    (h : evalFlag sf n env f chain st = (.done d ok, st'))
    (herr : d.reason.kind = .error ∨ ok = false) :
    ∃ l, st'.logs.getLast? = some l ∧ st.logs.length < st'.logs.length ∧
      l.err.kind = .malformedFlag ∧
      (l.flagKey = f.key ∨
        (ok = false ∧ ∃ k ∈ st'.flagLookups.drop st.flagLookups.length,
          ∃ pf, env.store.findFlag k = some pf ∧ l.flagKey = pf.key)) :=
  evalFlag_diag sf hl n f chain st d ok st' h herr

/-- The same for a store that files every flag under its own key: the line names `f` or one of the
keys looked up during this call. -/
theorem logged_flag_line_consistent {sf n : Nat} {env : Env} {f : Flag} {chain : List String}
    {st st' : St} {d : Detail} {ok : Bool} (hst : StoreConsistent env.store)
    (hl : env.opts.logger = true)
    (h : evalFlag sf n env f chain st = (.done d ok, st'))
    (herr : d.reason.kind = .error ∨ ok = false) :
    ∃ l, st'.logs.getLast? = some l ∧ st.logs.length < st'.logs.length ∧
      l.err.kind = .malformedFlag ∧
      (l.flagKey = f.key ∨
        (ok = false ∧ l.flagKey ∈ st'.flagLookups.drop st.flagLookups.length)) := by
  obtain ⟨l, h1, h2, h3, h4⟩ := logged_flag_line hl h herr
  refine ⟨l, h1, h2, h3, ?_⟩
  rcases h4 with h4 | ⟨hok, h4⟩
  · exact .inl h4
  · exact .inr ⟨hok, NamesLookedUp.of_consistent hst h4⟩

/-- At least one line was written during the call. -/
theorem logged_flag {sf n : Nat} {env : Env} {f : Flag} {chain : List String} {st st' : St}
    {d : Detail} {ok : Bool} (hl : env.opts.logger = true)
    (h : evalFlag sf n env f chain st = (.done d ok, st')) (herr : d.reason.kind = .error) :
    st.logs.length < st'.logs.length := by
  obtain ⟨_, _, h2, _⟩ := logged_flag_line hl h (.inl herr)
  exact h2

/-- The same as a statement about the suffix of new lines. -/
theorem logged_flag_new_line {sf n : Nat} {env : Env} {f : Flag} {chain : List String}
    {st st' : St} {d : Detail} {ok : Bool} (hl : env.opts.logger = true)
    (h : evalFlag sf n env f chain st = (.done d ok, st')) (herr : d.reason.kind = .error) :
    ∃ l ∈ st'.logs.drop st.logs.length, l.err.kind = .malformedFlag := by
  obtain ⟨l, h1, h2, h3, _⟩ := logged_flag_line hl h (.inl herr)
  refine ⟨l, List.mem_of_getLast? ?_, h3⟩
  rw [List.getLast?_drop, if_neg (by omega)]
  exact h1

/-- An error that is not an abort (`ok = true`: bad variation index, selection error) is logged
under the evaluated flag's own key. -/
theorem logged_flag_own_key {sf n : Nat} {env : Env} {f : Flag} {chain : List String}
    {st st' : St} {d : Detail} (hl : env.opts.logger = true)
    (h : evalFlag sf n env f chain st = (.done d true, st')) (herr : d.reason.kind = .error) :
    ∃ l, st'.logs.getLast? = some l ∧ l.flagKey = f.key ∧ l.err.kind = .malformedFlag := by
  obtain ⟨l, h1, _, h3, h4⟩ := logged_flag_line hl h (.inl herr)
  rcases h4 with h4 | ⟨h4, _⟩
  · exact ⟨l, h1, h4, h3⟩
  · cases h4

/-! The four logging sites, explicitly: the new line is `⟨f.key, e⟩` with `e` the detected error. -/

/-- Bad variation index. -/
theorem site_bad_variation (env : Env) (f : Flag) (i : Int) (r : Reason) (st : St)
    (h : i < 0 ∨ i ≥ f.variations.length) :
    getVariation env f i r st =
      (Detail.forError .malformedFlag, logErr env f.key (.badVariation i) st) :=
  getVariation_bad_index env f i r st h

/-- Selection error (empty rollout, invalid bucket-by reference). -/
theorem site_selection (env : Env) (f : Flag) (vr : VariationOrRollout) (r : Reason) (st : St)
    (e : EvalErr) (h : variationOrRollout env vr f.key f.salt = .error e) :
    getValueForVR env f vr r st = (Detail.forError e.kind, logErr env f.key e st) :=
  getValueForVR_error env f vr r st e h

/-- Rule-matching error (missing/invalid attribute reference, invalid or circular segment). -/
theorem site_rule (seg : SegRec) (env : Env) (f : Flag) (r : FlagRule) (rs : List FlagRule)
    (i : Nat) (st st1 : St) (e : EvalErr) (h : clausesMatch seg env [] r.clauses st = (.err e, st1)) :
    rulesLoop seg env f (r :: rs) i st =
      (.done (Detail.forError e.kind) false, logErr env f.key e st1) := by
  simp [rulesLoop, h]

/-- Circular prerequisite. -/
theorem site_prereq_cycle (rec : FlagRec) (env : Env) (f : Flag) (chain : List String) (p : Prereq)
    (ps : List Prereq) (st : St) (pf : Flag) (hf : env.store.findFlag p.key = some pf)
    (hc : chain.contains pf.key = true) :
    prereqLoop rec env f chain (p :: ps) st =
      (.malformed, logErr env f.key (.circularPrereq pf.key)
        { st with flagLookups := st.flagLookups ++ [p.key] }) := by
  unfold prereqLoop
  simp only [hf]
  rw [if_pos hc]

/-- With a logger, `logErr` appends exactly the line `⟨key, e⟩`. -/
theorem logErr_appends {env : Env} (hl : env.opts.logger = true) (key : String) (e : EvalErr)
    (st : St) : (logErr env key e st).logs = st.logs ++ [⟨key, e⟩] :=
  logErr_logs hl key e st

/-! ### 2. `evaluate`: MALFORMED_FLAG ⇒ the log is not empty -/

/-- Strong form: the last line of the log has a MALFORMED_FLAG-class error and names the evaluated
flag or (by its OWN key) one of the flags the store returned for a lookup made during the call. -/
theorem logged_line (env : Env) (f : Flag) (hl : env.opts.logger = true)
    (h : (evaluate env f).result.detail.reason.errorKind = some .malformedFlag) :
    ∃ l, (evaluate env f).logs.getLast? = some l ∧ l.err.kind = .malformedFlag ∧
      (l.flagKey = f.key ∨ ∃ k ∈ (evaluate env f).flagLookups,
        ∃ pf, env.store.findFlag k = some pf ∧ l.flagKey = pf.key) := by
  by_cases hctx : env.ctx = .invalid
  · simp [evaluate, hctx, Detail.forError, Reason.error] at h
  · rw [evaluate_eq_finish env f hctx] at h ⊢
    have hd := evalFlag_diag (segFuel env.store) hl (flagFuel env.store) f [] {}
    have hk : ∀ d ok st', evalFlag (segFuel env.store) (flagFuel env.store) env f [] {} =
        (.done d ok, st') → (d.reason.kind = .error ↔ d.reason.errorKind.isSome) :=
      fun _ _ _ h => evalFlag_reasonInv reasonInv_errorKind h
    generalize evalFlag (segFuel env.store) (flagFuel env.store) env f [] {} = r at h hd hk
    obtain ⟨out, st⟩ := r
    rw [finish_logs, finish_flagLookups]
    cases out with
    | oof => rw [finish_errorKind_oof] at h; cases h
    | done d ok =>
      rw [finish_errorKind_done] at h
      have hkind : d.reason.kind = .error := (hk d ok st rfl).2 (by rw [h]; rfl)
      obtain ⟨l, h1, _, h3, h4⟩ := hd d ok st rfl (.inl hkind)
      refine ⟨l, h1, h3, ?_⟩
      rcases h4 with h4 | ⟨_, h4⟩
      · exact .inl h4
      · exact .inr (h4.mono fun k hk => List.mem_of_mem_drop hk)

/-- The same for a store that files every flag under its own key: the line names the evaluated flag
or one of the keys looked up during the call. -/
theorem logged_line_consistent (env : Env) (f : Flag) (hst : StoreConsistent env.store)
    (hl : env.opts.logger = true)
    (h : (evaluate env f).result.detail.reason.errorKind = some .malformedFlag) :
    ∃ l, (evaluate env f).logs.getLast? = some l ∧ l.err.kind = .malformedFlag ∧
      (l.flagKey = f.key ∨ l.flagKey ∈ (evaluate env f).flagLookups) := by
  obtain ⟨l, h1, h2, h3⟩ := logged_line env f hl h
  refine ⟨l, h1, h2, ?_⟩
  rcases h3 with h3 | h3
  · exact .inl h3
  · exact .inr (NamesLookedUp.of_consistent hst h3)

theorem logged (env : Env) (f : Flag) (hl : env.opts.logger = true)
    (h : (evaluate env f).result.detail.reason.errorKind = some .malformedFlag) :
    (evaluate env f).logs ≠ [] := by
  obtain ⟨l, h1, _⟩ := logged_line env f hl h
  intro hnil
  rw [hnil] at h1
  cases h1

/-! ### 3. No logger ⇒ nothing is written -/

theorem silent_no_logger (env : Env) (f : Flag) (h : env.opts.logger = false) :
    (evaluate env f).logs = [] :=
  evaluate_no_logger h f

/-! ### 4. The logger is otherwise irrelevant -/

/-- Switching the logger option changes nothing but the log: result (value, index, full reason
including the big-segments status, experiment bit), outcome, prerequisite events, store lookups,
big-segment queries and membership checks are identical. -/
theorem logger_irrelevant (env : Env) (f : Flag) (b : Bool) :
    let env' : Env := { env with opts := { env.opts with logger := b } }
    (evaluate env' f).result = (evaluate env f).result ∧
    (evaluate env' f).events = (evaluate env f).events ∧
    (evaluate env' f).flagLookups = (evaluate env f).flagLookups ∧
    (evaluate env' f).segLookups = (evaluate env f).segLookups ∧
    (evaluate env' f).bsQueries = (evaluate env f).bsQueries ∧
    (evaluate env' f).memChecks = (evaluate env f).memChecks ∧
    (evaluate env' f).outcome = (evaluate env f).outcome := by
  intro env'
  have h : EnvAgree env' env := ⟨rfl, rfl, rfl, rfl, rfl⟩
  obtain ⟨h1, h2, h3, h4, h5, h6, h7⟩ := evaluate_sim h rfl f
  exact ⟨h2, h3, h4, h5, h6, h7, h1⟩

/-- The same at the level of `evalFlag`, from any pair of states that differ only in the log. -/
theorem logger_irrelevant_flag (sf n : Nat) (env : Env) (b : Bool) (f : Flag) (chain : List String)
    (st st' : St) (hst : st'.noLogs = st.noLogs) :
    let env' : Env := { env with opts := { env.opts with logger := b } }
    (evalFlag sf n env' f chain st').1 = (evalFlag sf n env f chain st).1 ∧
    (evalFlag sf n env' f chain st').2.noLogs = (evalFlag sf n env f chain st).2.noLogs := by
  intro env'
  have h : EnvAgree env' env := ⟨rfl, rfl, rfl, rfl, rfl⟩
  have hs : Sim st' st := by
    refine ⟨st'.logs, ?_⟩
    have e1 : st'.status = st.status := congrArg (a₁ := st'.noLogs) (a₂ := st.noLogs) St.status hst
    have e2 : st'.cache = st.cache := congrArg (a₁ := st'.noLogs) (a₂ := st.noLogs) St.cache hst
    have e3 : st'.events = st.events := congrArg (a₁ := st'.noLogs) (a₂ := st.noLogs) St.events hst
    have e4 : st'.flagLookups = st.flagLookups :=
      congrArg (a₁ := st'.noLogs) (a₂ := st.noLogs) St.flagLookups hst
    have e5 : st'.segLookups = st.segLookups :=
      congrArg (a₁ := st'.noLogs) (a₂ := st.noLogs) St.segLookups hst
    have e6 : st'.bsQueries = st.bsQueries :=
      congrArg (a₁ := st'.noLogs) (a₂ := st.noLogs) St.bsQueries hst
    have e7 : st'.memChecks = st.memChecks :=
      congrArg (a₁ := st'.noLogs) (a₂ := st.noLogs) St.memChecks hst
    cases st'; cases st
    simp only at e1 e2 e3 e4 e5 e6 e7
    subst e1 e2 e3 e4 e5 e6 e7
    rfl
  obtain ⟨h1, h2⟩ := evalFlag_sim h rfl sf n f chain st' st hs
  exact ⟨h1, h2.noLogs⟩

/-! ### 5. A non-error result on the flag's own path writes nothing -/

/-- General form: a non-error result leaves the log as the prerequisite evaluation left it — so
anything written was written inside a nested prerequisite flag. -/
theorem silent_own_path {rec : FlagRec} {sf : Nat} {env : Env} {f : Flag} {chain : List String}
    {st st' : St} {d : Detail} {ok : Bool}
    (h : evalBody rec (segContains sf env) env f chain st = (.done d ok, st'))
    (hne : d.reason.kind ≠ .error) :
    st'.logs = if f.on then (checkPrereqs rec env f chain st).2.logs else st.logs :=
  evalBody_silent h hne

/-- A flag without prerequisites: a non-error result writes nothing (segments never log; only the
four flag-level sites do, and each of them returns an error detail). -/
theorem silent_when_clean {sf n : Nat} {env : Env} {f : Flag} {chain : List String} {st st' : St}
    {d : Detail} {ok : Bool} (hp : f.prerequisites = [])
    (h : evalFlag sf (n + 1) env f chain st = (.done d ok, st')) (hne : d.reason.kind ≠ .error) :
    st'.logs = st.logs := by
  have := evalBody_silent (rec := evalFlag sf n env) (sf := sf) h hne
  rw [this]
  have hc : checkPrereqs (evalFlag sf n env) env f chain st = (.ok, st) := by
    simp [checkPrereqs, hp]
  rw [hc]
  split <;> rfl

/-- Segment evaluation never writes a log line. -/
theorem segments_never_log (n : Nat) (env : Env) (s : Segment) (chain : List String) (st : St) :
    (segContains n env s chain st).2.logs = st.logs :=
  segContains_logs n env s chain st

/-! ### 6. Non-vacuity: concrete evaluations -/

namespace Ex

def user : Ctx := .single { kind := "user", key := "u1" }

/-- `g` is off with an out-of-range off variation; `c1`/`c2` form a prerequisite cycle; segment
`A` refers to itself. -/
def store : Store :=
  Store.ofLists
    [{ key := "g", on := false, offVariation := some 9, variations := [.bool true] },
     { key := "c1", on := true, prerequisites := [⟨"c2", 0⟩], variations := [.bool true],
       fallthrough := { variation := some 0 } },
     { key := "c2", on := true, prerequisites := [⟨"c1", 0⟩], variations := [.bool true],
       fallthrough := { variation := some 0 } }]
    [{ key := "A",
       rules := [{ clauses := [{ op := "segmentMatch", values := [.str "A"] }] }] }]

def env (logger : Bool) : Env :=
  { opts := { logger := logger }, store := store, bs := none, ctx := user, rx := fun _ _ => none }

def base : Flag :=
  { key := "f", on := true, variations := [.bool false, .bool true],
    fallthrough := { variation := some 0 } }

/-- Bad variation index. -/
example :
    let o := evaluate (env true) { base with fallthrough := { variation := some 5 } }
    o.result.detail.reason.errorKind = some .malformedFlag ∧
    o.logs = [⟨"f", .badVariation 5⟩] := by decide

/-- Empty rollout. -/
example :
    let o := evaluate (env true) { base with fallthrough := {} }
    o.result.detail.reason.errorKind = some .malformedFlag ∧
    o.logs = [⟨"f", .emptyRollout⟩] := by decide

/-- Missing attribute reference in a rule clause. -/
example :
    let o := evaluate (env true)
      { base with rules := [{ vr := { variation := some 1 }, clauses := [{ op := "in" }] }] }
    o.result.detail.reason.errorKind = some .malformedFlag ∧
    o.logs = [⟨"f", .emptyAttr⟩] := by decide

/-- Circular segment: the line carries the segment key and the inner cause. -/
example :
    let o := evaluate (env true)
      { base with rules := [{ vr := { variation := some 1 },
                              clauses := [{ op := "segmentMatch", values := [.str "A"] }] }] }
    o.result.detail.reason.errorKind = some .malformedFlag ∧
    o.logs = [⟨"f", .malformedSegment "A" (.circularSegment "A")⟩] := by decide

/-- Circular prerequisite detected two levels down: the line names the flag whose frame detected
it (`c2`, which was looked up during the call), not the flag being evaluated — this is why
`logged_flag_line` has its second disjunct. -/
example :
    let o := evaluate (env true) { base with prerequisites := [⟨"c1", 0⟩] }
    o.result.detail.reason.errorKind = some .malformedFlag ∧
    o.logs = [⟨"c2", .circularPrereq "c1"⟩] ∧ o.flagLookups = ["c1", "c2", "c1"] := by decide

/-- A malformed nested prerequisite whose own evaluation is not aborted: the top-level result is a
non-error (PREREQUISITE_FAILED) and yet a line was written — the "unless" clause of the property. -/
example :
    let o := evaluate (env true) { base with prerequisites := [⟨"g", 0⟩], offVariation := some 1 }
    o.result.detail.reason.kind = .prereqFailed ∧ o.result.detail.index = some 1 ∧
    o.logs = [⟨"g", .badVariation 9⟩] := by decide

/-- A clean flag writes nothing although a logger is configured. -/
example :
    let o := evaluate (env true) base
    o.result.detail.reason.kind = .fallthrough ∧ o.logs = [] := by decide

/-- Without a logger: same result, empty log. -/
example :
    let o := evaluate (env false) { base with fallthrough := { variation := some 5 } }
    o.result.detail.reason.errorKind = some .malformedFlag ∧ o.logs = [] := by decide

end Ex

/-! ## Strengthened statements (theorem audit) -/

/-! ### 7. The exact shape of the log (audit #65, #66, #68)

`ownError env f` is the error — if any — that the evaluation of `f` detects in `f` ITSELF (not in a
nested prerequisite flag), computed by the stateless specification (`Spec.ownErr`, defined in
`Proofs/AuditLog.lean`): bad off / target / rule / fallthrough variation index, rollout without
variations, invalid attribute reference in a clause or a bucket-by, malformed or circular segment,
prerequisite cycle.  `Cause env f e` (ibid.) is the purely static statement "flag `f` has a defect
of the kind `e` names" — which field holds what.  An `EvalErr` IS the class and the operands of a
log line: `EvalErr.logClass` and `Wire.errOperands` are functions of it. -/

/-- The error the evaluation of `f` detects in `f` itself, with the fuel `evaluate` hands out. -/
def ownError (env : Env) (f : Flag) : Option EvalErr :=
  Spec.ownErr (segFuel env.store) (flagFuel env.store) env f []

/-- Nested prerequisite results / segment membership as `evaluate` sees them (stateless). -/
abbrev recS (env : Env) : Spec.FlagRec :=
  Spec.evalFlag (segFuel env.store) (flagFuel env.store - 1) env
abbrev segS (env : Env) : Spec.SegRec := Spec.segContains (segFuel env.store) env

theorem ownError_eq (env : Env) (f : Flag) :
    ownError env f = Spec.ownErrBody (recS env) (segS env) env f [] := rfl

/-- An own error is a real defect of the evaluated flag, of the kind the error names. -/
theorem ownError_cause {env : Env} {f : Flag} {e : EvalErr} (h : ownError env f = some e) :
    Cause env f e := Spec.ownErr_cause h

/-- **Shape of the log.**  The log of one `Evaluate` call is: lines written by nested prerequisite
evaluations — never under the evaluated flag's key, each naming (by its own key) a flag held by the
store and a real defect of THAT flag of the kind the line's error names — followed by exactly the
line `⟨f.key, e⟩` of the evaluated flag's own error `e`, if it has one and a logger is configured. -/
theorem log_shape (env : Env) (f : Flag) (hctx : env.ctx ≠ .invalid) :
    ∃ nested, (evaluate env f).logs = nested ++ ownLines env f.key (ownError env f) ∧
      ∀ l ∈ nested, l.flagKey ≠ f.key ∧ LineCause env l := by
  rw [evaluate_eq_finish env f hctx, finish_logs]
  obtain ⟨nested, hl, hn⟩ := evalFlag_logs (segFuel env.store) env (flagFuel env.store) f [] {}
    (Consistent.empty env)
  refine ⟨nested, ?_, ?_⟩
  · rw [hl]; simp [ownError]
  · intro l hl
    obtain ⟨h1, h2⟩ := hn l hl
    exact ⟨fun h => h1 (by simp [h]), h2⟩

/-- **Exactly one line for the flag in which the problem was detected.**  The lines of the log that
carry the evaluated flag's key are exactly: the one line `⟨f.key, e⟩` if `f` has the own error `e`
and a logger is configured; nothing otherwise. -/
theorem own_lines_exact (env : Env) (f : Flag) (hctx : env.ctx ≠ .invalid) :
    (evaluate env f).logs.filter (fun l => l.flagKey == f.key) =
      ownLines env f.key (ownError env f) := by
  obtain ⟨nested, hl, hn⟩ := log_shape env f hctx
  rw [hl, List.filter_append]
  have h1 : nested.filter (fun l => l.flagKey == f.key) = [] :=
    List.filter_eq_nil_iff.mpr (fun l hl => by simp [(hn l hl).1])
  have h2 : (ownLines env f.key (ownError env f)).filter (fun l => l.flagKey == f.key) =
      ownLines env f.key (ownError env f) :=
    List.filter_eq_self.mpr (fun l hl => by obtain ⟨_, e, _, rfl⟩ := mem_ownLines hl; simp)
  rw [h1, h2, List.nil_append]

/-- **No spurious lines.**  Every line of the log was written with a logger configured and either
is the evaluated flag's own line — then its error is `f`'s own error and names a real defect of `f`
— or names another flag held by the store and a real defect of that flag.  (A model that logged
`emptyRollout` for every problem would violate this: `Cause _ g .emptyRollout` requires a rollout
of `g` without variations.) -/
theorem log_line_cause (env : Env) (f : Flag) :
    ∀ l ∈ (evaluate env f).logs, env.opts.logger = true ∧
      ((l.flagKey = f.key ∧ ownError env f = some l.err ∧ Cause env f l.err) ∨
        (l.flagKey ≠ f.key ∧ LineCause env l)) := by
  intro l hl
  have hlog : env.opts.logger = true := by
    cases h : env.opts.logger with
    | true => rfl
    | false => rw [silent_no_logger env f h] at hl; cases hl
  refine ⟨hlog, ?_⟩
  by_cases hctx : env.ctx = .invalid
  · simp [evaluate, hctx] at hl
  · obtain ⟨nested, hs, hn⟩ := log_shape env f hctx
    rw [hs] at hl
    rcases List.mem_append.mp hl with hl | hl
    · exact .inr (hn l hl)
    · obtain ⟨_, e, he, rfl⟩ := mem_ownLines hl
      exact .inl ⟨rfl, he, ownError_cause he⟩

/-- An own error makes the result MALFORMED_FLAG. -/
theorem ownError_result {env : Env} {f : Flag} {e : EvalErr} (hctx : env.ctx ≠ .invalid)
    (h : ownError env f = some e) :
    (evaluate env f).result.detail.reason.errorKind = some .malformedFlag ∧
      (evaluate env f).result.detail.reason.kind = .error ∧
      (evaluate env f).result.detail.index = none := by
  obtain ⟨ok, hs⟩ := Spec.evalFlag_of_ownErr h
  obtain ⟨_, _, h3, h4, _, _, _, h8, _⟩ := evaluate_detail_spec env f hctx _ _ hs
  exact ⟨h8, h4, h3⟩

/-- What "the problem `e` of flag `f` is diagnosed" means for one `Evaluate` call:
the result is the MALFORMED_FLAG error; among the log lines those under `f`'s key are exactly one
line `⟨f.key, e⟩` when a logger is configured and none when not; that line is the last of the log;
with no logger the log is empty. -/
structure Diagnosed (env : Env) (f : Flag) (e : EvalErr) : Prop where
  result : (evaluate env f).result.detail.reason.errorKind = some .malformedFlag
  noValue : (evaluate env f).result.detail.index = none
  lines : (evaluate env f).logs.filter (fun l => l.flagKey == f.key) =
    if env.opts.logger then [⟨f.key, e⟩] else []
  last : env.opts.logger = true → (evaluate env f).logs.getLast? = some ⟨f.key, e⟩
  silent : env.opts.logger = false → (evaluate env f).logs = []

/-- **Every own error is diagnosed** — the general form of the per-cause theorems below. -/
theorem diagnosed_of_ownError {env : Env} {f : Flag} {e : EvalErr} (hctx : env.ctx ≠ .invalid)
    (h : ownError env f = some e) : Diagnosed env f e := by
  obtain ⟨h1, _, h3⟩ := ownError_result hctx h
  refine ⟨h1, h3, ?_, ?_, silent_no_logger env f⟩
  · rw [own_lines_exact env f hctx, h]; rfl
  · intro hl
    obtain ⟨nested, hs, _⟩ := log_shape env f hctx
    rw [hs, h]
    have : ownLines env f.key (some e) = [⟨f.key, e⟩] := by simp [ownLines, hl]
    rw [this]
    exact List.getLast?_concat

/-- Conversely a line under the evaluated flag's key appears only together with the
MALFORMED_FLAG result (audit #66, for the evaluated flag). -/
theorem own_line_only_if_error (env : Env) (f : Flag) (l : LogLine)
    (hl : l ∈ (evaluate env f).logs) (hk : l.flagKey = f.key) :
    (evaluate env f).result.detail.reason.errorKind = some .malformedFlag ∧
      (evaluate env f).logs.getLast? = some l := by
  by_cases hctx : env.ctx = .invalid
  · simp [evaluate, hctx] at hl
  · obtain ⟨hlog, h⟩ := log_line_cause env f l hl
    rcases h with ⟨_, he, _⟩ | ⟨hne, _⟩
    · have hd := diagnosed_of_ownError hctx he
      refine ⟨hd.result, ?_⟩
      rw [hd.last hlog]
      cases l; simp_all
    · exact (hne hk).elim

/-- **MALFORMED_FLAG, exactly (audit #68).**  When the result is MALFORMED_FLAG and a logger is
configured, either the evaluated flag has an own error `e` — then the last line is `⟨f.key, e⟩`, it
names a real defect of `f`, and no other line carries `f`'s key — or it has none, the evaluation
was aborted by a nested prerequisite flag, and the last line names another stored flag and a real
defect of that flag. -/
theorem logged_line_exact (env : Env) (f : Flag) (hl : env.opts.logger = true)
    (h : (evaluate env f).result.detail.reason.errorKind = some .malformedFlag) :
    (∃ e, ownError env f = some e ∧ (evaluate env f).logs.getLast? = some ⟨f.key, e⟩ ∧
        Cause env f e ∧
        (evaluate env f).logs.filter (fun l => l.flagKey == f.key) = [⟨f.key, e⟩]) ∨
      (ownError env f = none ∧ ∃ l, (evaluate env f).logs.getLast? = some l ∧
        l.flagKey ≠ f.key ∧ LineCause env l) := by
  have hctx : env.ctx ≠ .invalid := by
    intro hc
    simp [evaluate, hc, Detail.forError, Reason.error] at h
  cases ho : ownError env f with
  | some e =>
    left
    have hd := diagnosed_of_ownError hctx ho
    exact ⟨e, rfl, hd.last hl, ownError_cause ho, by rw [hd.lines, if_pos hl]⟩
  | none =>
    right
    refine ⟨rfl, ?_⟩
    obtain ⟨l, h1, _⟩ := logged_line env f hl h
    obtain ⟨nested, hs, hn⟩ := log_shape env f hctx
    rw [ho, ownLines_none, List.append_nil] at hs
    refine ⟨l, h1, hn l ?_⟩
    rw [← hs]
    exact List.mem_of_getLast? h1

/-! ### 8. Cause by cause: the evaluation yields MALFORMED_FLAG and exactly one line that names the
cause

Hypotheses are the data defect plus "the evaluation gets there", the latter stated with the
stateless specification (`recS` / `segS`: what nested prerequisite evaluations and segment tests
return).  Conclusion: `Diagnosed env f e` with `e` the error that spells out the cause. -/

section causes
variable {env : Env} {f : Flag}

/-- Off variation out of range, flag off. -/
theorem diag_off_variation (hctx : env.ctx ≠ .invalid) (hon : f.on = false) {i : Int}
    (ho : f.offVariation = some i) (hr : OutOfRange f i) :
    Diagnosed env f (.badVariation i) := by
  apply diagnosed_of_ownError hctx
  rw [ownError_eq]
  unfold Spec.ownErrBody Spec.offErr Spec.varErr
  simp only [hon, ho, Bool.not_false, if_true]
  exact if_pos hr

/-- Off variation out of range, served because a prerequisite failed. -/
theorem diag_off_variation_prereq_failed (hctx : env.ctx ≠ .invalid) (hon : f.on = true)
    {k : String} (hp : Spec.checkPrereqs (recS env) env f [] = .failed k) {i : Int}
    (ho : f.offVariation = some i) (hr : OutOfRange f i) :
    Diagnosed env f (.badVariation i) := by
  apply diagnosed_of_ownError hctx
  rw [ownError_eq]
  unfold Spec.ownErrBody Spec.offErr Spec.varErr
  simp only [hon, hp, ho, Bool.not_true, Bool.false_eq_true, if_false]
  exact if_pos hr

/-- Variation of a matching target out of range. -/
theorem diag_target_variation (hctx : env.ctx ≠ .invalid) (hon : f.on = true)
    (hp : Spec.checkPrereqs (recS env) env f [] = .ok) {v : Int}
    (ht : anyTargetMatch env.ctx f = some v) (hr : OutOfRange f v) :
    Diagnosed env f (.badVariation v) := by
  apply diagnosed_of_ownError hctx
  rw [ownError_eq]
  unfold Spec.ownErrBody Spec.varErr
  simp only [hon, hp, ht, Bool.not_true, Bool.false_eq_true, if_false]
  exact if_pos hr

/-- The evaluation reaches the rule loop (flag on, prerequisites satisfied, no target matches). -/
structure ReachesRules (env : Env) (f : Flag) : Prop where
  on : f.on = true
  prereqs : Spec.checkPrereqs (recS env) env f [] = .ok
  noTarget : anyTargetMatch env.ctx f = none

theorem ownError_of_reachesRules (h : ReachesRules env f) :
    ownError env f = Spec.rulesErr (segS env) env f f.rules := by
  rw [ownError_eq]
  unfold Spec.ownErrBody
  simp only [h.on, h.prereqs, h.noTarget, Bool.not_true, Bool.false_eq_true, if_false]

theorem rulesErr_skip (seg : Spec.SegRec) (pre rest : List FlagRule)
    (hpre : ∀ r ∈ pre, Spec.clausesMatch seg env [] r.clauses = .ok false) :
    Spec.rulesErr seg env f (pre ++ rest) = Spec.rulesErr seg env f rest := by
  induction pre with
  | nil => rfl
  | cons r pre ih =>
    simp only [List.cons_append, Spec.rulesErr, hpre r (by simp)]
    exact ih (fun r' hr' => hpre r' (by simp [hr']))

/-- The three selection defects, as facts about `Spec.vrErr`. -/
theorem vrErr_variation {vr : VariationOrRollout} {i : Int} (hv : vr.variation = some i)
    (hr : OutOfRange f i) : Spec.vrErr env f vr = some (.badVariation i) := by
  unfold Spec.vrErr variationOrRollout Spec.varErr
  simp only [hv]
  exact if_pos hr

theorem vrErr_emptyRollout {vr : VariationOrRollout} (hv : vr.variation = none)
    (he : vr.rollout.variations = []) : Spec.vrErr env f vr = some .emptyRollout := by
  unfold Spec.vrErr variationOrRollout
  simp [hv, he]

theorem vrErr_bucketBy {vr : VariationOrRollout} (hv : vr.variation = none)
    (hne : vr.rollout.variations ≠ []) (hexp : vr.rollout.isExperiment = false)
    (hd : vr.rollout.bucketBy.isDefined = true) (herr : vr.rollout.bucketBy.errOf.isSome = true) :
    Spec.vrErr env f vr = some (.badAttrRef vr.rollout.bucketBy.raw) := by
  have hb : computeBucket env.opts.secondaryKey env.ctx vr.rollout.isExperiment vr.rollout.seed
      vr.rollout.contextKind f.key vr.rollout.bucketBy f.salt =
        .error (.badAttrRef vr.rollout.bucketBy.raw) := by
    unfold computeBucket bucketInput
    simp [hexp, hd, herr]
  obtain ⟨last, hlast⟩ : ∃ last, vr.rollout.variations.getLast? = some last := by
    cases h : vr.rollout.variations.getLast? with
    | none => exact (hne (List.getLast?_eq_none_iff.mp h)).elim
    | some l => exact ⟨l, rfl⟩
  unfold Spec.vrErr variationOrRollout
  simp only [hv, hlast, hb]

/-- **Rule `r` (after rules that do not match) matches and its selection is defective**:
variation index out of range (`vrErr_variation`), rollout without variations
(`vrErr_emptyRollout`), invalid bucket-by reference (`vrErr_bucketBy`). -/
theorem diag_rule (hctx : env.ctx ≠ .invalid) (hreach : ReachesRules env f)
    {pre post : List FlagRule} {r : FlagRule} (hrules : f.rules = pre ++ r :: post)
    (hpre : ∀ r' ∈ pre, Spec.clausesMatch (segS env) env [] r'.clauses = .ok false)
    (hm : Spec.clausesMatch (segS env) env [] r.clauses = .ok true) {e : EvalErr}
    (hv : Spec.vrErr env f r.vr = some e) : Diagnosed env f e := by
  apply diagnosed_of_ownError hctx
  rw [ownError_of_reachesRules hreach, hrules, rulesErr_skip _ _ _ hpre]
  simp only [Spec.rulesErr, hm]
  exact hv

/-- **No rule matches and the fallthrough's selection is defective.** -/
theorem diag_fallthrough (hctx : env.ctx ≠ .invalid) (hreach : ReachesRules env f)
    (hrules : ∀ r ∈ f.rules, Spec.clausesMatch (segS env) env [] r.clauses = .ok false)
    {e : EvalErr} (hv : Spec.vrErr env f f.fallthrough = some e) : Diagnosed env f e := by
  apply diagnosed_of_ownError hctx
  rw [ownError_of_reachesRules hreach]
  have := rulesErr_skip (env := env) (f := f) (segS env) f.rules [] hrules
  rw [List.append_nil] at this
  rw [this]
  exact hv

theorem clausesMatch_skip (seg : Spec.SegRec) (chain : List String) (pre rest : List Clause)
    (hpre : ∀ c ∈ pre, Spec.clauseMatch seg env chain c = .ok true) :
    Spec.clausesMatch seg env chain (pre ++ rest) = Spec.clausesMatch seg env chain rest := by
  induction pre with
  | nil => rfl
  | cons c pre ih =>
    simp only [List.cons_append, Spec.clausesMatch, hpre c (by simp)]
    exact ih (fun c' hc' => hpre c' (by simp [hc']))

/-- **A clause of rule `r` (after rules that do not match and clauses that match) fails with error
`e`** — `e` is then `emptyAttr` / `badAttrRef` for an attribute reference (`clauseMatch_attr_*`) or
the malformed / circular segment error for a segment reference. -/
theorem diag_rule_clause (hctx : env.ctx ≠ .invalid) (hreach : ReachesRules env f)
    {pre post : List FlagRule} {r : FlagRule} (hrules : f.rules = pre ++ r :: post)
    (hpre : ∀ r' ∈ pre, Spec.clausesMatch (segS env) env [] r'.clauses = .ok false)
    {cpre cpost : List Clause} {c : Clause} (hcl : r.clauses = cpre ++ c :: cpost)
    (hcpre : ∀ c' ∈ cpre, Spec.clauseMatch (segS env) env [] c' = .ok true) {e : EvalErr}
    (hc : Spec.clauseMatch (segS env) env [] c = .err e) : Diagnosed env f e := by
  apply diagnosed_of_ownError hctx
  rw [ownError_of_reachesRules hreach, hrules, rulesErr_skip _ _ _ hpre]
  have : Spec.clausesMatch (segS env) env [] r.clauses = .err e := by
    rw [hcl, clausesMatch_skip _ _ _ _ hcpre]
    simp only [Spec.clausesMatch, hc]
  simp only [Spec.rulesErr, this]

/-- A clause without attribute reference fails with `emptyAttr` … -/
theorem clauseMatch_attr_missing (seg : Spec.SegRec) (chain : List String) {c : Clause}
    (hop : (c.op == "segmentMatch") = false) (hd : c.attr.isDefined = false) :
    Spec.clauseMatch seg env chain c = .err .emptyAttr := by
  unfold Spec.clauseMatch clauseMatchNoSeg
  simp [hop, hd, Res.ofExcept]

/-- … and one with an invalid attribute reference with `badAttrRef` of the reference's text. -/
theorem clauseMatch_attr_invalid (seg : Spec.SegRec) (chain : List String) {c : Clause}
    (hop : (c.op == "segmentMatch") = false) (hd : c.attr.isDefined = true)
    (herr : c.attr.errOf.isSome = true) :
    Spec.clauseMatch seg env chain c = .err (.badAttrRef c.attr.raw) := by
  unfold Spec.clauseMatch clauseMatchNoSeg
  simp [hop, hd, herr, Res.ofExcept]

/-- A segment-match clause whose first referenced segment is found and fails with `e'` fails with
`e'` (which `Spec.segContains_cause` shows to be that segment's cycle or malformed-segment
error). -/
theorem clauseMatch_segment_err {c : Clause} (hop : (c.op == "segmentMatch") = true) {k : String}
    {rest : List J} (hv : c.values = .str k :: rest) {s : Segment}
    (hs : env.store.findSegment k = some s) {e : EvalErr} (he : segS env s [] = .err e) :
    Spec.clauseMatch (segS env) env [] c = .err e := by
  unfold Spec.clauseMatch
  simp only [hop, if_true, hv, Spec.segMatchValues, hs, he]

/-- **Prerequisite cycle** closed by one of `f`'s own prerequisites. -/
theorem diag_prereq_cycle (hctx : env.ctx ≠ .invalid) (hon : f.on = true) {e : EvalErr}
    (hc : Spec.checkCycle (recS env) env f [] = some e) : Diagnosed env f e := by
  apply diagnosed_of_ownError hctx
  rw [ownError_eq]
  unfold Spec.ownErrBody
  simp only [hon, Spec.checkCycle_malformed hc, Bool.not_true, Bool.false_eq_true, if_false]
  exact hc

/-- The simplest cycle: the first prerequisite resolves to a flag carrying `f`'s own key. -/
theorem diag_prereq_self_cycle (hctx : env.ctx ≠ .invalid) (hon : f.on = true) {p : Prereq}
    {ps : List Prereq} (hp : f.prerequisites = p :: ps) {pf : Flag}
    (hf : env.store.findFlag p.key = some pf) (hk : pf.key = f.key) :
    Diagnosed env f (.circularPrereq f.key) := by
  apply diag_prereq_cycle hctx hon
  unfold Spec.checkCycle
  simp [hp, Spec.prereqCycle, hf, hk]

end causes

/-! ### 9. Non-vacuity of the per-cause theorems (concrete flags against the store of `Ex`) -/

namespace Ex

theorem ctx_valid (b : Bool) : (env b).ctx ≠ .invalid := by intro h; cases h

/-- A clause that matches the context of `Ex` (key `u1`). -/
def cKey : Clause :=
  { attr := { raw := "key", single := "key" }, op := "in", values := [.str "u1"] }
/-- A clause that does not. -/
def cNo : Clause :=
  { attr := { raw := "key", single := "key" }, op := "in", values := [.str "zz"] }
def badRef : Ref := { err := some .extraSlash, raw := "//" }

example : Diagnosed (env true) { base with on := false, offVariation := some 9 } (.badVariation 9) :=
  diag_off_variation (ctx_valid _) rfl rfl (.inr (by decide))

example : Diagnosed (env true)
    { base with prerequisites := [⟨"nope", 0⟩], offVariation := some 7 } (.badVariation 7) :=
  diag_off_variation_prereq_failed (k := "nope") (ctx_valid _) rfl rfl rfl (.inr (by decide))

example : Diagnosed (env true)
    { base with targets := [{ values := ["u1"], variation := -1 }] } (.badVariation (-1)) :=
  diag_target_variation (ctx_valid _) rfl rfl rfl (.inl (by decide))

def fRules (r : FlagRule) : Flag := { base with rules := [{ clauses := [cNo] }, r] }

theorem reaches (r : FlagRule) : ReachesRules (env true) (fRules r) := ⟨rfl, rfl, rfl⟩

/-- Second rule matches, its variation index does not exist. -/
example : Diagnosed (env true) (fRules { clauses := [cKey], vr := { variation := some 2 } })
    (.badVariation 2) :=
  diag_rule (ctx_valid _) (reaches _) (pre := [{ clauses := [cNo] }]) (post := []) rfl
    (by intro r hr; simp at hr; subst hr; rfl) rfl
    (vrErr_variation rfl (.inr (by decide)))

/-- Second rule matches, its rollout has no variations. -/
example : Diagnosed (env true) (fRules { clauses := [cKey] }) .emptyRollout :=
  diag_rule (ctx_valid _) (reaches _) (pre := [{ clauses := [cNo] }]) (post := []) rfl
    (by intro r hr; simp at hr; subst hr; rfl) rfl (vrErr_emptyRollout rfl rfl)

/-- Second rule matches, its rollout buckets by an invalid attribute reference. -/
example : Diagnosed (env true)
    (fRules { clauses := [cKey],
              vr := { rollout := { variations := [⟨0, 100000, false⟩], bucketBy := badRef } } })
    (.badAttrRef "//") :=
  diag_rule (ctx_valid _) (reaches _) (pre := [{ clauses := [cNo] }]) (post := []) rfl
    (by intro r hr; simp at hr; subst hr; rfl) rfl
    (vrErr_bucketBy rfl (by simp) rfl rfl rfl)

/-- No rule matches, the fallthrough has neither a variation nor a rollout. -/
example : Diagnosed (env true) { base with rules := [{ clauses := [cNo] }], fallthrough := {} }
    .emptyRollout :=
  diag_fallthrough (ctx_valid _) ⟨rfl, rfl, rfl⟩
    (by intro r hr; simp at hr; subst hr; rfl) (vrErr_emptyRollout rfl rfl)

/-- Second clause of the second rule has an invalid attribute reference. -/
example : Diagnosed (env true)
    (fRules { clauses := [cKey, { attr := badRef, op := "in" }] }) (.badAttrRef "//") :=
  diag_rule_clause (ctx_valid _) (reaches _) (pre := [{ clauses := [cNo] }]) (post := []) rfl
    (by intro r hr; simp at hr; subst hr; rfl)
    (cpre := [cKey]) (cpost := []) (c := { attr := badRef, op := "in" }) rfl
    (by intro c hc; simp at hc; subst hc; rfl)
    (clauseMatch_attr_invalid _ _ rfl rfl rfl)

/-- … has no attribute reference at all. -/
example : Diagnosed (env true) (fRules { clauses := [cKey, { op := "in" }] }) .emptyAttr :=
  diag_rule_clause (ctx_valid _) (reaches _) (pre := [{ clauses := [cNo] }]) (post := []) rfl
    (by intro r hr; simp at hr; subst hr; rfl)
    (cpre := [cKey]) (cpost := []) (c := { op := "in" }) rfl
    (by intro c hc; simp at hc; subst hc; rfl)
    (clauseMatch_attr_missing _ _ rfl rfl)

/-- … refers to the segment `A`, which refers to itself. -/
example : Diagnosed (env true)
    (fRules { clauses := [cKey, { op := "segmentMatch", values := [.str "A"] }] })
    (.malformedSegment "A" (.circularSegment "A")) :=
  diag_rule_clause (ctx_valid _) (reaches _) (pre := [{ clauses := [cNo] }]) (post := []) rfl
    (by intro r hr; simp at hr; subst hr; rfl)
    (cpre := [cKey]) (cpost := []) (c := { op := "segmentMatch", values := [.str "A"] }) rfl
    (by intro c hc; simp at hc; subst hc; rfl)
    (clauseMatch_segment_err (k := "A") (rest := []) rfl rfl (s := _) rfl rfl)

/-- A flag filed as `c1` whose first prerequisite `c1` resolves to a flag with its own key. -/
example : Diagnosed (env true) { base with key := "c1", prerequisites := [⟨"c1", 0⟩] }
    (.circularPrereq "c1") :=
  diag_prereq_self_cycle (ctx_valid _) rfl (p := ⟨"c1", 0⟩) (ps := []) rfl (pf := _) rfl rfl

/-- The second alternative of `logged_line_exact`: the cycle is closed two levels down, the
evaluated flag has no own error, the line names `c2`. -/
example : ownError (env true) { base with prerequisites := [⟨"c1", 0⟩] } = none := by decide

/-- `Diagnosed` without a logger: same result, no line. -/
example : Diagnosed (env false) { base with on := false, offVariation := some 9 } (.badVariation 9) :=
  diag_off_variation (ctx_valid _) rfl rfl (.inr (by decide))

end Ex

/-! ### 10. The frame-level form, and what each error class says about the data -/

/-- `log_shape` for an arbitrary frame (any fuel, chain and incoming state with a provider-consistent
cache): the frame evaluating `f` appends the lines of its nested frames — none under `f`'s key or a
key of the chain — and then exactly the line of its own error.  So EVERY frame, nested ones
included, writes exactly one line under its own key when it detects a problem in its own flag and
none otherwise. -/
theorem frame_log_shape (sf n : Nat) (env : Env) (f : Flag) (chain : List String) (st : St)
    (h : Consistent env st) :
    ∃ nested, (evalFlag sf n env f chain st).2.logs =
        st.logs ++ nested ++ ownLines env f.key (Spec.ownErr sf n env f chain) ∧
      ∀ l ∈ nested, l.flagKey ∉ chain ++ [f.key] ∧ LineCause env l :=
  evalFlag_logs sf env n f chain st h

/-- A `rollout` line: the flag really has a fallthrough or a rule with neither a variation nor
rollout variations. -/
theorem cause_emptyRollout {env : Env} {f : Flag} (h : Cause env f .emptyRollout) :
    (f.fallthrough.variation = none ∧ f.fallthrough.rollout.variations = []) ∨
      ∃ r ∈ f.rules, r.vr.variation = none ∧ r.vr.rollout.variations = [] := by
  cases h with
  | fallthrough h => cases h with | emptyRollout h1 h2 => exact .inl ⟨h1, h2⟩
  | rule hr h => cases h with | emptyRollout h1 h2 => exact .inr ⟨_, hr, h1, h2⟩
  | clause _ _ h => cases h with | segment _ _ _ hs => cases hs

/-- A `variation` line with operand `i`: index `i` does not exist in the flag and is its off
variation, the variation of one of its targets, or a (fixed or rollout) variation of its
fallthrough or of one of its rules. -/
theorem cause_badVariation {env : Env} {f : Flag} {i : Int} (h : Cause env f (.badVariation i)) :
    OutOfRange f i ∧
      (f.offVariation = some i ∨ (∃ t, (t ∈ f.targets ∨ t ∈ f.contextTargets) ∧ t.variation = i) ∨
        ∃ vr, (vr = f.fallthrough ∨ ∃ r ∈ f.rules, vr = r.vr) ∧
          (vr.variation = some i ∨ ∃ wv ∈ vr.rollout.variations, wv.variation = i)) := by
  cases h with
  | offVariation h1 h2 => exact ⟨h2, .inl h1⟩
  | target h1 h2 => exact ⟨h2, .inr (.inl ⟨_, h1, rfl⟩)⟩
  | fallthrough h =>
    cases h with
    | variation h1 h2 => exact ⟨h2, .inr (.inr ⟨_, .inl rfl, .inl h1⟩)⟩
    | rolloutVariation h1 h2 h3 => exact ⟨h3, .inr (.inr ⟨_, .inl rfl, .inr ⟨_, h2, rfl⟩⟩)⟩
  | rule hr h =>
    cases h with
    | variation h1 h2 => exact ⟨h2, .inr (.inr ⟨_, .inr ⟨_, hr, rfl⟩, .inl h1⟩)⟩
    | rolloutVariation h1 h2 h3 =>
      exact ⟨h3, .inr (.inr ⟨_, .inr ⟨_, hr, rfl⟩, .inr ⟨_, h2, rfl⟩⟩)⟩
  | clause _ _ h => cases h with | segment _ _ _ hs => cases hs

/-- A `prereq-cycle` line with operand `k`: one of the flag's prerequisites resolves to a flag
whose own key is `k`. -/
theorem cause_circularPrereq {env : Env} {f : Flag} {k : String}
    (h : Cause env f (.circularPrereq k)) :
    ∃ p ∈ f.prerequisites, ∃ pf, env.store.findFlag p.key = some pf ∧ pf.key = k := by
  cases h with
  | fallthrough h => cases h
  | rule _ h => cases h
  | clause _ _ h => cases h with | segment _ _ _ hs => cases hs
  | prereqCycle hp hf => exact ⟨_, hp, _, hf, rfl⟩

/-- An `attr-missing` line at flag level (not wrapped in a segment): one of the flag's rules has a
non-segment clause without attribute reference. -/
theorem cause_emptyAttr {env : Env} {f : Flag} (h : Cause env f .emptyAttr) :
    ∃ r ∈ f.rules, ∃ c ∈ r.clauses, (c.op == "segmentMatch") = false ∧ c.attr.isDefined = false := by
  cases h with
  | fallthrough h => cases h
  | rule _ h => cases h
  | clause hr hc h =>
    cases h with
    | emptyAttr h1 h2 => exact ⟨_, hr, _, hc, h1, h2⟩
    | segment _ _ _ hs => cases hs

/-- A line whose error is wrapped `malformedSegment k e'`: one of the flag's rules has a
segment-match clause naming a stored segment whose own key is `k`, and `e'` is a defect of that
segment (a clause of one of its rules, a bucket-by, or a nested segment). -/
theorem cause_malformedSegment {env : Env} {f : Flag} {k : String} {e' : EvalErr}
    (h : Cause env f (.malformedSegment k e')) :
    ∃ r ∈ f.rules, ∃ c ∈ r.clauses, (c.op == "segmentMatch") = true ∧ ∃ k' s, J.str k' ∈ c.values ∧
      env.store.findSegment k' = some s ∧ s.key = k ∧ SegCause env [] s (.malformedSegment k e') := by
  cases h with
  | fallthrough h => cases h
  | rule _ h => cases h
  | clause hr hc h =>
    cases h with
    | segment h1 h2 h3 hs =>
      refine ⟨_, hr, _, hc, h1, _, _, h2, h3, ?_, hs⟩
      cases hs <;> rfl

/-- The hypotheses of the `cause_*` lemmas are satisfiable (and are what `log_line_cause` delivers
for the lines of the examples above). -/
example : Cause (Ex.env true) { Ex.base with fallthrough := {} } .emptyRollout :=
  .fallthrough (.emptyRollout rfl rfl)
example : Cause (Ex.env true) { Ex.base with on := false, offVariation := some 9 } (.badVariation 9) :=
  .offVariation rfl (.inr (by decide))
example : Cause (Ex.env true) { Ex.base with key := "c1", prerequisites := [⟨"c1", 0⟩] }
    (.circularPrereq "c1") :=
  ownError_cause (by decide)
example : Cause (Ex.env true) (Ex.fRules { clauses := [Ex.cKey, { op := "in" }] }) .emptyAttr :=
  ownError_cause (by decide)

/-- Audit #66 proposed, for lines of nested flags, "there is a prerequisite event for that flag
whose result is an error, or the evaluation was aborted".  That needs an event recorder: with
`recorder := false` a nested flag with a bad off variation is logged, the evaluated flag goes on to
PREREQUISITE_FAILED, and there is no event at all.  (`log_line_cause` does not depend on the
recorder: it ties the line to the defect of the stored flag instead.) -/
example :
    let o := evaluate { Ex.env true with opts := { logger := true, recorder := false } }
      { Ex.base with prerequisites := [⟨"g", 0⟩], offVariation := some 1 }
    o.logs = [⟨"g", .badVariation 9⟩] ∧ o.events.length = 0 ∧
      o.result.detail.reason.kind = .prereqFailed := by decide

end LD.C19

#print axioms LD.C19.logged_flag_line
#print axioms LD.C19.logged_flag
#print axioms LD.C19.logged_flag_new_line
#print axioms LD.C19.logged_flag_own_key
#print axioms LD.C19.site_rule
#print axioms LD.C19.site_prereq_cycle
#print axioms LD.C19.logged_line
#print axioms LD.C19.logged
#print axioms LD.C19.silent_no_logger
#print axioms LD.C19.logger_irrelevant
#print axioms LD.C19.logger_irrelevant_flag
#print axioms LD.C19.silent_own_path
#print axioms LD.C19.silent_when_clean
#print axioms LD.C19.segments_never_log
#print axioms LD.C19.log_shape
#print axioms LD.C19.own_lines_exact
#print axioms LD.C19.log_line_cause
#print axioms LD.C19.diagnosed_of_ownError
#print axioms LD.C19.own_line_only_if_error
#print axioms LD.C19.logged_line_exact
#print axioms LD.C19.diag_off_variation
#print axioms LD.C19.diag_off_variation_prereq_failed
#print axioms LD.C19.diag_target_variation
#print axioms LD.C19.diag_rule
#print axioms LD.C19.diag_fallthrough
#print axioms LD.C19.diag_rule_clause
#print axioms LD.C19.vrErr_variation
#print axioms LD.C19.vrErr_emptyRollout
#print axioms LD.C19.vrErr_bucketBy
#print axioms LD.C19.clauseMatch_attr_missing
#print axioms LD.C19.clauseMatch_attr_invalid
#print axioms LD.C19.clauseMatch_segment_err
#print axioms LD.C19.diag_prereq_cycle
#print axioms LD.C19.diag_prereq_self_cycle
#print axioms LD.C19.frame_log_shape
#print axioms LD.C19.cause_emptyRollout
#print axioms LD.C19.cause_badVariation
#print axioms LD.C19.cause_circularPrereq
#print axioms LD.C19.cause_emptyAttr
#print axioms LD.C19.cause_malformedSegment

/-
  C19 — Malformed data is always diagnosed in the error log.

  "Whenever an evaluation returns MALFORMED_FLAG and an error logger was configured, at least one
  error line was written during that call and it names the key of the flag in which the problem was
  detected and the nature of the problem (bad variation index, missing/invalid attribute reference,
  empty rollout, circular prerequisite, invalid or circular segment); with no logger, or a nil
  logger option, behaviour is otherwise identical and nothing panics.  Results that are not errors
  on the evaluated flag's own path write nothing unless a nested prerequisite flag was itself
  malformed."

  Statements; the proofs appeal to LDEval/Proofs/{Reach,Refine,StatusLog,LoggerIrrelevant}.lean.
-/
import LDEval.Proofs.StatusLog
import LDEval.Proofs.LoggerIrrelevant

namespace LD.C19

/-! ### 1. Every error detail of `evalFlag` is logged -/

/-- Strong form.  If `evalFlag` returns an error detail (or aborts, `ok = false`) and a logger is
configured, then the LAST log line `l` is new (written during this call), its error is of the
MALFORMED_FLAG class, and it names the flag `f` itself — or, only when the evaluation was aborted
by a nested prerequisite, one of the prerequisite flags the store returned for a lookup made during
this call.  The line carries that flag's OWN key `pf.key`; the data provider is free to return, for
the lookup key `k`, a flag whose own key is not `k` (for a provider that does not,
`logged_flag_line_consistent` gives `l.flagKey ∈ ` the new lookups). -/
theorem logged_flag_line {sf n : Nat} {env : Env} {f : Flag} {chain : List String} {st st' : St}
    {d : Detail} {ok : Bool} (hl : env.opts.logger = true)
    (h : evalFlag sf n env f chain st = (.done d ok, st'))
    (herr : d.reason.kind = .error ∨ ok = false) :
    ∃ l, st'.logs.getLast? = some l ∧ st.logs.length < st'.logs.length ∧
      l.err.kind = .malformedFlag ∧
      (l.flagKey = f.key ∨
        (ok = false ∧ ∃ k ∈ st'.flagLookups.drop st.flagLookups.length,
          ∃ pf, env.store.findFlag k = some pf ∧ l.flagKey = pf.key)) :=
  evalFlag_diag sf hl n f chain st d ok st' h herr

/-- The same for a store that files every flag under its own key: the line names `f` or one of the
keys looked up during this call. -/
theorem logged_flag_line_consistent {sf n : Nat} {env : Env} {f : Flag} {chain : List String}
    {st st' : St} {d : Detail} {ok : Bool} (hst : StoreConsistent env.store)
    (hl : env.opts.logger = true)
    (h : evalFlag sf n env f chain st = (.done d ok, st'))
    (herr : d.reason.kind = .error ∨ ok = false) :
    ∃ l, st'.logs.getLast? = some l ∧ st.logs.length < st'.logs.length ∧
      l.err.kind = .malformedFlag ∧
      (l.flagKey = f.key ∨
        (ok = false ∧ l.flagKey ∈ st'.flagLookups.drop st.flagLookups.length)) := by
  obtain ⟨l, h1, h2, h3, h4⟩ := logged_flag_line hl h herr
  refine ⟨l, h1, h2, h3, ?_⟩
  rcases h4 with h4 | ⟨hok, h4⟩
  · exact .inl h4
  · exact .inr ⟨hok, NamesLookedUp.of_consistent hst h4⟩

/-- At least one line was written during the call. -/
theorem logged_flag {sf n : Nat} {env : Env} {f : Flag} {chain : List String} {st st' : St}
    {d : Detail} {ok : Bool} (hl : env.opts.logger = true)
    (h : evalFlag sf n env f chain st = (.done d ok, st')) (herr : d.reason.kind = .error) :
    st.logs.length < st'.logs.length := by
  obtain ⟨_, _, h2, _⟩ := logged_flag_line hl h (.inl herr)
  exact h2

/-- The same as a statement about the suffix of new lines. -/
theorem logged_flag_new_line {sf n : Nat} {env : Env} {f : Flag} {chain : List String}
    {st st' : St} {d : Detail} {ok : Bool} (hl : env.opts.logger = true)
    (h : evalFlag sf n env f chain st = (.done d ok, st')) (herr : d.reason.kind = .error) :
    ∃ l ∈ st'.logs.drop st.logs.length, l.err.kind = .malformedFlag := by
  obtain ⟨l, h1, h2, h3, _⟩ := logged_flag_line hl h (.inl herr)
  refine ⟨l, List.mem_of_getLast? ?_, h3⟩
  rw [List.getLast?_drop, if_neg (by omega)]
  exact h1

/-- An error that is not an abort (`ok = true`: bad variation index, selection error) is logged
under the evaluated flag's own key. -/
theorem logged_flag_own_key {sf n : Nat} {env : Env} {f : Flag} {chain : List String}
    {st st' : St} {d : Detail} (hl : env.opts.logger = true)
    (h : evalFlag sf n env f chain st = (.done d true, st')) (herr : d.reason.kind = .error) :
    ∃ l, st'.logs.getLast? = some l ∧ l.flagKey = f.key ∧ l.err.kind = .malformedFlag := by
  obtain ⟨l, h1, _, h3, h4⟩ := logged_flag_line hl h (.inl herr)
  rcases h4 with h4 | ⟨h4, _⟩
  · exact ⟨l, h1, h4, h3⟩
  · cases h4

/-! The four logging sites, explicitly: the new line is `⟨f.key, e⟩` with `e` the detected error. -/

/-- Bad variation index. -/
theorem site_bad_variation (env : Env) (f : Flag) (i : Int) (r : Reason) (st : St)
    (h : i < 0 ∨ i ≥ f.variations.length) :
    getVariation env f i r st =
      (Detail.forError .malformedFlag, logErr env f.key (.badVariation i) st) :=
  getVariation_bad_index env f i r st h

/-- Selection error (empty rollout, invalid bucket-by reference). -/
theorem site_selection (env : Env) (f : Flag) (vr : VariationOrRollout) (r : Reason) (st : St)
    (e : EvalErr) (h : variationOrRollout env vr f.key f.salt = .error e) :
    getValueForVR env f vr r st = (Detail.forError e.kind, logErr env f.key e st) :=
  getValueForVR_error env f vr r st e h

/-- Rule-matching error (missing/invalid attribute reference, invalid or circular segment). -/
theorem site_rule (seg : SegRec) (env : Env) (f : Flag) (r : FlagRule) (rs : List FlagRule)
    (i : Nat) (st st1 : St) (e : EvalErr) (h : clausesMatch seg env [] r.clauses st = (.err e, st1)) :
    rulesLoop seg env f (r :: rs) i st =
      (.done (Detail.forError e.kind) false, logErr env f.key e st1) := by
  simp [rulesLoop, h]

/-- Circular prerequisite. -/
theorem site_prereq_cycle (rec : FlagRec) (env : Env) (f : Flag) (chain : List String) (p : Prereq)
    (ps : List Prereq) (st : St) (pf : Flag) (hf : env.store.findFlag p.key = some pf)
    (hc : chain.contains pf.key = true) :
    prereqLoop rec env f chain (p :: ps) st =
      (.malformed, logErr env f.key (.circularPrereq pf.key)
        { st with flagLookups := st.flagLookups ++ [p.key] }) := by
  unfold prereqLoop
  simp only [hf]
  rw [if_pos hc]

/-- With a logger, `logErr` appends exactly the line `⟨key, e⟩`. -/
theorem logErr_appends {env : Env} (hl : env.opts.logger = true) (key : String) (e : EvalErr)
    (st : St) : (logErr env key e st).logs = st.logs ++ [⟨key, e⟩] :=
  logErr_logs hl key e st

/-! ### 2. `evaluate`: MALFORMED_FLAG ⇒ the log is not empty -/

/-- Strong form: the last line of the log has a MALFORMED_FLAG-class error and names the evaluated
flag or (by its OWN key) one of the flags the store returned for a lookup made during the call. -/
theorem logged_line (env : Env) (f : Flag) (hl : env.opts.logger = true)
    (h : (evaluate env f).result.detail.reason.errorKind = some .malformedFlag) :
    ∃ l, (evaluate env f).logs.getLast? = some l ∧ l.err.kind = .malformedFlag ∧
      (l.flagKey = f.key ∨ ∃ k ∈ (evaluate env f).flagLookups,
        ∃ pf, env.store.findFlag k = some pf ∧ l.flagKey = pf.key) := by
  by_cases hctx : env.ctx = .invalid
  · simp [evaluate, hctx, Detail.forError, Reason.error] at h
  · rw [evaluate_eq_finish env f hctx] at h ⊢
    have hd := evalFlag_diag (segFuel env.store) hl (flagFuel env.store) f [] {}
    have hk : ∀ d ok st', evalFlag (segFuel env.store) (flagFuel env.store) env f [] {} =
        (.done d ok, st') → (d.reason.kind = .error ↔ d.reason.errorKind.isSome) :=
      fun _ _ _ h => evalFlag_reasonInv reasonInv_errorKind h
    generalize evalFlag (segFuel env.store) (flagFuel env.store) env f [] {} = r at h hd hk
    obtain ⟨out, st⟩ := r
    rw [finish_logs, finish_flagLookups]
    cases out with
    | oof => rw [finish_errorKind_oof] at h; cases h
    | done d ok =>
      rw [finish_errorKind_done] at h
      have hkind : d.reason.kind = .error := (hk d ok st rfl).2 (by rw [h]; rfl)
      obtain ⟨l, h1, _, h3, h4⟩ := hd d ok st rfl (.inl hkind)
      refine ⟨l, h1, h3, ?_⟩
      rcases h4 with h4 | ⟨_, h4⟩
      · exact .inl h4
      · exact .inr (h4.mono fun k hk => List.mem_of_mem_drop hk)

/-- The same for a store that files every flag under its own key: the line names the evaluated flag
or one of the keys looked up during the call. -/
theorem logged_line_consistent (env : Env) (f : Flag) (hst : StoreConsistent env.store)
    (hl : env.opts.logger = true)
    (h : (evaluate env f).result.detail.reason.errorKind = some .malformedFlag) :
    ∃ l, (evaluate env f).logs.getLast? = some l ∧ l.err.kind = .malformedFlag ∧
      (l.flagKey = f.key ∨ l.flagKey ∈ (evaluate env f).flagLookups) := by
  obtain ⟨l, h1, h2, h3⟩ := logged_line env f hl h
  refine ⟨l, h1, h2, ?_⟩
  rcases h3 with h3 | h3
  · exact .inl h3
  · exact .inr (NamesLookedUp.of_consistent hst h3)

theorem logged (env : Env) (f : Flag) (hl : env.opts.logger = true)
    (h : (evaluate env f).result.detail.reason.errorKind = some .malformedFlag) :
    (evaluate env f).logs ≠ [] := by
  obtain ⟨l, h1, _⟩ := logged_line env f hl h
  intro hnil
  rw [hnil] at h1
  cases h1

/-! ### 3. No logger ⇒ nothing is written -/

theorem silent_no_logger (env : Env) (f : Flag) (h : env.opts.logger = false) :
    (evaluate env f).logs = [] :=
  evaluate_no_logger h f

/-! ### 4. The logger is otherwise irrelevant -/

/-- Switching the logger option changes nothing but the log: result (value, index, full reason
including the big-segments status, experiment bit), outcome, prerequisite events, store lookups,
big-segment queries and membership checks are identical. -/
theorem logger_irrelevant (env : Env) (f : Flag) (b : Bool) :
    let env' : Env := { env with opts := { env.opts with logger := b } }
    (evaluate env' f).result = (evaluate env f).result ∧
    (evaluate env' f).events = (evaluate env f).events ∧
    (evaluate env' f).flagLookups = (evaluate env f).flagLookups ∧
    (evaluate env' f).segLookups = (evaluate env f).segLookups ∧
    (evaluate env' f).bsQueries = (evaluate env f).bsQueries ∧
    (evaluate env' f).memChecks = (evaluate env f).memChecks ∧
    (evaluate env' f).outcome = (evaluate env f).outcome := by
  intro env'
  have h : EnvAgree env' env := ⟨rfl, rfl, rfl, rfl, rfl⟩
  obtain ⟨h1, h2, h3, h4, h5, h6, h7⟩ := evaluate_sim h rfl f
  exact ⟨h2, h3, h4, h5, h6, h7, h1⟩

/-- The same at the level of `evalFlag`, from any pair of states that differ only in the log. -/
theorem logger_irrelevant_flag (sf n : Nat) (env : Env) (b : Bool) (f : Flag) (chain : List String)
    (st st' : St) (hst : st'.noLogs = st.noLogs) :
    let env' : Env := { env with opts := { env.opts with logger := b } }
    (evalFlag sf n env' f chain st').1 = (evalFlag sf n env f chain st).1 ∧
    (evalFlag sf n env' f chain st').2.noLogs = (evalFlag sf n env f chain st).2.noLogs := by
  intro env'
  have h : EnvAgree env' env := ⟨rfl, rfl, rfl, rfl, rfl⟩
  have hs : Sim st' st := by
    refine ⟨st'.logs, ?_⟩
    have e1 : st'.status = st.status := congrArg (a₁ := st'.noLogs) (a₂ := st.noLogs) St.status hst
    have e2 : st'.cache = st.cache := congrArg (a₁ := st'.noLogs) (a₂ := st.noLogs) St.cache hst
    have e3 : st'.events = st.events := congrArg (a₁ := st'.noLogs) (a₂ := st.noLogs) St.events hst
    have e4 : st'.flagLookups = st.flagLookups :=
      congrArg (a₁ := st'.noLogs) (a₂ := st.noLogs) St.flagLookups hst
    have e5 : st'.segLookups = st.segLookups :=
      congrArg (a₁ := st'.noLogs) (a₂ := st.noLogs) St.segLookups hst
    have e6 : st'.bsQueries = st.bsQueries :=
      congrArg (a₁ := st'.noLogs) (a₂ := st.noLogs) St.bsQueries hst
    have e7 : st'.memChecks = st.memChecks :=
      congrArg (a₁ := st'.noLogs) (a₂ := st.noLogs) St.memChecks hst
    cases st'; cases st
    simp only at e1 e2 e3 e4 e5 e6 e7
    subst e1 e2 e3 e4 e5 e6 e7
    rfl
  obtain ⟨h1, h2⟩ := evalFlag_sim h rfl sf n f chain st' st hs
  exact ⟨h1, h2.noLogs⟩

/-! ### 5. A non-error result on the flag's own path writes nothing -/

/-- General form: a non-error result leaves the log as the prerequisite evaluation left it — so
anything written was written inside a nested prerequisite flag. -/
theorem silent_own_path {rec : FlagRec} {sf : Nat} {env : Env} {f : Flag} {chain : List String}
    {st st' : St} {d : Detail} {ok : Bool}
    (h : evalBody rec (segContains sf env) env f chain st = (.done d ok, st'))
    (hne : d.reason.kind ≠ .error) :
    st'.logs = if f.on then (checkPrereqs rec env f chain st).2.logs else st.logs :=
  evalBody_silent h hne

/-- A flag without prerequisites: a non-error result writes nothing (segments never log; only the
four flag-level sites do, and each of them returns an error detail). -/
theorem silent_when_clean {sf n : Nat} {env : Env} {f : Flag} {chain : List String} {st st' : St}
    {d : Detail} {ok : Bool} (hp : f.prerequisites = [])
    (h : evalFlag sf (n + 1) env f chain st = (.done d ok, st')) (hne : d.reason.kind ≠ .error) :
    st'.logs = st.logs := by
  have := evalBody_silent (rec := evalFlag sf n env) (sf := sf) h hne
  rw [this]
  have hc : checkPrereqs (evalFlag sf n env) env f chain st = (.ok, st) := by
    simp [checkPrereqs, hp]
  rw [hc]
  split <;> rfl

/-- Segment evaluation never writes a log line. -/
theorem segments_never_log (n : Nat) (env : Env) (s : Segment) (chain : List String) (st : St) :
    (segContains n env s chain st).2.logs = st.logs :=
  segContains_logs n env s chain st

/-! ### 6. Non-vacuity: concrete evaluations -/

namespace Ex

def user : Ctx := .single { kind := "user", key := "u1" }

/-- `g` is off with an out-of-range off variation; `c1`/`c2` form a prerequisite cycle; segment
`A` refers to itself. -/
def store : Store :=
  Store.ofLists
    [{ key := "g", on := false, offVariation := some 9, variations := [.bool true] },
     { key := "c1", on := true, prerequisites := [⟨"c2", 0⟩], variations := [.bool true],
       fallthrough := { variation := some 0 } },
     { key := "c2", on := true, prerequisites := [⟨"c1", 0⟩], variations := [.bool true],
       fallthrough := { variation := some 0 } }]
    [{ key := "A",
       rules := [{ clauses := [{ op := "segmentMatch", values := [.str "A"] }] }] }]

def env (logger : Bool) : Env :=
  { opts := { logger := logger }, store := store, bs := none, ctx := user, rx := fun _ _ => none }

def base : Flag :=
  { key := "f", on := true, variations := [.bool false, .bool true],
    fallthrough := { variation := some 0 } }

/-- Bad variation index. -/
example :
    let o := evaluate (env true) { base with fallthrough := { variation := some 5 } }
    o.result.detail.reason.errorKind = some .malformedFlag ∧
    o.logs = [⟨"f", .badVariation 5⟩] := by decide

/-- Empty rollout. -/
example :
    let o := evaluate (env true) { base with fallthrough := {} }
    o.result.detail.reason.errorKind = some .malformedFlag ∧
    o.logs = [⟨"f", .emptyRollout⟩] := by decide

/-- Missing attribute reference in a rule clause. -/
example :
    let o := evaluate (env true)
      { base with rules := [{ vr := { variation := some 1 }, clauses := [{ op := "in" }] }] }
    o.result.detail.reason.errorKind = some .malformedFlag ∧
    o.logs = [⟨"f", .emptyAttr⟩] := by decide

/-- Circular segment: the line carries the segment key and the inner cause. -/
example :
    let o := evaluate (env true)
      { base with rules := [{ vr := { variation := some 1 },
                              clauses := [{ op := "segmentMatch", values := [.str "A"] }] }] }
    o.result.detail.reason.errorKind = some .malformedFlag ∧
    o.logs = [⟨"f", .malformedSegment "A" (.circularSegment "A")⟩] := by decide

/-- Circular prerequisite detected two levels down: the line names the flag whose frame detected
it (`c2`, which was looked up during the call), not the flag being evaluated — this is why
`logged_flag_line` has its second disjunct. -/
example :
    let o := evaluate (env true) { base with prerequisites := [⟨"c1", 0⟩] }
    o.result.detail.reason.errorKind = some .malformedFlag ∧
    o.logs = [⟨"c2", .circularPrereq "c1"⟩] ∧ o.flagLookups = ["c1", "c2", "c1"] := by decide

/-- A malformed nested prerequisite whose own evaluation is not aborted: the top-level result is a
non-error (PREREQUISITE_FAILED) and yet a line was written — the "unless" clause of the property. -/
example :
    let o := evaluate (env true) { base with prerequisites := [⟨"g", 0⟩], offVariation := some 1 }
    o.result.detail.reason.kind = .prereqFailed ∧ o.result.detail.index = some 1 ∧
    o.logs = [⟨"g", .badVariation 9⟩] := by decide

/-- A clean flag writes nothing although a logger is configured. -/
example :
    let o := evaluate (env true) base
    o.result.detail.reason.kind = .fallthrough ∧ o.logs = [] := by decide

/-- Without a logger: same result, empty log. -/
example :
    let o := evaluate (env false) { base with fallthrough := { variation := some 5 } }
    o.result.detail.reason.errorKind = some .malformedFlag ∧ o.logs = [] := by decide

end Ex

end LD.C19

#print axioms LD.C19.logged_flag_line
#print axioms LD.C19.logged_flag
#print axioms LD.C19.logged_flag_new_line
#print axioms LD.C19.logged_flag_own_key
#print axioms LD.C19.site_rule
#print axioms LD.C19.site_prereq_cycle
#print axioms LD.C19.logged_line
#print axioms LD.C19.logged
#print axioms LD.C19.silent_no_logger
#print axioms LD.C19.logger_irrelevant
#print axioms LD.C19.logger_irrelevant_flag
#print axioms LD.C19.silent_own_path
#print axioms LD.C19.silent_when_clean
#print axioms LD.C19.segments_never_log

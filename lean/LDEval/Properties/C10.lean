/-
  C10 — Recursion safety: cycles are errors, shared acyclic references are not.

  "Evaluation terminates for every prerequisite graph and every segment-reference graph. If
  evaluation actually re-enters a flag (prerequisite cycle) or a segment (segment cycle) along the
  current reference path, the whole evaluation returns MALFORMED_FLAG (never a stack overflow, hang
  or other error kind) and no event is recorded for the unfinished evaluations; a flag or segment
  that is merely reachable by several different acyclic paths (diamonds), at any depth including
  beyond 20 levels, is evaluated normally on each path and is never reported as a cycle."

  The model has no recursion depth limit at all (the fuel is `#distinct keys + 2` and part 1 shows
  it is never exhausted), so "beyond 20 levels" needs no separate statement: nothing in the model
  counts levels, the only test made on the way down is `chain.contains key`.

  (Theorem audit.)  The last section, "Strengthened statements", gives that remark a content and
  states the property globally, about `evaluate`: the reference graphs are defined
  (`Proofs/AuditCycle.lean`), cycle detection is sound for the whole evaluation
  (`circular_prereq_report_sound`, `circular_segment_report_sound`), an acyclic graph yields no
  cycle report and no re-entry (`acyclic_no_prereq_cycle_report`, `acyclic_no_segment_cycle_report`,
  `acyclic_never_reenters`), a reported cycle makes the whole result MALFORMED_FLAG
  (`cycle_report_implies_malformed`), a re-entry met on the walk is reported and is the last thing
  that happens (`reentry_reported`), and the chain — of whatever length — is irrelevant below a flag
  none of whose descendants has a key on it (`depth_independent`, `acyclic_call_standalone`).
  What the model still cannot express is the Go representation of the chain (a slice passed by
  value, capacity 20, shared backing array between siblings): chains are immutable lists here.
-/
import LDEval.Proofs.Prereq
import LDEval.Proofs.AuditCycle

namespace LD.C10

/-! ## 1. Termination -/

/-- Evaluation terminates (the fuel handed out by `evaluate` is never exhausted), for every store,
i.e. for every prerequisite graph and every segment-reference graph, cyclic or not. -/
theorem terminates (env : Env) (f : Flag) : (evaluate env f).outcome = .done :=
  evaluate_total env f

/-- The segment fuel suffices: with a duplicate-free chain of OWN keys of stored segments and
`#distinct own segment keys + 1 ≤ fuel + |chain|`, `segContains` never runs out of fuel.  (The keys
under which the data provider hands the segments out play no role.) -/
theorem segments_fuel_suffices (env : Env) :
    ∀ n (s : Segment) (chain : List String) (st : St), chain.Nodup →
      (∀ k ∈ chain, k ∈ env.store.segments.map (·.2.key)) →
      s.key ∈ env.store.segments.map (·.2.key) →
      distinctCount (env.store.segments.map (·.2.key)) + 1 ≤ n + chain.length →
      (segContains n env s chain st).1 ≠ .oof :=
  segContains_no_oof env

/-- The flag fuel suffices (`root` is the key of the flag handed to `evaluate`, which need not be
in the store; the other keys are OWN keys of stored flags, whatever lookup keys they are filed
under). -/
theorem flags_fuel_suffices (env : Env) (root : String) :
    ∀ n (f : Flag) (chain : List String) (st : St), chain.Nodup → f.key ∉ chain →
      (∀ k ∈ chain ++ [f.key], k = root ∨ k ∈ env.store.flags.map (·.2.key)) →
      distinctCount (env.store.flags.map (·.2.key)) + 2 ≤ n + chain.length →
      (evalFlag (segFuel env.store) n env f chain st).1 ≠ .oof :=
  evalFlag_no_oof env root

/-! ## 2. Segment cycles -/

/-- Re-entering a segment that is on the current path is the segment-cycle error; the state is
untouched (nothing is looked up, queried or logged at that point). -/
theorem segment_reentry_is_error {rec : SegRec} {env : Env} {s : Segment} {chain : List String}
    {st : St} (h : chain.contains s.key = true) :
    segBody rec env s chain st = (.err (.circularSegment s.key), st) := by
  unfold segBody
  rw [if_pos h]

/-- Whatever error leaves a flag rule's clauses — in particular a segment cycle, which arrives
wrapped in `malformedSegment` — is of kind MALFORMED_FLAG (never EXCEPTION). -/
theorem segment_cycle_surfaces_as_malformed {n : Nat} {env : Env} {cs : List Clause} {st st' : St}
    {e : EvalErr}
    (h : clausesMatch (segContains n env) env [] cs st = (.err e, st')) :
    e.kind = .malformedFlag :=
  flag_clauses_err_kind h

/-- The rules before the failing one: each returns "no match"; the state is threaded through. -/
def skipRules (seg : SegRec) (env : Env) : List FlagRule → St → Option St
  | [], st => some st
  | r :: rs, st =>
    match clausesMatch seg env [] r.clauses st with
    | (.ok false, st1) => skipRules seg env rs st1
    | _ => none

/-- If the first rule whose clauses do not return "no match" returns an error, the rule loop aborts
the whole evaluation (`ok = false`) with MALFORMED_FLAG; later rules and the fallthrough are not
looked at. -/
theorem rule_error_aborts {n : Nat} {env : Env} {f : Flag} {e : EvalErr} :
    ∀ {pre : List FlagRule} {r : FlagRule} {post : List FlagRule} {i : Nat} {st st0 st1 : St},
      skipRules (segContains n env) env pre st = some st0 →
      clausesMatch (segContains n env) env [] r.clauses st0 = (.err e, st1) →
      rulesLoop (segContains n env) env f (pre ++ r :: post) i st =
        (.done (Detail.forError .malformedFlag) false, logErr env f.key e st1) := by
  intro pre
  induction pre with
  | nil =>
    intro r post i st st0 st1 hs he
    simp only [skipRules, Option.some.injEq] at hs
    subst hs
    simp only [List.nil_append, rulesLoop, he, flag_clauses_err_kind he]
  | cons r0 pre ih =>
    intro r post i st st0 st1 hs he
    simp only [skipRules] at hs
    split at hs
    · rename_i st' heq
      simp only [List.cons_append, rulesLoop, heq]
      exact ih hs he
    · cases hs

/-! ## 3. Prerequisite cycles -/

/-- Re-entering a flag that is on the current path aborts: the loop returns `malformed`, logs the
cycle, appends no event and does not look at the later prerequisites. -/
theorem prereq_reentry_aborts {rec : FlagRec} {env : Env} {f : Flag} {chain : List String}
    {p : Prereq} {ps : List Prereq} {st : St} {pf : Flag}
    (hfind : env.store.findFlag p.key = some pf) (hc : chain.contains pf.key = true) :
    prereqLoop rec env f chain (p :: ps) st =
      (.malformed, logErr env f.key (.circularPrereq pf.key)
        { st with flagLookups := st.flagLookups ++ [p.key] }) :=
  prereqLoop_cycle hfind hc

/-- … in particular the events are exactly those before, and exactly one more flag was looked up. -/
theorem prereq_reentry_side_effects {rec : FlagRec} {env : Env} {f : Flag} {chain : List String}
    {p : Prereq} {ps : List Prereq} {st : St} {pf : Flag}
    (hfind : env.store.findFlag p.key = some pf) (hc : chain.contains pf.key = true) :
    (prereqLoop rec env f chain (p :: ps) st).2.events = st.events ∧
    (prereqLoop rec env f chain (p :: ps) st).2.flagLookups = st.flagLookups ++ [p.key] := by
  rw [prereq_reentry_aborts hfind hc]
  exact ⟨logErr_events .., logErr_flagLookups ..⟩

/-! ## 4. An abort propagates to the top, with no event for the unfinished frames -/

/-- (a) If the nested evaluation of a prerequisite aborted (`ok = false`), the loop returns
`malformed`; the only change made to the nested call's final state is the status merge, so no
event is appended for the aborted frame and later prerequisites are not looked up. -/
theorem abort_propagates_loop {rec : FlagRec} {env : Env} {f : Flag} {chain : List String}
    {p : Prereq} {ps : List Prereq} {st st2 : St} {pf : Flag} {d : Detail}
    (hfind : env.store.findFlag p.key = some pf) (hc : chain.contains pf.key = false)
    (hrec : rec pf chain { st with flagLookups := st.flagLookups ++ [p.key] } = (.done d false, st2)) :
    prereqLoop rec env f chain (p :: ps) st =
      (.malformed, { st2 with status := updateStatus st.status st2.status }) ∧
    (prereqLoop rec env f chain (p :: ps) st).2.events = st2.events ∧
    (prereqLoop rec env f chain (p :: ps) st).2.flagLookups = st2.flagLookups := by
  have h : prereqLoop rec env f chain (p :: ps) st =
      (.malformed, { st2 with status := updateStatus st.status st2.status }) :=
    prereqLoop_abort hfind hc hrec
  rw [h]
  exact ⟨rfl, rfl, rfl⟩

/-- (b) A `malformed` prerequisite check makes the flag itself abort with MALFORMED_FLAG, in the
very state the check left (no off-value lookup, no log line, no event). -/
theorem abort_propagates_body {rec : FlagRec} {seg : SegRec} {env : Env} {f : Flag}
    {chain : List String} {st st1 : St} (hon : f.on = true)
    (h : checkPrereqs rec env f chain st = (.malformed, st1)) :
    evalBody rec seg env f chain st = (.done (Detail.forError .malformedFlag) false, st1) := by
  simp [evalBody, hon, h]

/-- (c) At the top: an aborted evaluation is reported as MALFORMED_FLAG, with no variation index
and a null value. -/
theorem abort_propagates_top {env : Env} {f : Flag} {d : Detail} {st : St}
    (hctx : env.ctx ≠ .invalid)
    (h : evalFlag (segFuel env.store) (flagFuel env.store) env f [] {} = (.done d false, st)) :
    (evaluate env f).result.detail.reason.errorKind = some .malformedFlag ∧
    (evaluate env f).result.detail.reason.kind = .error ∧
    (evaluate env f).result.detail.index = none ∧
    (evaluate env f).result.detail.value = .null ∧
    (evaluate env f).events = st.events := by
  obtain ⟨hr, hi, hv⟩ := abort_is_malformed h
  have hev : (evaluate env f).events = st.events := by
    unfold evaluate
    split
    · rename_i hc; exact absurd hc hctx
    · rw [h]
  rcases evaluate_valid f hctx h with ⟨d', ok', hd, _, hdet⟩ | ⟨ho, _⟩
  · cases hd
    rw [hdet]
    refine ⟨?_, ?_, ?_, ?_, hev⟩
    · rw [withStatus_errorKind, hr]; rfl
    · rw [withStatus_kind, hr]; rfl
    · cases st.status <;> exact hi
    · cases st.status <;> exact hv
  · cases ho

/-- The three parts together, under the name used in the property list. -/
theorem abort_propagates {rec : FlagRec} {seg : SegRec} {env : Env} {f : Flag}
    {chain : List String} :
    (∀ {p : Prereq} {ps : List Prereq} {st st2 : St} {pf : Flag} {d : Detail},
      env.store.findFlag p.key = some pf → chain.contains pf.key = false →
      rec pf chain { st with flagLookups := st.flagLookups ++ [p.key] } = (.done d false, st2) →
      (prereqLoop rec env f chain (p :: ps) st).1 = .malformed ∧
      (prereqLoop rec env f chain (p :: ps) st).2.events = st2.events) ∧
    (∀ {st st1 : St}, f.on = true → checkPrereqs rec env f chain st = (.malformed, st1) →
      evalBody rec seg env f chain st = (.done (Detail.forError .malformedFlag) false, st1)) ∧
    (∀ {d : Detail} {st : St}, env.ctx ≠ .invalid →
      evalFlag (segFuel env.store) (flagFuel env.store) env f [] {} = (.done d false, st) →
      (evaluate env f).result.detail.reason.errorKind = some .malformedFlag ∧
      (evaluate env f).result.detail.index = none ∧
      (evaluate env f).result.detail.value = .null) := by
  refine ⟨?_, ?_, ?_⟩
  · intro p ps st st2 pf d hfind hc hrec
    obtain ⟨h1, h2, _⟩ := abort_propagates_loop (f := f) (ps := ps) hfind hc hrec
    exact ⟨by rw [h1], h2⟩
  · intro st st1 hon h
    exact abort_propagates_body hon h
  · intro d st hctx h
    obtain ⟨h1, _, h3, h4, _⟩ := abort_propagates_top hctx h
    exact ⟨h1, h3, h4⟩

/-! ## 5. No false cycles -/

/-- The prerequisite loop reports `malformed` only because of some listed prerequisite `p` whose
flag `pf` EITHER is on the current path (`chain.contains pf.key`: a genuine re-entry) OR whose own
nested evaluation aborted.  A flag that is not on the current path is therefore never reported as
a cycle, however many times it has been evaluated on other paths (diamonds). -/
theorem no_false_cycle {rec : FlagRec} {env : Env} {f : Flag} {chain : List String} :
    ∀ {ps : List Prereq} {st st' : St},
      prereqLoop rec env f chain ps st = (.malformed, st') →
      ∃ pre p post pf, ps = pre ++ p :: post ∧ env.store.findFlag p.key = some pf ∧
        (chain.contains pf.key = true ∨
          ∃ stA d stB, rec pf chain stA = (.done d false, stB)) := by
  intro ps
  induction ps with
  | nil => intro st st' h; simp [prereqLoop] at h
  | cons p ps ih =>
    intro st st' h
    unfold prereqLoop at h
    simp only at h
    split at h
    · cases h
    · rename_i pf hfind
      split at h
      · rename_i hc
        exact ⟨[], p, ps, pf, rfl, hfind, .inl hc⟩
      · split at h
        · cases h
        · rename_i d ok st2 heq
          split at h
          · rename_i hok
            have : ok = false := by simpa using hok
            subst this
            exact ⟨[], p, ps, pf, rfl, hfind, .inr ⟨_, d, st2, heq⟩⟩
          · split at h
            · cases h
            · obtain ⟨pre, q, post, qf, hps, hq, hcase⟩ := ih h
              exact ⟨p :: pre, q, post, qf, by rw [hps]; rfl, hq, hcase⟩

/-- The chain handed to the nested evaluations of `f`'s prerequisites is the chain `f` itself was
entered with plus `f.key` — i.e. exactly the current path. -/
theorem checkPrereqs_chain {rec : FlagRec} {env : Env} {f : Flag} {chain : List String} {st : St}
    (h : f.prerequisites ≠ []) :
    checkPrereqs rec env f chain st = prereqLoop rec env f (chain ++ [f.key]) f.prerequisites st := by
  unfold checkPrereqs
  cases hp : f.prerequisites with
  | nil => exact absurd hp h
  | cons p ps => rfl

/-- Flag level: `malformed` out of `checkPrereqs` means a prerequisite of `f` is `f` itself or one of
its ancestors on the current path, or a nested evaluation aborted. -/
theorem no_false_cycle_flag {rec : FlagRec} {env : Env} {f : Flag} {chain : List String}
    {st st' : St} (h : checkPrereqs rec env f chain st = (.malformed, st')) :
    ∃ p pf, p ∈ f.prerequisites ∧ env.store.findFlag p.key = some pf ∧
      (pf.key = f.key ∨ pf.key ∈ chain ∨
        ∃ stA d stB, rec pf (chain ++ [f.key]) stA = (.done d false, stB)) := by
  unfold checkPrereqs at h
  split at h
  · cases h
  · obtain ⟨pre, p, post, pf, hps, hfind, hcase⟩ := no_false_cycle h
    refine ⟨p, pf, by rw [hps]; simp, hfind, ?_⟩
    rcases hcase with hc | hab
    · have : pf.key ∈ chain ++ [f.key] := by simpa using hc
      rcases List.mem_append.mp this with h1 | h1
      · exact .inr (.inl h1)
      · exact .inl (by simpa using h1)
    · exact .inr (.inr hab)

/-- Segments: the bare cycle error for key `k` leaves `segBody` only for the segment itself and
only if its key is on the current path (errors from deeper levels arrive wrapped in
`malformedSegment`, see `segBody_err`). -/
theorem no_false_segment_cycle {rec : SegRec} {env : Env} {s : Segment} {chain : List String}
    {st st' : St} {k : String}
    (h : segBody rec env s chain st = (.err (.circularSegment k), st')) :
    k = s.key ∧ chain.contains s.key = true := by
  have hk : k = s.key := by
    rcases segBody_err h with h1 | ⟨e', h1⟩
    · cases h1; rfl
    · cases h1
  refine ⟨hk, ?_⟩
  cases hc : chain.contains s.key with
  | true => rfl
  | false =>
    exfalso
    unfold segBody at h
    rw [hc] at h
    simp only [Bool.false_eq_true, if_false] at h
    split at h
    · split at h
      · cases h
      · split at h
        · cases h
        · split at h
          · obtain ⟨e', he'⟩ := segRules_err h; cases he'
          · split at h
            · cases h
            · obtain ⟨e', he'⟩ := segRules_err h; cases he'
    · split at h
      · cases h
      · obtain ⟨e', he'⟩ := segRules_err h; cases he'

/-- A segment whose key is not on the current path never yields the bare cycle error. -/
theorem segment_not_on_path_no_cycle_error {rec : SegRec} {env : Env} {s : Segment}
    {chain : List String} {st : St} (hc : chain.contains s.key = false) (k : String) (st' : St) :
    segBody rec env s chain st ≠ (.err (.circularSegment k), st') := by
  intro h
  have := (no_false_segment_cycle h).2
  rw [hc] at this
  cases this

/-- In a whole evaluation, every recorded event belongs to a COMPLETED evaluation of a store flag:
the event names (by its OWN key) a flag `pf` that the store returns for some lookup key `k` — the
key a dependent flag lists; the data provider need not file `pf` under its own key — and its detail
is what that flag evaluates to on its own with `ok = true`.  Hence nothing is ever recorded for an
evaluation that was cut short by a cycle (or by any other abort). -/
theorem events_only_for_completed (env : Env) (top : Flag) :
    ∀ e ∈ (evaluate env top).events, ∃ k pf,
      env.store.findFlag k = some pf ∧ e.prereqKey = pf.key ∧
      Spec.evalFlag (segFuel env.store) (flagFuel env.store) env pf [] =
        some (e.result.detail, true) := by
  intro e he
  obtain ⟨f, pf, p, d, _, _, hfind, rfl, hs⟩ := evaluate_events_ok env top e he
  exact ⟨p.key, pf, hfind, rfl, hs⟩

/-- The same for a store that files every flag under its own key: the event's key IS the lookup
key. -/
theorem events_only_for_completed_consistent (env : Env) (top : Flag)
    (hst : StoreConsistent env.store) :
    ∀ e ∈ (evaluate env top).events, ∃ pf,
      env.store.findFlag e.prereqKey = some pf ∧
      Spec.evalFlag (segFuel env.store) (flagFuel env.store) env pf [] =
        some (e.result.detail, true) := by
  intro e he
  obtain ⟨k, pf, hfind, hk, hs⟩ := events_only_for_completed env top e he
  refine ⟨pf, ?_, hs⟩
  rw [hk, findFlag_key_consistent hst hfind]; exact hfind

/-! ## 6. Diamonds -/

/-- Siblings receive the SAME chain: after a met prerequisite the loop goes on with the unchanged
`chain` (it is extended only on the way down, by `checkPrereqs`, never across siblings), so a flag
evaluated under one sibling is not on the path of the next. -/
theorem chain_is_path {rec : FlagRec} {env : Env} {f : Flag} {chain : List String}
    {p : Prereq} {ps : List Prereq} {st st2 : St} {pf : Flag} {d : Detail}
    (hfind : env.store.findFlag p.key = some pf) (hc : chain.contains pf.key = false)
    (hrec : rec pf chain { st with flagLookups := st.flagLookups ++ [p.key] } = (.done d true, st2))
    (hmet : (pf.on && d.index.isSome && d.index == some p.variation) = true) :
    prereqLoop rec env f chain (p :: ps) st =
      prereqLoop rec env f chain ps (afterPrereq env f pf st.status d st2) := by
  rw [prereqLoop_done hfind hc hrec]
  unfold prereqMet
  rw [if_pos hmet]

/-! ## 7. Concrete instances (kernel-evaluated with `decide`): the statements are not vacuous -/

namespace Ex

def ctx : Ctx := .single { kind := "user", key := "u" }

/-- A flag that is on, serves variation 0 on fallthrough, with the given prerequisites. -/
def mkFlag (key : String) (prs : List Prereq) : Flag :=
  { key := key, on := true, prerequisites := prs, fallthrough := { variation := some 0 },
    variations := [.bool true] }

/-! Prerequisite diamond: top → {a, b}, a → c, b → c. -/
def c := mkFlag "c" []
def a := mkFlag "a" [⟨"c", 0⟩]
def b := mkFlag "b" [⟨"c", 0⟩]
def top := mkFlag "top" [⟨"a", 0⟩, ⟨"b", 0⟩]
def env : Env :=
  { opts := {}, store := Store.ofLists [a, b, c] [], bs := none, ctx := ctx, rx := fun _ _ => none }

/-- The Spec evaluates the diamond to variation 0, FALLTHROUGH, not aborted. -/
theorem diamond_ok :
    (Spec.evalFlag (segFuel env.store) 5 env top []).map
        (fun r => (r.1.index, r.1.reason.kind, r.1.reason.errorKind, r.2)) =
      some (some 0, .fallthrough, none, true) := by decide

/-- The model evaluates `c` once on each path (two lookups, two events) and reports no cycle. -/
theorem diamond_ok_model :
    (evaluate env top).result.detail.index = some 0 ∧
    (evaluate env top).result.detail.reason.kind = .fallthrough ∧
    (evaluate env top).flagLookups = ["a", "c", "b", "c"] ∧
    (evaluate env top).events.map (fun e => (e.targetKey, e.prereqKey)) =
      [("a", "c"), ("top", "a"), ("b", "c"), ("top", "b")] := by decide

/-! Beyond 20 levels: top → d00 → d01 → … → d24 and top → d10 (a second, shared, path into the
same chain). -/
def deepKeys : List String := ["d00", "d01", "d02", "d03", "d04", "d05", "d06", "d07", "d08", "d09", "d10", "d11", "d12", "d13", "d14", "d15", "d16", "d17", "d18", "d19", "d20", "d21", "d22", "d23", "d24"]
def deepFlags : List Flag :=
  List.zipWith (fun k nxt => mkFlag k [⟨nxt, 0⟩]) deepKeys (deepKeys.drop 1) ++ [mkFlag "d24" []]
def deepEnv : Env :=
  { opts := {}, store := Store.ofLists deepFlags [], bs := none, ctx := ctx, rx := fun _ _ => none }
def deepTop : Flag := mkFlag "top" [⟨"d00", 0⟩, ⟨"d10", 0⟩]

theorem deep_diamond_ok :
    (evaluate deepEnv deepTop).outcome = .done ∧
    (evaluate deepEnv deepTop).result.detail.index = some 0 ∧
    (evaluate deepEnv deepTop).result.detail.reason.kind = .fallthrough ∧
    (evaluate deepEnv deepTop).events.length = 40 := by decide

/-! Prerequisite cycles: x → y → x, a self-loop, and a cycle behind a healthy sibling. -/
def x := mkFlag "x" [⟨"y", 0⟩]
def y := mkFlag "y" [⟨"x", 0⟩]
def selfish := mkFlag "selfish" [⟨"selfish", 0⟩]
def mixed := mkFlag "mixed" [⟨"c", 0⟩, ⟨"x", 0⟩, ⟨"a", 0⟩]
def cycEnv : Env :=
  { opts := { logger := true }, store := Store.ofLists [a, c, x, y, selfish] [], bs := none, ctx := ctx,
    rx := fun _ _ => none }

theorem cycle_is_malformed :
    (evaluate cycEnv x).outcome = .done ∧
    (evaluate cycEnv x).result.detail.reason.errorKind = some .malformedFlag ∧
    (evaluate cycEnv x).result.detail.index = none ∧
    (evaluate cycEnv x).events.length = 0 ∧
    (evaluate cycEnv x).logs = [⟨"y", .circularPrereq "x"⟩] := by decide

theorem self_loop_is_malformed :
    (evaluate cycEnv selfish).result.detail.reason.errorKind = some .malformedFlag ∧
    (evaluate cycEnv selfish).events.length = 0 ∧
    (evaluate cycEnv selfish).flagLookups = ["selfish"] := by decide

/-- The completed sibling `c` keeps its event; the unfinished `x`, `y` and the never reached `a`
get none. -/
theorem cycle_behind_sibling :
    (evaluate cycEnv mixed).result.detail.reason.errorKind = some .malformedFlag ∧
    (evaluate cycEnv mixed).events.map (fun e => (e.targetKey, e.prereqKey)) = [("mixed", "c")] ∧
    (evaluate cycEnv mixed).flagLookups = ["c", "x", "y", "x"] := by decide

/-! Segments: a diamond s1 → {s2, s3} → s4 and a cycle s1 → s2 → s1, referenced from a flag rule. -/
def segClause (ks : List String) : Clause := { op := "segmentMatch", values := ks.map .str }
def mkSeg (key : String) (refs : List String) : Segment :=
  { key := key, rules := if refs.isEmpty then [] else [{ clauses := [segClause refs] }] }
def segFlag : Flag :=
  { key := "sf", on := true,
    rules := [{ clauses := [segClause ["s1"]], vr := { variation := some 1 } }],
    fallthrough := { variation := some 0 }, variations := [.bool false, .bool true] }
def diamondSegEnv : Env :=
  { opts := {},
    store := Store.ofLists [] [mkSeg "s1" ["s2", "s3"], mkSeg "s2" ["s4"], mkSeg "s3" ["s4"],
                               mkSeg "s4" []],
    bs := none, ctx := ctx, rx := fun _ _ => none }
def cycleSegEnv : Env :=
  { opts := { logger := true }, store := Store.ofLists [] [mkSeg "s1" ["s2"], mkSeg "s2" ["s1"]],
    bs := none, ctx := ctx, rx := fun _ _ => none }

/-- `s4` is reached on both paths and evaluated on each; no error. -/
theorem segment_diamond_ok :
    (evaluate diamondSegEnv segFlag).result.detail.index = some 0 ∧
    (evaluate diamondSegEnv segFlag).result.detail.reason.kind = .fallthrough ∧
    (evaluate diamondSegEnv segFlag).segLookups = ["s1", "s2", "s4", "s3", "s4"] := by decide

/-- The segment cycle surfaces as MALFORMED_FLAG (not EXCEPTION), logged as the wrapped error. -/
theorem segment_cycle_is_malformed :
    (evaluate cycleSegEnv segFlag).outcome = .done ∧
    (evaluate cycleSegEnv segFlag).result.detail.reason.errorKind = some .malformedFlag ∧
    (evaluate cycleSegEnv segFlag).result.detail.index = none ∧
    (evaluate cycleSegEnv segFlag).logs =
      [⟨"sf", .malformedSegment "s1" (.malformedSegment "s2" (.circularSegment "s1"))⟩] := by
  decide

/-! An INCONSISTENT data provider: asked for `"gate"` it returns a flag whose own key is
`"gate-v2"`, and that flag lists `"gate"` as a prerequisite.  The path is built from OWN keys
(`feature`, `gate-v2`), so the second lookup of `"gate"` returns a flag that is already on the path:
the evaluation ends there with MALFORMED_FLAG instead of descending for ever. -/
def gateV2 : Flag := mkFlag "gate-v2" [⟨"gate", 0⟩]
def feature : Flag := mkFlag "feature" [⟨"gate", 0⟩]
def aliasEnv : Env :=
  { opts := { logger := true }, store := { flags := [("gate", gateV2)] }, bs := none, ctx := ctx,
    rx := fun _ _ => none }

example : ¬ StoreConsistent aliasEnv.store := by
  intro h
  have := h.1 ("gate", gateV2) (by simp [aliasEnv])
  revert this
  decide

example :
    (evaluate aliasEnv feature).outcome = .done ∧
    (evaluate aliasEnv feature).result.detail.reason.kind = .error ∧
    (evaluate aliasEnv feature).result.detail.reason.errorKind = some .malformedFlag ∧
    (evaluate aliasEnv feature).result.detail.index = none ∧
    (evaluate aliasEnv feature).flagLookups = ["gate", "gate"] ∧
    (evaluate aliasEnv feature).events.length = 0 ∧
    (evaluate aliasEnv feature).logs = [⟨"gate-v2", .circularPrereq "gate-v2"⟩] := by decide

end Ex

/-! ## Strengthened statements (theorem audit) -/

open Relation

/-! ### Audit #34: global soundness of cycle detection, and "acyclic ⇒ no cycle error"

The reference graphs are those of `Proofs/AuditCycle.lean`: `PrereqEdge s f g` — flag `f` lists a
prerequisite whose LOOKUP key `Store.findFlag` resolves to the flag `g`; `SegEdge s a b` /
`FlagSegEdge s f b` — a `segmentMatch` clause of a rule of segment `a` / flag `f` names a key that
`Store.findSegment` resolves to `b`.  The evaluator's cycle test compares OWN keys, so a cycle
"through key `k`" is a path from the evaluated flag that reaches a flag (segment) with own key `k`
and later another one (the same one, if the store files items under their own keys) with own key
`k` again: `PrereqCycleAt`, `SegCycleAt`.  The invariant behind everything is that the chain is
always a path of the graph from the root (`OnPath`, `SegOnPath`, `walk_invariant`). -/

theorem evaluate_channels {env : Env} {f : Flag} (hctx : env.ctx ≠ .invalid) {out : FlagOut}
    {st : St}
    (he : evalFlag (segFuel env.store) (flagFuel env.store) env f [] {} = (out, st)) :
    (evaluate env f).events = st.events ∧ (evaluate env f).logs = st.logs ∧
    (evaluate env f).flagLookups = st.flagLookups ∧ (evaluate env f).segLookups = st.segLookups ∧
    (evaluate env f).bsQueries = st.bsQueries ∧ (evaluate env f).memChecks = st.memChecks := by
  unfold evaluate
  split
  · rename_i hc; exact absurd hc hctx
  · rw [he]; exact ⟨rfl, rfl, rfl, rfl, rfl, rfl⟩

/-- Every line `Evaluate` logs is accounted for (`LogOK`): it is written under the own key of a flag
reachable from the evaluated flag through prerequisite references, and its error is — under the
malformed-segment wrappers — a plain data error, or the prerequisite-cycle error with a genuine
re-entry behind it, or the segment-cycle error with a genuine segment cycle behind it. -/
theorem evaluate_logs_ok (env : Env) (top : Flag) :
    ∀ l ∈ (evaluate env top).logs, LogOK env.store top l := by
  by_cases hctx : env.ctx = .invalid
  · intro l hl
    have : (evaluate env top).logs = [] := by unfold evaluate; rw [hctx]
    rw [this] at hl; cases hl
  · generalize he : evalFlag (segFuel env.store) (flagFuel env.store) env top [] {} = r
    obtain ⟨out, st⟩ := r
    have h := (evalFlag_logsPost _ env top _ top [] {} out st .refl (OnPath.nil _ _ _) he).1
    intro l hl
    rw [(evaluate_channels hctx he).2.1] at hl
    rcases h l hl with h | h
    · cases h
    · exact h

/-- SOUNDNESS OF PREREQUISITE-CYCLE DETECTION, for the whole evaluation (any depth, any number of
siblings and diamonds).  If `Evaluate` reports the circular-prerequisite error for key `k` — the
line is never wrapped — under flag key `fk`, then the graph really contains the re-entry: a flag
`g` with own key `k` is reachable from the evaluated flag; the flag `f` with own key `fk` is `g` or
lies below `g`; and `f` lists a prerequisite that the store resolves to a flag `h` with own key
`k`.  So a flag that is merely shared between several acyclic paths is never reported. -/
theorem circular_prereq_report_sound (env : Env) (top : Flag) :
    ∀ l ∈ (evaluate env top).logs, ∀ k, l.err.core = .circularPrereq k →
      l.err = .circularPrereq k ∧ PrereqReentry env.store top l.flagKey k := by
  intro l hl k hk
  obtain ⟨f, hf, hkey, hcase⟩ := evaluate_logs_ok env top l hl
  rcases hcase with h | ⟨k', he, g, h', hg, hgf, hfh, h1, h2⟩ | ⟨k', a, he, _⟩
  · rw [hk] at h; exact h.elim
  · rw [he] at hk
    have : k' = k := by simpa [EvalErr.core] using hk
    subst this
    exact ⟨he, g, f, h', hg, hgf, hfh, h1, h2, hkey.symm⟩
  · rw [hk] at he; cases he

/-- … in particular the key graph has a cycle through `k`. -/
theorem circular_prereq_report_cycle (env : Env) (top : Flag) :
    ∀ l ∈ (evaluate env top).logs, ∀ k, l.err.core = .circularPrereq k →
      PrereqCycleAt env.store top k ∧ TransGen (PrereqKeyEdge env.store top) k k := by
  intro l hl k hk
  have h := (circular_prereq_report_sound env top l hl k hk).2.cycleAt
  exact ⟨h, h.keyCycle⟩

/-- ACYCLIC ⇒ NO CYCLE ERROR (prerequisites).  If no prerequisite path from the evaluated flag
comes back to a key it has passed, `Evaluate` never reports a circular prerequisite, however many
paths lead to the same flag and however long they are. -/
theorem acyclic_no_prereq_cycle_report (env : Env) (top : Flag)
    (hac : PrereqAcyclicFrom env.store top) :
    ∀ l ∈ (evaluate env top).logs, ∀ k, l.err.core ≠ .circularPrereq k := by
  intro l hl k hk
  exact hac k (circular_prereq_report_sound env top l hl k hk).2.cycleAt

/-- The same with acyclicity of the key graph (the form proposed in the audit): nodes are own
keys, `a → b` iff a reachable flag with own key `a` lists a prerequisite that the store resolves to
a flag with own key `b`. -/
theorem acyclic_keygraph_no_prereq_cycle_report (env : Env) (top : Flag)
    (hac : ∀ k, ¬ TransGen (PrereqKeyEdge env.store top) k k) :
    ∀ l ∈ (evaluate env top).logs, ∀ k, l.err.core ≠ .circularPrereq k :=
  acyclic_no_prereq_cycle_report env top fun k h => hac k h.keyCycle

/-- … and with the key graph over the evaluated flag and ALL stored flags (no reachability side
condition; the audit's `PEdge'`). -/
theorem acyclic_keygraphAll_no_prereq_cycle_report (env : Env) (top : Flag)
    (hac : ∀ k, ¬ TransGen (PrereqKeyEdgeAll env.store top) k k) :
    ∀ l ∈ (evaluate env top).logs, ∀ k, l.err.core ≠ .circularPrereq k :=
  acyclic_keygraph_no_prereq_cycle_report env top fun k h =>
    hac k (transGen_imp (fun _ _ he => PrereqKeyEdge.toAll he) h)

/-- SOUNDNESS OF SEGMENT-CYCLE DETECTION, for the whole evaluation.  If a logged error is, under its
malformed-segment wrappers, the circular-segment error for key `k`, then the line is written under
the key of a flag `f` reachable from the evaluated flag, a rule of `f` references a segment `a`, and
from `a` a path of segment references reaches a segment with own key `k` and later a segment with
own key `k` again. -/
theorem circular_segment_report_sound (env : Env) (top : Flag) :
    ∀ l ∈ (evaluate env top).logs, ∀ k, l.err.core = .circularSegment k →
      ∃ f a, PrereqReach env.store top f ∧ l.flagKey = f.key ∧ FlagSegEdge env.store f a ∧
        SegCycleFrom env.store a k := by
  intro l hl k hk
  obtain ⟨f, hf, hkey, hcase⟩ := evaluate_logs_ok env top l hl
  rcases hcase with h | ⟨k', he, _⟩ | ⟨k', a, he, hedge, hcyc⟩
  · rw [hk] at h; exact h.elim
  · rw [he] at hk; cases hk
  · rw [hk] at he
    have : k = k' := by simpa using he
    subst this
    exact ⟨f, a, hf, hkey, hedge, hcyc⟩

/-- ACYCLIC ⇒ NO CYCLE ERROR (segments): a segment reachable by several acyclic reference paths is
never reported as a cycle. -/
theorem acyclic_no_segment_cycle_report (env : Env) (top : Flag)
    (hac : SegAcyclicFrom env.store top) :
    ∀ l ∈ (evaluate env top).logs, ∀ k, l.err.core ≠ .circularSegment k := by
  intro l hl k hk
  obtain ⟨f, a, hf, _, hedge, hcyc⟩ := circular_segment_report_sound env top l hl k hk
  exact hac k ⟨f, a, hf, hedge, hcyc⟩

/-! ### Audit #35: a reported cycle makes the WHOLE evaluation MALFORMED_FLAG -/

/-- If `Evaluate` logged a prerequisite-cycle or segment-cycle error anywhere (at any nesting
depth), the result of the whole call is the MALFORMED_FLAG error with no variation and a null value
(the induction over the nesting depth that `abort_propagates` left to the reader). -/
theorem cycle_report_implies_malformed (env : Env) (top : Flag)
    (h : ∃ l ∈ (evaluate env top).logs, ∃ k,
      l.err.core = .circularPrereq k ∨ l.err.core = .circularSegment k) :
    (evaluate env top).result.detail.reason.errorKind = some .malformedFlag ∧
    (evaluate env top).result.detail.reason.kind = .error ∧
    (evaluate env top).result.detail.index = none ∧
    (evaluate env top).result.detail.value = .null := by
  obtain ⟨l, hl, k, hk⟩ := h
  by_cases hctx : env.ctx = .invalid
  · have : (evaluate env top).logs = [] := by unfold evaluate; rw [hctx]
    rw [this] at hl; cases hl
  · generalize he : evalFlag (segFuel env.store) (flagFuel env.store) env top [] {} = r
    obtain ⟨out, st⟩ := r
    have hpost := (evalFlag_logsPost _ env top _ top [] {} out st .refl (OnPath.nil _ _ _) he).2
    rw [(evaluate_channels hctx he).2.1] at hl
    cases out with
    | oof =>
      rcases evaluate_valid top hctx he with ⟨d, ok, hd, _⟩ | ⟨_, ho⟩
      · cases hd
      · rw [terminates] at ho; cases ho
    | done d ok =>
      cases ok with
      | true =>
        rcases hpost d rfl l hl with h | h
        · cases h
        · exfalso
          have h' : l.err.core.IsLeaf := h
          rcases hk with hk | hk <;> rw [hk] at h' <;> exact h'
      | false =>
        obtain ⟨h1, h2, h3, h4, _⟩ := abort_propagates_top hctx he
        exact ⟨h1, h2, h3, h4⟩

/-! ### The converse direction: an actual re-entry is reported, and nothing is evaluated twice

`Calls sf env c c'` (Proofs/AuditCycle.lean) is the call tree of the recursion: the call `c` (fuel,
flag, chain, entry state) evaluates the prerequisites listed before `p` — all met —, looks `p.key` up,
finds `pf`, whose key is not on `c`'s path, and makes the nested call `c'` on `pf`.  `Reenters` is
the same with `pf`'s key ON the path.  The walk from the root call is `ReflTransGen (Calls …)`. -/

/-- The call `Evaluate` starts with. -/
def rootCall (env : Env) (top : Flag) : Call := ⟨flagFuel env.store, top, [], {}⟩

/-- COMPLETENESS OF CYCLE DETECTION ALONG THE WALK.  If the walk from the root call reaches, at any
depth, a call that re-enters a key of its current path, then `Evaluate` returns MALFORMED_FLAG; the
lookup that found the flag already on the path is the LAST thing that happens (the re-entered flag
is not evaluated again, no later prerequisite of any frame is looked up, no event is appended for
any unfinished frame, no segment is looked at, no big-segment query is made), and with a logger the
last line names the dependent flag and the re-entered key. -/
theorem reentry_reported {env : Env} {top : Flag} (hctx : env.ctx ≠ .invalid) {c : Call}
    {p : Prereq} {pf : Flag} {st1 : St}
    (hwalk : ReflTransGen (Calls (segFuel env.store) env) (rootCall env top) c)
    (hre : Reenters (segFuel env.store) env c p pf st1) :
    ((evaluate env top).result.detail.reason.errorKind = some .malformedFlag ∧
     (evaluate env top).result.detail.reason.kind = .error ∧
     (evaluate env top).result.detail.index = none ∧
     (evaluate env top).result.detail.value = .null) ∧
    (evaluate env top).flagLookups = st1.flagLookups ++ [p.key] ∧
    (evaluate env top).events = st1.events ∧
    (evaluate env top).logs =
      (if env.opts.logger then st1.logs ++ [⟨c.flag.key, .circularPrereq pf.key⟩] else st1.logs) ∧
    (evaluate env top).segLookups = st1.segLookups ∧
    (evaluate env top).bsQueries = st1.bsQueries ∧
    (evaluate env top).memChecks = st1.memChecks := by
  obtain ⟨d0, st3, h3, hs⟩ := walk_abort_up hwalk hre.run_eq
  have h3' : evalFlag (segFuel env.store) (flagFuel env.store) env top [] {} =
      (.done d0 false, st3) := h3
  obtain ⟨r1, r2, r3, r4, _⟩ := abort_propagates_top hctx h3'
  obtain ⟨e1, e2, e3, e4, e5, e6⟩ := evaluate_channels hctx h3'
  obtain ⟨s1, s2, s3, s4, s5, s6⟩ := hs
  refine ⟨⟨r1, r2, r3, r4⟩, ?_, ?_, ?_, ?_, ?_, ?_⟩
  · rw [e3, s3, logErr_flagLookups]; rfl
  · rw [e1, s1, logErr_events]; rfl
  · rw [e2, s2]; unfold logErr; split <;> rfl
  · rw [e4, s4]; unfold logErr; split <;> rfl
  · rw [e5, s5]; unfold logErr; split <;> rfl
  · rw [e6, s6]; unfold logErr; split <;> rfl

/-- A re-entry met on the walk is a genuine re-entry of the graph (logger or no logger). -/
theorem reentry_is_cycle {env : Env} {top : Flag} {c : Call} {p : Prereq} {pf : Flag} {st1 : St}
    (hwalk : ReflTransGen (Calls (segFuel env.store) env) (rootCall env top) c)
    (hre : Reenters (segFuel env.store) env c p pf st1) :
    PrereqReentry env.store top c.flag.key pf.key := by
  obtain ⟨h1, h2, _, _⟩ := walk_invariant hwalk
  cases hre with
  | @mk n f chain st pre p post pf st1 hon hps hpre hfind hc =>
    have hmem : pf.key ∈ chain ++ [f.key] := by simpa using hc
    obtain ⟨g, hg, hgf, hk⟩ := (h2.self h1) _ hmem
    exact ⟨g, f, pf, hg, hgf, ⟨p, by rw [hps]; simp, hfind⟩, hk, rfl, rfl⟩

/-- ACYCLIC ⇒ the walk never takes the cycle branch — with or without a logger. -/
theorem acyclic_never_reenters {env : Env} {top : Flag} (hac : PrereqAcyclicFrom env.store top)
    {c : Call} (hwalk : ReflTransGen (Calls (segFuel env.store) env) (rootCall env top) c)
    (p : Prereq) (pf : Flag) (st1 : St) : ¬ Reenters (segFuel env.store) env c p pf st1 :=
  fun hre => hac _ (reentry_is_cycle hwalk hre).cycleAt

/-! ### Audit #34 (diamonds) and #36 (depth): "evaluated normally on each path", at any depth -/

/-- DIAMONDS ARE EVALUATED NORMALLY.  With an acyclic prerequisite graph, every nested call the walk
makes — on whichever of several paths, at whatever depth, with whatever chain — returns exactly what
the same flag returns standing alone (empty chain) from the same entry state: the same detail, the
same `ok`, the same events, lookups, log lines, queries and status. -/
theorem acyclic_call_standalone {env : Env} {top : Flag} (hac : PrereqAcyclicFrom env.store top)
    {c : Call} (hwalk : ReflTransGen (Calls (segFuel env.store) env) (rootCall env top) c) :
    c.run (segFuel env.store) env = evalFlag (segFuel env.store) c.fuel env c.flag [] c.st :=
  evalFlag_acyclic_standalone _ env hac _ _ (walk_invariant hwalk).2.1

/-- DEPTH INDEPENDENCE ("beyond 20 levels").  Nothing in the model counts levels or holds the path in
a bounded buffer; the content of that remark is this theorem: prefixing the chain by ANY list `c` of
keys — of any length — that are not keys of flags below `f` changes nothing at all in the
evaluation of `f`.  So what a flag evaluates to at depth `|c|` is what the recursion gives at depth
0. -/
theorem depth_independent (env : Env) (n : Nat) (f : Flag) (c path : List String) (st : St)
    (hc : ∀ h, TransGen (PrereqEdge env.store) f h → h.key ∉ c) :
    evalFlag (segFuel env.store) n env f (c ++ path) st =
      evalFlag (segFuel env.store) n env f path st :=
  evalFlag_chain_irrelevant _ env n f c path st hc

/-- The shape of the walk at any depth: the flag is reachable from the evaluated flag, the chain is
a path of the graph leading to it (`OnPath`), no key occurs twice on `chain ++ [own key]`, and the
depth `|chain|` is exactly the fuel used — there is no other bound on it (in particular not 20).
The chain of a nested call is its parent's chain plus the parent's own key, whichever siblings were
evaluated before (`Calls.chain_eq`). -/
theorem walk_shape {env : Env} {top : Flag} {c : Call}
    (hwalk : ReflTransGen (Calls (segFuel env.store) env) (rootCall env top) c) :
    PrereqReach env.store top c.flag ∧ OnPath env.store top c.chain c.flag ∧
    (c.chain ++ [c.flag.key]).Nodup ∧ c.fuel + c.chain.length = flagFuel env.store :=
  walk_invariant hwalk

/-! ### Non-vacuity of the statements above -/

namespace Ex

def rank (k : String) : Nat :=
  if k = "top" then 3 else if k = "a" then 2 else if k = "b" then 2 else if k = "c" then 1 else 0

theorem find_a : env.store.findFlag "a" = some a := rfl
theorem find_b : env.store.findFlag "b" = some b := rfl
theorem find_c : env.store.findFlag "c" = some c := rfl

/-- The prerequisite diamond top → {a, b} → c is acyclic: the hypothesis of
`acyclic_no_prereq_cycle_report`, `acyclic_never_reenters`, `acyclic_call_standalone` holds for it. -/
theorem diamond_acyclic : PrereqAcyclicFrom env.store top := by
  apply prereqAcyclic_of_rank rank
  intro f g hf ⟨p, hp, hfind⟩
  have hst : env.store.flags.map (·.2) = [a, b, c] := rfl
  rw [hst] at hf
  simp only [List.mem_cons, List.not_mem_nil, or_false] at hf
  rcases hf with rfl | rfl | rfl | rfl
  · have : p = ⟨"a", 0⟩ ∨ p = ⟨"b", 0⟩ := by simpa [top, mkFlag] using hp
    rcases this with rfl | rfl
    · rw [find_a] at hfind; cases hfind; decide
    · rw [find_b] at hfind; cases hfind; decide
  · have : p = ⟨"c", 0⟩ := by simpa [a, mkFlag] using hp
    subst this
    rw [find_c] at hfind; cases hfind; decide
  · have : p = ⟨"c", 0⟩ := by simpa [b, mkFlag] using hp
    subst this
    rw [find_c] at hfind; cases hfind; decide
  · simp [c, mkFlag] at hp

/-- The theorem applied to the diamond. -/
example : ∀ l ∈ (evaluate env top).logs, ∀ k, l.err.core ≠ .circularPrereq k :=
  acyclic_no_prereq_cycle_report env top diamond_acyclic

/-- `depth_independent` with a chain prefix of 25 keys (deeper than 20): the only flag below `a`
is `c`, whose key is none of `d00 … d24`. -/
example (n : Nat) (path : List String) (st : St) :
    evalFlag (segFuel env.store) n env a (deepKeys ++ path) st =
      evalFlag (segFuel env.store) n env a path st := by
  apply depth_independent
  have hdesc : ∀ h, TransGen (PrereqEdge env.store) a h → h = c := by
    intro h hh
    induction hh with
    | single hb =>
      obtain ⟨p, hp, hfind⟩ := hb
      have : p = ⟨"c", 0⟩ := by simpa [a, mkFlag] using hp
      subst this
      rw [find_c] at hfind; cases hfind; rfl
    | tail _ hbc ih =>
      subst ih
      obtain ⟨p, hp, _⟩ := hbc
      simp [c, mkFlag] at hp
  intro h hh
  rw [hdesc h hh]
  decide

/-- The segment diamond s1 → {s2, s3} → s4 is acyclic (hypothesis of
`acyclic_no_segment_cycle_report`). -/
def segRank (k : String) : Nat :=
  if k = "s1" then 3 else if k = "s2" then 2 else if k = "s3" then 2 else if k = "s4" then 1 else 0

theorem find_s2 : diamondSegEnv.store.findSegment "s2" = some (mkSeg "s2" ["s4"]) := rfl
theorem find_s3 : diamondSegEnv.store.findSegment "s3" = some (mkSeg "s3" ["s4"]) := rfl
theorem find_s4 : diamondSegEnv.store.findSegment "s4" = some (mkSeg "s4" []) := rfl

theorem segment_diamond_acyclic : SegAcyclicFrom diamondSegEnv.store segFlag := by
  apply segAcyclic_of_rank segRank
  intro sa sb ha ⟨r, hr, cl, hcl, _, k, hk, hfind⟩
  have hst : diamondSegEnv.store.segments.map (·.2) =
      [mkSeg "s1" ["s2", "s3"], mkSeg "s2" ["s4"], mkSeg "s3" ["s4"], mkSeg "s4" []] := rfl
  rw [hst] at ha
  simp only [List.mem_cons, List.not_mem_nil, or_false] at ha
  rcases ha with rfl | rfl | rfl | rfl
  · have hr' : r = { clauses := [segClause ["s2", "s3"]] } := by simpa [mkSeg] using hr
    subst hr'
    have hcl' : cl = segClause ["s2", "s3"] := by simpa using hcl
    subst hcl'
    have : k = "s2" ∨ k = "s3" := by simpa [segClause] using hk
    rcases this with rfl | rfl
    · rw [find_s2] at hfind; cases hfind; decide
    · rw [find_s3] at hfind; cases hfind; decide
  · have hr' : r = { clauses := [segClause ["s4"]] } := by simpa [mkSeg] using hr
    subst hr'
    have hcl' : cl = segClause ["s4"] := by simpa using hcl
    subst hcl'
    have : k = "s4" := by simpa [segClause] using hk
    subst this
    rw [find_s4] at hfind; cases hfind; decide
  · have hr' : r = { clauses := [segClause ["s4"]] } := by simpa [mkSeg] using hr
    subst hr'
    have hcl' : cl = segClause ["s4"] := by simpa using hcl
    subst hcl'
    have : k = "s4" := by simpa [segClause] using hk
    subst this
    rw [find_s4] at hfind; cases hfind; decide
  · simp [mkSeg] at hr

/-- The hypothesis of `cycle_report_implies_malformed` holds for the segment cycle and for the
prerequisite cycle behind a healthy sibling. -/
example : ∃ l ∈ (evaluate cycleSegEnv segFlag).logs, ∃ k,
    l.err.core = .circularPrereq k ∨ l.err.core = .circularSegment k :=
  ⟨⟨"sf", .malformedSegment "s1" (.malformedSegment "s2" (.circularSegment "s1"))⟩,
    by rw [segment_cycle_is_malformed.2.2.2]; exact List.mem_singleton.mpr rfl, "s1", .inr rfl⟩

example : ∃ l ∈ (evaluate cycEnv mixed).logs, ∃ k,
    l.err.core = .circularPrereq k ∨ l.err.core = .circularSegment k :=
  ⟨⟨"y", .circularPrereq "x"⟩, by decide, "x", .inl rfl⟩

/-! The walk of `evaluate cycEnv mixed`: mixed evaluates its healthy first prerequisite `c`, then
calls x, x calls y, and y re-enters x. -/

theorem cyc_fuel : flagFuel cycEnv.store = 7 := by decide

/-- The state after `mixed`'s first prerequisite `c` has been evaluated and found met. -/
def stC : St :=
  (prereqLoop (evalFlag (segFuel cycEnv.store) 6 cycEnv) cycEnv mixed ["mixed"] [⟨"c", 0⟩] {}).2

theorem stC_ok : prereqLoop (evalFlag (segFuel cycEnv.store) 6 cycEnv) cycEnv mixed ["mixed"]
    [⟨"c", 0⟩] {} = (.ok, stC) := Prod.ext (by decide) rfl

def callX : Call := ⟨6, x, ["mixed"], lookedUp stC "x"⟩
def callY : Call := ⟨5, y, ["mixed", "x"], lookedUp (lookedUp stC "x") "y"⟩

theorem step1 : Calls (segFuel cycEnv.store) cycEnv ⟨7, mixed, [], {}⟩ callX :=
  Calls.mk (n := 6) (f := mixed) (chain := []) (st := {}) (pre := [⟨"c", 0⟩]) (p := ⟨"x", 0⟩)
    (post := [⟨"a", 0⟩]) (pf := x) (st1 := stC) rfl rfl stC_ok rfl (by decide)

theorem step2 : Calls (segFuel cycEnv.store) cycEnv callX callY :=
  Calls.mk (n := 5) (f := x) (chain := ["mixed"]) (st := lookedUp stC "x") (pre := [])
    (p := ⟨"y", 0⟩) (post := []) (pf := y) (st1 := lookedUp stC "x") rfl rfl rfl rfl (by decide)

/-- Hypotheses of `reentry_reported` / `reentry_is_cycle`, at depth 2 behind a completed sibling. -/
theorem mixed_walk :
    ReflTransGen (Calls (segFuel cycEnv.store) cycEnv) (rootCall cycEnv mixed) callY := by
  have : rootCall cycEnv mixed = ⟨7, mixed, [], {}⟩ := by unfold rootCall; rw [cyc_fuel]
  rw [this]
  exact (ReflTransGen.single step1).tail step2

theorem mixed_reenters : Reenters (segFuel cycEnv.store) cycEnv callY ⟨"x", 0⟩ x callY.st :=
  Reenters.mk (n := 4) (f := y) (chain := ["mixed", "x"]) (st := callY.st) (pre := [])
    (p := ⟨"x", 0⟩) (post := []) (pf := x) (st1 := callY.st) rfl rfl rfl rfl (by decide)

example : (evaluate cycEnv mixed).flagLookups = callY.st.flagLookups ++ ["x"] ∧
    (evaluate cycEnv mixed).events = callY.st.events :=
  let h := reentry_reported (by show Ctx.single _ ≠ .invalid; intro h; cases h) mixed_walk mixed_reenters
  ⟨h.2.1, h.2.2.1⟩

/-! A cycle entered 25 levels down (beyond 20): top → d00 → … → d24 → d10. -/
def deepCycFlags : List Flag :=
  List.zipWith (fun k nxt => mkFlag k [⟨nxt, 0⟩]) deepKeys (deepKeys.drop 1) ++
    [mkFlag "d24" [⟨"d10", 0⟩]]
def deepCycEnv : Env :=
  { opts := { logger := true }, store := Store.ofLists deepCycFlags [], bs := none, ctx := ctx,
    rx := fun _ _ => none }

theorem deep_cycle_is_malformed :
    (evaluate deepCycEnv (mkFlag "top" [⟨"d00", 0⟩])).outcome = .done ∧
    (evaluate deepCycEnv (mkFlag "top" [⟨"d00", 0⟩])).result.detail.reason.errorKind =
      some .malformedFlag ∧
    (evaluate deepCycEnv (mkFlag "top" [⟨"d00", 0⟩])).events.length = 0 ∧
    (evaluate deepCycEnv (mkFlag "top" [⟨"d00", 0⟩])).flagLookups.length = 26 ∧
    (evaluate deepCycEnv (mkFlag "top" [⟨"d00", 0⟩])).logs = [⟨"d24", .circularPrereq "d10"⟩] := by
  decide

/-! A family of ARBITRARY depth (no `decide`): the linear chain over any duplicate-free key list. -/

/-- The flag with key `k` of a linear chain: its only prerequisite is the next key (if any). -/
def linFlag (k : String) (ks : List String) : Flag :=
  mkFlag k (match ks with | [] => [] | k' :: _ => [⟨k', 0⟩])

/-- The flags of the linear chain `k₀ → k₁ → … → kₙ`. -/
def linFlags : List String → List Flag
  | [] => []
  | k :: ks => linFlag k ks :: linFlags ks

def linEnv (ks : List String) : Env :=
  { opts := {}, store := Store.ofLists (linFlags ks) [], bs := none, ctx := ctx,
    rx := fun _ _ => none }

def okDetail : Detail := { value := .bool true, index := some 0, reason := .fallthrough }

theorem linFlag_body {rec : FlagRec} {sf : Nat} {env : Env} {k : String} {ks chain : List String}
    {st st1 : St} (h : checkPrereqs rec env (linFlag k ks) chain st = (.ok, st1)) :
    evalBody rec (segContains sf env) env (linFlag k ks) chain st = (.done okDetail true, st1) := by
  unfold evalBody
  rw [h]
  simp [linFlag, mkFlag, anyTargetMatch, rulesLoop, getValueForVR, variationOrRollout,
    getVariation, okDetail, Reason.fallthrough]

theorem lin_evalFlag (sf : Nat) (env : Env) :
    ∀ (ks : List String) (k : String) (n : Nat) (chain : List String) (st : St),
      (k :: ks).Nodup → (∀ x ∈ k :: ks, x ∉ chain) → ks.length < n →
      (∀ k1 suf, (k1 :: suf) <:+ ks → env.store.findFlag k1 = some (linFlag k1 suf)) →
      ∃ st', evalFlag sf n env (linFlag k ks) chain st = (.done okDetail true, st') ∧
        st'.flagLookups = st.flagLookups ++ ks ∧ st'.logs = st.logs := by
  intro ks
  induction ks with
  | nil =>
    intro k n chain st _ _ hn _
    obtain ⟨m, rfl⟩ : ∃ m, n = m + 1 := ⟨n - 1, by simp at hn; omega⟩
    refine ⟨st, ?_, by simp, rfl⟩
    show evalBody _ _ env (linFlag k []) chain st = _
    apply linFlag_body
    simp [checkPrereqs, linFlag, mkFlag]
  | cons k' ks ih =>
    intro k n chain st hnd hch hn hfind
    obtain ⟨m, rfl⟩ : ∃ m, n = m + 1 := ⟨n - 1, by simp at hn; omega⟩
    have hnd' : (k' :: ks).Nodup := (List.nodup_cons.mp hnd).2
    have hkne : ∀ x ∈ k' :: ks, x ≠ k := by
      intro x hx hxk; subst hxk; exact (List.nodup_cons.mp hnd).1 hx
    have hch' : ∀ x ∈ k' :: ks, x ∉ chain ++ [k] := by
      intro x hx hm
      rcases List.mem_append.mp hm with hm | hm
      · exact hch x (List.mem_cons_of_mem _ hx) hm
      · exact hkne x hx (List.mem_singleton.mp hm)
    obtain ⟨st2, hrun, hfl, hlg⟩ := ih k' m (chain ++ [k]) (lookedUp st k') hnd' hch'
      (by simp at hn; omega)
      (fun k1 suf hs => hfind k1 suf (hs.trans (List.suffix_cons _ _)))
    have hf : env.store.findFlag k' = some (linFlag k' ks) := hfind k' ks (List.suffix_refl _)
    have hc : (chain ++ [(linFlag k (k' :: ks)).key]).contains (linFlag k' ks).key = false := by
      have := hch' k' List.mem_cons_self
      simpa [linFlag, mkFlag] using this
    have hloop : checkPrereqs (evalFlag sf m env) env (linFlag k (k' :: ks)) chain st =
        (.ok, afterPrereq env (linFlag k (k' :: ks)) (linFlag k' ks) st.status okDetail st2) := by
      have hp : (linFlag k (k' :: ks)).prerequisites = [⟨k', 0⟩] := rfl
      rw [checkPrereqs, hp]
      simp only [List.isEmpty_cons, Bool.false_eq_true, if_false]
      rw [prereqLoop_done (p := ⟨k', 0⟩) hf hc hrun]
      simp [prereqMet, linFlag, mkFlag, okDetail, prereqLoop]
    refine ⟨_, linFlag_body hloop, ?_, ?_⟩
    · rw [afterPrereq_flagLookups, hfl]; simp [lookedUp]
    · have : (afterPrereq env (linFlag k (k' :: ks)) (linFlag k' ks) st.status okDetail st2).logs =
          st2.logs := by unfold afterPrereq; split <;> rfl
      rw [this, hlg]; rfl

theorem lin_findFlag : ∀ (l : List String), l.Nodup → ∀ k1 suf, (k1 :: suf) <:+ l →
    (Store.ofLists (linFlags l) []).findFlag k1 = some (linFlag k1 suf) := by
  intro l
  induction l with
  | nil => intro _ k1 suf h; simp at h
  | cons x xs ih =>
    intro hnd k1 suf hs
    rcases List.suffix_cons_iff.mp hs with h | h
    · cases h
      simp [Store.findFlag, Store.ofLists, linFlags, linFlag, mkFlag]
    · have hne : x ≠ k1 := by
        intro e; subst e
        exact (List.nodup_cons.mp hnd).1 (h.subset List.mem_cons_self)
      have := ih (List.nodup_cons.mp hnd).2 k1 suf h
      simp only [Store.findFlag, Store.ofLists, linFlags, List.map_cons] at this ⊢
      rw [List.find?_cons_of_neg (by simpa [linFlag, mkFlag] using hne)]
      exact this

theorem lin_keys : ∀ l : List String,
    (Store.ofLists (linFlags l) []).flags.map (·.2.key) = l := by
  intro l
  induction l with
  | nil => rfl
  | cons x xs ih =>
    simp only [Store.ofLists, linFlags, List.map_cons, List.map_map] at ih ⊢
    rw [ih]; rfl

/-- DEPTH-GENERIC INSTANCE: for EVERY duplicate-free list of keys `k :: ks` — of any length, in
particular longer than 20 — the linear prerequisite chain `k → ks₀ → ks₁ → …` evaluates normally:
fallthrough, variation 0, every link looked up exactly once and in order, nothing logged. -/
theorem linear_chain_any_depth (k : String) (ks : List String) (hnd : (k :: ks).Nodup) :
    (evaluate (linEnv (k :: ks)) (linFlag k ks)).outcome = .done ∧
    (evaluate (linEnv (k :: ks)) (linFlag k ks)).result.detail.index = some 0 ∧
    (evaluate (linEnv (k :: ks)) (linFlag k ks)).result.detail.reason.kind = .fallthrough ∧
    (evaluate (linEnv (k :: ks)) (linFlag k ks)).flagLookups = ks ∧
    (evaluate (linEnv (k :: ks)) (linFlag k ks)).logs = [] := by
  have hctx : (linEnv (k :: ks)).ctx ≠ .invalid := by
    show Ctx.single _ ≠ .invalid; intro h; cases h
  have hfuel : ks.length < flagFuel (linEnv (k :: ks)).store := by
    have h1 : (linEnv (k :: ks)).store.flags.map (·.2.key) = k :: ks := lin_keys (k :: ks)
    have h2 := nodup_length_le (L := ((linEnv (k :: ks)).store.flags.map (·.2.key)).eraseDups) hnd
      (fun x hx => List.mem_eraseDups.mpr (by rw [h1]; exact hx))
    unfold flagFuel distinctCount
    simp only [List.length_cons] at h2
    omega
  obtain ⟨st', hrun, hfl, hlg⟩ := lin_evalFlag (segFuel (linEnv (k :: ks)).store) (linEnv (k :: ks))
    ks k (flagFuel (linEnv (k :: ks)).store) [] {} hnd (by simp) hfuel
    (fun k1 suf hs => lin_findFlag (k :: ks) hnd k1 suf (hs.trans (List.suffix_cons _ _)))
  obtain ⟨_, e2, e3, _⟩ := evaluate_channels hctx hrun
  rcases evaluate_valid _ hctx hrun with ⟨d, ok, hd, ho, hdet⟩ | ⟨h, _⟩
  · cases hd
    refine ⟨ho, ?_, ?_, ?_, ?_⟩
    · rw [hdet]; cases st'.status <;> rfl
    · rw [hdet, withStatus_kind]; rfl
    · rw [e3, hfl]; rfl
    · rw [e2, hlg]
  · cases h

/-- The hypothesis is satisfiable beyond 20 levels: the 26 keys `top, d00, …, d24`. -/
example : (evaluate (linEnv ("top" :: deepKeys)) (linFlag "top" deepKeys)).flagLookups = deepKeys :=
  (linear_chain_any_depth "top" deepKeys (by decide)).2.2.2.1

end Ex

end LD.C10

#print axioms LD.C10.terminates
#print axioms LD.C10.segments_fuel_suffices
#print axioms LD.C10.flags_fuel_suffices
#print axioms LD.C10.segment_reentry_is_error
#print axioms LD.C10.segment_cycle_surfaces_as_malformed
#print axioms LD.C10.rule_error_aborts
#print axioms LD.C10.prereq_reentry_aborts
#print axioms LD.C10.abort_propagates
#print axioms LD.C10.abort_propagates_top
#print axioms LD.C10.no_false_cycle
#print axioms LD.C10.no_false_cycle_flag
#print axioms LD.C10.no_false_segment_cycle
#print axioms LD.C10.events_only_for_completed
#print axioms LD.C10.chain_is_path
#print axioms LD.C10.Ex.diamond_ok
#print axioms LD.C10.Ex.deep_diamond_ok
#print axioms LD.C10.Ex.cycle_behind_sibling
#print axioms LD.C10.Ex.segment_cycle_is_malformed
#print axioms LD.C10.evaluate_logs_ok
#print axioms LD.C10.circular_prereq_report_sound
#print axioms LD.C10.circular_prereq_report_cycle
#print axioms LD.C10.acyclic_no_prereq_cycle_report
#print axioms LD.C10.acyclic_keygraph_no_prereq_cycle_report
#print axioms LD.C10.acyclic_keygraphAll_no_prereq_cycle_report
#print axioms LD.C10.circular_segment_report_sound
#print axioms LD.C10.acyclic_no_segment_cycle_report
#print axioms LD.C10.cycle_report_implies_malformed
#print axioms LD.C10.reentry_reported
#print axioms LD.C10.reentry_is_cycle
#print axioms LD.C10.acyclic_never_reenters
#print axioms LD.C10.acyclic_call_standalone
#print axioms LD.C10.depth_independent
#print axioms LD.C10.walk_shape
#print axioms LD.C10.Ex.diamond_acyclic
#print axioms LD.C10.Ex.segment_diamond_acyclic
#print axioms LD.C10.Ex.mixed_walk
#print axioms LD.C10.Ex.mixed_reenters
#print axioms LD.C10.Ex.deep_cycle_is_malformed
#print axioms LD.C10.Ex.linear_chain_any_depth

/-
  C10 — Recursion safety: cycles are errors, shared acyclic references are not.

  "Evaluation terminates for every prerequisite graph and every segment-reference graph. If
  evaluation actually re-enters a flag (prerequisite cycle) or a segment (segment cycle) along the
  current reference path, the whole evaluation returns MALFORMED_FLAG (never a stack overflow, hang
  or other error kind) and no event is recorded for the unfinished evaluations; a flag or segment
  that is merely reachable by several different acyclic paths (diamonds), at any depth including
  beyond 20 levels, is evaluated normally on each path and is never reported as a cycle."

  The model has no recursion depth limit at all (the fuel is `#distinct keys + 2` and part 1 shows
  it is never exhausted), so "beyond 20 levels" needs no separate statement: nothing in the model
  counts levels, the only test made on the way down is `chain.contains key`.
-/
import LDEval.Proofs.Prereq

namespace LD.C10

/-! ## 1. Termination -/

/-- Evaluation terminates (the fuel handed out by `evaluate` is never exhausted), for every store,
i.e. for every prerequisite graph and every segment-reference graph, cyclic or not. -/
theorem terminates (env : Env) (f : Flag) : (evaluate env f).outcome = .done :=
  evaluate_total env f

/-- The segment fuel suffices: with a duplicate-free chain of OWN keys of stored segments and
`#distinct own segment keys + 1 ≤ fuel + |chain|`, `segContains` never runs out of fuel.  (The keys
under which the data provider hands the segments out play no role.) -/
theorem segments_fuel_suffices (env : Env) :
    ∀ n (s : Segment) (chain : List String) (st : St), chain.Nodup →
      (∀ k ∈ chain, k ∈ env.store.segments.map (·.2.key)) →
      s.key ∈ env.store.segments.map (·.2.key) →
      distinctCount (env.store.segments.map (·.2.key)) + 1 ≤ n + chain.length →
      (segContains n env s chain st).1 ≠ .oof :=
  segContains_no_oof env

/-- The flag fuel suffices (`root` is the key of the flag handed to `evaluate`, which need not be
in the store; the other keys are OWN keys of stored flags, whatever lookup keys they are filed
under). -/
theorem flags_fuel_suffices (env : Env) (root : String) :
    ∀ n (f : Flag) (chain : List String) (st : St), chain.Nodup → f.key ∉ chain →
      (∀ k ∈ chain ++ [f.key], k = root ∨ k ∈ env.store.flags.map (·.2.key)) →
      distinctCount (env.store.flags.map (·.2.key)) + 2 ≤ n + chain.length →
      (evalFlag (segFuel env.store) n env f chain st).1 ≠ .oof :=
  evalFlag_no_oof env root

/-! ## 2. Segment cycles -/

/-- Re-entering a segment that is on the current path is the segment-cycle error; the state is
untouched (nothing is looked up, queried or logged at that point). -/
theorem segment_reentry_is_error {rec : SegRec} {env : Env} {s : Segment} {chain : List String}
    {st : St} (h : chain.contains s.key = true) :
    segBody rec env s chain st = (.err (.circularSegment s.key), st) := by
  unfold segBody
  rw [if_pos h]

/-- Whatever error leaves a flag rule's clauses — in particular a segment cycle, which arrives
wrapped in `malformedSegment` — is of kind MALFORMED_FLAG (never EXCEPTION). -/
theorem segment_cycle_surfaces_as_malformed {n : Nat} {env : Env} {cs : List Clause} {st st' : St}
    {e : EvalErr}
    (h : clausesMatch (segContains n env) env [] cs st = (.err e, st')) :
    e.kind = .malformedFlag :=
  flag_clauses_err_kind h

/-- The rules before the failing one: each returns "no match"; the state is threaded through. -/
def skipRules (seg : SegRec) (env : Env) : List FlagRule → St → Option St
  | [], st => some st
  | r :: rs, st =>
    match clausesMatch seg env [] r.clauses st with
    | (.ok false, st1) => skipRules seg env rs st1
    | _ => none

/-- If the first rule whose clauses do not return "no match" returns an error, the rule loop aborts
the whole evaluation (`ok = false`) with MALFORMED_FLAG; later rules and the fallthrough are not
looked at. -/
theorem rule_error_aborts {n : Nat} {env : Env} {f : Flag} {e : EvalErr} :
    ∀ {pre : List FlagRule} {r : FlagRule} {post : List FlagRule} {i : Nat} {st st0 st1 : St},
      skipRules (segContains n env) env pre st = some st0 →
      clausesMatch (segContains n env) env [] r.clauses st0 = (.err e, st1) →
      rulesLoop (segContains n env) env f (pre ++ r :: post) i st =
        (.done (Detail.forError .malformedFlag) false, logErr env f.key e st1) := by
  intro pre
  induction pre with
  | nil =>
    intro r post i st st0 st1 hs he
    simp only [skipRules, Option.some.injEq] at hs
    subst hs
    simp only [List.nil_append, rulesLoop, he, flag_clauses_err_kind he]
  | cons r0 pre ih =>
    intro r post i st st0 st1 hs he
    simp only [skipRules] at hs
    split at hs
    · rename_i st' heq
      simp only [List.cons_append, rulesLoop, heq]
      exact ih hs he
    · cases hs

/-! ## 3. Prerequisite cycles -/

/-- Re-entering a flag that is on the current path aborts: the loop returns `malformed`, logs the
cycle, appends no event and does not look at the later prerequisites. -/
theorem prereq_reentry_aborts {rec : FlagRec} {env : Env} {f : Flag} {chain : List String}
    {p : Prereq} {ps : List Prereq} {st : St} {pf : Flag}
    (hfind : env.store.findFlag p.key = some pf) (hc : chain.contains pf.key = true) :
    prereqLoop rec env f chain (p :: ps) st =
      (.malformed, logErr env f.key (.circularPrereq pf.key)
        { st with flagLookups := st.flagLookups ++ [p.key] }) :=
  prereqLoop_cycle hfind hc

/-- … in particular the events are exactly those before, and exactly one more flag was looked up. -/
theorem prereq_reentry_side_effects {rec : FlagRec} {env : Env} {f : Flag} {chain : List String}
    {p : Prereq} {ps : List Prereq} {st : St} {pf : Flag}
    (hfind : env.store.findFlag p.key = some pf) (hc : chain.contains pf.key = true) :
    (prereqLoop rec env f chain (p :: ps) st).2.events = st.events ∧
    (prereqLoop rec env f chain (p :: ps) st).2.flagLookups = st.flagLookups ++ [p.key] := by
  rw [prereq_reentry_aborts hfind hc]
  exact ⟨logErr_events .., logErr_flagLookups ..⟩

/-! ## 4. An abort propagates to the top, with no event for the unfinished frames -/

/-- (a) If the nested evaluation of a prerequisite aborted (`ok = false`), the loop returns
`malformed`; the only change made to the nested call's final state is the status merge, so no
event is appended for the aborted frame and later prerequisites are not looked up. -/
theorem abort_propagates_loop {rec : FlagRec} {env : Env} {f : Flag} {chain : List String}
    {p : Prereq} {ps : List Prereq} {st st2 : St} {pf : Flag} {d : Detail}
    (hfind : env.store.findFlag p.key = some pf) (hc : chain.contains pf.key = false)
    (hrec : rec pf chain { st with flagLookups := st.flagLookups ++ [p.key] } = (.done d false, st2)) :
    prereqLoop rec env f chain (p :: ps) st =
      (.malformed, { st2 with status := updateStatus st.status st2.status }) ∧
    (prereqLoop rec env f chain (p :: ps) st).2.events = st2.events ∧
    (prereqLoop rec env f chain (p :: ps) st).2.flagLookups = st2.flagLookups := by
  have h : prereqLoop rec env f chain (p :: ps) st =
      (.malformed, { st2 with status := updateStatus st.status st2.status }) :=
    prereqLoop_abort hfind hc hrec
  rw [h]
  exact ⟨rfl, rfl, rfl⟩

/-- (b) A `malformed` prerequisite check makes the flag itself abort with MALFORMED_FLAG, in the
very state the check left (no off-value lookup, no log line, no event). -/
theorem abort_propagates_body {rec : FlagRec} {seg : SegRec} {env : Env} {f : Flag}
    {chain : List String} {st st1 : St} (hon : f.on = true)
    (h : checkPrereqs rec env f chain st = (.malformed, st1)) :
    evalBody rec seg env f chain st = (.done (Detail.forError .malformedFlag) false, st1) := by
  simp [evalBody, hon, h]

/-- (c) At the top: an aborted evaluation is reported as MALFORMED_FLAG, with no variation index
and a null value. -/
theorem abort_propagates_top {env : Env} {f : Flag} {d : Detail} {st : St}
    (hctx : env.ctx ≠ .invalid)
    (h : evalFlag (segFuel env.store) (flagFuel env.store) env f [] {} = (.done d false, st)) :
    (evaluate env f).result.detail.reason.errorKind = some .malformedFlag ∧
    (evaluate env f).result.detail.reason.kind = .error ∧
    (evaluate env f).result.detail.index = none ∧
    (evaluate env f).result.detail.value = .null ∧
    (evaluate env f).events = st.events := by
  obtain ⟨hr, hi, hv⟩ := abort_is_malformed h
  have hev : (evaluate env f).events = st.events := by
    unfold evaluate
    split
    · rename_i hc; exact absurd hc hctx
    · rw [h]
  rcases evaluate_valid f hctx h with ⟨d', ok', hd, _, hdet⟩ | ⟨ho, _⟩
  · cases hd
    rw [hdet]
    refine ⟨?_, ?_, ?_, ?_, hev⟩
    · rw [withStatus_errorKind, hr]; rfl
    · rw [withStatus_kind, hr]; rfl
    · cases st.status <;> exact hi
    · cases st.status <;> exact hv
  · cases ho

/-- The three parts together, under the name used in the property list. -/
theorem abort_propagates {rec : FlagRec} {seg : SegRec} {env : Env} {f : Flag}
    {chain : List String} :
    (∀ {p : Prereq} {ps : List Prereq} {st st2 : St} {pf : Flag} {d : Detail},
      env.store.findFlag p.key = some pf → chain.contains pf.key = false →
      rec pf chain { st with flagLookups := st.flagLookups ++ [p.key] } = (.done d false, st2) →
      (prereqLoop rec env f chain (p :: ps) st).1 = .malformed ∧
      (prereqLoop rec env f chain (p :: ps) st).2.events = st2.events) ∧
    (∀ {st st1 : St}, f.on = true → checkPrereqs rec env f chain st = (.malformed, st1) →
      evalBody rec seg env f chain st = (.done (Detail.forError .malformedFlag) false, st1)) ∧
    (∀ {d : Detail} {st : St}, env.ctx ≠ .invalid →
      evalFlag (segFuel env.store) (flagFuel env.store) env f [] {} = (.done d false, st) →
      (evaluate env f).result.detail.reason.errorKind = some .malformedFlag ∧
      (evaluate env f).result.detail.index = none ∧
      (evaluate env f).result.detail.value = .null) := by
  refine ⟨?_, ?_, ?_⟩
  · intro p ps st st2 pf d hfind hc hrec
    obtain ⟨h1, h2, _⟩ := abort_propagates_loop (f := f) (ps := ps) hfind hc hrec
    exact ⟨by rw [h1], h2⟩
  · intro st st1 hon h
    exact abort_propagates_body hon h
  · intro d st hctx h
    obtain ⟨h1, _, h3, h4, _⟩ := abort_propagates_top hctx h
    exact ⟨h1, h3, h4⟩

/-! ## 5. No false cycles -/

/-- The prerequisite loop reports `malformed` only because of some listed prerequisite `p` whose
flag `pf` EITHER is on the current path (`chain.contains pf.key`: a genuine re-entry) OR whose own
nested evaluation aborted.  A flag that is not on the current path is therefore never reported as
a cycle, however many times it has been evaluated on other paths (diamonds). -/
theorem no_false_cycle {rec : FlagRec} {env : Env} {f : Flag} {chain : List String} :
    ∀ {ps : List Prereq} {st st' : St},
      prereqLoop rec env f chain ps st = (.malformed, st') →
      ∃ pre p post pf, ps = pre ++ p :: post ∧ env.store.findFlag p.key = some pf ∧
        (chain.contains pf.key = true ∨
          ∃ stA d stB, rec pf chain stA = (.done d false, stB)) := by
  intro ps
  induction ps with
  | nil => intro st st' h; simp [prereqLoop] at h
  | cons p ps ih =>
    intro st st' h
    unfold prereqLoop at h
    simp only at h
    split at h
    · cases h
    · rename_i pf hfind
      split at h
      · rename_i hc
        exact ⟨[], p, ps, pf, rfl, hfind, .inl hc⟩
      · split at h
        · cases h
        · rename_i d ok st2 heq
          split at h
          · rename_i hok
            have : ok = false := by simpa using hok
            subst this
            exact ⟨[], p, ps, pf, rfl, hfind, .inr ⟨_, d, st2, heq⟩⟩
          · split at h
            · cases h
            · obtain ⟨pre, q, post, qf, hps, hq, hcase⟩ := ih h
              exact ⟨p :: pre, q, post, qf, by rw [hps]; rfl, hq, hcase⟩

/-- The chain handed to the nested evaluations of `f`'s prerequisites is the chain `f` itself was
entered with plus `f.key` — i.e. exactly the current path. -/
theorem checkPrereqs_chain {rec : FlagRec} {env : Env} {f : Flag} {chain : List String} {st : St}
    (h : f.prerequisites ≠ []) :
    checkPrereqs rec env f chain st = prereqLoop rec env f (chain ++ [f.key]) f.prerequisites st := by
  unfold checkPrereqs
  cases hp : f.prerequisites with
  | nil => exact absurd hp h
  | cons p ps => rfl

/-- Flag level: `malformed` out of `checkPrereqs` means a prerequisite of `f` is `f` itself or one of
its ancestors on the current path, or a nested evaluation aborted. -/
theorem no_false_cycle_flag {rec : FlagRec} {env : Env} {f : Flag} {chain : List String}
    {st st' : St} (h : checkPrereqs rec env f chain st = (.malformed, st')) :
    ∃ p pf, p ∈ f.prerequisites ∧ env.store.findFlag p.key = some pf ∧
      (pf.key = f.key ∨ pf.key ∈ chain ∨
        ∃ stA d stB, rec pf (chain ++ [f.key]) stA = (.done d false, stB)) := by
  unfold checkPrereqs at h
  split at h
  · cases h
  · obtain ⟨pre, p, post, pf, hps, hfind, hcase⟩ := no_false_cycle h
    refine ⟨p, pf, by rw [hps]; simp, hfind, ?_⟩
    rcases hcase with hc | hab
    · have : pf.key ∈ chain ++ [f.key] := by simpa using hc
      rcases List.mem_append.mp this with h1 | h1
      · exact .inr (.inl h1)
      · exact .inl (by simpa using h1)
    · exact .inr (.inr hab)

/-- Segments: the bare cycle error for key `k` leaves `segBody` only for the segment itself and
only if its key is on the current path (errors from deeper levels arrive wrapped in
`malformedSegment`, see `segBody_err`). -/
theorem no_false_segment_cycle {rec : SegRec} {env : Env} {s : Segment} {chain : List String}
    {st st' : St} {k : String}
    (h : segBody rec env s chain st = (.err (.circularSegment k), st')) :
    k = s.key ∧ chain.contains s.key = true := by
  have hk : k = s.key := by
    rcases segBody_err h with h1 | ⟨e', h1⟩
    · cases h1; rfl
    · cases h1
  refine ⟨hk, ?_⟩
  cases hc : chain.contains s.key with
  | true => rfl
  | false =>
    exfalso
    unfold segBody at h
    rw [hc] at h
    simp only [Bool.false_eq_true, if_false] at h
    split at h
    · split at h
      · cases h
      · split at h
        · cases h
        · split at h
          · obtain ⟨e', he'⟩ := segRules_err h; cases he'
          · split at h
            · cases h
            · obtain ⟨e', he'⟩ := segRules_err h; cases he'
    · split at h
      · cases h
      · obtain ⟨e', he'⟩ := segRules_err h; cases he'

/-- A segment whose key is not on the current path never yields the bare cycle error. -/
theorem segment_not_on_path_no_cycle_error {rec : SegRec} {env : Env} {s : Segment}
    {chain : List String} {st : St} (hc : chain.contains s.key = false) (k : String) (st' : St) :
    segBody rec env s chain st ≠ (.err (.circularSegment k), st') := by
  intro h
  have := (no_false_segment_cycle h).2
  rw [hc] at this
  cases this

/-- In a whole evaluation, every recorded event belongs to a COMPLETED evaluation of a store flag:
the event names (by its OWN key) a flag `pf` that the store returns for some lookup key `k` — the
key a dependent flag lists; the data provider need not file `pf` under its own key — and its detail
is what that flag evaluates to on its own with `ok = true`.  Hence nothing is ever recorded for an
evaluation that was cut short by a cycle (or by any other abort). -/
theorem events_only_for_completed (env : Env) (top : Flag) :
    ∀ e ∈ (evaluate env top).events, ∃ k pf,
      env.store.findFlag k = some pf ∧ e.prereqKey = pf.key ∧
      Spec.evalFlag (segFuel env.store) (flagFuel env.store) env pf [] =
        some (e.result.detail, true) := by
  intro e he
  obtain ⟨f, pf, p, d, _, _, hfind, rfl, hs⟩ := evaluate_events_ok env top e he
  exact ⟨p.key, pf, hfind, rfl, hs⟩

/-- The same for a store that files every flag under its own key: the event's key IS the lookup
key. -/
theorem events_only_for_completed_consistent (env : Env) (top : Flag)
    (hst : StoreConsistent env.store) :
    ∀ e ∈ (evaluate env top).events, ∃ pf,
      env.store.findFlag e.prereqKey = some pf ∧
      Spec.evalFlag (segFuel env.store) (flagFuel env.store) env pf [] =
        some (e.result.detail, true) := by
  intro e he
  obtain ⟨k, pf, hfind, hk, hs⟩ := events_only_for_completed env top e he
  refine ⟨pf, ?_, hs⟩
  rw [hk, findFlag_key_consistent hst hfind]; exact hfind

/-! ## 6. Diamonds -/

/-- Siblings receive the SAME chain: after a met prerequisite the loop goes on with the unchanged
`chain` (it is extended only on the way down, by `checkPrereqs`, never across siblings), so a flag
evaluated under one sibling is not on the path of the next. -/
theorem chain_is_path {rec : FlagRec} {env : Env} {f : Flag} {chain : List String}
    {p : Prereq} {ps : List Prereq} {st st2 : St} {pf : Flag} {d : Detail}
    (hfind : env.store.findFlag p.key = some pf) (hc : chain.contains pf.key = false)
    (hrec : rec pf chain { st with flagLookups := st.flagLookups ++ [p.key] } = (.done d true, st2))
    (hmet : (pf.on && d.index.isSome && d.index == some p.variation) = true) :
    prereqLoop rec env f chain (p :: ps) st =
      prereqLoop rec env f chain ps (afterPrereq env f pf st.status d st2) := by
  rw [prereqLoop_done hfind hc hrec]
  unfold prereqMet
  rw [if_pos hmet]

/-! ## 7. Concrete instances (kernel-evaluated with `decide`): the statements are not vacuous -/

namespace Ex

def ctx : Ctx := .single { kind := "user", key := "u" }

/-- A flag that is on, serves variation 0 on fallthrough, with the given prerequisites. -/
def mkFlag (key : String) (prs : List Prereq) : Flag :=
  { key := key, on := true, prerequisites := prs, fallthrough := { variation := some 0 },
    variations := [.bool true] }

/-! Prerequisite diamond: top → {a, b}, a → c, b → c. -/
def c := mkFlag "c" []
def a := mkFlag "a" [⟨"c", 0⟩]
def b := mkFlag "b" [⟨"c", 0⟩]
def top := mkFlag "top" [⟨"a", 0⟩, ⟨"b", 0⟩]
def env : Env :=
  { opts := {}, store := Store.ofLists [a, b, c] [], bs := none, ctx := ctx, rx := fun _ _ => none }

/-- The Spec evaluates the diamond to variation 0, FALLTHROUGH, not aborted. -/
theorem diamond_ok :
    (Spec.evalFlag (segFuel env.store) 5 env top []).map
        (fun r => (r.1.index, r.1.reason.kind, r.1.reason.errorKind, r.2)) =
      some (some 0, .fallthrough, none, true) := by decide

/-- The model evaluates `c` once on each path (two lookups, two events) and reports no cycle. -/
theorem diamond_ok_model :
    (evaluate env top).result.detail.index = some 0 ∧
    (evaluate env top).result.detail.reason.kind = .fallthrough ∧
    (evaluate env top).flagLookups = ["a", "c", "b", "c"] ∧
    (evaluate env top).events.map (fun e => (e.targetKey, e.prereqKey)) =
      [("a", "c"), ("top", "a"), ("b", "c"), ("top", "b")] := by decide

/-! Beyond 20 levels: top → d00 → d01 → … → d24 and top → d10 (a second, shared, path into the
same chain). -/
def deepKeys : List String := ["d00", "d01", "d02", "d03", "d04", "d05", "d06", "d07", "d08", "d09", "d10", "d11", "d12", "d13", "d14", "d15", "d16", "d17", "d18", "d19", "d20", "d21", "d22", "d23", "d24"]
def deepFlags : List Flag :=
  List.zipWith (fun k nxt => mkFlag k [⟨nxt, 0⟩]) deepKeys (deepKeys.drop 1) ++ [mkFlag "d24" []]
def deepEnv : Env :=
  { opts := {}, store := Store.ofLists deepFlags [], bs := none, ctx := ctx, rx := fun _ _ => none }
def deepTop : Flag := mkFlag "top" [⟨"d00", 0⟩, ⟨"d10", 0⟩]

theorem deep_diamond_ok :
    (evaluate deepEnv deepTop).outcome = .done ∧
    (evaluate deepEnv deepTop).result.detail.index = some 0 ∧
    (evaluate deepEnv deepTop).result.detail.reason.kind = .fallthrough ∧
    (evaluate deepEnv deepTop).events.length = 40 := by decide

/-! Prerequisite cycles: x → y → x, a self-loop, and a cycle behind a healthy sibling. -/
def x := mkFlag "x" [⟨"y", 0⟩]
def y := mkFlag "y" [⟨"x", 0⟩]
def selfish := mkFlag "selfish" [⟨"selfish", 0⟩]
def mixed := mkFlag "mixed" [⟨"c", 0⟩, ⟨"x", 0⟩, ⟨"a", 0⟩]
def cycEnv : Env :=
  { opts := { logger := true }, store := Store.ofLists [a, c, x, y, selfish] [], bs := none, ctx := ctx,
    rx := fun _ _ => none }

theorem cycle_is_malformed :
    (evaluate cycEnv x).outcome = .done ∧
    (evaluate cycEnv x).result.detail.reason.errorKind = some .malformedFlag ∧
    (evaluate cycEnv x).result.detail.index = none ∧
    (evaluate cycEnv x).events.length = 0 ∧
    (evaluate cycEnv x).logs = [⟨"y", .circularPrereq "x"⟩] := by decide

theorem self_loop_is_malformed :
    (evaluate cycEnv selfish).result.detail.reason.errorKind = some .malformedFlag ∧
    (evaluate cycEnv selfish).events.length = 0 ∧
    (evaluate cycEnv selfish).flagLookups = ["selfish"] := by decide

/-- The completed sibling `c` keeps its event; the unfinished `x`, `y` and the never reached `a`
get none. -/
theorem cycle_behind_sibling :
    (evaluate cycEnv mixed).result.detail.reason.errorKind = some .malformedFlag ∧
    (evaluate cycEnv mixed).events.map (fun e => (e.targetKey, e.prereqKey)) = [("mixed", "c")] ∧
    (evaluate cycEnv mixed).flagLookups = ["c", "x", "y", "x"] := by decide

/-! Segments: a diamond s1 → {s2, s3} → s4 and a cycle s1 → s2 → s1, referenced from a flag rule. -/
def segClause (ks : List String) : Clause := { op := "segmentMatch", values := ks.map .str }
def mkSeg (key : String) (refs : List String) : Segment :=
  { key := key, rules := if refs.isEmpty then [] else [{ clauses := [segClause refs] }] }
def segFlag : Flag :=
  { key := "sf", on := true,
    rules := [{ clauses := [segClause ["s1"]], vr := { variation := some 1 } }],
    fallthrough := { variation := some 0 }, variations := [.bool false, .bool true] }
def diamondSegEnv : Env :=
  { opts := {},
    store := Store.ofLists [] [mkSeg "s1" ["s2", "s3"], mkSeg "s2" ["s4"], mkSeg "s3" ["s4"],
                               mkSeg "s4" []],
    bs := none, ctx := ctx, rx := fun _ _ => none }
def cycleSegEnv : Env :=
  { opts := { logger := true }, store := Store.ofLists [] [mkSeg "s1" ["s2"], mkSeg "s2" ["s1"]],
    bs := none, ctx := ctx, rx := fun _ _ => none }

/-- `s4` is reached on both paths and evaluated on each; no error. -/
theorem segment_diamond_ok :
    (evaluate diamondSegEnv segFlag).result.detail.index = some 0 ∧
    (evaluate diamondSegEnv segFlag).result.detail.reason.kind = .fallthrough ∧
    (evaluate diamondSegEnv segFlag).segLookups = ["s1", "s2", "s4", "s3", "s4"] := by decide

/-- The segment cycle surfaces as MALFORMED_FLAG (not EXCEPTION), logged as the wrapped error. -/
theorem segment_cycle_is_malformed :
    (evaluate cycleSegEnv segFlag).outcome = .done ∧
    (evaluate cycleSegEnv segFlag).result.detail.reason.errorKind = some .malformedFlag ∧
    (evaluate cycleSegEnv segFlag).result.detail.index = none ∧
    (evaluate cycleSegEnv segFlag).logs =
      [⟨"sf", .malformedSegment "s1" (.malformedSegment "s2" (.circularSegment "s1"))⟩] := by
  decide

/-! An INCONSISTENT data provider: asked for `"gate"` it returns a flag whose own key is
`"gate-v2"`, and that flag lists `"gate"` as a prerequisite.  The path is built from OWN keys
(`feature`, `gate-v2`), so the second lookup of `"gate"` returns a flag that is already on the path:
the evaluation ends there with MALFORMED_FLAG instead of descending for ever. -/
def gateV2 : Flag := mkFlag "gate-v2" [⟨"gate", 0⟩]
def feature : Flag := mkFlag "feature" [⟨"gate", 0⟩]
def aliasEnv : Env :=
  { opts := { logger := true }, store := { flags := [("gate", gateV2)] }, bs := none, ctx := ctx,
    rx := fun _ _ => none }

example : ¬ StoreConsistent aliasEnv.store := by
  intro h
  have := h.1 ("gate", gateV2) (by simp [aliasEnv])
  revert this
  decide

example :
    (evaluate aliasEnv feature).outcome = .done ∧
    (evaluate aliasEnv feature).result.detail.reason.kind = .error ∧
    (evaluate aliasEnv feature).result.detail.reason.errorKind = some .malformedFlag ∧
    (evaluate aliasEnv feature).result.detail.index = none ∧
    (evaluate aliasEnv feature).flagLookups = ["gate", "gate"] ∧
    (evaluate aliasEnv feature).events.length = 0 ∧
    (evaluate aliasEnv feature).logs = [⟨"gate-v2", .circularPrereq "gate-v2"⟩] := by decide

end Ex

end LD.C10

#print axioms LD.C10.terminates
#print axioms LD.C10.segments_fuel_suffices
#print axioms LD.C10.flags_fuel_suffices
#print axioms LD.C10.segment_reentry_is_error
#print axioms LD.C10.segment_cycle_surfaces_as_malformed
#print axioms LD.C10.rule_error_aborts
#print axioms LD.C10.prereq_reentry_aborts
#print axioms LD.C10.abort_propagates
#print axioms LD.C10.abort_propagates_top
#print axioms LD.C10.no_false_cycle
#print axioms LD.C10.no_false_cycle_flag
#print axioms LD.C10.no_false_segment_cycle
#print axioms LD.C10.events_only_for_completed
#print axioms LD.C10.chain_is_path
#print axioms LD.C10.Ex.diamond_ok
#print axioms LD.C10.Ex.deep_diamond_ok
#print axioms LD.C10.Ex.cycle_behind_sibling
#print axioms LD.C10.Ex.segment_cycle_is_malformed

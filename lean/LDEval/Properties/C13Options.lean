/-
  C13 (construction) — `NewEvaluatorWithOptions(dataProvider, options...)` applies the options in
  order, skips nil entries, and every option kind assigns one field of the evaluator.  Hence:

  (a) nil entries can be removed without changing the result (`applyOptions_filter_nil`,
      `applyOptions_insert_nil`);
  (b) the result depends only on the last option of each kind (`applyOptions_eq_last`,
      `applyOptions_depends_only_on_last`); appending an option of kind `k` overrides whatever the
      list set for `k` and leaves the other kinds unchanged (`applyOptions_append_*`,
      `applyOptions_append_overrides`);
  (c) options of different kinds commute (`applyOptions_swap`);
  (d) the empty list gives the default configuration: no provider, no logger, secondary key
      disabled (`applyOptions_nil`).

  The evaluator shared by concurrent `Evaluate` calls (C13.lean: everything but the per-call state
  is read-only) is the value constructed here; nothing is assigned after construction.
-/
import LDEval.Model.Options

namespace LD.C13

variable {P L : Type}

/-! ### Basic unfolding -/

theorem applyOptionsFrom_nil (c : Config P L) : applyOptionsFrom c [] = c := rfl

theorem applyOptionsFrom_cons (c : Config P L) (o : Option (EvalOption P L))
    (os : List (Option (EvalOption P L))) :
    applyOptionsFrom c (o :: os) = applyOptionsFrom (applyEntry c o) os := rfl

theorem applyOptionsFrom_append (c : Config P L) (os₁ os₂ : List (Option (EvalOption P L))) :
    applyOptionsFrom c (os₁ ++ os₂) = applyOptionsFrom (applyOptionsFrom c os₁) os₂ := by
  simp [applyOptionsFrom, List.foldl_append]

theorem applyOptions_append (os₁ os₂ : List (Option (EvalOption P L))) :
    applyOptions (os₁ ++ os₂) = applyOptionsFrom (applyOptions os₁) os₂ :=
  applyOptionsFrom_append _ _ _

/-- Appending one entry = one more loop iteration. -/
theorem applyOptions_concat (os : List (Option (EvalOption P L))) (o : Option (EvalOption P L)) :
    applyOptions (os ++ [o]) = applyEntry (applyOptions os) o := by
  rw [applyOptions_append]; rfl

/-! ### (d) The empty list: the default configuration -/

theorem applyOptions_nil :
    (applyOptions [] : Config P L) =
      { bigSegmentProvider := none, errorLogger := none, enableSecondaryKey := false } := rfl

theorem newEvaluatorConfig_eq :
    (newEvaluatorConfig : Config P L) =
      { bigSegmentProvider := none, errorLogger := none, enableSecondaryKey := false } := rfl

/-- In the evaluator model: no provider, no logger, secondary key disabled. -/
theorem applyOptions_nil_model {L : Type} :
    (applyOptions [] : Config BSProvider L).bs = none ∧
    ((applyOptions [] : Config BSProvider L).opts).logger = false ∧
    ((applyOptions [] : Config BSProvider L).opts).secondaryKey = false :=
  ⟨rfl, rfl, rfl⟩

/-! ### (a) nil entries change nothing -/

theorem applyEntry_nil (c : Config P L) : applyEntry c nilOption = c := rfl

theorem applyOptionsFrom_filter_nil (c : Config P L) (os : List (Option (EvalOption P L))) :
    applyOptionsFrom c (os.filter (·.isSome)) = applyOptionsFrom c os := by
  induction os generalizing c with
  | nil => rfl
  | cons o os ih =>
    cases o with
    | none => simpa [applyOptionsFrom_cons, applyEntry] using ih c
    | some o => simpa [applyOptionsFrom_cons] using ih _

/-- Removing all nil entries does not change the result. -/
theorem applyOptions_filter_nil (os : List (Option (EvalOption P L))) :
    applyOptions (os.filter (·.isSome)) = applyOptions os :=
  applyOptionsFrom_filter_nil _ _

/-- Removing (or inserting) a single nil entry anywhere does not change the result. -/
theorem applyOptions_insert_nil (os₁ os₂ : List (Option (EvalOption P L))) :
    applyOptions (os₁ ++ nilOption :: os₂) = applyOptions (os₁ ++ os₂) := by
  rw [applyOptions_append, applyOptions_append, applyOptionsFrom_cons, applyEntry_nil]

/-- The loop over the non-nil options only. -/
theorem applyOptions_filterMap (os : List (Option (EvalOption P L))) :
    applyOptions os = (os.filterMap id).foldl EvalOption.apply {} := by
  unfold applyOptions applyOptionsFrom
  generalize ({} : Config P L) = c
  induction os generalizing c with
  | nil => rfl
  | cons o os ih =>
    cases o with
    | none => simpa [applyEntry] using ih c
    | some o => simpa [applyEntry] using ih _

/-! ### (b) The last option of each kind decides -/

/-- Appending a big-segment-provider option overrides the provider and nothing else. -/
theorem applyOptions_append_bigSegments (os : List (Option (EvalOption P L))) (p : Option P) :
    applyOptions (os ++ [some (.bigSegments p)]) =
      { applyOptions os with bigSegmentProvider := p } := by
  rw [applyOptions_concat]; rfl

/-- Appending an error-logger option overrides the logger and nothing else. -/
theorem applyOptions_append_errorLogger (os : List (Option (EvalOption P L))) (l : Option L) :
    applyOptions (os ++ [some (.errorLogger l)]) =
      { applyOptions os with errorLogger := l } := by
  rw [applyOptions_concat]; rfl

/-- Appending an enable-secondary-key option overrides that flag and nothing else. -/
theorem applyOptions_append_enableSecondaryKey (os : List (Option (EvalOption P L))) (b : Bool) :
    applyOptions (os ++ [some (.enableSecondaryKey b)]) =
      { applyOptions os with enableSecondaryKey := b } := by
  rw [applyOptions_concat]; rfl

/-- The same in one statement: an appended option of kind `k` determines the field of kind `k`
whatever the list was (any two lists give the same field), and the fields of the other kinds are
those of the list. -/
theorem applyOptions_append_overrides (os os' : List (Option (EvalOption P L)))
    (o : EvalOption P L) :
    let c := applyOptions (os ++ [some o])
    let c' := applyOptions (os' ++ [some o])
    (o.kind = .bigSegments → c.bigSegmentProvider = c'.bigSegmentProvider) ∧
    (o.kind = .errorLogger → c.errorLogger = c'.errorLogger) ∧
    (o.kind = .enableSecondaryKey → c.enableSecondaryKey = c'.enableSecondaryKey) ∧
    (o.kind ≠ .bigSegments → c.bigSegmentProvider = (applyOptions os).bigSegmentProvider) ∧
    (o.kind ≠ .errorLogger → c.errorLogger = (applyOptions os).errorLogger) ∧
    (o.kind ≠ .enableSecondaryKey → c.enableSecondaryKey = (applyOptions os).enableSecondaryKey) := by
  simp only [applyOptions_concat]
  cases o <;> simp [applyEntry, EvalOption.apply, EvalOption.kind]

theorem lastBigSegments_concat (os : List (Option (EvalOption P L)))
    (o : Option (EvalOption P L)) :
    lastBigSegments (os ++ [o]) =
      match o with
      | some (.bigSegments p) => some p
      | _ => lastBigSegments os := by
  induction os with
  | nil => cases o with
    | none => rfl
    | some o => cases o <;> rfl
  | cons x xs ih =>
    simp only [List.cons_append, lastBigSegments, ih]
    cases o with
    | none => rfl
    | some o => cases o <;> rfl

theorem lastErrorLogger_concat (os : List (Option (EvalOption P L)))
    (o : Option (EvalOption P L)) :
    lastErrorLogger (os ++ [o]) =
      match o with
      | some (.errorLogger l) => some l
      | _ => lastErrorLogger os := by
  induction os with
  | nil => cases o with
    | none => rfl
    | some o => cases o <;> rfl
  | cons x xs ih =>
    simp only [List.cons_append, lastErrorLogger, ih]
    cases o with
    | none => rfl
    | some o => cases o <;> rfl

theorem lastSecondaryKey_concat (os : List (Option (EvalOption P L)))
    (o : Option (EvalOption P L)) :
    lastSecondaryKey (os ++ [o]) =
      match o with
      | some (.enableSecondaryKey b) => some b
      | _ => lastSecondaryKey os := by
  induction os with
  | nil => cases o with
    | none => rfl
    | some o => cases o <;> rfl
  | cons x xs ih =>
    simp only [List.cons_append, lastSecondaryKey, ih]
    cases o with
    | none => rfl
    | some o => cases o <;> rfl

/-- The loop from an arbitrary configuration, field by field: the payload of the LAST option of the
field's kind, or the field's previous value when the list has no option of that kind. -/
theorem applyOptionsFrom_eq_last (c : Config P L) (os : List (Option (EvalOption P L))) :
    applyOptionsFrom c os =
      { bigSegmentProvider := (lastBigSegments os).getD c.bigSegmentProvider
        errorLogger := (lastErrorLogger os).getD c.errorLogger
        enableSecondaryKey := (lastSecondaryKey os).getD c.enableSecondaryKey } := by
  induction os generalizing c with
  | nil => rfl
  | cons o os ih =>
    rw [applyOptionsFrom_cons, ih]
    simp only [lastBigSegments, lastErrorLogger, lastSecondaryKey]
    cases lastBigSegments os <;> cases lastErrorLogger os <;> cases lastSecondaryKey os <;>
      (cases o with
       | none => rfl
       | some o => cases o <;> rfl)

/-- The constructed configuration, field by field: the payload of the LAST option of the field's
kind, or the default when the list has no option of that kind. -/
theorem applyOptions_eq_last (os : List (Option (EvalOption P L))) :
    applyOptions os =
      { bigSegmentProvider := (lastBigSegments os).getD none
        errorLogger := (lastErrorLogger os).getD none
        enableSecondaryKey := (lastSecondaryKey os).getD false } :=
  applyOptionsFrom_eq_last {} os

/-- The result depends only on the last option of each kind. -/
theorem applyOptions_depends_only_on_last (os os' : List (Option (EvalOption P L)))
    (h1 : lastBigSegments os = lastBigSegments os') (h2 : lastErrorLogger os = lastErrorLogger os')
    (h3 : lastSecondaryKey os = lastSecondaryKey os') : applyOptions os = applyOptions os' := by
  rw [applyOptions_eq_last os, applyOptions_eq_last os', h1, h2, h3]

/-- An earlier option of the same kind is dead: it can be dropped. -/
theorem applyOptions_drop_overridden (os₁ os₂ os₃ : List (Option (EvalOption P L)))
    (o o' : EvalOption P L) (hk : o.kind = o'.kind) :
    applyOptions (os₁ ++ some o :: os₂ ++ some o' :: os₃) =
      applyOptions (os₁ ++ os₂ ++ some o' :: os₃) := by
  have key : ∀ c : Config P L,
      applyOptionsFrom (o.apply c) (os₂ ++ [some o']) = applyOptionsFrom c (os₂ ++ [some o']) := by
    intro c
    rw [applyOptionsFrom_eq_last, applyOptionsFrom_eq_last, lastBigSegments_concat,
      lastErrorLogger_concat, lastSecondaryKey_concat]
    cases o <;> cases o' <;> first | rfl | exact absurd hk (by simp [EvalOption.kind])
  have e1 : os₁ ++ some o :: os₂ ++ some o' :: os₃ = os₁ ++ (some o :: (os₂ ++ [some o'])) ++ os₃ := by
    simp
  have e2 : os₁ ++ os₂ ++ some o' :: os₃ = os₁ ++ (os₂ ++ [some o']) ++ os₃ := by simp
  rw [e1, e2, applyOptions_append, applyOptions_append, applyOptions_append, applyOptions_append,
    applyOptionsFrom_cons]
  show applyOptionsFrom (applyOptionsFrom (o.apply (applyOptions os₁)) (os₂ ++ [some o'])) os₃ = _
  rw [key]

/-! ### (c) Options of different kinds commute -/

theorem apply_comm (c : Config P L) (o₁ o₂ : EvalOption P L) (h : o₁.kind ≠ o₂.kind) :
    o₂.apply (o₁.apply c) = o₁.apply (o₂.apply c) := by
  cases o₁ <;> cases o₂ <;> first | rfl | exact absurd rfl h

/-- Two adjacent options of different kinds can be swapped, anywhere in the list. -/
theorem applyOptions_swap (os₁ os₂ : List (Option (EvalOption P L))) (o₁ o₂ : EvalOption P L)
    (h : o₁.kind ≠ o₂.kind) :
    applyOptions (os₁ ++ some o₁ :: some o₂ :: os₂) =
      applyOptions (os₁ ++ some o₂ :: some o₁ :: os₂) := by
  rw [applyOptions_append, applyOptions_append]
  simp only [applyOptionsFrom_cons, applyEntry]
  rw [apply_comm _ o₁ o₂ h]

/-- Options of the same kind do NOT commute in general: the last one wins. -/
example :
    (applyOptions [some (.enableSecondaryKey true), some (.enableSecondaryKey false)] :
      Config Unit Unit).enableSecondaryKey = false ∧
    (applyOptions [some (.enableSecondaryKey false), some (.enableSecondaryKey true)] :
      Config Unit Unit).enableSecondaryKey = true := ⟨rfl, rfl⟩

/-- A later nil PAYLOAD (not a nil option) does override: `EvaluatorOptionBigSegmentProvider(nil)`
after a provider removes it, whereas a nil option changes nothing. -/
example :
    (applyOptions [some (.bigSegments (some 1)), some (.bigSegments none)] :
      Config Nat Unit).bigSegmentProvider = none ∧
    (applyOptions [some (.bigSegments (some 1)), nilOption] :
      Config Nat Unit).bigSegmentProvider = some 1 := ⟨rfl, rfl⟩

end LD.C13

#print axioms LD.C13.applyOptions_nil
#print axioms LD.C13.applyOptions_filter_nil
#print axioms LD.C13.applyOptions_insert_nil
#print axioms LD.C13.applyOptions_append_bigSegments
#print axioms LD.C13.applyOptions_append_errorLogger
#print axioms LD.C13.applyOptions_append_enableSecondaryKey
#print axioms LD.C13.applyOptions_append_overrides
#print axioms LD.C13.applyOptionsFrom_eq_last
#print axioms LD.C13.applyOptions_eq_last
#print axioms LD.C13.applyOptions_depends_only_on_last
#print axioms LD.C13.applyOptions_drop_overridden
#print axioms LD.C13.applyOptions_swap

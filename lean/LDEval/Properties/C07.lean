/-
  C07 — Rollout variation selection is a stable, monotone partition.

  Given bucket b, a rollout serves the variation of the first weighted bucket i with
  b < (w_1+...+w_i)/100000 (accumulated in single precision) and otherwise that of the last bucket,
  so every context receives exactly one of the listed variations whatever the weights sum to, and a
  zero-weight bucket can only be chosen as that final fallback.  Consequently growing one bucket at
  the expense of later ones never moves a context that was already in it out of it, and the same
  holds for a weighted segment rule as its weight grows.
-/
import LDEval.Proofs.Rollout

namespace LD.C07
open LD.SoftF32

/-! ### Definitions -/

/-- The running single-precision sums `s_i = float32(s_{i-1} + float32(float32(w_i) / 100000))`,
starting from `s0`. -/
def cum : List WeightedVariation → Rat → List Rat
  | [], _ => []
  | wv :: rest, s =>
    let s' := SoftF32.add s (SoftF32.div (SoftF32.ofInt wv.weight) 100000)
    s' :: cum rest s'

/-- Index of the first weighted bucket whose cumulative threshold exceeds `b`. -/
def scanIndex (b : Rat) (ws : List WeightedVariation) (s0 : Rat) : Option Nat :=
  (cum ws s0).findIdx? (fun s => decide (b < s))

/-! ### Basic facts about `cum` and `scanIndex` -/

@[simp] theorem cum_nil (s : Rat) : cum [] s = [] := rfl

theorem cum_cons (wv : WeightedVariation) (rest : List WeightedVariation) (s : Rat) :
    cum (wv :: rest) s =
      SoftF32.add s (SoftF32.div (SoftF32.ofInt wv.weight) 100000) ::
        cum rest (SoftF32.add s (SoftF32.div (SoftF32.ofInt wv.weight) 100000)) := rfl

theorem cum_length (ws : List WeightedVariation) (s : Rat) : (cum ws s).length = ws.length := by
  induction ws generalizing s with
  | nil => rfl
  | cons wv rest ih => simp [cum_cons, ih]

@[simp] theorem scanIndex_nil (b s : Rat) : scanIndex b [] s = none := rfl

theorem scanIndex_cons (b : Rat) (wv : WeightedVariation) (rest : List WeightedVariation) (s : Rat) :
    scanIndex b (wv :: rest) s =
      if b < SoftF32.add s (SoftF32.div (SoftF32.ofInt wv.weight) 100000) then some 0
      else (scanIndex b rest (SoftF32.add s (SoftF32.div (SoftF32.ofInt wv.weight) 100000))).map
        (· + 1) := by
  unfold scanIndex
  rw [cum_cons, List.findIdx?_cons]
  by_cases h : b < SoftF32.add s (SoftF32.div (SoftF32.ofInt wv.weight) 100000)
  · simp [h]
  · simp [h]

/-- `scanIndex` is what its name says: `i` is in range, the `i`-th running sum exceeds `b`, and no
earlier one does. -/
theorem scanIndex_eq_some_iff (b : Rat) (ws : List WeightedVariation) (s0 : Rat) (i : Nat) :
    scanIndex b ws s0 = some i ↔
      ∃ h : i < (cum ws s0).length, b < (cum ws s0)[i] ∧
        ∀ j (hj : j < i), ¬ b < (cum ws s0)[j]'(Nat.lt_trans hj h) := by
  unfold scanIndex
  rw [List.findIdx?_eq_some_iff_getElem]
  simp

theorem scanIndex_eq_none_iff (b : Rat) (ws : List WeightedVariation) (s0 : Rat) :
    scanIndex b ws s0 = none ↔ ∀ s ∈ cum ws s0, ¬ b < s := by
  unfold scanIndex
  rw [List.findIdx?_eq_none_iff]
  simp

theorem scanIndex_lt {b : Rat} {ws : List WeightedVariation} {s0 : Rat} {i : Nat}
    (h : scanIndex b ws s0 = some i) : i < ws.length := by
  obtain ⟨hi, _⟩ := (scanIndex_eq_some_iff b ws s0 i).mp h
  rwa [cum_length] at hi

/-! ### 1. The scan returns exactly the first bucket whose cumulative threshold exceeds b -/

theorem select_spec (b : Rat) (isExp lk : Bool) (ws : List WeightedVariation) (s0 : Rat) :
    rolloutScan b isExp lk ws s0 =
      (scanIndex b ws s0).map (fun i =>
        ((ws.getD i default).variation, isExp && !(ws.getD i default).untracked && !lk)) := by
  induction ws generalizing s0 with
  | nil => rfl
  | cons wv rest ih =>
    rw [scanIndex_cons]
    unfold rolloutScan
    simp only
    by_cases h : b < SoftF32.add s0 (SoftF32.div (SoftF32.ofInt wv.weight) 100000)
    · simp [h]
    · rw [if_neg h, if_neg h, ih, Option.map_map]
      rfl

/-- The same with `ws[i]?`: the scan succeeds with bucket `wv` iff `wv` is the bucket at the scan
index. -/
theorem select_spec' (b : Rat) (isExp lk : Bool) (ws : List WeightedVariation) (s0 : Rat) :
    rolloutScan b isExp lk ws s0 =
      ((scanIndex b ws s0).bind (fun i => ws[i]?)).map (fun wv =>
        (wv.variation, isExp && !wv.untracked && !lk)) := by
  rw [select_spec]
  cases h : scanIndex b ws s0 with
  | none => rfl
  | some i =>
    have hi := scanIndex_lt h
    simp [List.getD_eq_getElem?_getD, List.getElem?_eq_getElem hi]

/-! ### 2. Every context receives exactly one of the listed variations -/

theorem member (env : Env) (vr : VariationOrRollout) (key salt : String) (v : Int) (e : Bool)
    (hv : vr.variation = none)
    (h : variationOrRollout env vr key salt = .ok (v, e)) :
    ∃ wv ∈ vr.rollout.variations, wv.variation = v := by
  unfold variationOrRollout at h
  simp only [hv] at h
  split at h
  · cases h
  · rename_i last hlast
    split at h
    · cases h
    · rename_i bucket fail hb
      split at h
      · rename_i r hr
        cases h
        rw [select_spec] at hr
        cases hs : scanIndex bucket vr.rollout.variations 0 with
        | none => rw [hs] at hr; cases hr
        | some i =>
          rw [hs] at hr
          have hi := scanIndex_lt hs
          simp only [Option.map_some, Option.some.injEq, Prod.mk.injEq] at hr
          refine ⟨vr.rollout.variations[i], List.getElem_mem hi, ?_⟩
          rw [← hr.1, List.getD_eq_getElem?_getD, List.getElem?_eq_getElem hi]
          rfl
      · cases h
        exact ⟨last, List.mem_of_getLast? hlast, rfl⟩

/-- ... and a non-empty rollout always serves one (the only error left is an invalid bucket-by
attribute reference). -/
theorem served (env : Env) (vr : VariationOrRollout) (key salt : String)
    (hv : vr.variation = none) (hne : vr.rollout.variations ≠ []) :
    (∃ v e, variationOrRollout env vr key salt = .ok (v, e)) ∨
    (∃ err, computeBucket env.opts.secondaryKey env.ctx vr.rollout.isExperiment vr.rollout.seed
        vr.rollout.contextKind key vr.rollout.bucketBy salt = .error err ∧
      variationOrRollout env vr key salt = .error err) := by
  unfold variationOrRollout
  rw [hv]
  simp only
  cases hl : vr.rollout.variations.getLast? with
  | none => exact absurd (List.getLast?_eq_none_iff.mp hl) hne
  | some last =>
    simp only
    cases hb : computeBucket env.opts.secondaryKey env.ctx vr.rollout.isExperiment vr.rollout.seed
        vr.rollout.contextKind key vr.rollout.bucketBy salt with
    | error err => exact Or.inr ⟨err, rfl, rfl⟩
    | ok p =>
      left
      obtain ⟨bucket, fail⟩ := p
      simp only
      split
      · rename_i r _
        exact ⟨r.1, r.2, rfl⟩
      · exact ⟨_, _, rfl⟩

/-! ### 3. Running sums are representable; a zero weight does not move the sum -/

theorem cum_rnd_fixed' (ws : List WeightedVariation) (s0 : Rat) :
    ∀ s ∈ cum ws s0, SoftF32.rnd s = s := by
  induction ws generalizing s0 with
  | nil => intro s hs; cases hs
  | cons wv rest ih =>
    intro s hs
    rw [cum_cons, List.mem_cons] at hs
    rcases hs with hs | hs
    · rw [hs]; exact Rollout.add_rnd_fixed _ _
    · exact ih _ s hs

theorem cum_rnd_fixed (ws : List WeightedVariation) :
    ∀ s ∈ cum ws 0, SoftF32.rnd s = s := cum_rnd_fixed' ws 0

theorem zero_weight_step (s : Rat) (hs : SoftF32.rnd s = s) :
    SoftF32.add s (SoftF32.div (SoftF32.ofInt 0) 100000) = s :=
  SoftF32.add_zero_right s hs

/-! ### 4. A zero-weight bucket is never chosen by the scan -/

theorem zero_weight_not_scanned (b : Rat) (ws : List WeightedVariation) (s0 : Rat) (i : Nat)
    (hs0 : SoftF32.rnd s0 = s0) (hb : ¬ b < s0) (h : scanIndex b ws s0 = some i) :
    (ws.getD i default).weight ≠ 0 := by
  induction ws generalizing s0 i with
  | nil => cases h
  | cons wv rest ih =>
    rw [scanIndex_cons] at h
    split at h
    · rename_i hlt
      cases h
      intro hw
      simp only [List.getD_cons_zero] at hw
      rw [hw, zero_weight_step s0 hs0] at hlt
      exact hb hlt
    · rename_i hnlt
      cases hr : scanIndex b rest (SoftF32.add s0 (SoftF32.div (SoftF32.ofInt wv.weight) 100000)) with
      | none => rw [hr] at h; cases h
      | some j =>
        rw [hr] at h
        simp only [Option.map_some, Option.some.injEq] at h
        subst h
        rw [List.getD_cons_succ]
        exact ih _ j (Rollout.add_rnd_fixed _ _) hnlt hr

theorem zero_weight_only_fallback (b : Rat) (ws : List WeightedVariation) (i : Nat)
    (hb : 0 ≤ b) (h : scanIndex b ws 0 = some i) :
    (ws.getD i default).weight ≠ 0 :=
  zero_weight_not_scanned b ws 0 i SoftF32.rnd_zero (not_lt.mpr hb) h

/-- Every bucket value is in `[0, 1]` (so the hypothesis `0 ≤ b` above always holds). -/
theorem bucket_nonneg {sec : Bool} {ctx : Ctx} {isExp : Bool} {seed : Option Int}
    {ck key : String} {attr : Ref} {salt : String} {b : Rat} {f : BucketFail}
    (h : computeBucket sec ctx isExp seed ck key attr salt = .ok (b, f)) : 0 ≤ b ∧ b ≤ 1 :=
  Rollout.computeBucket_range h

/-! ### 5. Growing a bucket never moves a context already in it out of it -/

theorem monotone' (b : Rat) (pre : List WeightedVariation) (wv : WeightedVariation)
    (post post' : List WeightedVariation) (w' : Int) (hw : wv.weight ≤ w') (s0 : Rat)
    (h : scanIndex b (pre ++ wv :: post) s0 = some pre.length) :
    scanIndex b (pre ++ { wv with weight := w' } :: post') s0 = some pre.length := by
  induction pre generalizing s0 with
  | nil =>
    simp only [List.nil_append, List.length_nil] at h ⊢
    rw [scanIndex_cons] at h ⊢
    split at h
    · rename_i hlt
      rw [if_pos (lt_of_lt_of_le hlt (Rollout.step_mono_weight s0 hw))]
    · cases hr : scanIndex b post (SoftF32.add s0 (SoftF32.div (SoftF32.ofInt wv.weight) 100000)) <;>
        rw [hr] at h <;> simp at h
  | cons p pre ih =>
    simp only [List.cons_append, List.length_cons] at h ⊢
    rw [scanIndex_cons] at h ⊢
    split at h
    · cases h
    · rename_i hnlt
      rw [if_neg hnlt]
      cases hr : scanIndex b (pre ++ wv :: post)
          (SoftF32.add s0 (SoftF32.div (SoftF32.ofInt p.weight) 100000)) with
      | none => rw [hr] at h; cases h
      | some j =>
        rw [hr] at h
        simp only [Option.map_some, Option.some.injEq, Nat.add_right_cancel_iff] at h
        subst h
        rw [ih _ hr]
        rfl

theorem monotone (b : Rat) (pre : List WeightedVariation) (wv : WeightedVariation)
    (post post' : List WeightedVariation) (w' : Int) (hw : wv.weight ≤ w')
    (h : scanIndex b (pre ++ wv :: post) 0 = some pre.length) :
    scanIndex b (pre ++ { wv with weight := w' } :: post') 0 = some pre.length :=
  monotone' b pre wv post post' w' hw 0 h

/-- The same at the level of the scan's result: the context keeps its variation. -/
theorem monotone_scan (b : Rat) (isExp lk : Bool) (pre : List WeightedVariation)
    (wv : WeightedVariation) (post post' : List WeightedVariation) (w' : Int)
    (hw : wv.weight ≤ w')
    (h : scanIndex b (pre ++ wv :: post) 0 = some pre.length) :
    rolloutScan b isExp lk (pre ++ { wv with weight := w' } :: post') 0 =
      some (wv.variation, isExp && !wv.untracked && !lk) := by
  rw [select_spec, monotone b pre wv post post' w' hw h]
  simp [List.getD_eq_getElem?_getD]

/-! ### 6. The same for a weighted segment rule -/

theorem segment_monotone (b : Rat) (w w' : Int)
    (h : b < SoftF32.div (SoftF32.ofInt w) 100000) (hw : w ≤ w') :
    b < SoftF32.div (SoftF32.ofInt w') 100000 :=
  lt_of_lt_of_le h (Rollout.share_mono hw)

/-- A context matched by a weighted segment rule is still matched (with the same state) when the
rule's weight grows. -/
theorem segRuleMatch_monotone (rec : SegRec) (env : Env) (chain : List String) (key salt : String)
    (r : SegmentRule) (w w' : Int) (st st1 : St) (hw : w ≤ w')
    (h : segRuleMatch rec env chain key salt { r with weight := some w } st = (.ok true, st1)) :
    segRuleMatch rec env chain key salt { r with weight := some w' } st = (.ok true, st1) := by
  unfold segRuleMatch at h ⊢
  simp only at h ⊢
  split at h
  · rename_i st2 hc
    split at h
    · cases h
    · rename_i bucket fail hbk
      split at h
      · cases h
      · rename_i hf
        rw [if_neg hf]
        simp only [Prod.mk.injEq, Res.ok.injEq, decide_eq_true_eq] at h ⊢
        exact ⟨segment_monotone bucket w w' h.1 hw, h.2⟩
  · cases h
  · rename_i x hx1 hx2
    rw [h] at hx1
    exact absurd rfl (hx1 st1)

/-! ### 7. Non-vacuity -/

section Examples

def half : WeightedVariation := { variation := 0, weight := 50000 }
def half' : WeightedVariation := { variation := 1, weight := 50000 }
def tenth : WeightedVariation := { variation := 2, weight := 10000 }
def zeroW : WeightedVariation := { variation := 7, weight := 0 }

/-- The thresholds of a 50/50 rollout are exactly 1/2 and 1. -/
example : cum [half, half'] 0 = [1/2, 1] := by decide +kernel

/-- 10000/100000 is not a binary fraction: the threshold is float32(0.1). -/
example : cum [tenth] 0 = [13421773 / 134217728] := by decide +kernel

example : scanIndex (1/4) [half, half'] 0 = some 0 := by decide +kernel
example : scanIndex (3/4) [half, half'] 0 = some 1 := by decide +kernel
/-- Bucket value 1 (reachable in principle, since `bucket_nonneg` allows it) falls through. -/
example : scanIndex 1 [half, half'] 0 = none := by decide +kernel
/-- Weights not summing to 100000: the scan fails and the last bucket is the fallback. -/
example : scanIndex (3/4) [half, tenth] 0 = none := by decide +kernel
/-- A zero-weight bucket in the middle is skipped. -/
example : scanIndex (3/4) [half, zeroW, half'] 0 = some 2 := by decide +kernel

example : rolloutScan (3/4) true false [half, half'] 0 = some (1, true) := by
  rw [select_spec]
  decide +kernel

/-- `monotone` applies: the context with bucket value 11/20 is in bucket 1 (weight 10000) of
[50000, 10000, 50000], and it is still in bucket 1 of [50000, 30000] (bucket 1 grown, the later
bucket dropped). -/
example : scanIndex (11/20) ([half] ++ tenth :: [half']) 0 = some [half].length := by
  decide +kernel
example : scanIndex (11/20) ([half] ++ { tenth with weight := 30000 } :: []) 0 =
    some [half].length :=
  monotone (11/20) [half] tenth [half'] [] 30000 (by decide) (by decide +kernel)

/-- `segment_monotone` applies. -/
example : (1/20 : Rat) < SoftF32.div (SoftF32.ofInt 10000) 100000 := by decide +kernel

/-! End-to-end (SHA-1 included, evaluated by the kernel): weights that sum to 2/100000, so almost
every context takes the fallback exit and is served the last bucket's variation; and all-zero /
negative weights, where the scan can never succeed. -/

def scUser : SCtx := { kind := "user", key := "k" }
def envUser : Env :=
  { opts := {}, store := {}, bs := none, ctx := Ctx.single scUser, rx := fun _ _ => none }

example : variationOrRollout envUser
    { rollout := { variations := [{ variation := 3, weight := 1 }, { variation := 4, weight := 1 }] } }
    "f" "salt" = .ok (4, false) := by decide +kernel
example : variationOrRollout envUser
    { rollout := { variations := [{ variation := 3, weight := 0 }, { variation := 4, weight := -5 },
                                  { variation := 5, weight := 0 }] } }
    "f" "salt" = .ok (5, false) := by decide +kernel
example : variationOrRollout envUser
    { rollout := { variations := [{ variation := 3, weight := 50000 }, { variation := 4, weight := 50000 }] } }
    "f" "salt" = .ok (4, false) := by decide +kernel

end Examples

/-! ## Strengthened statements (theorem audit) -/

/-- Audit #23, scan level: a context that no threshold of `pre ++ [wv]` catches (it is served the
LAST bucket through the fall-back exit) is, after ANY change of the last bucket's weight, either
still not caught or caught by exactly that last bucket — never by an earlier one (their thresholds
are unchanged). -/
theorem fallback_scan' (b : Rat) (pre : List WeightedVariation) (wv : WeightedVariation) (w' : Int)
    (s0 : Rat) (h : scanIndex b (pre ++ [wv]) s0 = none) :
    scanIndex b (pre ++ [{ wv with weight := w' }]) s0 = none ∨
    scanIndex b (pre ++ [{ wv with weight := w' }]) s0 = some pre.length := by
  induction pre generalizing s0 with
  | nil =>
    simp only [List.nil_append, List.length_nil]
    rw [scanIndex_cons]
    split
    · exact Or.inr rfl
    · exact Or.inl rfl
  | cons p pre ih =>
    simp only [List.cons_append, List.length_cons] at h ⊢
    rw [scanIndex_cons] at h ⊢
    split at h
    · cases h
    · rename_i hnlt
      rw [if_neg hnlt]
      cases hr : scanIndex b (pre ++ [wv])
          (SoftF32.add s0 (SoftF32.div (SoftF32.ofInt p.weight) 100000)) with
      | some j => rw [hr] at h; cases h
      | none =>
        rcases ih _ hr with h' | h'
        · rw [h']; exact Or.inl rfl
        · rw [h']; exact Or.inr rfl

/-- Audit #23: growing (indeed: changing in any way) the weight of the last bucket never moves a
context that was served it through the fall-back exit out of it.  What `variationOrRolloutResult`
returns — the scan's answer if there is one, the last bucket otherwise — is the last bucket's
variation and experiment flag before and after.  Together with `monotone_scan` (contexts the scan put
into a bucket) this covers every context of a growing bucket. -/
theorem monotone_fallback (b : Rat) (isExp lk : Bool) (pre : List WeightedVariation)
    (wv : WeightedVariation) (w' : Int) (h : scanIndex b (pre ++ [wv]) 0 = none) :
    (rolloutScan b isExp lk (pre ++ [wv]) 0).getD
        (wv.variation, isExp && !wv.untracked && !lk) =
      (wv.variation, isExp && !wv.untracked && !lk) ∧
    (rolloutScan b isExp lk (pre ++ [{ wv with weight := w' }]) 0).getD
        (wv.variation, isExp && !wv.untracked && !lk) =
      (wv.variation, isExp && !wv.untracked && !lk) := by
  constructor
  · rw [select_spec, h]; rfl
  · rw [select_spec]
    rcases fallback_scan' b pre wv w' 0 h with h' | h'
    · rw [h']; rfl
    · rw [h']
      simp [List.getD_eq_getElem?_getD]

-- Non-vacuity: bucket value 3/4 against [50000, 10000] is a fall-back context; growing the last
-- bucket to 50000 the scan now catches it — in that same last bucket.
example : scanIndex (3/4) ([half] ++ [tenth]) 0 = none := by decide +kernel
example : scanIndex (3/4) ([half] ++ [{ tenth with weight := 50000 }]) 0 = some [half].length := by
  decide +kernel
example : (rolloutScan (3/4) false false ([half] ++ [{ tenth with weight := 50000 }]) 0).getD
    (tenth.variation, false && !tenth.untracked && !false) = (2, false) :=
  (monotone_fallback (3/4) false false [half] tenth 50000 (by decide +kernel)).2

end LD.C07

#print axioms LD.C07.select_spec
#print axioms LD.C07.select_spec'
#print axioms LD.C07.member
#print axioms LD.C07.served
#print axioms LD.C07.cum_rnd_fixed
#print axioms LD.C07.zero_weight_step
#print axioms LD.C07.zero_weight_only_fallback
#print axioms LD.C07.bucket_nonneg
#print axioms LD.C07.monotone
#print axioms LD.C07.monotone_scan
#print axioms LD.C07.segment_monotone
#print axioms LD.C07.segRuleMatch_monotone
#print axioms LD.C07.monotone_fallback

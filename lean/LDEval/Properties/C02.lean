/-
  C02 — Flag decision order: off, prerequisites, targets, rules, fallthrough.

  "The served variation and reason are decided by the first applicable stage in a fixed order:
  targeting off gives the off variation (OFF); otherwise the first unmet prerequisite in listed
  order gives the off variation (PREREQUISITE_FAILED naming that key); otherwise the first matching
  individual target gives its variation (TARGET_MATCH); otherwise the first rule, in listed order,
  all of whose clauses match gives that rule's variation or rollout (RULE_MATCH carrying that
  rule's index and id); otherwise the fallthrough variation or rollout (FALLTHROUGH).  No later
  stage can override an earlier one, and a rule or fallthrough with a fixed variation ignores any
  rollout also present."

  All statements are about the stateless specification (`LDEval/Spec/EvalSpec.lean`); section 9
  transfers them to the entry point `evaluate` through `evaluate_detail_spec`.
-/
import LDEval.Proofs.Refine

namespace LD.C02

variable {rec : Spec.FlagRec} {seg : Spec.SegRec} {env : Env} {f : Flag} {chain : List String}

/-! ### 1. Targeting off -/

/-- Targeting off: the off variation with reason OFF — prerequisites, targets, rules and the
fallthrough are not consulted (the statement holds for arbitrary `rec`, `seg`). -/
theorem off (h : f.on = false) :
    Spec.evalBody rec seg env f chain = some (Spec.getOffValue f .off, true) := by
  simp [Spec.evalBody, h]

/-! ### 2. Prerequisites, in listed order -/

/-- Prerequisite `p` is met: the flag exists, is not on the current chain, evaluates without
abort, is on, and yields exactly the required variation. -/
def Met (rec : Spec.FlagRec) (env : Env) (chain : List String) (p : Prereq) : Prop :=
  ∃ pf d, env.store.findFlag p.key = some pf ∧ chain.contains pf.key = false ∧
    rec pf chain = some (d, true) ∧ pf.on = true ∧ d.index = some p.variation

/-- Prerequisite `p` is unmet: the flag is missing, or it evaluates (without abort) and is off or
yields another (or no) variation. -/
def Unmet (rec : Spec.FlagRec) (env : Env) (chain : List String) (p : Prereq) : Prop :=
  env.store.findFlag p.key = none ∨
  ∃ pf d, env.store.findFlag p.key = some pf ∧ chain.contains pf.key = false ∧
    rec pf chain = some (d, true) ∧ ¬ (pf.on = true ∧ d.index = some p.variation)

/-- The loop's own test is exactly "on and yields the required variation". -/
theorem prereqCond_iff (pf : Flag) (d : Detail) (p : Prereq) :
    (pf.on && d.index.isSome && d.index == some p.variation) = true ↔
      (pf.on = true ∧ d.index = some p.variation) := by
  constructor
  · intro h
    simp only [Bool.and_eq_true, beq_iff_eq] at h
    exact ⟨h.1.1, h.2⟩
  · rintro ⟨h1, h2⟩
    simp [h1, h2]

theorem prereqLoop_met_cons (p : Prereq) (ps : List Prereq) (h : Met rec env chain p) :
    Spec.prereqLoop rec env chain (p :: ps) = Spec.prereqLoop rec env chain ps := by
  obtain ⟨pf, d, h1, h2, h3, h4, h5⟩ := h
  simp only [Spec.prereqLoop, h1, h2, h3, Bool.false_eq_true, ↓reduceIte]
  simp [h4, h5]

theorem prereqLoop_unmet_cons (p : Prereq) (ps : List Prereq) (h : Unmet rec env chain p) :
    Spec.prereqLoop rec env chain (p :: ps) = .failed p.key := by
  rcases h with h | ⟨pf, d, h1, h2, h3, h4⟩
  · simp [Spec.prereqLoop, h]
  · have hc : (pf.on && d.index.isSome && d.index == some p.variation) = false := by
      rw [← Bool.not_eq_true, prereqCond_iff]; exact h4
    simp only [Spec.prereqLoop, h1, h2, h3, Bool.false_eq_true, ↓reduceIte]
    simp [hc]

/-- The first unmet prerequisite, in listed order, fails the flag and is the one named. -/
theorem prereq_first_unmet (ps pre : List Prereq) (p : Prereq) (post : List Prereq)
    (hps : ps = pre ++ p :: post) (hpre : ∀ q ∈ pre, Met rec env chain q)
    (hp : Unmet rec env chain p) :
    Spec.prereqLoop rec env chain ps = .failed p.key := by
  subst hps
  induction pre with
  | nil => exact prereqLoop_unmet_cons p post hp
  | cons q pre ih =>
    rw [List.cons_append, prereqLoop_met_cons q _ (hpre q (List.mem_cons_self ..))]
    exact ih (fun q' hq' => hpre q' (List.mem_cons_of_mem _ hq'))

/-- All prerequisites met: the stage passes. -/
theorem prereq_all_met (ps : List Prereq) (h : ∀ q ∈ ps, Met rec env chain q) :
    Spec.prereqLoop rec env chain ps = .ok := by
  induction ps with
  | nil => rfl
  | cons q ps ih =>
    rw [prereqLoop_met_cons q _ (h q (List.mem_cons_self ..))]
    exact ih (fun q' hq' => h q' (List.mem_cons_of_mem _ hq'))

/-- Converse: a PREREQUISITE_FAILED outcome names the first unmet prerequisite, and every
prerequisite listed before it is met. -/
theorem prereq_failed_inv (ps : List Prereq) (k : String)
    (h : Spec.prereqLoop rec env chain ps = .failed k) :
    ∃ pre p post, ps = pre ++ p :: post ∧ p.key = k ∧ (∀ q ∈ pre, Met rec env chain q) ∧
      Unmet rec env chain p := by
  induction ps with
  | nil => simp [Spec.prereqLoop] at h
  | cons p ps ih =>
    unfold Spec.prereqLoop at h
    split at h
    · next hf =>
      injection h with hk
      exact ⟨[], p, ps, rfl, hk, by simp, Or.inl hf⟩
    · next pf hf =>
      split at h
      · cases h
      · next hch =>
        split at h
        · cases h
        · next d ok hr =>
          split at h
          · cases h
          · next hok =>
            have hok' : ok = true := by simpa using hok
            subst hok'
            split at h
            · next hc =>
              obtain ⟨pre, p', post, hps, hk, hpre, hun⟩ := ih h
              refine ⟨p :: pre, p', post, by rw [hps]; rfl, hk, ?_, hun⟩
              intro q hq
              rcases List.mem_cons.1 hq with rfl | hq
              · exact ⟨pf, d, hf, by simpa using hch, hr, (prereqCond_iff pf d q).1 hc⟩
              · exact hpre q hq
            · next hc =>
              injection h with hk
              exact ⟨[], p, ps, rfl, hk, by simp,
                Or.inr ⟨pf, d, hf, by simpa using hch, hr,
                  fun hh => hc ((prereqCond_iff pf d p).2 hh)⟩⟩

/-- Converse for the passing outcome: every prerequisite is met. -/
theorem prereq_ok_inv (ps : List Prereq) (h : Spec.prereqLoop rec env chain ps = .ok) :
    ∀ q ∈ ps, Met rec env chain q := by
  induction ps with
  | nil => intro q hq; cases hq
  | cons p ps ih =>
    unfold Spec.prereqLoop at h
    split at h
    · cases h
    · next pf hf =>
      split at h
      · cases h
      · next hch =>
        split at h
        · cases h
        · next d ok hr =>
          split at h
          · cases h
          · next hok =>
            have hok' : ok = true := by simpa using hok
            subst hok'
            split at h
            · next hc =>
              intro q hq
              rcases List.mem_cons.1 hq with rfl | hq
              · exact ⟨pf, d, hf, by simpa using hch, hr, (prereqCond_iff pf d q).1 hc⟩
              · exact ih h q hq
            · cases h

/-! ### 3. A failed prerequisite decides; targets and rules are not consulted -/

theorem prereq_failed {k : String} (hon : f.on = true)
    (h : Spec.checkPrereqs rec env f chain = .failed k) :
    Spec.evalBody rec seg env f chain = some (Spec.getOffValue f (.prereqFailed k), true) := by
  simp [Spec.evalBody, hon, h]

/-- Flag-level form: the first unmet prerequisite in `f.prerequisites` decides. -/
theorem prereq_failed_first (hon : f.on = true) (pre : List Prereq) (p : Prereq)
    (post : List Prereq) (hps : f.prerequisites = pre ++ p :: post)
    (hpre : ∀ q ∈ pre, Met rec env (chain ++ [f.key]) q)
    (hp : Unmet rec env (chain ++ [f.key]) p) :
    Spec.evalBody rec seg env f chain = some (Spec.getOffValue f (.prereqFailed p.key), true) := by
  apply prereq_failed hon
  have hne : f.prerequisites.isEmpty = false := by rw [hps]; simp
  simp only [Spec.checkPrereqs, hne]
  exact prereq_first_unmet _ pre p post hps hpre hp

/-- No prerequisites, or all met: the prerequisite stage passes. -/
theorem checkPrereqs_all_met (h : ∀ q ∈ f.prerequisites, Met rec env (chain ++ [f.key]) q) :
    Spec.checkPrereqs rec env f chain = .ok := by
  unfold Spec.checkPrereqs
  split
  · rfl
  · exact prereq_all_met _ h

theorem checkPrereqs_nil (h : f.prerequisites = []) :
    Spec.checkPrereqs rec env f chain = .ok := by
  simp [Spec.checkPrereqs, h]

/-! ### 4. A matching individual target beats every rule -/

theorem target_over_rules {v : Int} (hon : f.on = true)
    (hp : Spec.checkPrereqs rec env f chain = .ok) (ht : anyTargetMatch env.ctx f = some v) :
    Spec.evalBody rec seg env f chain = some (Spec.getVariation f v .targetMatch, true) := by
  simp [Spec.evalBody, hon, hp, ht]

/-! ### 5. The first matching rule, in listed order -/

theorem first_rule (rules pre : List FlagRule) (r : FlagRule) (post : List FlagRule) (i : Nat)
    (hr : rules = pre ++ r :: post)
    (hpre : ∀ q ∈ pre, Spec.clausesMatch seg env [] q.clauses = .ok false)
    (hm : Spec.clausesMatch seg env [] r.clauses = .ok true) :
    Spec.rulesLoop seg env f rules i =
      some (Spec.getValueForVR env f r.vr (.ruleMatch (i + pre.length) r.id), true) := by
  subst hr
  induction pre generalizing i with
  | nil => simp [Spec.rulesLoop, hm]
  | cons q pre ih =>
    have hq := hpre q (List.mem_cons_self ..)
    simp only [List.cons_append, Spec.rulesLoop, hq, List.length_cons]
    rw [ih (i + 1) (fun q' hq' => hpre q' (List.mem_cons_of_mem _ hq'))]
    rw [Nat.add_assoc, Nat.add_comm 1]

/-- Flag level: RULE_MATCH carrying the index (`pre.length`) and id of the first matching rule. -/
theorem first_rule_evalBody (pre : List FlagRule) (r : FlagRule) (post : List FlagRule)
    (hon : f.on = true) (hp : Spec.checkPrereqs rec env f chain = .ok)
    (ht : anyTargetMatch env.ctx f = none)
    (hr : f.rules = pre ++ r :: post)
    (hpre : ∀ q ∈ pre, Spec.clausesMatch seg env [] q.clauses = .ok false)
    (hm : Spec.clausesMatch seg env [] r.clauses = .ok true) :
    Spec.evalBody rec seg env f chain =
      some (Spec.getValueForVR env f r.vr (.ruleMatch pre.length r.id), true) := by
  have := first_rule (f := f) f.rules pre r post 0 hr hpre hm
  simp only [Nat.zero_add] at this
  simp [Spec.evalBody, hon, hp, ht, this]

/-! ### 6. Fallthrough -/

theorem fallthrough (rules : List FlagRule) (i : Nat)
    (h : ∀ q ∈ rules, Spec.clausesMatch seg env [] q.clauses = .ok false) :
    Spec.rulesLoop seg env f rules i =
      some (Spec.getValueForVR env f f.fallthrough .fallthrough, true) := by
  induction rules generalizing i with
  | nil => rfl
  | cons q rules ih =>
    have hq := h q (List.mem_cons_self ..)
    simp only [Spec.rulesLoop, hq]
    exact ih (i + 1) (fun q' hq' => h q' (List.mem_cons_of_mem _ hq'))

theorem fallthrough_evalBody (hon : f.on = true) (hp : Spec.checkPrereqs rec env f chain = .ok)
    (ht : anyTargetMatch env.ctx f = none)
    (h : ∀ q ∈ f.rules, Spec.clausesMatch seg env [] q.clauses = .ok false) :
    Spec.evalBody rec seg env f chain =
      some (Spec.getValueForVR env f f.fallthrough .fallthrough, true) := by
  simp [Spec.evalBody, hon, hp, ht, fallthrough f.rules 0 h]

/-! ### 7. A fixed variation ignores any rollout also present -/

theorem fixed_variation_ignores_rollout (vr : VariationOrRollout) (v : Int) (key salt : String)
    (h : vr.variation = some v) : variationOrRollout env vr key salt = .ok (v, false) := by
  simp [variationOrRollout, h]

theorem getValueForVR_fixed (vr : VariationOrRollout) (v : Int) (r : Reason)
    (h : vr.variation = some v) : Spec.getValueForVR env f vr r = Spec.getVariation f v r := by
  simp [Spec.getValueForVR, fixed_variation_ignores_rollout vr v f.key f.salt h]

/-- The rollout field is irrelevant: replacing it by anything gives the same detail. -/
theorem getValueForVR_rollout_irrelevant (v : Int) (ro ro' : Rollout) (r : Reason) :
    Spec.getValueForVR env f { variation := some v, rollout := ro } r =
      Spec.getValueForVR env f { variation := some v, rollout := ro' } r := by
  rw [getValueForVR_fixed _ v r rfl, getValueForVR_fixed _ v r rfl]

/-! ### 8. Reason and value content -/

theorem getVariation_ok {i : Int} (r : Reason) (h0 : 0 ≤ i) (h1 : i < f.variations.length) :
    Spec.getVariation f i r =
      { value := f.variations.getD i.toNat .null, index := some i, reason := r } := by
  unfold Spec.getVariation
  rw [if_neg]
  omega

theorem getVariation_bad {i : Int} (r : Reason) (h : i < 0 ∨ (f.variations.length : Int) ≤ i) :
    Spec.getVariation f i r = Detail.forError .malformedFlag := by
  unfold Spec.getVariation
  rw [if_pos]
  omega

theorem getOffValue_undefined (r : Reason) (h : f.offVariation = none) :
    Spec.getOffValue f r = { reason := r } := by
  simp [Spec.getOffValue, h]

theorem getOffValue_defined (r : Reason) {i : Int} (h : f.offVariation = some i) :
    Spec.getOffValue f r = Spec.getVariation f i r := by
  simp [Spec.getOffValue, h]

/-! ### 9. Transfer to the entry point `evaluate` -/

theorem evalFlag_top (env : Env) (f : Flag) :
    Spec.evalFlag (segFuel env.store) (flagFuel env.store) env f [] =
      Spec.evalBody
        (Spec.evalFlag (segFuel env.store) (distinctCount (env.store.flags.map (·.2.key)) + 1) env)
        (Spec.segContains (segFuel env.store) env) env f [] := rfl

/-- Targeting off, at the entry point. -/
theorem evaluate_off (env : Env) (f : Flag) (hc : env.ctx ≠ .invalid) (h : f.on = false) :
    (evaluate env f).result.detail.index = (Spec.getOffValue f .off).index ∧
    (evaluate env f).result.detail.value = (Spec.getOffValue f .off).value ∧
    (evaluate env f).result.detail.reason.kind = (Spec.getOffValue f .off).reason.kind := by
  have hs : Spec.evalFlag (segFuel env.store) (flagFuel env.store) env f [] =
      some (Spec.getOffValue f .off, true) := by
    rw [evalFlag_top]; exact off h
  obtain ⟨-, hv, hi, hk, -⟩ := evaluate_detail_spec env f hc _ _ hs
  exact ⟨hi, hv, hk⟩

/-- A matching individual target, at the entry point (flag without prerequisites), whatever the
rules are. -/
theorem evaluate_target_match (env : Env) (f : Flag) (v : Int) (hc : env.ctx ≠ .invalid)
    (hon : f.on = true) (hp : f.prerequisites = [])
    (ht : anyTargetMatch env.ctx f = some v) :
    (evaluate env f).result.detail.index = (Spec.getVariation f v .targetMatch).index ∧
    (evaluate env f).result.detail.value = (Spec.getVariation f v .targetMatch).value ∧
    (evaluate env f).result.detail.reason.kind = (Spec.getVariation f v .targetMatch).reason.kind := by
  have hs : Spec.evalFlag (segFuel env.store) (flagFuel env.store) env f [] =
      some (Spec.getVariation f v .targetMatch, true) := by
    rw [evalFlag_top]; exact target_over_rules hon (checkPrereqs_nil hp) ht
  obtain ⟨-, hv, hi, hk, -⟩ := evaluate_detail_spec env f hc _ _ hs
  exact ⟨hi, hv, hk⟩

/-- With a valid index the target match serves exactly that variation with TARGET_MATCH. -/
theorem evaluate_target_match_valid (env : Env) (f : Flag) (v : Int) (hc : env.ctx ≠ .invalid)
    (hon : f.on = true) (hp : f.prerequisites = [])
    (ht : anyTargetMatch env.ctx f = some v) (h0 : 0 ≤ v) (h1 : v < f.variations.length) :
    (evaluate env f).result.detail.index = some v ∧
    (evaluate env f).result.detail.value = f.variations.getD v.toNat .null ∧
    (evaluate env f).result.detail.reason.kind = .targetMatch := by
  have := evaluate_target_match env f v hc hon hp ht
  rw [getVariation_ok .targetMatch h0 h1] at this
  exact this

/-! ### 10. Non-vacuity: concrete flags and contexts satisfying the hypotheses -/

section Examples

/-- A user context `alice`; the store holds an off flag `p` and an on flag `q`. -/
def exEnv : Env :=
  { opts := {}, store := Store.ofLists [{ key := "p", on := false }, { key := "q", on := true }] [],
    bs := none, ctx := .single { kind := "user", key := "alice" }, rx := fun _ _ => none }

/-- A clause about kind `org`, which the context lacks: it does not match. -/
def orgClause : Clause :=
  { contextKind := "org", attr := { raw := "key", single := "key" }, op := "in",
    values := [.str "x"] }

/-- Rule `r0` does not match; rules `r1` and `r2` both match (no clauses); the fallthrough and `r1`
carry a rollout next to their fixed variation. -/
def exFlag : Flag :=
  { key := "f", on := true, variations := [.str "a", .str "b"],
    rules := [ { id := "r0", clauses := [orgClause], vr := { variation := some 0 } },
               { id := "r1", clauses := [],
                 vr := { variation := some 1,
                         rollout := { variations := [{ variation := 0, weight := 100000 }] } } },
               { id := "r2", clauses := [], vr := { variation := some 0 } } ],
    fallthrough := { variation := some 0 } }

theorem ex_orgClause (seg : Spec.SegRec) :
    Spec.clausesMatch seg exEnv [] [orgClause] = .ok false := by
  simp [Spec.clausesMatch, Spec.clauseMatch, orgClause, clauseMatchNoSeg, Ref.isDefined,
    Ref.errOf, Res.ofExcept, exEnv, Ctx.byKind, Ctx.individuals, normKind]

/-- Two rules match; the first of them (index 1, id `r1`) wins, and its rollout is ignored. -/
example (rec : Spec.FlagRec) (seg : Spec.SegRec) :
    Spec.evalBody rec seg exEnv exFlag [] =
      some ({ value := .str "b", index := some 1, reason := .ruleMatch 1 "r1" }, true) := by
  have h := first_rule_evalBody (rec := rec) (seg := seg) (env := exEnv) (f := exFlag) (chain := [])
    [{ id := "r0", clauses := [orgClause], vr := { variation := some 0 } }]
    { id := "r1", clauses := [],
      vr := { variation := some 1,
              rollout := { variations := [{ variation := 0, weight := 100000 }] } } }
    [{ id := "r2", clauses := [], vr := { variation := some 0 } }]
    rfl (checkPrereqs_nil rfl) (by simp [anyTargetMatch, exFlag]) rfl
    (by intro q hq; rw [List.mem_singleton.1 hq]; exact ex_orgClause seg) rfl
  rw [h, getValueForVR_fixed _ 1 _ rfl,
    getVariation_ok _ (by decide) (by simp [exFlag])]
  rfl

/-- The same flag with a target list naming `alice`: TARGET_MATCH, although rules match too. -/
example (rec : Spec.FlagRec) (seg : Spec.SegRec) :
    Spec.evalBody rec seg exEnv
        { exFlag with targets := [{ values := ["bob", "alice"], variation := 0 }] } [] =
      some ({ value := .str "a", index := some 0, reason := .targetMatch }, true) := by
  rw [target_over_rules (v := 0) rfl (checkPrereqs_nil rfl)
    (by simp [anyTargetMatch, exFlag, targetMatch, exEnv, Ctx.byKind, Ctx.individuals, normKind, defaultKind,
          Target.findKey, findKey]),
    getVariation_ok _ (by decide) (by simp [exFlag])]
  rfl

/-- Every rule fails to match: FALLTHROUGH. -/
example (rec : Spec.FlagRec) (seg : Spec.SegRec) :
    Spec.evalBody rec seg exEnv
        { exFlag with rules := [{ id := "r0", clauses := [orgClause] }] } [] =
      some ({ value := .str "a", index := some 0, reason := .fallthrough }, true) := by
  rw [fallthrough_evalBody rfl (checkPrereqs_nil rfl) (by simp [anyTargetMatch, exFlag])
      (by intro q hq; rw [List.mem_singleton.1 hq]; exact ex_orgClause seg),
    getValueForVR_fixed _ 0 _ rfl, getVariation_ok _ (by decide) (by simp [exFlag])]
  rfl

/-- Prerequisites `q` (met), `p` (unmet: it is off), `zzz` (missing): the first unmet one, `p`, is
named, and the off variation is undefined here, so no index is served. -/
example (seg : Spec.SegRec) :
    Spec.evalBody (fun _ _ => some ({ index := some 0, reason := .fallthrough }, true)) seg exEnv
        { exFlag with prerequisites := [⟨"q", 0⟩, ⟨"p", 0⟩, ⟨"zzz", 0⟩] } [] =
      some ({ reason := .prereqFailed "p" }, true) := by
  rw [prereq_failed_first (p := ⟨"p", 0⟩) rfl [⟨"q", 0⟩] [⟨"zzz", 0⟩] rfl
    (by
      intro q hq; rw [List.mem_singleton.1 hq]
      exact ⟨{ key := "q", on := true }, _, by simp [exEnv, Store.findFlag, Store.ofLists],
        by simp [exFlag], rfl, rfl, rfl⟩)
    (Or.inr ⟨{ key := "p", on := false }, _, by simp [exEnv, Store.findFlag, Store.ofLists],
      by simp [exFlag], rfl, by simp⟩),
    getOffValue_undefined _ rfl]

/-- Targeting off: OFF, with the off variation. -/
example (rec : Spec.FlagRec) (seg : Spec.SegRec) :
    Spec.evalBody rec seg exEnv { exFlag with on := false, offVariation := some 1 } [] =
      some ({ value := .str "b", index := some 1, reason := .off }, true) := by
  rw [off rfl, getOffValue_defined _ rfl, getVariation_ok _ (by decide) (by simp [exFlag])]
  rfl

end Examples

end LD.C02

#print axioms LD.C02.off
#print axioms LD.C02.prereq_first_unmet
#print axioms LD.C02.prereq_all_met
#print axioms LD.C02.prereq_failed_inv
#print axioms LD.C02.prereq_ok_inv
#print axioms LD.C02.prereq_failed
#print axioms LD.C02.prereq_failed_first
#print axioms LD.C02.target_over_rules
#print axioms LD.C02.first_rule
#print axioms LD.C02.first_rule_evalBody
#print axioms LD.C02.fallthrough
#print axioms LD.C02.fallthrough_evalBody
#print axioms LD.C02.fixed_variation_ignores_rollout
#print axioms LD.C02.getValueForVR_fixed
#print axioms LD.C02.getVariation_ok
#print axioms LD.C02.getOffValue_undefined
#print axioms LD.C02.evaluate_off
#print axioms LD.C02.evaluate_target_match

/-
  C02 — Flag decision order: off, prerequisites, targets, rules, fallthrough.

  "The served variation and reason are decided by the first applicable stage in a fixed order:
  targeting off gives the off variation (OFF); otherwise the first unmet prerequisite in listed
  order gives the off variation (PREREQUISITE_FAILED naming that key); otherwise the first matching
  individual target gives its variation (TARGET_MATCH); otherwise the first rule, in listed order,
  all of whose clauses match gives that rule's variation or rollout (RULE_MATCH carrying that
  rule's index and id); otherwise the fallthrough variation or rollout (FALLTHROUGH).  No later
  stage can override an earlier one, and a rule or fallthrough with a fixed variation ignores any
  rollout also present."

  All statements are about the stateless specification (`LDEval/Spec/EvalSpec.lean`); section 9
  transfers them to the entry point `evaluate` through `evaluate_detail_spec`.
-/
import LDEval.Proofs.Refine
import LDEval.Proofs.Prereq

namespace LD.C02

variable {rec : Spec.FlagRec} {seg : Spec.SegRec} {env : Env} {f : Flag} {chain : List String}

/-! ### 1. Targeting off -/

/-- Targeting off: the off variation with reason OFF — prerequisites, targets, rules and the
fallthrough are not consulted (the statement holds for arbitrary `rec`, `seg`). -/
theorem off (h : f.on = false) :
    Spec.evalBody rec seg env f chain = some (Spec.getOffValue f .off, true) := by
  simp [Spec.evalBody, h]

/-! ### 2. Prerequisites, in listed order -/

/-- Prerequisite `p` is met: the flag exists, is not on the current chain, evaluates without
abort, is on, and yields exactly the required variation. -/
def Met (rec : Spec.FlagRec) (env : Env) (chain : List String) (p : Prereq) : Prop :=
  ∃ pf d, env.store.findFlag p.key = some pf ∧ chain.contains pf.key = false ∧
    rec pf chain = some (d, true) ∧ pf.on = true ∧ d.index = some p.variation

/-- Prerequisite `p` is unmet: the flag is missing, or it evaluates (without abort) and is off or
yields another (or no) variation. -/
def Unmet (rec : Spec.FlagRec) (env : Env) (chain : List String) (p : Prereq) : Prop :=
  env.store.findFlag p.key = none ∨
  ∃ pf d, env.store.findFlag p.key = some pf ∧ chain.contains pf.key = false ∧
    rec pf chain = some (d, true) ∧ ¬ (pf.on = true ∧ d.index = some p.variation)

/-- The loop's own test is exactly "on and yields the required variation". -/
theorem prereqCond_iff (pf : Flag) (d : Detail) (p : Prereq) :
    (pf.on && d.index.isSome && d.index == some p.variation) = true ↔
      (pf.on = true ∧ d.index = some p.variation) := by
  constructor
  · intro h
    simp only [Bool.and_eq_true, beq_iff_eq] at h
    exact ⟨h.1.1, h.2⟩
  · rintro ⟨h1, h2⟩
    simp [h1, h2]

theorem prereqLoop_met_cons (p : Prereq) (ps : List Prereq) (h : Met rec env chain p) :
    Spec.prereqLoop rec env chain (p :: ps) = Spec.prereqLoop rec env chain ps := by
  obtain ⟨pf, d, h1, h2, h3, h4, h5⟩ := h
  simp only [Spec.prereqLoop, h1, h2, h3, Bool.false_eq_true, ↓reduceIte]
  simp [h4, h5]

theorem prereqLoop_unmet_cons (p : Prereq) (ps : List Prereq) (h : Unmet rec env chain p) :
    Spec.prereqLoop rec env chain (p :: ps) = .failed p.key := by
  rcases h with h | ⟨pf, d, h1, h2, h3, h4⟩
  · simp [Spec.prereqLoop, h]
  · have hc : (pf.on && d.index.isSome && d.index == some p.variation) = false := by
      rw [← Bool.not_eq_true, prereqCond_iff]; exact h4
    simp only [Spec.prereqLoop, h1, h2, h3, Bool.false_eq_true, ↓reduceIte]
    simp [hc]

/-- The first unmet prerequisite, in listed order, fails the flag and is the one named. -/
theorem prereq_first_unmet (ps pre : List Prereq) (p : Prereq) (post : List Prereq)
    (hps : ps = pre ++ p :: post) (hpre : ∀ q ∈ pre, Met rec env chain q)
    (hp : Unmet rec env chain p) :
    Spec.prereqLoop rec env chain ps = .failed p.key := by
  subst hps
  induction pre with
  | nil => exact prereqLoop_unmet_cons p post hp
  | cons q pre ih =>
    rw [List.cons_append, prereqLoop_met_cons q _ (hpre q (List.mem_cons_self ..))]
    exact ih (fun q' hq' => hpre q' (List.mem_cons_of_mem _ hq'))

/-- All prerequisites met: the stage passes. -/
theorem prereq_all_met (ps : List Prereq) (h : ∀ q ∈ ps, Met rec env chain q) :
    Spec.prereqLoop rec env chain ps = .ok := by
  induction ps with
  | nil => rfl
  | cons q ps ih =>
    rw [prereqLoop_met_cons q _ (h q (List.mem_cons_self ..))]
    exact ih (fun q' hq' => h q' (List.mem_cons_of_mem _ hq'))

/-- Converse: a PREREQUISITE_FAILED outcome names the first unmet prerequisite, and every
prerequisite listed before it is met. -/
theorem prereq_failed_inv (ps : List Prereq) (k : String)
    (h : Spec.prereqLoop rec env chain ps = .failed k) :
    ∃ pre p post, ps = pre ++ p :: post ∧ p.key = k ∧ (∀ q ∈ pre, Met rec env chain q) ∧
      Unmet rec env chain p := by
  induction ps with
  | nil => simp [Spec.prereqLoop] at h
  | cons p ps ih =>
    unfold Spec.prereqLoop at h
    split at h
    · next hf =>
      injection h with hk
      exact ⟨[], p, ps, rfl, hk, by simp, Or.inl hf⟩
    · next pf hf =>
      split at h
      · cases h
      · next hch =>
        split at h
        · cases h
        · next d ok hr =>
          split at h
          · cases h
          · next hok =>
            have hok' : ok = true := by simpa using hok
            subst hok'
            split at h
            · next hc =>
              obtain ⟨pre, p', post, hps, hk, hpre, hun⟩ := ih h
              refine ⟨p :: pre, p', post, by rw [hps]; rfl, hk, ?_, hun⟩
              intro q hq
              rcases List.mem_cons.1 hq with rfl | hq
              · exact ⟨pf, d, hf, by simpa using hch, hr, (prereqCond_iff pf d q).1 hc⟩
              · exact hpre q hq
            · next hc =>
              injection h with hk
              exact ⟨[], p, ps, rfl, hk, by simp,
                Or.inr ⟨pf, d, hf, by simpa using hch, hr,
                  fun hh => hc ((prereqCond_iff pf d p).2 hh)⟩⟩

/-- Converse for the passing outcome: every prerequisite is met. -/
theorem prereq_ok_inv (ps : List Prereq) (h : Spec.prereqLoop rec env chain ps = .ok) :
    ∀ q ∈ ps, Met rec env chain q := by
  induction ps with
  | nil => intro q hq; cases hq
  | cons p ps ih =>
    unfold Spec.prereqLoop at h
    split at h
    · cases h
    · next pf hf =>
      split at h
      · cases h
      · next hch =>
        split at h
        · cases h
        · next d ok hr =>
          split at h
          · cases h
          · next hok =>
            have hok' : ok = true := by simpa using hok
            subst hok'
            split at h
            · next hc =>
              intro q hq
              rcases List.mem_cons.1 hq with rfl | hq
              · exact ⟨pf, d, hf, by simpa using hch, hr, (prereqCond_iff pf d q).1 hc⟩
              · exact ih h q hq
            · cases h

/-! ### 3. A failed prerequisite decides; targets and rules are not consulted -/

theorem prereq_failed {k : String} (hon : f.on = true)
    (h : Spec.checkPrereqs rec env f chain = .failed k) :
    Spec.evalBody rec seg env f chain = some (Spec.getOffValue f (.prereqFailed k), true) := by
  simp [Spec.evalBody, hon, h]

/-- Flag-level form: the first unmet prerequisite in `f.prerequisites` decides. -/
theorem prereq_failed_first (hon : f.on = true) (pre : List Prereq) (p : Prereq)
    (post : List Prereq) (hps : f.prerequisites = pre ++ p :: post)
    (hpre : ∀ q ∈ pre, Met rec env (chain ++ [f.key]) q)
    (hp : Unmet rec env (chain ++ [f.key]) p) :
    Spec.evalBody rec seg env f chain = some (Spec.getOffValue f (.prereqFailed p.key), true) := by
  apply prereq_failed hon
  have hne : f.prerequisites.isEmpty = false := by rw [hps]; simp
  simp only [Spec.checkPrereqs, hne]
  exact prereq_first_unmet _ pre p post hps hpre hp

/-- No prerequisites, or all met: the prerequisite stage passes. -/
theorem checkPrereqs_all_met (h : ∀ q ∈ f.prerequisites, Met rec env (chain ++ [f.key]) q) :
    Spec.checkPrereqs rec env f chain = .ok := by
  unfold Spec.checkPrereqs
  split
  · rfl
  · exact prereq_all_met _ h

theorem checkPrereqs_nil (h : f.prerequisites = []) :
    Spec.checkPrereqs rec env f chain = .ok := by
  simp [Spec.checkPrereqs, h]

/-! ### 4. A matching individual target beats every rule -/

theorem target_over_rules {v : Int} (hon : f.on = true)
    (hp : Spec.checkPrereqs rec env f chain = .ok) (ht : anyTargetMatch env.ctx f = some v) :
    Spec.evalBody rec seg env f chain = some (Spec.getVariation f v .targetMatch, true) := by
  simp [Spec.evalBody, hon, hp, ht]

/-! ### 5. The first matching rule, in listed order -/

theorem first_rule (rules pre : List FlagRule) (r : FlagRule) (post : List FlagRule) (i : Nat)
    (hr : rules = pre ++ r :: post)
    (hpre : ∀ q ∈ pre, Spec.clausesMatch seg env [] q.clauses = .ok false)
    (hm : Spec.clausesMatch seg env [] r.clauses = .ok true) :
    Spec.rulesLoop seg env f rules i =
      some (Spec.getValueForVR env f r.vr (.ruleMatch (i + pre.length) r.id), true) := by
  subst hr
  induction pre generalizing i with
  | nil => simp [Spec.rulesLoop, hm]
  | cons q pre ih =>
    have hq := hpre q (List.mem_cons_self ..)
    simp only [List.cons_append, Spec.rulesLoop, hq, List.length_cons]
    rw [ih (i + 1) (fun q' hq' => hpre q' (List.mem_cons_of_mem _ hq'))]
    rw [Nat.add_assoc, Nat.add_comm 1]

/-- Flag level: RULE_MATCH carrying the index (`pre.length`) and id of the first matching rule. -/
theorem first_rule_evalBody (pre : List FlagRule) (r : FlagRule) (post : List FlagRule)
    (hon : f.on = true) (hp : Spec.checkPrereqs rec env f chain = .ok)
    (ht : anyTargetMatch env.ctx f = none)
    (hr : f.rules = pre ++ r :: post)
    (hpre : ∀ q ∈ pre, Spec.clausesMatch seg env [] q.clauses = .ok false)
    (hm : Spec.clausesMatch seg env [] r.clauses = .ok true) :
    Spec.evalBody rec seg env f chain =
      some (Spec.getValueForVR env f r.vr (.ruleMatch pre.length r.id), true) := by
  have := first_rule (f := f) f.rules pre r post 0 hr hpre hm
  simp only [Nat.zero_add] at this
  simp [Spec.evalBody, hon, hp, ht, this]

/-! ### 6. Fallthrough -/

theorem fallthrough (rules : List FlagRule) (i : Nat)
    (h : ∀ q ∈ rules, Spec.clausesMatch seg env [] q.clauses = .ok false) :
    Spec.rulesLoop seg env f rules i =
      some (Spec.getValueForVR env f f.fallthrough .fallthrough, true) := by
  induction rules generalizing i with
  | nil => rfl
  | cons q rules ih =>
    have hq := h q (List.mem_cons_self ..)
    simp only [Spec.rulesLoop, hq]
    exact ih (i + 1) (fun q' hq' => h q' (List.mem_cons_of_mem _ hq'))

theorem fallthrough_evalBody (hon : f.on = true) (hp : Spec.checkPrereqs rec env f chain = .ok)
    (ht : anyTargetMatch env.ctx f = none)
    (h : ∀ q ∈ f.rules, Spec.clausesMatch seg env [] q.clauses = .ok false) :
    Spec.evalBody rec seg env f chain =
      some (Spec.getValueForVR env f f.fallthrough .fallthrough, true) := by
  simp [Spec.evalBody, hon, hp, ht, fallthrough f.rules 0 h]

/-! ### 7. A fixed variation ignores any rollout also present -/

theorem fixed_variation_ignores_rollout (vr : VariationOrRollout) (v : Int) (key salt : String)
    (h : vr.variation = some v) : variationOrRollout env vr key salt = .ok (v, false) := by
  simp [variationOrRollout, h]

theorem getValueForVR_fixed (vr : VariationOrRollout) (v : Int) (r : Reason)
    (h : vr.variation = some v) : Spec.getValueForVR env f vr r = Spec.getVariation f v r := by
  simp [Spec.getValueForVR, fixed_variation_ignores_rollout vr v f.key f.salt h]

/-- The rollout field is irrelevant: replacing it by anything gives the same detail. -/
theorem getValueForVR_rollout_irrelevant (v : Int) (ro ro' : Rollout) (r : Reason) :
    Spec.getValueForVR env f { variation := some v, rollout := ro } r =
      Spec.getValueForVR env f { variation := some v, rollout := ro' } r := by
  rw [getValueForVR_fixed _ v r rfl, getValueForVR_fixed _ v r rfl]

/-! ### 8. Reason and value content -/

theorem getVariation_ok {i : Int} (r : Reason) (h0 : 0 ≤ i) (h1 : i < f.variations.length) :
    Spec.getVariation f i r =
      { value := f.variations.getD i.toNat .null, index := some i, reason := r } := by
  unfold Spec.getVariation
  rw [if_neg]
  omega

theorem getVariation_bad {i : Int} (r : Reason) (h : i < 0 ∨ (f.variations.length : Int) ≤ i) :
    Spec.getVariation f i r = Detail.forError .malformedFlag := by
  unfold Spec.getVariation
  rw [if_pos]
  omega

theorem getOffValue_undefined (r : Reason) (h : f.offVariation = none) :
    Spec.getOffValue f r = { reason := r } := by
  simp [Spec.getOffValue, h]

theorem getOffValue_defined (r : Reason) {i : Int} (h : f.offVariation = some i) :
    Spec.getOffValue f r = Spec.getVariation f i r := by
  simp [Spec.getOffValue, h]

/-! ### 9. Transfer to the entry point `evaluate` -/

theorem evalFlag_top (env : Env) (f : Flag) :
    Spec.evalFlag (segFuel env.store) (flagFuel env.store) env f [] =
      Spec.evalBody
        (Spec.evalFlag (segFuel env.store) (distinctCount (env.store.flags.map (·.2.key)) + 1) env)
        (Spec.segContains (segFuel env.store) env) env f [] := rfl

/-- Targeting off, at the entry point. -/
theorem evaluate_off (env : Env) (f : Flag) (hc : env.ctx ≠ .invalid) (h : f.on = false) :
    (evaluate env f).result.detail.index = (Spec.getOffValue f .off).index ∧
    (evaluate env f).result.detail.value = (Spec.getOffValue f .off).value ∧
    (evaluate env f).result.detail.reason.kind = (Spec.getOffValue f .off).reason.kind := by
  have hs : Spec.evalFlag (segFuel env.store) (flagFuel env.store) env f [] =
      some (Spec.getOffValue f .off, true) := by
    rw [evalFlag_top]; exact off h
  obtain ⟨-, hv, hi, hk, -⟩ := evaluate_detail_spec env f hc _ _ hs
  exact ⟨hi, hv, hk⟩

/-- A matching individual target, at the entry point (flag without prerequisites), whatever the
rules are. -/
theorem evaluate_target_match (env : Env) (f : Flag) (v : Int) (hc : env.ctx ≠ .invalid)
    (hon : f.on = true) (hp : f.prerequisites = [])
    (ht : anyTargetMatch env.ctx f = some v) :
    (evaluate env f).result.detail.index = (Spec.getVariation f v .targetMatch).index ∧
    (evaluate env f).result.detail.value = (Spec.getVariation f v .targetMatch).value ∧
    (evaluate env f).result.detail.reason.kind = (Spec.getVariation f v .targetMatch).reason.kind := by
  have hs : Spec.evalFlag (segFuel env.store) (flagFuel env.store) env f [] =
      some (Spec.getVariation f v .targetMatch, true) := by
    rw [evalFlag_top]; exact target_over_rules hon (checkPrereqs_nil hp) ht
  obtain ⟨-, hv, hi, hk, -⟩ := evaluate_detail_spec env f hc _ _ hs
  exact ⟨hi, hv, hk⟩

/-- With a valid index the target match serves exactly that variation with TARGET_MATCH. -/
theorem evaluate_target_match_valid (env : Env) (f : Flag) (v : Int) (hc : env.ctx ≠ .invalid)
    (hon : f.on = true) (hp : f.prerequisites = [])
    (ht : anyTargetMatch env.ctx f = some v) (h0 : 0 ≤ v) (h1 : v < f.variations.length) :
    (evaluate env f).result.detail.index = some v ∧
    (evaluate env f).result.detail.value = f.variations.getD v.toNat .null ∧
    (evaluate env f).result.detail.reason.kind = .targetMatch := by
  have := evaluate_target_match env f v hc hon hp ht
  rw [getVariation_ok .targetMatch h0 h1] at this
  exact this

/-! ### 10. Non-vacuity: concrete flags and contexts satisfying the hypotheses -/

section Examples

/-- A user context `alice`; the store holds an off flag `p` and an on flag `q`. -/
def exEnv : Env :=
  { opts := {}, store := Store.ofLists [{ key := "p", on := false }, { key := "q", on := true }] [],
    bs := none, ctx := .single { kind := "user", key := "alice" }, rx := fun _ _ => none }

/-- A clause about kind `org`, which the context lacks: it does not match. -/
def orgClause : Clause :=
  { contextKind := "org", attr := { raw := "key", single := "key" }, op := "in",
    values := [.str "x"] }

/-- Rule `r0` does not match; rules `r1` and `r2` both match (no clauses); the fallthrough and `r1`
carry a rollout next to their fixed variation. -/
def exFlag : Flag :=
  { key := "f", on := true, variations := [.str "a", .str "b"],
    rules := [ { id := "r0", clauses := [orgClause], vr := { variation := some 0 } },
               { id := "r1", clauses := [],
                 vr := { variation := some 1,
                         rollout := { variations := [{ variation := 0, weight := 100000 }] } } },
               { id := "r2", clauses := [], vr := { variation := some 0 } } ],
    fallthrough := { variation := some 0 } }

theorem ex_orgClause (seg : Spec.SegRec) :
    Spec.clausesMatch seg exEnv [] [orgClause] = .ok false := by
  simp [Spec.clausesMatch, Spec.clauseMatch, orgClause, clauseMatchNoSeg, Ref.isDefined,
    Ref.errOf, Res.ofExcept, exEnv, Ctx.byKind, Ctx.individuals, normKind]

/-- Two rules match; the first of them (index 1, id `r1`) wins, and its rollout is ignored. -/
example (rec : Spec.FlagRec) (seg : Spec.SegRec) :
    Spec.evalBody rec seg exEnv exFlag [] =
      some ({ value := .str "b", index := some 1, reason := .ruleMatch 1 "r1" }, true) := by
  have h := first_rule_evalBody (rec := rec) (seg := seg) (env := exEnv) (f := exFlag) (chain := [])
    [{ id := "r0", clauses := [orgClause], vr := { variation := some 0 } }]
    { id := "r1", clauses := [],
      vr := { variation := some 1,
              rollout := { variations := [{ variation := 0, weight := 100000 }] } } }
    [{ id := "r2", clauses := [], vr := { variation := some 0 } }]
    rfl (checkPrereqs_nil rfl) (by simp [anyTargetMatch, exFlag]) rfl
    (by intro q hq; rw [List.mem_singleton.1 hq]; exact ex_orgClause seg) rfl
  rw [h, getValueForVR_fixed _ 1 _ rfl,
    getVariation_ok _ (by decide) (by simp [exFlag])]
  rfl

/-- The same flag with a target list naming `alice`: TARGET_MATCH, although rules match too. -/
example (rec : Spec.FlagRec) (seg : Spec.SegRec) :
    Spec.evalBody rec seg exEnv
        { exFlag with targets := [{ values := ["bob", "alice"], variation := 0 }] } [] =
      some ({ value := .str "a", index := some 0, reason := .targetMatch }, true) := by
  rw [target_over_rules (v := 0) rfl (checkPrereqs_nil rfl)
    (by simp [anyTargetMatch, exFlag, targetMatch, exEnv, Ctx.byKind, Ctx.individuals, normKind, defaultKind,
          Target.findKey, findKey]),
    getVariation_ok _ (by decide) (by simp [exFlag])]
  rfl

/-- Every rule fails to match: FALLTHROUGH. -/
example (rec : Spec.FlagRec) (seg : Spec.SegRec) :
    Spec.evalBody rec seg exEnv
        { exFlag with rules := [{ id := "r0", clauses := [orgClause] }] } [] =
      some ({ value := .str "a", index := some 0, reason := .fallthrough }, true) := by
  rw [fallthrough_evalBody rfl (checkPrereqs_nil rfl) (by simp [anyTargetMatch, exFlag])
      (by intro q hq; rw [List.mem_singleton.1 hq]; exact ex_orgClause seg),
    getValueForVR_fixed _ 0 _ rfl, getVariation_ok _ (by decide) (by simp [exFlag])]
  rfl

/-- Prerequisites `q` (met), `p` (unmet: it is off), `zzz` (missing): the first unmet one, `p`, is
named, and the off variation is undefined here, so no index is served. -/
example (seg : Spec.SegRec) :
    Spec.evalBody (fun _ _ => some ({ index := some 0, reason := .fallthrough }, true)) seg exEnv
        { exFlag with prerequisites := [⟨"q", 0⟩, ⟨"p", 0⟩, ⟨"zzz", 0⟩] } [] =
      some ({ reason := .prereqFailed "p" }, true) := by
  rw [prereq_failed_first (p := ⟨"p", 0⟩) rfl [⟨"q", 0⟩] [⟨"zzz", 0⟩] rfl
    (by
      intro q hq; rw [List.mem_singleton.1 hq]
      exact ⟨{ key := "q", on := true }, _, by simp [exEnv, Store.findFlag, Store.ofLists],
        by simp [exFlag], rfl, rfl, rfl⟩)
    (Or.inr ⟨{ key := "p", on := false }, _, by simp [exEnv, Store.findFlag, Store.ofLists],
      by simp [exFlag], rfl, by simp⟩),
    getOffValue_undefined _ rfl]

/-- Targeting off: OFF, with the off variation. -/
example (rec : Spec.FlagRec) (seg : Spec.SegRec) :
    Spec.evalBody rec seg exEnv { exFlag with on := false, offVariation := some 1 } [] =
      some ({ value := .str "b", index := some 1, reason := .off }, true) := by
  rw [off rfl, getOffValue_defined _ rfl, getVariation_ok _ (by decide) (by simp [exFlag])]
  rfl

end Examples

/-! ## Strengthened statements (theorem audit) -/

/-! The audit (C02 #4–#6, G1) found the stage semantics stated on `Spec.*` only and transferred to
`evaluate` for OFF and for TARGET_MATCH without prerequisites.  This part adds

* A1–A3: the missing Spec-level pieces (aborting prerequisites, erroring rules, the converse for the
  rule loop) and the whole decision order of one flag as a single iff (`evalBody_iff_stage`);
* A4: the same at the entry point: `evaluate_decision_order` (existence and uniqueness of the
  decided detail, all eight reason/value fields), `evaluate_reason_inv` (the converse, per reason
  kind) and one flat theorem per stage, WITH prerequisites;
* A5: prerequisites "met"/"unmet" expressed through `evaluate` of the prerequisite itself;
* A6: `Result.isExperiment`, which the bridge `evaluate_detail_spec` leaves out;
* A7: the big-segments status and the side channels are untouched by the stages that do not reach
  segments (off, prerequisite failed, target match). -/

/-! ### A1. Aborting prerequisites -/

/-- Prerequisite `p` aborts the whole evaluation: the flag the store returns is already on the chain
(a cycle), or its own evaluation aborted. -/
def Aborts (rec : Spec.FlagRec) (env : Env) (chain : List String) (p : Prereq) : Prop :=
  ∃ pf, env.store.findFlag p.key = some pf ∧
    (chain.contains pf.key = true ∨
      (chain.contains pf.key = false ∧ ∃ d, rec pf chain = some (d, false)))

/-- An aborting prerequisite at the head of the list makes the loop return `malformed` at once: Go's
`checkPrerequisites` returns `ok = false` and the later prerequisites are never looked at. -/
theorem prereqLoop_aborts_cons (p : Prereq) (ps : List Prereq) (h : Aborts rec env chain p) :
    Spec.prereqLoop rec env chain (p :: ps) = .malformed := by
  obtain ⟨pf, h1, h2 | ⟨h2, d, h3⟩⟩ := h
  · simp only [Spec.prereqLoop, h1, h2, ↓reduceIte]
  · simp only [Spec.prereqLoop, h1, h2, h3, Bool.false_eq_true, ↓reduceIte, Bool.not_false]

/-- If every prerequisite before `p` is met and `p` aborts (cycle, or its own evaluation was
aborted), the loop aborts: the whole `Evaluate` call becomes MALFORMED_FLAG. -/
theorem prereq_first_aborts (ps pre : List Prereq) (p : Prereq) (post : List Prereq)
    (hps : ps = pre ++ p :: post) (hpre : ∀ q ∈ pre, Met rec env chain q)
    (hp : Aborts rec env chain p) :
    Spec.prereqLoop rec env chain ps = .malformed := by
  subst hps
  induction pre with
  | nil => exact prereqLoop_aborts_cons p post hp
  | cons q pre ih =>
    rw [List.cons_append, prereqLoop_met_cons q _ (hpre q (List.mem_cons_self ..))]
    exact ih (fun q' hq' => hpre q' (List.mem_cons_of_mem _ hq'))

/-- Converse: an aborted prerequisite loop stopped at a definite prerequisite `p`, everything listed
before `p` was met, and `p` is a cycle back into the chain or a flag whose own evaluation aborted.
-/
theorem prereq_malformed_inv (ps : List Prereq)
    (h : Spec.prereqLoop rec env chain ps = .malformed) :
    ∃ pre p post, ps = pre ++ p :: post ∧ (∀ q ∈ pre, Met rec env chain q) ∧
      Aborts rec env chain p := by
  induction ps with
  | nil => simp [Spec.prereqLoop] at h
  | cons p ps ih =>
    unfold Spec.prereqLoop at h
    split at h
    · cases h
    · next pf hf =>
      split at h
      · next hch => exact ⟨[], p, ps, rfl, by simp, pf, hf, Or.inl hch⟩
      · next hch =>
        split at h
        · cases h
        · next d ok hr =>
          split at h
          · next hok =>
            have hok' : ok = false := by simpa using hok
            subst hok'
            exact ⟨[], p, ps, rfl, by simp, pf, hf, Or.inr ⟨by simpa using hch, d, hr⟩⟩
          · next hok =>
            have hok' : ok = true := by simpa using hok
            subst hok'
            split at h
            · next hc =>
              obtain ⟨pre, p', post, hps, hpre, hab⟩ := ih h
              refine ⟨p :: pre, p', post, by rw [hps]; rfl, ?_, hab⟩
              intro q hq
              rcases List.mem_cons.1 hq with rfl | hq
              · exact ⟨pf, d, hf, by simpa using hch, hr, (prereqCond_iff pf d q).1 hc⟩
              · exact hpre q hq
            · cases h


/-! ### A2. The rule loop: erroring rules and the converse -/

/-- The first rule whose clauses do not simply evaluate to "no match" decides: if that rule's
clauses raise an evaluation error `e`, the rule loop stops with an error detail of `e`'s kind and
`ok = false` (Go: `return EvaluationDetail{}, false` after `errorKindForError`), later rules are not
tried. -/
theorem rule_error (rules pre : List FlagRule) (r : FlagRule) (post : List FlagRule) (i : Nat)
    (e : EvalErr) (hr : rules = pre ++ r :: post)
    (hpre : ∀ q ∈ pre, Spec.clausesMatch seg env [] q.clauses = .ok false)
    (hm : Spec.clausesMatch seg env [] r.clauses = .err e) :
    Spec.rulesLoop seg env f rules i = some (Detail.forError e.kind, false) := by
  subst hr
  induction pre generalizing i with
  | nil => simp [Spec.rulesLoop, hm]
  | cons q pre ih =>
    have hq := hpre q (List.mem_cons_self ..)
    simp only [List.cons_append, Spec.rulesLoop, hq]
    exact ih (i + 1) (fun q' hq' => hpre q' (List.mem_cons_of_mem _ hq'))

/-- Converse for the rule loop, all three exits: a completed `rulesLoop` either found a FIRST
matching rule (all earlier ones evaluated to "no match") and returns that rule's variation-or-
rollout with RULE_MATCH, its index and id; or hit an erroring rule first; or no rule matched and it
returns the fallthrough. -/
theorem rulesLoop_inv (rules : List FlagRule) (i : Nat) (d : Detail) (ok : Bool)
    (h : Spec.rulesLoop seg env f rules i = some (d, ok)) :
    (∃ pre r post, rules = pre ++ r :: post ∧
        (∀ q ∈ pre, Spec.clausesMatch seg env [] q.clauses = .ok false) ∧
        Spec.clausesMatch seg env [] r.clauses = .ok true ∧
        d = Spec.getValueForVR env f r.vr (.ruleMatch (i + pre.length) r.id) ∧ ok = true) ∨
    (∃ pre r post e, rules = pre ++ r :: post ∧
        (∀ q ∈ pre, Spec.clausesMatch seg env [] q.clauses = .ok false) ∧
        Spec.clausesMatch seg env [] r.clauses = .err e ∧
        d = Detail.forError e.kind ∧ ok = false) ∨
    ((∀ q ∈ rules, Spec.clausesMatch seg env [] q.clauses = .ok false) ∧
        d = Spec.getValueForVR env f f.fallthrough .fallthrough ∧ ok = true) := by
  induction rules generalizing i with
  | nil =>
    simp only [Spec.rulesLoop, Option.some.injEq, Prod.mk.injEq] at h
    exact Or.inr (Or.inr ⟨by simp, h.1.symm, h.2.symm⟩)
  | cons r rules ih =>
    unfold Spec.rulesLoop at h
    split at h
    · next e he =>
      simp only [Option.some.injEq, Prod.mk.injEq] at h
      exact Or.inr (Or.inl ⟨[], r, rules, e, rfl, by simp, he, h.1.symm, h.2.symm⟩)
    · cases h
    · next he =>
      simp only [Option.some.injEq, Prod.mk.injEq] at h
      exact Or.inl ⟨[], r, rules, rfl, by simp, he, by simpa using h.1.symm, h.2.symm⟩
    · next he =>
      have hcons : ∀ pre : List FlagRule, (∀ q ∈ pre, Spec.clausesMatch seg env [] q.clauses = .ok false) →
          ∀ q ∈ r :: pre, Spec.clausesMatch seg env [] q.clauses = .ok false := by
        intro pre hpre q hq
        rcases List.mem_cons.1 hq with rfl | hq
        · exact he
        · exact hpre q hq
      rcases ih (i + 1) h with ⟨pre, r', post, hr, hpre, hm, hd, hok⟩ | ⟨pre, r', post, e, hr, hpre, hm, hd, hok⟩ |
          ⟨hall, hd, hok⟩
      · refine Or.inl ⟨r :: pre, r', post, by rw [hr]; rfl, hcons pre hpre, hm, ?_, hok⟩
        rw [hd, List.length_cons, Nat.add_assoc, Nat.add_comm 1]
      · exact Or.inr (Or.inl ⟨r :: pre, r', post, e, by rw [hr]; rfl, hcons pre hpre, hm, hd, hok⟩)
      · exact Or.inr (Or.inr ⟨hcons rules hall, hd, hok⟩)

/-! ### A3. The decision order of one flag as a single statement -/

/-- The decision table of `evaluationScope.evaluate`, written as data: which stage decides, under
which conditions, and what detail (and `ok` bit) it yields.  Seven mutually exclusive rows in the
order the Go code tests them: off; first unmet prerequisite (all earlier ones met); first aborting
prerequisite; individual target; first matching rule; first erroring rule; fallthrough.  `rec`/`seg`
are the nested flag / segment evaluators. -/
inductive StageOf (rec : Spec.FlagRec) (seg : Spec.SegRec) (env : Env) (f : Flag)
    (chain : List String) : Detail → Bool → Prop
  | off : f.on = false → StageOf rec seg env f chain (Spec.getOffValue f .off) true
  | prereqFailed (pre : List Prereq) (p : Prereq) (post : List Prereq) :
      f.on = true → f.prerequisites = pre ++ p :: post →
      (∀ q ∈ pre, Met rec env (chain ++ [f.key]) q) → Unmet rec env (chain ++ [f.key]) p →
      StageOf rec seg env f chain (Spec.getOffValue f (.prereqFailed p.key)) true
  | prereqAbort (pre : List Prereq) (p : Prereq) (post : List Prereq) :
      f.on = true → f.prerequisites = pre ++ p :: post →
      (∀ q ∈ pre, Met rec env (chain ++ [f.key]) q) → Aborts rec env (chain ++ [f.key]) p →
      StageOf rec seg env f chain (Detail.forError .malformedFlag) false
  | target (v : Int) :
      f.on = true → (∀ q ∈ f.prerequisites, Met rec env (chain ++ [f.key]) q) →
      anyTargetMatch env.ctx f = some v →
      StageOf rec seg env f chain (Spec.getVariation f v .targetMatch) true
  | rule (pre : List FlagRule) (r : FlagRule) (post : List FlagRule) :
      f.on = true → (∀ q ∈ f.prerequisites, Met rec env (chain ++ [f.key]) q) →
      anyTargetMatch env.ctx f = none → f.rules = pre ++ r :: post →
      (∀ q ∈ pre, Spec.clausesMatch seg env [] q.clauses = .ok false) →
      Spec.clausesMatch seg env [] r.clauses = .ok true →
      StageOf rec seg env f chain (Spec.getValueForVR env f r.vr (.ruleMatch pre.length r.id)) true
  | ruleError (pre : List FlagRule) (r : FlagRule) (post : List FlagRule) (e : EvalErr) :
      f.on = true → (∀ q ∈ f.prerequisites, Met rec env (chain ++ [f.key]) q) →
      anyTargetMatch env.ctx f = none → f.rules = pre ++ r :: post →
      (∀ q ∈ pre, Spec.clausesMatch seg env [] q.clauses = .ok false) →
      Spec.clausesMatch seg env [] r.clauses = .err e →
      StageOf rec seg env f chain (Detail.forError e.kind) false
  | fallthrough :
      f.on = true → (∀ q ∈ f.prerequisites, Met rec env (chain ++ [f.key]) q) →
      anyTargetMatch env.ctx f = none →
      (∀ q ∈ f.rules, Spec.clausesMatch seg env [] q.clauses = .ok false) →
      StageOf rec seg env f chain (Spec.getValueForVR env f f.fallthrough .fallthrough) true

/-- `checkPrerequisites` passing means every listed prerequisite is met (vacuous for an empty list,
which Go short-cuts). -/
theorem checkPrereqs_ok_inv (h : Spec.checkPrereqs rec env f chain = .ok) :
    ∀ q ∈ f.prerequisites, Met rec env (chain ++ [f.key]) q := by
  unfold Spec.checkPrereqs at h
  split at h
  · next he =>
    intro q hq
    rw [List.isEmpty_iff.1 he] at hq
    cases hq
  · exact prereq_ok_inv _ h

/-- The empty-list shortcut of `checkPrerequisites` is not a separate case: it equals running the
loop over the (empty) list. -/
theorem checkPrereqs_eq_loop :
    Spec.checkPrereqs rec env f chain = Spec.prereqLoop rec env (chain ++ [f.key]) f.prerequisites := by
  unfold Spec.checkPrereqs
  split
  · next he => rw [List.isEmpty_iff.1 he]; rfl
  · rfl

/-- The specification's `evalBody` returns `(d, ok)` exactly when some row of the decision table
`StageOf` yields `(d, ok)`: the table is sound, complete and (hence) functional.  This is the whole
decision order of one flag as a single statement. -/
theorem evalBody_iff_stage (d : Detail) (ok : Bool) :
    Spec.evalBody rec seg env f chain = some (d, ok) ↔ StageOf rec seg env f chain d ok := by
  constructor
  · intro h
    unfold Spec.evalBody at h
    split at h
    · next hon =>
      simp only [Option.some.injEq, Prod.mk.injEq] at h
      obtain ⟨rfl, rfl⟩ := h
      exact .off (by simpa using hon)
    · next hon =>
      have hon' : f.on = true := by simpa using hon
      split at h
      · cases h
      · next hp =>
        simp only [Option.some.injEq, Prod.mk.injEq] at h
        obtain ⟨rfl, rfl⟩ := h
        rw [checkPrereqs_eq_loop] at hp
        obtain ⟨pre, p, post, hps, hpre, hab⟩ := prereq_malformed_inv _ hp
        exact .prereqAbort pre p post hon' hps hpre hab
      · next k hp =>
        simp only [Option.some.injEq, Prod.mk.injEq] at h
        obtain ⟨rfl, rfl⟩ := h
        rw [checkPrereqs_eq_loop] at hp
        obtain ⟨pre, p, post, hps, rfl, hpre, hun⟩ := prereq_failed_inv _ _ hp
        exact .prereqFailed pre p post hon' hps hpre hun
      · next hp =>
        have hmet := checkPrereqs_ok_inv hp
        split at h
        · next v ht =>
          simp only [Option.some.injEq, Prod.mk.injEq] at h
          obtain ⟨rfl, rfl⟩ := h
          exact .target v hon' hmet ht
        · next ht =>
          rcases rulesLoop_inv _ _ _ _ h with ⟨pre, r, post, hr, hpre, hm, rfl, rfl⟩ |
              ⟨pre, r, post, e, hr, hpre, hm, rfl, rfl⟩ | ⟨hall, rfl, rfl⟩
          · rw [Nat.zero_add]
            exact .rule pre r post hon' hmet ht hr hpre hm
          · exact .ruleError pre r post e hon' hmet ht hr hpre hm
          · exact .fallthrough hon' hmet ht hall
  · intro h
    cases h with
    | off hon => exact off hon
    | prereqFailed pre p post hon hps hpre hun => exact prereq_failed_first hon pre p post hps hpre hun
    | prereqAbort pre p post hon hps hpre hab =>
      have : Spec.checkPrereqs rec env f chain = .malformed := by
        rw [checkPrereqs_eq_loop]; exact prereq_first_aborts _ pre p post hps hpre hab
      simp [Spec.evalBody, hon, this]
    | target v hon hmet ht => exact target_over_rules hon (checkPrereqs_all_met hmet) ht
    | rule pre r post hon hmet ht hr hpre hm =>
      exact first_rule_evalBody pre r post hon (checkPrereqs_all_met hmet) ht hr hpre hm
    | ruleError pre r post e hon hmet ht hr hpre hm =>
      simp [Spec.evalBody, hon, checkPrereqs_all_met hmet, ht,
        rule_error (f := f) f.rules pre r post 0 e hr hpre hm]
    | fallthrough hon hmet ht hall => exact fallthrough_evalBody hon (checkPrereqs_all_met hmet) ht hall


/-! ### A4. The entry point `evaluate` -/

/-- The nested flag evaluator that `evaluate` hands to the prerequisite loop of the top flag. -/
abbrev topRec (env : Env) : Spec.FlagRec :=
  Spec.evalFlag (segFuel env.store) (distinctCount (env.store.flags.map (·.2.key)) + 1) env

/-- The segment evaluator that `evaluate` uses for the rules of the top flag. -/
abbrev topSeg (env : Env) : Spec.SegRec := Spec.segContains (segFuel env.store) env

/-- `o` is the detail `d` in every field except the big-segments status annotation. -/
structure DetailIs (o d : Detail) : Prop where
  value : o.value = d.value
  index : o.index = d.index
  kind : o.reason.kind = d.reason.kind
  ruleIndex : o.reason.ruleIndex = d.reason.ruleIndex
  ruleId : o.reason.ruleId = d.reason.ruleId
  prereqKey : o.reason.prereqKey = d.reason.prereqKey
  errorKind : o.reason.errorKind = d.reason.errorKind
  inExperiment : o.reason.inExperiment = d.reason.inExperiment

/-- Every detail is itself. -/
theorem DetailIs.refl (d : Detail) : DetailIs d d := ⟨rfl, rfl, rfl, rfl, rfl, rfl, rfl, rfl⟩

/-- `DetailIs o d` pins `o` down completely except for `reason.bigSegmentsStatus`. -/
theorem DetailIs.eq {o d : Detail} (h : DetailIs o d) :
    o = { d with reason := { d.reason with bigSegmentsStatus := o.reason.bigSegmentsStatus } } := by
  obtain ⟨h1, h2, h3, h4, h5, h6, h7, h8⟩ := h
  obtain ⟨xv, xi, xr⟩ := o
  obtain ⟨rk, ri, rid, rp, re, rx, rb⟩ := xr
  simp only at h1 h2 h3 h4 h5 h6 h7 h8
  subst h1 h2 h3 h4 h5 h6 h7 h8
  rfl

/-- The bridge `evaluate_detail_spec` in `DetailIs` form: what the Spec computes for the top flag is
what `Evaluate` returns, field by field (big-segments status aside). -/
theorem detailIs_of_spec (env : Env) (f : Flag) (hc : env.ctx ≠ .invalid) (d : Detail) (ok : Bool)
    (hs : Spec.evalFlag (segFuel env.store) (flagFuel env.store) env f [] = some (d, ok)) :
    DetailIs (evaluate env f).result.detail d := by
  obtain ⟨-, h1, h2, h3, h4, h5, h6, h7, h8⟩ := evaluate_detail_spec env f hc d ok hs
  exact ⟨h1, h2, h3, h4, h5, h6, h7, h8⟩

/-- For a valid context the Spec run behind `evaluate` always completes (it never runs out of fuel)
— from totality of `evaluate` (C01/C10). -/
theorem spec_top_some (env : Env) (f : Flag) (hc : env.ctx ≠ .invalid) :
    ∃ d ok, Spec.evalFlag (segFuel env.store) (flagFuel env.store) env f [] = some (d, ok) := by
  cases h : Spec.evalFlag (segFuel env.store) (flagFuel env.store) env f [] with
  | some r => exact ⟨r.1, r.2, rfl⟩
  | none =>
    have := evaluate_oof_spec env f hc h
    rw [evaluate_total] at this
    cases this

/-- The Spec run behind `evaluate` is a stage of the decision table, and conversely. -/
theorem spec_top_iff_stage (env : Env) (f : Flag) (d : Detail) (ok : Bool) :
    Spec.evalFlag (segFuel env.store) (flagFuel env.store) env f [] = some (d, ok) ↔
      StageOf (topRec env) (topSeg env) env f [] d ok := by
  rw [evalFlag_top]; exact evalBody_iff_stage d ok

/-- Soundness of the table at the entry point: if a row of the decision table applies to the flag
passed to `Evaluate` (nested evaluators being the ones `Evaluate` itself uses), `Evaluate` returns
that row's detail. -/
theorem evaluate_of_stage {env : Env} {f : Flag} {d : Detail} {ok : Bool} (hc : env.ctx ≠ .invalid)
    (h : StageOf (topRec env) (topSeg env) env f [] d ok) :
    DetailIs (evaluate env f).result.detail d :=
  detailIs_of_spec env f hc d ok ((spec_top_iff_stage env f d ok).2 h)

/-- What `Evaluator.Evaluate` decides: USER_NOT_SPECIFIED for an invalid context, otherwise a row of
the decision table for the top flag, with the prerequisites evaluated by `topRec` (chain = the
flag's own key) and the rule clauses by `topSeg`. -/
inductive Decision (env : Env) (f : Flag) : Detail → Prop
  | invalid : env.ctx = .invalid → Decision env f (Detail.forError .userNotSpecified)
  | staged (d : Detail) (ok : Bool) : env.ctx ≠ .invalid →
      StageOf (topRec env) (topSeg env) env f [] d ok → Decision env f d

/-- THE decision order, as one statement about `Evaluate`, for every flag, store, provider and
context: there is exactly one detail `d` the decision table allows (`Decision`: invalid context,
else off → first failing prerequisite, naming it → first aborting prerequisite → individual target →
first matching rule with its index and id → first erroring rule → fallthrough), and the result of
`Evaluate` equals that `d` in value, index, reason kind, rule index, rule id, prerequisite key,
error kind and `inExperiment` (`DetailIs`).  No later stage can override an earlier one because the
rows are mutually exclusive (uniqueness). -/
theorem evaluate_decision_order (env : Env) (f : Flag) :
    ∃ d, Decision env f d ∧ DetailIs (evaluate env f).result.detail d ∧
      ∀ d', Decision env f d' → d' = d := by
  by_cases hc : env.ctx = .invalid
  · refine ⟨_, .invalid hc, ?_, ?_⟩
    · rw [(evaluate_invalid f hc).2]; exact DetailIs.refl _
    · intro d' h'
      cases h' with
      | invalid _ => rfl
      | staged _ _ hc' _ => exact absurd hc hc'
  · obtain ⟨d, ok, hs⟩ := spec_top_some env f hc
    refine ⟨d, .staged d ok hc ((spec_top_iff_stage env f d ok).1 hs), detailIs_of_spec env f hc d ok hs, ?_⟩
    intro d' h'
    cases h' with
    | invalid hc' => exact absurd hc' hc
    | staged _ ok' _ hst =>
      have := (spec_top_iff_stage env f d' ok').2 hst
      rw [hs] at this
      simp only [Option.some.injEq, Prod.mk.injEq] at this
      exact this.1.symm


/-! ### A4a. The reason carried by each stage -/

/-- `reasonToExperimentReason` keeps the kind. -/
theorem toExperiment_kind (r : Reason) : r.toExperiment.kind = r.kind := by
  unfold Reason.toExperiment; split <;> rfl
/-- `reasonToExperimentReason` keeps the rule index. -/
theorem toExperiment_ruleIndex (r : Reason) : r.toExperiment.ruleIndex = r.ruleIndex := by
  unfold Reason.toExperiment; split <;> rfl
/-- `reasonToExperimentReason` keeps the rule id. -/
theorem toExperiment_ruleId (r : Reason) : r.toExperiment.ruleId = r.ruleId := by
  unfold Reason.toExperiment; split <;> rfl

/-- `getVariation`: MALFORMED_FLAG for an index out of range, else exactly that variation with the
given reason. -/
theorem getVariation_cases (f : Flag) (i : Int) (r : Reason) :
    ((i < 0 ∨ (f.variations.length : Int) ≤ i) ∧
        Spec.getVariation f i r = Detail.forError .malformedFlag) ∨
    (0 ≤ i ∧ i < f.variations.length ∧
        Spec.getVariation f i r =
          { value := f.variations.getD i.toNat .null, index := some i, reason := r }) := by
  by_cases h : i < 0 ∨ (f.variations.length : Int) ≤ i
  · exact Or.inl ⟨h, getVariation_bad r h⟩
  · have h0 : 0 ≤ i := by omega
    have h1 : i < f.variations.length := by omega
    exact Or.inr ⟨h0, h1, getVariation_ok r h0 h1⟩

/-- `getOffValue` yields MALFORMED_FLAG (off variation out of range) or a detail carrying exactly
the given reason. -/
theorem getOffValue_cases (f : Flag) (r : Reason) :
    Spec.getOffValue f r = Detail.forError .malformedFlag ∨ (Spec.getOffValue f r).reason = r := by
  unfold Spec.getOffValue
  split
  · exact Or.inr rfl
  · next i _ =>
    rcases getVariation_cases f i r with ⟨_, h⟩ | ⟨_, _, h⟩
    · exact Or.inl h
    · exact Or.inr (by rw [h])

/-- `getValueForVariationOrRollout` yields an error detail (bad index, empty rollout, bad bucket-by
reference) or a detail whose reason is the given one, possibly marked `inExperiment`. -/
theorem getValueForVR_cases (env : Env) (f : Flag) (vr : VariationOrRollout) (r : Reason) :
    (∃ k, Spec.getValueForVR env f vr r = Detail.forError k) ∨
    (Spec.getValueForVR env f vr r).reason = r ∨
    (Spec.getValueForVR env f vr r).reason = r.toExperiment := by
  unfold Spec.getValueForVR
  split
  · next e _ => exact Or.inl ⟨e.kind, rfl⟩
  · next i inExp _ =>
    rcases getVariation_cases f i (if inExp then r.toExperiment else r) with ⟨_, h⟩ | ⟨_, _, h⟩
    · exact Or.inl ⟨_, h⟩
    · rw [h]
      cases inExp
      · exact Or.inr (Or.inl rfl)
      · exact Or.inr (Or.inr rfl)

/-- What the reason kind of a decided detail says about the flag — the table read backwards: a non-
error kind identifies its row, together with the key of the failing prerequisite (first unmet, all
earlier met), the matched target variation, or the index and id of the FIRST matching rule. -/
theorem StageOf.classify {d : Detail} {ok : Bool} (h : StageOf rec seg env f chain d ok) :
    d.reason.kind = .error ∨
    (d.reason.kind = .off ∧ f.on = false) ∨
    (d.reason.kind = .prereqFailed ∧ f.on = true ∧ ∃ pre p post,
        f.prerequisites = pre ++ p :: post ∧ (∀ q ∈ pre, Met rec env (chain ++ [f.key]) q) ∧
        Unmet rec env (chain ++ [f.key]) p ∧ d.reason.prereqKey = p.key) ∨
    (d.reason.kind = .targetMatch ∧ f.on = true ∧
        (∀ q ∈ f.prerequisites, Met rec env (chain ++ [f.key]) q) ∧
        ∃ v, anyTargetMatch env.ctx f = some v ∧ d.index = some v) ∨
    (d.reason.kind = .ruleMatch ∧ f.on = true ∧
        (∀ q ∈ f.prerequisites, Met rec env (chain ++ [f.key]) q) ∧
        anyTargetMatch env.ctx f = none ∧ ∃ pre r post, f.rules = pre ++ r :: post ∧
        (∀ q ∈ pre, Spec.clausesMatch seg env [] q.clauses = .ok false) ∧
        Spec.clausesMatch seg env [] r.clauses = .ok true ∧
        d.reason.ruleIndex = pre.length ∧ d.reason.ruleId = r.id) ∨
    (d.reason.kind = .fallthrough ∧ f.on = true ∧
        (∀ q ∈ f.prerequisites, Met rec env (chain ++ [f.key]) q) ∧
        anyTargetMatch env.ctx f = none ∧
        ∀ q ∈ f.rules, Spec.clausesMatch seg env [] q.clauses = .ok false) := by
  cases h with
  | off hon =>
    rcases getOffValue_cases f .off with h | h
    · exact Or.inl (by rw [h]; rfl)
    · exact Or.inr (Or.inl ⟨by rw [h]; rfl, hon⟩)
  | prereqFailed pre p post hon hps hpre hun =>
    rcases getOffValue_cases f (.prereqFailed p.key) with h | h
    · exact Or.inl (by rw [h]; rfl)
    · exact Or.inr (Or.inr (Or.inl ⟨by rw [h]; rfl, hon, pre, p, post, hps, hpre, hun, by rw [h]; rfl⟩))
  | prereqAbort => exact Or.inl rfl
  | target v hon hmet ht =>
    rcases getVariation_cases f v .targetMatch with ⟨_, h⟩ | ⟨_, _, h⟩
    · exact Or.inl (by rw [h]; rfl)
    · exact Or.inr (Or.inr (Or.inr (Or.inl ⟨by rw [h]; rfl, hon, hmet, v, ht, by rw [h]⟩)))
  | rule pre r post hon hmet ht hr hpre hm =>
    rcases getValueForVR_cases env f r.vr (.ruleMatch pre.length r.id) with ⟨k, h⟩ | h | h
    · exact Or.inl (by rw [h]; rfl)
    · exact Or.inr (Or.inr (Or.inr (Or.inr (Or.inl
        ⟨by rw [h]; rfl, hon, hmet, ht, pre, r, post, hr, hpre, hm, by rw [h]; rfl, by rw [h]; rfl⟩))))
    · exact Or.inr (Or.inr (Or.inr (Or.inr (Or.inl
        ⟨by rw [h, toExperiment_kind]; rfl, hon, hmet, ht, pre, r, post, hr, hpre, hm,
          by rw [h, toExperiment_ruleIndex]; rfl, by rw [h, toExperiment_ruleId]; rfl⟩))))
  | ruleError => exact Or.inl rfl
  | fallthrough hon hmet ht hall =>
    rcases getValueForVR_cases env f f.fallthrough .fallthrough with ⟨k, h⟩ | h | h
    · exact Or.inl (by rw [h]; rfl)
    · exact Or.inr (Or.inr (Or.inr (Or.inr (Or.inr ⟨by rw [h]; rfl, hon, hmet, ht, hall⟩))))
    · exact Or.inr (Or.inr (Or.inr (Or.inr (Or.inr
        ⟨by rw [h, toExperiment_kind]; rfl, hon, hmet, ht, hall⟩))))


/-- Converse for the rule loop (audit finding 6): a completed rule loop that answers RULE_MATCH did
so for the first rule whose clauses all match, every earlier rule having evaluated to "no match",
and the reason carries that rule's index (offset by the loop's start index) and id. -/
theorem rule_match_inv (rules : List FlagRule) (i : Nat) (d : Detail)
    (h : Spec.rulesLoop seg env f rules i = some (d, true)) (hk : d.reason.kind = .ruleMatch) :
    ∃ pre r post, rules = pre ++ r :: post ∧
      (∀ q ∈ pre, Spec.clausesMatch seg env [] q.clauses = .ok false) ∧
      Spec.clausesMatch seg env [] r.clauses = .ok true ∧
      d = Spec.getValueForVR env f r.vr (.ruleMatch (i + pre.length) r.id) ∧
      d.reason.ruleIndex = ((i + pre.length : Nat) : Int) ∧ d.reason.ruleId = r.id := by
  rcases rulesLoop_inv rules i d true h with ⟨pre, r, post, hr, hpre, hm, hd, -⟩ |
      ⟨_, _, _, _, _, _, _, _, hok⟩ | ⟨_, hd, -⟩
  · refine ⟨pre, r, post, hr, hpre, hm, hd, ?_⟩
    rcases getValueForVR_cases env f r.vr (.ruleMatch (i + pre.length) r.id) with ⟨k, h'⟩ | h' | h'
    · rw [hd, h'] at hk; cases hk
    · rw [hd, h']; exact ⟨rfl, rfl⟩
    · rw [hd, h', toExperiment_ruleIndex, toExperiment_ruleId]; exact ⟨rfl, rfl⟩
  · cases hok
  · exfalso
    rcases getValueForVR_cases env f f.fallthrough .fallthrough with ⟨k, h'⟩ | h' | h'
    · rw [hd, h'] at hk; cases hk
    · rw [hd, h'] at hk; cases hk
    · rw [hd, h', toExperiment_kind] at hk; cases hk

/-! ### A4b. Vocabulary for the flag passed to `evaluate`, and the converse -/

/-- Prerequisite `p` of the flag `f` passed to `Evaluate` is met: the store has it, it is not `f`
itself (cycle test against the chain `[f.key]`), its nested evaluation completes, it is on and
serves exactly `p.variation`. -/
abbrev PrereqMet (env : Env) (f : Flag) (p : Prereq) : Prop := Met (topRec env) env [f.key] p
/-- Prerequisite `p` of the top flag is unmet: missing from the store, or its nested evaluation
completes and it is off or serves something else. -/
abbrev PrereqUnmet (env : Env) (f : Flag) (p : Prereq) : Prop := Unmet (topRec env) env [f.key] p
/-- Prerequisite `p` of the top flag aborts the evaluation: the store returns a flag with the top
flag's own key (cycle), or the nested evaluation itself aborted. -/
abbrev PrereqAborts (env : Env) (f : Flag) (p : Prereq) : Prop := Aborts (topRec env) env [f.key] p
/-- All clauses of rule `r` match, as `Evaluate` evaluates them for the top flag (segments through
`topSeg`). -/
abbrev RuleMatches (env : Env) (r : FlagRule) : Prop :=
  Spec.clausesMatch (topSeg env) env [] r.clauses = .ok true
/-- Some clause of rule `r` does not match, and none before it raised an error. -/
abbrev RuleFails (env : Env) (r : FlagRule) : Prop :=
  Spec.clausesMatch (topSeg env) env [] r.clauses = .ok false
/-- Evaluating the clauses of rule `r` raises the evaluation error `e` (bad attribute reference,
malformed segment, …). -/
abbrev RuleErrors (env : Env) (r : FlagRule) (e : EvalErr) : Prop :=
  Spec.clausesMatch (topSeg env) env [] r.clauses = .err e

/-- An invalid context gives an ERROR result. -/
theorem evaluate_kind_error_of_invalid {env : Env} (f : Flag) (hc : env.ctx = .invalid) :
    (evaluate env f).result.detail.reason.kind = .error := by
  rw [(evaluate_invalid f hc).2]; rfl

/-- The decision order read backwards, at the entry point and for every input: a result of
`Evaluate` with reason OFF comes from a flag that is off; PREREQUISITE_FAILED names the first unmet
prerequisite, all listed before it being met; TARGET_MATCH means the flag is on, all prerequisites
are met and the targeting stage answered the served index; RULE_MATCH means moreover no target
matched and the reason's index and id are those of the FIRST matching rule; FALLTHROUGH means no
target and no rule matched.  So a Go change that lets a later stage win over an earlier one
falsifies this theorem. -/
theorem evaluate_reason_inv (env : Env) (f : Flag) :
    ((evaluate env f).result.detail.reason.kind = .off → f.on = false) ∧
    ((evaluate env f).result.detail.reason.kind = .prereqFailed → f.on = true ∧
      ∃ pre p post, f.prerequisites = pre ++ p :: post ∧ (∀ q ∈ pre, PrereqMet env f q) ∧
        PrereqUnmet env f p ∧ (evaluate env f).result.detail.reason.prereqKey = p.key) ∧
    ((evaluate env f).result.detail.reason.kind = .targetMatch → f.on = true ∧
      (∀ q ∈ f.prerequisites, PrereqMet env f q) ∧
      ∃ v, anyTargetMatch env.ctx f = some v ∧ (evaluate env f).result.detail.index = some v) ∧
    ((evaluate env f).result.detail.reason.kind = .ruleMatch → f.on = true ∧
      (∀ q ∈ f.prerequisites, PrereqMet env f q) ∧ anyTargetMatch env.ctx f = none ∧
      ∃ pre r post, f.rules = pre ++ r :: post ∧ (∀ q ∈ pre, RuleFails env q) ∧ RuleMatches env r ∧
        (evaluate env f).result.detail.reason.ruleIndex = pre.length ∧
        (evaluate env f).result.detail.reason.ruleId = r.id) ∧
    ((evaluate env f).result.detail.reason.kind = .fallthrough → f.on = true ∧
      (∀ q ∈ f.prerequisites, PrereqMet env f q) ∧ anyTargetMatch env.ctx f = none ∧
      ∀ q ∈ f.rules, RuleFails env q) := by
  by_cases hc : env.ctx = .invalid
  · have hk := evaluate_kind_error_of_invalid f hc
    rw [hk]
    exact ⟨nofun, nofun, nofun, nofun, nofun⟩
  · obtain ⟨d, ok, hs⟩ := spec_top_some env f hc
    have hd := detailIs_of_spec env f hc d ok hs
    have hcl := ((spec_top_iff_stage env f d ok).1 hs).classify
    rw [hd.kind, hd.prereqKey, hd.index, hd.ruleIndex, hd.ruleId]
    refine ⟨?_, ?_, ?_, ?_, ?_⟩ <;> intro hk <;> rw [hk] at hcl
    · rcases hcl with h | ⟨_, h⟩ | ⟨h, _⟩ | ⟨h, _⟩ | ⟨h, _⟩ | ⟨h, _⟩ <;> first | exact h | cases h
    · rcases hcl with h | ⟨h, _⟩ | ⟨_, h⟩ | ⟨h, _⟩ | ⟨h, _⟩ | ⟨h, _⟩ <;> first | exact h | cases h
    · rcases hcl with h | ⟨h, _⟩ | ⟨h, _⟩ | ⟨_, h⟩ | ⟨h, _⟩ | ⟨h, _⟩ <;> first | exact h | cases h
    · rcases hcl with h | ⟨h, _⟩ | ⟨h, _⟩ | ⟨h, _⟩ | ⟨_, h⟩ | ⟨h, _⟩ <;> first | exact h | cases h
    · rcases hcl with h | ⟨h, _⟩ | ⟨h, _⟩ | ⟨h, _⟩ | ⟨h, _⟩ | ⟨_, h⟩ <;> first | exact h | cases h


/-! ### A4c. One theorem per stage, at the entry point, with prerequisites -/

/-- Targeting off, at the entry point, all fields: `Evaluate` returns the off variation (or no
variation) with reason OFF, rule index −1, empty rule id and prerequisite key, no error kind, not in
an experiment — or MALFORMED_FLAG if the off variation is out of range. -/
theorem evaluate_off_full (env : Env) (f : Flag) (hc : env.ctx ≠ .invalid) (h : f.on = false) :
    DetailIs (evaluate env f).result.detail (Spec.getOffValue f .off) :=
  evaluate_of_stage hc (.off h)

/-- PREREQUISITE_FAILED at the entry point: the flag is on, the prerequisites listed before `p` are
met and `p` is unmet ⇒ `Evaluate` returns the off variation with reason PREREQUISITE_FAILED whose
`prerequisiteKey` is `p.key` — the FIRST failing one; later prerequisites, targets and rules are
irrelevant. -/
theorem evaluate_prereq_failed (env : Env) (f : Flag) (hc : env.ctx ≠ .invalid) (hon : f.on = true)
    (pre : List Prereq) (p : Prereq) (post : List Prereq)
    (hps : f.prerequisites = pre ++ p :: post) (hpre : ∀ q ∈ pre, PrereqMet env f q)
    (hp : PrereqUnmet env f p) :
    DetailIs (evaluate env f).result.detail (Spec.getOffValue f (.prereqFailed p.key)) :=
  evaluate_of_stage hc (.prereqFailed pre p post hon hps hpre hp)

/-- A prerequisite cycle or an aborted nested evaluation, reached after only met prerequisites,
makes `Evaluate` return MALFORMED_FLAG (no value, no index). -/
theorem evaluate_prereq_abort (env : Env) (f : Flag) (hc : env.ctx ≠ .invalid) (hon : f.on = true)
    (pre : List Prereq) (p : Prereq) (post : List Prereq)
    (hps : f.prerequisites = pre ++ p :: post) (hpre : ∀ q ∈ pre, PrereqMet env f q)
    (hp : PrereqAborts env f p) :
    DetailIs (evaluate env f).result.detail (Detail.forError .malformedFlag) :=
  evaluate_of_stage hc (.prereqAbort pre p post hon hps hpre hp)

/-- TARGET_MATCH at the entry point WITH prerequisites: flag on, every prerequisite met, the
targeting stage answers `v` ⇒ `Evaluate` returns variation `v` with reason TARGET_MATCH
(MALFORMED_FLAG if `v` is out of range), whatever the rules and the fallthrough are. -/
theorem evaluate_target (env : Env) (f : Flag) (v : Int) (hc : env.ctx ≠ .invalid)
    (hon : f.on = true) (hp : ∀ q ∈ f.prerequisites, PrereqMet env f q)
    (ht : anyTargetMatch env.ctx f = some v) :
    DetailIs (evaluate env f).result.detail (Spec.getVariation f v .targetMatch) :=
  evaluate_of_stage hc (.target v hon hp ht)

/-- RULE_MATCH at the entry point: flag on, prerequisites met, no target matches, rules before `r`
do not match, `r` matches ⇒ `Evaluate` returns what `r`'s variation-or-rollout selects, with reason
RULE_MATCH, `ruleIndex = pre.length`, `ruleId = r.id` (and the experiment bit of the rollout); rules
after `r` are irrelevant. -/
theorem evaluate_rule_match (env : Env) (f : Flag) (hc : env.ctx ≠ .invalid) (hon : f.on = true)
    (hp : ∀ q ∈ f.prerequisites, PrereqMet env f q) (ht : anyTargetMatch env.ctx f = none)
    (pre : List FlagRule) (r : FlagRule) (post : List FlagRule) (hr : f.rules = pre ++ r :: post)
    (hpre : ∀ q ∈ pre, RuleFails env q) (hm : RuleMatches env r) :
    DetailIs (evaluate env f).result.detail
      (Spec.getValueForVR env f r.vr (.ruleMatch pre.length r.id)) :=
  evaluate_of_stage hc (.rule pre r post hon hp ht hr hpre hm)

/-- `errorKindForError` has two possible answers. -/
theorem errKind_cases (e : EvalErr) : e.kind = .malformedFlag ∨ e.kind = .exception := by
  cases e <;> simp [EvalErr.kind]

/-- An evaluation error in the clauses of the first rule that does not plainly fail makes `Evaluate`
return MALFORMED_FLAG — never EXCEPTION — even if a later rule would match. -/
theorem evaluate_rule_error (env : Env) (f : Flag) (hc : env.ctx ≠ .invalid) (hon : f.on = true)
    (hp : ∀ q ∈ f.prerequisites, PrereqMet env f q) (ht : anyTargetMatch env.ctx f = none)
    (pre : List FlagRule) (r : FlagRule) (post : List FlagRule) (e : EvalErr)
    (hr : f.rules = pre ++ r :: post)
    (hpre : ∀ q ∈ pre, RuleFails env q) (hm : RuleErrors env r e) :
    DetailIs (evaluate env f).result.detail (Detail.forError .malformedFlag) := by
  have h := evaluate_of_stage hc (.ruleError pre r post e hon hp ht hr hpre hm)
  rcases errKind_cases e with hk | hk
  · rwa [hk] at h
  · exfalso
    have := h.errorKind
    rw [hk] at this
    exact evaluate_never_exception env f this

/-- FALLTHROUGH at the entry point: flag on, prerequisites met, no target and no rule matches ⇒
`Evaluate` returns what the fallthrough variation-or-rollout selects with reason FALLTHROUGH. -/
theorem evaluate_fallthrough (env : Env) (f : Flag) (hc : env.ctx ≠ .invalid) (hon : f.on = true)
    (hp : ∀ q ∈ f.prerequisites, PrereqMet env f q) (ht : anyTargetMatch env.ctx f = none)
    (hall : ∀ q ∈ f.rules, RuleFails env q) :
    DetailIs (evaluate env f).result.detail
      (Spec.getValueForVR env f f.fallthrough .fallthrough) :=
  evaluate_of_stage hc (.fallthrough hon hp ht hall)

/-! ### A5. Met and unmet prerequisites through `evaluate` of the prerequisite itself -/

/-- "Met" in terms of the public API: a met prerequisite is a stored flag other than the dependent
one, is on, and `Evaluate` called on it directly (same context, same store) serves exactly the
required variation.  (One direction only: behind a cycle through the dependent flag the nested
evaluation aborts although the direct one may not.) -/
theorem PrereqMet.standalone {env : Env} {f : Flag} {p : Prereq} (hc : env.ctx ≠ .invalid)
    (h : PrereqMet env f p) :
    ∃ pf, env.store.findFlag p.key = some pf ∧ pf.key ≠ f.key ∧ pf.on = true ∧
      (evaluate env pf).result.detail.index = some p.variation := by
  obtain ⟨pf, d, h1, h2, h3, h4, h5⟩ := h
  have hs := Spec.evalFlag_weaken_le (segFuel env.store) env
    (show distinctCount (env.store.flags.map (·.2.key)) + 1 ≤ flagFuel env.store by
      unfold flagFuel; omega) (Spec.SubChain.nil [f.key]) h3
  have hd := detailIs_of_spec env pf hc d true hs
  refine ⟨pf, h1, ?_, h4, by rw [hd.index, h5]⟩
  intro hk
  rw [hk] at h2
  simp at h2

/-- "Unmet" in terms of the public API: the flag is missing, or it is off or `Evaluate` called on it
directly does not serve the required variation. -/
theorem PrereqUnmet.standalone {env : Env} {f : Flag} {p : Prereq} (hc : env.ctx ≠ .invalid)
    (h : PrereqUnmet env f p) :
    env.store.findFlag p.key = none ∨
    ∃ pf, env.store.findFlag p.key = some pf ∧
      ¬ (pf.on = true ∧ (evaluate env pf).result.detail.index = some p.variation) := by
  rcases h with h | ⟨pf, d, h1, h2, h3, h4⟩
  · exact Or.inl h
  · have hs := Spec.evalFlag_weaken_le (segFuel env.store) env
      (show distinctCount (env.store.flags.map (·.2.key)) + 1 ≤ flagFuel env.store by
        unfold flagFuel; omega) (Spec.SubChain.nil [f.key]) h3
    have hd := detailIs_of_spec env pf hc d true hs
    exact Or.inr ⟨pf, h1, by rw [hd.index]; exact h4⟩

/-- "Rule matches / fails / errors" in terms of the code-shaped model: whatever the per-call state
(membership cache, status, logs, …) is when the rule loop of the top flag reaches rule `r`, as long as
its cache only holds provider answers — which every state reached inside `evaluate` does — the
model's `clausesMatch` returns exactly the outcome `RuleMatches`/`RuleFails`/`RuleErrors` talk about. -/
theorem ruleOutcome_model (env : Env) (r : FlagRule) (st : St) (h : Consistent env st) :
    (clausesMatch (segContains (segFuel env.store) env) env [] r.clauses st).1 =
      Spec.clausesMatch (topSeg env) env [] r.clauses :=
  (clausesMatch_refines (segContains_refines (segFuel env.store) env) [] r.clauses st h).1

/-! ### A6. `Result.isExperiment` -/

/-- `isExperiment` reads the reason only through kind, rule index and `inExperiment`. -/
theorem isExperimentResult_congr (f : Flag) {r r' : Reason} (h1 : r.kind = r'.kind)
    (h2 : r.ruleIndex = r'.ruleIndex) (h3 : r.inExperiment = r'.inExperiment) :
    isExperimentResult f r = isExperimentResult f r' := by
  unfold isExperimentResult
  rw [h1, h2, h3]

/-- `Result.IsExperiment` is `isExperiment(flag, reason)` of the returned reason (the part the
bridge `evaluate_detail_spec` leaves out). -/
theorem evaluate_isExperiment_eq (env : Env) (f : Flag) :
    (evaluate env f).result.isExperiment =
      isExperimentResult f (evaluate env f).result.detail.reason := by
  unfold evaluate
  split <;> rfl

/-- `Result.IsExperiment` is determined by the row of the decision table: it is `isExperiment(flag,
d.reason)` for the detail `d` the table yields. -/
theorem evaluate_isExperiment_of {env : Env} {f : Flag} {d : Detail}
    (h : DetailIs (evaluate env f).result.detail d) :
    (evaluate env f).result.isExperiment = isExperimentResult f d.reason := by
  rw [evaluate_isExperiment_eq]
  exact isExperimentResult_congr f h.kind h.ruleIndex h.inExperiment


/-- A reason that is in an experiment is a RULE_MATCH or a FALLTHROUGH. -/
theorem StageOf.inExperiment_kinds {d : Detail} {ok : Bool} (h : StageOf rec seg env f chain d ok)
    (hin : d.reason.inExperiment = true) :
    d.reason.kind = .ruleMatch ∨ d.reason.kind = .fallthrough := by
  have hoff : ∀ r : Reason, r.inExperiment = false →
      (Spec.getOffValue f r).reason.inExperiment = false := by
    intro r hr
    rcases getOffValue_cases f r with h | h
    · rw [h]; rfl
    · rw [h]; exact hr
  have hvr : ∀ (vr : VariationOrRollout) (r : Reason), r.inExperiment = false →
      (r.kind = .ruleMatch ∨ r.kind = .fallthrough) →
      (Spec.getValueForVR env f vr r).reason.inExperiment = true →
      (Spec.getValueForVR env f vr r).reason.kind = .ruleMatch ∨
        (Spec.getValueForVR env f vr r).reason.kind = .fallthrough := by
    intro vr r hr hk hin
    rcases getValueForVR_cases env f vr r with ⟨k, h⟩ | h | h
    · rw [h] at hin; cases hin
    · rw [h] at hin; rw [hr] at hin; cases hin
    · rw [h, toExperiment_kind]; exact hk
  cases h with
  | off hon => rw [hoff _ rfl] at hin; cases hin
  | prereqFailed pre p post hon hps hpre hun => rw [hoff _ rfl] at hin; cases hin
  | prereqAbort => cases hin
  | target v hon hmet ht =>
    rcases getVariation_cases f v .targetMatch with ⟨_, h⟩ | ⟨_, _, h⟩ <;> rw [h] at hin <;> cases hin
  | rule pre r post hon hmet ht hr hpre hm => exact hvr _ _ rfl (Or.inl rfl) hin
  | ruleError => cases hin
  | fallthrough hon hmet ht hall => exact hvr _ _ rfl (Or.inr rfl) hin

/-- `Result.IsExperiment` is false for OFF, PREREQUISITE_FAILED, TARGET_MATCH and ERROR results. -/
theorem evaluate_isExperiment_early (env : Env) (f : Flag)
    (hk : (evaluate env f).result.detail.reason.kind ≠ .ruleMatch ∧
      (evaluate env f).result.detail.reason.kind ≠ .fallthrough) :
    (evaluate env f).result.isExperiment = false := by
  by_cases hc : env.ctx = .invalid
  · rw [evaluate_isExperiment_eq, (evaluate_invalid f hc).2]; rfl
  · obtain ⟨d, ok, hs⟩ := spec_top_some env f hc
    have hd := detailIs_of_spec env f hc d ok hs
    have hst := (spec_top_iff_stage env f d ok).1 hs
    rw [evaluate_isExperiment_of hd]
    rw [hd.kind] at hk
    have hin : d.reason.inExperiment = false := by
      cases h : d.reason.inExperiment with
      | false => rfl
      | true => rcases hst.inExperiment_kinds h with h' | h' <;> simp [h'] at hk
    unfold isExperimentResult
    rw [hin]
    revert hk
    cases d.reason.kind <;> simp

/-- `isExperiment` for a RULE_MATCH reason whose index points at rule `r`. -/
theorem isExperimentResult_ruleMatch (f : Flag) (r' : Reason) (pre : List FlagRule) (r : FlagRule)
    (post : List FlagRule) (hr : f.rules = pre ++ r :: post) (hk : r'.kind = .ruleMatch)
    (hi : r'.ruleIndex = (pre.length : Int)) :
    isExperimentResult f r' = (r'.inExperiment || r.trackEvents) := by
  unfold isExperimentResult
  rw [hk, hi, hr]
  cases r'.inExperiment <;> simp

/-- For a RULE_MATCH result `IsExperiment` is "in the experiment, or the matched rule tracks
events" — the matched rule being the FIRST matching one. -/
theorem evaluate_isExperiment_rule_match (env : Env) (f : Flag) (hc : env.ctx ≠ .invalid)
    (hon : f.on = true)
    (hp : ∀ q ∈ f.prerequisites, PrereqMet env f q) (ht : anyTargetMatch env.ctx f = none)
    (pre : List FlagRule) (r : FlagRule) (post : List FlagRule) (hr : f.rules = pre ++ r :: post)
    (hpre : ∀ q ∈ pre, RuleFails env q) (hm : RuleMatches env r)
    (hk : (evaluate env f).result.detail.reason.kind = .ruleMatch) :
    (evaluate env f).result.isExperiment =
      ((evaluate env f).result.detail.reason.inExperiment || r.trackEvents) := by
  have hd := evaluate_rule_match env f hc hon hp ht pre r post hr hpre hm
  rw [evaluate_isExperiment_eq]
  apply isExperimentResult_ruleMatch f _ pre r post hr hk
  rw [hd.ruleIndex]
  rw [hd.kind] at hk
  rcases getValueForVR_cases env f r.vr (.ruleMatch pre.length r.id) with ⟨k, h⟩ | h | h
  · rw [h] at hk; cases hk
  · rw [h]; rfl
  · rw [h, toExperiment_ruleIndex]; rfl

/-- For a FALLTHROUGH result `IsExperiment` is "in the experiment, or `trackEventsFallthrough`". -/
theorem evaluate_isExperiment_fallthrough (env : Env) (f : Flag)
    (hk : (evaluate env f).result.detail.reason.kind = .fallthrough) :
    (evaluate env f).result.isExperiment =
      ((evaluate env f).result.detail.reason.inExperiment || f.trackEventsFallthrough) := by
  rw [evaluate_isExperiment_eq]
  unfold isExperimentResult
  rw [hk]
  cases (evaluate env f).result.detail.reason.inExperiment <;> simp

/-! ### A7. Stages that do not reach segments leave status and side channels alone -/

/-- State `b` differs from state `a` at most in the log: same big-segments status, membership cache,
lookups, queries, membership checks and events. -/
structure SameSeg (a b : St) : Prop where
  status : b.status = a.status
  flagLookups : b.flagLookups = a.flagLookups
  segLookups : b.segLookups = a.segLookups
  bsQueries : b.bsQueries = a.bsQueries
  memChecks : b.memChecks = a.memChecks
  events : b.events = a.events
  cache : b.cache = a.cache

/-- Logging an error touches only the log. -/
theorem logErr_sameSeg (env : Env) (k : String) (e : EvalErr) (st : St) :
    SameSeg st (logErr env k e st) := by
  unfold logErr; split <;> exact ⟨rfl, rfl, rfl, rfl, rfl, rfl, rfl⟩

/-- `getVariation` touches only the log (it logs a bad index). -/
theorem getVariation_sameSeg (env : Env) (f : Flag) (i : Int) (r : Reason) (st : St) :
    SameSeg st (getVariation env f i r st).2 := by
  unfold getVariation; split
  · exact logErr_sameSeg ..
  · exact ⟨rfl, rfl, rfl, rfl, rfl, rfl, rfl⟩

/-- `getOffValue` touches only the log. -/
theorem getOffValue_sameSeg (env : Env) (f : Flag) (r : Reason) (st : St) :
    SameSeg st (getOffValue env f r st).2 := by
  unfold getOffValue; split
  · exact ⟨rfl, rfl, rfl, rfl, rfl, rfl, rfl⟩
  · exact getVariation_sameSeg ..

/-- `getVariation` does not set a big-segments status in the reason. -/
theorem getVariation_bss (env : Env) (f : Flag) (i : Int) (r : Reason) (st : St)
    (hr : r.bigSegmentsStatus = none) :
    (getVariation env f i r st).1.reason.bigSegmentsStatus = none := by
  unfold getVariation; split
  · rfl
  · exact hr

/-- `getOffValue` does not set a big-segments status in the reason. -/
theorem getOffValue_bss (env : Env) (f : Flag) (r : Reason) (st : St)
    (hr : r.bigSegmentsStatus = none) :
    (getOffValue env f r st).1.reason.bigSegmentsStatus = none := by
  unfold getOffValue; split
  · exact hr
  · exact getVariation_bss _ _ _ _ _ hr


/-- The model run behind `evaluate`, unfolded once. -/
theorem evalFlag_top_model (env : Env) (f : Flag) :
    evalFlag (segFuel env.store) (flagFuel env.store) env f [] {} =
      evalBody (evalFlag (segFuel env.store) (distinctCount (env.store.flags.map (·.2.key)) + 1) env)
        (segContains (segFuel env.store) env) env f [] {} := rfl

/-- `evaluate` read off a completed run of the top-level body. -/
theorem evaluate_of_body (env : Env) (f : Flag) (hc : env.ctx ≠ .invalid) {d : Detail} {ok : Bool}
    {st : St}
    (he : evalBody (evalFlag (segFuel env.store) (distinctCount (env.store.flags.map (·.2.key)) + 1) env)
        (segContains (segFuel env.store) env) env f [] {} = (.done d ok, st)) :
    (evaluate env f).result.detail = withStatus d st.status ∧
    (evaluate env f).flagLookups = st.flagLookups ∧ (evaluate env f).segLookups = st.segLookups ∧
    (evaluate env f).bsQueries = st.bsQueries ∧ (evaluate env f).memChecks = st.memChecks ∧
    (evaluate env f).events = st.events ∧ (evaluate env f).logs = st.logs := by
  rw [← evalFlag_top_model] at he
  unfold evaluate
  split
  · contradiction
  · rw [he]
    refine ⟨?_, rfl, rfl, rfl, rfl, rfl, rfl⟩
    simp only
    cases st.status <;> rfl

/-- Targeting off reaches nothing: `Evaluate` on an off flag reports no big-segments status and
performs no flag lookup, no segment lookup, no big-segment query or membership check, and records no
prerequisite event. -/
theorem evaluate_off_untouched (env : Env) (f : Flag) (hc : env.ctx ≠ .invalid) (h : f.on = false) :
    (evaluate env f).result.detail.reason.bigSegmentsStatus = none ∧
    (evaluate env f).flagLookups = [] ∧ (evaluate env f).segLookups = [] ∧
    (evaluate env f).bsQueries = [] ∧ (evaluate env f).memChecks = [] ∧
    (evaluate env f).events = [] := by
  have hs := getOffValue_sameSeg env f .off {}
  have hb := getOffValue_bss env f .off {} rfl
  have he : evalBody (evalFlag (segFuel env.store) (distinctCount (env.store.flags.map (·.2.key)) + 1) env)
        (segContains (segFuel env.store) env) env f [] {} =
      (.done (getOffValue env f .off {}).1 true, (getOffValue env f .off {}).2) := by
    simp only [evalBody, h]; rfl
  obtain ⟨h1, h2, h3, h4, h5, h6, -⟩ := evaluate_of_body env f hc he
  rw [h1, h2, h3, h4, h5, h6, hs.status, hs.flagLookups, hs.segLookups, hs.bsQueries, hs.memChecks,
    hs.events]
  exact ⟨hb, rfl, rfl, rfl, rfl, rfl⟩


/-- Attaching the final status to a reason that has none yields exactly that status. -/
theorem withStatus_bss (d : Detail) (s : Option Status) (h : d.reason.bigSegmentsStatus = none) :
    (withStatus d s).reason.bigSegmentsStatus = s := by
  cases s with
  | none => exact h
  | some s => rfl

/-- The model-level nested evaluator of the top flag's prerequisites. -/
abbrev topRecM (env : Env) : FlagRec :=
  evalFlag (segFuel env.store) (distinctCount (env.store.flags.map (·.2.key)) + 1) env

/-- The stages before the rules do not reach segments: when the prerequisite loop fails, aborts, or
passes and a target matches, the big-segments status `Evaluate` reports, and all its lookups,
queries, membership checks and events, are exactly what the prerequisite loop (i.e. the nested
evaluations of the prerequisites) left — the off-value and target stages add nothing. -/
theorem evaluate_early_stage_untouched (env : Env) (f : Flag) (hc : env.ctx ≠ .invalid)
    (hon : f.on = true) {po : PrereqOut} {st1 : St}
    (hp : checkPrereqs (topRecM env) env f [] {} = (po, st1))
    (h : (∃ k, po = .failed k) ∨ po = .malformed ∨
      (po = .ok ∧ (anyTargetMatch env.ctx f).isSome = true)) :
    (evaluate env f).result.detail.reason.bigSegmentsStatus = st1.status ∧
    (evaluate env f).flagLookups = st1.flagLookups ∧ (evaluate env f).segLookups = st1.segLookups ∧
    (evaluate env f).bsQueries = st1.bsQueries ∧ (evaluate env f).memChecks = st1.memChecks ∧
    (evaluate env f).events = st1.events := by
  rcases h with ⟨k, rfl⟩ | rfl | ⟨rfl, ht⟩
  · have hs := getOffValue_sameSeg env f (.prereqFailed k) st1
    have hb := getOffValue_bss env f (.prereqFailed k) st1 rfl
    have he : evalBody (topRecM env) (segContains (segFuel env.store) env) env f [] {} =
        (.done (getOffValue env f (.prereqFailed k) st1).1 true,
          (getOffValue env f (.prereqFailed k) st1).2) := by
      simp only [evalBody, hon, hp]; rfl
    obtain ⟨h1, h2, h3, h4, h5, h6, -⟩ := evaluate_of_body env f hc he
    rw [h1, h2, h3, h4, h5, h6, withStatus_bss _ _ hb, hs.status, hs.flagLookups, hs.segLookups,
      hs.bsQueries, hs.memChecks, hs.events]
    exact ⟨rfl, rfl, rfl, rfl, rfl, rfl⟩
  · have he : evalBody (topRecM env) (segContains (segFuel env.store) env) env f [] {} =
        (.done (Detail.forError .malformedFlag) false, st1) := by
      simp only [evalBody, hon, hp]; rfl
    obtain ⟨h1, h2, h3, h4, h5, h6, -⟩ := evaluate_of_body env f hc he
    rw [h1, h2, h3, h4, h5, h6, withStatus_bss _ _ rfl]
    exact ⟨rfl, rfl, rfl, rfl, rfl, rfl⟩
  · obtain ⟨v, hv⟩ := Option.isSome_iff_exists.1 ht
    have hs := getVariation_sameSeg env f v .targetMatch st1
    have hb := getVariation_bss env f v .targetMatch st1 rfl
    have he : evalBody (topRecM env) (segContains (segFuel env.store) env) env f [] {} =
        (.done (getVariation env f v .targetMatch st1).1 true,
          (getVariation env f v .targetMatch st1).2) := by
      simp only [evalBody, hon, hp, hv]; rfl
    obtain ⟨h1, h2, h3, h4, h5, h6, -⟩ := evaluate_of_body env f hc he
    rw [h1, h2, h3, h4, h5, h6, withStatus_bss _ _ hb, hs.status, hs.flagLookups, hs.segLookups,
      hs.bsQueries, hs.memChecks, hs.events]
    exact ⟨rfl, rfl, rfl, rfl, rfl, rfl⟩

/-- No prerequisites and a matching individual target: `Evaluate` reports no big-segments status and
consults neither the store nor the big-segment provider, and records no event — although the flag's
rules may reference (big) segments. -/
theorem evaluate_target_untouched (env : Env) (f : Flag) (hc : env.ctx ≠ .invalid)
    (hon : f.on = true) (hp : f.prerequisites = []) {v : Int}
    (ht : anyTargetMatch env.ctx f = some v) :
    (evaluate env f).result.detail.reason.bigSegmentsStatus = none ∧
    (evaluate env f).flagLookups = [] ∧ (evaluate env f).segLookups = [] ∧
    (evaluate env f).bsQueries = [] ∧ (evaluate env f).memChecks = [] ∧
    (evaluate env f).events = [] :=
  evaluate_early_stage_untouched env f hc hon (po := .ok) (st1 := {})
    (by simp [checkPrereqs, hp]) (Or.inr (Or.inr ⟨rfl, by rw [ht]; rfl⟩))


/-- The model's prerequisite loop for the top flag returns what the Spec's returns. -/
theorem checkPrereqs_model_out (env : Env) (f : Flag) :
    (checkPrereqs (topRecM env) env f [] {}).1.toSpec = Spec.checkPrereqs (topRec env) env f [] :=
  (checkPrereqs_refines
    (evalFlag_refines (segFuel env.store) (distinctCount (env.store.flags.map (·.2.key)) + 1) env)
    f [] {} (Consistent.empty env)).1

/-- PREREQUISITE_FAILED, with the hypotheses of `evaluate_prereq_failed`: status and side channels
are those left by the prerequisite loop; the flag's own targets, rules and their segments are not
reached. -/
theorem evaluate_prereq_failed_untouched (env : Env) (f : Flag) (hc : env.ctx ≠ .invalid)
    (hon : f.on = true) (pre : List Prereq) (p : Prereq) (post : List Prereq)
    (hps : f.prerequisites = pre ++ p :: post) (hpre : ∀ q ∈ pre, PrereqMet env f q)
    (hp : PrereqUnmet env f p) :
    let st1 := (checkPrereqs (topRecM env) env f [] {}).2
    (evaluate env f).result.detail.reason.bigSegmentsStatus = st1.status ∧
    (evaluate env f).flagLookups = st1.flagLookups ∧ (evaluate env f).segLookups = st1.segLookups ∧
    (evaluate env f).bsQueries = st1.bsQueries ∧ (evaluate env f).memChecks = st1.memChecks ∧
    (evaluate env f).events = st1.events := by
  intro st1
  have h := checkPrereqs_model_out env f
  have h' : Spec.checkPrereqs (topRec env) env f [] = .failed p.key := by
    rw [checkPrereqs_eq_loop]; exact prereq_first_unmet _ pre p post hps hpre hp
  rw [h'] at h
  refine evaluate_early_stage_untouched env f hc hon (po := (checkPrereqs (topRecM env) env f [] {}).1)
    rfl (Or.inl ⟨p.key, ?_⟩)
  revert h
  cases (checkPrereqs (topRecM env) env f [] {}).1 <;> simp [PrereqOut.toSpec]

/-- TARGET_MATCH after passing prerequisites: status and side channels are those left by the
prerequisite loop; the flag's own rules and their segments are not reached. -/
theorem evaluate_target_with_prereqs_untouched (env : Env) (f : Flag) (hc : env.ctx ≠ .invalid)
    (hon : f.on = true) (hp : ∀ q ∈ f.prerequisites, PrereqMet env f q) {v : Int}
    (ht : anyTargetMatch env.ctx f = some v) :
    let st1 := (checkPrereqs (topRecM env) env f [] {}).2
    (evaluate env f).result.detail.reason.bigSegmentsStatus = st1.status ∧
    (evaluate env f).flagLookups = st1.flagLookups ∧ (evaluate env f).segLookups = st1.segLookups ∧
    (evaluate env f).bsQueries = st1.bsQueries ∧ (evaluate env f).memChecks = st1.memChecks ∧
    (evaluate env f).events = st1.events := by
  intro st1
  have h := checkPrereqs_model_out env f
  rw [checkPrereqs_all_met hp] at h
  refine evaluate_early_stage_untouched env f hc hon (po := (checkPrereqs (topRecM env) env f [] {}).1)
    rfl (Or.inr (Or.inr ⟨?_, by rw [ht]; rfl⟩))
  revert h
  cases (checkPrereqs (topRecM env) env f [] {}).1 <;> simp [PrereqOut.toSpec]


/-! ### A8. Non-vacuity of the strengthened statements -/

section AuditExamples

/-- A met prerequisite from a computed run (for the examples). -/
theorem met_of_run {rec : Spec.FlagRec} {env : Env} {chain : List String} {p : Prereq} (pf : Flag)
    (hf : env.store.findFlag p.key = some pf) (hch : chain.contains pf.key = false)
    (hon : pf.on = true)
    (h : (rec pf chain).map (fun r => (r.1.index, r.2)) = some (some p.variation, true)) :
    Met rec env chain p := by
  cases hr : rec pf chain with
  | none => rw [hr] at h; cases h
  | some r =>
    obtain ⟨d, ok⟩ := r
    rw [hr] at h
    simp only [Option.map_some, Option.some.injEq, Prod.mk.injEq] at h
    obtain ⟨h1, rfl⟩ := h
    exact ⟨pf, d, hf, hch, hr, hon, h1⟩

def exQ : Flag :=
  { key := "q", on := true, variations := [.str "x", .str "y"], fallthrough := { variation := some 0 } }
def exP : Flag := { key := "p", on := false }
def exEnv2 : Env :=
  { opts := {}, store := Store.ofLists [exP, exQ, { key := "f" }] [], bs := none,
    ctx := .single { kind := "user", key := "alice" }, rx := fun _ _ => none }

def badClause : Clause := { op := "in", values := [.str "x"] }

/-- `exFlag` with the met prerequisite `q`. -/
def exF (prs : List Prereq) : Flag := { exFlag with prerequisites := prs, offVariation := some 1 }

theorem ex2_find_q : exEnv2.store.findFlag "q" = some exQ := by
  simp [exEnv2, Store.findFlag, Store.ofLists, exP, exQ]
theorem ex2_find_p : exEnv2.store.findFlag "p" = some exP := by
  simp [exEnv2, Store.findFlag, Store.ofLists, exP]

theorem ex2_met_q : Met (topRec exEnv2) exEnv2 ["f"] ⟨"q", 0⟩ :=
  met_of_run exQ ex2_find_q (by decide) rfl (by decide)

theorem ex2_unmet_p : Unmet (topRec exEnv2) exEnv2 ["f"] ⟨"p", 0⟩ :=
  Or.inr ⟨exP, { reason := .off }, ex2_find_p, by decide, rfl, by decide⟩

theorem ex2_aborts_f : Aborts (topRec exEnv2) exEnv2 ["f"] ⟨"f", 0⟩ :=
  ⟨{ key := "f" }, by simp [exEnv2, Store.findFlag, Store.ofLists, exP, exQ], Or.inl (by decide)⟩

theorem ex2_all_met : ∀ q ∈ (exF [⟨"q", 0⟩]).prerequisites, PrereqMet exEnv2 (exF [⟨"q", 0⟩]) q := by
  intro q hq
  rw [show q = ⟨"q", 0⟩ from List.mem_singleton.1 hq]
  exact ex2_met_q

theorem ex2_orgClause : Spec.clausesMatch (topSeg exEnv2) exEnv2 [] [orgClause] = .ok false := by
  simp [Spec.clausesMatch, Spec.clauseMatch, orgClause, clauseMatchNoSeg, Ref.isDefined,
    Ref.errOf, Res.ofExcept, exEnv2, Ctx.byKind, Ctx.individuals, normKind]

/-- Prerequisites `q` (met), `p` (off: unmet), `zzz` (missing): PREREQUISITE_FAILED names `p`, the
off variation 1 is served. -/
example : DetailIs (evaluate exEnv2 (exF [⟨"q", 0⟩, ⟨"p", 0⟩, ⟨"zzz", 0⟩])).result.detail
    { value := .str "b", index := some 1, reason := .prereqFailed "p" } :=
  evaluate_prereq_failed exEnv2 (exF [⟨"q", 0⟩, ⟨"p", 0⟩, ⟨"zzz", 0⟩]) (by simp [exEnv2]) rfl
    [⟨"q", 0⟩] ⟨"p", 0⟩ [⟨"zzz", 0⟩] rfl
    (by intro q hq; rw [show q = ⟨"q", 0⟩ from List.mem_singleton.1 hq]; exact ex2_met_q)
    ex2_unmet_p

/-- A prerequisite that leads back to the flag itself aborts: MALFORMED_FLAG, although `q` is met. -/
example : DetailIs (evaluate exEnv2 (exF [⟨"q", 0⟩, ⟨"f", 0⟩])).result.detail
    (Detail.forError .malformedFlag) :=
  evaluate_prereq_abort exEnv2 (exF [⟨"q", 0⟩, ⟨"f", 0⟩]) (by simp [exEnv2]) rfl
    [⟨"q", 0⟩] ⟨"f", 0⟩ [] rfl
    (by intro q hq; rw [show q = ⟨"q", 0⟩ from List.mem_singleton.1 hq]; exact ex2_met_q)
    ex2_aborts_f

/-- Prerequisite met, no target names `alice`, rule `r0` fails, rules `r1` and `r2` match:
RULE_MATCH with index 1 and id `r1`. -/
example : DetailIs (evaluate exEnv2 (exF [⟨"q", 0⟩])).result.detail
    { value := .str "b", index := some 1, reason := .ruleMatch 1 "r1" } :=
  evaluate_rule_match exEnv2 (exF [⟨"q", 0⟩]) (by simp [exEnv2]) rfl ex2_all_met
    (by simp [anyTargetMatch, exF, exFlag])
    [{ id := "r0", clauses := [orgClause], vr := { variation := some 0 } }]
    { id := "r1", clauses := [],
      vr := { variation := some 1,
              rollout := { variations := [{ variation := 0, weight := 100000 }] } } }
    [{ id := "r2", clauses := [], vr := { variation := some 0 } }] rfl
    (by intro q hq; rw [List.mem_singleton.1 hq]; exact ex2_orgClause) rfl

/-- Targeting off: OFF and the off variation, with every other reason field at its default. -/
example : DetailIs (evaluate exEnv2 { exF [⟨"p", 0⟩] with on := false }).result.detail
    { value := .str "b", index := some 1, reason := .off } :=
  evaluate_off_full exEnv2 _ (by simp [exEnv2]) rfl

/-- Prerequisite met and a user target list names `alice`: TARGET_MATCH although rules match. -/
example : DetailIs
    (evaluate exEnv2 { exF [⟨"q", 0⟩] with targets := [{ values := ["bob", "alice"], variation := 0 }] }).result.detail
    { value := .str "a", index := some 0, reason := .targetMatch } :=
  evaluate_target exEnv2 { exF [⟨"q", 0⟩] with targets := [{ values := ["bob", "alice"], variation := 0 }] } 0
    (by simp [exEnv2]) rfl ex2_all_met
    (by simp [anyTargetMatch, exF, exFlag, targetMatch, exEnv2, Ctx.byKind, Ctx.individuals, normKind,
          defaultKind, Target.findKey, findKey])

/-- The first rule whose clauses do not all evaluate to "no match" has a clause without attribute:
MALFORMED_FLAG, although the next rule would match. -/
example : DetailIs
    (evaluate exEnv2 { exF [⟨"q", 0⟩] with
      rules := [{ id := "r0", clauses := [orgClause] }, { id := "bad", clauses := [badClause] },
                { id := "r2", clauses := [] }] }).result.detail
    (Detail.forError .malformedFlag) :=
  evaluate_rule_error exEnv2 _ (by simp [exEnv2]) rfl ex2_all_met
    (by simp [anyTargetMatch, exF, exFlag])
    [{ id := "r0", clauses := [orgClause] }] { id := "bad", clauses := [badClause] }
    [{ id := "r2", clauses := [] }] .emptyAttr rfl
    (by intro q hq; rw [List.mem_singleton.1 hq]; exact ex2_orgClause)
    (by simp [RuleErrors, Spec.clausesMatch, Spec.clauseMatch, badClause, clauseMatchNoSeg,
          Ref.isDefined, Res.ofExcept])

/-- Every rule fails: FALLTHROUGH. -/
example : DetailIs
    (evaluate exEnv2 { exF [⟨"q", 0⟩] with rules := [{ id := "r0", clauses := [orgClause] }] }).result.detail
    { value := .str "a", index := some 0, reason := .fallthrough } :=
  evaluate_fallthrough exEnv2 _ (by simp [exEnv2]) rfl ex2_all_met
    (by simp [anyTargetMatch, exF, exFlag])
    (by intro q hq; rw [List.mem_singleton.1 hq]; exact ex2_orgClause)

/-- The hypotheses of the five converses of `evaluate_reason_inv` are satisfiable. -/
example :
    (evaluate exEnv2 { exF [] with on := false }).result.detail.reason.kind = .off ∧
    (evaluate exEnv2 (exF [⟨"q", 0⟩, ⟨"p", 0⟩])).result.detail.reason.kind = .prereqFailed ∧
    (evaluate exEnv2 { exF [⟨"q", 0⟩] with targets := [{ values := ["alice"], variation := 0 }] }).result.detail.reason.kind
      = .targetMatch ∧
    (evaluate exEnv2 (exF [⟨"q", 0⟩])).result.detail.reason.kind = .ruleMatch ∧
    (evaluate exEnv2 { exF [⟨"q", 0⟩] with rules := [] }).result.detail.reason.kind = .fallthrough := by
  decide

/-- `evaluate_isExperiment_rule_match`, `…_fallthrough`, `…_early`: the kind hypotheses hold for
concrete flags, here with a tracked rule. -/
example :
    (evaluate exEnv2 { exF [⟨"q", 0⟩] with rules := [{ id := "t", trackEvents := true, vr := { variation := some 0 } }] }).result.isExperiment = true ∧
    (evaluate exEnv2 (exF [⟨"q", 0⟩, ⟨"p", 0⟩])).result.isExperiment = false := by
  decide

/-- The prerequisite `q` of the examples, evaluated on its own, serves the required variation. -/
example : ∃ pf, exEnv2.store.findFlag "q" = some pf ∧ pf.key ≠ "f" ∧ pf.on = true ∧
    (evaluate exEnv2 pf).result.detail.index = some 0 :=
  PrereqMet.standalone (f := exF [⟨"q", 0⟩]) (by simp [exEnv2]) ex2_met_q

/-- An off flag with a prerequisite: nothing is looked up (the prerequisite neither), no status is
reported. -/
example :
    (evaluate exEnv2 { exF [⟨"q", 0⟩] with on := false }).result.detail.reason.bigSegmentsStatus = none ∧
    (evaluate exEnv2 { exF [⟨"q", 0⟩] with on := false }).flagLookups = [] :=
  let h := evaluate_off_untouched exEnv2 { exF [⟨"q", 0⟩] with on := false } (by simp [exEnv2]) rfl
  ⟨h.1, h.2.1⟩

/-- PREREQUISITE_FAILED (hypotheses as in the example above): the side channels are the
prerequisite loop's. -/
example :
    (evaluate exEnv2 (exF [⟨"q", 0⟩, ⟨"p", 0⟩, ⟨"zzz", 0⟩])).flagLookups =
      (checkPrereqs (topRecM exEnv2) exEnv2 (exF [⟨"q", 0⟩, ⟨"p", 0⟩, ⟨"zzz", 0⟩]) [] {}).2.flagLookups :=
  (evaluate_prereq_failed_untouched exEnv2 (exF [⟨"q", 0⟩, ⟨"p", 0⟩, ⟨"zzz", 0⟩]) (by simp [exEnv2]) rfl
    [⟨"q", 0⟩] ⟨"p", 0⟩ [⟨"zzz", 0⟩] rfl
    (by intro q hq; rw [show q = ⟨"q", 0⟩ from List.mem_singleton.1 hq]; exact ex2_met_q)
    ex2_unmet_p).2.1

/-- … and concretely: `q` and `p` were looked up, `zzz` was not. -/
example : (evaluate exEnv2 (exF [⟨"q", 0⟩, ⟨"p", 0⟩, ⟨"zzz", 0⟩])).flagLookups = ["q", "p"] := by
  decide

/-- TARGET_MATCH after a met prerequisite: the side channels are the prerequisite loop's. -/
example :
    (evaluate exEnv2 { exF [⟨"q", 0⟩] with targets := [{ values := ["alice"], variation := 0 }] }).segLookups =
      (checkPrereqs (topRecM exEnv2) exEnv2
        { exF [⟨"q", 0⟩] with targets := [{ values := ["alice"], variation := 0 }] } [] {}).2.segLookups :=
  (evaluate_target_with_prereqs_untouched exEnv2
    { exF [⟨"q", 0⟩] with targets := [{ values := ["alice"], variation := 0 }] } (by simp [exEnv2]) rfl
    ex2_all_met (v := 0)
    (by simp [anyTargetMatch, exF, exFlag, targetMatch, exEnv2, Ctx.byKind, Ctx.individuals, normKind,
          defaultKind, Target.findKey, findKey])).2.2.1

/-- No prerequisites, target names `alice`: nothing at all is consulted. -/
example :
    (evaluate exEnv2 { exF [] with targets := [{ values := ["alice"], variation := 0 }] }).result.detail.reason.bigSegmentsStatus
      = none :=
  (evaluate_target_untouched exEnv2 { exF [] with targets := [{ values := ["alice"], variation := 0 }] }
    (by simp [exEnv2]) rfl rfl (v := 0)
    (by simp [anyTargetMatch, exF, exFlag, targetMatch, exEnv2, Ctx.byKind, Ctx.individuals, normKind,
          defaultKind, Target.findKey, findKey])).1

/-- RULE_MATCH on the first matching rule `r1` (hypotheses as in the example above): `IsExperiment` is
that rule's `trackEvents` or the experiment bit. -/
example :
    (evaluate exEnv2 (exF [⟨"q", 0⟩])).result.isExperiment =
      ((evaluate exEnv2 (exF [⟨"q", 0⟩])).result.detail.reason.inExperiment || false) :=
  evaluate_isExperiment_rule_match exEnv2 (exF [⟨"q", 0⟩]) (by simp [exEnv2]) rfl ex2_all_met
    (by simp [anyTargetMatch, exF, exFlag])
    [{ id := "r0", clauses := [orgClause], vr := { variation := some 0 } }]
    { id := "r1", clauses := [],
      vr := { variation := some 1,
              rollout := { variations := [{ variation := 0, weight := 100000 }] } } }
    [{ id := "r2", clauses := [], vr := { variation := some 0 } }] rfl
    (by intro q hq; rw [List.mem_singleton.1 hq]; exact ex2_orgClause) rfl (by decide)

end AuditExamples

end LD.C02

#print axioms LD.C02.off
#print axioms LD.C02.prereq_first_unmet
#print axioms LD.C02.prereq_all_met
#print axioms LD.C02.prereq_failed_inv
#print axioms LD.C02.prereq_ok_inv
#print axioms LD.C02.prereq_failed
#print axioms LD.C02.prereq_failed_first
#print axioms LD.C02.target_over_rules
#print axioms LD.C02.first_rule
#print axioms LD.C02.first_rule_evalBody
#print axioms LD.C02.fallthrough
#print axioms LD.C02.fallthrough_evalBody
#print axioms LD.C02.fixed_variation_ignores_rollout
#print axioms LD.C02.getValueForVR_fixed
#print axioms LD.C02.getVariation_ok
#print axioms LD.C02.getOffValue_undefined
#print axioms LD.C02.evaluate_off
#print axioms LD.C02.evaluate_target_match
#print axioms LD.C02.prereq_first_aborts
#print axioms LD.C02.prereq_malformed_inv
#print axioms LD.C02.rule_error
#print axioms LD.C02.rulesLoop_inv
#print axioms LD.C02.evalBody_iff_stage
#print axioms LD.C02.detailIs_of_spec
#print axioms LD.C02.spec_top_some
#print axioms LD.C02.evaluate_of_stage
#print axioms LD.C02.evaluate_decision_order
#print axioms LD.C02.StageOf.classify
#print axioms LD.C02.rule_match_inv
#print axioms LD.C02.evaluate_reason_inv
#print axioms LD.C02.evaluate_off_full
#print axioms LD.C02.evaluate_prereq_failed
#print axioms LD.C02.evaluate_prereq_abort
#print axioms LD.C02.evaluate_target
#print axioms LD.C02.evaluate_rule_match
#print axioms LD.C02.evaluate_rule_error
#print axioms LD.C02.evaluate_fallthrough
#print axioms LD.C02.PrereqMet.standalone
#print axioms LD.C02.PrereqUnmet.standalone
#print axioms LD.C02.evaluate_isExperiment_eq
#print axioms LD.C02.evaluate_isExperiment_of
#print axioms LD.C02.StageOf.inExperiment_kinds
#print axioms LD.C02.evaluate_isExperiment_early
#print axioms LD.C02.evaluate_isExperiment_rule_match
#print axioms LD.C02.evaluate_isExperiment_fallthrough
#print axioms LD.C02.evaluate_of_body
#print axioms LD.C02.evaluate_off_untouched
#print axioms LD.C02.evaluate_early_stage_untouched
#print axioms LD.C02.evaluate_target_untouched
#print axioms LD.C02.evaluate_prereq_failed_untouched
#print axioms LD.C02.evaluate_target_with_prereqs_untouched
#print axioms LD.C02.ruleOutcome_model

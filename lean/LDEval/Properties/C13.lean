/-
  C13 — "Concurrent evaluations are safe and agree with sequential ones."

  Abstract shared-memory trace model (`LDEval/Model/Trace.lean`).

  Connection with the evaluator.  The evaluator model (`LD.evaluate`, `Model/Eval.lean`) is a pure
  function of its inputs `(Env, Flag)`: its only writes are to the per-call state `St` (status,
  membership cache, events, logs, lookup traces), which is created by the call and is private to it
  (in Go: the `evaluationScope` on the caller's stack and the `LocalBuffer` used for hashing).  The
  flag, the segments, their preprocessed tables, the evaluator options, the data provider, the
  big-segment provider and the evaluation context are only *read*.  In the vocabulary of this file
  each concurrent `Evaluate` call is a thread, the per-call state is made of locations owned by that
  thread, and everything else is `shared`.  That the Go code obeys the discipline `ReadOnlyShared`
  is not something Lean can see: it is the harness's write-set obligation (deep-compare all shared
  inputs before/after a call) together with the Go race detector on concurrent runs.  What is
  proved here is what the discipline buys, for every number of threads and every interleaving:

  * `no_conflict`: there is no data race at all (a race is a schedule-independent fact about the
    access sets, so it is excluded for every interleaving at once);
  * `readonly_noninterference`: under every schedule each thread observes exactly the values it
    observes when running alone (hence computes the same result), and progresses exactly by the
    number of times it was scheduled;
  * `complete_runs_agree`: all schedules that let every thread finish yield the sequential
    observations, and hence agree with each other.
-/
import LDEval.Properties.C13Options
import LDEval.Model.Trace

namespace LD.C13
open LD.Trace

/-! ### 1. No conflicting pair of accesses -/

theorem no_conflict (s : Sys) (h : ReadOnlyShared s) : ¬ Conflict s := by
  rintro ⟨t1, t2, l, hne, ⟨v, hw⟩, hr⟩
  have h1 := h t1 _ hw
  simp only at h1
  rcases hr with hr | ⟨v', hw'⟩
  · have h2 := h t2 _ hr
    simp only at h2
    rcases h2 with h2 | h2
    · rw [h1.1] at h2; cases h2
    · exact hne (h1.2.symm.trans h2)
  · have h2 := h t2 _ hw'
    simp only at h2
    exact hne (h1.2.symm.trans h2.2)

/-! ### 2. Non-interference -/

/-- The invariant: thread by thread, the concurrent state looks like the solo state at the same
program counter, on everything that thread may access. -/
structure Inv (s : Sys) (init : Loc → Val) (st : State) : Prop where
  pc_le : ∀ t, st.pc t ≤ (s.progs t).length
  solo_pc : ∀ t, (solo s init t (st.pc t)).pc t = st.pc t
  obs : ∀ t, st.obs t = (solo s init t (st.pc t)).obs t
  mem : ∀ t l, (s.shared l = true ∨ s.owner l = t) → st.mem l = (solo s init t (st.pc t)).mem l

theorem inv_init (s : Sys) (init : Loc → Val) : Inv s init ⟨init, fun _ => 0, fun _ => []⟩ :=
  ⟨fun _ => Nat.zero_le _, fun _ => rfl, fun _ => rfl, fun _ _ _ => rfl⟩

theorem inv_step {s : Sys} (h : ReadOnlyShared s) {init : Loc → Val} {st : State}
    (hi : Inv s init st) (u : Tid) : Inv s init (step s st u) := by
  cases hop : (s.progs u)[st.pc u]? with
  | none =>
    have : step s st u = st := by simp only [step, hop]
    rw [this]; exact hi
  | some op =>
    have hlt : st.pc u < (s.progs u).length := by
      rcases Nat.lt_or_ge (st.pc u) (s.progs u).length with h' | h'
      · exact h'
      · rw [List.getElem?_eq_none h'] at hop; cases hop
    have hmem : op ∈ s.progs u := List.mem_of_getElem? hop
    have hdisc := h u op hmem
    -- the solo run of `u` executes the same op next
    have hsolo : solo s init u (st.pc u + 1) = step s (solo s init u (st.pc u)) u := rfl
    have hop' : (s.progs u)[(solo s init u (st.pc u)).pc u]? = some op := by
      rw [hi.solo_pc u]; exact hop
    cases op with
    | read l =>
      simp only at hdisc
      have hst : step s st u =
          { mem := st.mem
            pc := fun t => if t = u then st.pc u + 1 else st.pc t
            obs := fun t => if t = u then st.obs u ++ [st.mem l] else st.obs t } := by
        simp only [step, hop]
      have hso : solo s init u (st.pc u + 1) =
          { mem := (solo s init u (st.pc u)).mem
            pc := fun t => if t = u then (solo s init u (st.pc u)).pc u + 1
                    else (solo s init u (st.pc u)).pc t
            obs := fun t => if t = u then (solo s init u (st.pc u)).obs u ++
                      [(solo s init u (st.pc u)).mem l]
                    else (solo s init u (st.pc u)).obs t } := by
        rw [hsolo]; simp only [step, hop']
      rw [hst]
      refine ⟨?_, ?_, ?_, ?_⟩
      · intro t
        show (if t = u then st.pc u + 1 else st.pc t) ≤ _
        by_cases htu : t = u
        · subst htu; rw [if_pos rfl]; exact hlt
        · rw [if_neg htu]; exact hi.pc_le t
      · intro t
        show (solo s init t (if t = u then st.pc u + 1 else st.pc t)).pc t =
          (if t = u then st.pc u + 1 else st.pc t)
        by_cases htu : t = u
        · subst htu; simp only [if_pos]; rw [hso]; simp only [if_pos]; rw [hi.solo_pc]
        · simp only [if_neg htu]; exact hi.solo_pc t
      · intro t
        show (if t = u then st.obs u ++ [st.mem l] else st.obs t) =
          (solo s init t (if t = u then st.pc u + 1 else st.pc t)).obs t
        by_cases htu : t = u
        · subst htu; simp only [if_pos]; rw [hso]; simp only [if_pos]
          rw [hi.obs t, hi.mem t l hdisc]
        · simp only [if_neg htu]; exact hi.obs t
      · intro t l' hl'
        show st.mem l' = (solo s init t (if t = u then st.pc u + 1 else st.pc t)).mem l'
        by_cases htu : t = u
        · subst htu; simp only [if_pos]; rw [hso]; exact hi.mem t l' hl'
        · simp only [if_neg htu]; exact hi.mem t l' hl'
    | write l v =>
      simp only at hdisc
      have hst : step s st u =
          { mem := fun m => if m = l then v else st.mem m
            pc := fun t => if t = u then st.pc u + 1 else st.pc t
            obs := st.obs } := by
        simp only [step, hop]
      have hso : solo s init u (st.pc u + 1) =
          { mem := fun m => if m = l then v else (solo s init u (st.pc u)).mem m
            pc := fun t => if t = u then (solo s init u (st.pc u)).pc u + 1
                    else (solo s init u (st.pc u)).pc t
            obs := (solo s init u (st.pc u)).obs } := by
        rw [hsolo]; simp only [step, hop']
      rw [hst]
      refine ⟨?_, ?_, ?_, ?_⟩
      · intro t
        show (if t = u then st.pc u + 1 else st.pc t) ≤ _
        by_cases htu : t = u
        · subst htu; rw [if_pos rfl]; exact hlt
        · rw [if_neg htu]; exact hi.pc_le t
      · intro t
        show (solo s init t (if t = u then st.pc u + 1 else st.pc t)).pc t =
          (if t = u then st.pc u + 1 else st.pc t)
        by_cases htu : t = u
        · subst htu; simp only [if_pos]; rw [hso]; simp only [if_pos]; rw [hi.solo_pc]
        · simp only [if_neg htu]; exact hi.solo_pc t
      · intro t
        show st.obs t = (solo s init t (if t = u then st.pc u + 1 else st.pc t)).obs t
        by_cases htu : t = u
        · subst htu; simp only [if_pos]; rw [hso]; exact hi.obs t
        · simp only [if_neg htu]; exact hi.obs t
      · intro t l' hl'
        show (if l' = l then v else st.mem l') =
          (solo s init t (if t = u then st.pc u + 1 else st.pc t)).mem l'
        by_cases htu : t = u
        · subst htu; simp only [if_pos]; rw [hso]
          show _ = (if l' = l then v else (solo s init t (st.pc t)).mem l')
          by_cases hll : l' = l
          · simp only [if_pos hll]
          · simp only [if_neg hll]; exact hi.mem t l' hl'
        · simp only [if_neg htu]
          have hll : l' ≠ l := by
            intro hll; subst hll
            rcases hl' with hl' | hl'
            · rw [hdisc.1] at hl'; cases hl'
            · exact htu (hl'.symm.trans hdisc.2)
          rw [if_neg hll]; exact hi.mem t l' hl'

theorem inv_exec {s : Sys} (h : ReadOnlyShared s) {init : Loc → Val} (sched : List Tid) :
    ∀ {st : State}, Inv s init st → Inv s init (exec s st sched) := by
  induction sched with
  | nil => intro st hi; exact hi
  | cons u sched ih => intro st hi; exact ih (inv_step h hi u)

/-- One step advances the stepping thread's program counter by one, unless it has finished. -/
theorem step_pc (s : Sys) (st : State) (u t : Tid) (hle : st.pc t ≤ (s.progs t).length) :
    (step s st u).pc t = min (st.pc t + if u = t then 1 else 0) (s.progs t).length := by
  unfold step
  cases hop : (s.progs u)[st.pc u]? with
  | none =>
    simp only
    by_cases hut : u = t
    · subst hut
      have := (List.getElem?_eq_none_iff.mp hop)
      simp only [if_pos]; omega
    · simp only [if_neg hut]; omega
  | some op =>
    have hlt : st.pc u < (s.progs u).length := by
      rcases Nat.lt_or_ge (st.pc u) (s.progs u).length with h' | h'
      · exact h'
      · rw [List.getElem?_eq_none h'] at hop; cases hop
    cases op <;>
    · simp only
      by_cases hut : u = t
      · subst hut; simp only [if_pos]; omega
      · have : ¬ t = u := fun h => hut h.symm
        simp only [if_neg hut, if_neg this]; omega

/-- No thread is ever stalled or run ahead by the others: after a schedule, thread `t` has executed
exactly as many ops as it was scheduled for (capped by its program length). -/
theorem exec_pc (s : Sys) (sched : List Tid) (t : Tid) :
    ∀ st : State, st.pc t ≤ (s.progs t).length →
      (exec s st sched).pc t = min (st.pc t + sched.count t) (s.progs t).length := by
  induction sched with
  | nil => intro st hle; simp only [exec, List.foldl_nil, List.count_nil]; omega
  | cons u sched ih =>
    intro st hle
    have h1 := step_pc s st u t hle
    have h2 : (step s st u).pc t ≤ (s.progs t).length := by rw [h1]; omega
    show (exec s (step s st u) sched).pc t = _
    rw [ih _ h2, h1, List.count_cons]
    by_cases hut : u = t
    · subst hut; simp only [if_pos, beq_self_eq_true]; omega
    · have : (u == t) = false := by simpa using hut
      simp only [if_neg hut, this, Bool.false_eq_true, if_false]; omega

/-- **Non-interference.**  Under every schedule each thread reads exactly the values it reads when
running alone for the same number of steps, and it has executed exactly as many of its ops as it
was scheduled for. -/
theorem readonly_noninterference (s : Sys) (h : ReadOnlyShared s) (init : Loc → Val)
    (sched : List Tid) (t : Tid) :
    let st := exec s ⟨init, fun _ => 0, fun _ => []⟩ sched
    st.obs t = (solo s init t (st.pc t)).obs t ∧
      st.pc t = min (sched.count t) (s.progs t).length := by
  intro st
  refine ⟨(inv_exec h sched (inv_init s init)).obs t, ?_⟩
  have := exec_pc s sched t ⟨init, fun _ => 0, fun _ => []⟩ (Nat.zero_le _)
  simpa using this

/-- Stronger form: the private memory of each thread and the shared memory it can see also agree
with the solo run (so "computes the same result" covers results left in memory). -/
theorem readonly_noninterference_mem (s : Sys) (h : ReadOnlyShared s) (init : Loc → Val)
    (sched : List Tid) (t : Tid) (l : Loc) (hl : s.shared l = true ∨ s.owner l = t) :
    let st := exec s ⟨init, fun _ => 0, fun _ => []⟩ sched
    st.mem l = (solo s init t (st.pc t)).mem l :=
  (inv_exec h sched (inv_init s init)).mem t l hl

/-- Shared memory is never modified. -/
theorem shared_unchanged (s : Sys) (h : ReadOnlyShared s) (init : Loc → Val)
    (sched : List Tid) (l : Loc) (hl : s.shared l = true) :
    (exec s ⟨init, fun _ => 0, fun _ => []⟩ sched).mem l = init l := by
  -- direct induction on the schedule with the state generalised
  suffices hgen : ∀ (st : State), st.mem l = init l → (exec s st sched).mem l = init l from
    hgen _ rfl
  induction sched with
  | nil => intro st hst; exact hst
  | cons u sched ih =>
    intro st hst
    apply ih
    unfold step
    cases hop : (s.progs u)[st.pc u]? with
    | none => exact hst
    | some op =>
      cases op with
      | read l' => exact hst
      | write l' v =>
        have hd := h u _ (List.mem_of_getElem? hop)
        simp only at hd
        show (if l = l' then v else st.mem l) = init l
        have : l ≠ l' := by intro e; subst e; rw [hd.1] at hl; cases hl
        rw [if_neg this]; exact hst

/-! ### 3. Complete runs agree -/

/-- If the schedule lets every thread finish, each thread's full observation is its sequential
observation. -/
theorem complete_run_sequential (s : Sys) (h : ReadOnlyShared s) (init : Loc → Val)
    (sched : List Tid) (hfin : ∀ t, (s.progs t).length ≤ sched.count t) (t : Tid) :
    (exec s ⟨init, fun _ => 0, fun _ => []⟩ sched).pc t = (s.progs t).length ∧
    (exec s ⟨init, fun _ => 0, fun _ => []⟩ sched).obs t =
      (solo s init t (s.progs t).length).obs t := by
  obtain ⟨h1, h2⟩ := readonly_noninterference s h init sched t
  have hpc : (exec s ⟨init, fun _ => 0, fun _ => []⟩ sched).pc t = (s.progs t).length := by
    rw [h2]; exact Nat.min_eq_right (hfin t)
  refine ⟨hpc, ?_⟩
  rw [h1, hpc]

/-- Any two schedules that let every thread finish give every thread the same observations — the
ones of the sequential run. -/
theorem complete_runs_agree (s : Sys) (h : ReadOnlyShared s) (init : Loc → Val)
    (sched₁ sched₂ : List Tid)
    (hfin₁ : ∀ t, (s.progs t).length ≤ sched₁.count t)
    (hfin₂ : ∀ t, (s.progs t).length ≤ sched₂.count t) (t : Tid) :
    (exec s ⟨init, fun _ => 0, fun _ => []⟩ sched₁).obs t =
        (solo s init t (s.progs t).length).obs t ∧
    (exec s ⟨init, fun _ => 0, fun _ => []⟩ sched₂).obs t =
        (exec s ⟨init, fun _ => 0, fun _ => []⟩ sched₁).obs t := by
  have a := (complete_run_sequential s h init sched₁ hfin₁ t).2
  have b := (complete_run_sequential s h init sched₂ hfin₂ t).2
  exact ⟨a, b.trans a.symm⟩

/-! ### 4. Non-vacuity -/

/-- Two threads; location 0 is shared (a flag), location 1 is thread 0's scratch, location 2 is
thread 1's.  Each reads the flag, writes its scratch, reads it back. -/
def exGood : Sys where
  progs := fun t =>
    if t = 0 then [.read 0, .write 1 7, .read 1]
    else if t = 1 then [.read 0, .write 2 9, .read 2]
    else []
  shared := fun l => l == 0
  owner := fun l => if l = 1 then 0 else 1

/-- The same, except that thread 1 writes the shared location. -/
def exBad : Sys where
  progs := fun t =>
    if t = 0 then [.read 0, .write 1 7, .read 1]
    else if t = 1 then [.write 0 5]
    else []
  shared := fun l => l == 0
  owner := fun l => if l = 1 then 0 else 1

example : ReadOnlyShared exGood := by
  intro t op hop
  by_cases h0 : t = 0
  · subst h0
    simp only [exGood, if_pos] at hop
    simp only [List.mem_cons, List.not_mem_nil, or_false] at hop
    rcases hop with rfl | rfl | rfl <;> simp [exGood]
  · by_cases h1 : t = 1
    · subst h1
      simp only [exGood] at hop
      simp only [List.mem_cons, List.not_mem_nil, or_false, if_neg h0, if_pos] at hop
      rcases hop with rfl | rfl | rfl <;> simp [exGood]
    · simp only [exGood, if_neg h0, if_neg h1, List.not_mem_nil] at hop

/-- The discipline is falsifiable. -/
example : ¬ ReadOnlyShared exBad := by
  intro h
  have := h 1 (.write 0 5) (by simp [exBad])
  simp [exBad] at this

/-- … and the bad system does have a race. -/
example : Conflict exBad :=
  ⟨1, 0, 0, by decide, ⟨5, by simp [exBad]⟩, Or.inl (by simp [exBad])⟩

/-- Two different interleavings of the good system, computed: same observations, equal to the
sequential ones. -/
example :
    (exec exGood ⟨fun _ => 3, fun _ => 0, fun _ => []⟩ [0, 1, 0, 1, 0, 1]).obs 0 = [3, 7] ∧
    (exec exGood ⟨fun _ => 3, fun _ => 0, fun _ => []⟩ [1, 1, 1, 0, 0, 0]).obs 0 = [3, 7] ∧
    (exec exGood ⟨fun _ => 3, fun _ => 0, fun _ => []⟩ [1, 0, 0, 1, 1, 0]).obs 1 = [3, 9] ∧
    (solo exGood (fun _ => 3) 1 3).obs 1 = [3, 9] := by
  refine ⟨?_, ?_, ?_, ?_⟩ <;> decide

/-- In the bad system the observation of thread 0 does depend on the schedule. -/
example :
    (exec exBad ⟨fun _ => 3, fun _ => 0, fun _ => []⟩ [0, 1]).obs 0 = [3] ∧
    (exec exBad ⟨fun _ => 3, fun _ => 0, fun _ => []⟩ [1, 0]).obs 0 = [5] := by
  refine ⟨?_, ?_⟩ <;> decide

end LD.C13

#print axioms LD.C13.no_conflict
#print axioms LD.C13.readonly_noninterference
#print axioms LD.C13.readonly_noninterference_mem
#print axioms LD.C13.shared_unchanged
#print axioms LD.C13.complete_run_sequential
#print axioms LD.C13.complete_runs_agree

/-
  C13 — "Concurrent evaluations are safe and agree with sequential ones."

  Abstract shared-memory trace model (`LDEval/Model/Trace.lean`).

  Connection with the evaluator.  The evaluator model (`LD.evaluate`, `Model/Eval.lean`) is a pure
  function of its inputs `(Env, Flag)`: its only writes are to the per-call state `St` (status,
  membership cache, events, logs, lookup traces), which is created by the call and is private to it
  (in Go: the `evaluationScope` on the caller's stack and the `LocalBuffer` used for hashing).  The
  flag, the segments, their preprocessed tables, the evaluator options, the data provider, the
  big-segment provider and the evaluation context are only *read*.  In the vocabulary of this file
  each concurrent `Evaluate` call is a thread, the per-call state is made of locations owned by that
  thread, and everything else is `shared`.  That the Go code obeys the discipline `ReadOnlyShared`
  is not something Lean can see: it is the harness's write-set obligation (deep-compare all shared
  inputs before/after a call) together with the Go race detector on concurrent runs.  What is
  proved here is what the discipline buys, for every number of threads and every interleaving:

  * `no_conflict`: there is no data race at all (a race is a schedule-independent fact about the
    access sets, so it is excluded for every interleaving at once);
  * `readonly_noninterference`: under every schedule each thread observes exactly the values it
    observes when running alone (hence computes the same result), and progresses exactly by the
    number of times it was scheduled;
  * `complete_runs_agree`: all schedules that let every thread finish yield the sequential
    observations, and hence agree with each other.
-/
import LDEval.Properties.C13Options
import LDEval.Model.Trace
import LDEval.Proofs.AuditTrace

namespace LD.C13
open LD.Trace

/-! ### 1. No conflicting pair of accesses -/

theorem no_conflict (s : Sys) (h : ReadOnlyShared s) : ¬ Conflict s := by
  rintro ⟨t1, t2, l, hne, ⟨v, hw⟩, hr⟩
  have h1 := h t1 _ hw
  simp only at h1
  rcases hr with hr | ⟨v', hw'⟩
  · have h2 := h t2 _ hr
    simp only at h2
    rcases h2 with h2 | h2
    · rw [h1.1] at h2; cases h2
    · exact hne (h1.2.symm.trans h2)
  · have h2 := h t2 _ hw'
    simp only at h2
    exact hne (h1.2.symm.trans h2.2)

/-! ### 2. Non-interference -/

/-- The invariant: thread by thread, the concurrent state looks like the solo state at the same
program counter, on everything that thread may access. -/
structure Inv (s : Sys) (init : Loc → Val) (st : State) : Prop where
  pc_le : ∀ t, st.pc t ≤ (s.progs t).length
  solo_pc : ∀ t, (solo s init t (st.pc t)).pc t = st.pc t
  obs : ∀ t, st.obs t = (solo s init t (st.pc t)).obs t
  mem : ∀ t l, (s.shared l = true ∨ s.owner l = t) → st.mem l = (solo s init t (st.pc t)).mem l

theorem inv_init (s : Sys) (init : Loc → Val) : Inv s init ⟨init, fun _ => 0, fun _ => []⟩ :=
  ⟨fun _ => Nat.zero_le _, fun _ => rfl, fun _ => rfl, fun _ _ _ => rfl⟩

theorem inv_step {s : Sys} (h : ReadOnlyShared s) {init : Loc → Val} {st : State}
    (hi : Inv s init st) (u : Tid) : Inv s init (step s st u) := by
  cases hop : (s.progs u)[st.pc u]? with
  | none =>
    have : step s st u = st := by simp only [step, hop]
    rw [this]; exact hi
  | some op =>
    have hlt : st.pc u < (s.progs u).length := by
      rcases Nat.lt_or_ge (st.pc u) (s.progs u).length with h' | h'
      · exact h'
      · rw [List.getElem?_eq_none h'] at hop; cases hop
    have hmem : op ∈ s.progs u := List.mem_of_getElem? hop
    have hdisc := h u op hmem
    -- the solo run of `u` executes the same op next
    have hsolo : solo s init u (st.pc u + 1) = step s (solo s init u (st.pc u)) u := rfl
    have hop' : (s.progs u)[(solo s init u (st.pc u)).pc u]? = some op := by
      rw [hi.solo_pc u]; exact hop
    cases op with
    | read l =>
      simp only at hdisc
      have hst : step s st u =
          { mem := st.mem
            pc := fun t => if t = u then st.pc u + 1 else st.pc t
            obs := fun t => if t = u then st.obs u ++ [st.mem l] else st.obs t } := by
        simp only [step, hop]
      have hso : solo s init u (st.pc u + 1) =
          { mem := (solo s init u (st.pc u)).mem
            pc := fun t => if t = u then (solo s init u (st.pc u)).pc u + 1
                    else (solo s init u (st.pc u)).pc t
            obs := fun t => if t = u then (solo s init u (st.pc u)).obs u ++
                      [(solo s init u (st.pc u)).mem l]
                    else (solo s init u (st.pc u)).obs t } := by
        rw [hsolo]; simp only [step, hop']
      rw [hst]
      refine ⟨?_, ?_, ?_, ?_⟩
      · intro t
        show (if t = u then st.pc u + 1 else st.pc t) ≤ _
        by_cases htu : t = u
        · subst htu; rw [if_pos rfl]; exact hlt
        · rw [if_neg htu]; exact hi.pc_le t
      · intro t
        show (solo s init t (if t = u then st.pc u + 1 else st.pc t)).pc t =
          (if t = u then st.pc u + 1 else st.pc t)
        by_cases htu : t = u
        · subst htu; simp only [if_pos]; rw [hso]; simp only [if_pos]; rw [hi.solo_pc]
        · simp only [if_neg htu]; exact hi.solo_pc t
      · intro t
        show (if t = u then st.obs u ++ [st.mem l] else st.obs t) =
          (solo s init t (if t = u then st.pc u + 1 else st.pc t)).obs t
        by_cases htu : t = u
        · subst htu; simp only [if_pos]; rw [hso]; simp only [if_pos]
          rw [hi.obs t, hi.mem t l hdisc]
        · simp only [if_neg htu]; exact hi.obs t
      · intro t l' hl'
        show st.mem l' = (solo s init t (if t = u then st.pc u + 1 else st.pc t)).mem l'
        by_cases htu : t = u
        · subst htu; simp only [if_pos]; rw [hso]; exact hi.mem t l' hl'
        · simp only [if_neg htu]; exact hi.mem t l' hl'
    | write l v =>
      simp only at hdisc
      have hst : step s st u =
          { mem := fun m => if m = l then v else st.mem m
            pc := fun t => if t = u then st.pc u + 1 else st.pc t
            obs := st.obs } := by
        simp only [step, hop]
      have hso : solo s init u (st.pc u + 1) =
          { mem := fun m => if m = l then v else (solo s init u (st.pc u)).mem m
            pc := fun t => if t = u then (solo s init u (st.pc u)).pc u + 1
                    else (solo s init u (st.pc u)).pc t
            obs := (solo s init u (st.pc u)).obs } := by
        rw [hsolo]; simp only [step, hop']
      rw [hst]
      refine ⟨?_, ?_, ?_, ?_⟩
      · intro t
        show (if t = u then st.pc u + 1 else st.pc t) ≤ _
        by_cases htu : t = u
        · subst htu; rw [if_pos rfl]; exact hlt
        · rw [if_neg htu]; exact hi.pc_le t
      · intro t
        show (solo s init t (if t = u then st.pc u + 1 else st.pc t)).pc t =
          (if t = u then st.pc u + 1 else st.pc t)
        by_cases htu : t = u
        · subst htu; simp only [if_pos]; rw [hso]; simp only [if_pos]; rw [hi.solo_pc]
        · simp only [if_neg htu]; exact hi.solo_pc t
      · intro t
        show st.obs t = (solo s init t (if t = u then st.pc u + 1 else st.pc t)).obs t
        by_cases htu : t = u
        · subst htu; simp only [if_pos]; rw [hso]; exact hi.obs t
        · simp only [if_neg htu]; exact hi.obs t
      · intro t l' hl'
        show (if l' = l then v else st.mem l') =
          (solo s init t (if t = u then st.pc u + 1 else st.pc t)).mem l'
        by_cases htu : t = u
        · subst htu; simp only [if_pos]; rw [hso]
          show _ = (if l' = l then v else (solo s init t (st.pc t)).mem l')
          by_cases hll : l' = l
          · simp only [if_pos hll]
          · simp only [if_neg hll]; exact hi.mem t l' hl'
        · simp only [if_neg htu]
          have hll : l' ≠ l := by
            intro hll; subst hll
            rcases hl' with hl' | hl'
            · rw [hdisc.1] at hl'; cases hl'
            · exact htu (hl'.symm.trans hdisc.2)
          rw [if_neg hll]; exact hi.mem t l' hl'

theorem inv_exec {s : Sys} (h : ReadOnlyShared s) {init : Loc → Val} (sched : List Tid) :
    ∀ {st : State}, Inv s init st → Inv s init (exec s st sched) := by
  induction sched with
  | nil => intro st hi; exact hi
  | cons u sched ih => intro st hi; exact ih (inv_step h hi u)

/-- One step advances the stepping thread's program counter by one, unless it has finished. -/
theorem step_pc (s : Sys) (st : State) (u t : Tid) (hle : st.pc t ≤ (s.progs t).length) :
    (step s st u).pc t = min (st.pc t + if u = t then 1 else 0) (s.progs t).length := by
  unfold step
  cases hop : (s.progs u)[st.pc u]? with
  | none =>
    simp only
    by_cases hut : u = t
    · subst hut
      have := (List.getElem?_eq_none_iff.mp hop)
      simp only [if_pos]; omega
    · simp only [if_neg hut]; omega
  | some op =>
    have hlt : st.pc u < (s.progs u).length := by
      rcases Nat.lt_or_ge (st.pc u) (s.progs u).length with h' | h'
      · exact h'
      · rw [List.getElem?_eq_none h'] at hop; cases hop
    cases op <;>
    · simp only
      by_cases hut : u = t
      · subst hut; simp only [if_pos]; omega
      · have : ¬ t = u := fun h => hut h.symm
        simp only [if_neg hut, if_neg this]; omega

/-- No thread is ever stalled or run ahead by the others: after a schedule, thread `t` has executed
exactly as many ops as it was scheduled for (capped by its program length). -/
theorem exec_pc (s : Sys) (sched : List Tid) (t : Tid) :
    ∀ st : State, st.pc t ≤ (s.progs t).length →
      (exec s st sched).pc t = min (st.pc t + sched.count t) (s.progs t).length := by
  induction sched with
  | nil => intro st hle; simp only [exec, List.foldl_nil, List.count_nil]; omega
  | cons u sched ih =>
    intro st hle
    have h1 := step_pc s st u t hle
    have h2 : (step s st u).pc t ≤ (s.progs t).length := by rw [h1]; omega
    show (exec s (step s st u) sched).pc t = _
    rw [ih _ h2, h1, List.count_cons]
    by_cases hut : u = t
    · subst hut; simp only [if_pos, beq_self_eq_true]; omega
    · have : (u == t) = false := by simpa using hut
      simp only [if_neg hut, this, Bool.false_eq_true, if_false]; omega

/-- **Non-interference.**  Under every schedule each thread reads exactly the values it reads when
running alone for the same number of steps, and it has executed exactly as many of its ops as it
was scheduled for. -/
theorem readonly_noninterference (s : Sys) (h : ReadOnlyShared s) (init : Loc → Val)
    (sched : List Tid) (t : Tid) :
    let st := exec s ⟨init, fun _ => 0, fun _ => []⟩ sched
    st.obs t = (solo s init t (st.pc t)).obs t ∧
      st.pc t = min (sched.count t) (s.progs t).length := by
  intro st
  refine ⟨(inv_exec h sched (inv_init s init)).obs t, ?_⟩
  have := exec_pc s sched t ⟨init, fun _ => 0, fun _ => []⟩ (Nat.zero_le _)
  simpa using this

/-- Stronger form: the private memory of each thread and the shared memory it can see also agree
with the solo run (so "computes the same result" covers results left in memory). -/
theorem readonly_noninterference_mem (s : Sys) (h : ReadOnlyShared s) (init : Loc → Val)
    (sched : List Tid) (t : Tid) (l : Loc) (hl : s.shared l = true ∨ s.owner l = t) :
    let st := exec s ⟨init, fun _ => 0, fun _ => []⟩ sched
    st.mem l = (solo s init t (st.pc t)).mem l :=
  (inv_exec h sched (inv_init s init)).mem t l hl

/-- Shared memory is never modified. -/
theorem shared_unchanged (s : Sys) (h : ReadOnlyShared s) (init : Loc → Val)
    (sched : List Tid) (l : Loc) (hl : s.shared l = true) :
    (exec s ⟨init, fun _ => 0, fun _ => []⟩ sched).mem l = init l := by
  -- direct induction on the schedule with the state generalised
  suffices hgen : ∀ (st : State), st.mem l = init l → (exec s st sched).mem l = init l from
    hgen _ rfl
  induction sched with
  | nil => intro st hst; exact hst
  | cons u sched ih =>
    intro st hst
    apply ih
    unfold step
    cases hop : (s.progs u)[st.pc u]? with
    | none => exact hst
    | some op =>
      cases op with
      | read l' => exact hst
      | write l' v =>
        have hd := h u _ (List.mem_of_getElem? hop)
        simp only at hd
        show (if l = l' then v else st.mem l) = init l
        have : l ≠ l' := by intro e; subst e; rw [hd.1] at hl; cases hl
        rw [if_neg this]; exact hst

/-! ### 3. Complete runs agree -/

/-- If the schedule lets every thread finish, each thread's full observation is its sequential
observation. -/
theorem complete_run_sequential (s : Sys) (h : ReadOnlyShared s) (init : Loc → Val)
    (sched : List Tid) (hfin : ∀ t, (s.progs t).length ≤ sched.count t) (t : Tid) :
    (exec s ⟨init, fun _ => 0, fun _ => []⟩ sched).pc t = (s.progs t).length ∧
    (exec s ⟨init, fun _ => 0, fun _ => []⟩ sched).obs t =
      (solo s init t (s.progs t).length).obs t := by
  obtain ⟨h1, h2⟩ := readonly_noninterference s h init sched t
  have hpc : (exec s ⟨init, fun _ => 0, fun _ => []⟩ sched).pc t = (s.progs t).length := by
    rw [h2]; exact Nat.min_eq_right (hfin t)
  refine ⟨hpc, ?_⟩
  rw [h1, hpc]

/-- Any two schedules that let every thread finish give every thread the same observations — the
ones of the sequential run. -/
theorem complete_runs_agree (s : Sys) (h : ReadOnlyShared s) (init : Loc → Val)
    (sched₁ sched₂ : List Tid)
    (hfin₁ : ∀ t, (s.progs t).length ≤ sched₁.count t)
    (hfin₂ : ∀ t, (s.progs t).length ≤ sched₂.count t) (t : Tid) :
    (exec s ⟨init, fun _ => 0, fun _ => []⟩ sched₁).obs t =
        (solo s init t (s.progs t).length).obs t ∧
    (exec s ⟨init, fun _ => 0, fun _ => []⟩ sched₂).obs t =
        (exec s ⟨init, fun _ => 0, fun _ => []⟩ sched₁).obs t := by
  have a := (complete_run_sequential s h init sched₁ hfin₁ t).2
  have b := (complete_run_sequential s h init sched₂ hfin₂ t).2
  exact ⟨a, b.trans a.symm⟩

/-! ### 4. Non-vacuity -/

/-- Two threads; location 0 is shared (a flag), location 1 is thread 0's scratch, location 2 is
thread 1's.  Each reads the flag, writes its scratch, reads it back. -/
def exGood : Sys where
  progs := fun t =>
    if t = 0 then [.read 0, .write 1 7, .read 1]
    else if t = 1 then [.read 0, .write 2 9, .read 2]
    else []
  shared := fun l => l == 0
  owner := fun l => if l = 1 then 0 else 1

/-- The same, except that thread 1 writes the shared location. -/
def exBad : Sys where
  progs := fun t =>
    if t = 0 then [.read 0, .write 1 7, .read 1]
    else if t = 1 then [.write 0 5]
    else []
  shared := fun l => l == 0
  owner := fun l => if l = 1 then 0 else 1

example : ReadOnlyShared exGood := by
  intro t op hop
  by_cases h0 : t = 0
  · subst h0
    simp only [exGood, if_pos] at hop
    simp only [List.mem_cons, List.not_mem_nil, or_false] at hop
    rcases hop with rfl | rfl | rfl <;> simp [exGood]
  · by_cases h1 : t = 1
    · subst h1
      simp only [exGood] at hop
      simp only [List.mem_cons, List.not_mem_nil, or_false, if_neg h0, if_pos] at hop
      rcases hop with rfl | rfl | rfl <;> simp [exGood]
    · simp only [exGood, if_neg h0, if_neg h1, List.not_mem_nil] at hop

/-- The discipline is falsifiable. -/
example : ¬ ReadOnlyShared exBad := by
  intro h
  have := h 1 (.write 0 5) (by simp [exBad])
  simp [exBad] at this

/-- … and the bad system does have a race. -/
example : Conflict exBad :=
  ⟨1, 0, 0, by decide, ⟨5, by simp [exBad]⟩, Or.inl (by simp [exBad])⟩

/-- Two different interleavings of the good system, computed: same observations, equal to the
sequential ones. -/
example :
    (exec exGood ⟨fun _ => 3, fun _ => 0, fun _ => []⟩ [0, 1, 0, 1, 0, 1]).obs 0 = [3, 7] ∧
    (exec exGood ⟨fun _ => 3, fun _ => 0, fun _ => []⟩ [1, 1, 1, 0, 0, 0]).obs 0 = [3, 7] ∧
    (exec exGood ⟨fun _ => 3, fun _ => 0, fun _ => []⟩ [1, 0, 0, 1, 1, 0]).obs 1 = [3, 9] ∧
    (solo exGood (fun _ => 3) 1 3).obs 1 = [3, 9] := by
  refine ⟨?_, ?_, ?_, ?_⟩ <;> decide

/-- In the bad system the observation of thread 0 does depend on the schedule. -/
example :
    (exec exBad ⟨fun _ => 3, fun _ => 0, fun _ => []⟩ [0, 1]).obs 0 = [3] ∧
    (exec exBad ⟨fun _ => 3, fun _ => 0, fun _ => []⟩ [1, 0]).obs 0 = [5] := by
  refine ⟨?_, ?_⟩ <;> decide

/-! ## Strengthened statements (theorem audit) -/

/-! ### 5. The trace machine connected to the evaluator model (audit finding #44)

Sections 1–4 are about an abstract machine.  This section instantiates it with the evaluator:
`Proofs/AuditTrace.lean` defines, for a world `w` (data-provider content, big-segment provider) and a
list of calls (each with its own flag, context, options), the system `sysOf w calls` whose thread `t`
runs `traceOf w t (evaluate (envOf w calls[t]) calls[t].flag)` — one read of a shared location for
every flag lookup, segment lookup and big-segment query that the *real model evaluation* records in
its observation, one write to a location owned by thread `t` for every update of its per-call state.
The initial memory `initOf w` holds, at the location of each key, the identity of the item the
store/provider returns for it (`valFlag`, `valSeg`, `valBs`; `findFlag_eq_decode` etc. show that this
value determines the answer).  Proved, for every world, every list of calls and every interleaving:

* `sysOf_readOnlyShared` (in `AuditTrace`): the system obeys the discipline;
* `eval_no_conflict`: no two concurrent evaluations have a conflicting pair of accesses;
* `eval_shared_unchanged`: the store/provider image in memory is never modified;
* `concurrent_evaluations_see_sequential_answers`: each evaluation is handed, for its lookups in
  order, exactly the answers the store/provider give it when it runs alone;
* `eval_complete_runs_agree`: any two complete interleavings give every evaluation the same reads.

What remains OUTSIDE Lean:

(a) That the memory accesses of the *Go* evaluator are those of `traceOf` — reads of flags, segments
    and the provider only, writes only to the `evaluationScope` / the caller's stack — is the
    harness's write-set obligation (deep comparison of all shared inputs before/after) plus the Go
    race detector on concurrent runs.  Lean proves the discipline for the MODEL, whose only writes
    are to `St` by construction (`evaluate` is a pure function; `St` is created by the call).
(b) Programs of the machine are static lists of accesses.  In the evaluator, which key is looked up
    next depends on the values read before.  This dependency is not expressed by the machine: the
    trace of thread `t` is computed from its *sequential* evaluation.  That is harmless precisely
    because of `concurrent_evaluations_see_sequential_answers` — the values handed to the thread
    are the sequential ones at every step, so a value-dependent program would take the same path —
    but the induction "same answers so far ⇒ same next access" is carried out informally here, not
    inside the machine.  Likewise `Obs` orders accesses within a class (flag lookups, segment
    lookups, provider queries) but not between classes; `traceOf` lists class after class.  No
    theorem below depends on the order of a thread's accesses.
(c) Memory is sequentially consistent: no Go memory model, no scheduler fairness (completeness of a
    schedule is a hypothesis), and provider implementations (`DataProvider`,
    `BigSegmentProvider`) are assumed to be thread-safe functions of the key.
-/

/-- No two concurrent (model) evaluations race: whatever the flags, contexts, options and the
number of calls, there is no pair of accesses of two different calls to one location of which one
is a write.  For the Go code: `Evaluate` may be called from any number of goroutines on one
evaluator without synchronisation, as far as the model's accesses go. -/
theorem eval_no_conflict (w : World) (calls : List CallIn) : ¬ Conflict (sysOf w calls) :=
  no_conflict _ (sysOf_readOnlyShared w calls)

/-- One thread running alone in a disciplined system whose reads are all of shared locations: after
`k` of its ops its program counter is `k`, it has observed the initial contents of the locations
read so far, and shared memory still has its initial content. -/
theorem solo_prefix (s : Sys) (h : ReadOnlyShared s) (init : Loc → Val) (t : Tid)
    (hr : ∀ l, Op.read l ∈ s.progs t → s.shared l = true) :
    ∀ k, k ≤ (s.progs t).length →
      (solo s init t k).pc t = k ∧
      (solo s init t k).obs t = (readsOf ((s.progs t).take k)).map init ∧
      ∀ l, s.shared l = true → (solo s init t k).mem l = init l := by
  intro k
  induction k with
  | zero => intro _; exact ⟨rfl, by simp [solo, readsOf], fun _ _ => rfl⟩
  | succ k ih =>
    intro hk
    have hlt : k < (s.progs t).length := hk
    obtain ⟨hpc, hobs, hmem⟩ := ih (Nat.le_of_lt hlt)
    have hsolo : solo s init t (k + 1) = step s (solo s init t k) t := rfl
    have hget : (s.progs t)[k]? = some (s.progs t)[k] := List.getElem?_eq_getElem hlt
    have hop : (s.progs t)[(solo s init t k).pc t]? = some (s.progs t)[k] := by rw [hpc]; exact hget
    have hin : (s.progs t)[k] ∈ s.progs t := List.getElem_mem hlt
    have htake : (s.progs t).take (k + 1) = (s.progs t).take k ++ [(s.progs t)[k]] := by
      rw [List.take_add_one, hget]; rfl
    rw [hsolo, htake, readsOf_append, List.map_append, ← hobs]
    generalize (s.progs t)[k] = op at hop hin
    cases op with
    | read l =>
      have hst : step s (solo s init t k) t =
          { mem := (solo s init t k).mem
            pc := fun u => if u = t then (solo s init t k).pc t + 1 else (solo s init t k).pc u
            obs := fun u => if u = t then (solo s init t k).obs t ++ [(solo s init t k).mem l]
                      else (solo s init t k).obs u } := by
        simp only [step, hop]
      rw [hst]
      refine ⟨?_, ?_, hmem⟩
      · show (if t = t then (solo s init t k).pc t + 1 else _) = k + 1
        rw [if_pos rfl, hpc]
      · show (if t = t then (solo s init t k).obs t ++ [(solo s init t k).mem l] else _) = _
        rw [if_pos rfl, hmem l (hr l hin)]; rfl
    | write l v =>
      have hst : step s (solo s init t k) t =
          { mem := fun m => if m = l then v else (solo s init t k).mem m
            pc := fun u => if u = t then (solo s init t k).pc t + 1 else (solo s init t k).pc u
            obs := (solo s init t k).obs } := by
        simp only [step, hop]
      have hd := h t _ hin
      simp only at hd
      rw [hst]
      refine ⟨?_, ?_, ?_⟩
      · show (if t = t then (solo s init t k).pc t + 1 else _) = k + 1
        rw [if_pos rfl, hpc]
      · show (solo s init t k).obs t = (solo s init t k).obs t ++ List.map init (readsOf [Op.write l v])
        simp [readsOf]
      · intro l' hl'
        show (if l' = l then v else (solo s init t k).mem l') = init l'
        have : l' ≠ l := by intro e; subst e; rw [hd.1] at hl'; cases hl'
        rw [if_neg this]; exact hmem l' hl'

/-- **What a thread running alone observes**, in a disciplined system in which it reads shared
locations only: the initial contents of the locations it reads, in program order — its own writes
never come back to it.  (General fact about the machine; instantiated below with evaluations.) -/
theorem solo_obs_eq_reads (s : Sys) (h : ReadOnlyShared s) (init : Loc → Val) (t : Tid)
    (hr : ∀ l, Op.read l ∈ s.progs t → s.shared l = true) :
    (solo s init t (s.progs t).length).obs t = (readsOf (s.progs t)).map init := by
  have := (solo_prefix s h init t hr (s.progs t).length (Nat.le_refl _)).2.1
  rwa [List.take_length] at this

/-- **Concurrent evaluations are handed the sequential answers.**  Take any world, any list of
calls, any schedule that lets every call finish, and any call `c = calls[t]` whose looked-up keys
lie in the key universe.  Then what thread `t` reads from the shared memory during the concurrent
run is, lookup by lookup and in order: the store's answer `valFlag w k` for each of its flag
lookups, the store's answer `valSeg w k` for each of its segment lookups, the provider's answer
`valBs w k` for each of its big-segment queries — exactly what the sequential evaluation
`evaluate (envOf w c) c.flag` is given.  For the Go code: under every interleaving of goroutines
each `Evaluate` sees the same flags, segments and memberships as if it ran alone, hence (being a
function of them, C12) returns the same result. -/
theorem concurrent_evaluations_see_sequential_answers (w : World) (calls : List CallIn)
    (sched : List Tid) (hfin : ∀ t, ((sysOf w calls).progs t).length ≤ sched.count t)
    (t : Tid) (c : CallIn) (hc : calls[t]? = some c)
    (hf : ∀ k ∈ (obsOf w c).flagLookups, k ∈ w.keys)
    (hs : ∀ k ∈ (obsOf w c).segLookups, k ∈ w.keys)
    (hb : ∀ k ∈ (obsOf w c).bsQueries, k ∈ w.keys) :
    (exec (sysOf w calls) ⟨initOf w, fun _ => 0, fun _ => []⟩ sched).obs t =
      (obsOf w c).flagLookups.map (valFlag w) ++ (obsOf w c).segLookups.map (valSeg w) ++
        (obsOf w c).bsQueries.map (valBs w) := by
  rw [(complete_run_sequential _ (sysOf_readOnlyShared w calls) (initOf w) sched hfin t).2,
    solo_obs_eq_reads _ (sysOf_readOnlyShared w calls) (initOf w) t (sysOf_reads_shared w calls t),
    sysOf_progs_some w hc]
  exact map_initOf_reads w t _ hf hs hb

/-- The same without the hypothesis on the key universe: for the world whose universe is the set of
keys the given calls look up (`World.covering`), every call of the list gets the sequential answers
under every complete schedule. -/
theorem concurrent_evaluations_see_sequential_answers_covering (store : Store)
    (bs : Option BSProvider) (calls : List CallIn) (sched : List Tid)
    (hfin : ∀ t, ((sysOf (World.covering store bs calls) calls).progs t).length ≤ sched.count t)
    (t : Tid) (c : CallIn) (hc : calls[t]? = some c) :
    let w := World.covering store bs calls
    (exec (sysOf w calls) ⟨initOf w, fun _ => 0, fun _ => []⟩ sched).obs t =
      (obsOf w c).flagLookups.map (valFlag w) ++ (obsOf w c).segLookups.map (valSeg w) ++
        (obsOf w c).bsQueries.map (valBs w) := by
  intro w
  obtain ⟨hf, hs, hb⟩ := covering_covers store bs calls hc
  exact concurrent_evaluations_see_sequential_answers w calls sched hfin t c hc hf hs hb

/-- Also for partial runs: under every schedule whatsoever (complete or not, fair or not) the values
thread `t` has read so far are the initial contents — the store's and provider's answers — of the
first locations its program reads.  No evaluation ever sees a value written by another one. -/
theorem concurrent_evaluations_prefix (w : World) (calls : List CallIn) (sched : List Tid)
    (t : Tid) :
    let st := exec (sysOf w calls) ⟨initOf w, fun _ => 0, fun _ => []⟩ sched
    st.obs t = (readsOf (((sysOf w calls).progs t).take (st.pc t))).map (initOf w) ∧
      st.pc t = min (sched.count t) ((sysOf w calls).progs t).length := by
  intro st
  obtain ⟨h1, h2⟩ := readonly_noninterference _ (sysOf_readOnlyShared w calls) (initOf w) sched t
  refine ⟨?_, h2⟩
  have hle : st.pc t ≤ ((sysOf w calls).progs t).length := by
    show (exec (sysOf w calls) ⟨initOf w, fun _ => 0, fun _ => []⟩ sched).pc t ≤ _
    rw [h2]; exact Nat.min_le_right _ _
  exact h1.trans (solo_prefix _ (sysOf_readOnlyShared w calls) (initOf w) t
    (sysOf_reads_shared w calls t) _ hle).2.1

/-- The image of the store and of the provider in memory is never modified by any number of
concurrent evaluations under any schedule.  For the Go code (model level): `Evaluate` leaves the
flags, the segments and the provider's data as it found them, also when called concurrently. -/
theorem eval_shared_unchanged (w : World) (calls : List CallIn) (sched : List Tid) (l : Loc)
    (hl : sharedLoc l = true) :
    (exec (sysOf w calls) ⟨initOf w, fun _ => 0, fun _ => []⟩ sched).mem l = initOf w l :=
  shared_unchanged _ (sysOf_readOnlyShared w calls) (initOf w) sched l hl

/-- In particular the flag filed under `k` is, after any concurrent run, still the one the store
returned at the start. -/
theorem eval_flag_unchanged (w : World) (calls : List CallIn) (sched : List Tid) (k : String)
    (hk : k ∈ w.keys) :
    (exec (sysOf w calls) ⟨initOf w, fun _ => 0, fun _ => []⟩ sched).mem (flagLoc w k) =
      valFlag w k := by
  rw [eval_shared_unchanged w calls sched _ (shared_flagLoc w k), initOf_flagLoc w hk]

/-- Any two schedules that let every evaluation finish hand every evaluation the same values, those
of its run alone.  For the Go code: the outcome of a batch of concurrent `Evaluate` calls does not
depend on how the goroutines are interleaved. -/
theorem eval_complete_runs_agree (w : World) (calls : List CallIn) (sched₁ sched₂ : List Tid)
    (hfin₁ : ∀ t, ((sysOf w calls).progs t).length ≤ sched₁.count t)
    (hfin₂ : ∀ t, ((sysOf w calls).progs t).length ≤ sched₂.count t) (t : Tid) :
    (exec (sysOf w calls) ⟨initOf w, fun _ => 0, fun _ => []⟩ sched₁).obs t =
        (solo (sysOf w calls) (initOf w) t ((sysOf w calls).progs t).length).obs t ∧
    (exec (sysOf w calls) ⟨initOf w, fun _ => 0, fun _ => []⟩ sched₂).obs t =
        (exec (sysOf w calls) ⟨initOf w, fun _ => 0, fun _ => []⟩ sched₁).obs t :=
  complete_runs_agree _ (sysOf_readOnlyShared w calls) (initOf w) sched₁ sched₂ hfin₁ hfin₂ t

/-- The private state of one evaluation is untouched by the others: a private location of thread `t`
holds, under every schedule, what it holds when `t` runs alone for as many steps as it was
scheduled.  For the Go code: the events, log lines, membership cache and status that one `Evaluate`
call accumulates are its own — the recorder of each call sees only that call's events
(audit finding #45, at the level of the access model). -/
theorem eval_private_state_isolated (w : World) (calls : List CallIn) (sched : List Tid)
    (t : Tid) (j : Nat) :
    let st := exec (sysOf w calls) ⟨initOf w, fun _ => 0, fun _ => []⟩ sched
    st.mem (priv t j) = (solo (sysOf w calls) (initOf w) t (st.pc t)).mem (priv t j) :=
  readonly_noninterference_mem _ (sysOf_readOnlyShared w calls) (initOf w) sched t (priv t j)
    (Or.inr (owner_priv t j))

/-! ### 6. Non-vacuity: two concurrent evaluations of a flag with two prerequisites -/

/-- A flag of the store: on, one variation. -/
def exStoreFlag (k : String) : Flag :=
  { key := k, on := true, fallthrough := { variation := some 0 }, variations := [.bool true] }

/-- The evaluated flag: prerequisites `a` and `b`. -/
def exRoot : Flag :=
  { key := "root", on := true, prerequisites := [⟨"a", 0⟩, ⟨"b", 0⟩],
    fallthrough := { variation := some 0 }, variations := [.bool true] }

def exWorld : World :=
  { store := { flags := [("a", exStoreFlag "a"), ("b", exStoreFlag "b")] }, bs := none,
    keys := ["a", "b"] }

def exCall (u : String) : CallIn :=
  { opts := {}, ctx := .single { kind := "user", key := u }, rx := fun _ _ => none, flag := exRoot }

/-- Two calls, for two different users. -/
def exCalls : List CallIn := [exCall "u1", exCall "u2"]

def exSys : Sys := sysOf exWorld exCalls

/-- The real evaluations look up both prerequisites, in order, and emit two prerequisite events. -/
example :
    (obsOf exWorld (exCall "u1")).flagLookups = ["a", "b"] ∧
    (obsOf exWorld (exCall "u2")).flagLookups = ["a", "b"] ∧
    (obsOf exWorld (exCall "u1")).events.length = 2 ∧
    (obsOf exWorld (exCall "u1")).result.detail.reason = Reason.fallthrough ∧
    (obsOf exWorld (exCall "u1")).outcome = .done := by decide

/-- Their traces: two lookups (a write to the own trace and a read of the flag each) and two event
writes. -/
example :
    exSys.progs 0 =
      [.write (priv 0 0) 1, .read (flagLoc exWorld "a"), .write (priv 0 0) 1,
        .read (flagLoc exWorld "b"), .write (priv 0 5) 1, .write (priv 0 5) 1] ∧
    (exSys.progs 0).length = 6 ∧ (exSys.progs 1).length = 6 ∧ exSys.progs 2 = [] := by decide

/-- The store's answers: `a` is entry 1, `b` is entry 2, anything else is absent. -/
example : valFlag exWorld "a" = 1 ∧ valFlag exWorld "b" = 2 ∧ valFlag exWorld "c" = 0 ∧
    exWorld.store.findFlag "b" = decodeVal exWorld.store.flags 2 := by
  refine ⟨by decide, by decide, by decide, findFlag_eq_decode exWorld "b"⟩

/-- Two different complete interleavings, computed: both evaluations read `[1, 2]` (entry `a`, then
entry `b`) in both. -/
example :
    (exec exSys (State.init (initOf exWorld)) [0, 1, 0, 1, 0, 1, 0, 1, 0, 1, 0, 1]).obs 0 = [1, 2] ∧
    (exec exSys (State.init (initOf exWorld)) [0, 1, 0, 1, 0, 1, 0, 1, 0, 1, 0, 1]).obs 1 = [1, 2] ∧
    (exec exSys (State.init (initOf exWorld)) [1, 1, 1, 0, 0, 1, 1, 0, 0, 0, 1, 0]).obs 0 = [1, 2] ∧
    (exec exSys (State.init (initOf exWorld)) [1, 1, 1, 0, 0, 1, 1, 0, 0, 0, 1, 0]).obs 1 = [1, 2] := by
  refine ⟨?_, ?_, ?_, ?_⟩ <;> decide

/-- Both schedules are complete, so the general theorem applies to them (hypotheses of
`concurrent_evaluations_see_sequential_answers` are satisfiable by a non-trivial object). -/
example : ∀ t, (exSys.progs t).length ≤ [0, 1, 0, 1, 0, 1, 0, 1, 0, 1, 0, 1].count t := by
  intro t
  match t with
  | 0 => decide
  | 1 => decide
  | t + 2 => exact Nat.zero_le _

/-- The general theorem instantiated: under EVERY complete schedule call 1 reads `[1, 2]`. -/
example (sched : List Tid) (hfin : ∀ t, (exSys.progs t).length ≤ sched.count t) :
    (exec exSys (State.init (initOf exWorld)) sched).obs 1 = [1, 2] := by
  have := concurrent_evaluations_see_sequential_answers exWorld exCalls sched hfin 1 (exCall "u2")
    rfl (by decide) (by decide) (by decide)
  rw [show exSys = sysOf exWorld exCalls from rfl]
  rw [this]; decide

/-- The two evaluations do not race, and the store image is intact afterwards. -/
example : ¬ Conflict exSys := eval_no_conflict exWorld exCalls

/-- Negative control: the same system except that call 1 additionally *writes* the shared location of
flag `a` (an evaluator that "fixes up" a flag in place). -/
def exSysBad : Sys :=
  { exSys with
    progs := fun t => if t = 1 then .write (flagLoc exWorld "a") 9 :: exSys.progs 1 else exSys.progs t }

/-- It violates the discipline … -/
example : ¬ ReadOnlyShared exSysBad := by
  intro h
  have h1 := h 1 (.write (flagLoc exWorld "a") 9) (by simp [exSysBad])
  have h2 : sharedLoc (flagLoc exWorld "a") = false := h1.1
  rw [shared_flagLoc] at h2
  cases h2

/-- … has a race … -/
example : Conflict exSysBad :=
  ⟨1, 0, flagLoc exWorld "a", by decide, ⟨9, by simp [exSysBad]⟩, Or.inl (by decide)⟩

/-- … and what call 0 reads now depends on the schedule: `[1, 2]` if it runs first, `[9, 2]` if the
other call's write comes first. -/
example :
    (exec exSysBad (State.init (initOf exWorld)) [0, 0, 0, 0, 0, 0, 1, 1, 1, 1, 1, 1, 1]).obs 0 = [1, 2] ∧
    (exec exSysBad (State.init (initOf exWorld)) [1, 0, 0, 0, 0, 0, 0, 1, 1, 1, 1, 1, 1]).obs 0 = [9, 2] := by
  refine ⟨?_, ?_⟩ <;> decide

/-! Second instance: a segment lookup and a big-segment query per call (the segment and provider
locations, `valSeg`, `valBs`). -/

def exSeg : Segment :=
  { key := "seg", unbounded := true, unboundedContextKind := "user", generation := some 1 }

/-- The provider knows `u0` and `u1`; `u2` gets the default answer. -/
def exProv : BSProvider :=
  { table := [("u0", {}), ("u1", { membership := some [("seg.g1", true)], status := some .stale })] }

def exSegFlag : Flag :=
  { key := "f", on := true, variations := [.bool false, .bool true],
    rules := [{ vr := { variation := some 1 },
                clauses := [{ op := "segmentMatch", values := [.str "seg"] }] }],
    fallthrough := { variation := some 0 } }

def exWorld2 : World :=
  { store := { segments := [("seg", exSeg)] }, bs := some exProv, keys := ["seg", "u1", "u2"] }

def exCall2 (u : String) : CallIn :=
  { opts := {}, ctx := .single { kind := "user", key := u }, rx := fun _ _ => none,
    flag := exSegFlag }

def exCalls2 : List CallIn := [exCall2 "u1", exCall2 "u2"]

/-- The real evaluations: each looks up the segment and queries the provider for its own context
key; `u1` is a member (rule match), `u2` is not (fallthrough). -/
example :
    (obsOf exWorld2 (exCall2 "u1")).segLookups = ["seg"] ∧
    (obsOf exWorld2 (exCall2 "u1")).bsQueries = ["u1"] ∧
    (obsOf exWorld2 (exCall2 "u1")).memChecks = [("u1", "seg.g1")] ∧
    (obsOf exWorld2 (exCall2 "u1")).result.detail.index = some 1 ∧
    (obsOf exWorld2 (exCall2 "u2")).bsQueries = ["u2"] ∧
    (obsOf exWorld2 (exCall2 "u2")).result.detail.index = some 0 := by decide

/-- An interleaving, computed: call 0 reads segment entry 1 and provider entry 2 (`u1`), call 1
reads segment entry 1 and the provider's default (0). -/
example :
    (exec (sysOf exWorld2 exCalls2) (State.init (initOf exWorld2))
      [0, 1, 1, 0, 0, 1, 1, 0, 0, 1, 1, 0, 0, 1]).obs 0 = [1, 2] ∧
    (exec (sysOf exWorld2 exCalls2) (State.init (initOf exWorld2))
      [0, 1, 1, 0, 0, 1, 1, 0, 0, 1, 1, 0, 0, 1]).obs 1 = [1, 0] := by
  refine ⟨?_, ?_⟩ <;> decide

/-- … and so under EVERY complete schedule, by the general theorem. -/
example (sched : List Tid)
    (hfin : ∀ t, ((sysOf exWorld2 exCalls2).progs t).length ≤ sched.count t) :
    (exec (sysOf exWorld2 exCalls2) (State.init (initOf exWorld2)) sched).obs 0 = [1, 2] := by
  rw [concurrent_evaluations_see_sequential_answers exWorld2 exCalls2 sched hfin 0 (exCall2 "u1")
    rfl (by decide) (by decide) (by decide)]
  decide

end LD.C13

#print axioms LD.C13.no_conflict
#print axioms LD.C13.readonly_noninterference
#print axioms LD.C13.readonly_noninterference_mem
#print axioms LD.C13.shared_unchanged
#print axioms LD.C13.complete_run_sequential
#print axioms LD.C13.complete_runs_agree
#print axioms LD.C13.eval_no_conflict
#print axioms LD.C13.solo_prefix
#print axioms LD.C13.solo_obs_eq_reads
#print axioms LD.C13.concurrent_evaluations_see_sequential_answers
#print axioms LD.C13.concurrent_evaluations_see_sequential_answers_covering
#print axioms LD.C13.concurrent_evaluations_prefix
#print axioms LD.C13.eval_shared_unchanged
#print axioms LD.C13.eval_flag_unchanged
#print axioms LD.C13.eval_complete_runs_agree
#print axioms LD.C13.eval_private_state_isolated

/-
  C15 — JSON round-trip fidelity of flags and segments (tree level).

  "For every JSON document the decoder accepts, encoding the decoded value and decoding again
  reaches a fixed point after one step (same canonical JSON, deeply equal value) and the re-decoded
  flag or segment evaluates identically to the original for every context; for every value built
  with the builders from valid parts, decode(encode(v)) is deeply equal to v.  No
  evaluation-relevant property is lost or reinterpreted, in particular attribute names vs path
  references with and without a context kind, optional integers, rollout kind/seed/bucket-by/
  untracked, per-kind target lists, generation and unbounded kind."

  Tree level: `Codec.readFlag`/`readSegment` (decoder before preprocessing) and `decodeFlag`/
  `decodeSegment` (with preprocessing) against `Codec.encodeFlag`/`encodeSegment`.

  Main statements (sections are numbered as in the work plan; 5 comes before 3–4 in the file):
   1. `newRef_raw`, `newLiteral_component`, `ref_roundtrip_literal`, `ref_roundtrip_path`,
      `ref_undefined_roundtrip`
   2. `Decoded`, `decoded_ref_roundtrip`
   5. `dropEmptyRollouts`, `empty_rollout_irrelevant`, `spec_evalFlag_drop`, `evaluate_drop`
   3. `clause_roundtrip` (`readClause_enc`, `readClauses_enc`)
   4. `SegmentWf`, `segment_roundtrip`; `FlagWf`, `flag_roundtrip`, `encodeFlag_drop`,
      `flag_fixed_point`, `flag_roundtrip_exact`;
      range of the decoder: `readSegment_wf`, `readFlag_wf` (debug date as hypothesis `hdebug`,
      discharged by `debug_ok_of_lt` below 2^53);
      assembled: `segment_doc_roundtrip`, `decodeSegment_roundtrip`, `flag_doc_roundtrip`,
      `decodeFlag_roundtrip`, `redecoded_flag_evaluates_identically`
   6. examples
-/
import LDEval.Proofs.CodecLemmas
import LDEval.Spec.EvalSpec
import LDEval.Properties.C14
import LDEval.Model.Builders
import LDEval.Proofs.AuditCodecEntry

namespace LD.C15

open LD.Codec

/-! ## 1. Attribute references: names vs paths -/

theorem buildComps_raw (raw : String) (ps : List (List Char)) (acc : List String) :
    (Ref.buildComps raw ps acc).raw = raw := by
  induction ps generalizing acc with
  | nil => rfl
  | cons p ps ih =>
    unfold Ref.buildComps
    split
    · rfl
    · split
      · rfl
      · exact ih _

/-- `NewRef(s).String() = s`, valid or not. -/
theorem newRef_raw (s : String) : (Ref.newRef s).raw = s := by
  unfold Ref.newRef
  split
  · rfl
  · split
    · split
      · split <;> rfl
      · exact buildComps_raw _ _ _
    · rfl

/-- `NewLiteralRef(name).Component(0) = name`, including names with `/` or `~`. -/
theorem newLiteral_component (name : String) (h : name ≠ "") :
    (Ref.newLiteral name).component 0 = name := by
  unfold Ref.newLiteral
  have : (name == "") = false := by simpa using h
  rw [this]
  simp only [Bool.false_eq_true, if_false]
  split <;> rfl

theorem newLiteral_isDefined (name : String) : (Ref.newLiteral name).isDefined = true := by
  unfold Ref.newLiteral Ref.isDefined
  by_cases h : name = ""
  · subst h; rfl
  · have : (name == "") = false := by simpa using h
    rw [this]
    simp only [Bool.false_eq_true, if_false]
    split
    · simp
    · simp [h]

theorem newRef_isDefined (s : String) : (Ref.newRef s).isDefined = true := by
  unfold Ref.isDefined
  by_cases h : s = ""
  · subst h; rfl
  · simp [newRef_raw, h]

/-- No context kind: the reference is written as the literal attribute name and read back as the
same literal reference — also for names that start with `/` or contain `~`. -/
theorem ref_roundtrip_literal (name : String) (h : name ≠ "") :
    Codec.attrNameOrRef ((Ref.newLiteral name).component 0) "" = Ref.newLiteral name := by
  rw [newLiteral_component name h]
  unfold attrNameOrRef
  have : (name == "") = false := by simpa using h
  rw [this]; rfl

/-- With a context kind: the reference is written as its raw path and read back by `NewRef`. -/
theorem ref_roundtrip_path (s ck : String) (hck : ck ≠ "") (hs : s ≠ "") :
    Codec.attrNameOrRef (Ref.newRef s).raw ck = Ref.newRef s := by
  rw [newRef_raw]
  unfold attrNameOrRef
  have h1 : (s == "") = false := by simpa using hs
  have h2 : (ck == "") = false := by simpa using hck
  rw [h1, h2]; rfl

theorem ref_undefined_roundtrip (ck : String) : Codec.attrNameOrRef "" ck = {} := rfl

/-! ## 2. Every reference the decoder produces survives write-then-read -/

/-- What the decoder produces for an attribute/bucketBy member under context kind `ck`. -/
def Decoded (r : Ref) (ck : String) : Prop := ∃ s, r = Codec.attrNameOrRef s ck

/-- The string the encoder writes for a reference (`writeAttrRef`). -/
def refStr (r : Ref) (ck : String) : String := if ck == "" then r.component 0 else r.raw

theorem writeAttrRef_eq (r : Ref) (ck : String) : Codec.writeAttrRef r ck = .str (refStr r ck) := by
  unfold writeAttrRef refStr; split <;> rfl

theorem decoded_undefined (r : Ref) (ck : String) (h : Decoded r ck) (hd : r.isDefined = false) :
    r = {} := by
  obtain ⟨s, rfl⟩ := h
  unfold attrNameOrRef at hd ⊢
  split
  · rfl
  · rename_i hs
    rw [if_neg hs] at hd
    split at hd
    · rw [newLiteral_isDefined] at hd; cases hd
    · rw [newRef_isDefined] at hd; cases hd

theorem decoded_defined_roundtrip (r : Ref) (ck : String) (h : Decoded r ck) (hd : r.isDefined = true) :
    Codec.attrNameOrRef (refStr r ck) ck = r := by
  obtain ⟨s, rfl⟩ := h
  by_cases hs : s = ""
  · subst hs; cases hd
  · have h1 : (s == "") = false := by simpa using hs
    by_cases hck : ck = ""
    · subst hck
      have e : attrNameOrRef s "" = Ref.newLiteral s := by
        unfold attrNameOrRef; rw [h1]; rfl
      rw [e]
      show attrNameOrRef ((Ref.newLiteral s).component 0) "" = _
      exact ref_roundtrip_literal s hs
    · have h2 : (ck == "") = false := by simpa using hck
      have e : attrNameOrRef s ck = Ref.newRef s := by
        unfold attrNameOrRef; rw [h1, h2]; rfl
      rw [e]
      have : refStr (Ref.newRef s) ck = (Ref.newRef s).raw := by unfold refStr; rw [h2]; rfl
      rw [this]
      exact ref_roundtrip_path s ck hck hs

/-- Write-then-read of any decoder-produced reference is the identity — with or without a context
kind, defined or not, valid or not (a clause writes `""` for an undefined reference). -/
theorem decoded_ref_roundtrip (r : Ref) (ck : String) (h : Decoded r ck) :
    Codec.attrNameOrRef
      (match (if !r.isDefined then J.str "" else Codec.writeAttrRef r ck) with
        | .str s => s | _ => "") ck = r := by
  cases hd : r.isDefined with
  | false => rw [decoded_undefined r ck h hd]; rfl
  | true =>
    simp only [Bool.not_true, Bool.false_eq_true, if_false, writeAttrRef_eq]
    exact decoded_defined_roundtrip r ck h hd

/-- In particular: a rollout without a context kind bucketing by an attribute whose name begins
with `/` — written as the bare name `/a~b`, read back as the same literal. -/
example : Codec.attrNameOrRef (refStr (Codec.attrNameOrRef "/a~b" "") "") "" =
    Codec.attrNameOrRef "/a~b" "" :=
  decoded_defined_roundtrip _ _ ⟨_, rfl⟩ (by
    have : attrNameOrRef "/a~b" "" = Ref.newLiteral "/a~b" := rfl
    rw [this]; exact newLiteral_isDefined _)

/-- A reference built by the builders is also in the decoder's range. -/
theorem decoded_newLiteral (name : String) (h : name ≠ "") : Decoded (Ref.newLiteral name) "" := by
  refine ⟨name, ?_⟩
  unfold attrNameOrRef
  have : (name == "") = false := by simpa using h
  rw [this]; rfl

theorem decoded_newRef (s ck : String) (h : s ≠ "") (hck : ck ≠ "") : Decoded (Ref.newRef s) ck := by
  refine ⟨s, ?_⟩
  unfold attrNameOrRef
  have h1 : (s == "") = false := by simpa using h
  have h2 : (ck == "") = false := by simpa using hck
  rw [h1, h2]; rfl

theorem decoded_empty (ck : String) : Decoded {} ck := ⟨"", rfl⟩

/-! ## 5. Dropping bucket-less rollouts (what encoding does) never changes evaluation -/

/-- The encoder omits a rollout that has no buckets; re-decoding yields the empty rollout. -/
def dropVR (vr : VariationOrRollout) : VariationOrRollout :=
  if vr.rollout.variations.isEmpty then { vr with rollout := {} } else vr

def dropEmptyRollouts (f : Flag) : Flag :=
  { f with fallthrough := dropVR f.fallthrough, rules := f.rules.map fun r => { r with vr := dropVR r.vr } }

/-- A rollout with no buckets is never consulted beyond "it has no buckets": a fixed variation
ignores it, no variation is the empty-rollout error either way. -/
theorem empty_rollout_irrelevant (env : Env) (vr : VariationOrRollout) (key salt : String)
    (h : vr.rollout.variations = []) :
    variationOrRollout env vr key salt = variationOrRollout env { vr with rollout := {} } key salt := by
  unfold variationOrRollout
  cases vr.variation with
  | some v => rfl
  | none => simp only [h]; rfl

theorem dropVR_irrelevant (env : Env) (vr : VariationOrRollout) (key salt : String) :
    variationOrRollout env (dropVR vr) key salt = variationOrRollout env vr key salt := by
  unfold dropVR
  split
  · rename_i h
    exact (empty_rollout_irrelevant env vr key salt (by simpa using h)).symm
  · rfl

theorem dropVR_idem (vr : VariationOrRollout) : dropVR (dropVR vr) = dropVR vr := by
  by_cases h : vr.rollout.variations.isEmpty = true
  · have e : dropVR vr = { vr with rollout := {} } := by unfold dropVR; rw [if_pos h]
    rw [e]; rfl
  · have e : dropVR vr = vr := by unfold dropVR; rw [if_neg h]
    rw [e, e]

theorem dropEmptyRollouts_idem (f : Flag) : dropEmptyRollouts (dropEmptyRollouts f) = dropEmptyRollouts f := by
  unfold dropEmptyRollouts
  simp only [List.map_map, Function.comp_def, dropVR_idem]

theorem spec_getValueForVR_drop (env : Env) (f : Flag) (vr : VariationOrRollout) (reason : Reason) :
    Spec.getValueForVR env (dropEmptyRollouts f) (dropVR vr) reason = Spec.getValueForVR env f vr reason := by
  unfold Spec.getValueForVR
  have hk : (dropEmptyRollouts f).key = f.key := rfl
  have hs : (dropEmptyRollouts f).salt = f.salt := rfl
  have hv : ∀ i r, Spec.getVariation (dropEmptyRollouts f) i r = Spec.getVariation f i r := fun _ _ => rfl
  simp only [hk, hs, hv, dropVR_irrelevant]

theorem spec_rulesLoop_drop (seg : Spec.SegRec) (env : Env) (f : Flag) (rs : List FlagRule) (i : Nat) :
    Spec.rulesLoop seg env (dropEmptyRollouts f) (rs.map fun r => { r with vr := dropVR r.vr }) i =
      Spec.rulesLoop seg env f rs i := by
  induction rs generalizing i with
  | nil =>
    show some (Spec.getValueForVR env (dropEmptyRollouts f) (dropVR f.fallthrough) .fallthrough, true) = _
    rw [spec_getValueForVR_drop]; rfl
  | cons r rs ih =>
    simp only [List.map_cons, Spec.rulesLoop, ih, spec_getValueForVR_drop]

/-- One level of flag evaluation is the same for `dropEmptyRollouts f` as for `f`, for every
context, store, prerequisite/segment recursion. -/
theorem spec_evalBody_drop (rec : Spec.FlagRec) (seg : Spec.SegRec) (env : Env) (f : Flag)
    (chain : List String) :
    Spec.evalBody rec seg env (dropEmptyRollouts f) chain = Spec.evalBody rec seg env f chain := by
  have hr := spec_rulesLoop_drop seg env f f.rules 0
  have hp : Spec.checkPrereqs rec env (dropEmptyRollouts f) chain = Spec.checkPrereqs rec env f chain := rfl
  have ho : ∀ r, Spec.getOffValue (dropEmptyRollouts f) r = Spec.getOffValue f r := fun _ => rfl
  have hv : ∀ v r, Spec.getVariation (dropEmptyRollouts f) v r = Spec.getVariation f v r := fun _ _ => rfl
  have hon : (dropEmptyRollouts f).on = f.on := rfl
  have ht : anyTargetMatch env.ctx (dropEmptyRollouts f) = anyTargetMatch env.ctx f := rfl
  have hrules : (dropEmptyRollouts f).rules = f.rules.map fun r => { r with vr := dropVR r.vr } := rfl
  unfold Spec.evalBody
  simp only [hon, hp, ho, hv, ht, hrules, hr]

/-- **The re-decoded flag evaluates identically** (stateless specification, any fuel, any store,
any context). -/
theorem spec_evalFlag_drop (sf n : Nat) (env : Env) (f : Flag) (chain : List String) :
    Spec.evalFlag sf n env (dropEmptyRollouts f) chain = Spec.evalFlag sf n env f chain := by
  cases n with
  | zero => rfl
  | succ n => exact spec_evalBody_drop _ _ env f chain

theorem isExperimentResult_drop (f : Flag) (r : Reason) :
    isExperimentResult (dropEmptyRollouts f) r = isExperimentResult f r := by
  have hrules : (dropEmptyRollouts f).rules = f.rules.map fun r => { r with vr := dropVR r.vr } := rfl
  have ht : (dropEmptyRollouts f).trackEventsFallthrough = f.trackEventsFallthrough := rfl
  unfold isExperimentResult
  simp only [hrules, ht, List.getElem?_map]
  cases f.rules[r.ruleIndex.toNat]? <;> rfl

/-! The same for the code-shaped model with every side channel (events, logs, lookups, queries). -/

theorem getValueForVR_drop (env : Env) (f : Flag) (vr : VariationOrRollout) (reason : Reason) (st : St) :
    getValueForVR env (dropEmptyRollouts f) (dropVR vr) reason st = getValueForVR env f vr reason st := by
  unfold getValueForVR
  have hk : (dropEmptyRollouts f).key = f.key := rfl
  have hs : (dropEmptyRollouts f).salt = f.salt := rfl
  have hv : ∀ i r st, getVariation env (dropEmptyRollouts f) i r st = getVariation env f i r st :=
    fun _ _ _ => rfl
  simp only [hk, hs, hv, dropVR_irrelevant]

theorem rulesLoop_drop (seg : SegRec) (env : Env) (f : Flag) (rs : List FlagRule) (i : Nat) (st : St) :
    rulesLoop seg env (dropEmptyRollouts f) (rs.map fun r => { r with vr := dropVR r.vr }) i st =
      rulesLoop seg env f rs i st := by
  induction rs generalizing i st with
  | nil =>
    show (let (d, st1) := getValueForVR env (dropEmptyRollouts f) (dropVR f.fallthrough) .fallthrough st
          (FlagOut.done d true, st1)) = _
    rw [getValueForVR_drop]; rfl
  | cons r rs ih =>
    simp only [List.map_cons, rulesLoop, ih, getValueForVR_drop]
    rfl

theorem prereqLoop_key (rec : FlagRec) (env : Env) (f f' : Flag) (hk : f'.key = f.key)
    (chain : List String) (ps : List Prereq) (st : St) :
    prereqLoop rec env f' chain ps st = prereqLoop rec env f chain ps st := by
  induction ps generalizing st with
  | nil => rfl
  | cons p ps ih => simp only [prereqLoop, hk, ih]

theorem evalBody_drop (rec : FlagRec) (seg : SegRec) (env : Env) (f : Flag) (chain : List String)
    (st : St) :
    evalBody rec seg env (dropEmptyRollouts f) chain st = evalBody rec seg env f chain st := by
  have hr := rulesLoop_drop seg env f f.rules 0
  have hrules : (dropEmptyRollouts f).rules = f.rules.map fun r => { r with vr := dropVR r.vr } := rfl
  have hp : ∀ st, checkPrereqs rec env (dropEmptyRollouts f) chain st = checkPrereqs rec env f chain st := by
    intro st
    unfold checkPrereqs
    rw [prereqLoop_key rec env f (dropEmptyRollouts f) rfl]
    rfl
  have ht : anyTargetMatch env.ctx (dropEmptyRollouts f) = anyTargetMatch env.ctx f := rfl
  unfold evalBody
  simp only [hp, ht, hrules, hr]
  rfl

theorem evalFlag_drop (sf n : Nat) (env : Env) (f : Flag) (chain : List String) (st : St) :
    evalFlag sf n env (dropEmptyRollouts f) chain st = evalFlag sf n env f chain st := by
  cases n with
  | zero => rfl
  | succ n => exact evalBody_drop _ _ env f chain st

/-- `Evaluator.Evaluate` observes nothing of the dropped rollouts: result, events, logs, lookups
and big-segment queries all coincide. -/
theorem evaluate_drop (env : Env) (f : Flag) : evaluate env (dropEmptyRollouts f) = evaluate env f := by
  unfold evaluate
  simp only [evalFlag_drop, isExperimentResult_drop]


/-! ## 3–4. Round trips -/

theorem objLoop_maybe {σ} (h : σ → String → J → D σ) (s : σ) (c : Bool) (name : String) (v : J) :
    objLoop h s (maybe c name v) = if c then h s name v else pure s := by
  cases c
  · rfl
  · show objLoop h s [(name, v)] = h s name v
    rw [objLoop_cons]; simp only [objLoop_nil, bind_pure]

/-- An integer survives `jInt` then `rInt` (Go: `int(float64(n))`). -/
def IntOK (n : Int) : Prop := goInt (n : Rat) = n
def OptIntOK (o : Option Int) : Prop := ∀ n, o = some n → IntOK n

theorem ratTrunc_intCast (n : Int) : ratTrunc (n : Rat) = n := by
  unfold ratTrunc
  rw [Rat.num_intCast]
  split
  · exact Rat.floor_intCast n
  · rw [← Rat.intCast_neg, Rat.floor_intCast]; omega

theorem intOK_of_range (n : Int) (h1 : int64Min ≤ n) (h2 : n ≤ int64Max) : IntOK n := by
  unfold IntOK goInt
  simp only [ratTrunc_intCast]
  rw [if_neg]
  omega

theorem goInt_range (q : Rat) : int64Min ≤ goInt q ∧ goInt q ≤ int64Max := by
  unfold goInt
  simp only
  split
  · decide
  · omega

/-- Every integer the decoder produces is in that range. -/
theorem intOK_goInt (q : Rat) : IntOK (goInt q) :=
  intOK_of_range _ (goInt_range q).1 (goInt_range q).2

theorem rInt_jInt (n : Int) (h : IntOK n) : rInt (jInt n) = .ok n := by
  show Except.ok (goInt (n : Rat)) = _
  rw [h]

theorem rIntOrNull_jInt (n : Int) (h : IntOK n) : rIntOrNull (jInt n) = .ok (some n) := by
  show Except.ok (some (goInt (n : Rat))) = _
  rw [h]

theorem rIntOrNull_jOptInt (o : Option Int) (h : OptIntOK o) : rIntOrNull (jOptInt o) = .ok o := by
  cases o with
  | none => rfl
  | some n => exact rIntOrNull_jInt n (h n rfl)

theorem readStringList_jStrs (acc xs : List String) : readStringList acc (jStrs xs) = .ok (acc ++ xs) := by
  unfold readStringList jStrs
  simp only [rArrayOrNull, pure_bind]
  rw [mapM_enc rString J.str xs (fun _ _ => rfl)]
  rfl
/-! ### Clauses -/

structure ClauseWf (c : Clause) : Prop where
  pre : c.pre = {}
  attr : Decoded c.attr c.contextKind
  values : c.values.map normValue = c.values

/-- What is written for a possibly undefined reference, as a string (`""` when undefined). -/
def optRefStr (r : Ref) (ck : String) : String := if r.isDefined then refStr r ck else ""

theorem optRef_roundtrip (r : Ref) (ck : String) (h : Decoded r ck) :
    attrNameOrRef (optRefStr r ck) ck = r := by
  unfold optRefStr
  cases hd : r.isDefined with
  | false => rw [decoded_undefined r ck h hd]; rfl
  | true => exact decoded_defined_roundtrip r ck h hd

theorem encClause_attr (c : Clause) :
    (if !c.attr.isDefined then J.str "" else writeAttrRef c.attr c.contextKind) =
      .str (optRefStr c.attr c.contextKind) := by
  unfold optRefStr; rw [writeAttrRef_eq]; cases c.attr.isDefined <;> rfl

theorem clauseH_contextKind (s : Clause × String) (x : String) :
    clauseH s "contextKind" (.str x) = pure ({ s.1 with contextKind := x }, s.2) := rfl
theorem clauseH_attribute (s : Clause × String) (x : String) :
    clauseH s "attribute" (.str x) = pure (s.1, x) := rfl
theorem clauseH_op (s : Clause × String) (x : String) :
    clauseH s "op" (.str x) = pure ({ s.1 with op := x }, s.2) := rfl
theorem clauseH_values (s : Clause × String) (xs : List J) :
    clauseH s "values" (.arr xs) = pure ({ s.1 with values := s.1.values ++ xs.map normValue }, s.2) := rfl
theorem clauseH_negate (s : Clause × String) (x : Bool) :
    clauseH s "negate" (.bool x) = pure ({ s.1 with negate := x }, s.2) := rfl

theorem clause_ck_chunk (s : Clause × String) (ck : String) (h : s.1.contextKind = "") :
    objLoop clauseH s (maybe (ck != "") "contextKind" (.str ck)) = pure ({ s.1 with contextKind := ck }, s.2) := by
  rw [objLoop_maybe]
  by_cases hck : ck = ""
  · subst hck
    obtain ⟨c, a⟩ := s
    cases c; simp_all
  · have : (ck != "") = true := by simpa using hck
    rw [this]; rfl

/-- One clause: decode(encode c) = c. -/
theorem readClause_enc (c : Clause) (hw : ClauseWf c) : readClause (encClause c) = .ok c := by
  obtain ⟨hpre, hattr, hvals⟩ := hw
  unfold encClause readClause
  rw [encClause_attr]
  simp only [rObject, pure_bind, objLoop_append, clause_ck_chunk, objLoop_cons, objLoop_nil,
    clauseH_attribute, clauseH_op, clauseH_values, clauseH_negate, List.nil_append, hvals,
    optRef_roundtrip _ _ hattr]
  cases c
  simp_all
  rfl

theorem readClauses_enc (cs : List Clause) (hw : ∀ c ∈ cs, ClauseWf c) (acc : List Clause) :
    readClauses acc (.arr (cs.map encClause)) = .ok (acc ++ cs) := by
  rw [readClauses_eq]
  simp only [rArrayOrNull, pure_bind]
  rw [mapM_enc readClause encClause cs (fun c hc => readClause_enc c (hw c hc))]
  rfl

/-- The statement of the task: a single clause in an array. -/
theorem clause_roundtrip (c : Clause) (hpre : c.pre = {}) (hattr : Decoded c.attr c.contextKind)
    (hvals : c.values.map Codec.normValue = c.values) :
    Codec.readClauses [] (.arr [Codec.encClause c]) = .ok [c] :=
  readClauses_enc [c] (fun c' hc' => by
    have : c' = c := by simpa using hc'
    subst this; exact ⟨hpre, hattr, hvals⟩) []

/-! ### Segments -/

theorem segTargetH_contextKind (t : SegmentTarget) (x : String) :
    segTargetH t "contextKind" (.str x) = pure { t with contextKind := x } := rfl
theorem segTargetH_values (t : SegmentTarget) (xs : List String) :
    segTargetH t "values" (jStrs xs) = pure { t with values := t.values ++ xs } := by
  show (do let x ← readStringList t.values (jStrs xs); pure { t with values := x }) = _
  rw [readStringList_jStrs]; rfl

theorem segTarget_ck_chunk (t : SegmentTarget) (ck : String) (h : t.contextKind = "") :
    objLoop segTargetH t (maybe (ck != "") "contextKind" (.str ck)) = pure { t with contextKind := ck } := by
  rw [objLoop_maybe]
  by_cases hck : ck = ""
  · subst hck; cases t; simp_all
  · have : (ck != "") = true := by simpa using hck
    rw [this]; rfl

theorem readSegTarget_enc (t : SegmentTarget) (h : t.pre = none) :
    readSegTarget (.obj (maybe (t.contextKind != "") "contextKind" (.str t.contextKind) ++
      [("values", jStrs t.values)])) = .ok t := by
  unfold readSegTarget
  simp only [rObject, pure_bind, objLoop_append, segTarget_ck_chunk, objLoop_cons, objLoop_nil,
    segTargetH_values, List.nil_append]
  cases t
  simp_all
  rfl

theorem readSegmentTargets_enc (ts : List SegmentTarget) (h : ∀ t ∈ ts, t.pre = none)
    (acc : List SegmentTarget) :
    readSegmentTargets acc (encSegTargets ts) = .ok (acc ++ ts) := by
  rw [readSegmentTargets_eq]
  unfold encSegTargets
  simp only [rArrayOrNull, pure_bind]
  rw [mapM_enc readSegTarget _ ts (fun t ht => readSegTarget_enc t (h t ht))]
  rfl

structure SegRuleWf (r : SegmentRule) : Prop where
  clauses : ∀ c ∈ r.clauses, ClauseWf c
  weight : OptIntOK r.weight
  bucketBy : Decoded r.bucketBy r.rolloutContextKind

theorem segRuleH_id (s : SegmentRule × String) (x : String) :
    segRuleH s "id" (.str x) = pure ({ s.1 with id := x }, s.2) := rfl
theorem segRuleH_clauses (s : SegmentRule × String) (cs : List Clause) (h : ∀ c ∈ cs, ClauseWf c) :
    segRuleH s "clauses" (.arr (cs.map encClause)) = pure ({ s.1 with clauses := s.1.clauses ++ cs }, s.2) := by
  show (do let x ← readClauses s.1.clauses (.arr (cs.map encClause)); pure ({ s.1 with clauses := x }, s.2)) = _
  rw [readClauses_enc cs h]; rfl

theorem segRule_weight_chunk (s : SegmentRule × String) (w : Option Int) (hw : OptIntOK w)
    (h : s.1.weight = none) :
    objLoop segRuleH s (maybe w.isSome "weight" (jInt (w.getD 0))) = pure ({ s.1 with weight := w }, s.2) := by
  rw [objLoop_maybe]
  cases w with
  | none => obtain ⟨r, a⟩ := s; cases r; simp_all
  | some n =>
    show (do match ← rIntOrNull (jInt n) with
              | some n => pure ({ s.1 with weight := some n }, s.2)
              | none => pure s) = _
    rw [rIntOrNull_jInt n (hw n rfl)]; rfl

theorem segRule_bucketBy_chunk (s : SegmentRule × String) (b : Ref) (ck : String) (h : s.2 = "") :
    objLoop segRuleH s (maybe b.isDefined "bucketBy" (writeAttrRef b ck)) = pure (s.1, optRefStr b ck) := by
  rw [objLoop_maybe, writeAttrRef_eq]
  unfold optRefStr
  cases b.isDefined with
  | false => obtain ⟨r, a⟩ := s; simp_all
  | true => rfl

theorem segRule_rck_chunk (s : SegmentRule × String) (ck : String) (h : s.1.rolloutContextKind = "") :
    objLoop segRuleH s (maybe (ck != "") "rolloutContextKind" (.str ck)) =
      pure ({ s.1 with rolloutContextKind := ck }, s.2) := by
  rw [objLoop_maybe]
  by_cases hck : ck = ""
  · subst hck; obtain ⟨r, a⟩ := s; cases r; simp_all
  · have : (ck != "") = true := by simpa using hck
    rw [this]; rfl

def encSegRule (r : SegmentRule) : J :=
  .obj ([("id", .str r.id), ("clauses", .arr (r.clauses.map encClause))] ++
        maybe r.weight.isSome "weight" (jInt (r.weight.getD 0)) ++
        maybe r.bucketBy.isDefined "bucketBy" (writeAttrRef r.bucketBy r.rolloutContextKind) ++
        maybe (r.rolloutContextKind != "") "rolloutContextKind" (.str r.rolloutContextKind))

theorem readSegRule_enc (r : SegmentRule) (hw : SegRuleWf r) : readSegRule (encSegRule r) = .ok r := by
  obtain ⟨hc, hwt, hb⟩ := hw
  unfold readSegRule encSegRule
  simp only [rObject, pure_bind, objLoop_append, objLoop_cons, objLoop_nil, segRuleH_id,
    segRuleH_clauses _ _ hc, segRule_weight_chunk _ _ hwt, segRule_bucketBy_chunk,
    segRule_rck_chunk, List.nil_append, optRef_roundtrip _ _ hb]
  cases r
  simp_all
  rfl

theorem readSegmentRules_enc (rs : List SegmentRule) (h : ∀ r ∈ rs, SegRuleWf r) (acc : List SegmentRule) :
    readSegmentRules acc (.arr (rs.map encSegRule)) = .ok (acc ++ rs) := by
  rw [readSegmentRules_eq]
  simp only [rArrayOrNull, pure_bind]
  rw [mapM_enc readSegRule _ rs (fun r hr => readSegRule_enc r (h r hr))]
  rfl

structure SegmentWf (s : Segment) : Prop where
  pre : s.pre = {}
  includedContexts : ∀ t ∈ s.includedContexts, t.pre = none
  excludedContexts : ∀ t ∈ s.excludedContexts, t.pre = none
  rules : ∀ r ∈ s.rules, SegRuleWf r
  version : IntOK s.version
  generation : OptIntOK s.generation

theorem segP_key (s : Segment) (x : String) : readSegmentProp s "key" (.str x) = pure { s with key := x } := rfl
theorem segP_salt (s : Segment) (x : String) : readSegmentProp s "salt" (.str x) = pure { s with salt := x } := rfl
theorem segP_deleted (s : Segment) (x : Bool) :
    readSegmentProp s "deleted" (.bool x) = pure { s with deleted := x } := rfl
theorem segP_included (s : Segment) (xs : List String) :
    readSegmentProp s "included" (jStrs xs) = pure { s with included := s.included ++ xs } := by
  show (do let x ← readStringList s.included (jStrs xs); pure { s with included := x }) = _
  rw [readStringList_jStrs]; rfl
theorem segP_excluded (s : Segment) (xs : List String) :
    readSegmentProp s "excluded" (jStrs xs) = pure { s with excluded := s.excluded ++ xs } := by
  show (do let x ← readStringList s.excluded (jStrs xs); pure { s with excluded := x }) = _
  rw [readStringList_jStrs]; rfl
theorem segP_includedContexts (s : Segment) (ts : List SegmentTarget) (h : ∀ t ∈ ts, t.pre = none) :
    readSegmentProp s "includedContexts" (encSegTargets ts) =
      pure { s with includedContexts := s.includedContexts ++ ts } := by
  show (do let x ← readSegmentTargets s.includedContexts (encSegTargets ts); pure { s with includedContexts := x }) = _
  rw [readSegmentTargets_enc ts h]; rfl
theorem segP_excludedContexts (s : Segment) (ts : List SegmentTarget) (h : ∀ t ∈ ts, t.pre = none) :
    readSegmentProp s "excludedContexts" (encSegTargets ts) =
      pure { s with excludedContexts := s.excludedContexts ++ ts } := by
  show (do let x ← readSegmentTargets s.excludedContexts (encSegTargets ts); pure { s with excludedContexts := x }) = _
  rw [readSegmentTargets_enc ts h]; rfl
theorem segP_rules (s : Segment) (rs : List SegmentRule) (h : ∀ r ∈ rs, SegRuleWf r) :
    readSegmentProp s "rules" (.arr (rs.map encSegRule)) = pure { s with rules := s.rules ++ rs } := by
  show (do let x ← readSegmentRules s.rules (.arr (rs.map encSegRule)); pure { s with rules := x }) = _
  rw [readSegmentRules_enc rs h]; rfl
theorem segP_version (s : Segment) (n : Int) (h : IntOK n) :
    readSegmentProp s "version" (jInt n) = pure { s with version := n } := by
  show (do let x ← rInt (jInt n); pure { s with version := x }) = _
  rw [rInt_jInt n h]; rfl
theorem segP_generation (s : Segment) (o : Option Int) (h : OptIntOK o) :
    readSegmentProp s "generation" (jOptInt o) = pure { s with generation := o } := by
  show (do let x ← rIntOrNull (jOptInt o); pure { s with generation := x }) = _
  rw [rIntOrNull_jOptInt o h]; rfl

theorem seg_unbounded_chunk (s : Segment) (b : Bool) (h : s.unbounded = false) :
    objLoop readSegmentProp s (maybe b "unbounded" (.bool true)) = pure { s with unbounded := b } := by
  rw [objLoop_maybe]
  cases b with
  | false => cases s; simp_all
  | true => rfl

theorem seg_uck_chunk (s : Segment) (ck : String) (h : s.unboundedContextKind = "") :
    objLoop readSegmentProp s (maybe (ck != "") "unboundedContextKind" (.str ck)) =
      pure { s with unboundedContextKind := ck } := by
  rw [objLoop_maybe]
  by_cases hck : ck = ""
  · subst hck; cases s; simp_all
  · have : (ck != "") = true := by simpa using hck
    rw [this]; rfl

theorem encodeSegment_eq (s : Segment) : encodeSegment s =
    .obj ([("key", .str s.key), ("included", jStrs s.included), ("excluded", jStrs s.excluded),
    ("includedContexts", encSegTargets s.includedContexts), ("excludedContexts", encSegTargets s.excludedContexts),
    ("salt", .str s.salt), ("rules", .arr (s.rules.map encSegRule))] ++
    maybe s.unbounded "unbounded" (.bool true) ++
    maybe (s.unboundedContextKind != "") "unboundedContextKind" (.str s.unboundedContextKind) ++
    [("version", jInt s.version), ("generation", jOptInt s.generation), ("deleted", .bool s.deleted)]) := rfl

/-- **Segments: decode(encode s) = s** for every well-formed segment (in particular: every segment
the decoder produces, see `readSegment_wf`). -/
theorem segment_roundtrip (s : Segment) (hw : SegmentWf s) :
    Codec.readSegment (Codec.encodeSegment s) = .ok s := by
  obtain ⟨hpre, hic, hec, hr, hv, hg⟩ := hw
  rw [encodeSegment_eq]
  unfold readSegment
  simp only [rObject, pure_bind, objLoop_append, objLoop_cons, objLoop_nil, segP_key, segP_salt, segP_deleted,
    segP_included, segP_excluded, segP_includedContexts _ _ hic, segP_excludedContexts _ _ hec,
    segP_rules _ _ hr, segP_version _ _ hv, segP_generation _ _ hg, seg_unbounded_chunk, seg_uck_chunk,
    List.nil_append]
  cases s
  simp_all
  rfl

/-! ### Flag components -/

def encPrereq (p : Prereq) : J := .obj [("key", .str p.key), ("variation", jInt p.variation)]

theorem readPrereq_enc (p : Prereq) (h : IntOK p.variation) : readPrereq (encPrereq p) = .ok p := by
  have e1 : ∀ (s : Prereq) x, prereqH s "key" (.str x) = pure { s with key := x } := fun _ _ => rfl
  have e2 : ∀ (s : Prereq), prereqH s "variation" (jInt p.variation) = pure { s with variation := p.variation } := by
    intro s
    show (do let x ← rInt (jInt p.variation); pure { s with variation := x }) = _
    rw [rInt_jInt _ h]; rfl
  unfold readPrereq encPrereq
  simp only [rObject, pure_bind, objLoop_cons, objLoop_nil, e1, e2]
  rfl

theorem readPrerequisites_enc (ps : List Prereq) (h : ∀ p ∈ ps, IntOK p.variation) (acc : List Prereq) :
    readPrerequisites acc (.arr (ps.map encPrereq)) = .ok (acc ++ ps) := by
  rw [readPrerequisites_eq]
  simp only [rArrayOrNull, pure_bind]
  rw [mapM_enc readPrereq _ ps (fun p hp => readPrereq_enc p (h p hp))]
  rfl

structure TargetWf (t : Target) : Prop where
  pre : t.pre = none
  variation : IntOK t.variation

def encTarget (t : Target) : J :=
  .obj (maybe (t.contextKind != "") "contextKind" (.str t.contextKind) ++
    [("variation", jInt t.variation), ("values", jStrs t.values)])

theorem targetH_values (t : Target) (xs : List String) :
    targetH t "values" (jStrs xs) = pure { t with values := t.values ++ xs } := by
  show (do let x ← readStringList t.values (jStrs xs); pure { t with values := x }) = _
  rw [readStringList_jStrs]; rfl

theorem targetH_variation (t : Target) (n : Int) (h : IntOK n) :
    targetH t "variation" (jInt n) = pure { t with variation := n } := by
  show (do let x ← rInt (jInt n); pure { t with variation := x }) = _
  rw [rInt_jInt n h]; rfl

theorem target_ck_chunk (t : Target) (ck : String) (h : t.contextKind = "") :
    objLoop targetH t (maybe (ck != "") "contextKind" (.str ck)) = pure { t with contextKind := ck } := by
  rw [objLoop_maybe]
  by_cases hck : ck = ""
  · subst hck; cases t; simp_all
  · have : (ck != "") = true := by simpa using hck
    rw [this]; rfl

theorem readTarget_enc (t : Target) (hw : TargetWf t) : readTarget (encTarget t) = .ok t := by
  obtain ⟨hpre, hv⟩ := hw
  unfold readTarget encTarget
  simp only [rObject, pure_bind, objLoop_append, target_ck_chunk, objLoop_cons, objLoop_nil,
    targetH_values, targetH_variation _ _ hv, List.nil_append]
  cases t
  simp_all
  rfl

theorem encTargets_eq (ts : List Target) : encTargets ts = .arr (ts.map encTarget) := rfl

theorem readTargets_enc (ts : List Target) (h : ∀ t ∈ ts, TargetWf t) (acc : List Target) :
    readTargets acc (encTargets ts) = .ok (acc ++ ts) := by
  rw [readTargets_eq, encTargets_eq]
  simp only [rArrayOrNull, pure_bind]
  rw [mapM_enc readTarget _ ts (fun t ht => readTarget_enc t (h t ht))]
  rfl

structure WVWf (wv : WeightedVariation) : Prop where
  variation : IntOK wv.variation
  weight : IntOK wv.weight

def encWV (wv : WeightedVariation) : J :=
  .obj ([("variation", jInt wv.variation), ("weight", jInt wv.weight)] ++ maybe wv.untracked "untracked" (.bool true))

theorem wvH_variation (w : WeightedVariation) (n : Int) (h : IntOK n) :
    wvH w "variation" (jInt n) = pure { w with variation := n } := by
  show (do let x ← rInt (jInt n); pure { w with variation := x }) = _
  rw [rInt_jInt n h]; rfl

theorem wvH_weight (w : WeightedVariation) (n : Int) (h : IntOK n) :
    wvH w "weight" (jInt n) = pure { w with weight := n } := by
  show (do let x ← rInt (jInt n); pure { w with weight := x }) = _
  rw [rInt_jInt n h]; rfl

theorem wv_untracked_chunk (w : WeightedVariation) (b : Bool) (h : w.untracked = false) :
    objLoop wvH w (maybe b "untracked" (.bool true)) = pure { w with untracked := b } := by
  rw [objLoop_maybe]
  cases b with
  | false => cases w; simp_all
  | true => rfl

theorem readWV_enc (wv : WeightedVariation) (hw : WVWf wv) : readWV (encWV wv) = .ok wv := by
  obtain ⟨h1, h2⟩ := hw
  unfold readWV encWV
  simp only [rObject, pure_bind, objLoop_append, objLoop_cons, objLoop_nil, wvH_variation _ _ h1,
    wvH_weight _ _ h2, wv_untracked_chunk]
  rfl

theorem readWeightedVariations_enc (ws : List WeightedVariation) (h : ∀ w ∈ ws, WVWf w)
    (acc : List WeightedVariation) :
    readWeightedVariations acc (.arr (ws.map encWV)) = .ok (acc ++ ws) := by
  rw [readWeightedVariations_eq]
  simp only [rArray, pure_bind]
  rw [mapM_enc readWV _ ws (fun w hw => readWV_enc w (h w hw))]
  rfl

structure RolloutWf (ro : Rollout) : Prop where
  variations : ∀ wv ∈ ro.variations, WVWf wv
  seed : OptIntOK ro.seed
  bucketBy : Decoded ro.bucketBy ro.contextKind

def encRollout (ro : Rollout) : J :=
  .obj (maybe (ro.kind != "") "kind" (.str ro.kind) ++
    maybe (ro.contextKind != "") "contextKind" (.str ro.contextKind) ++
    [("variations", .arr (ro.variations.map encWV))] ++
    maybe ro.seed.isSome "seed" (jInt (ro.seed.getD 0)) ++
    maybe ro.bucketBy.isDefined "bucketBy" (writeAttrRef ro.bucketBy ro.contextKind))

theorem rollout_kind_chunk (s : Rollout × String) (k : String) (h : s.1.kind = "") :
    objLoop rolloutH s (maybe (k != "") "kind" (.str k)) = pure ({ s.1 with kind := k }, s.2) := by
  rw [objLoop_maybe]
  by_cases hk : k = ""
  · subst hk; obtain ⟨r, a⟩ := s; cases r; simp_all
  · have : (k != "") = true := by simpa using hk
    rw [this]; rfl

theorem rollout_ck_chunk (s : Rollout × String) (k : String) (h : s.1.contextKind = "") :
    objLoop rolloutH s (maybe (k != "") "contextKind" (.str k)) = pure ({ s.1 with contextKind := k }, s.2) := by
  rw [objLoop_maybe]
  by_cases hk : k = ""
  · subst hk; obtain ⟨r, a⟩ := s; cases r; simp_all
  · have : (k != "") = true := by simpa using hk
    rw [this]; rfl

theorem rolloutH_variations (s : Rollout × String) (ws : List WeightedVariation) (h : ∀ w ∈ ws, WVWf w) :
    rolloutH s "variations" (.arr (ws.map encWV)) = pure ({ s.1 with variations := s.1.variations ++ ws }, s.2) := by
  show (do let x ← readWeightedVariations s.1.variations (.arr (ws.map encWV));
           pure ({ s.1 with variations := x }, s.2)) = _
  rw [readWeightedVariations_enc ws h]; rfl

theorem rollout_seed_chunk (s : Rollout × String) (w : Option Int) (hw : OptIntOK w) (h : s.1.seed = none) :
    objLoop rolloutH s (maybe w.isSome "seed" (jInt (w.getD 0))) = pure ({ s.1 with seed := w }, s.2) := by
  rw [objLoop_maybe]
  cases w with
  | none => obtain ⟨r, a⟩ := s; cases r; simp_all
  | some n =>
    show (do match ← rIntOrNull (jInt n) with
              | some n => pure ({ s.1 with seed := some n }, s.2)
              | none => pure s) = _
    rw [rIntOrNull_jInt n (hw n rfl)]; rfl

theorem rollout_bucketBy_chunk (s : Rollout × String) (b : Ref) (ck : String) (h : s.2 = "") :
    objLoop rolloutH s (maybe b.isDefined "bucketBy" (writeAttrRef b ck)) = pure (s.1, optRefStr b ck) := by
  rw [objLoop_maybe, writeAttrRef_eq]
  unfold optRefStr
  cases b.isDefined with
  | false => obtain ⟨r, a⟩ := s; simp_all
  | true => rfl

/-- Rollouts: kind, context kind, buckets with `untracked`, seed and bucket-by all survive. -/
theorem readRollout_enc (ro : Rollout) (hw : RolloutWf ro) : readRollout {} (encRollout ro) = .ok ro := by
  obtain ⟨hv, hs, hb⟩ := hw
  rw [readRollout_eq]
  unfold encRollout
  simp only [rObjectOrNull, pure_bind, objLoop_append, objLoop_cons, objLoop_nil, rollout_kind_chunk,
    rollout_ck_chunk, rolloutH_variations _ _ hv, rollout_seed_chunk _ _ hs, rollout_bucketBy_chunk,
    List.nil_append, optRef_roundtrip _ _ hb]
  rfl

structure VRWf (vr : VariationOrRollout) : Prop where
  variation : OptIntOK vr.variation
  rollout : RolloutWf vr.rollout

theorem encVR_eq (vr : VariationOrRollout) : encVR vr =
    maybe vr.variation.isSome "variation" (jInt (vr.variation.getD 0)) ++
    (if vr.rollout.variations.isEmpty then [] else [("rollout", encRollout vr.rollout)]) := rfl

theorem vr_variation_chunk (o : VariationOrRollout) (v : Option Int) (hv : OptIntOK v)
    (h : o.variation = none) :
    objLoop vrH o (maybe v.isSome "variation" (jInt (v.getD 0))) = pure { o with variation := v } := by
  rw [objLoop_maybe]
  cases v with
  | none => cases o; simp_all
  | some n =>
    show (do let x ← rIntOrNull (jInt n); pure { o with variation := x }) = _
    rw [rIntOrNull_jInt n (hv n rfl)]; rfl

theorem vr_rollout_chunk (o : VariationOrRollout) (ro : Rollout) (hw : RolloutWf ro) (h : o.rollout = {}) :
    objLoop vrH o (if ro.variations.isEmpty then [] else [("rollout", encRollout ro)]) =
      pure { o with rollout := if ro.variations.isEmpty then {} else ro } := by
  cases ro.variations.isEmpty with
  | true => cases o; simp_all [objLoop_nil]
  | false =>
    simp only [Bool.false_eq_true, if_false, objLoop_cons, objLoop_nil, bind_pure]
    show (do let x ← readRollout o.rollout (encRollout ro); pure { o with rollout := x }) = _
    rw [h, readRollout_enc ro hw]; rfl

theorem dropVR_eq (vr : VariationOrRollout) :
    dropVR vr = { variation := vr.variation,
                  rollout := if vr.rollout.variations.isEmpty then {} else vr.rollout } := by
  unfold dropVR
  cases vr.rollout.variations.isEmpty <;> rfl

/-- Fallthrough: decode(encode vr) drops exactly the bucket-less rollout. -/
theorem readVR_enc (vr : VariationOrRollout) (hw : VRWf vr) :
    readVariationOrRollout {} (.obj (encVR vr)) = .ok (dropVR vr) := by
  obtain ⟨hv, hr⟩ := hw
  rw [readVariationOrRollout_eq, encVR_eq, dropVR_eq]
  simp only [rObject, pure_bind, objLoop_append, vr_variation_chunk _ _ hv, vr_rollout_chunk _ _ hr]
  rfl

structure RuleWf (r : FlagRule) : Prop where
  vr : VRWf r.vr
  clauses : ∀ c ∈ r.clauses, ClauseWf c

def encRule (r : FlagRule) : J :=
  .obj (encVR r.vr ++ maybe (r.id != "") "id" (.str r.id) ++
    [("clauses", .arr (r.clauses.map encClause)), ("trackEvents", .bool r.trackEvents)])

theorem rule_variation_chunk (o : FlagRule) (v : Option Int) (hv : OptIntOK v) (h : o.vr.variation = none) :
    objLoop ruleH o (maybe v.isSome "variation" (jInt (v.getD 0))) =
      pure { o with vr := { o.vr with variation := v } } := by
  rw [objLoop_maybe]
  cases v with
  | none => obtain ⟨vr, _, _, _⟩ := o; cases vr; simp_all
  | some n =>
    show (do let x ← rIntOrNull (jInt n); pure { o with vr := { o.vr with variation := x } }) = _
    rw [rIntOrNull_jInt n (hv n rfl)]; rfl

theorem rule_rollout_chunk (o : FlagRule) (ro : Rollout) (hw : RolloutWf ro) (h : o.vr.rollout = {}) :
    objLoop ruleH o (if ro.variations.isEmpty then [] else [("rollout", encRollout ro)]) =
      pure { o with vr := { o.vr with rollout := if ro.variations.isEmpty then {} else ro } } := by
  cases ro.variations.isEmpty with
  | true => obtain ⟨vr, _, _, _⟩ := o; cases vr; simp_all [objLoop_nil]
  | false =>
    simp only [Bool.false_eq_true, if_false, objLoop_cons, objLoop_nil, bind_pure]
    show (do let x ← readRollout o.vr.rollout (encRollout ro); pure { o with vr := { o.vr with rollout := x } }) = _
    rw [h, readRollout_enc ro hw]; rfl

theorem rule_id_chunk (o : FlagRule) (k : String) (h : o.id = "") :
    objLoop ruleH o (maybe (k != "") "id" (.str k)) = pure { o with id := k } := by
  rw [objLoop_maybe]
  by_cases hk : k = ""
  · subst hk; cases o; simp_all
  · have : (k != "") = true := by simpa using hk
    rw [this]; rfl

theorem ruleH_clauses (o : FlagRule) (cs : List Clause) (h : ∀ c ∈ cs, ClauseWf c) :
    ruleH o "clauses" (.arr (cs.map encClause)) = pure { o with clauses := o.clauses ++ cs } := by
  show (do let x ← readClauses o.clauses (.arr (cs.map encClause)); pure { o with clauses := x }) = _
  rw [readClauses_enc cs h]; rfl

theorem ruleH_trackEvents (o : FlagRule) (b : Bool) :
    ruleH o "trackEvents" (.bool b) = pure { o with trackEvents := b } := rfl

theorem readFlagRule_enc (r : FlagRule) (hw : RuleWf r) :
    readFlagRule (encRule r) = .ok { r with vr := dropVR r.vr } := by
  obtain ⟨⟨hv, hr⟩, hc⟩ := hw
  unfold readFlagRule encRule
  rw [encVR_eq, dropVR_eq]
  simp only [rObject, pure_bind, objLoop_append, objLoop_cons, objLoop_nil, rule_variation_chunk _ _ hv,
    rule_rollout_chunk _ _ hr, rule_id_chunk, ruleH_clauses _ _ hc, ruleH_trackEvents, List.nil_append]
  rfl

theorem mapM_enc' {α β γ} (f : β → D γ) (g : α → β) (k : α → γ) (l : List α)
    (h : ∀ x ∈ l, f (g x) = .ok (k x)) : List.mapM f (l.map g) = .ok (l.map k) := by
  induction l with
  | nil => rfl
  | cons x l ih =>
    rw [List.map_cons, mapM_cons', h x (by simp), ih (fun y hy => h y (by simp [hy]))]
    rfl

theorem readFlagRules_enc (rs : List FlagRule) (h : ∀ r ∈ rs, RuleWf r) (acc : List FlagRule) :
    readFlagRules acc (.arr (rs.map encRule)) = .ok (acc ++ rs.map fun r => { r with vr := dropVR r.vr }) := by
  rw [readFlagRules_eq]
  simp only [rArrayOrNull, pure_bind]
  rw [mapM_enc' readFlagRule encRule _ rs (fun r hr => readFlagRule_enc r (h r hr))]
  rfl

/-! ### Whole flags -/

/-- Well-formedness of a flag for the codec: every clause of `readFlag`'s range (`readFlag_wf`),
plus `debug`: the debug date survives `float64` (open finding: the decoder wraps negative and
huge inputs, so this one is an explicit hypothesis). -/
structure FlagWf (f : Flag) : Prop where
  prerequisites : ∀ p ∈ f.prerequisites, IntOK p.variation
  targets : ∀ t ∈ f.targets, TargetWf t
  contextTargets : ∀ t ∈ f.contextTargets, TargetWf t
  rules : ∀ r ∈ f.rules, RuleWf r
  fallthrough : VRWf f.fallthrough
  offVariation : OptIntOK f.offVariation
  variations : f.variations.map normValue = f.variations
  clientSide : f.fmeta.clientSide.explicit = false → f.fmeta.clientSide.usingMobileKey = true
  debug : goUint64 (natToF64 f.fmeta.debugEventsUntilDate) = f.fmeta.debugEventsUntilDate
  version : IntOK f.fmeta.version
  migration : ∀ cr, f.fmeta.migration = some cr → OptIntOK cr
  samplingRatio : OptIntOK f.fmeta.samplingRatio

def encCSA (cs : ClientSideAvailability) : J :=
  .obj [("usingMobileKey", .bool cs.usingMobileKey), ("usingEnvironmentId", .bool cs.usingEnvironmentID)]
def encDebug (d : Nat) : J := if d != 0 then .num (natToF64 d) else .null
def encMigration (m : Option (Option Int)) : List (String × J) :=
  match m with
  | none => []
  | some cr => [("migration", .obj (maybe cr.isSome "checkRatio" (jInt (cr.getD 0))))]

theorem encodeFlag_eq (f : Flag) : encodeFlag f =
    .obj ([("key", .str f.key), ("on", .bool f.on),
    ("prerequisites", .arr (f.prerequisites.map encPrereq)),
    ("targets", encTargets f.targets), ("contextTargets", encTargets f.contextTargets),
    ("rules", .arr (f.rules.map encRule)),
    ("fallthrough", .obj (encVR f.fallthrough)),
    ("offVariation", jOptInt f.offVariation),
    ("variations", .arr f.variations)] ++
    maybe f.fmeta.clientSide.explicit "clientSideAvailability" (encCSA f.fmeta.clientSide) ++
    [("clientSide", .bool f.fmeta.clientSide.usingEnvironmentID), ("salt", .str f.salt),
     ("trackEvents", .bool f.fmeta.trackEvents), ("trackEventsFallthrough", .bool f.trackEventsFallthrough),
     ("debugEventsUntilDate", encDebug f.fmeta.debugEventsUntilDate),
     ("version", jInt f.fmeta.version), ("deleted", .bool f.fmeta.deleted)] ++
    encMigration f.fmeta.migration ++
    maybe f.fmeta.samplingRatio.isSome "samplingRatio" (jInt (f.fmeta.samplingRatio.getD 0)) ++
    maybe f.excludeFromSummaries "excludeFromSummaries" (.bool true)) := rfl

theorem flagP_key (a : FlagAcc) (x : String) :
    readFlagProp a "key" (.str x) = pure { a with flag := { a.flag with key := x } } := rfl
theorem flagP_on (a : FlagAcc) (x : Bool) :
    readFlagProp a "on" (.bool x) = pure { a with flag := { a.flag with on := x } } := rfl
theorem flagP_salt (a : FlagAcc) (x : String) :
    readFlagProp a "salt" (.str x) = pure { a with flag := { a.flag with salt := x } } := rfl
theorem flagP_clientSide (a : FlagAcc) (x : Bool) :
    readFlagProp a "clientSide" (.bool x) = pure { a with deprecatedClientSide := x } := rfl
theorem flagP_trackEvents (a : FlagAcc) (x : Bool) :
    readFlagProp a "trackEvents" (.bool x) =
      pure { a with flag := { a.flag with fmeta := { a.flag.fmeta with trackEvents := x } } } := rfl
theorem flagP_trackEventsFallthrough (a : FlagAcc) (x : Bool) :
    readFlagProp a "trackEventsFallthrough" (.bool x) =
      pure { a with flag := { a.flag with trackEventsFallthrough := x } } := rfl
theorem flagP_deleted (a : FlagAcc) (x : Bool) :
    readFlagProp a "deleted" (.bool x) =
      pure { a with flag := { a.flag with fmeta := { a.flag.fmeta with deleted := x } } } := rfl
theorem flagP_prerequisites (a : FlagAcc) (ps : List Prereq) (h : ∀ p ∈ ps, IntOK p.variation) :
    readFlagProp a "prerequisites" (.arr (ps.map encPrereq)) =
      pure { a with flag := { a.flag with prerequisites := a.flag.prerequisites ++ ps } } := by
  show (do let x ← readPrerequisites a.flag.prerequisites (.arr (ps.map encPrereq));
           pure { a with flag := { a.flag with prerequisites := x } }) = _
  rw [readPrerequisites_enc ps h]; rfl
theorem flagP_targets (a : FlagAcc) (ts : List Target) (h : ∀ t ∈ ts, TargetWf t) :
    readFlagProp a "targets" (encTargets ts) =
      pure { a with flag := { a.flag with targets := a.flag.targets ++ ts } } := by
  show (do let x ← readTargets a.flag.targets (encTargets ts);
           pure { a with flag := { a.flag with targets := x } }) = _
  rw [readTargets_enc ts h]; rfl
theorem flagP_contextTargets (a : FlagAcc) (ts : List Target) (h : ∀ t ∈ ts, TargetWf t) :
    readFlagProp a "contextTargets" (encTargets ts) =
      pure { a with flag := { a.flag with contextTargets := a.flag.contextTargets ++ ts } } := by
  show (do let x ← readTargets a.flag.contextTargets (encTargets ts);
           pure { a with flag := { a.flag with contextTargets := x } }) = _
  rw [readTargets_enc ts h]; rfl
theorem flagP_rules (a : FlagAcc) (rs : List FlagRule) (h : ∀ r ∈ rs, RuleWf r) :
    readFlagProp a "rules" (.arr (rs.map encRule)) =
      pure { a with flag := { a.flag with rules :=
        a.flag.rules ++ (rs.map fun r => { r with vr := dropVR r.vr }) } } := by
  show (do let x ← readFlagRules a.flag.rules (.arr (rs.map encRule));
           pure { a with flag := { a.flag with rules := x } }) = _
  rw [readFlagRules_enc rs h]; rfl
theorem flagP_fallthrough (a : FlagAcc) (vr : VariationOrRollout) (hw : VRWf vr)
    (h : a.flag.fallthrough = {}) :
    readFlagProp a "fallthrough" (.obj (encVR vr)) =
      pure { a with flag := { a.flag with fallthrough := dropVR vr } } := by
  show (do let x ← readVariationOrRollout a.flag.fallthrough (.obj (encVR vr));
           pure { a with flag := { a.flag with fallthrough := x } }) = _
  rw [h, readVR_enc vr hw]; rfl
theorem flagP_offVariation (a : FlagAcc) (o : Option Int) (h : OptIntOK o) :
    readFlagProp a "offVariation" (jOptInt o) = pure { a with flag := { a.flag with offVariation := o } } := by
  show (do let x ← rIntOrNull (jOptInt o); pure { a with flag := { a.flag with offVariation := x } }) = _
  rw [rIntOrNull_jOptInt o h]; rfl
theorem flagP_variations (a : FlagAcc) (vs : List J) :
    readFlagProp a "variations" (.arr vs) =
      pure { a with flag := { a.flag with variations := a.flag.variations ++ vs.map normValue } } := rfl
theorem flagP_version (a : FlagAcc) (n : Int) (h : IntOK n) :
    readFlagProp a "version" (jInt n) =
      pure { a with flag := { a.flag with fmeta := { a.flag.fmeta with version := n } } } := by
  show (do let x ← rInt (jInt n);
           pure { a with flag := { a.flag with fmeta := { a.flag.fmeta with version := x } } }) = _
  rw [rInt_jInt n h]; rfl

theorem natToF64_zero : natToF64 0 = 0 := by decide
theorem goUint64_zero : goUint64 0 = 0 := by decide

theorem flagP_debug (a : FlagAcc) (d : Nat) (h : goUint64 (natToF64 d) = d) :
    readFlagProp a "debugEventsUntilDate" (encDebug d) =
      pure { a with flag := { a.flag with fmeta := { a.flag.fmeta with debugEventsUntilDate := d } } } := by
  unfold encDebug
  by_cases hd : d = 0
  · subst hd
    show (pure { a with flag := { a.flag with fmeta :=
      { a.flag.fmeta with debugEventsUntilDate := goUint64 0 } } } : D FlagAcc) = _
    rw [goUint64_zero]
  · have : (d != 0) = true := by simpa using hd
    rw [this, if_pos rfl]
    show (pure { a with flag := { a.flag with fmeta :=
      { a.flag.fmeta with debugEventsUntilDate := goUint64 (natToF64 d) } } } : D FlagAcc) = _
    rw [h]

theorem flag_csa_chunk (a : FlagAcc) (cs : ClientSideAvailability) (h : a.flag.fmeta.clientSide = {}) :
    objLoop readFlagProp a (maybe cs.explicit "clientSideAvailability" (encCSA cs)) =
      pure { a with flag := { a.flag with fmeta := { a.flag.fmeta with
        clientSide := if cs.explicit then cs else {} } } } := by
  rw [objLoop_maybe]
  cases he : cs.explicit with
  | false =>
    obtain ⟨f, d⟩ := a
    cases f; rename_i fm; cases fm
    simp_all
  | true =>
    show (do let x ← readClientSideAvailability a.flag.fmeta.clientSide (encCSA cs);
             pure { a with flag := { a.flag with fmeta := { a.flag.fmeta with clientSide := x } } }) = _
    rw [h]
    have : readClientSideAvailability {} (encCSA cs) = .ok cs := by
      cases cs; simp_all; rfl
    rw [this]; rfl

theorem flag_migration_chunk (a : FlagAcc) (m : Option (Option Int)) (hm : ∀ cr, m = some cr → OptIntOK cr)
    (h : a.flag.fmeta.migration = none) :
    objLoop readFlagProp a (encMigration m) =
      pure { a with flag := { a.flag with fmeta := { a.flag.fmeta with migration := m } } } := by
  cases m with
  | none =>
    obtain ⟨f, d⟩ := a
    cases f; rename_i fm; cases fm
    simp_all [encMigration, objLoop_nil]
  | some cr =>
    have hr : readMigration (.obj (maybe cr.isSome "checkRatio" (jInt (cr.getD 0)))) = .ok (some cr) := by
      rw [readMigration_eq]
      simp only [rObjectOrNull, pure_bind, objLoop_maybe]
      cases cr with
      | none => rfl
      | some n =>
        show (do let cr ← (do let x ← rInt (jInt n); pure (some x)); pure (some cr)) = _
        rw [rInt_jInt n (hm _ rfl n rfl)]; rfl
    show objLoop readFlagProp a [("migration", _)] = _
    simp only [objLoop_cons, objLoop_nil, bind_pure]
    show (do let x ← readMigration (.obj (maybe cr.isSome "checkRatio" (jInt (cr.getD 0))));
             pure { a with flag := { a.flag with fmeta := { a.flag.fmeta with migration := x } } }) = _
    rw [hr]; rfl

theorem flag_sampling_chunk (a : FlagAcc) (o : Option Int) (ho : OptIntOK o)
    (h : a.flag.fmeta.samplingRatio = none) :
    objLoop readFlagProp a (maybe o.isSome "samplingRatio" (jInt (o.getD 0))) =
      pure { a with flag := { a.flag with fmeta := { a.flag.fmeta with samplingRatio := o } } } := by
  rw [objLoop_maybe]
  cases o with
  | none =>
    obtain ⟨f, d⟩ := a
    cases f; rename_i fm; cases fm
    simp_all
  | some n =>
    show (do let x ← rInt (jInt n);
             pure { a with flag := { a.flag with fmeta := { a.flag.fmeta with samplingRatio := some x } } }) = _
    rw [rInt_jInt n (ho n rfl)]; rfl

theorem flag_efs_chunk (a : FlagAcc) (b : Bool) (h : a.flag.excludeFromSummaries = false) :
    objLoop readFlagProp a (maybe b "excludeFromSummaries" (.bool true)) =
      pure { a with flag := { a.flag with excludeFromSummaries := b } } := by
  rw [objLoop_maybe]
  cases b with
  | false => obtain ⟨f, d⟩ := a; cases f; simp_all
  | true => rfl

theorem csa_eta (cs : ClientSideAvailability) (h1 : cs.explicit = false) (h2 : cs.usingMobileKey = true) :
    cs = { usingMobileKey := true, usingEnvironmentID := cs.usingEnvironmentID, explicit := false } := by
  cases cs; simp_all

/-- **Flags: decode(encode f) = f up to bucket-less rollouts**, for every well-formed flag. -/
theorem flag_roundtrip (f : Flag) (hw : FlagWf f) :
    Codec.readFlag (Codec.encodeFlag f) = .ok (dropEmptyRollouts f) := by
  obtain ⟨hp, ht, hct, hr, hf, ho, hv, hcs, hd, hver, hm, hsr⟩ := hw
  rw [encodeFlag_eq]
  unfold readFlag
  simp only [rObject, pure_bind, objLoop_append, objLoop_cons, objLoop_nil, flagP_key, flagP_on, flagP_salt,
    flagP_clientSide, flagP_trackEvents, flagP_trackEventsFallthrough, flagP_deleted,
    flagP_prerequisites _ _ hp, flagP_targets _ _ ht, flagP_contextTargets _ _ hct, flagP_rules _ _ hr,
    flagP_fallthrough _ _ hf, flagP_offVariation _ _ ho, flagP_variations, flagP_version _ _ hver,
    flagP_debug _ _ hd, flag_csa_chunk, flag_migration_chunk _ _ hm, flag_sampling_chunk _ _ hsr,
    flag_efs_chunk, List.nil_append, hv]
  unfold dropEmptyRollouts
  cases he : f.fmeta.clientSide.explicit with
  | true =>
    simp only [↓reduceIte, he]
    rfl
  | false =>
    have ecs := csa_eta f.fmeta.clientSide he (hcs he)
    simp only [Bool.false_eq_true, ↓reduceIte]
    rw [← ecs]
    rfl



/-! ### One step reaches the fixed point -/

theorem encVR_drop (vr : VariationOrRollout) : encVR (dropVR vr) = encVR vr := by
  unfold dropVR
  split
  · rename_i h
    rw [encVR_eq, encVR_eq, if_pos h]
    rfl
  · rfl

theorem encRule_drop (r : FlagRule) : encRule { r with vr := dropVR r.vr } = encRule r := by
  unfold encRule
  simp only [encVR_drop]

/-- Same canonical JSON. -/
theorem encodeFlag_drop (f : Flag) : Codec.encodeFlag (dropEmptyRollouts f) = Codec.encodeFlag f := by
  rw [encodeFlag_eq, encodeFlag_eq]
  unfold dropEmptyRollouts
  simp only [encVR_drop, List.map_map, Function.comp_def, encRule_drop]

theorem rolloutWf_empty : RolloutWf {} :=
  ⟨fun _ h => (by cases h), fun _ h => (by cases h), decoded_empty _⟩

theorem vrWf_drop (vr : VariationOrRollout) (h : VRWf vr) : VRWf (dropVR vr) := by
  unfold dropVR
  split
  · exact ⟨h.1, rolloutWf_empty⟩
  · exact h

theorem flagWf_drop (f : Flag) (h : FlagWf f) : FlagWf (dropEmptyRollouts f) := by
  refine { h with rules := ?_, fallthrough := vrWf_drop _ h.fallthrough }
  intro r hr
  obtain ⟨r0, hr0, rfl⟩ := List.mem_map.mp hr
  exact ⟨vrWf_drop _ (h.rules r0 hr0).1, (h.rules r0 hr0).2⟩

/-- Deeply equal value from the second step on. -/
theorem flag_fixed_point (f : Flag) (hw : FlagWf f) :
    Codec.readFlag (Codec.encodeFlag (dropEmptyRollouts f)) = .ok (dropEmptyRollouts f) := by
  rw [flag_roundtrip _ (flagWf_drop f hw), dropEmptyRollouts_idem]

/-! ### Preprocessing does not show in the encoding -/

theorem encTarget_pre (t : Target) (x : Option (List String)) : encTarget { t with pre := x } = encTarget t := rfl
theorem encClause_pre (c : Clause) (x : ClausePre) : encClause { c with pre := x } = encClause c := rfl
theorem encClauses_preprocess (rx : RegexOracle) (cs : List Clause) :
    (preprocessClauses rx cs).map encClause = cs.map encClause := by
  unfold preprocessClauses
  simp only [List.map_map, Function.comp_def, encClause_pre]
theorem encRule_preprocess (rx : RegexOracle) (r : FlagRule) :
    encRule { r with clauses := preprocessClauses rx r.clauses } = encRule r := by
  unfold encRule
  simp only [encClauses_preprocess]
theorem encSegRule_preprocess (rx : RegexOracle) (r : SegmentRule) :
    encSegRule { r with clauses := preprocessClauses rx r.clauses } = encSegRule r := by
  unfold encSegRule
  simp only [encClauses_preprocess]

theorem encodeFlag_preprocess (rx : RegexOracle) (f : Flag) :
    Codec.encodeFlag (preprocessFlag rx f) = Codec.encodeFlag f := by
  rw [encodeFlag_eq, encodeFlag_eq]
  unfold preprocessFlag
  simp only [encTargets_eq, List.map_map, Function.comp_def, encTarget_pre, encRule_preprocess]

theorem encodeSegment_preprocess (rx : RegexOracle) (s : Segment) :
    Codec.encodeSegment (preprocessSegment rx s) = Codec.encodeSegment s := by
  rw [encodeSegment_eq, encodeSegment_eq]
  unfold preprocessSegment encSegTargets
  simp only [List.map_map, Function.comp_def, encSegRule_preprocess]

theorem preprocess_drop_comm (rx : RegexOracle) (f : Flag) :
    preprocessFlag rx (dropEmptyRollouts f) = dropEmptyRollouts (preprocessFlag rx f) := by
  unfold preprocessFlag dropEmptyRollouts
  simp only [List.map_map, Function.comp_def]



/-! ## 4b. Everything the decoder produces is well-formed -/

theorem bind_ok_iff {α β} (m : D α) (f : α → D β) (b : β) :
    (m >>= f) = .ok b ↔ ∃ a, m = .ok a ∧ f a = .ok b := by
  cases m with
  | error e => simp [bind, Except.bind]
  | ok a => simp [bind, Except.bind]

theorem pure_ok_iff {α} (a b : α) : (pure a : D α) = .ok b ↔ a = b := by
  simp [pure, Except.pure]

theorem rInt_ok (v : J) (x : Int) (h : rInt v = .ok x) : IntOK x := by
  cases v <;> cases h
  exact intOK_goInt _

theorem rIntOrNull_ok (v : J) (o : Option Int) (h : rIntOrNull v = .ok o) : OptIntOK o := by
  cases v <;> cases h
  · intro n hn; cases hn
  · intro n hn; cases hn; exact intOK_goInt _

theorem intOK_zero : IntOK 0 := by unfold IntOK; decide

/-- The shape shared by all array readers. -/
theorem listReader_ok {α} (R : J → D (List J)) (f : J → D α) (acc out : List α) (v : J)
    (h : (do let xs ← R v; let ys ← xs.mapM f; pure (acc ++ ys)) = .ok out) :
    ∀ y ∈ out, y ∈ acc ∨ ∃ x, f x = .ok y := by
  simp only [bind_ok_iff, pure_ok_iff] at h
  obtain ⟨xs, _, ys, hys, rfl⟩ := h
  intro y hy
  rcases List.mem_append.mp hy with hy | hy
  · exact .inl hy
  · obtain ⟨x, _, hx⟩ := mapM_ok_mem f xs ys hys y hy
    exact .inr ⟨x, hx⟩

theorem readValueList_ok (acc out : List J) (v : J) (hacc : acc.map normValue = acc)
    (h : readValueList acc v = .ok out) : out.map normValue = out := by
  unfold readValueList at h
  simp only [bind_ok_iff, pure_ok_iff] at h
  obtain ⟨xs, _, rfl⟩ := h
  rw [List.map_append, hacc, map_normValue_idem]

/-! ### Clauses -/

theorem clauseH_inv (s s' : Clause × String) (n : String) (v : J)
    (hs : s.1.pre = {} ∧ s.1.values.map normValue = s.1.values) (h : clauseH s n v = .ok s') :
    s'.1.pre = {} ∧ s'.1.values.map normValue = s'.1.values := by
  unfold clauseH at h
  split at h
  · simp only [bind_ok_iff, pure_ok_iff] at h; obtain ⟨x, _, rfl⟩ := h; exact hs
  split at h
  · simp only [bind_ok_iff, pure_ok_iff] at h; obtain ⟨x, _, rfl⟩ := h; exact hs
  split at h
  · simp only [bind_ok_iff, pure_ok_iff] at h; obtain ⟨x, _, rfl⟩ := h; exact hs
  split at h
  · simp only [bind_ok_iff, pure_ok_iff] at h; obtain ⟨x, hx, rfl⟩ := h
    exact ⟨hs.1, readValueList_ok _ _ _ hs.2 hx⟩
  split at h
  · simp only [bind_ok_iff, pure_ok_iff] at h; obtain ⟨x, _, rfl⟩ := h; exact hs
  · cases h; exact hs

theorem readClause_wf (x : J) (c : Clause) (h : readClause x = .ok c) : ClauseWf c := by
  unfold readClause at h
  simp only [bind_ok_iff, pure_ok_iff] at h
  obtain ⟨kvs, _, r, hr, rfl⟩ := h
  have := objLoop_inv clauseH _ (fun s n v s' => clauseH_inv s s' n v) kvs _ r ⟨rfl, rfl⟩ hr
  exact ⟨this.1, ⟨r.2, rfl⟩, this.2⟩

theorem readClauses_wf (acc out : List Clause) (v : J) (hacc : ∀ c ∈ acc, ClauseWf c)
    (h : readClauses acc v = .ok out) : ∀ c ∈ out, ClauseWf c := by
  rw [readClauses_eq] at h
  intro c hc
  rcases listReader_ok _ _ _ _ _ h c hc with h | ⟨x, hx⟩
  · exact hacc c h
  · exact readClause_wf x c hx

local macro "hb" h:ident : tactic => `(tactic| simp only [bind_ok_iff, pure_ok_iff] at $h:ident)

theorem runTable_inv {σ} (tbl : List (String × Handler σ)) (P : σ → Prop)
    (hP : ∀ p ∈ tbl, ∀ s v x, P s → p.2.get s v = .ok x → P (p.2.set s x))
    (s : σ) (n : String) (v : J) (s' : σ) (hs : P s) (h : runTable tbl s n v = .ok s') : P s' := by
  unfold runTable at h
  cases hl : tbl.lookup n with
  | none => rw [hl] at h; cases h; exact hs
  | some H =>
    rw [hl] at h
    unfold Handler.run at h
    hb h
    obtain ⟨x, hx, rfl⟩ := h
    exact hP (n, H) (lookup_mem _ _ _ hl) s v x hs hx

/-! ### Segments -/

theorem segTargetH_inv (t t' : SegmentTarget) (n : String) (v : J) (ht : t.pre = none)
    (h : segTargetH t n v = .ok t') : t'.pre = none := by
  unfold segTargetH at h
  split at h
  · hb h; obtain ⟨x, _, rfl⟩ := h; exact ht
  split at h
  · hb h; obtain ⟨x, _, rfl⟩ := h; exact ht
  · cases h; exact ht

theorem readSegmentTargets_wf (acc out : List SegmentTarget) (v : J) (hacc : ∀ t ∈ acc, t.pre = none)
    (h : readSegmentTargets acc v = .ok out) : ∀ t ∈ out, t.pre = none := by
  rw [readSegmentTargets_eq] at h
  intro t ht
  rcases listReader_ok _ _ _ _ _ h t ht with h | ⟨x, hx⟩
  · exact hacc t h
  · unfold readSegTarget at hx
    hb hx
    obtain ⟨kvs, _, hr⟩ := hx
    exact objLoop_inv segTargetH _ (fun s n v s' => segTargetH_inv s s' n v) kvs _ t rfl hr

theorem segRuleH_inv (s s' : SegmentRule × String) (n : String) (v : J)
    (hs : (∀ c ∈ s.1.clauses, ClauseWf c) ∧ OptIntOK s.1.weight) (h : segRuleH s n v = .ok s') :
    (∀ c ∈ s'.1.clauses, ClauseWf c) ∧ OptIntOK s'.1.weight := by
  unfold segRuleH at h
  split at h
  · hb h; obtain ⟨x, _, rfl⟩ := h; exact hs
  split at h
  · hb h; obtain ⟨x, hx, rfl⟩ := h; exact ⟨readClauses_wf _ _ _ hs.1 hx, hs.2⟩
  split at h
  · hb h
    obtain ⟨o, ho, h⟩ := h
    cases o with
    | none => cases h; exact hs
    | some k =>
      cases h
      exact ⟨hs.1, fun m hm => by cases hm; exact rIntOrNull_ok _ _ ho _ rfl⟩
  split at h
  · hb h; obtain ⟨x, _, rfl⟩ := h; exact hs
  split at h
  · hb h; obtain ⟨x, _, rfl⟩ := h; exact hs
  · cases h; exact hs

theorem readSegRule_wf (x : J) (r : SegmentRule) (h : readSegRule x = .ok r) : SegRuleWf r := by
  unfold readSegRule at h
  hb h
  obtain ⟨kvs, _, s, hs, rfl⟩ := h
  have := objLoop_inv segRuleH _ (fun s n v s' => segRuleH_inv s s' n v) kvs _ s
    ⟨fun _ hc => (by cases hc), fun _ hn => (by cases hn)⟩ hs
  exact ⟨this.1, this.2, ⟨s.2, rfl⟩⟩

theorem readSegmentRules_wf (acc out : List SegmentRule) (v : J) (hacc : ∀ r ∈ acc, SegRuleWf r)
    (h : readSegmentRules acc v = .ok out) : ∀ r ∈ out, SegRuleWf r := by
  rw [readSegmentRules_eq] at h
  intro r hr
  rcases listReader_ok _ _ _ _ _ h r hr with h | ⟨x, hx⟩
  · exact hacc r h
  · exact readSegRule_wf x r hx

theorem segmentWf_empty : SegmentWf {} :=
  ⟨rfl, fun _ h => (by cases h), fun _ h => (by cases h), fun _ h => (by cases h), intOK_zero,
    fun _ h => (by cases h)⟩

theorem readSegmentProp_inv (s s' : Segment) (n : String) (v : J) (hs : SegmentWf s)
    (h : readSegmentProp s n v = .ok s') : SegmentWf s' := by
  rw [readSegmentProp_eq_table] at h
  refine runTable_inv segmentTable SegmentWf ?_ s n v s' hs h
  simp only [segmentTable, List.forall_mem_cons, List.not_mem_nil, false_imp_iff, implies_true, and_true]
  refine ⟨?_, ?_, ?_, ?_, ?_, ?_, ?_, ?_, ?_, ?_, ?_, ?_⟩
  · intro s v x hs _; exact { hs with }
  · intro s v x hs hx; exact { hs with version := rInt_ok _ _ hx }
  · intro s v x hs hx; exact { hs with generation := rIntOrNull_ok _ _ hx }
  · intro s v x hs _; exact { hs with }
  · intro s v x hs _; exact { hs with }
  · intro s v x hs _; exact { hs with }
  · intro s v x hs hx
    exact { hs with includedContexts := readSegmentTargets_wf _ _ _ hs.includedContexts hx }
  · intro s v x hs hx
    exact { hs with excludedContexts := readSegmentTargets_wf _ _ _ hs.excludedContexts hx }
  · intro s v x hs hx; exact { hs with rules := readSegmentRules_wf _ _ _ hs.rules hx }
  · intro s v x hs _; exact { hs with }
  · intro s v x hs _; exact { hs with }
  · intro s v x hs _; exact { hs with }

/-- Every segment the decoder accepts is well-formed. -/
theorem readSegment_wf (doc : J) (s : Segment) (h : Codec.readSegment doc = .ok s) : SegmentWf s := by
  unfold readSegment at h
  hb h
  obtain ⟨kvs, _, hr⟩ := h
  exact objLoop_inv readSegmentProp SegmentWf (fun s n v s' => readSegmentProp_inv s s' n v) kvs _ s
    segmentWf_empty hr

/-- **Segments: for every accepted document, decode ∘ encode is the identity on the decoded
value** — the fixed point is reached at once. -/
theorem segment_doc_roundtrip (doc : J) (s : Segment) (h : Codec.readSegment doc = .ok s) :
    Codec.readSegment (Codec.encodeSegment s) = .ok s :=
  segment_roundtrip s (readSegment_wf doc s h)

/-! ### Flags -/

theorem readPrerequisites_wf (acc out : List Prereq) (v : J) (hacc : ∀ p ∈ acc, IntOK p.variation)
    (h : readPrerequisites acc v = .ok out) : ∀ p ∈ out, IntOK p.variation := by
  rw [readPrerequisites_eq] at h
  intro p hp
  rcases listReader_ok _ _ _ _ _ h p hp with h | ⟨x, hx⟩
  · exact hacc p h
  · unfold readPrereq at hx
    hb hx
    obtain ⟨kvs, _, hr⟩ := hx
    refine objLoop_inv prereqH (fun p => IntOK p.variation) ?_ kvs _ p intOK_zero hr
    intro s n v s' hs h
    unfold prereqH at h
    split at h
    · hb h; obtain ⟨x, _, rfl⟩ := h; exact hs
    split at h
    · hb h; obtain ⟨x, hx, rfl⟩ := h; exact rInt_ok _ _ hx
    · cases h; exact hs

theorem readTargets_wf (acc out : List Target) (v : J) (hacc : ∀ t ∈ acc, TargetWf t)
    (h : readTargets acc v = .ok out) : ∀ t ∈ out, TargetWf t := by
  rw [readTargets_eq] at h
  intro t ht
  rcases listReader_ok _ _ _ _ _ h t ht with h | ⟨x, hx⟩
  · exact hacc t h
  · unfold readTarget at hx
    hb hx
    obtain ⟨kvs, _, hr⟩ := hx
    refine objLoop_inv targetH TargetWf ?_ kvs _ t ⟨rfl, intOK_zero⟩ hr
    intro s n v s' hs h
    unfold targetH at h
    split at h
    · hb h; obtain ⟨x, _, rfl⟩ := h; exact ⟨hs.1, hs.2⟩
    split at h
    · hb h; obtain ⟨x, _, rfl⟩ := h; exact ⟨hs.1, hs.2⟩
    split at h
    · hb h; obtain ⟨x, hx, rfl⟩ := h; exact ⟨hs.1, rInt_ok _ _ hx⟩
    · cases h; exact hs

theorem readWeightedVariations_wf (acc out : List WeightedVariation) (v : J) (hacc : ∀ w ∈ acc, WVWf w)
    (h : readWeightedVariations acc v = .ok out) : ∀ w ∈ out, WVWf w := by
  rw [readWeightedVariations_eq] at h
  intro w hw
  rcases listReader_ok _ _ _ _ _ h w hw with h | ⟨x, hx⟩
  · exact hacc w h
  · unfold readWV at hx
    hb hx
    obtain ⟨kvs, _, hr⟩ := hx
    refine objLoop_inv wvH WVWf ?_ kvs _ w ⟨intOK_zero, intOK_zero⟩ hr
    intro s n v s' hs h
    unfold wvH at h
    split at h
    · hb h; obtain ⟨x, hx, rfl⟩ := h; exact ⟨rInt_ok _ _ hx, hs.2⟩
    split at h
    · hb h; obtain ⟨x, hx, rfl⟩ := h; exact ⟨hs.1, rInt_ok _ _ hx⟩
    split at h
    · hb h; obtain ⟨x, _, rfl⟩ := h; exact ⟨hs.1, hs.2⟩
    · cases h; exact hs

theorem rolloutH_inv (s s' : Rollout × String) (n : String) (v : J)
    (hs : (∀ w ∈ s.1.variations, WVWf w) ∧ OptIntOK s.1.seed) (h : rolloutH s n v = .ok s') :
    (∀ w ∈ s'.1.variations, WVWf w) ∧ OptIntOK s'.1.seed := by
  unfold rolloutH at h
  split at h
  · hb h; obtain ⟨x, _, rfl⟩ := h; exact hs
  split at h
  · hb h; obtain ⟨x, _, rfl⟩ := h; exact hs
  split at h
  · hb h; obtain ⟨x, hx, rfl⟩ := h; exact ⟨readWeightedVariations_wf _ _ _ hs.1 hx, hs.2⟩
  split at h
  · hb h; obtain ⟨x, _, rfl⟩ := h; exact hs
  split at h
  · hb h
    obtain ⟨o, ho, h⟩ := h
    cases o with
    | none => cases h; exact hs
    | some k =>
      cases h
      exact ⟨hs.1, fun m hm => by cases hm; exact rIntOrNull_ok _ _ ho _ rfl⟩
  · cases h; exact hs

theorem readRollout_wf (out ro : Rollout) (v : J) (hout : RolloutWf out)
    (h : readRollout out v = .ok ro) : RolloutWf ro := by
  rw [readRollout_eq] at h
  hb h
  obtain ⟨o, _, h⟩ := h
  cases o with
  | none => cases h; exact rolloutWf_empty
  | some kvs =>
    hb h
    obtain ⟨s, hs, rfl⟩ := h
    have := objLoop_inv rolloutH _ (fun s n v s' => rolloutH_inv s s' n v) kvs _ s ⟨hout.1, hout.2⟩ hs
    exact ⟨this.1, this.2, ⟨s.2, rfl⟩⟩

theorem vrWf_empty : VRWf {} := ⟨fun _ h => (by cases h), rolloutWf_empty⟩

theorem vrH_inv (o o' : VariationOrRollout) (n : String) (v : J) (ho : VRWf o) (h : vrH o n v = .ok o') :
    VRWf o' := by
  unfold vrH at h
  split at h
  · hb h; obtain ⟨x, hx, rfl⟩ := h; exact ⟨rIntOrNull_ok _ _ hx, ho.2⟩
  split at h
  · hb h; obtain ⟨x, hx, rfl⟩ := h; exact ⟨ho.1, readRollout_wf _ _ _ ho.2 hx⟩
  · cases h; exact ho

theorem readVariationOrRollout_wf (out vr : VariationOrRollout) (v : J) (hout : VRWf out)
    (h : readVariationOrRollout out v = .ok vr) : VRWf vr := by
  rw [readVariationOrRollout_eq] at h
  hb h
  obtain ⟨kvs, _, hr⟩ := h
  exact objLoop_inv vrH VRWf (fun s n v s' => vrH_inv s s' n v) kvs _ vr hout hr

theorem ruleH_inv (r r' : FlagRule) (n : String) (v : J) (hr : RuleWf r) (h : ruleH r n v = .ok r') :
    RuleWf r' := by
  unfold ruleH at h
  split at h
  · hb h; obtain ⟨x, _, rfl⟩ := h; exact ⟨hr.1, hr.2⟩
  split at h
  · hb h; obtain ⟨x, hx, rfl⟩ := h; exact ⟨⟨rIntOrNull_ok _ _ hx, hr.1.2⟩, hr.2⟩
  split at h
  · hb h; obtain ⟨x, hx, rfl⟩ := h; exact ⟨⟨hr.1.1, readRollout_wf _ _ _ hr.1.2 hx⟩, hr.2⟩
  split at h
  · hb h; obtain ⟨x, hx, rfl⟩ := h; exact ⟨hr.1, readClauses_wf _ _ _ hr.2 hx⟩
  split at h
  · hb h; obtain ⟨x, _, rfl⟩ := h; exact ⟨hr.1, hr.2⟩
  · cases h; exact hr

theorem readFlagRules_wf (acc out : List FlagRule) (v : J) (hacc : ∀ r ∈ acc, RuleWf r)
    (h : readFlagRules acc v = .ok out) : ∀ r ∈ out, RuleWf r := by
  rw [readFlagRules_eq] at h
  intro r hr
  rcases listReader_ok _ _ _ _ _ h r hr with h | ⟨x, hx⟩
  · exact hacc r h
  · unfold readFlagRule at hx
    hb hx
    obtain ⟨kvs, _, hl⟩ := hx
    exact objLoop_inv ruleH RuleWf (fun s n v s' => ruleH_inv s s' n v) kvs _ r
      ⟨vrWf_empty, fun _ h => (by cases h)⟩ hl

theorem readMigration_wf (v : J) (m : Option (Option Int)) (h : readMigration v = .ok m) :
    ∀ cr, m = some cr → OptIntOK cr := by
  rw [readMigration_eq] at h
  hb h
  obtain ⟨o, _, h⟩ := h
  cases o with
  | none => cases h; intro cr hcr; cases hcr; intro n hn; cases hn
  | some kvs =>
    hb h
    obtain ⟨c, hc, rfl⟩ := h
    intro cr hcr; cases hcr
    refine objLoop_inv migrationH OptIntOK ?_ kvs _ _ (fun _ hn => (by cases hn)) hc
    intro s n v s' hs h
    unfold migrationH at h
    split at h
    · hb h; obtain ⟨x, hx, rfl⟩ := h
      intro k hk; cases hk; exact rInt_ok _ _ hx
    · cases h; exact hs

/-- The accumulator invariant: `FlagWf` without the two clauses settled at the end. -/
structure AccWf (a : FlagAcc) : Prop where
  prerequisites : ∀ p ∈ a.flag.prerequisites, IntOK p.variation
  targets : ∀ t ∈ a.flag.targets, TargetWf t
  contextTargets : ∀ t ∈ a.flag.contextTargets, TargetWf t
  rules : ∀ r ∈ a.flag.rules, RuleWf r
  fallthrough : VRWf a.flag.fallthrough
  offVariation : OptIntOK a.flag.offVariation
  variations : a.flag.variations.map normValue = a.flag.variations
  version : IntOK a.flag.fmeta.version
  migration : ∀ cr, a.flag.fmeta.migration = some cr → OptIntOK cr
  samplingRatio : OptIntOK a.flag.fmeta.samplingRatio

theorem accWf_empty : AccWf {} :=
  ⟨fun _ h => (by cases h), fun _ h => (by cases h), fun _ h => (by cases h), fun _ h => (by cases h),
    vrWf_empty, fun _ h => (by cases h), rfl, intOK_zero, fun _ h => (by cases h), fun _ h => (by cases h)⟩

theorem readFlagProp_inv (a a' : FlagAcc) (n : String) (v : J) (ha : AccWf a)
    (h : readFlagProp a n v = .ok a') : AccWf a' := by
  rw [readFlagProp_eq_table] at h
  refine runTable_inv flagTable AccWf ?_ a n v a' ha h
  simp only [flagTable, List.forall_mem_cons, List.not_mem_nil, false_imp_iff, implies_true, and_true]
  refine ⟨?_, ?_, ?_, ?_, ?_, ?_, ?_, ?_, ?_, ?_, ?_, ?_, ?_, ?_, ?_, ?_, ?_, ?_, ?_, ?_⟩
  · intro s v x hs _; exact { hs with }
  · intro s v x hs _; exact { hs with }
  · intro s v x hs hx; exact { hs with prerequisites := readPrerequisites_wf _ _ _ hs.prerequisites hx }
  · intro s v x hs hx; exact { hs with targets := readTargets_wf _ _ _ hs.targets hx }
  · intro s v x hs hx; exact { hs with contextTargets := readTargets_wf _ _ _ hs.contextTargets hx }
  · intro s v x hs hx; exact { hs with rules := readFlagRules_wf _ _ _ hs.rules hx }
  · intro s v x hs hx; exact { hs with fallthrough := readVariationOrRollout_wf _ _ _ hs.fallthrough hx }
  · intro s v x hs hx; exact { hs with offVariation := rIntOrNull_ok _ _ hx }
  · intro s v x hs hx; exact { hs with variations := readValueList_ok _ _ _ hs.variations hx }
  · intro s v x hs _; exact { hs with }
  · intro s v x hs _; exact { hs with }
  · intro s v x hs _; exact { hs with }
  · intro s v x hs _; exact { hs with }
  · intro s v x hs _; exact { hs with }
  · intro s v x hs _; exact { hs with }
  · intro s v x hs hx; exact { hs with version := rInt_ok _ _ hx }
  · intro s v x hs _; exact { hs with }
  · intro s v x hs _; exact { hs with }
  · intro s v x hs hx
    exact { hs with samplingRatio := fun k hk => by cases hk; exact rInt_ok _ _ hx }
  · intro s v x hs hx; exact { hs with migration := readMigration_wf _ _ hx }

/-- The accumulator invariant holds of the result (the final client-side fix-up touches none of
its fields). -/
theorem readFlag_accWf (doc : J) (f : Flag) (h : Codec.readFlag doc = .ok f) :
    AccWf { flag := f } ∧ (f.fmeta.clientSide.explicit = false → f.fmeta.clientSide.usingMobileKey = true) := by
  unfold readFlag at h
  hb h
  obtain ⟨kvs, _, a, ha, h⟩ := h
  have hw := objLoop_inv readFlagProp AccWf (fun s n v s' => readFlagProp_inv s s' n v) kvs _ a accWf_empty ha
  split at h
  · rename_i he
    cases h
    exact ⟨⟨hw.1, hw.2, hw.3, hw.4, hw.5, hw.6, hw.7, hw.8, hw.9, hw.10⟩,
      fun hf => (by rw [he] at hf; cases hf)⟩
  · cases h
    exact ⟨⟨hw.1, hw.2, hw.3, hw.4, hw.5, hw.6, hw.7, hw.8, hw.9, hw.10⟩, fun _ => rfl⟩

/-- Every flag the decoder accepts is well-formed, except possibly for the debug date (open
finding: negative or huge `debugEventsUntilDate` inputs wrap in `uint64(float64)`), which stays
an explicit hypothesis. -/
theorem readFlag_wf (doc : J) (f : Flag) (h : Codec.readFlag doc = .ok f)
    (hdebug : Codec.goUint64 (Codec.natToF64 f.fmeta.debugEventsUntilDate) = f.fmeta.debugEventsUntilDate) :
    FlagWf f := by
  obtain ⟨hw, hcs⟩ := readFlag_accWf doc f h
  exact ⟨hw.1, hw.2, hw.3, hw.4, hw.5, hw.6, hw.7, hcs, hdebug, hw.8, hw.9, hw.10⟩

theorem ratTrunc_natCast (d : Nat) : ratTrunc (d : Rat) = d := by
  have : (d : Rat) = ((d : Int) : Rat) := (Rat.intCast_natCast d).symm
  rw [this, ratTrunc_intCast]

/-- The debug-date hypothesis holds for every date a float64 holds exactly (below 2^53 ms — about
the year 287 000). -/
theorem debug_ok_of_lt (d : Nat) (h : d < 2 ^ 53) : goUint64 (natToF64 d) = d := by
  have e : natToF64 d = d := by unfold natToF64; rw [if_pos h]
  rw [e]
  unfold goUint64
  have h1 : (d : Rat) < (two63 : Rat) := by
    have : ((d : Int) : Rat) < ((two63 : Int) : Rat) := by
      apply Rat.intCast_lt_intCast.mpr
      unfold two63; omega
    rw [Rat.intCast_natCast] at this; exact this
  rw [if_pos h1]
  simp only [ratTrunc_natCast]
  unfold two63 two64
  rw [if_neg (by omega)]
  omega

/-! ## 4c. The property, assembled -/

/-- **Flags.**  For every document the decoder accepts (debug date exactly representable): one
encode/decode step gives `dropEmptyRollouts f` (only bucket-less rollouts are replaced by the empty
rollout), which has the same canonical JSON and is a fixed point of encode/decode. -/
theorem flag_doc_roundtrip (doc : J) (f : Flag) (h : Codec.readFlag doc = .ok f)
    (hdebug : Codec.goUint64 (Codec.natToF64 f.fmeta.debugEventsUntilDate) = f.fmeta.debugEventsUntilDate) :
    Codec.readFlag (Codec.encodeFlag f) = .ok (dropEmptyRollouts f) ∧
    Codec.encodeFlag (dropEmptyRollouts f) = Codec.encodeFlag f ∧
    Codec.readFlag (Codec.encodeFlag (dropEmptyRollouts f)) = .ok (dropEmptyRollouts f) :=
  have hw := readFlag_wf doc f h hdebug
  ⟨flag_roundtrip f hw, encodeFlag_drop f, flag_fixed_point f hw⟩

theorem decodeFlag_ok (rx : RegexOracle) (doc : J) (g : Flag) (h : Codec.decodeFlag rx doc = .ok g) :
    ∃ f, Codec.readFlag doc = .ok f ∧ g = preprocessFlag rx f := by
  unfold decodeFlag at h
  simp only [bind_ok_iff, pure_ok_iff] at h
  obtain ⟨f, hf, rfl⟩ := h
  exact ⟨f, hf, rfl⟩

theorem decodeSegment_ok (rx : RegexOracle) (doc : J) (t : Segment) (h : Codec.decodeSegment rx doc = .ok t) :
    ∃ s, Codec.readSegment doc = .ok s ∧ t = preprocessSegment rx s := by
  unfold decodeSegment at h
  simp only [bind_ok_iff, pure_ok_iff] at h
  obtain ⟨s, hs, rfl⟩ := h
  exact ⟨s, hs, rfl⟩

/-- The same through the real entry point (read, then preprocess): re-decoding the encoding of a
decoded flag gives that flag with bucket-less rollouts emptied — lookup tables included. -/
theorem decodeFlag_roundtrip (rx : RegexOracle) (doc : J) (g : Flag) (h : Codec.decodeFlag rx doc = .ok g)
    (hdebug : Codec.goUint64 (Codec.natToF64 g.fmeta.debugEventsUntilDate) = g.fmeta.debugEventsUntilDate) :
    Codec.decodeFlag rx (Codec.encodeFlag g) = .ok (dropEmptyRollouts g) := by
  obtain ⟨f, hf, rfl⟩ := decodeFlag_ok rx doc g h
  rw [encodeFlag_preprocess]
  unfold decodeFlag
  rw [flag_roundtrip f (readFlag_wf doc f hf hdebug), ← preprocess_drop_comm]
  rfl

/-- **The re-decoded flag evaluates identically to the original, for every context, store and
option set** — value, variation index, reason, prerequisite events, log lines, store lookups and
big-segment queries. -/
theorem redecoded_flag_evaluates_identically (rx : RegexOracle) (doc : J) (g g' : Flag)
    (h : Codec.decodeFlag rx doc = .ok g)
    (hdebug : Codec.goUint64 (Codec.natToF64 g.fmeta.debugEventsUntilDate) = g.fmeta.debugEventsUntilDate)
    (h' : Codec.decodeFlag rx (Codec.encodeFlag g) = .ok g') (env : Env) :
    evaluate env g' = evaluate env g ∧
    ∀ sf n chain, Spec.evalFlag sf n env g' chain = Spec.evalFlag sf n env g chain := by
  rw [decodeFlag_roundtrip rx doc g h hdebug] at h'
  cases h'
  exact ⟨evaluate_drop env g, fun sf n chain => spec_evalFlag_drop sf n env g chain⟩

/-- **Segments**: re-decoding the encoding of a decoded segment gives exactly that segment
(generation, unbounded kind, per-kind target lists, rule weights and bucket-by included), so it
trivially evaluates identically. -/
theorem decodeSegment_roundtrip (rx : RegexOracle) (doc : J) (t : Segment)
    (h : Codec.decodeSegment rx doc = .ok t) :
    Codec.decodeSegment rx (Codec.encodeSegment t) = .ok t := by
  obtain ⟨s, hs, rfl⟩ := decodeSegment_ok rx doc t h
  rw [encodeSegment_preprocess]
  unfold decodeSegment
  rw [segment_doc_roundtrip doc s hs]
  rfl

/-! ### Builder-built values; link to C14 -/

/-- When no bucket-less rollout carries leftover fields (what the builders produce), the round
trip is exact: decode(encode f) = f. -/
def NoStaleRollout (vr : VariationOrRollout) : Prop := vr.rollout.variations = [] → vr.rollout = {}

theorem dropVR_eq_self (vr : VariationOrRollout) (h : NoStaleRollout vr) : dropVR vr = vr := by
  unfold dropVR
  split
  · rename_i he
    have := h (by simpa using he)
    cases vr; simp_all
  · rfl

theorem dropEmptyRollouts_eq_self (f : Flag) (hf : NoStaleRollout f.fallthrough)
    (hr : ∀ r ∈ f.rules, NoStaleRollout r.vr) : dropEmptyRollouts f = f := by
  unfold dropEmptyRollouts
  rw [dropVR_eq_self _ hf]
  have : (f.rules.map fun r => { r with vr := dropVR r.vr }) = f.rules := by
    apply C14.map_strip_id
    intro r hr'
    rw [dropVR_eq_self _ (hr r hr')]
  rw [this]

theorem flag_roundtrip_exact (f : Flag) (hw : FlagWf f) (hf : NoStaleRollout f.fallthrough)
    (hr : ∀ r ∈ f.rules, NoStaleRollout r.vr) :
    Codec.readFlag (Codec.encodeFlag f) = .ok f := by
  rw [flag_roundtrip f hw, dropEmptyRollouts_eq_self f hf hr]

/-- Decoder outputs carry no lookup tables before preprocessing: they are `C14.PlainFlag` /
`C14.PlainSegment`, so by C14 preprocessing them does not change any evaluation. -/
theorem readFlag_plain (doc : J) (f : Flag) (h : Codec.readFlag doc = .ok f) : C14.PlainFlag f := by
  have hw := (readFlag_accWf doc f h).1
  exact ⟨fun t ht => (hw.targets t ht).pre, fun r hr c hc => ((hw.rules r hr).clauses c hc).pre⟩

theorem readSegment_plain (doc : J) (s : Segment) (h : Codec.readSegment doc = .ok s) :
    C14.PlainSegment s := by
  have hw := readSegment_wf doc s h
  exact ⟨⟨hw.pre, hw.includedContexts, hw.excludedContexts⟩,
    fun r hr c hc => ((hw.rules r hr).clauses c hc).pre⟩


/-! ## 6. Non-vacuity -/

/-- A flag with: a literal attribute starting with `/`, a path reference under a context kind, an
undefined attribute, a rollout with kind/seed/bucket-by/untracked, an empty-bucket rollout with a
fixed variation, per-kind targets, optional ints present and absent. -/
def exFlag : Flag :=
  { key := "f", on := true, salt := "s", offVariation := some 1,
    variations := [.bool true, .num 3, .obj [("a", .null), ("b", .arr [])]],
    prerequisites := [{ key := "p", variation := 0 }],
    targets := [{ values := ["u1"], variation := 0 }],
    contextTargets := [{ contextKind := "org", values := ["o1"], variation := 1 }],
    rules := [
      { id := "r0", trackEvents := true,
        clauses := [{ attr := Ref.newLiteral "/a~b", op := "in", values := [.str "x"] },
                    { contextKind := "org", attr := Ref.newRef "/addr/city", op := "in", values := [.num 1], negate := true },
                    { op := "segmentMatch", values := [.str "seg"] }],
        vr := { rollout := { kind := "experiment", contextKind := "org", seed := some 42,
                             bucketBy := Ref.newRef "/addr/zip",
                             variations := [{ variation := 0, weight := 60000 },
                                            { variation := 1, weight := 40000, untracked := true }] } } },
      { vr := { variation := some 2, rollout := { kind := "experiment" } } }],
    fallthrough := { rollout := { bucketBy := Ref.newLiteral "/x", variations := [{ variation := 0, weight := 100000 }] } },
    fmeta := { version := 7, debugEventsUntilDate := 1700000000000, samplingRatio := some 10,
               migration := some (some 5),
               clientSide := { usingMobileKey := true, usingEnvironmentID := true, explicit := true } } }

theorem intOK_small (n : Int) (h1 : -1000000 ≤ n) (h2 : n ≤ 1000000) : IntOK n :=
  intOK_of_range n (by unfold int64Min; omega) (by unfold int64Max; omega)

example : FlagWf exFlag := by
  refine ⟨?_, ?_, ?_, ?_, ?_, ?_, ?_, ?_, ?_, ?_, ?_, ?_⟩
  · intro p hp; simp [exFlag] at hp; subst hp; exact intOK_zero
  · intro t ht; simp [exFlag] at ht; subst ht; exact ⟨rfl, intOK_zero⟩
  · intro t ht; simp [exFlag] at ht; subst ht; exact ⟨rfl, intOK_small _ (by decide) (by decide)⟩
  · intro r hr
    simp [exFlag] at hr
    rcases hr with rfl | rfl
    · refine ⟨⟨fun _ h => (by cases h), ⟨?_, ?_, ?_⟩⟩, ?_⟩
      · intro w hw
        simp at hw
        rcases hw with rfl | rfl
        · exact ⟨intOK_zero, intOK_small _ (by decide) (by decide)⟩
        · exact ⟨intOK_small _ (by decide) (by decide), intOK_small _ (by decide) (by decide)⟩
      · intro n hn; cases hn; exact intOK_small _ (by decide) (by decide)
      · exact decoded_newRef "/addr/zip" "org" (by decide) (by decide)
      · intro c hc
        simp at hc
        rcases hc with rfl | rfl | rfl
        · exact ⟨rfl, decoded_newLiteral "/a~b" (by decide), rfl⟩
        · exact ⟨rfl, decoded_newRef "/addr/city" "org" (by decide) (by decide), rfl⟩
        · exact ⟨rfl, decoded_empty _, rfl⟩
    · exact ⟨⟨fun n hn => (by cases hn; exact intOK_small _ (by decide) (by decide)),
        ⟨fun _ h => (by cases h), fun _ h => (by cases h), decoded_empty _⟩⟩, fun _ h => (by cases h)⟩
  · refine ⟨fun _ h => (by cases h), ⟨?_, fun _ h => (by cases h), decoded_newLiteral "/x" (by decide)⟩⟩
    intro w hw
    simp [exFlag] at hw
    subst hw
    exact ⟨intOK_zero, intOK_small _ (by decide) (by decide)⟩
  · intro n hn; cases hn; exact intOK_small _ (by decide) (by decide)
  · rfl
  · intro h; cases h
  · exact debug_ok_of_lt _ (by decide)
  · exact intOK_small _ (by decide) (by decide)
  · intro cr hcr; cases hcr; intro n hn; cases hn; exact intOK_small _ (by decide) (by decide)
  · intro n hn; cases hn; exact intOK_small _ (by decide) (by decide)

/-- The second rule's bucket-less experiment rollout is what `dropEmptyRollouts` removes. -/
example : ((dropEmptyRollouts exFlag).rules.map (·.vr.rollout.kind)) = ["experiment", ""] := rfl
example : (exFlag.rules.map (·.vr.rollout.kind)) = ["experiment", "experiment"] := rfl

/-- A literal attribute `/a~b` (no context kind) is written as the bare name and a path under a
context kind as the path. -/
example : refStr (Ref.newLiteral "/a~b") "" = "/a~b" ∧ (Ref.newLiteral "/a~b").raw = "/~1a~0b" ∧
    refStr (Ref.newRef "/addr/city") "org" = "/addr/city" := by decide

/-- `normValue` really changes something (and is idempotent on it): duplicate members keep the
last, members are sorted. -/
example : (match normValue (.obj [("b", .num 1), ("a", .null), ("b", .num 2)]) with
    | .obj kvs => kvs.map (·.1) | _ => []) = ["a", "b"] := by decide

/-- Open finding (F5): a negative `debugEventsUntilDate` wraps to 2^64−1 on decoding, is written as
the float64 2^64, and re-decodes to 2^63 — not a fixed point after one step; hence `hdebug`. -/
example : goUint64 (-1) = 18446744073709551615 ∧
    goUint64 (natToF64 (goUint64 (-1))) = 9223372036854775808 := by decide +kernel

/-- A segment document whose decoding exercises every member, and its round trip. -/
def exSegDoc : J := .obj [("key", .str "s"), ("included", .arr [.str "a"]), ("excluded", .null),
  ("includedContexts", .arr [.obj [("contextKind", .str "org"), ("values", .arr [.str "o"])]]),
  ("rules", .arr [.obj [("id", .str "r"), ("clauses", .arr [.obj [("attribute", .str "/a"), ("op", .str "in"),
      ("values", .arr [.num 1]), ("negate", .bool false)]]), ("weight", .num 50000), ("bucketBy", .str "/b"),
      ("rolloutContextKind", .str "org")]]),
  ("unbounded", .bool true), ("unboundedContextKind", .str "org"), ("generation", .num 3), ("version", .num 2)]

example : (Codec.readSegment exSegDoc).toOption.map
    (fun s => (s.key, s.included, s.includedContexts, s.unbounded, s.unboundedContextKind, s.generation,
      s.version, s.rules.map (fun r => (r.id, r.weight, r.rolloutContextKind, r.bucketBy.raw, r.bucketBy.single,
        r.clauses.map (fun c => (c.attr.raw, c.attr.single)))))) =
    some ("s", ["a"], [{ contextKind := "org", values := ["o"] }], true, "org", some 3, 2,
      [("r", some 50000, "org", "/b", "b", [("/~1a", "/a")])]) := by rfl

example (s : Segment) (h : Codec.readSegment exSegDoc = .ok s) :
    Codec.readSegment (Codec.encodeSegment s) = .ok s := segment_doc_roundtrip _ s h

#print axioms newRef_raw
#print axioms newLiteral_component
#print axioms ref_roundtrip_literal
#print axioms ref_roundtrip_path
#print axioms ref_undefined_roundtrip
#print axioms decoded_ref_roundtrip
#print axioms clause_roundtrip
#print axioms segment_roundtrip
#print axioms readSegment_wf
#print axioms segment_doc_roundtrip
#print axioms decodeSegment_roundtrip
#print axioms readRollout_enc
#print axioms readVR_enc
#print axioms readTargets_enc
#print axioms readPrerequisites_enc
#print axioms readFlagRules_enc
#print axioms flag_roundtrip
#print axioms encodeFlag_drop
#print axioms flag_fixed_point
#print axioms readFlag_wf
#print axioms flag_doc_roundtrip
#print axioms decodeFlag_roundtrip
#print axioms empty_rollout_irrelevant
#print axioms spec_getValueForVR_drop
#print axioms spec_evalFlag_drop
#print axioms evaluate_drop
#print axioms redecoded_flag_evaluates_identically
#print axioms debug_ok_of_lt
#print axioms flag_roundtrip_exact
#print axioms readFlag_plain
#print axioms readSegment_plain
#print axioms normValue_idem


/-! ## Strengthened statements (theorem audit) -/

/-! ### Literal names under a context kind -/

theorem unescape_escapeLit (l : List Char) : Ref.unescape (Ref.escapeLit l) = some l := by
  induction l with
  | nil => rfl
  | cons c rest ih =>
    by_cases h1 : c = '~'
    · subst h1; simp [Ref.escapeLit, Ref.unescape, ih]
    · by_cases h2 : c = '/'
      · subst h2; simp [Ref.escapeLit, Ref.unescape, ih]
      · rw [Ref.escapeLit.eq_4 _ _ h1 h2]
        rw [Ref.unescape.eq_5]
        · simp [ih]
        · intro r hr _; exact h1 hr
        · intro r hr _; exact h1 hr
        · intro hr; exact h1 hr


theorem escapeLit_no_slash (l : List Char) : '/' ∉ Ref.escapeLit l := by
  induction l with
  | nil => simp [Ref.escapeLit]
  | cons c rest ih =>
    by_cases h1 : c = '~'
    · subst h1; simp [Ref.escapeLit, ih]
    · by_cases h2 : c = '/'
      · subst h2; simp [Ref.escapeLit, ih]
      · rw [Ref.escapeLit.eq_4 _ _ h1 h2]
        simp [ih, Ne.symm h2]

/-- `NewRef(NewLiteralRef(name).String()) = NewLiteralRef(name)`: the path string written for a
literal attribute name under a context kind is read back as the same reference. -/
theorem newRef_newLiteral_raw (name : String) (h : name ≠ "") :
    Ref.newRef (Ref.newLiteral name).raw = Ref.newLiteral name := by
  have hne : (name == "") = false := by simpa using h
  unfold Ref.newLiteral
  rw [hne]
  simp only [Bool.false_eq_true, if_false]
  split
  · rename_i rest hl
    unfold Ref.newRef
    have e1 : (String.ofList ('/' :: Ref.escapeLit name.toList) == "") = false := by
      simp [← String.toList_inj]
    have e2 : (String.ofList ('/' :: Ref.escapeLit name.toList) == "/") = false := by
      rw [hl]; simp [Ref.escapeLit, ← String.toList_inj]
    rw [e1, e2]
    simp only [Bool.or_self, Bool.false_eq_true, if_false, String.toList_ofList]
    have e3 : (Ref.escapeLit name.toList).contains '/' = false := by
      simpa using escapeLit_no_slash name.toList
    rw [e3, unescape_escapeLit]
    simp only [Bool.not_false, if_true, String.ofList_toList]
  · rename_i hl
    unfold Ref.newRef
    have e2 : (name == "/") = false := by
      rw [beq_eq_false_iff_ne]; intro he; exact hl [] (by rw [he]; rfl)
    rw [hne, e2]
    simp only [Bool.or_self, Bool.false_eq_true, if_false]
    first
      | done
      | (split
         · rename_i path heq; exact absurd heq (hl path)
         · rfl)

/-- A literal attribute name is in the decoder's range under EVERY context kind. -/
theorem decoded_newLiteral_any (name ck : String) (h : name ≠ "") : Decoded (Ref.newLiteral name) ck := by
  by_cases hck : ck = ""
  · subst hck; exact decoded_newLiteral name h
  · have := decoded_newRef (Ref.newLiteral name).raw ck (by
      have := newLiteral_isDefined name
      intro he
      have hd : (Ref.newLiteral name).err = none := by
        unfold Ref.newLiteral
        have hne : (name == "") = false := by simpa using h
        rw [hne]; simp only [Bool.false_eq_true, if_false]; split <;> rfl
      simp [Ref.isDefined, he, hd] at this) hck
    rwa [newRef_newLiteral_raw name h] at this


/-! ### #50: builder-built values (model of `ldbuilders`: `Model/Builders.lean`) -/

open LD.Builders

/-- The values are in ldvalue's canonical form (a Go `ldvalue.Value` always is; a `J` tree need not
be: duplicate or unsorted object members). -/
abbrev ValuesOK (vs : List J) : Prop := vs.map normValue = vs

theorem valuesOK_strs (ks : List String) : ValuesOK (ks.map J.str) := by
  unfold ValuesOK
  rw [List.map_map]
  apply List.map_congr_left
  intro k _; rfl

/-- The clause constructors of ldbuilders, with the arguments the wire schema can express:
a non-empty literal attribute name (under any context kind), or a reference the schema can express
under the given kind (`Decoded`: without a kind only a plain name, with a kind any path string);
values in canonical form. -/
inductive ClauseBuilt : Clause → Prop
  | clause (attr op : String) (values : List J) (ha : attr ≠ "") (hv : ValuesOK values) :
      ClauseBuilt (clause attr op values)
  | clauseWithKind (kind attr op : String) (values : List J) (ha : attr ≠ "") (hv : ValuesOK values) :
      ClauseBuilt (clauseWithKind kind attr op values)
  | clauseRef (r : Ref) (op : String) (values : List J) (hr : Decoded r "") (hv : ValuesOK values) :
      ClauseBuilt (clauseRef r op values)
  | clauseRefWithKind (kind : String) (r : Ref) (op : String) (values : List J) (hr : Decoded r kind)
      (hv : ValuesOK values) : ClauseBuilt (clauseRefWithKind kind r op values)
  | negate {c : Clause} (h : ClauseBuilt c) : ClauseBuilt (negate c)
  | segmentMatch (keys : List String) : ClauseBuilt (segmentMatchClause keys)

theorem ClauseBuilt.wf {c : Clause} (h : ClauseBuilt c) : ClauseWf c := by
  induction h with
  | clause attr op values ha hv => exact ⟨rfl, decoded_newLiteral attr ha, hv⟩
  | clauseWithKind kind attr op values ha hv => exact ⟨rfl, decoded_newLiteral_any attr kind ha, hv⟩
  | clauseRef r op values hr hv => exact ⟨rfl, hr, hv⟩
  | clauseRefWithKind kind r op values hr hv => exact ⟨rfl, hr, hv⟩
  | negate _ ih => exact ⟨ih.pre, ih.attr, ih.values⟩
  | segmentMatch keys => exact ⟨rfl, decoded_empty _, valuesOK_strs keys⟩

/-- `Bucket` / `BucketUntracked` with 64-bit integers. -/
inductive BucketBuilt : WeightedVariation → Prop
  | bucket (v w : Int) (hv : IntOK v) (hw : IntOK w) : BucketBuilt (bucket v w)
  | bucketUntracked (v w : Int) (hv : IntOK v) (hw : IntOK w) : BucketBuilt (bucketUntracked v w)

theorem BucketBuilt.wf {w : WeightedVariation} (h : BucketBuilt w) : WVWf w := by
  cases h with
  | bucket v w hv hw => exact ⟨hv, hw⟩
  | bucketUntracked v w hv hw => exact ⟨hv, hw⟩

/-- `Variation`, `Rollout`, `Experiment`.  A rollout or experiment WITHOUT buckets is excluded: the
encoder writes no "rollout" member for it, so its kind (and seed) cannot be expressed — see the
counterexample `rollout_without_buckets_not_expressible` below. -/
inductive VRBuilt : VariationOrRollout → Prop
  | variation (i : Int) (hi : IntOK i) : VRBuilt (variation i)
  | rollout (buckets : List WeightedVariation) (hne : buckets ≠ []) (hb : ∀ w ∈ buckets, BucketBuilt w) :
      VRBuilt (rollout buckets)
  | experiment (seed : Option Int) (hs : OptIntOK seed) (buckets : List WeightedVariation)
      (hne : buckets ≠ []) (hb : ∀ w ∈ buckets, BucketBuilt w) : VRBuilt (experiment seed buckets)

theorem noStale_empty : NoStaleRollout {} := fun _ => rfl

theorem VRBuilt.wf {vr : VariationOrRollout} (h : VRBuilt vr) : VRWf vr ∧ NoStaleRollout vr := by
  cases h with
  | variation i hi =>
    exact ⟨⟨fun n hn => (by cases hn; exact hi), rolloutWf_empty⟩, fun _ => rfl⟩
  | rollout buckets hne hb =>
    exact ⟨⟨fun _ hn => (by cases hn), ⟨fun w hw => (hb w hw).wf, fun _ hn => (by cases hn), decoded_empty _⟩⟩,
      fun he => absurd he hne⟩
  | experiment seed hs buckets hne hb =>
    exact ⟨⟨fun _ hn => (by cases hn), ⟨fun w hw => (hb w hw).wf, hs, decoded_empty _⟩⟩,
      fun he => absurd he hne⟩

/-- States of a `RuleBuilder` reachable with expressible arguments. -/
inductive RuleBuilt : FlagRule → Prop
  | new : RuleBuilt newRuleBuilder
  | clauses {b : FlagRule} (h : RuleBuilt b) (cs : List Clause) (hc : ∀ c ∈ cs, ClauseBuilt c) :
      RuleBuilt (RuleBuilder.clauses b cs)
  | id {b : FlagRule} (h : RuleBuilt b) (s : String) : RuleBuilt (RuleBuilder.id b s)
  | trackEvents {b : FlagRule} (h : RuleBuilt b) (v : Bool) : RuleBuilt (RuleBuilder.trackEvents b v)
  | variationOrRollout {b : FlagRule} (h : RuleBuilt b) (vr : VariationOrRollout) (hvr : VRBuilt vr) :
      RuleBuilt (RuleBuilder.variationOrRollout b vr)
  | variation {b : FlagRule} (h : RuleBuilt b) (i : Int) (hi : IntOK i) : RuleBuilt (RuleBuilder.variation b i)

theorem RuleBuilt.wf {r : FlagRule} (h : RuleBuilt r) : RuleWf r ∧ NoStaleRollout r.vr := by
  induction h with
  | new => exact ⟨⟨vrWf_empty, fun _ hc => (by cases hc)⟩, noStale_empty⟩
  | clauses _ cs hc ih => exact ⟨⟨ih.1.vr, fun c hcm => (hc c hcm).wf⟩, ih.2⟩
  | id _ s ih => exact ⟨⟨ih.1.vr, ih.1.clauses⟩, ih.2⟩
  | trackEvents _ v ih => exact ⟨⟨ih.1.vr, ih.1.clauses⟩, ih.2⟩
  | variationOrRollout _ vr hvr ih => exact ⟨⟨hvr.wf.1, ih.1.clauses⟩, hvr.wf.2⟩
  | variation _ i hi ih =>
    exact ⟨⟨(VRBuilt.variation i hi).wf.1, ih.1.clauses⟩, (VRBuilt.variation i hi).wf.2⟩

/-- States of a `FlagBuilder` reachable from `NewFlagBuilder(key)` by its methods, with arguments
the wire schema can express: 64-bit integers, canonical values, rules / clauses / rollouts as
above, a debug date that survives `float64` (any date below 2^53 ms, `debug_ok_of_lt`). -/
inductive FlagBuilt : Flag → Prop
  | new (key : String) : FlagBuilt (newFlagBuilder key)
  | addPrerequisite {b : Flag} (h : FlagBuilt b) (key : String) (v : Int) (hv : IntOK v) :
      FlagBuilt (FlagBuilder.addPrerequisite b key v)
  | addRule {b : Flag} (h : FlagBuilt b) (r : FlagRule) (hr : RuleBuilt r) : FlagBuilt (FlagBuilder.addRule b r)
  | addTarget {b : Flag} (h : FlagBuilt b) (v : Int) (keys : List String) (hv : IntOK v) :
      FlagBuilt (FlagBuilder.addTarget b v keys)
  | addContextTarget {b : Flag} (h : FlagBuilt b) (kind : String) (v : Int) (keys : List String) (hv : IntOK v) :
      FlagBuilt (FlagBuilder.addContextTarget b kind v keys)
  | clientSideUsingEnvironmentID {b : Flag} (h : FlagBuilt b) (v : Bool) :
      FlagBuilt (FlagBuilder.clientSideUsingEnvironmentID b v)
  | clientSideUsingMobileKey {b : Flag} (h : FlagBuilt b) (v : Bool) :
      FlagBuilt (FlagBuilder.clientSideUsingMobileKey b v)
  | debugEventsUntilDate {b : Flag} (h : FlagBuilt b) (t : Nat) (ht : goUint64 (natToF64 t) = t) :
      FlagBuilt (FlagBuilder.debugEventsUntilDate b t)
  | deleted {b : Flag} (h : FlagBuilt b) (v : Bool) : FlagBuilt (FlagBuilder.deleted b v)
  | excludeFromSummaries {b : Flag} (h : FlagBuilt b) (v : Bool) : FlagBuilt (FlagBuilder.excludeFromSummaries b v)
  | fallthrough {b : Flag} (h : FlagBuilt b) (vr : VariationOrRollout) (hvr : VRBuilt vr) :
      FlagBuilt (FlagBuilder.fallthrough b vr)
  | fallthroughVariation {b : Flag} (h : FlagBuilt b) (i : Int) (hi : IntOK i) :
      FlagBuilt (FlagBuilder.fallthroughVariation b i)
  | migrationFlagParameters {b : Flag} (h : FlagBuilt b) (p : Option Int) (hp : OptIntOK p) :
      FlagBuilt (FlagBuilder.migrationFlagParameters b p)
  | offVariation {b : Flag} (h : FlagBuilt b) (i : Int) (hi : IntOK i) : FlagBuilt (FlagBuilder.offVariation b i)
  | on {b : Flag} (h : FlagBuilt b) (v : Bool) : FlagBuilt (FlagBuilder.on b v)
  | salt {b : Flag} (h : FlagBuilt b) (v : String) : FlagBuilt (FlagBuilder.salt b v)
  | samplingRatio {b : Flag} (h : FlagBuilt b) (r : Int) (hr : IntOK r) : FlagBuilt (FlagBuilder.samplingRatio b r)
  | trackEvents {b : Flag} (h : FlagBuilt b) (v : Bool) : FlagBuilt (FlagBuilder.trackEvents b v)
  | trackEventsFallthrough {b : Flag} (h : FlagBuilt b) (v : Bool) :
      FlagBuilt (FlagBuilder.trackEventsFallthrough b v)
  | variations {b : Flag} (h : FlagBuilt b) (vs : List J) (hv : ValuesOK vs) : FlagBuilt (FlagBuilder.variations b vs)
  | version {b : Flag} (h : FlagBuilt b) (v : Int) (hv : IntOK v) : FlagBuilt (FlagBuilder.version b v)
  | singleVariation {b : Flag} (h : FlagBuilt b) (v : J) (hv : normValue v = v) :
      FlagBuilt (FlagBuilder.singleVariation b v)

/-- What the round trip needs of a builder state. -/
structure FlagExpressible (f : Flag) : Prop where
  wf : FlagWf f
  fallthrough : NoStaleRollout f.fallthrough
  rules : ∀ r ∈ f.rules, NoStaleRollout r.vr

theorem optIntOK_some {i : Int} (hi : IntOK i) : OptIntOK (some i) := fun n hn => (by cases hn; exact hi)
theorem optIntOK_none : OptIntOK none := fun _ hn => by cases hn

theorem forall_mem_append_singleton {α} {P : α → Prop} {l : List α} {x : α}
    (hl : ∀ y ∈ l, P y) (hx : P x) : ∀ y ∈ l ++ [x], P y := by
  intro y hy
  rcases List.mem_append.mp hy with h | h
  · exact hl y h
  · have : y = x := by simpa using h
    rw [this]; exact hx

theorem FlagBuilt.expressible {f : Flag} (h : FlagBuilt f) : FlagExpressible f := by
  induction h with
  | new key =>
    exact ⟨⟨fun _ h => (by cases h), fun _ h => (by cases h), fun _ h => (by cases h), fun _ h => (by cases h),
      vrWf_empty, optIntOK_none, rfl, fun _ => rfl, (show goUint64 (natToF64 0) = 0 by decide), intOK_zero, fun _ h => (by cases h),
      optIntOK_none⟩, noStale_empty, fun _ h => (by cases h)⟩
  | addPrerequisite _ key v hv ih =>
    obtain ⟨⟨h1, h2, h3, h4, h5, h6, h7, h8, h9, h10, h11, h12⟩, hf, hr⟩ := ih
    exact ⟨⟨forall_mem_append_singleton h1 hv, h2, h3, h4, h5, h6, h7, h8, h9, h10, h11, h12⟩, hf, hr⟩
  | addRule _ r hrb ih =>
    obtain ⟨⟨h1, h2, h3, h4, h5, h6, h7, h8, h9, h10, h11, h12⟩, hf, hr⟩ := ih
    exact ⟨⟨h1, h2, h3, forall_mem_append_singleton h4 hrb.wf.1, h5, h6, h7, h8, h9, h10, h11, h12⟩, hf,
      forall_mem_append_singleton hr hrb.wf.2⟩
  | addTarget _ v keys hv ih =>
    obtain ⟨⟨h1, h2, h3, h4, h5, h6, h7, h8, h9, h10, h11, h12⟩, hf, hr⟩ := ih
    exact ⟨⟨h1, forall_mem_append_singleton h2 ⟨rfl, hv⟩, h3, h4, h5, h6, h7, h8, h9, h10, h11, h12⟩, hf, hr⟩
  | addContextTarget _ kind v keys hv ih =>
    obtain ⟨⟨h1, h2, h3, h4, h5, h6, h7, h8, h9, h10, h11, h12⟩, hf, hr⟩ := ih
    exact ⟨⟨h1, h2, forall_mem_append_singleton h3 ⟨rfl, hv⟩, h4, h5, h6, h7, h8, h9, h10, h11, h12⟩, hf, hr⟩
  | clientSideUsingEnvironmentID _ v ih =>
    obtain ⟨⟨h1, h2, h3, h4, h5, h6, h7, h8, h9, h10, h11, h12⟩, hf, hr⟩ := ih
    exact ⟨⟨h1, h2, h3, h4, h5, h6, h7, fun he => (by cases he), h9, h10, h11, h12⟩, hf, hr⟩
  | clientSideUsingMobileKey _ v ih =>
    obtain ⟨⟨h1, h2, h3, h4, h5, h6, h7, h8, h9, h10, h11, h12⟩, hf, hr⟩ := ih
    exact ⟨⟨h1, h2, h3, h4, h5, h6, h7, fun he => (by cases he), h9, h10, h11, h12⟩, hf, hr⟩
  | debugEventsUntilDate _ t ht ih =>
    obtain ⟨⟨h1, h2, h3, h4, h5, h6, h7, h8, h9, h10, h11, h12⟩, hf, hr⟩ := ih
    exact ⟨⟨h1, h2, h3, h4, h5, h6, h7, h8, ht, h10, h11, h12⟩, hf, hr⟩
  | deleted _ v ih =>
    obtain ⟨⟨h1, h2, h3, h4, h5, h6, h7, h8, h9, h10, h11, h12⟩, hf, hr⟩ := ih
    exact ⟨⟨h1, h2, h3, h4, h5, h6, h7, h8, h9, h10, h11, h12⟩, hf, hr⟩
  | excludeFromSummaries _ v ih =>
    obtain ⟨⟨h1, h2, h3, h4, h5, h6, h7, h8, h9, h10, h11, h12⟩, hf, hr⟩ := ih
    exact ⟨⟨h1, h2, h3, h4, h5, h6, h7, h8, h9, h10, h11, h12⟩, hf, hr⟩
  | fallthrough _ vr hvr ih =>
    obtain ⟨⟨h1, h2, h3, h4, h5, h6, h7, h8, h9, h10, h11, h12⟩, hf, hr⟩ := ih
    exact ⟨⟨h1, h2, h3, h4, hvr.wf.1, h6, h7, h8, h9, h10, h11, h12⟩, hvr.wf.2, hr⟩
  | fallthroughVariation _ i hi ih =>
    obtain ⟨⟨h1, h2, h3, h4, h5, h6, h7, h8, h9, h10, h11, h12⟩, hf, hr⟩ := ih
    exact ⟨⟨h1, h2, h3, h4, (VRBuilt.variation i hi).wf.1, h6, h7, h8, h9, h10, h11, h12⟩,
      (VRBuilt.variation i hi).wf.2, hr⟩
  | migrationFlagParameters _ p hp ih =>
    obtain ⟨⟨h1, h2, h3, h4, h5, h6, h7, h8, h9, h10, h11, h12⟩, hf, hr⟩ := ih
    exact ⟨⟨h1, h2, h3, h4, h5, h6, h7, h8, h9, h10, fun cr hcr => (by cases hcr; exact hp), h12⟩, hf, hr⟩
  | offVariation _ i hi ih =>
    obtain ⟨⟨h1, h2, h3, h4, h5, h6, h7, h8, h9, h10, h11, h12⟩, hf, hr⟩ := ih
    exact ⟨⟨h1, h2, h3, h4, h5, optIntOK_some hi, h7, h8, h9, h10, h11, h12⟩, hf, hr⟩
  | on _ v ih =>
    obtain ⟨⟨h1, h2, h3, h4, h5, h6, h7, h8, h9, h10, h11, h12⟩, hf, hr⟩ := ih
    exact ⟨⟨h1, h2, h3, h4, h5, h6, h7, h8, h9, h10, h11, h12⟩, hf, hr⟩
  | salt _ v ih =>
    obtain ⟨⟨h1, h2, h3, h4, h5, h6, h7, h8, h9, h10, h11, h12⟩, hf, hr⟩ := ih
    exact ⟨⟨h1, h2, h3, h4, h5, h6, h7, h8, h9, h10, h11, h12⟩, hf, hr⟩
  | samplingRatio _ r hr' ih =>
    obtain ⟨⟨h1, h2, h3, h4, h5, h6, h7, h8, h9, h10, h11, h12⟩, hf, hr⟩ := ih
    exact ⟨⟨h1, h2, h3, h4, h5, h6, h7, h8, h9, h10, h11, optIntOK_some hr'⟩, hf, hr⟩
  | trackEvents _ v ih =>
    obtain ⟨⟨h1, h2, h3, h4, h5, h6, h7, h8, h9, h10, h11, h12⟩, hf, hr⟩ := ih
    exact ⟨⟨h1, h2, h3, h4, h5, h6, h7, h8, h9, h10, h11, h12⟩, hf, hr⟩
  | trackEventsFallthrough _ v ih =>
    obtain ⟨⟨h1, h2, h3, h4, h5, h6, h7, h8, h9, h10, h11, h12⟩, hf, hr⟩ := ih
    exact ⟨⟨h1, h2, h3, h4, h5, h6, h7, h8, h9, h10, h11, h12⟩, hf, hr⟩
  | variations _ vs hv ih =>
    obtain ⟨⟨h1, h2, h3, h4, h5, h6, h7, h8, h9, h10, h11, h12⟩, hf, hr⟩ := ih
    exact ⟨⟨h1, h2, h3, h4, h5, h6, hv, h8, h9, h10, h11, h12⟩, hf, hr⟩
  | version _ v hv ih =>
    obtain ⟨⟨h1, h2, h3, h4, h5, h6, h7, h8, h9, h10, h11, h12⟩, hf, hr⟩ := ih
    exact ⟨⟨h1, h2, h3, h4, h5, h6, h7, h8, h9, hv, h11, h12⟩, hf, hr⟩
  | singleVariation _ v hv ih =>
    obtain ⟨⟨h1, h2, h3, h4, h5, h6, h7, h8, h9, h10, h11, h12⟩, hf, hr⟩ := ih
    exact ⟨⟨h1, h2, h3, h4, h5, optIntOK_some intOK_zero, (by simp [FlagBuilder.singleVariation,
      FlagBuilder.variations, FlagBuilder.offVariation, FlagBuilder.on, hv]), h8, h9, h10, h11, h12⟩, hf, hr⟩


/-- States of a `SegmentRuleBuilder` reachable with expressible arguments.  The bucket-by reference
and the rollout context kind are set by separate methods and are written together (a plain name
without a kind, a path string with one), so each of the two setters needs the reference to be
expressible under the kind that is in place (`Decoded`); a literal `BucketBy(attr)` is expressible
under every kind (`decoded_newLiteral_any`). -/
inductive SegRuleBuilt : SegmentRule → Prop
  | new : SegRuleBuilt newSegmentRuleBuilder
  | bucketBy {b : SegmentRule} (h : SegRuleBuilt b) (attr : String) (ha : attr ≠ "") :
      SegRuleBuilt (SegmentRuleBuilder.bucketBy b attr)
  | bucketByRef {b : SegmentRule} (h : SegRuleBuilt b) (r : Ref) (hr : Decoded r b.rolloutContextKind) :
      SegRuleBuilt (SegmentRuleBuilder.bucketByRef b r)
  | clauses {b : SegmentRule} (h : SegRuleBuilt b) (cs : List Clause) (hc : ∀ c ∈ cs, ClauseBuilt c) :
      SegRuleBuilt (SegmentRuleBuilder.clauses b cs)
  | id {b : SegmentRule} (h : SegRuleBuilt b) (s : String) : SegRuleBuilt (SegmentRuleBuilder.id b s)
  | rolloutContextKind {b : SegmentRule} (h : SegRuleBuilt b) (kind : String) (hd : Decoded b.bucketBy kind) :
      SegRuleBuilt (SegmentRuleBuilder.rolloutContextKind b kind)
  | weight {b : SegmentRule} (h : SegRuleBuilt b) (w : Int) (hw : IntOK w) :
      SegRuleBuilt (SegmentRuleBuilder.weight b w)

theorem SegRuleBuilt.wf {r : SegmentRule} (h : SegRuleBuilt r) : SegRuleWf r := by
  induction h with
  | new => exact ⟨fun _ hc => (by cases hc), optIntOK_none, decoded_empty _⟩
  | bucketBy _ attr ha ih => exact ⟨ih.clauses, ih.weight, decoded_newLiteral_any attr _ ha⟩
  | bucketByRef _ r hr ih => exact ⟨ih.clauses, ih.weight, hr⟩
  | clauses _ cs hc ih => exact ⟨fun c hcm => (hc c hcm).wf, ih.weight, ih.bucketBy⟩
  | id _ s ih => exact ⟨ih.clauses, ih.weight, ih.bucketBy⟩
  | rolloutContextKind _ kind hd ih => exact ⟨ih.clauses, ih.weight, hd⟩
  | weight _ w hw ih => exact ⟨ih.clauses, optIntOK_some hw, ih.bucketBy⟩

/-- States of a `SegmentBuilder` reachable from `NewSegmentBuilder(key)` with expressible
arguments. -/
inductive SegmentBuilt : Segment → Prop
  | new (key : String) : SegmentBuilt (newSegmentBuilder key)
  | addRule {b : Segment} (h : SegmentBuilt b) (r : SegmentRule) (hr : SegRuleBuilt r) :
      SegmentBuilt (SegmentBuilder.addRule b r)
  | excluded {b : Segment} (h : SegmentBuilt b) (keys : List String) : SegmentBuilt (SegmentBuilder.excluded b keys)
  | included {b : Segment} (h : SegmentBuilt b) (keys : List String) : SegmentBuilt (SegmentBuilder.included b keys)
  | includedContextKind {b : Segment} (h : SegmentBuilt b) (kind : String) (keys : List String) :
      SegmentBuilt (SegmentBuilder.includedContextKind b kind keys)
  | excludedContextKind {b : Segment} (h : SegmentBuilt b) (kind : String) (keys : List String) :
      SegmentBuilt (SegmentBuilder.excludedContextKind b kind keys)
  | version {b : Segment} (h : SegmentBuilt b) (v : Int) (hv : IntOK v) : SegmentBuilt (SegmentBuilder.version b v)
  | salt {b : Segment} (h : SegmentBuilt b) (v : String) : SegmentBuilt (SegmentBuilder.salt b v)
  | unbounded {b : Segment} (h : SegmentBuilt b) (v : Bool) : SegmentBuilt (SegmentBuilder.unbounded b v)
  | unboundedContextKind {b : Segment} (h : SegmentBuilt b) (k : String) :
      SegmentBuilt (SegmentBuilder.unboundedContextKind b k)
  | generation {b : Segment} (h : SegmentBuilt b) (g : Int) (hg : IntOK g) :
      SegmentBuilt (SegmentBuilder.generation b g)

theorem SegmentBuilt.wf {s : Segment} (h : SegmentBuilt s) : SegmentWf s := by
  induction h with
  | new key =>
    exact ⟨rfl, fun _ h => (by cases h), fun _ h => (by cases h), fun _ h => (by cases h), intOK_zero,
      optIntOK_none⟩
  | addRule _ r hr ih =>
    exact ⟨ih.pre, ih.includedContexts, ih.excludedContexts, forall_mem_append_singleton ih.rules hr.wf,
      ih.version, ih.generation⟩
  | excluded _ keys ih => exact ⟨ih.pre, ih.includedContexts, ih.excludedContexts, ih.rules, ih.version, ih.generation⟩
  | included _ keys ih => exact ⟨ih.pre, ih.includedContexts, ih.excludedContexts, ih.rules, ih.version, ih.generation⟩
  | includedContextKind _ kind keys ih =>
    exact ⟨ih.pre, forall_mem_append_singleton ih.includedContexts rfl, ih.excludedContexts, ih.rules,
      ih.version, ih.generation⟩
  | excludedContextKind _ kind keys ih =>
    exact ⟨ih.pre, ih.includedContexts, forall_mem_append_singleton ih.excludedContexts rfl, ih.rules,
      ih.version, ih.generation⟩
  | version _ v hv ih => exact ⟨ih.pre, ih.includedContexts, ih.excludedContexts, ih.rules, hv, ih.generation⟩
  | salt _ v ih => exact ⟨ih.pre, ih.includedContexts, ih.excludedContexts, ih.rules, ih.version, ih.generation⟩
  | unbounded _ v ih => exact ⟨ih.pre, ih.includedContexts, ih.excludedContexts, ih.rules, ih.version, ih.generation⟩
  | unboundedContextKind _ k ih =>
    exact ⟨ih.pre, ih.includedContexts, ih.excludedContexts, ih.rules, ih.version, ih.generation⟩
  | generation _ g hg ih =>
    exact ⟨ih.pre, ih.includedContexts, ih.excludedContexts, ih.rules, ih.version, optIntOK_some hg⟩

/-- The round trip through the real decoder (read, then preprocess) for ANY preprocessed value the
schema can express (audit appendix B). -/
theorem expressible_roundtrip (rx : RegexOracle) (f : Flag) (h : FlagExpressible f) :
    Codec.decodeFlag rx (Codec.encodeFlag (preprocessFlag rx f)) = .ok (preprocessFlag rx f) := by
  rw [encodeFlag_preprocess]; unfold decodeFlag
  rw [flag_roundtrip_exact f h.wf h.fallthrough h.rules]; rfl

/-- **C15, builder half (flags).**  For every flag built with `ldbuilders` from parts the wire
schema can express, `decode(encode(Build()))` is `Build()` itself — every exported field and every
preprocessed lookup table — through the model's decoder and through each public entry point:
whatever any of the four encode paths writes, the serialization object and the encoding/json hook
decode without error to exactly the built flag. -/
theorem builder_roundtrip (rx : RegexOracle) (b : Flag) (h : FlagBuilt b) :
    Codec.decodeFlag rx (Codec.encodeFlag (FlagBuilder.build rx b)) = .ok (FlagBuilder.build rx b) :=
  expressible_roundtrip rx b h.expressible

theorem builder_roundtrip_entry (rx : RegexOracle) (pv : Entry.Partial) (dest : Flag) (b : Flag)
    (h : FlagBuilt b) :
    ∀ doc ∈ (Entry.Serialization.marshalFeatureFlag (FlagBuilder.build rx b)).value,
      Entry.Serialization.unmarshalFeatureFlag rx pv doc = ⟨FlagBuilder.build rx b, false⟩ ∧
      Entry.FeatureFlag.unmarshalJSON rx pv dest doc = ⟨FlagBuilder.build rx b, false⟩ := by
  intro doc hdoc
  have : doc = Codec.encodeFlag (FlagBuilder.build rx b) := by
    simpa [Entry.Serialization.marshalFeatureFlag, Entry.marshalFeatureFlag,
      Entry.marshalFeatureFlagToWriter, Entry.Writer.new] using hdoc
  subst this
  unfold Entry.Serialization.unmarshalFeatureFlag
  rw [Entry.hook_eq, Entry.fromBytes_eq, builder_roundtrip rx b h]
  exact ⟨rfl, rfl⟩

/-- **C15, builder half (segments).** -/
theorem segment_builder_roundtrip (rx : RegexOracle) (b : Segment) (h : SegmentBuilt b) :
    Codec.decodeSegment rx (Codec.encodeSegment (SegmentBuilder.build rx b)) =
      .ok (SegmentBuilder.build rx b) := by
  unfold SegmentBuilder.build
  rw [encodeSegment_preprocess]; unfold decodeSegment
  rw [segment_roundtrip b h.wf]; rfl

theorem segment_builder_roundtrip_entry (rx : RegexOracle) (pv : Entry.Partial) (dest : Segment)
    (b : Segment) (h : SegmentBuilt b) :
    ∀ doc ∈ (Entry.Serialization.marshalSegment (SegmentBuilder.build rx b)).value,
      Entry.Serialization.unmarshalSegment rx pv doc = ⟨SegmentBuilder.build rx b, false⟩ ∧
      Entry.Segment.unmarshalJSON rx pv dest doc = ⟨SegmentBuilder.build rx b, false⟩ := by
  intro doc hdoc
  have : doc = Codec.encodeSegment (SegmentBuilder.build rx b) := by
    simpa [Entry.Serialization.marshalSegment, Entry.marshalSegment,
      Entry.marshalSegmentToWriter, Entry.Writer.new] using hdoc
  subst this
  unfold Entry.Serialization.unmarshalSegment
  rw [Entry.seg_hook_eq, Entry.seg_fromBytes_eq, segment_builder_roundtrip rx b h]
  exact ⟨rfl, rfl⟩

/-- Builder outputs are what C14 calls preprocessed values of plain ones: the state before `Build()`
carries no lookup table (so "builders always preprocess", audit #49, holds of the builder model). -/
theorem builder_state_plain {b : Flag} (h : FlagBuilt b) : C14.PlainFlag b :=
  ⟨fun t ht => (h.expressible.wf.targets t ht).pre,
   fun r hr c hc => ((h.expressible.wf.rules r hr).clauses c hc).pre⟩

/-! #### What the builders can build but the wire schema cannot express (so the side conditions of
`ClauseBuilt`, `VRBuilt` are needed) -/

/-- `ldbuilders.Rollout()` without buckets has kind "rollout"; the encoder writes no "rollout"
member for a bucket-less rollout, so the kind is gone after a round trip.  (Go:
`NewFlagBuilder("f").Fallthrough(Rollout()).Build()` is not deeply equal to its re-decoding;
evaluation is unaffected, `evaluate_drop`.) -/
theorem rollout_without_buckets_not_expressible :
    (Codec.readFlag (Codec.encodeFlag (FlagBuilder.fallthrough (newFlagBuilder "f") (rollout [])))).toOption.map
        (·.fallthrough.rollout.kind) = some "" ∧
    (Flag.fallthrough (FlagBuilder.fallthrough (newFlagBuilder "f") (rollout []))).rollout.kind = "rollout" := by
  decide +kernel

/-- `ldbuilders.Clause("", …)` holds the invalid reference `NewLiteralRef("")` (defined, with an
error); it is written as `"attribute": ""` and read back as the UNDEFINED reference. -/
theorem empty_attribute_not_expressible :
    (Codec.readClauses [] (.arr [Codec.encClause (clause "" "in" [])])).toOption.map
        (fun cs => cs.map (·.attr)) = some [{}] ∧
    (clause "" "in" []).attr = { err := some .empty } := by
  decide +kernel

/-- `ClauseRef(NewRef("/a/b"), …)` — a two-component path WITHOUT a context kind — is written as
its first component `"a"` and read back as the literal name `a`. -/
theorem path_without_kind_not_expressible :
    (Codec.readClauses [] (.arr [Codec.encClause (clauseRef (Ref.newRef "/a/b") "in" [])])).toOption.map
        (fun cs => cs.map (·.attr.raw)) = some ["a"] ∧
    (clauseRef (Ref.newRef "/a/b") "in" []).attr.raw = "/a/b" := by
  decide +kernel

/-! #### Non-vacuity: a builder chain using most methods -/

def exBuilt : Flag :=
  newFlagBuilder "flag"
    |>.on true
    |>.variations [.bool false, .bool true, .str "x"]
    |>.offVariation 0
    |>.fallthrough (experiment (some 7) [bucket 0 40000, bucketUntracked 1 60000])
    |>.addPrerequisite "other" 1
    |>.addTarget 1 ["u1", "u2"]
    |>.addContextTarget "org" 2 ["o1"]
    |>.addRule (newRuleBuilder
        |>.id "r1"
        |>.clauses [clause "/weird~name" "in" [.str "a"], negate (clauseWithKind "org" "/weird~name" "in" [.num 3]),
                    clauseRefWithKind "org" (Ref.newRef "/addr/city") "startsWith" [.str "P"],
                    segmentMatchClause ["s1", "s2"]]
        |>.variationOrRollout (rollout [bucket 2 100000])
        |>.trackEvents true)
    |>.addRule (newRuleBuilder |>.variation 1)
    |>.clientSideUsingEnvironmentID true
    |>.debugEventsUntilDate 1700000000000
    |>.migrationFlagParameters (MigrationBuilder.build (MigrationBuilder.checkRatio newMigrationFlagParametersBuilder 5))
    |>.samplingRatio 10
    |>.excludeFromSummaries true
    |>.salt "salt"
    |>.version 12

theorem exBuilt_built : FlagBuilt exBuilt := by
  have ok : ∀ n : Int, -1000000 ≤ n → n ≤ 1000000 → IntOK n := intOK_small
  unfold exBuilt
  refine .version (.salt (.excludeFromSummaries (.samplingRatio (.migrationFlagParameters
    (.debugEventsUntilDate (.clientSideUsingEnvironmentID (.addRule (.addRule (.addContextTarget
    (.addTarget (.addPrerequisite (.fallthrough (.offVariation (.variations (.on (.new "flag") true)
      _ (by rfl)) 0 intOK_zero) _ ?ft) "other" 1 (ok _ (by decide) (by decide)))
      1 _ (ok _ (by decide) (by decide))) "org" 2 _ (ok _ (by decide) (by decide)))
      _ ?r1) _ ?r2) true) _ (debug_ok_of_lt _ (by decide))) _ (optIntOK_some (ok _ (by decide) (by decide))))
      10 (ok _ (by decide) (by decide))) true) "salt") 12 (ok _ (by decide) (by decide))
  case ft =>
    refine .experiment _ (optIntOK_some (ok _ (by decide) (by decide))) _ (by simp) ?_
    intro w hw
    simp at hw
    rcases hw with rfl | rfl
    · exact .bucket _ _ intOK_zero (ok _ (by decide) (by decide))
    · exact .bucketUntracked _ _ (ok _ (by decide) (by decide)) (ok _ (by decide) (by decide))
  case r1 =>
    refine .trackEvents (.variationOrRollout (.clauses (.id .new "r1") _ ?_) _ ?_) true
    · intro c hc
      simp at hc
      rcases hc with rfl | rfl | rfl | rfl
      · exact .clause _ _ _ (by decide) rfl
      · exact .negate (.clauseWithKind _ _ _ _ (by decide) rfl)
      · exact .clauseRefWithKind _ _ _ _ (decoded_newRef _ _ (by decide) (by decide)) rfl
      · exact .segmentMatch _
    · refine .rollout _ (by simp) ?_
      intro w hw
      simp at hw
      subst hw
      exact .bucket _ _ (ok _ (by decide) (by decide)) (ok _ (by decide) (by decide))
  case r2 => exact .variation .new 1 (ok _ (by decide) (by decide))

/-- The hypotheses of `builder_roundtrip` are satisfiable by a non-trivial builder chain. -/
example (rx : RegexOracle) :
    Codec.decodeFlag rx (Codec.encodeFlag (FlagBuilder.build rx exBuilt)) = .ok (FlagBuilder.build rx exBuilt) :=
  builder_roundtrip rx exBuilt exBuilt_built

def exBuiltSegment : Segment :=
  newSegmentBuilder "seg"
    |>.included ["a", "b"]
    |>.excluded ["c"]
    |>.includedContextKind "org" ["o1"]
    |>.excludedContextKind "org" []
    |>.addRule (newSegmentRuleBuilder
        |>.id "sr"
        |>.clauses [clause "email" "endsWith" [.str "@x.com"]]
        |>.weight 30000
        |>.bucketBy "/lit"
        |>.rolloutContextKind "org")
    |>.unbounded true
    |>.unboundedContextKind "org"
    |>.generation 3
    |>.salt "s"
    |>.version 4

theorem exBuiltSegment_built : SegmentBuilt exBuiltSegment := by
  have ok : ∀ n : Int, -1000000 ≤ n → n ≤ 1000000 → IntOK n := intOK_small
  unfold exBuiltSegment
  refine .version (.salt (.generation (.unboundedContextKind (.unbounded (.addRule (.excludedContextKind
    (.includedContextKind (.excluded (.included (.new "seg") _) _) "org" _) "org" _) _ ?r) true) "org")
    3 (ok _ (by decide) (by decide))) "s") 4 (ok _ (by decide) (by decide))
  refine .rolloutContextKind (.bucketBy (.weight (.clauses (.id .new "sr") _ ?_) 30000
    (ok _ (by decide) (by decide))) "/lit" (by decide)) "org" (decoded_newLiteral_any "/lit" "org" (by decide))
  intro c hc
  simp at hc
  subst hc
  exact .clause _ _ _ (by decide) rfl

example (rx : RegexOracle) :
    Codec.decodeSegment rx (Codec.encodeSegment (SegmentBuilder.build rx exBuiltSegment)) =
      .ok (SegmentBuilder.build rx exBuiltSegment) :=
  segment_builder_roundtrip rx exBuiltSegment exBuiltSegment_built


/-! ### #53, #51: the second step through the real decoder; the debug-date hypothesis -/

/-- **One step reaches the fixed point, through `decodeFlag`** (read + preprocess): for a decoded
flag `g`, `g' = dropEmptyRollouts g` has the same canonical JSON as `g` and decodes from it to
itself. -/
theorem decodeFlag_fixed_point (rx : RegexOracle) (doc : J) (g : Flag) (h : Codec.decodeFlag rx doc = .ok g)
    (hdebug : Codec.goUint64 (Codec.natToF64 g.fmeta.debugEventsUntilDate) = g.fmeta.debugEventsUntilDate) :
    Codec.encodeFlag (dropEmptyRollouts g) = Codec.encodeFlag g ∧
    Codec.decodeFlag rx (Codec.encodeFlag (dropEmptyRollouts g)) = .ok (dropEmptyRollouts g) := by
  refine ⟨encodeFlag_drop g, ?_⟩
  rw [encodeFlag_drop]; exact decodeFlag_roundtrip rx doc g h hdebug

/-- The debug-date hypothesis of the round-trip theorems is discharged for every decoded flag whose
`debugEventsUntilDate` is below 2^53 ms (any real date). -/
theorem decodeFlag_roundtrip_of_lt (rx : RegexOracle) (doc : J) (g : Flag) (h : Codec.decodeFlag rx doc = .ok g)
    (hlt : g.fmeta.debugEventsUntilDate < 2 ^ 53) :
    Codec.decodeFlag rx (Codec.encodeFlag g) = .ok (dropEmptyRollouts g) ∧
    Codec.decodeFlag rx (Codec.encodeFlag (dropEmptyRollouts g)) = .ok (dropEmptyRollouts g) :=
  ⟨decodeFlag_roundtrip rx doc g h (debug_ok_of_lt _ hlt),
   (decodeFlag_fixed_point rx doc g h (debug_ok_of_lt _ hlt)).2⟩

/-- The round trip stated on the public entry points: a flag obtained without error from the
serialization object, marshalled by it and unmarshalled again (under any half-built-value oracle)
comes back without error as `dropEmptyRollouts g`, which evaluates like `g` (`evaluate_drop`). -/
theorem entry_roundtrip (rx : RegexOracle) (pv pv' : Entry.Partial) (doc : J) (g : Flag)
    (h : Entry.Serialization.unmarshalFeatureFlag rx pv doc = ⟨g, false⟩)
    (hdebug : Codec.goUint64 (Codec.natToF64 g.fmeta.debugEventsUntilDate) = g.fmeta.debugEventsUntilDate) :
    ∀ d ∈ (Entry.Serialization.marshalFeatureFlag g).value,
      Entry.Serialization.unmarshalFeatureFlag rx pv' d = ⟨dropEmptyRollouts g, false⟩ ∧
      ∀ env, evaluate env (dropEmptyRollouts g) = evaluate env g := by
  intro d hd
  have hd' : d = Codec.encodeFlag g := by
    simpa [Entry.Serialization.marshalFeatureFlag, Entry.marshalFeatureFlag,
      Entry.marshalFeatureFlagToWriter, Entry.Writer.new] using hd
  subst hd'
  have hg : Codec.decodeFlag rx doc = .ok g := by
    unfold Entry.Serialization.unmarshalFeatureFlag at h
    rw [Entry.fromBytes_eq] at h
    cases hdoc : Codec.decodeFlag rx doc with
    | error e => rw [hdoc] at h; cases h
    | ok g' => rw [hdoc] at h; cases h; rfl
  refine ⟨?_, fun env => evaluate_drop env g⟩
  unfold Entry.Serialization.unmarshalFeatureFlag
  rw [Entry.fromBytes_eq, decodeFlag_roundtrip rx doc g hg hdebug]

#print axioms unescape_escapeLit
#print axioms escapeLit_no_slash
#print axioms newRef_newLiteral_raw
#print axioms decoded_newLiteral_any
#print axioms valuesOK_strs
#print axioms ClauseBuilt.wf
#print axioms BucketBuilt.wf
#print axioms noStale_empty
#print axioms VRBuilt.wf
#print axioms RuleBuilt.wf
#print axioms optIntOK_some
#print axioms optIntOK_none
#print axioms forall_mem_append_singleton
#print axioms FlagBuilt.expressible
#print axioms SegRuleBuilt.wf
#print axioms SegmentBuilt.wf
#print axioms expressible_roundtrip
#print axioms builder_roundtrip
#print axioms builder_roundtrip_entry
#print axioms segment_builder_roundtrip
#print axioms segment_builder_roundtrip_entry
#print axioms builder_state_plain
#print axioms rollout_without_buckets_not_expressible
#print axioms empty_attribute_not_expressible
#print axioms path_without_kind_not_expressible
#print axioms exBuilt_built
#print axioms exBuiltSegment_built
#print axioms decodeFlag_fixed_point
#print axioms decodeFlag_roundtrip_of_lt
#print axioms entry_roundtrip

end LD.C15

/-
  C01 — Evaluation is total and every result is well-formed.

  "For every flag configuration (including malformed data …), every context and every data-store
  content, evaluating a non-nil flag terminates without panicking. The result is either a
  variation index that is in range together with exactly that variation's value and a non-error
  reason, or no index with a null value and a reason that is an error (MALFORMED_FLAG …,
  USER_NOT_SPECIFIED for an invalid context, never any other error kind) or, only when the flag
  defines no off variation, OFF / PREREQUISITE_FAILED. An invalid or uninitialized context always
  yields USER_NOT_SPECIFIED without consulting the data store."

  Statements only; proofs by appeal to LDEval/Proofs/{WellFormed,EvalWF,Total}.lean.
  The model has no partial operation (every list access is total by construction and returns the
  in-range element exactly when the Go bounds check passes), so "does not panic" is: the model's
  only abnormal outcome, running out of recursion fuel, is unreachable.
-/
import LDEval.Proofs.Total

namespace LD.C01

/-- Evaluation terminates for every flag, context and store: the fuel `(#distinct own keys of the
stored items)+2` is never exhausted, whatever the prerequisite and segment reference graphs look
like — and whatever lookup keys the data provider files its items under (`Store` is an arbitrary
association list: the item returned for lookup key `k` need not have `k` as its own key). -/
theorem total (env : Env) (f : Flag) : (evaluate env f).outcome = .done :=
  evaluate_total env f

/-- Every result is well-formed (the trichotomy of the property statement), for all inputs. -/
theorem wellformed (env : Env) (f : Flag) : WellFormed f (evaluate env f).result.detail :=
  evaluate_wellformed env f

/-- An error result is MALFORMED_FLAG or USER_NOT_SPECIFIED, never any other kind. -/
theorem error_kinds (env : Env) (f : Flag)
    (he : (evaluate env f).result.detail.reason.kind = .error) :
    (evaluate env f).result.detail.reason.errorKind = some .malformedFlag ∨
    (evaluate env f).result.detail.reason.errorKind = some .userNotSpecified :=
  evaluate_error_kinds_total env f he

/-- In particular the bare segment-cycle error (whose Go type has no `errorKind` and would map to
EXCEPTION) never reaches the caller. -/
theorem never_exception (env : Env) (f : Flag) :
    (evaluate env f).result.detail.reason.errorKind ≠ some .exception :=
  evaluate_never_exception env f

/-- USER_NOT_SPECIFIED is reported exactly for invalid contexts. -/
theorem userNotSpecified_iff (env : Env) (f : Flag) :
    (evaluate env f).result.detail.reason.errorKind = some .userNotSpecified ↔ env.ctx = .invalid :=
  evaluate_userNotSpecified_iff_total env f

/-- An aborted (nested) evaluation is always MALFORMED_FLAG with no index and a null value. -/
theorem abort_is_malformed {sf n env f chain st d st'}
    (h : evalFlag sf n env f chain st = (.done d false, st')) :
    d.reason = Reason.error .malformedFlag ∧ d.index = none ∧ d.value = .null :=
  LD.abort_is_malformed h

/-- An invalid or uninitialised context yields USER_NOT_SPECIFIED, and nothing at all is consulted:
no store lookup, no big-segment query, no event, no log line. -/
theorem invalid_ctx (env : Env) (f : Flag) (h : env.ctx = .invalid) :
    let o := evaluate env f
    o.result.detail.reason = Reason.error .userNotSpecified ∧ o.result.detail.index = none ∧
    o.result.detail.value = .null ∧ o.result.isExperiment = false ∧
    o.flagLookups = [] ∧ o.segLookups = [] ∧ o.bsQueries = [] ∧ o.memChecks = [] ∧
    o.events = [] ∧ o.logs = [] ∧ o.outcome = .done := by
  simp [evaluate, h, Detail.forError, Reason.error]

-- Non-vacuity: the three branches of `WellFormed` are all inhabited.
example : WellFormed { key := "f", variations := [.bool true] }
    { value := .bool true, index := some 0, reason := Reason.fallthrough } := by
  left; exact ⟨0, rfl, by simp, rfl, by simp [Reason.fallthrough], rfl⟩
example : WellFormed { key := "f" } (Detail.forError .malformedFlag) := wf_forError_malformed _
example : WellFormed { key := "f" } { reason := Reason.off } := by
  right; right; simp [Reason.off]

-- Non-vacuity for INCONSISTENT data providers: the store answers the lookup `"gate"` with a flag whose
-- own key is `"gate-v2"`, which is on and itself has a prerequisite on `"gate"`.  The path is built
-- from own keys, so the second answer is recognised as a re-entry: the evaluation finishes with
-- MALFORMED_FLAG after exactly two lookups.
def gateV2 : Flag :=
  { key := "gate-v2", on := true, prerequisites := [⟨"gate", 0⟩],
    fallthrough := { variation := some 0 }, variations := [.bool true] }
def feature : Flag :=
  { key := "feature", on := true, prerequisites := [⟨"gate", 0⟩],
    fallthrough := { variation := some 0 }, variations := [.bool true] }
def aliasEnv : Env :=
  { opts := {}, store := { flags := [("gate", gateV2)] }, bs := none,
    ctx := .single { kind := "user", key := "u" }, rx := fun _ _ => none }

example : (aliasEnv.store.findFlag "gate").map (·.key) = some "gate-v2" := by decide

example :
    (evaluate aliasEnv feature).outcome = .done ∧
    (evaluate aliasEnv feature).result.detail.reason = Reason.error .malformedFlag ∧
    (evaluate aliasEnv feature).result.detail.index = none ∧
    (evaluate aliasEnv feature).flagLookups = ["gate", "gate"] := by decide

end LD.C01

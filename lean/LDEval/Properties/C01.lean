/-
  C01 — Evaluation is total and every result is well-formed.

  "For every flag configuration (including malformed data …), every context and every data-store
  content, evaluating a non-nil flag terminates without panicking. The result is either a
  variation index that is in range together with exactly that variation's value and a non-error
  reason, or no index with a null value and a reason that is an error (MALFORMED_FLAG …,
  USER_NOT_SPECIFIED for an invalid context, never any other error kind) or, only when the flag
  defines no off variation, OFF / PREREQUISITE_FAILED. An invalid or uninitialized context always
  yields USER_NOT_SPECIFIED without consulting the data store."

  Statements only; proofs by appeal to LDEval/Proofs/{WellFormed,EvalWF,Total}.lean.
  The model has no partial operation (every list access is total by construction and returns the
  in-range element exactly when the Go bounds check passes), so "does not panic" is: the model's
  only abnormal outcome, running out of recursion fuel, is unreachable.
-/
import LDEval.Proofs.Total
import LDEval.Proofs.AuditGuard
import LDEval.Proofs.AuditClean

namespace LD.C01

/-- Evaluation terminates for every flag, context and store: the fuel `(#distinct own keys of the
stored items)+2` is never exhausted, whatever the prerequisite and segment reference graphs look
like — and whatever lookup keys the data provider files its items under (`Store` is an arbitrary
association list: the item returned for lookup key `k` need not have `k` as its own key). -/
theorem total (env : Env) (f : Flag) : (evaluate env f).outcome = .done :=
  evaluate_total env f

/-- Every result is well-formed (the trichotomy of the property statement), for all inputs. -/
theorem wellformed (env : Env) (f : Flag) : WellFormed f (evaluate env f).result.detail :=
  evaluate_wellformed env f

/-- An error result is MALFORMED_FLAG or USER_NOT_SPECIFIED, never any other kind. -/
theorem error_kinds (env : Env) (f : Flag)
    (he : (evaluate env f).result.detail.reason.kind = .error) :
    (evaluate env f).result.detail.reason.errorKind = some .malformedFlag ∨
    (evaluate env f).result.detail.reason.errorKind = some .userNotSpecified :=
  evaluate_error_kinds_total env f he

/-- In particular the bare segment-cycle error (whose Go type has no `errorKind` and would map to
EXCEPTION) never reaches the caller. -/
theorem never_exception (env : Env) (f : Flag) :
    (evaluate env f).result.detail.reason.errorKind ≠ some .exception :=
  evaluate_never_exception env f

/-- USER_NOT_SPECIFIED is reported exactly for invalid contexts. -/
theorem userNotSpecified_iff (env : Env) (f : Flag) :
    (evaluate env f).result.detail.reason.errorKind = some .userNotSpecified ↔ env.ctx = .invalid :=
  evaluate_userNotSpecified_iff_total env f

/-- An aborted (nested) evaluation is always MALFORMED_FLAG with no index and a null value. -/
theorem abort_is_malformed {sf n env f chain st d st'}
    (h : evalFlag sf n env f chain st = (.done d false, st')) :
    d.reason = Reason.error .malformedFlag ∧ d.index = none ∧ d.value = .null :=
  LD.abort_is_malformed h

/-- An invalid or uninitialised context yields USER_NOT_SPECIFIED, and nothing at all is consulted:
no store lookup, no big-segment query, no event, no log line. -/
theorem invalid_ctx (env : Env) (f : Flag) (h : env.ctx = .invalid) :
    let o := evaluate env f
    o.result.detail.reason = Reason.error .userNotSpecified ∧ o.result.detail.index = none ∧
    o.result.detail.value = .null ∧ o.result.isExperiment = false ∧
    o.flagLookups = [] ∧ o.segLookups = [] ∧ o.bsQueries = [] ∧ o.memChecks = [] ∧
    o.events = [] ∧ o.logs = [] ∧ o.outcome = .done := by
  simp [evaluate, h, Detail.forError, Reason.error]

-- Non-vacuity: the three branches of `WellFormed` are all inhabited.
example : WellFormed { key := "f", variations := [.bool true] }
    { value := .bool true, index := some 0, reason := Reason.fallthrough } := by
  left; exact ⟨0, rfl, by simp, rfl, by simp [Reason.fallthrough], rfl⟩
example : WellFormed { key := "f" } (Detail.forError .malformedFlag) := wf_forError_malformed _
example : WellFormed { key := "f" } { reason := Reason.off } := by
  right; right; simp [Reason.off]

-- Non-vacuity for INCONSISTENT data providers: the store answers the lookup `"gate"` with a flag whose
-- own key is `"gate-v2"`, which is on and itself has a prerequisite on `"gate"`.  The path is built
-- from own keys, so the second answer is recognised as a re-entry: the evaluation finishes with
-- MALFORMED_FLAG after exactly two lookups.
def gateV2 : Flag :=
  { key := "gate-v2", on := true, prerequisites := [⟨"gate", 0⟩],
    fallthrough := { variation := some 0 }, variations := [.bool true] }
def feature : Flag :=
  { key := "feature", on := true, prerequisites := [⟨"gate", 0⟩],
    fallthrough := { variation := some 0 }, variations := [.bool true] }
def aliasEnv : Env :=
  { opts := {}, store := { flags := [("gate", gateV2)] }, bs := none,
    ctx := .single { kind := "user", key := "u" }, rx := fun _ _ => none }

example : (aliasEnv.store.findFlag "gate").map (·.key) = some "gate-v2" := by decide

example :
    (evaluate aliasEnv feature).outcome = .done ∧
    (evaluate aliasEnv feature).result.detail.reason = Reason.error .malformedFlag ∧
    (evaluate aliasEnv feature).result.detail.index = none ∧
    (evaluate aliasEnv feature).flagLookups = ["gate", "gate"] := by decide

/-! ## Strengthened statements (theorem audit) -/

/-! ### #1 — guardedness: no defaulting accessor ever returns its default

The model cannot express a Go `panic` (`Outcome` has no such constructor, and it may not be changed
here).  What can be said instead — and is what "does not panic" amounts to for index expressions —
is that every place where the model uses a total accessor with a default on behalf of a Go index /
slice / last-element expression is GUARDED: on every path that reaches it the index is in range, so
the accessor returns the genuine element.  `Proofs/AuditGuard.lean` proves this site by site (with the
Go line of each bounds check); `no_default_reached` collects the sites.  A Go change that weakens one
of the checks (e.g. `index > len` for `index >= len` in `getVariation`) now has a model counterpart —
the corresponding field of `NoDefaultReached` becomes false for the mirrored model. -/

/-- **No default is reached.**  For every environment and flag: `getVariation` returns the genuine
`Variations[index]` or fails its bounds check; the value next to a returned index is that element; the
last bucket is taken from a non-empty list only; the rule looked up by `isExperiment` exists, for the
final result and for every prerequisite event; the 15-character hash prefix is in range and parses;
the operator loop hands only in-range indices to the clause-value accessors; the big-segment
reference is built only behind the generation check; and the buffer copy stays inside the grown
buffer. -/
theorem no_default_reached (env : Env) (f : Flag) : NoDefaultReached env f :=
  noDefaultReached env f

/-- `getVariation` in the form "a result with an index was not produced by a default": the index is
the one asked for, it is within bounds, the value is `Variations[index]` and the reason is untouched
(evaluator.go:248, 253). -/
theorem getVariation_index_in_range {env : Env} {f : Flag} {i : Int} {r : Reason} {st : St} {j : Int}
    (h : (getVariation env f i r st).1.index = some j) :
    j = i ∧ 0 ≤ i ∧ ∃ hlt : i.toNat < f.variations.length,
      (getVariation env f i r st).1.value = f.variations[i.toNat] ∧
      (getVariation env f i r st).1.reason = r :=
  getVariation_index_some h

/-- The fall-back to the last bucket (evaluator.go:363) reads `Variations[len-1]` of a NON-EMPTY list:
when there is no fixed variation, the list is non-empty, bucketing succeeds and the threshold scan
finds nothing, the result is built from exactly that element. -/
theorem last_bucket_in_range {env : Env} {vr : VariationOrRollout} {key salt : String}
    (hv : vr.variation = none) (hne : vr.rollout.variations ≠ []) {bucket : Rat} {fail : BucketFail}
    (hb : computeBucket env.opts.secondaryKey env.ctx vr.rollout.isExperiment vr.rollout.seed
      vr.rollout.contextKind key vr.rollout.bucketBy salt = .ok (bucket, fail))
    (hscan : rolloutScan bucket vr.rollout.isExperiment (fail == .contextLacksKind)
      vr.rollout.variations 0 = none) :
    ∃ h : vr.rollout.variations.length - 1 < vr.rollout.variations.length,
      variationOrRollout env vr key salt =
        .ok ((vr.rollout.variations[vr.rollout.variations.length - 1]).variation,
          vr.rollout.isExperiment &&
            !(vr.rollout.variations[vr.rollout.variations.length - 1]).untracked &&
            !(fail == .contextLacksKind)) :=
  variationOrRollout_last_guarded hv hne hb hscan

-- Non-vacuity of `getVariation_index_in_range`: an in-range call on a two-variation flag.
example : (getVariation aliasEnv { key := "f", variations := [.bool true, .str "x"] } 1
    Reason.fallthrough {}).1.index = some 1 := by decide

-- Non-vacuity of `last_bucket_in_range`: weights that do not add up to 100000 and a context without
-- the rollout's kind (bucket 0 is not below the zero weights), so the scan finds nothing and the last
-- bucket is used.
example :
    let vr : VariationOrRollout :=
      { rollout := { contextKind := "org", variations := [⟨0, 0, false⟩, ⟨1, 0, false⟩] } }
    vr.variation = none ∧ vr.rollout.variations ≠ [] ∧
    computeBucket aliasEnv.opts.secondaryKey aliasEnv.ctx vr.rollout.isExperiment vr.rollout.seed
      vr.rollout.contextKind "k" vr.rollout.bucketBy "s" = .ok (0, .contextLacksKind) := by
  refine ⟨rfl, by simp, by decide⟩

/-! ### #2 — the fields of the reason are coherent -/

/-- **Reason coherence.**  The reason `evaluate` returns has fields that fit its kind: RULE_MATCH
carries the non-negative index of an existing rule of the flag and that rule's id;
PREREQUISITE_FAILED carries the key of one of the flag's listed prerequisites; `errorKind` is present
exactly for ERROR; every kind other than RULE_MATCH has rule index −1 and an empty rule id; every kind
other than PREREQUISITE_FAILED has an empty prerequisite key; `inExperiment` is set only on
FALLTHROUGH / RULE_MATCH.  For the Go code: `NewEvalReasonRuleMatch(ruleIndex, rule.ID)` is called
with the loop's own index and rule, and no other constructor fills those fields. -/
theorem reason_coherent (env : Env) (f : Flag) :
    let r := (evaluate env f).result.detail.reason
    (r.kind = .ruleMatch →
      0 ≤ r.ruleIndex ∧ ∃ rule, f.rules[r.ruleIndex.toNat]? = some rule ∧ r.ruleId = rule.id) ∧
    (r.kind = .prereqFailed → ∃ p ∈ f.prerequisites, p.key = r.prereqKey) ∧
    (r.kind = .error ↔ r.errorKind.isSome = true) ∧
    (r.kind ≠ .ruleMatch → r.ruleIndex = -1 ∧ r.ruleId = "") ∧
    (r.kind ≠ .prereqFailed → r.prereqKey = "") ∧
    (r.inExperiment = true → r.kind = .fallthrough ∨ r.kind = .ruleMatch) := by
  have h := evaluate_reason_coherent env f
  exact ⟨h.ruleMatch, h.prereqFailed, h.error, h.noRule, h.noPrereq, h.inExp⟩

/-- The same for the result carried by every recorded prerequisite event, relative to the
prerequisite flag `pf` that the store returned (the event's `prereqKey` is `pf`'s own key), together
with the fact that the event's `IsExperiment` was computed from that reason and that flag. -/
theorem event_reason_coherent (env : Env) (f : Flag) :
    ∀ e ∈ (evaluate env f).events, ∃ pf ∈ env.store.flags.map (·.2),
      e.prereqKey = pf.key ∧ ReasonCoherent pf e.result.detail.reason ∧
      e.result.isExperiment = isExperimentResult pf e.result.detail.reason :=
  evaluate_events_reason_coherent env f

/-- The statement holds at every nesting depth: any completed evaluation of the specification. -/
theorem reason_coherent_nested {sf n : Nat} {env : Env} {f : Flag} {chain : List String} {d : Detail}
    {ok : Bool} (h : Spec.evalFlag sf n env f chain = some (d, ok)) : ReasonCoherent f d.reason :=
  coh_spec_evalFlag h

/-- A flag whose SECOND rule matches (the first tests a different key). -/
def twoRules : Flag :=
  { key := "two", on := true, variations := [.bool false, .bool true],
    fallthrough := { variation := some 0 },
    rules := [
      { id := "first", vr := { variation := some 0 },
        clauses := [{ attr := { raw := "key", single := "key" }, op := "in", values := [.str "nobody"] }] },
      { id := "second", vr := { variation := some 1 }, trackEvents := true,
        clauses := [{ attr := { raw := "key", single := "key" }, op := "in", values := [.str "u"] }] }] }

-- Non-vacuity of the RULE_MATCH and PREREQUISITE_FAILED parts: both kinds occur, with exactly the
-- index / id / key the theorem describes.
example :
    (evaluate aliasEnv twoRules).result.detail.reason.kind = .ruleMatch ∧
    (evaluate aliasEnv twoRules).result.detail.reason.ruleIndex = 1 ∧
    (evaluate aliasEnv twoRules).result.detail.reason.ruleId = "second" ∧
    (evaluate aliasEnv twoRules).result.isExperiment = true := by decide

example :
    (evaluate { aliasEnv with store := {} } feature).result.detail.reason.kind = .prereqFailed ∧
    (evaluate { aliasEnv with store := {} } feature).result.detail.reason.prereqKey = "gate" ∧
    (evaluate { aliasEnv with store := {} } feature).result.detail.reason.ruleIndex = -1 := by decide

/-! ### #3 — clean data never yields an error -/

/-- **Clean data ⇒ no error.**  If the context is valid, the flag is clean (`CleanFlag`: off
variation, target variations, rule and fallthrough variations / rollout buckets all in range, no empty
rollout, every attribute and bucket-by reference well-formed), every stored flag and segment is clean,
and the prerequisite and segment reference graphs are acyclic (a rank on own keys strictly decreases
along every reference the store resolves), then `evaluate` returns no ERROR reason and no error kind.
This is the converse direction missing next to `error_kinds`: MALFORMED_FLAG is reported ONLY for bad
flag / segment data.  (Missing prerequisites or segments are not errors in the Go code and need not be
excluded.) -/
theorem clean_no_error (env : Env) (f : Flag) (frank srank : String → Nat)
    (hctx : env.ctx ≠ .invalid) (hst : CleanStore env.store frank srank) (hf : CleanFlag f)
    (hdesc : PrereqsDescend env.store frank f) :
    (evaluate env f).result.detail.reason.kind ≠ .error ∧
    (evaluate env f).result.detail.reason.errorKind = none :=
  evaluate_clean_no_error env f frank srank hctx hst hf hdesc

/-- … and the result then is an in-range variation with exactly its value, or (only when the flag has
no off variation) the null value with reason OFF / PREREQUISITE_FAILED. -/
theorem clean_result (env : Env) (f : Flag) (frank srank : String → Nat)
    (hctx : env.ctx ≠ .invalid) (hst : CleanStore env.store frank srank) (hf : CleanFlag f)
    (hdesc : PrereqsDescend env.store frank f) :
    (∃ j : Int, (evaluate env f).result.detail.index = some j ∧ 0 ≤ j ∧
      ∃ hlt : j.toNat < f.variations.length,
        (evaluate env f).result.detail.value = f.variations[j.toNat]) ∨
    ((evaluate env f).result.detail.index = none ∧ (evaluate env f).result.detail.value = .null ∧
      f.offVariation = none ∧
      ((evaluate env f).result.detail.reason.kind = .off ∨
        (evaluate env f).result.detail.reason.kind = .prereqFailed)) := by
  have hne := (clean_no_error env f frank srank hctx hst hf hdesc).1
  rcases wellformed env f with ⟨i, hi, _, _, _, _⟩ | ⟨_, _, hk, _⟩ | ⟨hn, hv, hoff, _, hk⟩
  · obtain ⟨h0, hlt, hval⟩ := evaluate_value_guarded env f i hi
    exact Or.inl ⟨i, hi, h0, hlt, hval⟩
  · exact absurd hk hne
  · exact Or.inr ⟨hn, hv, hoff, hk⟩

/-- No prerequisite event of an evaluation over a clean store carries an ERROR result. -/
theorem clean_events_no_error (env : Env) (f : Flag) (frank srank : String → Nat)
    (hst : CleanStore env.store frank srank) :
    ∀ e ∈ (evaluate env f).events, e.result.detail.reason.kind ≠ .error :=
  evaluate_clean_events_no_error env f frank srank hst

/-- Under the same hypotheses nested evaluations are never aborted and never erroneous, at any depth
and for any fuel (the statement on the specification that the two theorems above come from). -/
theorem clean_nested {env : Env} {frank srank : String → Nat}
    (hst : CleanStore env.store frank srank) (sf n : Nat) (f : Flag) (chain : List String)
    (hf : CleanFlag f) (hdesc : PrereqsDescend env.store frank f)
    (hchain : ∀ k ∈ chain, frank f.key < frank k) (d : Detail) (ok : Bool)
    (h : Spec.evalFlag sf n env f chain = some (d, ok)) : ok = true ∧ d.reason.kind ≠ .error :=
  spec_evalFlag_clean hst sf n f chain hf hdesc hchain d ok h

-- Non-vacuity of `clean_no_error`: a store with a prerequisite flag (one rule) and two segments, one
-- referring to the other, and a root flag with a prerequisite, a segment-match rule, a percentage
-- rollout as fallthrough and an off variation.

def keyRef : Ref := { raw := "key", single := "key" }

def cleanGate : Flag :=
  { key := "gate", on := true, variations := [.bool true, .bool false],
    fallthrough := { variation := some 1 },
    rules := [{ id := "g1", vr := { variation := some 0 },
                clauses := [{ attr := keyRef, op := "in", values := [.str "u"] }] }] }

def innerSeg : Segment :=
  { key := "inner",
    rules := [{ clauses := [{ attr := keyRef, op := "in", values := [.str "u"] }],
                weight := some 50000 }] }

def outerSeg : Segment :=
  { key := "outer", rules := [{ clauses := [{ op := "segmentMatch", values := [.str "inner"] }] }] }

def cleanRoot : Flag :=
  { key := "root", on := true, variations := [.str "a", .str "b"], offVariation := some 1,
    prerequisites := [⟨"gate", 0⟩],
    targets := [{ values := ["x"], variation := 0 }],
    rules := [{ id := "r1", vr := { variation := some 1 },
                clauses := [{ op := "segmentMatch", values := [.str "outer", .str "missing"] }] }],
    fallthrough := { rollout := { variations := [⟨0, 60000, false⟩, ⟨1, 40000, false⟩] } } }

def cleanEnv : Env :=
  { opts := {}, bs := none, ctx := .single { kind := "user", key := "u" }, rx := fun _ _ => none,
    store := { flags := [("gate", cleanGate)],
               segments := [("inner", innerSeg), ("outer", outerSeg)] } }

def frankEx (k : String) : Nat := if k = "root" then 1 else 0
def srankEx (k : String) : Nat := if k = "outer" then 1 else 0

theorem cleanClause_key (vs : List J) : CleanClause { attr := keyRef, op := "in", values := vs } :=
  Or.inr ⟨(by decide : keyRef.isDefined = true), (by decide : keyRef.errOf = none)⟩

theorem cleanGate_clean : CleanFlag cleanGate where
  off := by intro v h; cases h
  targets := by intro t h; cases h
  contextTargets := by intro t h; cases h
  rules := by
    intro r hr
    simp only [cleanGate, List.mem_singleton] at hr
    subst hr
    refine ⟨by simp [CleanVR, InRange, cleanGate], ?_⟩
    intro c hc
    simp only [List.mem_singleton] at hc
    subst hc
    exact cleanClause_key _
  fallthrough := by simp [CleanVR, InRange, cleanGate]

theorem cleanRoot_clean : CleanFlag cleanRoot where
  off := by intro v h; simp only [cleanRoot, Option.some.injEq] at h; subst h; simp [InRange, cleanRoot]
  targets := by
    intro t h
    simp only [cleanRoot, List.mem_singleton] at h
    subst h; simp [InRange, cleanRoot]
  contextTargets := by intro t h; cases h
  rules := by
    intro r hr
    simp only [cleanRoot, List.mem_singleton] at hr
    subst hr
    refine ⟨by simp [CleanVR, InRange, cleanRoot], ?_⟩
    intro c hc
    simp only [List.mem_singleton] at hc
    subst hc
    exact Or.inl (by decide)
  fallthrough := by
    simp only [CleanVR, cleanRoot]
    refine ⟨by simp, ?_, Or.inr (Or.inl (by decide))⟩
    intro wv hwv
    simp only [List.mem_cons, List.not_mem_nil, or_false] at hwv
    rcases hwv with rfl | rfl <;> simp [InRange]

theorem cleanEnv_store : CleanStore cleanEnv.store frankEx srankEx where
  flags := by
    intro pf hpf
    simp only [cleanEnv, List.map_cons, List.map_nil, List.mem_singleton] at hpf
    subst hpf
    exact ⟨cleanGate_clean, by intro p hp; cases hp⟩
  segments := by
    intro sg hsg
    simp only [cleanEnv, List.map_cons, List.map_nil, List.mem_cons, List.not_mem_nil,
      or_false] at hsg
    rcases hsg with rfl | rfl
    · refine ⟨⟨?_⟩, ?_⟩
      · intro r hr
        simp only [innerSeg, List.mem_singleton] at hr
        subst hr
        refine ⟨?_, fun _ => Or.inr (Or.inl (by decide))⟩
        intro c hc
        simp only [List.mem_singleton] at hc
        subst hc
        exact cleanClause_key _
      · intro r hr c hc hop
        simp only [innerSeg, List.mem_singleton] at hr
        subst hr
        simp only [List.mem_singleton] at hc
        subst hc
        exact absurd hop (by decide)
    · refine ⟨⟨?_⟩, ?_⟩
      · intro r hr
        simp only [outerSeg, List.mem_singleton] at hr
        subst hr
        refine ⟨?_, fun h => by cases h⟩
        intro c hc
        simp only [List.mem_singleton] at hc
        subst hc
        exact Or.inl (by decide)
      · intro r hr c hc _ k hk sg' hfind
        simp only [outerSeg, List.mem_singleton] at hr
        subst hr
        simp only [List.mem_singleton] at hc
        subst hc
        simp only [List.mem_singleton, J.str.injEq] at hk
        subst hk
        have : cleanEnv.store.findSegment "inner" = some innerSeg := rfl
        rw [this] at hfind
        cases hfind
        decide

theorem cleanRoot_descends : PrereqsDescend cleanEnv.store frankEx cleanRoot := by
  intro p hp pf hfind
  simp only [cleanRoot, List.mem_singleton] at hp
  subst hp
  have : cleanEnv.store.findFlag "gate" = some cleanGate := rfl
  rw [this] at hfind
  cases hfind
  decide

/-- The hypotheses of `clean_no_error` are satisfiable by a non-trivial world, and the conclusion
is then available without running the evaluator (the fallthrough is a hashed rollout). -/
example : (evaluate cleanEnv cleanRoot).result.detail.reason.kind ≠ .error :=
  (clean_no_error cleanEnv cleanRoot frankEx srankEx (by simp [cleanEnv]) cleanEnv_store
    cleanRoot_clean cleanRoot_descends).1

-- Each hypothesis matters: an out-of-range fallthrough, and a prerequisite cycle, do give ERROR.
example :
    (evaluate cleanEnv { cleanGate with fallthrough := { variation := some 7 }, rules := [] }
      ).result.detail.reason = Reason.error .malformedFlag := by decide

example : (evaluate aliasEnv feature).result.detail.reason.kind = .error := by decide

end LD.C01

#print axioms LD.C01.no_default_reached
#print axioms LD.C01.reason_coherent
#print axioms LD.C01.event_reason_coherent
#print axioms LD.C01.clean_no_error
#print axioms LD.C01.clean_result
#print axioms LD.C01.clean_events_no_error
#print axioms LD.C01.last_bucket_in_range

/-
  C01 — Evaluation is total and every result is well-formed.
  Statements only (proofs by appeal to LDEval/Proofs/*).
-/
import LDEval.Spec.WellFormed

namespace LD.C01

/-- An invalid or uninitialised context yields USER_NOT_SPECIFIED, and nothing at all is consulted:
no store lookup, no big-segment query, no event, no log line. -/
theorem invalid_ctx (env : Env) (f : Flag) (h : env.ctx = .invalid) :
    let o := evaluate env f
    o.result.detail.reason = Reason.error .userNotSpecified ∧ o.result.detail.index = none ∧
    o.result.detail.value = .null ∧ o.result.isExperiment = false ∧
    o.flagLookups = [] ∧ o.segLookups = [] ∧ o.bsQueries = [] ∧ o.memChecks = [] ∧
    o.events = [] ∧ o.logs = [] ∧ o.outcome = .done := by
  simp [evaluate, h, Detail.forError, isExperimentResult, Reason.error]

example : (evaluate { opts := {}, store := {}, bs := none, ctx := .invalid, rx := fun _ _ => none }
    { key := "f", on := true }).result.detail.reason.errorKind = some .userNotSpecified := by
  simp [evaluate, Detail.forError, Reason.error]

end LD.C01

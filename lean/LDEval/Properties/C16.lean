/-
  C16 — Encoded JSON keeps the wire schema.

  For every flag and segment value (nil/empty lists at every nesting level, negative numbers, any
  strings) the encoder output satisfies the wire schema `Schema.flagOK` / `Schema.segmentOK`: every
  legacy property is present with its schema type, every list is a JSON array (never null), and the
  only members that may be missing are the documented droppable ones.
-/
import LDEval.Spec.Schema
import LDEval.Proofs.AuditCodecEntry
import LDEval.Obligations.Expected

namespace LD.C16
open LD.Codec LD.Schema

/-! ### Helpers -/

@[simp] theorem hasTy_str (s : String) : hasTy .str (.str s) = true := rfl
@[simp] theorem hasTy_bool (b : Bool) : hasTy .bool (.bool b) = true := rfl
@[simp] theorem hasTy_num (q : Rat) : hasTy .num (.num q) = true := rfl
@[simp] theorem hasTy_numOrNull_num (q : Rat) : hasTy .numOrNull (.num q) = true := rfl
@[simp] theorem hasTy_numOrNull_null : hasTy .numOrNull .null = true := rfl
@[simp] theorem hasTy_arr (xs : List J) : hasTy .arr (.arr xs) = true := rfl
@[simp] theorem hasTy_obj (kvs : List (String × J)) : hasTy .obj (.obj kvs) = true := rfl
@[simp] theorem hasTy_jInt (n : Int) : hasTy .num (jInt n) = true := rfl
@[simp] theorem hasTy_jStrs (xs : List String) : hasTy .arr (jStrs xs) = true := rfl
@[simp] theorem hasTy_jOptInt (o : Option Int) : hasTy .numOrNull (jOptInt o) = true := by
  cases o <;> rfl
@[simp] theorem hasTy_writeAttrRef (r : Ref) (k : String) :
    hasTy .str (writeAttrRef r k) = true := by
  unfold writeAttrRef; split <;> rfl
@[simp] theorem hasTy_encTargets (ts : List Target) : hasTy .arr (encTargets ts) = true := rfl
@[simp] theorem hasTy_encSegTargets (ts : List SegmentTarget) :
    hasTy .arr (encSegTargets ts) = true := rfl

/-- An optional member block contributes its member exactly when its condition holds. -/
theorem lookup_maybe (c : Bool) (n : String) (v : J) (k : String) :
    (maybe c n v).lookup k = if c && (k == n) then some v else none := by
  cases c <;> cases h : k == n <;> simp [maybe, List.lookup, h]

/-- A mapped list is always encoded as an array, whose elements all satisfy `p` if every image
does — including the empty (nil) list. -/
theorem allArr_map {α} (xs : List α) (g : α → J) (p : J → Bool) (h : ∀ x, p (g x) = true) :
    allArr (.arr (xs.map g)) p = true := by
  simp [allArr, List.all_map, List.all_eq_true, h]

theorem jStrs_allStr (xs : List String) : allArr (jStrs xs) isStr = true :=
  allArr_map xs .str isStr (fun _ => rfl)

/-! ### Nested pieces -/

theorem clause_ok (c : Clause) : clauseOK (encClause c) = true := by
  simp only [clauseOK, encClause]
  generalize (c.contextKind != "") = b1
  generalize c.attr.isDefined = b2
  cases b1 <;> cases b2 <;> simp [req, opt, List.lookup_append, lookup_maybe, List.lookup]

theorem clauses_ok (cs : List Clause) : allArr (.arr (cs.map encClause)) clauseOK = true :=
  allArr_map cs encClause clauseOK clause_ok

/-- One weighted variation of a rollout, as `encVR` writes it. -/
def encWV (wv : WeightedVariation) : J :=
  .obj ([("variation", jInt wv.variation), ("weight", jInt wv.weight)] ++
        maybe wv.untracked "untracked" (.bool true))

theorem wv_ok (wv : WeightedVariation) : wvOK (encWV wv) = true := by
  simp only [wvOK, encWV]
  generalize wv.untracked = b1
  cases b1 <;> simp [req, opt, lookup_maybe, List.lookup]

/-- The rollout object, as `encVR` writes it. -/
def encRollout (r : Rollout) : J :=
  .obj (maybe (r.kind != "") "kind" (.str r.kind) ++
      maybe (r.contextKind != "") "contextKind" (.str r.contextKind) ++
      [("variations", .arr (r.variations.map encWV))] ++
      maybe r.seed.isSome "seed" (jInt (r.seed.getD 0)) ++
      maybe r.bucketBy.isDefined "bucketBy" (writeAttrRef r.bucketBy r.contextKind))

theorem encVR_eq (vr : VariationOrRollout) :
    encVR vr = maybe vr.variation.isSome "variation" (jInt (vr.variation.getD 0)) ++
      (if vr.rollout.variations.isEmpty then [] else [("rollout", encRollout vr.rollout)]) := rfl

theorem rollout_ok (r : Rollout) : rolloutOK (encRollout r) = true := by
  have h := allArr_map r.variations encWV wvOK wv_ok
  simp only [rolloutOK, encRollout]
  generalize (r.kind != "") = b1
  generalize (r.contextKind != "") = b2
  generalize r.seed.isSome = b3
  generalize r.bucketBy.isDefined = b4
  cases b1 <;> cases b2 <;> cases b3 <;> cases b4 <;>
    simp [req, opt, getD, List.lookup_append, lookup_maybe, List.lookup, h]

/-- What `encVR` contributes to an object: only "variation" and "rollout". -/
theorem lookup_encVR_variation (vr : VariationOrRollout) :
    (encVR vr).lookup "variation" =
      if vr.variation.isSome then some (jInt (vr.variation.getD 0)) else none := by
  rw [encVR_eq]
  cases vr.variation.isSome <;> cases vr.rollout.variations.isEmpty <;>
    simp [List.lookup_append, lookup_maybe, List.lookup]

theorem lookup_encVR_rollout (vr : VariationOrRollout) :
    (encVR vr).lookup "rollout" =
      if vr.rollout.variations.isEmpty then none else some (encRollout vr.rollout) := by
  rw [encVR_eq]
  cases vr.variation.isSome <;> cases vr.rollout.variations.isEmpty <;>
    simp [List.lookup_append, lookup_maybe, List.lookup]

theorem lookup_encVR_other (vr : VariationOrRollout) (k : String)
    (h1 : (k == "variation") = false) (h2 : (k == "rollout") = false) :
    (encVR vr).lookup k = none := by
  rw [encVR_eq]
  cases vr.variation.isSome <;> cases vr.rollout.variations.isEmpty <;>
    simp [List.lookup_append, lookup_maybe, List.lookup, h1, h2]

/-- The variation-or-rollout members are well-typed in any object they are spliced into (in front
of members with other names). -/
theorem vr_ok (vr : VariationOrRollout) (rest : List (String × J))
    (h1 : rest.lookup "variation" = none) (h2 : rest.lookup "rollout" = none) :
    vrOK (encVR vr ++ rest) = true := by
  simp only [vrOK, opt, List.lookup_append, lookup_encVR_variation, lookup_encVR_rollout, h1, h2]
  generalize vr.variation.isSome = b1
  generalize vr.rollout.variations.isEmpty = b2
  cases b1 <;> cases b2 <;> simp [rollout_ok]

theorem fallthrough_ok (vr : VariationOrRollout) : fallthroughOK (.obj (encVR vr)) = true := by
  have := vr_ok vr [] rfl rfl
  simpa [fallthroughOK] using this

def encPrereq (p : Prereq) : J := .obj [("key", .str p.key), ("variation", jInt p.variation)]

theorem prereq_ok (p : Prereq) : prereqOK (encPrereq p) = true := by
  simp [prereqOK, encPrereq, req, List.lookup]

def encTarget (t : Target) : J :=
  .obj (maybe (t.contextKind != "") "contextKind" (.str t.contextKind) ++
    [("variation", jInt t.variation), ("values", jStrs t.values)])

theorem encTargets_eq (ts : List Target) : encTargets ts = .arr (ts.map encTarget) := rfl

theorem target_ok (t : Target) : targetOK (encTarget t) = true := by
  have h := jStrs_allStr t.values
  simp only [targetOK, encTarget]
  generalize (t.contextKind != "") = b1
  cases b1 <;> simp [req, opt, getD, List.lookup_append, lookup_maybe, List.lookup, h]

theorem targets_ok (ts : List Target) : allArr (encTargets ts) targetOK = true :=
  allArr_map ts encTarget targetOK target_ok

/-- One flag rule, as `encodeFlag` writes it. -/
def encRule (r : FlagRule) : J :=
  .obj (encVR r.vr ++ maybe (r.id != "") "id" (.str r.id) ++
    [("clauses", .arr (r.clauses.map encClause)), ("trackEvents", .bool r.trackEvents)])

theorem rule_ok (r : FlagRule) : ruleOK (encRule r) = true := by
  have hc := clauses_ok r.clauses
  have hv : vrOK (encVR r.vr ++ (maybe (r.id != "") "id" (.str r.id) ++
      [("clauses", .arr (r.clauses.map encClause)), ("trackEvents", .bool r.trackEvents)])) = true := by
    apply vr_ok <;> generalize (r.id != "") = b <;> cases b <;>
      simp [List.lookup_append, lookup_maybe, List.lookup]
  simp only [ruleOK, encRule, List.append_assoc, hv]
  generalize (r.id != "") = b1
  cases b1 <;>
    simp [req, opt, getD, List.lookup_append, lookup_maybe, List.lookup, lookup_encVR_other, hc]

def encSegTarget (t : SegmentTarget) : J :=
  .obj (maybe (t.contextKind != "") "contextKind" (.str t.contextKind) ++
    [("values", jStrs t.values)])

theorem encSegTargets_eq (ts : List SegmentTarget) :
    encSegTargets ts = .arr (ts.map encSegTarget) := rfl

theorem segTarget_ok (t : SegmentTarget) : segTargetOK (encSegTarget t) = true := by
  have h := jStrs_allStr t.values
  simp only [segTargetOK, encSegTarget]
  generalize (t.contextKind != "") = b1
  cases b1 <;> simp [req, opt, getD, List.lookup_append, lookup_maybe, List.lookup, h]

theorem segTargets_ok (ts : List SegmentTarget) : allArr (encSegTargets ts) segTargetOK = true :=
  allArr_map ts encSegTarget segTargetOK segTarget_ok

/-- One segment rule, as `encodeSegment` writes it. -/
def encSegRule (r : SegmentRule) : J :=
  .obj ([("id", .str r.id), ("clauses", .arr (r.clauses.map encClause))] ++
    maybe r.weight.isSome "weight" (jInt (r.weight.getD 0)) ++
    maybe r.bucketBy.isDefined "bucketBy" (writeAttrRef r.bucketBy r.rolloutContextKind) ++
    maybe (r.rolloutContextKind != "") "rolloutContextKind" (.str r.rolloutContextKind))

theorem segRule_ok (r : SegmentRule) : segRuleOK (encSegRule r) = true := by
  have hc := clauses_ok r.clauses
  simp only [segRuleOK, encSegRule]
  generalize r.weight.isSome = b1
  generalize r.bucketBy.isDefined = b2
  generalize (r.rolloutContextKind != "") = b3
  cases b1 <;> cases b2 <;> cases b3 <;>
    simp [req, opt, getD, List.lookup_append, lookup_maybe, List.lookup, hc]

/-! ### The encoders in terms of the named pieces -/

/-- The `migration` block. -/
def encMigration : Option (Option Int) → List (String × J)
  | none => []
  | some cr => [("migration", .obj (maybe cr.isSome "checkRatio" (jInt (cr.getD 0))))]

/-- The member list of an encoded flag. -/
def flagMembers (f : Flag) : List (String × J) :=
  [("key", .str f.key), ("on", .bool f.on),
    ("prerequisites", .arr (f.prerequisites.map encPrereq)),
    ("targets", encTargets f.targets), ("contextTargets", encTargets f.contextTargets),
    ("rules", .arr (f.rules.map encRule)),
    ("fallthrough", .obj (encVR f.fallthrough)),
    ("offVariation", jOptInt f.offVariation),
    ("variations", .arr f.variations)] ++
    maybe f.fmeta.clientSide.explicit "clientSideAvailability"
      (.obj [("usingMobileKey", .bool f.fmeta.clientSide.usingMobileKey),
             ("usingEnvironmentId", .bool f.fmeta.clientSide.usingEnvironmentID)]) ++
    [("clientSide", .bool f.fmeta.clientSide.usingEnvironmentID), ("salt", .str f.salt),
     ("trackEvents", .bool f.fmeta.trackEvents), ("trackEventsFallthrough", .bool f.trackEventsFallthrough),
     ("debugEventsUntilDate", if f.fmeta.debugEventsUntilDate != 0 then .num (natToF64 f.fmeta.debugEventsUntilDate) else .null),
     ("version", jInt f.fmeta.version), ("deleted", .bool f.fmeta.deleted)] ++
    encMigration f.fmeta.migration ++
    maybe f.fmeta.samplingRatio.isSome "samplingRatio" (jInt (f.fmeta.samplingRatio.getD 0)) ++
    maybe f.excludeFromSummaries "excludeFromSummaries" (.bool true)

theorem encodeFlag_eq (f : Flag) : encodeFlag f = .obj (flagMembers f) := by
  unfold encodeFlag flagMembers encMigration
  cases f.fmeta.migration <;> rfl

/-- The member list of an encoded segment. -/
def segmentMembers (s : Segment) : List (String × J) :=
  [("key", .str s.key), ("included", jStrs s.included), ("excluded", jStrs s.excluded),
    ("includedContexts", encSegTargets s.includedContexts), ("excludedContexts", encSegTargets s.excludedContexts),
    ("salt", .str s.salt),
    ("rules", .arr (s.rules.map encSegRule))] ++
    maybe s.unbounded "unbounded" (.bool true) ++
    maybe (s.unboundedContextKind != "") "unboundedContextKind" (.str s.unboundedContextKind) ++
    [("version", jInt s.version), ("generation", jOptInt s.generation), ("deleted", .bool s.deleted)]

theorem encodeSegment_eq (s : Segment) : encodeSegment s = .obj (segmentMembers s) := rfl

/-! ### 1, 2. The schema theorems -/

theorem hasTy_debug (n : Nat) :
    hasTy .numOrNull (if n != 0 then .num (natToF64 n) else .null) = true := by
  split <;> rfl

/-- **C16 (flags).** Every encoded flag satisfies the wire schema. -/
theorem flag_schema (f : Flag) : Schema.flagOK (Codec.encodeFlag f) = true := by
  have hp := allArr_map f.prerequisites encPrereq prereqOK prereq_ok
  have ht := targets_ok f.targets
  have hct := targets_ok f.contextTargets
  have hr := allArr_map f.rules encRule ruleOK rule_ok
  have hf := fallthrough_ok f.fallthrough
  have hd := hasTy_debug f.fmeta.debugEventsUntilDate
  rw [encodeFlag_eq]
  simp only [flagOK, flagMembers]
  generalize f.fmeta.clientSide.explicit = b1
  generalize f.fmeta.samplingRatio.isSome = b2
  generalize f.excludeFromSummaries = b3
  generalize f.fmeta.migration = m
  generalize (if f.fmeta.debugEventsUntilDate != 0 then J.num (natToF64 f.fmeta.debugEventsUntilDate)
    else J.null) = dv at hd ⊢
  cases m <;> cases b1 <;> cases b2 <;> cases b3 <;>
    simp [encMigration, req, opt, getD, List.lookup_append, lookup_maybe, List.lookup,
      hp, ht, hct, hr, hf, hd]

/-- **C16 (segments).** Every encoded segment satisfies the wire schema. -/
theorem segment_schema (s : Segment) : Schema.segmentOK (Codec.encodeSegment s) = true := by
  have hi := jStrs_allStr s.included
  have he := jStrs_allStr s.excluded
  have hic := segTargets_ok s.includedContexts
  have hec := segTargets_ok s.excludedContexts
  have hr := allArr_map s.rules encSegRule segRuleOK segRule_ok
  rw [encodeSegment_eq]
  simp only [segmentOK, segmentMembers]
  generalize s.unbounded = b1
  generalize (s.unboundedContextKind != "") = b2
  cases b1 <;> cases b2 <;>
    simp [req, opt, getD, List.lookup_append, lookup_maybe, List.lookup, hi, he, hic, hec, hr]

/-! ### 3. Lists are arrays — at every nesting level, also when the list is nil/empty -/

/-- The exact members under the list-valued names of a flag: always an array with one element per
list item (so `[]` for a nil or empty list), never null and never absent. -/
theorem flag_list_members (f : Flag) :
    ∃ kvs, Codec.encodeFlag f = .obj kvs ∧
      kvs.lookup "prerequisites" = some (.arr (f.prerequisites.map encPrereq)) ∧
      kvs.lookup "targets" = some (.arr (f.targets.map encTarget)) ∧
      kvs.lookup "contextTargets" = some (.arr (f.contextTargets.map encTarget)) ∧
      kvs.lookup "rules" = some (.arr (f.rules.map encRule)) ∧
      kvs.lookup "variations" = some (.arr f.variations) := by
  refine ⟨_, encodeFlag_eq f, ?_, ?_, ?_, ?_, ?_⟩ <;>
    simp [flagMembers, encTargets_eq, List.lookup]

theorem lists_are_arrays (f : Flag) :
    ∃ kvs, Codec.encodeFlag f = .obj kvs ∧
      req kvs "prerequisites" .arr = true ∧ req kvs "targets" .arr = true ∧
      req kvs "contextTargets" .arr = true ∧ req kvs "rules" .arr = true ∧
      req kvs "variations" .arr = true := by
  obtain ⟨kvs, h, h1, h2, h3, h4, h5⟩ := flag_list_members f
  exact ⟨kvs, h, by simp [req, h1], by simp [req, h2], by simp [req, h3], by simp [req, h4],
    by simp [req, h5]⟩

/-- Each element of the "rules" array is an object whose "clauses" member is an array. -/
theorem rule_clauses_array (r : FlagRule) :
    ∃ kvs, encRule r = .obj kvs ∧
      kvs.lookup "clauses" = some (.arr (r.clauses.map encClause)) ∧
      req kvs "clauses" .arr = true := by
  refine ⟨_, rfl, ?_⟩
  have : List.lookup "clauses" (encVR r.vr ++ maybe (r.id != "") "id" (J.str r.id) ++
      [("clauses", J.arr (List.map encClause r.clauses)), ("trackEvents", J.bool r.trackEvents)])
      = some (.arr (r.clauses.map encClause)) := by
    generalize (r.id != "") = b
    cases b <;> simp [List.lookup_append, lookup_maybe, List.lookup, lookup_encVR_other]
  exact ⟨this, by unfold req; rw [this]; rfl⟩

/-- Each clause object's "values" member is an array (the clause's values verbatim). -/
theorem clause_values_array (c : Clause) :
    ∃ kvs, encClause c = .obj kvs ∧ kvs.lookup "values" = some (.arr c.values) ∧
      req kvs "values" .arr = true := by
  refine ⟨_, rfl, ?_⟩
  have : List.lookup "values" (maybe (c.contextKind != "") "contextKind" (J.str c.contextKind) ++
      [("attribute", if !c.attr.isDefined then J.str "" else writeAttrRef c.attr c.contextKind),
        ("op", J.str c.op), ("values", J.arr c.values), ("negate", J.bool c.negate)])
      = some (.arr c.values) := by
    generalize (c.contextKind != "") = b
    cases b <;> simp [List.lookup_append, lookup_maybe, List.lookup]
  exact ⟨this, by unfold req; rw [this]; rfl⟩

/-- A rollout object's "variations" member is an array. -/
theorem rollout_variations_array (r : Rollout) :
    ∃ kvs, encRollout r = .obj kvs ∧
      kvs.lookup "variations" = some (.arr (r.variations.map encWV)) := by
  refine ⟨_, rfl, ?_⟩
  generalize (r.kind != "") = b1
  generalize (r.contextKind != "") = b2
  cases b1 <;> cases b2 <;> simp [List.lookup_append, lookup_maybe, List.lookup]

/-- A target object's "values" member is an array of strings. -/
theorem target_values_array (t : Target) :
    ∃ kvs, encTarget t = .obj kvs ∧ kvs.lookup "values" = some (.arr (t.values.map .str)) := by
  refine ⟨_, rfl, ?_⟩
  generalize (t.contextKind != "") = b1
  cases b1 <;> simp [List.lookup_append, lookup_maybe, List.lookup, jStrs]

theorem segment_list_members (s : Segment) :
    ∃ kvs, Codec.encodeSegment s = .obj kvs ∧
      kvs.lookup "included" = some (.arr (s.included.map .str)) ∧
      kvs.lookup "excluded" = some (.arr (s.excluded.map .str)) ∧
      kvs.lookup "includedContexts" = some (.arr (s.includedContexts.map encSegTarget)) ∧
      kvs.lookup "excludedContexts" = some (.arr (s.excludedContexts.map encSegTarget)) ∧
      kvs.lookup "rules" = some (.arr (s.rules.map encSegRule)) := by
  refine ⟨_, encodeSegment_eq s, ?_, ?_, ?_, ?_, ?_⟩ <;>
    simp [segmentMembers, encSegTargets_eq, jStrs, List.lookup]

theorem segRule_clauses_array (r : SegmentRule) :
    ∃ kvs, encSegRule r = .obj kvs ∧
      kvs.lookup "clauses" = some (.arr (r.clauses.map encClause)) := by
  refine ⟨_, rfl, ?_⟩
  simp [List.lookup]

theorem segTarget_values_array (t : SegmentTarget) :
    ∃ kvs, encSegTarget t = .obj kvs ∧ kvs.lookup "values" = some (.arr (t.values.map .str)) := by
  refine ⟨_, rfl, ?_⟩
  generalize (t.contextKind != "") = b1
  cases b1 <;> simp [List.lookup_append, lookup_maybe, List.lookup, jStrs]

/-! ### 4. Only the documented droppable members can be absent -/

/-- The legacy flag properties: always present. -/
def flagRequired : List String :=
  ["key", "on", "prerequisites", "targets", "contextTargets", "rules", "fallthrough", "offVariation",
   "variations", "clientSide", "salt", "trackEvents", "trackEventsFallthrough",
   "debugEventsUntilDate", "version", "deleted"]

/-- The legacy segment properties: always present. -/
def segmentRequired : List String :=
  ["key", "included", "excluded", "includedContexts", "excludedContexts", "salt", "rules", "version",
   "generation", "deleted"]

theorem droppable_only (f : Flag) :
    ∃ kvs, Codec.encodeFlag f = .obj kvs ∧ ∀ k ∈ flagRequired, (kvs.lookup k).isSome = true := by
  refine ⟨_, encodeFlag_eq f, ?_⟩
  intro k hk
  simp only [flagRequired, List.mem_cons, List.not_mem_nil, or_false] at hk
  rcases hk with rfl | rfl | rfl | rfl | rfl | rfl | rfl | rfl | rfl | rfl | rfl | rfl | rfl | rfl |
    rfl | rfl <;>
    simp [flagMembers, List.lookup_append, lookup_maybe, List.lookup]

theorem droppable_only_segment (s : Segment) :
    ∃ kvs, Codec.encodeSegment s = .obj kvs ∧
      ∀ k ∈ segmentRequired, (kvs.lookup k).isSome = true := by
  refine ⟨_, encodeSegment_eq s, ?_⟩
  intro k hk
  simp only [segmentRequired, List.mem_cons, List.not_mem_nil, or_false] at hk
  rcases hk with rfl | rfl | rfl | rfl | rfl | rfl | rfl | rfl | rfl | rfl <;>
    simp [segmentMembers, List.lookup_append, lookup_maybe, List.lookup]

/-- Conversely the members that *can* be absent are absent for the zero flag: the droppable ones
are really dropped (so the list above is exact for the default value). -/
theorem droppable_dropped :
    ∀ k ∈ ["clientSideAvailability", "migration", "samplingRatio", "excludeFromSummaries"],
      (flagMembers {}).lookup k = none := by
  decide

/-! ### Non-vacuity: the schema is not trivially true -/

example : Schema.flagOK (.obj []) = false := by decide
example : Schema.flagOK (.obj [("key", .str "k"), ("on", .bool true), ("rules", .null)]) = false := by
  decide
/-- A flag object whose "rules" is `null` instead of `[]` violates the schema. -/
example : Schema.req [("rules", J.null)] "rules" .arr = false := by decide
/-- The zero flag (all lists nil) encodes every list as `[]`. -/
example : (flagMembers {}).lookup "rules" = some (.arr []) := by
  simp [flagMembers, List.lookup]
example : (segmentMembers {}).lookup "included" = some (.arr []) := by
  simp [segmentMembers, jStrs, List.lookup]

/-- A concrete flag with nil lists at several levels and negative numbers, checked by evaluation
(independently of the proof above). -/
example : Schema.flagOK (Codec.encodeFlag
    { key := "f", offVariation := some (-1),
      rules := [{ clauses := [{ op := "in", values := [] }],
                  vr := { rollout := { variations := [{ variation := -1, weight := -5 }] } } },
                { clauses := [] }],
      targets := [{ values := [], variation := -3 }],
      fmeta := { migration := some none, debugEventsUntilDate := 1152921504606846977 } }) = true := by
  decide +kernel
example : Schema.segmentOK (Codec.encodeSegment
    { key := "s", rules := [{ clauses := [], weight := some (-7) }],
      includedContexts := [{ values := [] }] }) = true := by
  decide +kernel

/-! ## Strengthened statements (theorem audit) -/

open LD.Entry

/-! ### #54: the four encode paths and the four decode paths

The paths are the definitions of `Model/CodecEntry.lean`, each transcribed from the Go function of
the same name (serialization object, encoding/json hooks, streaming functions, easyjson hooks) as a
wrapper around the one encoder / the one decoder plus preprocessing.  What ties those wrappers to
the code is the regenerated fact `Generated.entryPoints` (`Obligations/CodecTables.lean`:
`entry_points`, `entry_points_funnel`): the set of exported (un)marshalling functions of both build
variants and, for each, the core functions it reaches.  `modelled_entry_points` below closes the
chain `Generated.entryPoints = Expected.entryPoints = Entry.modelled`: an entry point added to, or
removed from, the Go package, or one that stops reaching the common function, breaks the first
equation; a wrapper missing from the model breaks the second. -/

/-- The entry points modelled in `Model/CodecEntry.lean` are exactly those the fact extractor
finds in ldmodel (both build variants), with the same core functions behind each. -/
theorem modelled_entry_points : Entry.modelled = Expected.entryPoints := by decide

/-- **C16, encode paths (flags).**  For every flag, the serialization object and the encoding/json
hook return the same output — exactly one JSON value, the tree of the common encoder, and no error
— and the streaming function and the easyjson hook append exactly that value to whatever writer
they are given. -/
theorem encode_paths_agree (f : Flag) (w : Writer) :
    Serialization.marshalFeatureFlag f = ⟨[Codec.encodeFlag f], false⟩ ∧
    FeatureFlag.marshalJSON f = ⟨[Codec.encodeFlag f], false⟩ ∧
    marshalFeatureFlagToJSONWriter f w = w ++ [Codec.encodeFlag f] ∧
    FeatureFlag.marshalEasyJSON f w = w ++ [Codec.encodeFlag f] :=
  ⟨rfl, rfl, rfl, rfl⟩

/-- **C16, encode paths (segments).** -/
theorem encode_paths_agree_segment (s : Segment) (w : Writer) :
    Serialization.marshalSegment s = ⟨[Codec.encodeSegment s], false⟩ ∧
    Segment.marshalJSON s = ⟨[Codec.encodeSegment s], false⟩ ∧
    marshalSegmentToJSONWriter s w = w ++ [Codec.encodeSegment s] ∧
    Segment.marshalEasyJSON s w = w ++ [Codec.encodeSegment s] :=
  ⟨rfl, rfl, rfl, rfl⟩

/-- Hence what any of the four paths writes for a flag satisfies the wire schema: every value in
the output of the two byte-returning paths, and the value the two writer paths append. -/
theorem encode_paths_schema (f : Flag) (w : Writer) :
    (∀ v ∈ (Serialization.marshalFeatureFlag f).value, Schema.flagOK v = true) ∧
    (∀ v ∈ (FeatureFlag.marshalJSON f).value, Schema.flagOK v = true) ∧
    (marshalFeatureFlagToJSONWriter f w).getLast? = some (Codec.encodeFlag f) ∧
    (FeatureFlag.marshalEasyJSON f w).getLast? = some (Codec.encodeFlag f) ∧
    Schema.flagOK (Codec.encodeFlag f) = true := by
  obtain ⟨h1, h2, h3, h4⟩ := encode_paths_agree f w
  rw [h1, h2, h3, h4]
  refine ⟨?_, ?_, by simp, by simp, flag_schema f⟩ <;>
    · intro v hv
      have : v = encodeFlag f := by simpa using hv
      rw [this]; exact flag_schema f

theorem encode_paths_schema_segment (s : Segment) (w : Writer) :
    (∀ v ∈ (Serialization.marshalSegment s).value, Schema.segmentOK v = true) ∧
    (∀ v ∈ (Segment.marshalJSON s).value, Schema.segmentOK v = true) ∧
    (marshalSegmentToJSONWriter s w).getLast? = some (Codec.encodeSegment s) ∧
    (Segment.marshalEasyJSON s w).getLast? = some (Codec.encodeSegment s) ∧
    Schema.segmentOK (Codec.encodeSegment s) = true := by
  obtain ⟨h1, h2, h3, h4⟩ := encode_paths_agree_segment s w
  rw [h1, h2, h3, h4]
  refine ⟨?_, ?_, by simp, by simp, segment_schema s⟩ <;>
    · intro v hv
      have : v = encodeSegment s := by simpa using hv
      rw [this]; exact segment_schema s

/-- **C16, decode paths (flags).**  For every document, every half-built value and every old
content of the two hook destinations: the four paths report an error in exactly the same cases
(when the common decoder rejects the document), and when they do not, all four deliver the same
flag — the common decoder's, preprocessed.  (What they deliver WITH an error differs and is the
subject of `C17.error_zero`, `C17.hook_leaves_destination`, `C17.reader_paths_expose_partial`.) -/
theorem decode_paths_agree (rx : RegexOracle) (pv : Partial) (destJ destE : Flag) (doc : J) :
    (Codec.decodeFlag rx doc = .error () ∧
      (Serialization.unmarshalFeatureFlag rx pv doc).err = true ∧
      (FeatureFlag.unmarshalJSON rx pv destJ doc).err = true ∧
      (unmarshalFeatureFlagFromJSONReader rx pv doc).err = true ∧
      (FeatureFlag.unmarshalEasyJSON rx pv destE doc).err = true) ∨
    (∃ g, Codec.decodeFlag rx doc = .ok g ∧
      Serialization.unmarshalFeatureFlag rx pv doc = ⟨g, false⟩ ∧
      FeatureFlag.unmarshalJSON rx pv destJ doc = ⟨g, false⟩ ∧
      unmarshalFeatureFlagFromJSONReader rx pv doc = ⟨g, false⟩ ∧
      FeatureFlag.unmarshalEasyJSON rx pv destE doc = ⟨g, false⟩) := by
  unfold Serialization.unmarshalFeatureFlag unmarshalFeatureFlagFromJSONReader
    FeatureFlag.unmarshalEasyJSON
  rw [hook_eq, fromBytes_eq]
  unfold decodeFlag
  cases h : readFlag doc with
  | error e =>
    refine .inl ⟨rfl, rfl, rfl, ?_, ?_⟩ <;> rw [fromReader_error rx pv doc h]
  | ok f =>
    refine .inr ⟨preprocessFlag rx f, rfl, rfl, rfl, ?_, ?_⟩ <;> exact fromReader_ok rx pv doc f h

/-- **C16, decode paths (segments).** -/
theorem decode_paths_agree_segment (rx : RegexOracle) (pv : Partial) (destJ destE : Segment) (doc : J) :
    (Codec.decodeSegment rx doc = .error () ∧
      (Serialization.unmarshalSegment rx pv doc).err = true ∧
      (Segment.unmarshalJSON rx pv destJ doc).err = true ∧
      (unmarshalSegmentFromJSONReader rx pv doc).err = true ∧
      (Segment.unmarshalEasyJSON rx pv destE doc).err = true) ∨
    (∃ g, Codec.decodeSegment rx doc = .ok g ∧
      Serialization.unmarshalSegment rx pv doc = ⟨g, false⟩ ∧
      Segment.unmarshalJSON rx pv destJ doc = ⟨g, false⟩ ∧
      unmarshalSegmentFromJSONReader rx pv doc = ⟨g, false⟩ ∧
      Segment.unmarshalEasyJSON rx pv destE doc = ⟨g, false⟩) := by
  unfold Serialization.unmarshalSegment unmarshalSegmentFromJSONReader Segment.unmarshalEasyJSON
  rw [seg_hook_eq, seg_fromBytes_eq]
  unfold decodeSegment
  cases h : readSegment doc with
  | error e =>
    refine .inl ⟨rfl, rfl, rfl, ?_, ?_⟩ <;> rw [seg_fromReader_error rx pv doc h]
  | ok f =>
    refine .inr ⟨preprocessSegment rx f, rfl, rfl, rfl, ?_, ?_⟩ <;>
      exact seg_fromReader_ok rx pv doc f h


/-! ### #56: exactly which members an encoded flag / segment has -/

/-- Every member name the flag encoder can write, in the order it writes them. -/
def flagAllNames : List String :=
  ["key", "on", "prerequisites", "targets", "contextTargets", "rules", "fallthrough", "offVariation",
   "variations", "clientSideAvailability", "clientSide", "salt", "trackEvents", "trackEventsFallthrough",
   "debugEventsUntilDate", "version", "deleted", "migration", "samplingRatio", "excludeFromSummaries"]

/-- Whether the flag encoder writes the member `n`: always, except for the four droppable members,
which are written exactly when the field differs from its default. -/
def flagWrites (f : Flag) (n : String) : Bool :=
  (n != "clientSideAvailability" || f.fmeta.clientSide.explicit) &&
  (n != "migration" || f.fmeta.migration.isSome) &&
  (n != "samplingRatio" || f.fmeta.samplingRatio.isSome) &&
  (n != "excludeFromSummaries" || f.excludeFromSummaries)

/-- **The member names of an encoded flag, exactly**: the fixed list, in order, minus the droppable
members whose field is at its default.  So there are no extra members, no duplicate names, every
legacy member is present, and a droppable member is dropped exactly when its field is the default
(for every flag, not just the zero flag of `droppable_dropped`). -/
theorem flag_member_names (f : Flag) :
    (flagMembers f).map (·.1) = flagAllNames.filter (flagWrites f) := by
  unfold flagMembers flagWrites encMigration
  generalize f.fmeta.clientSide.explicit = b1
  generalize f.fmeta.samplingRatio.isSome = b2
  generalize f.excludeFromSummaries = b3
  cases f.fmeta.migration <;> cases b1 <;> cases b2 <;> cases b3 <;> rfl

theorem flag_member_names_nodup (f : Flag) : ((flagMembers f).map (·.1)).Nodup := by
  rw [flag_member_names]
  exact List.Pairwise.sublist List.filter_sublist (by decide)

theorem flag_no_extra_members (f : Flag) : ∀ kv ∈ flagMembers f, kv.1 ∈ flagAllNames := by
  intro kv hkv
  have : kv.1 ∈ (flagMembers f).map (·.1) := List.mem_map.mpr ⟨kv, hkv, rfl⟩
  rw [flag_member_names] at this
  exact (List.mem_filter.mp this).1

/-- Dropped exactly when default, with the exact content when present — in particular the inside
of `clientSideAvailability` (two booleans) and of `migration` (an optional numeric `checkRatio`),
which `Schema.flagOK` only types as "object". -/
theorem droppable_exact (f : Flag) :
    (flagMembers f).lookup "clientSideAvailability" =
      (if f.fmeta.clientSide.explicit then
        some (.obj [("usingMobileKey", .bool f.fmeta.clientSide.usingMobileKey),
                    ("usingEnvironmentId", .bool f.fmeta.clientSide.usingEnvironmentID)]) else none) ∧
    (flagMembers f).lookup "migration" =
      f.fmeta.migration.map (fun cr => .obj (match cr with | some n => [("checkRatio", jInt n)] | none => [])) ∧
    (flagMembers f).lookup "samplingRatio" = f.fmeta.samplingRatio.map jInt ∧
    (flagMembers f).lookup "excludeFromSummaries" =
      (if f.excludeFromSummaries then some (.bool true) else none) := by
  unfold flagMembers encMigration
  generalize f.fmeta.clientSide.explicit = b1
  generalize f.excludeFromSummaries = b3
  refine ⟨?_, ?_, ?_, ?_⟩
  · cases f.fmeta.migration <;> cases b1 <;> simp [List.lookup_append, lookup_maybe, List.lookup]
  · cases f.fmeta.migration with
    | none => cases b1 <;> simp [List.lookup_append, lookup_maybe, List.lookup]
    | some cr =>
      cases cr <;> cases b1 <;> simp [List.lookup_append, lookup_maybe, List.lookup, maybe]
  · cases f.fmeta.migration <;> cases f.fmeta.samplingRatio <;> cases b1 <;>
      simp [List.lookup_append, lookup_maybe, List.lookup]
  · cases f.fmeta.migration <;> cases f.fmeta.samplingRatio <;> cases b1 <;> cases b3 <;>
      simp [List.lookup_append, lookup_maybe, List.lookup]

def segmentAllNames : List String :=
  ["key", "included", "excluded", "includedContexts", "excludedContexts", "salt", "rules", "unbounded",
   "unboundedContextKind", "version", "generation", "deleted"]

def segmentWrites (s : Segment) (n : String) : Bool :=
  (n != "unbounded" || s.unbounded) && (n != "unboundedContextKind" || s.unboundedContextKind != "")

/-- **The member names of an encoded segment, exactly.** -/
theorem segment_member_names (s : Segment) :
    (segmentMembers s).map (·.1) = segmentAllNames.filter (segmentWrites s) := by
  unfold segmentMembers segmentWrites
  generalize s.unbounded = b1
  generalize (s.unboundedContextKind != "") = b2
  cases b1 <;> cases b2 <;> rfl

theorem segment_member_names_nodup (s : Segment) : ((segmentMembers s).map (·.1)).Nodup := by
  rw [segment_member_names]
  exact List.Pairwise.sublist List.filter_sublist (by decide)

theorem segment_droppable_exact (s : Segment) :
    (segmentMembers s).lookup "unbounded" = (if s.unbounded then some (.bool true) else none) ∧
    (segmentMembers s).lookup "unboundedContextKind" =
      (if s.unboundedContextKind != "" then some (.str s.unboundedContextKind) else none) := by
  unfold segmentMembers
  generalize s.unbounded = b1
  generalize (s.unboundedContextKind != "") = b2
  constructor <;> cases b1 <;> cases b2 <;> simp [List.lookup_append, lookup_maybe, List.lookup]

/-- Non-vacuity: a flag with every droppable member present, and one with none. -/
def exAllMembers : Flag :=
  { excludeFromSummaries := true,
    fmeta := { clientSide := { explicit := true }, migration := some (some 3), samplingRatio := some 2 } }
example : (flagMembers exAllMembers).map (·.1) = flagAllNames := by decide
example : ((flagMembers { key := "k" }).map (·.1)).length = 16 := by decide

#print axioms modelled_entry_points
#print axioms encode_paths_agree
#print axioms encode_paths_agree_segment
#print axioms encode_paths_schema
#print axioms encode_paths_schema_segment
#print axioms decode_paths_agree
#print axioms decode_paths_agree_segment
#print axioms flag_member_names
#print axioms flag_member_names_nodup
#print axioms flag_no_extra_members
#print axioms droppable_exact
#print axioms segment_member_names
#print axioms segment_member_names_nodup
#print axioms segment_droppable_exact

end LD.C16

#print axioms LD.C16.flag_schema
#print axioms LD.C16.segment_schema
#print axioms LD.C16.lists_are_arrays
#print axioms LD.C16.flag_list_members
#print axioms LD.C16.rule_clauses_array
#print axioms LD.C16.clause_values_array
#print axioms LD.C16.rollout_variations_array
#print axioms LD.C16.segment_list_members
#print axioms LD.C16.droppable_only
#print axioms LD.C16.droppable_only_segment

/-
  C16 — Encoded JSON keeps the wire schema.

  For every flag and segment value (nil/empty lists at every nesting level, negative numbers, any
  strings) the encoder output satisfies the wire schema `Schema.flagOK` / `Schema.segmentOK`: every
  legacy property is present with its schema type, every list is a JSON array (never null), and the
  only members that may be missing are the documented droppable ones.
-/
import LDEval.Spec.Schema

namespace LD.C16
open LD.Codec LD.Schema

/-! ### Helpers -/

@[simp] theorem hasTy_str (s : String) : hasTy .str (.str s) = true := rfl
@[simp] theorem hasTy_bool (b : Bool) : hasTy .bool (.bool b) = true := rfl
@[simp] theorem hasTy_num (q : Rat) : hasTy .num (.num q) = true := rfl
@[simp] theorem hasTy_numOrNull_num (q : Rat) : hasTy .numOrNull (.num q) = true := rfl
@[simp] theorem hasTy_numOrNull_null : hasTy .numOrNull .null = true := rfl
@[simp] theorem hasTy_arr (xs : List J) : hasTy .arr (.arr xs) = true := rfl
@[simp] theorem hasTy_obj (kvs : List (String × J)) : hasTy .obj (.obj kvs) = true := rfl
@[simp] theorem hasTy_jInt (n : Int) : hasTy .num (jInt n) = true := rfl
@[simp] theorem hasTy_jStrs (xs : List String) : hasTy .arr (jStrs xs) = true := rfl
@[simp] theorem hasTy_jOptInt (o : Option Int) : hasTy .numOrNull (jOptInt o) = true := by
  cases o <;> rfl
@[simp] theorem hasTy_writeAttrRef (r : Ref) (k : String) :
    hasTy .str (writeAttrRef r k) = true := by
  unfold writeAttrRef; split <;> rfl
@[simp] theorem hasTy_encTargets (ts : List Target) : hasTy .arr (encTargets ts) = true := rfl
@[simp] theorem hasTy_encSegTargets (ts : List SegmentTarget) :
    hasTy .arr (encSegTargets ts) = true := rfl

/-- An optional member block contributes its member exactly when its condition holds. -/
theorem lookup_maybe (c : Bool) (n : String) (v : J) (k : String) :
    (maybe c n v).lookup k = if c && (k == n) then some v else none := by
  cases c <;> cases h : k == n <;> simp [maybe, List.lookup, h]

/-- A mapped list is always encoded as an array, whose elements all satisfy `p` if every image
does — including the empty (nil) list. -/
theorem allArr_map {α} (xs : List α) (g : α → J) (p : J → Bool) (h : ∀ x, p (g x) = true) :
    allArr (.arr (xs.map g)) p = true := by
  simp [allArr, List.all_map, List.all_eq_true, h]

theorem jStrs_allStr (xs : List String) : allArr (jStrs xs) isStr = true :=
  allArr_map xs .str isStr (fun _ => rfl)

/-! ### Nested pieces -/

theorem clause_ok (c : Clause) : clauseOK (encClause c) = true := by
  simp only [clauseOK, encClause]
  generalize (c.contextKind != "") = b1
  generalize c.attr.isDefined = b2
  cases b1 <;> cases b2 <;> simp [req, opt, List.lookup_append, lookup_maybe, List.lookup]

theorem clauses_ok (cs : List Clause) : allArr (.arr (cs.map encClause)) clauseOK = true :=
  allArr_map cs encClause clauseOK clause_ok

/-- One weighted variation of a rollout, as `encVR` writes it. -/
def encWV (wv : WeightedVariation) : J :=
  .obj ([("variation", jInt wv.variation), ("weight", jInt wv.weight)] ++
        maybe wv.untracked "untracked" (.bool true))

theorem wv_ok (wv : WeightedVariation) : wvOK (encWV wv) = true := by
  simp only [wvOK, encWV]
  generalize wv.untracked = b1
  cases b1 <;> simp [req, opt, lookup_maybe, List.lookup]

/-- The rollout object, as `encVR` writes it. -/
def encRollout (r : Rollout) : J :=
  .obj (maybe (r.kind != "") "kind" (.str r.kind) ++
      maybe (r.contextKind != "") "contextKind" (.str r.contextKind) ++
      [("variations", .arr (r.variations.map encWV))] ++
      maybe r.seed.isSome "seed" (jInt (r.seed.getD 0)) ++
      maybe r.bucketBy.isDefined "bucketBy" (writeAttrRef r.bucketBy r.contextKind))

theorem encVR_eq (vr : VariationOrRollout) :
    encVR vr = maybe vr.variation.isSome "variation" (jInt (vr.variation.getD 0)) ++
      (if vr.rollout.variations.isEmpty then [] else [("rollout", encRollout vr.rollout)]) := rfl

theorem rollout_ok (r : Rollout) : rolloutOK (encRollout r) = true := by
  have h := allArr_map r.variations encWV wvOK wv_ok
  simp only [rolloutOK, encRollout]
  generalize (r.kind != "") = b1
  generalize (r.contextKind != "") = b2
  generalize r.seed.isSome = b3
  generalize r.bucketBy.isDefined = b4
  cases b1 <;> cases b2 <;> cases b3 <;> cases b4 <;>
    simp [req, opt, getD, List.lookup_append, lookup_maybe, List.lookup, h]

/-- What `encVR` contributes to an object: only "variation" and "rollout". -/
theorem lookup_encVR_variation (vr : VariationOrRollout) :
    (encVR vr).lookup "variation" =
      if vr.variation.isSome then some (jInt (vr.variation.getD 0)) else none := by
  rw [encVR_eq]
  cases vr.variation.isSome <;> cases vr.rollout.variations.isEmpty <;>
    simp [List.lookup_append, lookup_maybe, List.lookup]

theorem lookup_encVR_rollout (vr : VariationOrRollout) :
    (encVR vr).lookup "rollout" =
      if vr.rollout.variations.isEmpty then none else some (encRollout vr.rollout) := by
  rw [encVR_eq]
  cases vr.variation.isSome <;> cases vr.rollout.variations.isEmpty <;>
    simp [List.lookup_append, lookup_maybe, List.lookup]

theorem lookup_encVR_other (vr : VariationOrRollout) (k : String)
    (h1 : (k == "variation") = false) (h2 : (k == "rollout") = false) :
    (encVR vr).lookup k = none := by
  rw [encVR_eq]
  cases vr.variation.isSome <;> cases vr.rollout.variations.isEmpty <;>
    simp [List.lookup_append, lookup_maybe, List.lookup, h1, h2]

/-- The variation-or-rollout members are well-typed in any object they are spliced into (in front
of members with other names). -/
theorem vr_ok (vr : VariationOrRollout) (rest : List (String × J))
    (h1 : rest.lookup "variation" = none) (h2 : rest.lookup "rollout" = none) :
    vrOK (encVR vr ++ rest) = true := by
  simp only [vrOK, opt, List.lookup_append, lookup_encVR_variation, lookup_encVR_rollout, h1, h2]
  generalize vr.variation.isSome = b1
  generalize vr.rollout.variations.isEmpty = b2
  cases b1 <;> cases b2 <;> simp [rollout_ok]

theorem fallthrough_ok (vr : VariationOrRollout) : fallthroughOK (.obj (encVR vr)) = true := by
  have := vr_ok vr [] rfl rfl
  simpa [fallthroughOK] using this

def encPrereq (p : Prereq) : J := .obj [("key", .str p.key), ("variation", jInt p.variation)]

theorem prereq_ok (p : Prereq) : prereqOK (encPrereq p) = true := by
  simp [prereqOK, encPrereq, req, List.lookup]

def encTarget (t : Target) : J :=
  .obj (maybe (t.contextKind != "") "contextKind" (.str t.contextKind) ++
    [("variation", jInt t.variation), ("values", jStrs t.values)])

theorem encTargets_eq (ts : List Target) : encTargets ts = .arr (ts.map encTarget) := rfl

theorem target_ok (t : Target) : targetOK (encTarget t) = true := by
  have h := jStrs_allStr t.values
  simp only [targetOK, encTarget]
  generalize (t.contextKind != "") = b1
  cases b1 <;> simp [req, opt, getD, List.lookup_append, lookup_maybe, List.lookup, h]

theorem targets_ok (ts : List Target) : allArr (encTargets ts) targetOK = true :=
  allArr_map ts encTarget targetOK target_ok

/-- One flag rule, as `encodeFlag` writes it. -/
def encRule (r : FlagRule) : J :=
  .obj (encVR r.vr ++ maybe (r.id != "") "id" (.str r.id) ++
    [("clauses", .arr (r.clauses.map encClause)), ("trackEvents", .bool r.trackEvents)])

theorem rule_ok (r : FlagRule) : ruleOK (encRule r) = true := by
  have hc := clauses_ok r.clauses
  have hv : vrOK (encVR r.vr ++ (maybe (r.id != "") "id" (.str r.id) ++
      [("clauses", .arr (r.clauses.map encClause)), ("trackEvents", .bool r.trackEvents)])) = true := by
    apply vr_ok <;> generalize (r.id != "") = b <;> cases b <;>
      simp [List.lookup_append, lookup_maybe, List.lookup]
  simp only [ruleOK, encRule, List.append_assoc, hv]
  generalize (r.id != "") = b1
  cases b1 <;>
    simp [req, opt, getD, List.lookup_append, lookup_maybe, List.lookup, lookup_encVR_other, hc]

def encSegTarget (t : SegmentTarget) : J :=
  .obj (maybe (t.contextKind != "") "contextKind" (.str t.contextKind) ++
    [("values", jStrs t.values)])

theorem encSegTargets_eq (ts : List SegmentTarget) :
    encSegTargets ts = .arr (ts.map encSegTarget) := rfl

theorem segTarget_ok (t : SegmentTarget) : segTargetOK (encSegTarget t) = true := by
  have h := jStrs_allStr t.values
  simp only [segTargetOK, encSegTarget]
  generalize (t.contextKind != "") = b1
  cases b1 <;> simp [req, opt, getD, List.lookup_append, lookup_maybe, List.lookup, h]

theorem segTargets_ok (ts : List SegmentTarget) : allArr (encSegTargets ts) segTargetOK = true :=
  allArr_map ts encSegTarget segTargetOK segTarget_ok

/-- One segment rule, as `encodeSegment` writes it. -/
def encSegRule (r : SegmentRule) : J :=
  .obj ([("id", .str r.id), ("clauses", .arr (r.clauses.map encClause))] ++
    maybe r.weight.isSome "weight" (jInt (r.weight.getD 0)) ++
    maybe r.bucketBy.isDefined "bucketBy" (writeAttrRef r.bucketBy r.rolloutContextKind) ++
    maybe (r.rolloutContextKind != "") "rolloutContextKind" (.str r.rolloutContextKind))

theorem segRule_ok (r : SegmentRule) : segRuleOK (encSegRule r) = true := by
  have hc := clauses_ok r.clauses
  simp only [segRuleOK, encSegRule]
  generalize r.weight.isSome = b1
  generalize r.bucketBy.isDefined = b2
  generalize (r.rolloutContextKind != "") = b3
  cases b1 <;> cases b2 <;> cases b3 <;>
    simp [req, opt, getD, List.lookup_append, lookup_maybe, List.lookup, hc]

/-! ### The encoders in terms of the named pieces -/

/-- The `migration` block. -/
def encMigration : Option (Option Int) → List (String × J)
  | none => []
  | some cr => [("migration", .obj (maybe cr.isSome "checkRatio" (jInt (cr.getD 0))))]

/-- The member list of an encoded flag. -/
def flagMembers (f : Flag) : List (String × J) :=
  [("key", .str f.key), ("on", .bool f.on),
    ("prerequisites", .arr (f.prerequisites.map encPrereq)),
    ("targets", encTargets f.targets), ("contextTargets", encTargets f.contextTargets),
    ("rules", .arr (f.rules.map encRule)),
    ("fallthrough", .obj (encVR f.fallthrough)),
    ("offVariation", jOptInt f.offVariation),
    ("variations", .arr f.variations)] ++
    maybe f.fmeta.clientSide.explicit "clientSideAvailability"
      (.obj [("usingMobileKey", .bool f.fmeta.clientSide.usingMobileKey),
             ("usingEnvironmentId", .bool f.fmeta.clientSide.usingEnvironmentID)]) ++
    [("clientSide", .bool f.fmeta.clientSide.usingEnvironmentID), ("salt", .str f.salt),
     ("trackEvents", .bool f.fmeta.trackEvents), ("trackEventsFallthrough", .bool f.trackEventsFallthrough),
     ("debugEventsUntilDate", if f.fmeta.debugEventsUntilDate != 0 then .num (natToF64 f.fmeta.debugEventsUntilDate) else .null),
     ("version", jInt f.fmeta.version), ("deleted", .bool f.fmeta.deleted)] ++
    encMigration f.fmeta.migration ++
    maybe f.fmeta.samplingRatio.isSome "samplingRatio" (jInt (f.fmeta.samplingRatio.getD 0)) ++
    maybe f.excludeFromSummaries "excludeFromSummaries" (.bool true)

theorem encodeFlag_eq (f : Flag) : encodeFlag f = .obj (flagMembers f) := by
  unfold encodeFlag flagMembers encMigration
  cases f.fmeta.migration <;> rfl

/-- The member list of an encoded segment. -/
def segmentMembers (s : Segment) : List (String × J) :=
  [("key", .str s.key), ("included", jStrs s.included), ("excluded", jStrs s.excluded),
    ("includedContexts", encSegTargets s.includedContexts), ("excludedContexts", encSegTargets s.excludedContexts),
    ("salt", .str s.salt),
    ("rules", .arr (s.rules.map encSegRule))] ++
    maybe s.unbounded "unbounded" (.bool true) ++
    maybe (s.unboundedContextKind != "") "unboundedContextKind" (.str s.unboundedContextKind) ++
    [("version", jInt s.version), ("generation", jOptInt s.generation), ("deleted", .bool s.deleted)]

theorem encodeSegment_eq (s : Segment) : encodeSegment s = .obj (segmentMembers s) := rfl

/-! ### 1, 2. The schema theorems -/

theorem hasTy_debug (n : Nat) :
    hasTy .numOrNull (if n != 0 then .num (natToF64 n) else .null) = true := by
  split <;> rfl

/-- **C16 (flags).** Every encoded flag satisfies the wire schema. -/
theorem flag_schema (f : Flag) : Schema.flagOK (Codec.encodeFlag f) = true := by
  have hp := allArr_map f.prerequisites encPrereq prereqOK prereq_ok
  have ht := targets_ok f.targets
  have hct := targets_ok f.contextTargets
  have hr := allArr_map f.rules encRule ruleOK rule_ok
  have hf := fallthrough_ok f.fallthrough
  have hd := hasTy_debug f.fmeta.debugEventsUntilDate
  rw [encodeFlag_eq]
  simp only [flagOK, flagMembers]
  generalize f.fmeta.clientSide.explicit = b1
  generalize f.fmeta.samplingRatio.isSome = b2
  generalize f.excludeFromSummaries = b3
  generalize f.fmeta.migration = m
  generalize (if f.fmeta.debugEventsUntilDate != 0 then J.num (natToF64 f.fmeta.debugEventsUntilDate)
    else J.null) = dv at hd ⊢
  cases m <;> cases b1 <;> cases b2 <;> cases b3 <;>
    simp [encMigration, req, opt, getD, List.lookup_append, lookup_maybe, List.lookup,
      hp, ht, hct, hr, hf, hd]

/-- **C16 (segments).** Every encoded segment satisfies the wire schema. -/
theorem segment_schema (s : Segment) : Schema.segmentOK (Codec.encodeSegment s) = true := by
  have hi := jStrs_allStr s.included
  have he := jStrs_allStr s.excluded
  have hic := segTargets_ok s.includedContexts
  have hec := segTargets_ok s.excludedContexts
  have hr := allArr_map s.rules encSegRule segRuleOK segRule_ok
  rw [encodeSegment_eq]
  simp only [segmentOK, segmentMembers]
  generalize s.unbounded = b1
  generalize (s.unboundedContextKind != "") = b2
  cases b1 <;> cases b2 <;>
    simp [req, opt, getD, List.lookup_append, lookup_maybe, List.lookup, hi, he, hic, hec, hr]

/-! ### 3. Lists are arrays — at every nesting level, also when the list is nil/empty -/

/-- The exact members under the list-valued names of a flag: always an array with one element per
list item (so `[]` for a nil or empty list), never null and never absent. -/
theorem flag_list_members (f : Flag) :
    ∃ kvs, Codec.encodeFlag f = .obj kvs ∧
      kvs.lookup "prerequisites" = some (.arr (f.prerequisites.map encPrereq)) ∧
      kvs.lookup "targets" = some (.arr (f.targets.map encTarget)) ∧
      kvs.lookup "contextTargets" = some (.arr (f.contextTargets.map encTarget)) ∧
      kvs.lookup "rules" = some (.arr (f.rules.map encRule)) ∧
      kvs.lookup "variations" = some (.arr f.variations) := by
  refine ⟨_, encodeFlag_eq f, ?_, ?_, ?_, ?_, ?_⟩ <;>
    simp [flagMembers, encTargets_eq, List.lookup]

theorem lists_are_arrays (f : Flag) :
    ∃ kvs, Codec.encodeFlag f = .obj kvs ∧
      req kvs "prerequisites" .arr = true ∧ req kvs "targets" .arr = true ∧
      req kvs "contextTargets" .arr = true ∧ req kvs "rules" .arr = true ∧
      req kvs "variations" .arr = true := by
  obtain ⟨kvs, h, h1, h2, h3, h4, h5⟩ := flag_list_members f
  exact ⟨kvs, h, by simp [req, h1], by simp [req, h2], by simp [req, h3], by simp [req, h4],
    by simp [req, h5]⟩

/-- Each element of the "rules" array is an object whose "clauses" member is an array. -/
theorem rule_clauses_array (r : FlagRule) :
    ∃ kvs, encRule r = .obj kvs ∧
      kvs.lookup "clauses" = some (.arr (r.clauses.map encClause)) ∧
      req kvs "clauses" .arr = true := by
  refine ⟨_, rfl, ?_⟩
  have : List.lookup "clauses" (encVR r.vr ++ maybe (r.id != "") "id" (J.str r.id) ++
      [("clauses", J.arr (List.map encClause r.clauses)), ("trackEvents", J.bool r.trackEvents)])
      = some (.arr (r.clauses.map encClause)) := by
    generalize (r.id != "") = b
    cases b <;> simp [List.lookup_append, lookup_maybe, List.lookup, lookup_encVR_other]
  exact ⟨this, by unfold req; rw [this]; rfl⟩

/-- Each clause object's "values" member is an array (the clause's values verbatim). -/
theorem clause_values_array (c : Clause) :
    ∃ kvs, encClause c = .obj kvs ∧ kvs.lookup "values" = some (.arr c.values) ∧
      req kvs "values" .arr = true := by
  refine ⟨_, rfl, ?_⟩
  have : List.lookup "values" (maybe (c.contextKind != "") "contextKind" (J.str c.contextKind) ++
      [("attribute", if !c.attr.isDefined then J.str "" else writeAttrRef c.attr c.contextKind),
        ("op", J.str c.op), ("values", J.arr c.values), ("negate", J.bool c.negate)])
      = some (.arr c.values) := by
    generalize (c.contextKind != "") = b
    cases b <;> simp [List.lookup_append, lookup_maybe, List.lookup]
  exact ⟨this, by unfold req; rw [this]; rfl⟩

/-- A rollout object's "variations" member is an array. -/
theorem rollout_variations_array (r : Rollout) :
    ∃ kvs, encRollout r = .obj kvs ∧
      kvs.lookup "variations" = some (.arr (r.variations.map encWV)) := by
  refine ⟨_, rfl, ?_⟩
  generalize (r.kind != "") = b1
  generalize (r.contextKind != "") = b2
  cases b1 <;> cases b2 <;> simp [List.lookup_append, lookup_maybe, List.lookup]

/-- A target object's "values" member is an array of strings. -/
theorem target_values_array (t : Target) :
    ∃ kvs, encTarget t = .obj kvs ∧ kvs.lookup "values" = some (.arr (t.values.map .str)) := by
  refine ⟨_, rfl, ?_⟩
  generalize (t.contextKind != "") = b1
  cases b1 <;> simp [List.lookup_append, lookup_maybe, List.lookup, jStrs]

theorem segment_list_members (s : Segment) :
    ∃ kvs, Codec.encodeSegment s = .obj kvs ∧
      kvs.lookup "included" = some (.arr (s.included.map .str)) ∧
      kvs.lookup "excluded" = some (.arr (s.excluded.map .str)) ∧
      kvs.lookup "includedContexts" = some (.arr (s.includedContexts.map encSegTarget)) ∧
      kvs.lookup "excludedContexts" = some (.arr (s.excludedContexts.map encSegTarget)) ∧
      kvs.lookup "rules" = some (.arr (s.rules.map encSegRule)) := by
  refine ⟨_, encodeSegment_eq s, ?_, ?_, ?_, ?_, ?_⟩ <;>
    simp [segmentMembers, encSegTargets_eq, jStrs, List.lookup]

theorem segRule_clauses_array (r : SegmentRule) :
    ∃ kvs, encSegRule r = .obj kvs ∧
      kvs.lookup "clauses" = some (.arr (r.clauses.map encClause)) := by
  refine ⟨_, rfl, ?_⟩
  simp [List.lookup]

theorem segTarget_values_array (t : SegmentTarget) :
    ∃ kvs, encSegTarget t = .obj kvs ∧ kvs.lookup "values" = some (.arr (t.values.map .str)) := by
  refine ⟨_, rfl, ?_⟩
  generalize (t.contextKind != "") = b1
  cases b1 <;> simp [List.lookup_append, lookup_maybe, List.lookup, jStrs]

/-! ### 4. Only the documented droppable members can be absent -/

/-- The legacy flag properties: always present. -/
def flagRequired : List String :=
  ["key", "on", "prerequisites", "targets", "contextTargets", "rules", "fallthrough", "offVariation",
   "variations", "clientSide", "salt", "trackEvents", "trackEventsFallthrough",
   "debugEventsUntilDate", "version", "deleted"]

/-- The legacy segment properties: always present. -/
def segmentRequired : List String :=
  ["key", "included", "excluded", "includedContexts", "excludedContexts", "salt", "rules", "version",
   "generation", "deleted"]

theorem droppable_only (f : Flag) :
    ∃ kvs, Codec.encodeFlag f = .obj kvs ∧ ∀ k ∈ flagRequired, (kvs.lookup k).isSome = true := by
  refine ⟨_, encodeFlag_eq f, ?_⟩
  intro k hk
  simp only [flagRequired, List.mem_cons, List.not_mem_nil, or_false] at hk
  rcases hk with rfl | rfl | rfl | rfl | rfl | rfl | rfl | rfl | rfl | rfl | rfl | rfl | rfl | rfl |
    rfl | rfl <;>
    simp [flagMembers, List.lookup_append, lookup_maybe, List.lookup]

theorem droppable_only_segment (s : Segment) :
    ∃ kvs, Codec.encodeSegment s = .obj kvs ∧
      ∀ k ∈ segmentRequired, (kvs.lookup k).isSome = true := by
  refine ⟨_, encodeSegment_eq s, ?_⟩
  intro k hk
  simp only [segmentRequired, List.mem_cons, List.not_mem_nil, or_false] at hk
  rcases hk with rfl | rfl | rfl | rfl | rfl | rfl | rfl | rfl | rfl | rfl <;>
    simp [segmentMembers, List.lookup_append, lookup_maybe, List.lookup]

/-- Conversely the members that *can* be absent are absent for the zero flag: the droppable ones
are really dropped (so the list above is exact for the default value). -/
theorem droppable_dropped :
    ∀ k ∈ ["clientSideAvailability", "migration", "samplingRatio", "excludeFromSummaries"],
      (flagMembers {}).lookup k = none := by
  decide

/-! ### Non-vacuity: the schema is not trivially true -/

example : Schema.flagOK (.obj []) = false := by decide
example : Schema.flagOK (.obj [("key", .str "k"), ("on", .bool true), ("rules", .null)]) = false := by
  decide
/-- A flag object whose "rules" is `null` instead of `[]` violates the schema. -/
example : Schema.req [("rules", J.null)] "rules" .arr = false := by decide
/-- The zero flag (all lists nil) encodes every list as `[]`. -/
example : (flagMembers {}).lookup "rules" = some (.arr []) := by
  simp [flagMembers, List.lookup]
example : (segmentMembers {}).lookup "included" = some (.arr []) := by
  simp [segmentMembers, jStrs, List.lookup]

/-- A concrete flag with nil lists at several levels and negative numbers, checked by evaluation
(independently of the proof above). -/
example : Schema.flagOK (Codec.encodeFlag
    { key := "f", offVariation := some (-1),
      rules := [{ clauses := [{ op := "in", values := [] }],
                  vr := { rollout := { variations := [{ variation := -1, weight := -5 }] } } },
                { clauses := [] }],
      targets := [{ values := [], variation := -3 }],
      fmeta := { migration := some none, debugEventsUntilDate := 1152921504606846977 } }) = true := by
  decide +kernel
example : Schema.segmentOK (Codec.encodeSegment
    { key := "s", rules := [{ clauses := [], weight := some (-7) }],
      includedContexts := [{ values := [] }] }) = true := by
  decide +kernel

end LD.C16

#print axioms LD.C16.flag_schema
#print axioms LD.C16.segment_schema
#print axioms LD.C16.lists_are_arrays
#print axioms LD.C16.flag_list_members
#print axioms LD.C16.rule_clauses_array
#print axioms LD.C16.clause_values_array
#print axioms LD.C16.rollout_variations_array
#print axioms LD.C16.segment_list_members
#print axioms LD.C16.droppable_only
#print axioms LD.C16.droppable_only_segment

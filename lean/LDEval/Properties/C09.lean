/-
  C09 — Prerequisite semantics and prerequisite events.

  "A prerequisite is met iff the prerequisite flag exists, has targeting on, and its own full
  evaluation for the same context yields exactly the required variation index; prerequisites are
  evaluated lazily in listed order, only when the dependent flag is on, stopping at the first unmet
  one. The recorder is called synchronously exactly once per prerequisite evaluation that completed
  (met or not), in depth-first post-order, with the dependent flag's key, the same context, the
  prerequisite flag (and its summary-exclusion setting) and a result equal to what evaluating that
  prerequisite flag on its own returns (apart from the big-segments status annotation, which only
  the top-level result carries); nothing is recorded for a missing prerequisite or for
  prerequisites after the first unmet one. An error met while matching a prerequisite flag's rules,
  and a prerequisite cycle, abort the whole evaluation as MALFORMED_FLAG with no event for the
  aborted flags, whereas an error in selecting a prerequisite flag's variation (bad index, empty
  rollout, invalid bucket-by) is just that flag's result: it is recorded and the dependent flag
  sees an unmet prerequisite."

  Helper definitions used in the statements (all in `LDEval/Proofs/Prereq.lean`, all unfolded
  once below in `loop_step`):
    `lookedUp st k`                   = `{ st with flagLookups := st.flagLookups ++ [k] }`
    `mergedStatus old st2`            = `{ st2 with status := updateStatus old st2.status }`
    `prereqEvent f pf d`              = the event for prerequisite `pf` of `f` with result `d`
    `afterPrereq env f pf old d st2`  = `mergedStatus old st2` plus that one event iff recorder on
    `prereqMet pf p d`                = `pf.on && d.index.isSome && d.index == some p.variation`
-/
import LDEval.Proofs.Prereq
import LDEval.Proofs.AuditEvents

namespace LD.C09

/-! ## 1. Laziness -/

/-- A flag that is off looks no flag up and records nothing (its prerequisites are not touched). -/
theorem off_is_lazy {rec : FlagRec} {seg : SegRec} {env : Env} {f : Flag} {chain : List String}
    {st : St} (h : f.on = false) :
    (evalBody rec seg env f chain st).2.flagLookups = st.flagLookups ∧
    (evalBody rec seg env f chain st).2.events = st.events := by
  unfold evalBody
  simp only [h, Bool.not_false, if_true]
  have := getOffValue_events env f .off st
  generalize getOffValue env f .off st = x at this
  obtain ⟨d, st1⟩ := x
  exact ⟨this.2, this.1⟩

/-- … and its result is the off value with reason OFF, `ok = true`. -/
theorem off_result {rec : FlagRec} {seg : SegRec} {env : Env} {f : Flag} {chain : List String}
    {st : St} (h : f.on = false) :
    evalBody rec seg env f chain st =
      (.done (getOffValue env f .off st).1 true, (getOffValue env f .off st).2) := by
  unfold evalBody
  simp only [h, Bool.not_false, if_true]

/-! ## 2. The loop, one prerequisite at a time -/

/-- ONE STEP of the prerequisite loop for a prerequisite whose flag `pf` exists, is not on the
current path, and whose nested evaluation completed (`ok = true`) with detail `d` in state `st2`:
the status is merged, exactly one event is appended iff the recorder is on, and then — the
prerequisite is met iff `pf` is on and `d.index` is exactly the required variation — the loop
either continues with the remaining prerequisites or stops with `failed p.key`. -/
theorem loop_step {rec : FlagRec} {env : Env} {f : Flag} {chain : List String}
    {p : Prereq} {ps : List Prereq} {st st2 : St} {pf : Flag} {d : Detail}
    (hfind : env.store.findFlag p.key = some pf) (hc : chain.contains pf.key = false)
    (hrec : rec pf chain { st with flagLookups := st.flagLookups ++ [p.key] } = (.done d true, st2)) :
    let st3 : St := { st2 with status := updateStatus st.status st2.status }
    let ev : Event :=
      { targetKey := f.key, prereqKey := pf.key, prereqVersion := pf.fmeta.version,
        result := ⟨d, isExperimentResult pf d.reason⟩,
        excludeFromSummaries := pf.excludeFromSummaries }
    let st4 : St := if env.opts.recorder then { st3 with events := st3.events ++ [ev] } else st3
    prereqLoop rec env f chain (p :: ps) st =
      if pf.on && d.index.isSome && d.index == some p.variation then
        prereqLoop rec env f chain ps st4
      else (.failed p.key, st4) :=
  prereqLoop_done hfind hc hrec

/-- The same, with the helper names. -/
theorem loop_step' {rec : FlagRec} {env : Env} {f : Flag} {chain : List String}
    {p : Prereq} {ps : List Prereq} {st st2 : St} {pf : Flag} {d : Detail}
    (hfind : env.store.findFlag p.key = some pf) (hc : chain.contains pf.key = false)
    (hrec : rec pf chain (lookedUp st p.key) = (.done d true, st2)) :
    prereqLoop rec env f chain (p :: ps) st =
      if prereqMet pf p d then prereqLoop rec env f chain ps (afterPrereq env f pf st.status d st2)
      else (.failed p.key, afterPrereq env f pf st.status d st2) :=
  prereqLoop_done hfind hc hrec

/-- A prerequisite flag that does not exist: the prerequisite is unmet, the only side effect is
the lookup itself — no event, and the later prerequisites are not looked at (the result does not
depend on `ps`). -/
theorem missing_records_nothing {rec : FlagRec} {env : Env} {f : Flag} {chain : List String}
    {p : Prereq} {ps : List Prereq} {st : St} (hfind : env.store.findFlag p.key = none) :
    prereqLoop rec env f chain (p :: ps) st =
      (.failed p.key, { st with flagLookups := st.flagLookups ++ [p.key] }) ∧
    (prereqLoop rec env f chain (p :: ps) st).2.events = st.events := by
  rw [prereqLoop_missing hfind]
  exact ⟨rfl, rfl⟩

/-- An unmet prerequisite stops the loop: the outcome is `failed p.key` in the state right after
this prerequisite's event; the later prerequisites `ps` play no role (no lookup, no evaluation, no
event for them). -/
theorem stops_at_first_unmet {rec : FlagRec} {env : Env} {f : Flag} {chain : List String}
    {p : Prereq} {ps : List Prereq} {st st2 : St} {pf : Flag} {d : Detail}
    (hfind : env.store.findFlag p.key = some pf) (hc : chain.contains pf.key = false)
    (hrec : rec pf chain (lookedUp st p.key) = (.done d true, st2))
    (hunmet : prereqMet pf p d = false) :
    prereqLoop rec env f chain (p :: ps) st = (.failed p.key, afterPrereq env f pf st.status d st2) ∧
    (prereqLoop rec env f chain (p :: ps) st).2.flagLookups = st2.flagLookups ∧
    prereqLoop rec env f chain (p :: ps) st = prereqLoop rec env f chain [p] st := by
  have h1 := prereqLoop_done (f := f) (ps := ps) hfind hc hrec
  have h2 := prereqLoop_done (f := f) (ps := []) hfind hc hrec
  rw [hunmet] at h1 h2
  simp only [Bool.false_eq_true, if_false] at h1 h2
  rw [h1, h2]
  exact ⟨rfl, afterPrereq_flagLookups .., rfl⟩

/-- A met prerequisite lets the loop go on with the next one, in listed order. -/
theorem continues_when_met {rec : FlagRec} {env : Env} {f : Flag} {chain : List String}
    {p : Prereq} {ps : List Prereq} {st st2 : St} {pf : Flag} {d : Detail}
    (hfind : env.store.findFlag p.key = some pf) (hc : chain.contains pf.key = false)
    (hrec : rec pf chain (lookedUp st p.key) = (.done d true, st2))
    (hmet : prereqMet pf p d = true) :
    prereqLoop rec env f chain (p :: ps) st =
      prereqLoop rec env f chain ps (afterPrereq env f pf st.status d st2) := by
  rw [prereqLoop_done hfind hc hrec, if_pos hmet]

/-- Whole-list form of "stops at the first unmet one": if the loop reports `failed k` then `k` is
the key of some listed prerequisite `p`, and whatever is listed after `p` is irrelevant — replacing
it by anything else gives the same outcome and the same final state (same lookups, same events). -/
theorem failed_ignores_rest {rec : FlagRec} {env : Env} {f : Flag} {chain : List String}
    {k : String} :
    ∀ {ps : List Prereq} {st st' : St}, prereqLoop rec env f chain ps st = (.failed k, st') →
      ∃ pre p post, ps = pre ++ p :: post ∧ p.key = k ∧
        ∀ post', prereqLoop rec env f chain (pre ++ p :: post') st = (.failed k, st') := by
  intro ps
  induction ps with
  | nil => intro st st' h; simp [prereqLoop] at h
  | cons p ps ih =>
    intro st st' h
    cases hfind : env.store.findFlag p.key with
    | none =>
      rw [prereqLoop_missing hfind] at h
      simp only [Prod.mk.injEq, PrereqOut.failed.injEq] at h
      obtain ⟨hk, hst⟩ := h
      subst hk hst
      refine ⟨[], p, ps, rfl, rfl, fun post' => ?_⟩
      rw [List.nil_append, prereqLoop_missing hfind]
    | some pf =>
      cases hc : chain.contains pf.key with
      | true => rw [prereqLoop_cycle hfind hc] at h; cases h
      | false =>
        generalize hrec : rec pf chain (lookedUp st p.key) = r at h
        obtain ⟨out, st2⟩ := r
        cases out with
        | oof => rw [prereqLoop_oof hfind hc hrec] at h; cases h
        | done d ok =>
          cases ok with
          | false => rw [prereqLoop_abort hfind hc hrec] at h; cases h
          | true =>
            rw [prereqLoop_done hfind hc hrec] at h
            cases hm : prereqMet pf p d with
            | true =>
              rw [hm] at h
              simp only [if_true] at h
              obtain ⟨pre, q, post, hps, hq, hall⟩ := ih h
              refine ⟨p :: pre, q, post, by rw [hps]; rfl, hq, fun post' => ?_⟩
              rw [List.cons_append, prereqLoop_done hfind hc hrec, hm]
              simp only [if_true]
              exact hall post'
            | false =>
              rw [hm] at h
              simp only [Bool.false_eq_true, if_false, Prod.mk.injEq, PrereqOut.failed.injEq] at h
              obtain ⟨hk, hst⟩ := h
              subst hk hst
              refine ⟨[], p, ps, rfl, rfl, fun post' => ?_⟩
              rw [List.nil_append, prereqLoop_done hfind hc hrec, hm]
              simp only [Bool.false_eq_true, if_false]

/-- A flag that is on but lists no prerequisites checks nothing. -/
theorem no_prereqs {rec : FlagRec} {env : Env} {f : Flag} {chain : List String} {st : St}
    (h : f.prerequisites = []) : checkPrereqs rec env f chain st = (.ok, st) := by
  simp [checkPrereqs, h]

/-- How the dependent flag sees the outcome: an unmet prerequisite gives the off value with
reason PREREQUISITE_FAILED naming the first unmet prerequisite's key. -/
theorem unmet_gives_off_value {rec : FlagRec} {seg : SegRec} {env : Env} {f : Flag}
    {chain : List String} {st st1 : St} {k : String} (hon : f.on = true)
    (h : checkPrereqs rec env f chain st = (.failed k, st1)) :
    evalBody rec seg env f chain st =
      (.done (getOffValue env f (.prereqFailed k) st1).1 true,
        (getOffValue env f (.prereqFailed k) st1).2) := by
  simp [evalBody, hon, h]

/-! ## 3. Post-order -/

/-- The event for `pf` is appended AFTER everything the nested evaluation of `pf` recorded (the
events of `pf`'s own prerequisites, recursively), and before anything recorded for later
prerequisites: depth-first post-order. -/
theorem event_is_post_order {sf n : Nat} {env : Env} {f : Flag} {chain : List String}
    {p : Prereq} {ps : List Prereq} {st st2 : St} {pf : Flag} {d : Detail}
    (hrecorder : env.opts.recorder = true)
    (hfind : env.store.findFlag p.key = some pf) (hc : chain.contains pf.key = false)
    (hrec : evalFlag sf n env pf chain (lookedUp st p.key) = (.done d true, st2)) :
    ∃ nested later,
      st2.events = st.events ++ nested ∧
      (afterPrereq env f pf st.status d st2).events = st.events ++ nested ++ [prereqEvent f pf d] ∧
      (prereqLoop (evalFlag sf n env) env f chain (p :: ps) st).2.events =
        st.events ++ nested ++ [prereqEvent f pf d] ++ later := by
  have hreach := evalFlag_reach sf n env pf chain (lookedUp st p.key)
  rw [hrec] at hreach
  obtain ⟨nested, hn⟩ := reach_events_prefix hreach
  have hn' : st2.events = st.events ++ nested := hn.symm
  have h4 : (afterPrereq env f pf st.status d st2).events =
      st.events ++ nested ++ [prereqEvent f pf d] := by
    rw [afterPrereq_events_on _ _ _ _ _ hrecorder, hn']
  rw [prereqLoop_done hfind hc hrec]
  split
  · have hr := prereqLoop_reach (evalFlag_reach sf n env) f chain ps
      (afterPrereq env f pf st.status d st2)
    obtain ⟨later, hl⟩ := reach_events_prefix hr
    exact ⟨nested, later, hn', h4, by rw [← hl, h4]⟩
  · exact ⟨nested, [], hn', h4, by rw [List.append_nil]; exact h4⟩

/-- With the recorder off nothing is ever recorded. -/
theorem recorder_off_records_nothing {env : Env} (h : env.opts.recorder = false) (f : Flag) :
    (evaluate env f).events = [] :=
  evaluate_no_recorder h f

/-! ## 4. Errors in a prerequisite's own variation selection are results, not aborts -/

/-- If the nested evaluation of `pf` completed (`ok = true`) with an ERROR detail — which is what
a bad variation index, an empty rollout or an invalid bucket-by in `pf`'s own variation selection
produce, see `variation_error_is_ok` below — then the event IS recorded (recorder on) and the
prerequisite is unmet: the loop returns `failed p.key`, it does not abort. -/
theorem variation_error_is_recorded {sf n : Nat} {env : Env} {f : Flag} {chain : List String}
    {p : Prereq} {ps : List Prereq} {st st2 : St} {pf : Flag} {d : Detail}
    (hfind : env.store.findFlag p.key = some pf) (hc : chain.contains pf.key = false)
    (hrec : evalFlag sf n env pf chain (lookedUp st p.key) = (.done d true, st2))
    (herr : d.reason.kind = .error) :
    prereqLoop (evalFlag sf n env) env f chain (p :: ps) st =
      (.failed p.key, afterPrereq env f pf st.status d st2) ∧
    (env.opts.recorder = true →
      (prereqLoop (evalFlag sf n env) env f chain (p :: ps) st).2.events =
        st2.events ++ [prereqEvent f pf d]) := by
  have hidx : d.index = none := wf_error_index_none (evalFlag_wf hrec) herr
  have hunmet : prereqMet pf p d = false := by simp [prereqMet, hidx]
  have h1 := prereqLoop_done (f := f) (ps := ps) hfind hc hrec
  rw [hunmet] at h1
  simp only [Bool.false_eq_true, if_false] at h1
  rw [h1]
  exact ⟨rfl, fun hr => afterPrereq_events_on _ _ _ _ _ hr⟩

/-- An out-of-range variation index is an error RESULT (the state only gets the log line). -/
theorem bad_index_is_error_detail (env : Env) (f : Flag) (i : Int) (r : Reason) (st : St)
    (h : i < 0 ∨ i ≥ f.variations.length) :
    getVariation env f i r st =
      (Detail.forError .malformedFlag, logErr env f.key (.badVariation i) st) := by
  unfold getVariation
  rw [if_pos h]

/-- Where the error details with `ok = true` come from: an error in selecting the variation of the
fallthrough (empty rollout, invalid bucket-by) or of a matched rule is that flag's RESULT with
`ok = true` — contrast `C10.rule_error_aborts`, where an error while MATCHING a rule gives
`ok = false`. -/
theorem variation_error_is_ok {seg : SegRec} {env : Env} {f : Flag} {i : Nat} {st : St}
    {e : EvalErr} (h : variationOrRollout env f.fallthrough f.key f.salt = .error e) :
    rulesLoop seg env f [] i st =
      (.done (Detail.forError .malformedFlag) true, logErr env f.key e st) := by
  simp only [rulesLoop, getValueForVR, h, variationOrRollout_err_kind h]

theorem variation_error_is_ok_rule {seg : SegRec} {env : Env} {f : Flag} {r : FlagRule}
    {rs : List FlagRule} {i : Nat} {st st1 : St} {e : EvalErr}
    (hm : clausesMatch seg env [] r.clauses st = (.ok true, st1))
    (h : variationOrRollout env r.vr f.key f.salt = .error e) :
    rulesLoop seg env f (r :: rs) i st =
      (.done (Detail.forError .malformedFlag) true, logErr env f.key e st1) := by
  simp only [rulesLoop, hm, getValueForVR, h, variationOrRollout_err_kind h]

theorem bad_fallthrough_index_is_ok {seg : SegRec} {env : Env} {f : Flag} {i : Nat} {st : St}
    {v : Int} {inExp : Bool} (h : variationOrRollout env f.fallthrough f.key f.salt = .ok (v, inExp))
    (hbad : v < 0 ∨ v ≥ f.variations.length) :
    rulesLoop seg env f [] i st =
      (.done (Detail.forError .malformedFlag) true, logErr env f.key (.badVariation v) st) := by
  simp only [rulesLoop, getValueForVR, h, bad_index_is_error_detail _ _ _ _ _ hbad]

/-- Error details always have `index = none`, so they can never meet a prerequisite. -/
theorem error_detail_never_meets {sf n : Nat} {env : Env} {pf : Flag} {chain : List String}
    {st st2 : St} {d : Detail} {ok : Bool} (p : Prereq)
    (hrec : evalFlag sf n env pf chain st = (.done d ok, st2)) (herr : d.reason.kind = .error) :
    prereqMet pf p d = false := by
  simp [prereqMet, wf_error_index_none (evalFlag_wf hrec) herr]

/-! ## 5. The recorded result is what evaluating the prerequisite on its own returns -/

/-- (a) More segment fuel never changes a segment answer other than "out of fuel". -/
theorem seg_fuel_mono {n : Nat} {env : Env} {s : Segment} {chain : List String} {r : Res Bool}
    (h : Spec.segContains n env s chain = r) (hne : r ≠ .oof) :
    Spec.segContains (n + 1) env s chain = r := by
  subst h
  exact Spec.segContains_succ env n s chain hne

theorem seg_fuel_mono_le {n m : Nat} (hnm : n ≤ m) {env : Env} {s : Segment} {chain : List String}
    {r : Res Bool} (h : Spec.segContains n env s chain = r) (hne : r ≠ .oof) :
    Spec.segContains m env s chain = r := by
  subst h
  exact Spec.segContains_le env hnm s chain hne

/-- (a) More flag fuel never changes a flag's answer. -/
theorem flag_fuel_mono {sf n : Nat} {env : Env} {f : Flag} {chain : List String}
    {r : Detail × Bool} (h : Spec.evalFlag sf n env f chain = some r) :
    Spec.evalFlag sf (n + 1) env f chain = some r :=
  Spec.evalFlag_succ sf env n f chain r h

theorem flag_fuel_mono_le {sf n m : Nat} (hnm : n ≤ m) {env : Env} {f : Flag}
    {chain : List String} {r : Detail × Bool} (h : Spec.evalFlag sf n env f chain = some r) :
    Spec.evalFlag sf m env f chain = some r :=
  Spec.evalFlag_le sf env hnm f chain r h

/-- (b) CHAIN WEAKENING: an evaluation that completed without abort gives the same answer under any
sub-chain — a completed evaluation never failed a cycle test, and cycle tests are the only use of
the chain. -/
theorem chain_weakening {sf n : Nat} {env : Env} {f : Flag} {chain chain' : List String}
    {d : Detail} (hsub : ∀ k, chain'.contains k = true → chain.contains k = true)
    (h : Spec.evalFlag sf n env f chain = some (d, true)) :
    Spec.evalFlag sf n env f chain' = some (d, true) :=
  Spec.evalFlag_weaken sf env n f chain chain' d hsub h

/-- (c), Spec level: whatever a prerequisite `pf` evaluates to (without abort) under some chain `c`
at some fuel `n ≤ flagFuel`, it evaluates to the same on its own (empty chain, full fuel). -/
theorem standalone_spec {env : Env} {pf : Flag} {c : List String} {n : Nat} {d : Detail}
    (hn : n ≤ flagFuel env.store)
    (h : Spec.evalFlag (segFuel env.store) n env pf c = some (d, true)) :
    Spec.evalFlag (segFuel env.store) (flagFuel env.store) env pf [] = some (d, true) :=
  Spec.evalFlag_weaken_le _ env hn (Spec.SubChain.nil c) h

/-- From the Spec to `evaluate`: if `pf` on its own evaluates (Spec) to `(d, true)` then
`evaluate env pf` returns exactly `d` except for the big-segments status annotation, and the same
experiment bit as the event carries. -/
theorem standalone_result {env : Env} {pf : Flag} {d : Detail} (hctx : env.ctx ≠ .invalid)
    (hs : Spec.evalFlag (segFuel env.store) (flagFuel env.store) env pf [] = some (d, true)) :
    (evaluate env pf).result.detail =
      { d with reason := { d.reason with
          bigSegmentsStatus := (evaluate env pf).result.detail.reason.bigSegmentsStatus } } ∧
    (evaluate env pf).result.isExperiment = isExperimentResult pf d.reason := by
  obtain ⟨_, h1, h2, h3, h4, h5, h6, h7, h8⟩ := evaluate_detail_spec env pf hctx d true hs
  have hdet : (evaluate env pf).result.detail =
      { d with reason := { d.reason with
          bigSegmentsStatus := (evaluate env pf).result.detail.reason.bigSegmentsStatus } } := by
    generalize (evaluate env pf).result.detail = x at h1 h2 h3 h4 h5 h6 h7 h8 ⊢
    obtain ⟨xv, xi, xr⟩ := x
    obtain ⟨rk, ri, rid, rp, re, rx, rb⟩ := xr
    simp only at h1 h2 h3 h4 h5 h6 h7 h8
    subst h1 h2 h3 h4 h5 h6 h7 h8
    rfl
  refine ⟨hdet, ?_⟩
  have hexp : (evaluate env pf).result.isExperiment =
      isExperimentResult pf (evaluate env pf).result.detail.reason := by
    unfold evaluate
    split
    · rename_i hc; exact absurd hc hctx
    · rfl
  rw [hexp]
  unfold isExperimentResult
  rw [h8, h3, h4]

/-- (c), model level, one nested call: if, anywhere inside an evaluation (any chain `c`, any fuel
`n ≤ flagFuel`, any incoming state whose membership cache is consistent with the provider — which
every state reached during `evaluate` is), the nested evaluation of `pf` completes with
`(d, true)`, then `d` — the detail put into the event — is exactly the detail `evaluate env pf`
returns, except for the big-segments status annotation. -/
theorem event_equals_standalone {env : Env} {pf : Flag} {c : List String} {n : Nat} {d : Detail}
    {st1 st2 : St} (hctx : env.ctx ≠ .invalid) (hn : n ≤ flagFuel env.store)
    (hcons : Consistent env st1)
    (h : evalFlag (segFuel env.store) n env pf c st1 = (.done d true, st2)) :
    (evaluate env pf).result.detail =
      { d with reason := { d.reason with
          bigSegmentsStatus := (evaluate env pf).result.detail.reason.bigSegmentsStatus } } ∧
    (evaluate env pf).result.isExperiment = isExperimentResult pf d.reason := by
  have hs : Spec.evalFlag (segFuel env.store) n env pf c = some (d, true) := by
    rw [← (evalFlag_refines (segFuel env.store) n env pf c st1 hcons).1, h]; rfl
  exact standalone_result hctx (standalone_spec hn hs)

/-- (c), the whole evaluation: EVERY event recorded by `evaluate env top` is the event of a listed
prerequisite `p` of some flag `f` (the top flag or a store flag), carries `f`'s key, the OWN key,
version and summary-exclusion setting of the flag `pf` that the store returns for the lookup key
`p.key` (the data provider is free to return a flag whose own key is not `p.key`; the event names
the returned flag, as `PrerequisiteFlagEvent.PrerequisiteFlag` does in Go), and a result equal to
what `evaluate env pf` returns on its own (detail up to the big-segments status annotation, same
experiment bit).  In particular an event exists only for evaluations that completed.  For a
consistent store `e.prereqKey = p.key`: `every_event_prereqKey_consistent`. -/
theorem every_event_equals_standalone (env : Env) (top : Flag) (hctx : env.ctx ≠ .invalid) :
    ∀ e ∈ (evaluate env top).events, ∃ (f pf : Flag) (p : Prereq),
      (f = top ∨ f ∈ env.store.flags.map (·.2)) ∧ p ∈ f.prerequisites ∧
      env.store.findFlag p.key = some pf ∧
      e.targetKey = f.key ∧ e.prereqKey = pf.key ∧ e.prereqVersion = pf.fmeta.version ∧
      e.excludeFromSummaries = pf.excludeFromSummaries ∧
      (evaluate env pf).result.detail =
        { e.result.detail with reason := { e.result.detail.reason with
            bigSegmentsStatus := (evaluate env pf).result.detail.reason.bigSegmentsStatus } } ∧
      (evaluate env pf).result.isExperiment = e.result.isExperiment := by
  intro e he
  obtain ⟨f, pf, p, d, hf, hp, hfind, rfl, hs⟩ := evaluate_events_ok env top e he
  obtain ⟨h1, h2⟩ := standalone_result hctx hs
  exact ⟨f, pf, p, hf, hp, hfind, rfl, rfl, rfl, rfl, h1, h2⟩

/-- In a store that files every flag under its own key, the key an event carries is the key the
dependent flag lists. -/
theorem every_event_prereqKey_consistent (env : Env) (top : Flag)
    (hst : StoreConsistent env.store) :
    ∀ e ∈ (evaluate env top).events, ∃ (f : Flag) (p : Prereq),
      (f = top ∨ f ∈ env.store.flags.map (·.2)) ∧ p ∈ f.prerequisites ∧
      e.targetKey = f.key ∧ e.prereqKey = p.key := by
  intro e he
  obtain ⟨f, pf, p, d, hf, hp, hfind, rfl, _⟩ := evaluate_events_ok env top e he
  exact ⟨f, p, hf, hp, rfl, findFlag_key_consistent hst hfind⟩

/-- The rule loop — rule matching, segment membership, variation selection — records no event and
looks no flag up: the prerequisite loop is the only place where either happens. -/
theorem rules_record_nothing (sf : Nat) (env : Env) (f : Flag) (rules : List FlagRule) (i : Nat)
    (st : St) :
    (rulesLoop (segContains sf env) env f rules i st).2.events = st.events ∧
    (rulesLoop (segContains sf env) env f rules i st).2.flagLookups = st.flagLookups :=
  rulesLoop_sameEv (segContains_sameEv sf env) f rules i st

/-! ## 6. Concrete instances (kernel-evaluated with `decide`): the statements are not vacuous -/

namespace Ex

def ctx : Ctx := .single { kind := "user", key := "u" }

/-- On, fallthrough variation 0 of two variations, off variation 1. -/
def mkFlag (key : String) (prs : List Prereq) : Flag :=
  { key := key, on := true, prerequisites := prs, fallthrough := { variation := some 0 },
    offVariation := some 1, variations := [.str "zero", .str "one"] }

def good := mkFlag "good" []
def leaf := mkFlag "leaf" []
def mid := { mkFlag "mid" [⟨"leaf", 0⟩] with excludeFromSummaries := true,
                                              fmeta := { version := 7 } }
def offFlag := { mkFlag "off" [⟨"leaf", 0⟩] with on := false }
/-- bad variation index in the fallthrough: an error RESULT -/
def badIndex := { mkFlag "badIndex" [] with fallthrough := { variation := some 9 } }
/-- empty rollout in the fallthrough: an error RESULT -/
def emptyRollout := { mkFlag "emptyRollout" [] with fallthrough := {} }
/-- a rule whose clause has no attribute: an error while MATCHING, aborts everything -/
def badRule := { mkFlag "badRule" [] with rules := [{ clauses := [{ op := "in" }] }] }

def env : Env :=
  { opts := { logger := true },
    store := Store.ofLists [good, leaf, mid, offFlag, badIndex, emptyRollout, badRule] [],
    bs := none, ctx := ctx, rx := fun _ _ => none }

def evs (o : Obs) : List (String × String × Option Int × ReasonKind) :=
  o.events.map fun e => (e.targetKey, e.prereqKey, e.result.detail.index, e.result.detail.reason.kind)

/-- All met, listed order, depth-first post-order (`leaf` before `mid`); the event copies the
prerequisite flag's version and summary-exclusion setting. -/
theorem all_met :
    let o := evaluate env (mkFlag "top" [⟨"good", 0⟩, ⟨"mid", 0⟩])
    o.result.detail.index = some 0 ∧ o.result.detail.reason.kind = .fallthrough ∧
    o.flagLookups = ["good", "mid", "leaf"] ∧
    evs o = [("top", "good", some 0, .fallthrough), ("mid", "leaf", some 0, .fallthrough),
             ("top", "mid", some 0, .fallthrough)] ∧
    o.events.map (fun e => (e.prereqVersion, e.excludeFromSummaries)) =
      [(0, false), (0, false), (7, true)] := by decide

/-- Wrong variation: unmet, recorded, and the later prerequisite `mid` is not touched. -/
theorem wrong_variation_stops :
    let o := evaluate env (mkFlag "top" [⟨"good", 1⟩, ⟨"mid", 0⟩])
    o.result.detail.index = some 1 ∧ o.result.detail.reason.kind = .prereqFailed ∧
    o.result.detail.reason.prereqKey = "good" ∧
    o.flagLookups = ["good"] ∧ evs o = [("top", "good", some 0, .fallthrough)] := by decide

/-- Missing prerequisite: unmet, looked up, NOT recorded; `good` after it is not touched. -/
theorem missing_prereq :
    let o := evaluate env (mkFlag "top" [⟨"nope", 0⟩, ⟨"good", 0⟩])
    o.result.detail.reason.kind = .prereqFailed ∧ o.result.detail.reason.prereqKey = "nope" ∧
    o.flagLookups = ["nope"] ∧ o.events.length = 0 := by decide

/-- A prerequisite flag that is off is unmet even if its off variation is the required one; it is
recorded (reason OFF), and being off it did not look at its own prerequisite `leaf`. -/
theorem off_prereq_unmet :
    let o := evaluate env (mkFlag "top" [⟨"off", 1⟩])
    o.result.detail.reason.kind = .prereqFailed ∧ o.result.detail.reason.prereqKey = "off" ∧
    o.flagLookups = ["off"] ∧ evs o = [("top", "off", some 1, .off)] := by decide

/-- A dependent flag that is off evaluates no prerequisite at all. -/
theorem off_dependent_is_lazy :
    let o := evaluate env { mkFlag "top" [⟨"good", 0⟩] with on := false }
    o.result.detail.index = some 1 ∧ o.result.detail.reason.kind = .off ∧
    o.flagLookups = [] ∧ o.events.length = 0 := by decide

/-- Bad variation index / empty rollout in the prerequisite's own variation selection: that flag's
result is an error, it IS recorded, the dependent flag just sees an unmet prerequisite. -/
theorem variation_error_recorded :
    let o := evaluate env (mkFlag "top" [⟨"badIndex", 0⟩])
    o.result.detail.index = some 1 ∧ o.result.detail.reason.kind = .prereqFailed ∧
    evs o = [("top", "badIndex", none, .error)] ∧
    o.logs = [⟨"badIndex", .badVariation 9⟩] := by decide

theorem empty_rollout_recorded :
    let o := evaluate env (mkFlag "top" [⟨"emptyRollout", 0⟩])
    o.result.detail.index = some 1 ∧ o.result.detail.reason.kind = .prereqFailed ∧
    evs o = [("top", "emptyRollout", none, .error)] ∧
    o.logs = [⟨"emptyRollout", .emptyRollout⟩] := by decide

/-- An error while matching the prerequisite's RULES aborts everything as MALFORMED_FLAG; the
completed `good` keeps its event, the aborted `badRule` gets none, `mid` is never reached. -/
theorem rule_error_aborts_all :
    let o := evaluate env (mkFlag "top" [⟨"good", 0⟩, ⟨"badRule", 0⟩, ⟨"mid", 0⟩])
    o.result.detail.index = none ∧ o.result.detail.reason.errorKind = some .malformedFlag ∧
    o.flagLookups = ["good", "badRule"] ∧ evs o = [("top", "good", some 0, .fallthrough)] ∧
    o.logs = [⟨"badRule", .emptyAttr⟩] := by decide

/-- Recorder off: same result, no events. -/
theorem recorder_off :
    let o := evaluate { env with opts := { recorder := false } }
      (mkFlag "top" [⟨"good", 0⟩, ⟨"mid", 0⟩])
    o.result.detail.index = some 0 ∧ o.flagLookups = ["good", "mid", "leaf"] ∧
    o.events.length = 0 := by decide

end Ex

/-! ## Strengthened statements (theorem audit) -/

/-! ### Finding #30 — a global specification of the event list, and `evaluate` equals it

The specification lives in `Proofs/AuditEvents.lean` (`EventSpec.*`); it is a plain recursion over
the prerequisite graph of the store, without state:

  `edgesLoop res nested env f chain (p :: ps)` =
    * `[]`                                   if the store has no flag for `p.key`          (missing)
    * `[]`                                   if the returned flag `pf` is on the path      (cycle)
    * `nested pf chain`                      if the nested evaluation aborted              (abort)
    * `nested pf chain ++ ⟨f, p, pf, d⟩ :: (if met then edgesLoop … ps else [])`           (completed with `d`)

  `edges sf (n+1) env f chain` = if `f.on` then the loop over `f.prerequisites` with
     `res := Spec.evalFlag sf n env`, `nested := edges sf n env`, path `chain ++ [f.key]`, else `[]`.

  `expectedEvents env f` = `(edges segFuel flagFuel env f []).map Edge.event`
  `expectedLookups env f` = the same recursion for the lookup keys (pre-order, one key per
     prerequisite reached, including the missing / cyclic / aborted / unmet one that ends a loop). -/

open EventSpec in
/-- THE EVENT LIST OF `evaluate` IS THE SPECIFICATION, for every environment and every flag (the
recorder on, a valid context): for each prerequisite of the flag in listed order, first the events
of the nested evaluation of that prerequisite (recursively), then exactly one event for the
prerequisite itself carrying its result; the walk ends after the first prerequisite that is unmet
(whose event is still there), at a missing prerequisite (no event), at a cycle (no event) and at an
aborted nested evaluation (no event for the aborted flag; what completed inside it is kept).
For Go: the sequence of `PrerequisiteFlagEventRecorder` calls of one `Evaluate` is exactly this
list — no call missing, none twice, none in another order. -/
theorem events_eq_spec (env : Env) (f : Flag) (hctx : env.ctx ≠ .invalid)
    (hrecorder : env.opts.recorder = true) :
    (evaluate env f).events = expectedEvents env f := by
  rw [(evaluate_trace env f hctx).1]
  simp [evOf, hrecorder, expectedEvents]

open EventSpec in
/-- The same without hypotheses: nothing for an invalid context, nothing with the recorder off, the
specified list otherwise. -/
theorem events_spec_total (env : Env) (f : Flag) :
    (evaluate env f).events =
      match env.ctx with
      | .invalid => []
      | _ => if env.opts.recorder then expectedEvents env f else [] := by
  split
  · rename_i hc; exact (evaluate_invalid_trace env f hc).1
  · rename_i hc
    have hctx : env.ctx ≠ .invalid := fun h => hc h
    rw [(evaluate_trace env f hctx).1]
    rfl

open EventSpec in
/-- The keys `evaluate` hands to `GetFeatureFlag` are exactly the specified ones, in call order:
each listed prerequisite key up to and including the first that is missing, cyclic, aborted or
unmet, each followed by the lookups of its nested evaluation — with the recorder on or off. -/
theorem lookups_eq_spec (env : Env) (f : Flag) (hctx : env.ctx ≠ .invalid) :
    (evaluate env f).flagLookups = expectedLookups env f :=
  (evaluate_trace env f hctx).2

/-- The hypotheses of `events_eq_spec` hold for the example environment, and there the
specification (computed by the kernel, independently of `evaluate`) is the three-event post-order
list of `Ex.all_met`. -/
example :
    Ex.env.ctx ≠ .invalid ∧ Ex.env.opts.recorder = true ∧
    (EventSpec.expectedEvents Ex.env (Ex.mkFlag "top" [⟨"good", 0⟩, ⟨"mid", 0⟩])).map
        (fun e => (e.targetKey, e.prereqKey, e.prereqVersion, e.excludeFromSummaries)) =
      [("top", "good", 0, false), ("mid", "leaf", 0, false), ("top", "mid", 7, true)] ∧
    EventSpec.expectedLookups Ex.env (Ex.mkFlag "top" [⟨"good", 0⟩, ⟨"mid", 0⟩]) =
      ["good", "mid", "leaf"] := by
  refine ⟨(by intro h; cases h), by decide, by decide, by decide⟩

/-- The specification stops where it should: an unmet first prerequisite leaves one event and one
lookup; a missing one leaves a lookup and no event; a rule-matching error in the second
prerequisite keeps the first event and records nothing for the aborted flag. -/
example :
    (EventSpec.expectedEvents Ex.env (Ex.mkFlag "top" [⟨"good", 1⟩, ⟨"mid", 0⟩])).map
        (fun e => (e.targetKey, e.prereqKey)) = [("top", "good")] ∧
    EventSpec.expectedLookups Ex.env (Ex.mkFlag "top" [⟨"good", 1⟩, ⟨"mid", 0⟩]) = ["good"] ∧
    (EventSpec.expectedEvents Ex.env (Ex.mkFlag "top" [⟨"nope", 0⟩, ⟨"good", 0⟩])).length = 0 ∧
    EventSpec.expectedLookups Ex.env (Ex.mkFlag "top" [⟨"nope", 0⟩, ⟨"good", 0⟩]) = ["nope"] ∧
    (EventSpec.expectedEvents Ex.env
        (Ex.mkFlag "top" [⟨"good", 0⟩, ⟨"badRule", 0⟩, ⟨"mid", 0⟩])).map
        (fun e => (e.targetKey, e.prereqKey)) = [("top", "good")] ∧
    EventSpec.expectedLookups Ex.env
        (Ex.mkFlag "top" [⟨"good", 0⟩, ⟨"badRule", 0⟩, ⟨"mid", 0⟩]) = ["good", "badRule"] := by
  refine ⟨by decide, by decide, by decide, by decide, by decide, by decide⟩

/-! ### Findings #29 and #30 — the whole list, edge by edge -/

/-- A list of edges all satisfying `P` is in one-to-one positional correspondence with its list of
events. -/
theorem forall₂_events_edges {P : Edge → Prop} :
    ∀ L : List Edge, (∀ e ∈ L, P e) →
      List.Forall₂ (fun ev e => ev = e.event ∧ P e) (L.map Edge.event) L := by
  intro L
  induction L with
  | nil => intro _; exact .nil
  | cons e L ih =>
    intro h
    exact .cons ⟨rfl, h e (List.mem_cons_self ..)⟩ (ih fun x hx => h x (List.mem_cons_of_mem _ hx))

open EventSpec in
/-- EXACTLY ONE EVENT PER EVALUATED PREREQUISITE EDGE, AND WHAT EACH EVENT CARRIES (whole list).
The events of `evaluate env top` and the evaluated edges of the specification correspond one to
one, position by position (`List.Forall₂`: same length, same order), and for each pair:
* the edge is an edge of the store graph: its dependent flag `e.dep` is `top` or a flag of the
  store, `e.prereq` is listed in `e.dep.prerequisites`, and `e.pf` is the flag the store returns for
  the looked-up key `e.prereq.key`;
* the event's `targetKey` is the key of that dependent flag — the flag whose prerequisite list
  contained the prerequisite;
* the event's `prereqKey`, `prereqVersion` and `excludeFromSummaries` are the own key, the version
  and the exclusion setting of the RETURNED flag `e.pf`;
* the event's result is the detail `e.d` of a COMPLETED evaluation of `e.pf` on its own, with the
  experiment bit computed from `e.pf` (see `edge_result_is_standalone` for `evaluate env e.pf`).
This is as much of "the same context / the prerequisite flag" as the model's `Event` can carry:
the model has one context per call and the event has no flag pointer, so a Go implementation that
passed another context, or another flag value agreeing on key, version and exclusion bit, is beyond
these theorems (harness). -/
theorem events_one_per_evaluated_edge (env : Env) (top : Flag) (hctx : env.ctx ≠ .invalid)
    (hrecorder : env.opts.recorder = true) :
    List.Forall₂
      (fun ev e =>
        (ev.targetKey = e.dep.key ∧ ev.prereqKey = e.pf.key ∧
          ev.prereqVersion = e.pf.fmeta.version ∧
          ev.excludeFromSummaries = e.pf.excludeFromSummaries ∧
          ev.result.detail = e.d ∧ ev.result.isExperiment = isExperimentResult e.pf e.d.reason) ∧
        (e.dep = top ∨ e.dep ∈ env.store.flags.map (·.2)) ∧ e.prereq ∈ e.dep.prerequisites ∧
        env.store.findFlag e.prereq.key = some e.pf ∧
        Spec.evalFlag (segFuel env.store) (flagFuel env.store) env e.pf [] = some (e.d, true))
      (evaluate env top).events (evaluatedEdges env top) := by
  rw [events_eq_spec env top hctx hrecorder]
  have h := forall₂_events_edges (P := EdgeOK env top) (evaluatedEdges env top)
    (edges_ok env top _ (Nat.le_refl _) top [] (.inl rfl))
  refine List.Forall₂.imp ?_ h
  rintro ev e ⟨rfl, hok⟩
  exact ⟨⟨rfl, rfl, rfl, rfl, rfl, rfl⟩, hok⟩

open EventSpec in
/-- In a store that files every flag under its own key, the whole list of `prereqKey`s is the list
of the LISTED keys of the evaluated edges, and the whole list of `targetKey`s the list of the keys
of the flags that listed them. -/
theorem events_keys_consistent (env : Env) (top : Flag) (hctx : env.ctx ≠ .invalid)
    (hrecorder : env.opts.recorder = true) (hst : StoreConsistent env.store) :
    (evaluate env top).events.map (fun ev => (ev.targetKey, ev.prereqKey)) =
      (evaluatedEdges env top).map (fun e => (e.dep.key, e.prereq.key)) := by
  rw [events_eq_spec env top hctx hrecorder, expectedEvents, List.map_map]
  apply List.map_congr_left
  intro e he
  have hok := edges_ok env top _ (Nat.le_refl _) top [] (.inl rfl) e he
  show (e.dep.key, e.pf.key) = (e.dep.key, e.prereq.key)
  rw [findFlag_key_consistent hst hok.2.2.1]

/-- `StoreConsistent` holds for the example store (it is built with `Store.ofLists`). -/
example : StoreConsistent Ex.env.store := by
  constructor
  · intro e he
    simp only [Ex.env, Store.ofLists, List.mem_map] at he
    obtain ⟨f, _, rfl⟩ := he
    rfl
  · intro e he
    simp [Ex.env, Store.ofLists] at he

open EventSpec in
/-- In particular the number of recorder calls is the number of evaluated edges. -/
theorem events_length_eq_edges (env : Env) (top : Flag) (hctx : env.ctx ≠ .invalid)
    (hrecorder : env.opts.recorder = true) :
    (evaluate env top).events.length = (evaluatedEdges env top).length :=
  (events_one_per_evaluated_edge env top hctx hrecorder).length_eq

open EventSpec in
/-- What an evaluated edge's detail has to do with `evaluate`: it is the detail `evaluate env e.pf`
returns, up to the big-segments status annotation, with the same experiment bit. -/
theorem edge_result_is_standalone (env : Env) (top : Flag) (hctx : env.ctx ≠ .invalid) :
    ∀ e ∈ evaluatedEdges env top,
      (evaluate env e.pf).result.detail =
        { e.d with reason := { e.d.reason with
            bigSegmentsStatus := (evaluate env e.pf).result.detail.reason.bigSegmentsStatus } } ∧
      (evaluate env e.pf).result.isExperiment = e.event.result.isExperiment := by
  intro e he
  have hok := edges_ok env top _ (Nat.le_refl _) top [] (.inl rfl) e he
  exact standalone_result hctx hok.2.2.2

/-- Never more recorder calls than store lookups (every event belongs to a lookup that found a
flag whose evaluation completed) — for every environment, recorder on or off. -/
theorem events_length_le_lookups (env : Env) (f : Flag) :
    (evaluate env f).events.length ≤ (evaluate env f).flagLookups.length := by
  cases hc : env.ctx with
  | invalid =>
    obtain ⟨h1, h2⟩ := EventSpec.evaluate_invalid_trace env f hc
    rw [h1, h2]; exact Nat.le_refl _
  | single c =>
    have hctx : env.ctx ≠ .invalid := by rw [hc]; intro h; cases h
    obtain ⟨h1, h2⟩ := EventSpec.evaluate_trace env f hctx
    rw [h1, h2]
    unfold EventSpec.evOf
    split
    · rw [List.length_map]; exact EventSpec.edges_length_le _ env _ f []
    · exact Nat.zero_le _
  | multi cs =>
    have hctx : env.ctx ≠ .invalid := by rw [hc]; intro h; cases h
    obtain ⟨h1, h2⟩ := EventSpec.evaluate_trace env f hctx
    rw [h1, h2]
    unfold EventSpec.evOf
    split
    · rw [List.length_map]; exact EventSpec.edges_length_le _ env _ f []
    · exact Nat.zero_le _

/-! ### Post-order of the whole list -/

open EventSpec in
/-- DEPTH-FIRST POST-ORDER, for the whole list: wherever the event list of `evaluate env top` is
split at an event `ev`, that event belongs to an edge `e` of the store graph, and the events
IMMEDIATELY before it are the complete event list of evaluating the prerequisite flag `e.pf` on its
own (`<:+` is "is a suffix of"): every prerequisite's event comes directly after all events of its
own prerequisites, recursively, and before anything of a later sibling. -/
theorem events_post_order (env : Env) (top : Flag) (hctx : env.ctx ≠ .invalid)
    (hrecorder : env.opts.recorder = true) (pre post : List Event) (ev : Event)
    (h : (evaluate env top).events = pre ++ ev :: post) :
    ∃ e : Edge, ev = e.event ∧ EdgeOK env top e ∧ (evaluate env e.pf).events <:+ pre := by
  rw [events_eq_spec env top hctx hrecorder] at h
  unfold expectedEvents at h
  obtain ⟨l₁, l₂, hl, rfl, h2⟩ := List.map_eq_append_iff.mp h
  obtain ⟨e, l₃, rfl, rfl, rfl⟩ := List.map_eq_cons_iff.mp h2
  have hpo := edges_postOrdered env _ (Nat.le_refl _) top [] l₁ e l₃ hl
  refine ⟨e, rfl, ?_, ?_⟩
  · apply edges_ok env top _ (Nat.le_refl _) top [] (.inl rfl)
    show e ∈ evaluatedEdges env top
    rw [hl]; simp
  · rw [events_eq_spec env e.pf hctx hrecorder]
    exact hpo.map Edge.event

/-- `events_post_order` applied: in `Ex.all_met` the list is `[good, leaf, mid]`; splitting at the
event of `mid` leaves `[good, leaf]` before it, whose suffix `[leaf]` is what `mid` records alone. -/
example :
    let o := evaluate Ex.env (Ex.mkFlag "top" [⟨"good", 0⟩, ⟨"mid", 0⟩])
    Ex.evs o = [("top", "good", some 0, .fallthrough), ("mid", "leaf", some 0, .fallthrough),
                ("top", "mid", some 0, .fallthrough)] ∧
    Ex.evs (evaluate Ex.env Ex.mid) = [("mid", "leaf", some 0, .fallthrough)] := by decide

/-! ### The recursion equation of a completed evaluation, in terms of `evaluate` alone -/

/-- The events due for the prerequisites `ps` of `f` when every nested evaluation is replaced by the
evaluation of the prerequisite flag ON ITS OWN — no fuel, no path: for each listed prerequisite
whose flag `pf` the store has, everything `evaluate env pf` records, then — iff that evaluation
completed with detail `d` — the event of `pf` itself, going on to the next prerequisite iff it was
met.  (The last branch, an aborted `pf`, does not occur below a completed evaluation.) -/
def standaloneEvents (env : Env) (f : Flag) : List Prereq → List Event
  | [] => []
  | p :: ps =>
    match env.store.findFlag p.key with
    | none => []
    | some pf =>
      match Spec.evalFlag (segFuel env.store) (flagFuel env.store) env pf [] with
      | some (d, true) =>
        (evaluate env pf).events ++
          prereqEvent f pf d :: (if prereqMet pf p d then standaloneEvents env f ps else [])
      | _ => (evaluate env pf).events

open EventSpec in
theorem standaloneEvents_eq (env : Env) (f : Flag) (hctx : env.ctx ≠ .invalid)
    (hrecorder : env.opts.recorder = true) :
    ∀ ps, (edgesLoop (standaloneRes env) (fun pf _ => evaluatedEdges env pf) env f [] ps).map
        Edge.event = standaloneEvents env f ps := by
  intro ps
  induction ps with
  | nil => rfl
  | cons p ps ih =>
    cases hfind : env.store.findFlag p.key with
    | none => rw [edgesLoop_missing hfind]; simp [standaloneEvents, hfind]
    | some pf =>
      have hc : ([] : List String).contains pf.key = false := rfl
      have hev : (evaluate env pf).events = (evaluatedEdges env pf).map Edge.event :=
        events_eq_spec env pf hctx hrecorder
      cases hr : Spec.evalFlag (segFuel env.store) (flagFuel env.store) env pf [] with
      | none =>
        rw [edgesLoop_oof hfind hc (show standaloneRes env pf [] = none from hr)]
        simp only [standaloneEvents, hfind, hr, hev]
      | some r =>
        obtain ⟨d, ok⟩ := r
        cases ok with
        | false =>
          rw [edgesLoop_abort hfind hc (show standaloneRes env pf [] = some (d, false) from hr)]
          simp only [standaloneEvents, hfind, hr, hev]
        | true =>
          rw [edgesLoop_done hfind hc (show standaloneRes env pf [] = some (d, true) from hr)]
          simp only [standaloneEvents, hfind, hr, List.map_append, List.map_cons, hev]
          split
          · rw [ih]; rfl
          · rfl

/-- THE RECURSION EQUATION ON THE STORE GRAPH, in terms of `evaluate` alone.  If the evaluation of
`f` completed without abort, what it records is: nothing if `f` is off; otherwise, for each listed
prerequisite in order, ALL the events of `evaluate env pf` (the prerequisite flag on its own), then
the one event of `pf` itself, stopping after the first unmet prerequisite and at a missing one.
No fuel and no path occur in this statement. -/
theorem events_of_completed (env : Env) (f : Flag) (hctx : env.ctx ≠ .invalid)
    (hrecorder : env.opts.recorder = true) {d : Detail}
    (hok : Spec.evalFlag (segFuel env.store) (flagFuel env.store) env f [] = some (d, true)) :
    (evaluate env f).events =
      if f.on then standaloneEvents env f f.prerequisites else [] := by
  rw [events_eq_spec env f hctx hrecorder, EventSpec.expectedEvents,
    EventSpec.evaluatedEdges_unfold hok]
  split
  · exact standaloneEvents_eq env f hctx hrecorder _
  · rfl

/-- `hok` is satisfiable for a flag with nested prerequisites. -/
example : (Spec.evalFlag (segFuel Ex.env.store) (flagFuel Ex.env.store) Ex.env
    (Ex.mkFlag "top" [⟨"good", 0⟩, ⟨"mid", 0⟩]) []).map (·.2) = some true := by decide

/-- A sufficient condition for `hok` that only mentions `evaluate`: the result is not an error. -/
theorem completed_of_not_error (env : Env) (f : Flag) (hctx : env.ctx ≠ .invalid)
    (hne : (evaluate env f).result.detail.reason.kind ≠ .error) :
    ∃ d, Spec.evalFlag (segFuel env.store) (flagFuel env.store) env f [] = some (d, true) := by
  have href := (evalFlag_refines (segFuel env.store) (flagFuel env.store) env f [] {}
    (Consistent.empty env)).1
  generalize hr : evalFlag (segFuel env.store) (flagFuel env.store) env f [] {} = r at href
  obtain ⟨out, st⟩ := r
  rcases evaluate_valid f hctx hr with ⟨d, ok, rfl, _, hdet⟩ | ⟨rfl, hoof⟩
  · cases ok with
    | true => exact ⟨d, href.symm⟩
    | false =>
      exfalso
      apply hne
      rw [hdet, withStatus_kind, (abort_is_malformed hr).1]
      rfl
  · rw [evaluate_total] at hoof; cases hoof

/-- `hne` is satisfiable (and so is the conclusion's use in `events_of_completed`). -/
example : (evaluate Ex.env (Ex.mkFlag "top" [⟨"good", 0⟩, ⟨"mid", 0⟩])).result.detail.reason.kind
    ≠ .error := by decide

/-- `events_of_completed` with the hypothesis stated on `evaluate`. -/
theorem events_of_not_error (env : Env) (f : Flag) (hctx : env.ctx ≠ .invalid)
    (hrecorder : env.opts.recorder = true)
    (hne : (evaluate env f).result.detail.reason.kind ≠ .error) :
    (evaluate env f).events =
      if f.on then standaloneEvents env f f.prerequisites else [] := by
  obtain ⟨d, hok⟩ := completed_of_not_error env f hctx hne
  exact events_of_completed env f hctx hrecorder hok

/-- The lookups due for the prerequisites `ps` when every nested evaluation is replaced by the
evaluation of the prerequisite flag on its own: the listed key, then (if the store has a flag for
it) everything `evaluate env pf` looks up, then the next prerequisite iff this one completed and was
met. -/
def standaloneLookups (env : Env) : List Prereq → List String
  | [] => []
  | p :: ps =>
    p.key ::
      match env.store.findFlag p.key with
      | none => []
      | some pf =>
        (evaluate env pf).flagLookups ++
          match Spec.evalFlag (segFuel env.store) (flagFuel env.store) env pf [] with
          | some (d, true) => if prereqMet pf p d then standaloneLookups env ps else []
          | _ => []

open EventSpec in
theorem standaloneLookups_eq (env : Env) (hctx : env.ctx ≠ .invalid) :
    ∀ ps, lookupsLoop (standaloneRes env) (fun pf _ => expectedLookups env pf) env [] ps =
      standaloneLookups env ps := by
  intro ps
  induction ps with
  | nil => rfl
  | cons p ps ih =>
    cases hfind : env.store.findFlag p.key with
    | none => rw [lookupsLoop_missing hfind]; simp [standaloneLookups, hfind]
    | some pf =>
      have hc : ([] : List String).contains pf.key = false := rfl
      have hl : (evaluate env pf).flagLookups = expectedLookups env pf :=
        lookups_eq_spec env pf hctx
      cases hr : Spec.evalFlag (segFuel env.store) (flagFuel env.store) env pf [] with
      | none =>
        rw [lookupsLoop_oof hfind hc (show standaloneRes env pf [] = none from hr)]
        simp only [standaloneLookups, hfind, hr, hl, List.append_nil]
      | some r =>
        obtain ⟨d, ok⟩ := r
        cases ok with
        | false =>
          rw [lookupsLoop_abort hfind hc (show standaloneRes env pf [] = some (d, false) from hr)]
          simp only [standaloneLookups, hfind, hr, hl, List.append_nil]
        | true =>
          rw [lookupsLoop_done hfind hc (show standaloneRes env pf [] = some (d, true) from hr)]
          simp only [standaloneLookups, hfind, hr, hl]
          split
          · rw [ih]
          · rfl

/-- "Lookups are a prefix of the list ending at the first unmet one", globally: a completed
evaluation of a flag that is on asks the store for each listed prerequisite key in order, each
followed by all the lookups of that prerequisite's own evaluation, up to and including the first
prerequisite that is missing or unmet — and for nothing else. -/
theorem lookups_of_completed (env : Env) (f : Flag) (hctx : env.ctx ≠ .invalid) {d : Detail}
    (hok : Spec.evalFlag (segFuel env.store) (flagFuel env.store) env f [] = some (d, true)) :
    (evaluate env f).flagLookups =
      if f.on then standaloneLookups env f.prerequisites else [] := by
  rw [lookups_eq_spec env f hctx, (EventSpec.trace_unfold hok).2]
  split
  · exact standaloneLookups_eq env hctx _
  · rfl

/-- What a completed NESTED evaluation records and looks up does not depend on the path it was
reached by nor on the remaining fuel: it is what the flag records and looks up on its own (general
observation G2 of the audit, for the two channels of this property). -/
theorem nested_trace_is_standalone {env : Env} {n : Nat} {pf : Flag} {c : List String} {d : Detail}
    (hn : n ≤ flagFuel env.store)
    (h : Spec.evalFlag (segFuel env.store) n env pf c = some (d, true)) :
    EventSpec.edges (segFuel env.store) n env pf c = EventSpec.evaluatedEdges env pf ∧
    EventSpec.lookups (segFuel env.store) n env pf c = EventSpec.expectedLookups env pf :=
  EventSpec.trace_standalone hn h

/-- `h` of `nested_trace_is_standalone` is satisfiable with a non-empty path and less fuel. -/
example : (Spec.evalFlag (segFuel Ex.env.store) 3 Ex.env Ex.mid ["top"]).map (·.2) = some true := by
  decide

end LD.C09

#print axioms LD.C09.off_is_lazy
#print axioms LD.C09.loop_step
#print axioms LD.C09.missing_records_nothing
#print axioms LD.C09.stops_at_first_unmet
#print axioms LD.C09.failed_ignores_rest
#print axioms LD.C09.event_is_post_order
#print axioms LD.C09.variation_error_is_recorded
#print axioms LD.C09.variation_error_is_ok
#print axioms LD.C09.seg_fuel_mono
#print axioms LD.C09.flag_fuel_mono
#print axioms LD.C09.chain_weakening
#print axioms LD.C09.standalone_spec
#print axioms LD.C09.event_equals_standalone
#print axioms LD.C09.every_event_equals_standalone
#print axioms LD.C09.rules_record_nothing
#print axioms LD.C09.Ex.all_met
#print axioms LD.C09.Ex.rule_error_aborts_all
#print axioms LD.C09.events_eq_spec
#print axioms LD.C09.events_spec_total
#print axioms LD.C09.lookups_eq_spec
#print axioms LD.C09.events_one_per_evaluated_edge
#print axioms LD.C09.events_length_eq_edges
#print axioms LD.C09.edge_result_is_standalone
#print axioms LD.C09.events_length_le_lookups
#print axioms LD.C09.events_post_order
#print axioms LD.C09.events_of_completed
#print axioms LD.C09.events_of_not_error
#print axioms LD.C09.completed_of_not_error
#print axioms LD.C09.lookups_of_completed
#print axioms LD.C09.nested_trace_is_standalone
#print axioms LD.C09.events_keys_consistent

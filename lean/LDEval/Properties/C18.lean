/-
  C18 — Timestamp operands denote the right instant.

  Every RFC 3339 timestamp string (any offset, up to nanosecond fractions, years 0000-9999) and every
  numeric epoch-millisecond value in the same range is converted to the instant it denotes, so
  before/after implement strict chronological order, string and numeric forms of one instant are
  interchangeable on either side of a clause, and equal instants are neither before nor after each
  other.  Values that are not timestamps (other JSON types, strings missing or garbling a mandatory
  field, truncated strings) never match and never panic.
-/
import LDEval.Proofs.Time
import LDEval.Proofs.TimeComplete
import LDEval.Model.Clause

namespace LD.C18
open LD.Time

/-! ### 1. Strings and numbers denote the right instant -/

/-- A string whose bytes are the rendering of a valid structured timestamp (any zone offset, 0–9
fraction digits, year 0000–9999, `T`/`t`, `Z`/`z`, one- or two-digit hour) converts to exactly the
instant (ns since the Unix epoch) that timestamp denotes. -/
theorem string_denotes (s : Stamp) (h : s.Valid) (str : String)
    (hb : str.toUTF8.toList = s.render) :
    Time.valueToTimestamp (.str str) = some s.denotes :=
  valueToTimestamp_render str s h hb

/-- A numeric operand that is an integer number `m` of epoch milliseconds (int64 range) denotes
`m`·10⁶ ns. -/
theorem numeric_denotes (m : Int) (h : int64Min ≤ m ∧ m ≤ int64Max) :
    Time.valueToTimestamp (.num (m : Rat)) = some (m * 1000000) :=
  valueToTimestamp_millis m h

/-- A string and a number for the same instant convert to the same thing. -/
theorem string_numeric_agree (s : Stamp) (h : s.Valid) (str : String)
    (hb : str.toUTF8.toList = s.render) (m : Int) (hm : int64Min ≤ m ∧ m ≤ int64Max)
    (hd : s.denotes = m * 1000000) :
    Time.valueToTimestamp (.str str) = Time.valueToTimestamp (.num (m : Rat)) := by
  rw [string_denotes s h str hb, numeric_denotes m hm, hd]

/-! ### 2. before / after are strict chronological order -/

/-- The clause side of a date comparison for a clause without preprocessed data. -/
theorem valueAsTimestamp_plain (c : Clause) (hpre : c.pre = {}) (i : Nat) :
    c.valueAsTimestamp i = (c.values[i]?).bind Time.valueToTimestamp := by
  simp [Clause.valueAsTimestamp, hpre]

/-- A clause as it is after decoding: with the table `preprocessClause` builds. -/
def pre (rx : RegexOracle) (c : Clause) : Clause := { c with pre := preprocessClause rx c }

theorem preprocessClauses_eq (rx : RegexOracle) (cs : List Clause) :
    preprocessClauses rx cs = cs.map (pre rx) := rfl

@[simp] theorem pre_op (rx : RegexOracle) (c : Clause) : (pre rx c).op = c.op := rfl
@[simp] theorem pre_values (rx : RegexOracle) (c : Clause) : (pre rx c).values = c.values := rfl

/-- The clause side of a date comparison for a preprocessed before/after clause: the table built
by `preprocessClause` holds exactly the conversions of the clause values. -/
theorem valueAsTimestamp_preprocessed (rx : RegexOracle) (c : Clause)
    (hop : c.op = "before" ∨ c.op = "after") (i : Nat) :
    (pre rx c).valueAsTimestamp i =
      (c.values[i]?).bind Time.valueToTimestamp := by
  have hpre : (preprocessClause rx c).values = some (c.values.map fun v =>
        match Time.valueToTimestamp v with
        | some t => { valid := true, time := t }
        | none => { valid := false }) := by
    rcases hop with h | h <;> simp only [preprocessClause, h] <;> rfl
  simp only [Clause.valueAsTimestamp, pre, hpre, List.getElem?_map]
  cases c.values[i]? with
  | none => rfl
  | some v =>
    simp only [Option.map_some, Option.bind_some]
    cases Time.valueToTimestamp v <;> rfl

/-- What `doOp` computes for "before": it depends on the two operands only through the instants
they convert to. -/
theorem doOp_before (rx : RegexOracle) (c : Clause) (u cv : J) (i : Nat) (hop : c.op = "before") :
    doOp rx c u cv i =
      match c.valueAsTimestamp i, Time.valueToTimestamp u with
      | some t2, some t1 => decide (t1 < t2)
      | _, _ => false := by
  simp only [doOp, hop]
  cases c.valueAsTimestamp i <;> cases Time.valueToTimestamp u <;> simp

theorem doOp_after (rx : RegexOracle) (c : Clause) (u cv : J) (i : Nat) (hop : c.op = "after") :
    doOp rx c u cv i =
      match c.valueAsTimestamp i, Time.valueToTimestamp u with
      | some t2, some t1 => decide (t1 > t2)
      | _, _ => false := by
  simp only [doOp, hop]
  cases c.valueAsTimestamp i <;> cases Time.valueToTimestamp u <;> simp

/-- **before** is `<` on instants. -/
theorem order_before (rx : RegexOracle) (c : Clause) (u cv : J) (i : Nat) (t1 t2 : Int)
    (hpre : c.pre = {}) (hop : c.op = "before") (hv : c.values[i]? = some cv)
    (h2 : Time.valueToTimestamp cv = some t2) (h1 : Time.valueToTimestamp u = some t1) :
    doOp rx c u cv i = decide (t1 < t2) := by
  rw [doOp_before rx c u cv i hop, valueAsTimestamp_plain c hpre, hv, Option.bind_some, h2, h1]

/-- **after** is `>` on instants. -/
theorem order_after (rx : RegexOracle) (c : Clause) (u cv : J) (i : Nat) (t1 t2 : Int)
    (hpre : c.pre = {}) (hop : c.op = "after") (hv : c.values[i]? = some cv)
    (h2 : Time.valueToTimestamp cv = some t2) (h1 : Time.valueToTimestamp u = some t1) :
    doOp rx c u cv i = decide (t1 > t2) := by
  rw [doOp_after rx c u cv i hop, valueAsTimestamp_plain c hpre, hv, Option.bind_some, h2, h1]

/-- Both, as one statement. -/
theorem order (rx : RegexOracle) (c : Clause) (u cv : J) (i : Nat) (t1 t2 : Int)
    (hpre : c.pre = {}) (hv : c.values[i]? = some cv)
    (h2 : Time.valueToTimestamp cv = some t2) (h1 : Time.valueToTimestamp u = some t1) :
    (c.op = "before" → doOp rx c u cv i = decide (t1 < t2)) ∧
    (c.op = "after" → doOp rx c u cv i = decide (t1 > t2)) :=
  ⟨fun hop => order_before rx c u cv i t1 t2 hpre hop hv h2 h1,
   fun hop => order_after rx c u cv i t1 t2 hpre hop hv h2 h1⟩

/-- The same for a clause as it is after decoding (with its preprocessed table). -/
theorem order_preprocessed (rx : RegexOracle) (c : Clause) (u cv : J) (i : Nat) (t1 t2 : Int)
    (hv : c.values[i]? = some cv)
    (h2 : Time.valueToTimestamp cv = some t2) (h1 : Time.valueToTimestamp u = some t1) :
    (c.op = "before" →
      doOp rx (pre rx c) u cv i = decide (t1 < t2)) ∧
    (c.op = "after" →
      doOp rx (pre rx c) u cv i = decide (t1 > t2)) := by
  constructor
  · intro hop
    rw [doOp_before rx (pre rx c) u cv i hop, valueAsTimestamp_preprocessed rx c (Or.inl hop), hv,
      Option.bind_some, h2, h1]
  · intro hop
    rw [doOp_after rx (pre rx c) u cv i hop, valueAsTimestamp_preprocessed rx c (Or.inr hop), hv,
      Option.bind_some, h2, h1]

/-- Equal instants are neither before nor after each other. -/
theorem equal_instants_neither (rx : RegexOracle) (cb ca : Clause) (u cv : J) (i : Nat) (t1 t2 : Int)
    (hpb : cb.pre = {}) (hpa : ca.pre = {}) (hb : cb.op = "before") (ha : ca.op = "after")
    (hvb : cb.values[i]? = some cv) (hva : ca.values[i]? = some cv)
    (h2 : Time.valueToTimestamp cv = some t2) (h1 : Time.valueToTimestamp u = some t1)
    (heq : t1 = t2) :
    doOp rx cb u cv i = false ∧ doOp rx ca u cv i = false := by
  rw [order_before rx cb u cv i t1 t2 hpb hb hvb h2 h1, order_after rx ca u cv i t1 t2 hpa ha hva h2 h1]
  subst heq
  simp

/-- Trichotomy: of "u before cv", "u after cv" and "same instant" exactly one holds. -/
theorem trichotomy (rx : RegexOracle) (cb ca : Clause) (u cv : J) (i : Nat) (t1 t2 : Int)
    (hpb : cb.pre = {}) (hpa : ca.pre = {}) (hb : cb.op = "before") (ha : ca.op = "after")
    (hvb : cb.values[i]? = some cv) (hva : ca.values[i]? = some cv)
    (h2 : Time.valueToTimestamp cv = some t2) (h1 : Time.valueToTimestamp u = some t1) :
    (doOp rx cb u cv i = true ∧ doOp rx ca u cv i = false ∧ t1 ≠ t2) ∨
    (doOp rx cb u cv i = false ∧ doOp rx ca u cv i = true ∧ t1 ≠ t2) ∨
    (doOp rx cb u cv i = false ∧ doOp rx ca u cv i = false ∧ t1 = t2) := by
  rw [order_before rx cb u cv i t1 t2 hpb hb hvb h2 h1, order_after rx ca u cv i t1 t2 hpa ha hva h2 h1]
  simp only [decide_eq_true_eq, decide_eq_false_iff_not]
  omega

/-- Context side: two context values that convert alike (in particular a string and a number for
one instant) are interchangeable, for any clause (plain or preprocessed). -/
theorem interchangeable (rx : RegexOracle) (c : Clause) (u u' cv : J) (i : Nat)
    (hop : c.op = "before" ∨ c.op = "after")
    (h : Time.valueToTimestamp u = Time.valueToTimestamp u') :
    doOp rx c u cv i = doOp rx c u' cv i := by
  rcases hop with hop | hop
  · rw [doOp_before rx c u cv i hop, doOp_before rx c u' cv i hop, h]
  · rw [doOp_after rx c u cv i hop, doOp_after rx c u' cv i hop, h]

/-- Clause side: two clauses with the same operator whose `i`-th values convert alike give the same
result against every context value. -/
theorem interchangeable_clause (rx : RegexOracle) (c c' : Clause) (u cv cv' : J) (i : Nat)
    (hpre : c.pre = {}) (hpre' : c'.pre = {}) (hop' : c'.op = c.op)
    (hop : c.op = "before" ∨ c.op = "after")
    (hv : c.values[i]? = some cv) (hv' : c'.values[i]? = some cv')
    (h : Time.valueToTimestamp cv = Time.valueToTimestamp cv') :
    doOp rx c u cv i = doOp rx c' u cv' i := by
  have e : c.valueAsTimestamp i = c'.valueAsTimestamp i := by
    rw [valueAsTimestamp_plain c hpre, valueAsTimestamp_plain c' hpre', hv, hv',
      Option.bind_some, Option.bind_some, h]
  rcases hop with hop | hop
  · rw [doOp_before rx c u cv i hop, doOp_before rx c' u cv' i (hop'.trans hop), e]
  · rw [doOp_after rx c u cv i hop, doOp_after rx c' u cv' i (hop'.trans hop), e]

/-- ... and for clauses as decoded (preprocessed). -/
theorem interchangeable_clause_preprocessed (rx : RegexOracle) (c c' : Clause) (u cv cv' : J)
    (i : Nat) (hop' : c'.op = c.op) (hop : c.op = "before" ∨ c.op = "after")
    (hv : c.values[i]? = some cv) (hv' : c'.values[i]? = some cv')
    (h : Time.valueToTimestamp cv = Time.valueToTimestamp cv') :
    doOp rx (pre rx c) u cv i =
      doOp rx (pre rx c') u cv' i := by
  have hopc' : c'.op = "before" ∨ c'.op = "after" := by rw [hop']; exact hop
  have e : (pre rx c).valueAsTimestamp i =
      (pre rx c').valueAsTimestamp i := by
    rw [valueAsTimestamp_preprocessed rx c hop, valueAsTimestamp_preprocessed rx c' hopc', hv, hv',
      Option.bind_some, Option.bind_some, h]
  rcases hop with hop | hop
  · rw [doOp_before rx (pre rx c) u cv i hop, doOp_before rx (pre rx c') u cv' i (hop'.trans hop), e]
  · rw [doOp_after rx (pre rx c) u cv i hop, doOp_after rx (pre rx c') u cv' i (hop'.trans hop), e]

/-- In particular: the string rendering of a valid timestamp and the number of milliseconds of the
same instant are interchangeable as context values ... -/
theorem string_number_interchangeable (rx : RegexOracle) (c : Clause) (cv : J) (i : Nat)
    (hop : c.op = "before" ∨ c.op = "after")
    (s : Stamp) (h : s.Valid) (str : String) (hb : str.toUTF8.toList = s.render)
    (m : Int) (hm : int64Min ≤ m ∧ m ≤ int64Max) (hd : s.denotes = m * 1000000) :
    doOp rx c (.str str) cv i = doOp rx c (.num (m : Rat)) cv i :=
  interchangeable rx c _ _ cv i hop (string_numeric_agree s h str hb m hm hd)

/-- ... and as clause values. -/
theorem string_number_interchangeable_clause (rx : RegexOracle) (c c' : Clause) (u : J) (i : Nat)
    (hpre : c.pre = {}) (hpre' : c'.pre = {}) (hop' : c'.op = c.op)
    (hop : c.op = "before" ∨ c.op = "after")
    (s : Stamp) (h : s.Valid) (str : String) (hb : str.toUTF8.toList = s.render)
    (m : Int) (hm : int64Min ≤ m ∧ m ≤ int64Max) (hd : s.denotes = m * 1000000)
    (hv : c.values[i]? = some (.str str)) (hv' : c'.values[i]? = some (.num (m : Rat))) :
    doOp rx c u (.str str) i = doOp rx c' u (.num (m : Rat)) i :=
  interchangeable_clause rx c c' u _ _ i hpre hpre' hop' hop hv hv'
    (string_numeric_agree s h str hb m hm hd)

/-! ### 3. Non-timestamps never match -/

/-- Other JSON types are not timestamps. -/
theorem non_timestamps :
    Time.valueToTimestamp .null = none ∧ (∀ b, Time.valueToTimestamp (.bool b) = none) ∧
    (∀ xs, Time.valueToTimestamp (.arr xs) = none) ∧
    (∀ kvs, Time.valueToTimestamp (.obj kvs) = none) :=
  ⟨rfl, fun _ => rfl, fun _ => rfl, fun _ => rfl⟩

/-- An unparsed value (`ldvalue.Raw`, type `RawType`) is not a timestamp either — even when its text
is a valid RFC 3339 string or a number: `ValueToTimestamp` and `parseDateTime` both switch on
`Type()`.  (Contrast the string, numeric and semVer operators, which parse it: C04.) -/
theorem raw_not_timestamp (w : J) : Time.valueToTimestamp (.raw w) = none := rfl

/-- If the context value is not a timestamp, before/after are false (any clause). -/
theorem non_timestamp_context (rx : RegexOracle) (c : Clause) (u cv : J) (i : Nat)
    (hop : c.op = "before" ∨ c.op = "after") (h : Time.valueToTimestamp u = none) :
    doOp rx c u cv i = false := by
  rcases hop with hop | hop
  · rw [doOp_before rx c u cv i hop, h]; cases c.valueAsTimestamp i <;> rfl
  · rw [doOp_after rx c u cv i hop, h]; cases c.valueAsTimestamp i <;> rfl

/-- If the clause value is not a timestamp (or there is no `i`-th value), before/after are false. -/
theorem non_timestamp_clause (rx : RegexOracle) (c : Clause) (u cv : J) (i : Nat)
    (hpre : c.pre = {}) (hop : c.op = "before" ∨ c.op = "after")
    (h : (c.values[i]?).bind Time.valueToTimestamp = none) :
    doOp rx c u cv i = false := by
  rcases hop with hop | hop
  · rw [doOp_before rx c u cv i hop, valueAsTimestamp_plain c hpre, h]
  · rw [doOp_after rx c u cv i hop, valueAsTimestamp_plain c hpre, h]

theorem non_timestamp_clause_preprocessed (rx : RegexOracle) (c : Clause) (u cv : J) (i : Nat)
    (hop : c.op = "before" ∨ c.op = "after")
    (h : (c.values[i]?).bind Time.valueToTimestamp = none) :
    doOp rx (pre rx c) u cv i = false := by
  rcases hop with hop | hop
  · rw [doOp_before rx (pre rx c) u cv i hop, valueAsTimestamp_preprocessed rx c (Or.inl hop), h]
  · rw [doOp_after rx (pre rx c) u cv i hop, valueAsTimestamp_preprocessed rx c (Or.inr hop), h]

/-- Summary in the form of the property text: whenever either side is not a timestamp the
comparison is false. -/
theorem non_timestamps_never_match (rx : RegexOracle) (c : Clause) (u cv : J) (i : Nat)
    (hpre : c.pre = {}) (hop : c.op = "before" ∨ c.op = "after") (hv : c.values[i]? = some cv)
    (h : Time.valueToTimestamp u = none ∨ Time.valueToTimestamp cv = none) :
    doOp rx c u cv i = false := by
  rcases h with h | h
  · exact non_timestamp_context rx c u cv i hop h
  · exact non_timestamp_clause rx c u cv i hpre hop (by rw [hv, Option.bind_some, h])

/-- A raw operand on either side never matches before/after (plain or preprocessed clause). -/
theorem raw_context_never_matches (rx : RegexOracle) (c : Clause) (w cv : J) (i : Nat)
    (hop : c.op = "before" ∨ c.op = "after") : doOp rx c (.raw w) cv i = false :=
  non_timestamp_context rx c _ cv i hop (raw_not_timestamp w)

theorem raw_clause_never_matches (rx : RegexOracle) (c : Clause) (u w : J) (i : Nat)
    (hop : c.op = "before" ∨ c.op = "after") (hv : c.values[i]? = some (.raw w)) :
    doOp rx { c with pre := {} } u (.raw w) i = false ∧ doOp rx (pre rx c) u (.raw w) i = false :=
  ⟨non_timestamp_clause rx { c with pre := {} } u _ i rfl hop (by
      show (c.values[i]?).bind Time.valueToTimestamp = none
      rw [hv]; rfl),
   non_timestamp_clause_preprocessed rx c u _ i hop (by rw [hv]; rfl)⟩

/-- Every truncation of a valid timestamp string is rejected (wherever the cut falls). -/
theorem truncated_never_match (s : Stamp) (h : s.Valid) (k : Nat) (hk : k < s.render.length)
    (str : String) (hb : str.toUTF8.toList = s.render.take k) :
    Time.valueToTimestamp (.str str) = none := by
  simp only [valueToTimestamp, parseRFC3339, hb, parse_proper_prefix_fails s h k hk]

/-- ... hence never matches, on either side. -/
theorem truncated_context_never_matches (rx : RegexOracle) (c : Clause) (cv : J) (i : Nat)
    (hop : c.op = "before" ∨ c.op = "after")
    (s : Stamp) (h : s.Valid) (k : Nat) (hk : k < s.render.length)
    (str : String) (hb : str.toUTF8.toList = s.render.take k) :
    doOp rx c (.str str) cv i = false :=
  non_timestamp_context rx c _ cv i hop (truncated_never_match s h k hk str hb)

/-- The conversion is a total function (no panic): it always returns `none` or `some`. -/
theorem total (v : J) : Time.valueToTimestamp v = none ∨ ∃ t, Time.valueToTimestamp v = some t := by
  cases Time.valueToTimestamp v with
  | none => exact Or.inl rfl
  | some t => exact Or.inr ⟨t, rfl⟩

/-! ### 4. The civil-date arithmetic is the proleptic Gregorian calendar, for every year -/

theorem calendar :
    daysFromCivil 1970 1 1 = 0 ∧
    (∀ y m d : Int, daysFromCivil y m (d + 1) = daysFromCivil y m d + 1) ∧
    (∀ y m : Int, 1 ≤ m → m ≤ 11 →
      daysFromCivil y (m + 1) 1 = daysFromCivil y m 1 + daysInMonth y m) ∧
    (∀ y : Int, daysFromCivil (y + 1) 1 1 = daysFromCivil y 12 1 + 31) ∧
    (∀ y : Int, daysFromCivil (y + 1) 1 1 = daysFromCivil y 1 1 + daysInYear y) :=
  ⟨daysFromCivil_epoch, daysFromCivil_succ_day, daysFromCivil_succ_month,
    daysFromCivil_succ_year, daysFromCivil_year_length⟩

/-! ### 5. Non-vacuity -/

section Examples

/-- 9999-12-31T23:59:59Z, the last second of the supported range. -/
def exMax : Stamp :=
  { year := 9999, month := 12, day := 31, hour := 23, minute := 59, second := 59,
    frac := [], zone := .utc false, tLower := false, hour1 := false }

/-- 2020-01-02T03:04:05.678+01:30 -/
def exOff : Stamp :=
  { year := 2020, month := 1, day := 2, hour := 3, minute := 4, second := 5,
    frac := "678".toUTF8.toList, zone := .offset true 1 30, tLower := false, hour1 := false }

example : exMax.Valid := by decide
example : exOff.Valid := by decide +kernel
example : "9999-12-31T23:59:59Z".toUTF8.toList = exMax.render := by decide +kernel
example : "2020-01-02T03:04:05.678+01:30".toUTF8.toList = exOff.render := by decide +kernel
example : exMax.denotes = 253402300799 * 1000000000 := by decide +kernel
example : exMax.denotes = 253402300799000 * 1000000 := by decide +kernel
example : exOff.denotes = 1577928845678 * 1000000 := by decide +kernel

example : Time.valueToTimestamp (.str "9999-12-31T23:59:59Z") = some 253402300799000000000 :=
  string_denotes exMax (by decide) _ (by decide +kernel)
example : Time.valueToTimestamp (.num 253402300799000) = some 253402300799000000000 := by
  decide +kernel
example : Time.valueToTimestamp (.str "0000-01-01T00:00:00Z") = some (-62167219200000000000) := by
  decide +kernel
example : Time.valueToTimestamp (.str "2020-01-02T03:04:05.678+01:30")
    = Time.valueToTimestamp (.num 1577928845678) := by decide +kernel
/-- truncated / garbled -/
example : Time.valueToTimestamp (.str "2020-01-02T03:04:05") = none := by decide +kernel
example : Time.valueToTimestamp (.str "2020-01-02T03:04:05.678+01:3") = none := by decide +kernel
example : Time.valueToTimestamp (.str "2020-13-02T03:04:05Z") = none := by decide +kernel
example : Time.valueToTimestamp (.str "2020-01-02 03:04:05Z") = none := by decide +kernel
example : Time.valueToTimestamp (.str "") = none := by decide +kernel

def noRx : RegexOracle := fun _ _ => none

/-- String on the context side, number on the clause side, same instant: neither before nor
after; one millisecond later on the clause side: before. -/
example : doOp noRx { op := "before", values := [.num 1577928845678] }
    (.str "2020-01-02T03:04:05.678+01:30") (.num 1577928845678) 0 = false := by decide +kernel
example : doOp noRx { op := "after", values := [.num 1577928845678] }
    (.str "2020-01-02T03:04:05.678+01:30") (.num 1577928845678) 0 = false := by decide +kernel
example : doOp noRx { op := "before", values := [.num 1577928845679] }
    (.str "2020-01-02T03:04:05.678+01:30") (.num 1577928845679) 0 = true := by decide +kernel
example : doOp noRx { op := "after", values := [.str "2020-01-02T03:04:05.678+01:30"] }
    (.num 1577928845679) (.str "2020-01-02T03:04:05.678+01:30") 0 = true := by decide +kernel
example : doOp noRx { op := "after", values := [.str "2020-01-02T03:04:05.678+01:30"] }
    (.bool true) (.str "2020-01-02T03:04:05.678+01:30") 0 = false := by decide +kernel

end Examples


/-! ### Completeness: exactly the renderings of valid stamps (plus ignorable trailing bytes) parse -/

/-- The parser as an exact partial function: it returns `t` iff the input is the rendering of a
valid stamp denoting `t`, followed by bytes it never looks at (anything after `Z`/`z`; after a
`±hh:mm` offset only a tail starting with a NUL or non-ASCII byte). -/
theorem parse_exact (inp : List UInt8) (t : Int) :
    Time.parseBytes inp = some t ↔
      ∃ (s : Time.Stamp) (junk : List UInt8), s.Valid ∧ inp = s.render ++ junk ∧ Time.Ignorable s.zone junk ∧ t = s.denotes :=
  Time.parse_eq_some_iff inp t

/-- Strings that are not such a rendering — a missing or garbled mandatory field, a truncation —
never convert to a timestamp, hence never match (`non_timestamps_never_match`). -/
theorem garbled_never_parses (inp : List UInt8)
    (h : ¬ ∃ (s : Time.Stamp) (junk : List UInt8), s.Valid ∧ inp = s.render ++ junk ∧ Time.Ignorable s.zone junk) :
    Time.parseBytes inp = none :=
  Time.garbled_never_parses inp h

theorem too_short (inp : List UInt8) (h : inp.length < 19) : Time.parseBytes inp = none :=
  Time.too_short inp h

/-- The instant is a function of the string. -/
theorem denotes_unique (s₁ s₂ : Time.Stamp) (j₁ j₂ : List UInt8) (h₁ : s₁.Valid) (h₂ : s₂.Valid)
    (i₁ : Time.Ignorable s₁.zone j₁) (i₂ : Time.Ignorable s₂.zone j₂)
    (e : s₁.render ++ j₁ = s₂.render ++ j₂) : s₁.denotes = s₂.denotes :=
  Time.denotes_unique s₁ s₂ j₁ j₂ h₁ h₂ i₁ i₂ e

/-! ## Strengthened statements (theorem audit) -/

/-- Audit #63: EVERY numeric operand is a timestamp; it denotes `int64(f)` milliseconds, whatever
`f` is. -/
theorem numeric_any (q : Rat) : Time.valueToTimestamp (.num q) = some (goInt q * 1000000) := rfl

/-- `ratTrunc` is truncation toward zero: the floor of a non-negative number, the ceiling of a
negative one; in both cases the integer part, less than one away from `q` and not beyond it. -/
theorem ratTrunc_spec (q : Rat) :
    (0 ≤ q → (ratTrunc q : Rat) ≤ q ∧ q < (ratTrunc q : Rat) + 1 ∧ 0 ≤ ratTrunc q) ∧
    (q < 0 → q ≤ (ratTrunc q : Rat) ∧ (ratTrunc q : Rat) - 1 < q ∧ ratTrunc q ≤ 0) := by
  have hcast : ∀ a : Rat, a < (a.floor : Rat) + 1 := by
    intro a
    have h := Rat.lt_floor_add_one a
    have e : ((a.floor + 1 : Int) : Rat) = (a.floor : Rat) + 1 := by simp
    rw [e] at h; exact h
  have hfloor_nonneg : ∀ a : Rat, 0 ≤ a → 0 ≤ a.floor := by
    intro a ha
    rw [Rat.floor_def]
    exact Int.ediv_nonneg (Rat.num_nonneg.mpr ha) (Int.natCast_nonneg _)
  unfold ratTrunc
  constructor
  · intro h
    have hn : q.num ≥ 0 := Rat.num_nonneg.mpr h
    rw [if_pos hn]
    exact ⟨Rat.floor_le q, hcast q, hfloor_nonneg q h⟩
  · intro h
    have hn : ¬ q.num ≥ 0 := by
      intro hc
      have := Rat.num_nonneg.mp hc
      grind
    rw [if_neg hn]
    have h1 := Rat.floor_le (-q)
    have h2 := hcast (-q)
    have h3 : 0 ≤ (-q).floor := hfloor_nonneg (-q) (by grind)
    have e : ((-(-q).floor : Int) : Rat) = -((-q).floor : Rat) := by simp
    rw [e]
    refine ⟨by grind, by grind, by omega⟩

/-- A numeric operand whose integer part is in the int64 range denotes that integer part (fractional
milliseconds are DROPPED, toward zero) times 10⁶ ns.  For the Go code: `time.UnixMilli(int64(f))`;
`1500.9` and `1500.1` are the same instant, so neither is before nor after the other. -/
theorem numeric_truncates (q : Rat) (h : int64Min ≤ ratTrunc q ∧ ratTrunc q ≤ int64Max) :
    Time.valueToTimestamp (.num q) = some (ratTrunc q * 1000000) := by
  rw [numeric_any]
  unfold goInt
  simp only
  rw [if_neg (by omega)]

/-- Outside the int64 range the conversion `int64(f)` yields the amd64 sentinel −2⁶³ (the Go
specification leaves the result implementation-defined; the model and the harness fix the amd64
behaviour, see `goInt`), so every such operand, however large and of either sign, denotes the same
instant −2⁶³·10⁶ ns.  In particular a huge POSITIVE millisecond value is treated as lying in the
remote past. -/
theorem numeric_out_of_range (q : Rat) (h : ratTrunc q < int64Min ∨ ratTrunc q > int64Max) :
    Time.valueToTimestamp (.num q) = some (int64Min * 1000000) := by
  rw [numeric_any]
  unfold goInt
  simp only
  rw [if_pos h]

/-- Complete case split: every numeric operand falls under `numeric_truncates` or
`numeric_out_of_range`. -/
theorem numeric_cases (q : Rat) :
    (int64Min ≤ ratTrunc q ∧ ratTrunc q ≤ int64Max ∧
      Time.valueToTimestamp (.num q) = some (ratTrunc q * 1000000)) ∨
    ((ratTrunc q < int64Min ∨ ratTrunc q > int64Max) ∧
      Time.valueToTimestamp (.num q) = some (int64Min * 1000000)) := by
  by_cases h : int64Min ≤ ratTrunc q ∧ ratTrunc q ≤ int64Max
  · exact Or.inl ⟨h.1, h.2, numeric_truncates q h⟩
  · refine Or.inr ⟨by omega, numeric_out_of_range q (by omega)⟩

-- Non-vacuity: fractional milliseconds are truncated toward zero (both signs), and an operand beyond
-- the range lands on the sentinel.
example : Time.valueToTimestamp (.num (3001 / 2)) = some (1500 * 1000000) := by decide +kernel
example : Time.valueToTimestamp (.num (-3001 / 2)) = some (-1500 * 1000000) := by decide +kernel
example : ratTrunc (3001 / 2) = 1500 ∧ ratTrunc (-3001 / 2) = -1500 := by decide +kernel
example : Time.valueToTimestamp (.num 9223372036854775808) =
    some (-9223372036854775808 * 1000000) := by decide +kernel

end LD.C18

#print axioms LD.C18.string_denotes
#print axioms LD.C18.numeric_denotes
#print axioms LD.C18.order
#print axioms LD.C18.order_preprocessed
#print axioms LD.C18.equal_instants_neither
#print axioms LD.C18.trichotomy
#print axioms LD.C18.interchangeable
#print axioms LD.C18.interchangeable_clause
#print axioms LD.C18.interchangeable_clause_preprocessed
#print axioms LD.C18.string_number_interchangeable
#print axioms LD.C18.string_number_interchangeable_clause
#print axioms LD.C18.non_timestamps
#print axioms LD.C18.non_timestamps_never_match
#print axioms LD.C18.raw_not_timestamp
#print axioms LD.C18.raw_context_never_matches
#print axioms LD.C18.raw_clause_never_matches
#print axioms LD.C18.non_timestamp_clause_preprocessed
#print axioms LD.C18.truncated_never_match
#print axioms LD.C18.calendar
#print axioms LD.C18.ratTrunc_spec
#print axioms LD.C18.numeric_cases

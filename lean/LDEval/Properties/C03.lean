/-
  C03 — Individual targeting semantics.

  "When targeting is on and prerequisites pass, a context whose key for kind K appears in a target
  list for K receives that list's variation with reason TARGET_MATCH regardless of any rule; lists
  are consulted in listed order and a context lacking kind K never matches a K list.  Flag data
  with no context-target lists uses the user target lists alone; when context-target lists exist,
  a user-kind entry with no keys defers to the user target list that has the same variation, and
  user target lists are otherwise not consulted.  Membership is exact string equality on keys, and
  is the same whether or not lookup tables were precomputed."

  `targetMatch` and `anyTargetMatch` are shared by the model and the specification, so these
  statements hold for both.
-/
import LDEval.Properties.C02

namespace LD.C03

/-! ### 1. Membership: exact string equality, with or without the precomputed table -/

/-- The precomputed table (`preprocessStringSet`) never changes the answer. -/
theorem findKey_table_transparent (key : String) (vals : List String) :
    findKey key vals (preprocessStringSet vals) = findKey key vals none := by
  unfold preprocessStringSet
  split <;> rfl

/-- Without a table, membership is list membership, i.e. exact equality with some listed key. -/
theorem findKey_plain (key : String) (vals : List String) :
    findKey key vals none = true ↔ key ∈ vals := by
  simp [findKey]

/-- A target whose table is absent or is the precomputed one. -/
theorem Target.findKey_iff (t : Target) (key : String)
    (hform : t.pre = none ∨ t.pre = preprocessStringSet t.values) :
    t.findKey key = true ↔ key ∈ t.values := by
  unfold Target.findKey
  rcases hform with h | h <;> rw [h]
  · exact findKey_plain key t.values
  · rw [findKey_table_transparent]; exact findKey_plain key t.values

/-- Preprocessing a flag's user target lists does not change any target match. -/
theorem targetMatch_preprocess (ctx : Ctx) (t : Target) (hform : t.pre = none) :
    targetMatch ctx { t with pre := preprocessStringSet t.values } = targetMatch ctx t := by
  unfold targetMatch Target.findKey
  simp only [hform, findKey_table_transparent]

/-! ### 2–3. One target list -/

theorem targetMatch_iff (ctx : Ctx) (t : Target) (v : Int)
    (hform : t.pre = none ∨ t.pre = preprocessStringSet t.values) :
    targetMatch ctx t = some v ↔
      v = t.variation ∧ ∃ sc, ctx.byKind t.contextKind = some sc ∧ sc.key ∈ t.values := by
  unfold targetMatch
  cases hb : ctx.byKind t.contextKind with
  | none => simp
  | some sc =>
    simp only []
    by_cases hk : t.findKey sc.key = true
    · rw [if_pos hk]
      rw [Target.findKey_iff t _ hform] at hk
      constructor
      · intro h; injection h with h; exact ⟨h.symm, sc, rfl, hk⟩
      · rintro ⟨rfl, -⟩; rfl
    · rw [if_neg hk]
      rw [Target.findKey_iff t _ hform] at hk
      constructor
      · intro h; cases h
      · rintro ⟨-, sc', hsc', hk'⟩
        injection hsc' with e
        subst e
        exact absurd hk' hk

/-- A context lacking kind K never matches a K list. -/
theorem missing_kind {ctx : Ctx} {t : Target} (h : ctx.byKind t.contextKind = none) :
    targetMatch ctx t = none := by
  simp [targetMatch, h]

/-- A match always serves the list's own variation. -/
theorem targetMatch_variation {ctx : Ctx} {t : Target} {v : Int} (h : targetMatch ctx t = some v) :
    v = t.variation := by
  unfold targetMatch at h
  split at h
  · split at h
    · injection h with h; exact h.symm
    · cases h
  · cases h

/-! ### 4. No context-target lists: the user target lists alone, in listed order -/

theorem legacy_only {ctx : Ctx} {f : Flag} (h : f.contextTargets = []) :
    anyTargetMatch ctx f = f.targets.findSome? (targetMatch ctx) := by
  simp [anyTargetMatch, h]

/-- `findSome?` returns the answer of the first element that answers. -/
theorem findSome?_first {α β : Type} (g : α → Option β) (pre : List α) (t : α) (post : List α)
    (b : β) (hpre : ∀ q ∈ pre, g q = none) (ht : g t = some b) :
    (pre ++ t :: post).findSome? g = some b := by
  induction pre with
  | nil => simp [ht]
  | cons q pre ih =>
    rw [List.cons_append, List.findSome?_cons, hpre q (List.mem_cons_self ..)]
    exact ih (fun q' hq' => hpre q' (List.mem_cons_of_mem _ hq'))

theorem findSome?_none {α β : Type} (g : α → Option β) (l : List α)
    (h : ∀ q ∈ l, g q = none) : l.findSome? g = none := by
  induction l with
  | nil => rfl
  | cons q l ih =>
    rw [List.findSome?_cons, h q (List.mem_cons_self ..)]
    exact ih (fun q' hq' => h q' (List.mem_cons_of_mem _ hq'))

/-- Explicit first-match form: the first user target list that matches decides. -/
theorem legacy_first_match {ctx : Ctx} {f : Flag} (h : f.contextTargets = [])
    (pre : List Target) (t : Target) (post : List Target) (hts : f.targets = pre ++ t :: post)
    (hpre : ∀ q ∈ pre, targetMatch ctx q = none) (ht : (targetMatch ctx t).isSome) :
    anyTargetMatch ctx f = some t.variation := by
  rw [legacy_only h, hts]
  obtain ⟨v, hv⟩ := Option.isSome_iff_exists.1 ht
  have := targetMatch_variation hv
  subst this
  exact findSome?_first _ pre t post _ hpre hv

theorem legacy_no_match {ctx : Ctx} {f : Flag} (h : f.contextTargets = [])
    (hno : ∀ q ∈ f.targets, targetMatch ctx q = none) : anyTargetMatch ctx f = none := by
  rw [legacy_only h]; exact findSome?_none _ _ hno

/-! ### 5. With context-target lists -/

/-- A context-target entry of the user kind (`""` or `"user"`) with no keys. -/
def KeylessUser (t : Target) : Prop :=
  (t.contextKind = "" ∨ t.contextKind = "user") ∧ t.values = []

/-- What one context-target entry contributes. -/
def entryMatch (ctx : Ctx) (f : Flag) (t : Target) : Option Int :=
  if (t.contextKind == "" || t.contextKind == "user") && t.values.isEmpty then
    (match f.targets.find? (fun t1 => t1.variation == t.variation) with
      | some t1 => targetMatch ctx t1
      | none => none)
  else targetMatch ctx t

theorem context_targets {ctx : Ctx} {f : Flag} (h : f.contextTargets ≠ []) :
    anyTargetMatch ctx f =
      f.contextTargets.findSome? (fun t =>
        if (t.contextKind == "" || t.contextKind == "user") && t.values.isEmpty then
          (match f.targets.find? (fun t1 => t1.variation == t.variation) with
            | some t1 => targetMatch ctx t1
            | none => none)
        else targetMatch ctx t) := by
  have hne : f.contextTargets.isEmpty = false := by
    cases hc : f.contextTargets with
    | nil => exact absurd hc h
    | cons _ _ => rfl
  unfold anyTargetMatch
  rw [hne]
  rfl

theorem context_targets' {ctx : Ctx} {f : Flag} (h : f.contextTargets ≠ []) :
    anyTargetMatch ctx f = f.contextTargets.findSome? (entryMatch ctx f) :=
  context_targets h

theorem keylessUser_iff (t : Target) :
    ((t.contextKind == "" || t.contextKind == "user") && t.values.isEmpty) = true ↔
      KeylessUser t := by
  simp [KeylessUser, List.isEmpty_iff]

/-- An entry that is not a keyless user-kind entry is matched on its own keys. -/
theorem entryMatch_ordinary {ctx : Ctx} {f : Flag} {t : Target} (h : ¬ KeylessUser t) :
    entryMatch ctx f t = targetMatch ctx t := by
  unfold entryMatch
  rw [if_neg]
  rwa [keylessUser_iff]

/-- Context-target entries are consulted in listed order: the first entry that contributes a
variation decides. -/
theorem context_first_match {ctx : Ctx} {f : Flag}
    (pre : List Target) (t : Target) (post : List Target) (v : Int)
    (hts : f.contextTargets = pre ++ t :: post)
    (hpre : ∀ q ∈ pre, entryMatch ctx f q = none) (ht : entryMatch ctx f t = some v) :
    anyTargetMatch ctx f = some v := by
  rw [context_targets' (by rw [hts]; simp), hts]
  exact findSome?_first _ pre t post v hpre ht

/-- (a) Without a keyless user-kind entry, the user target lists are not consulted at all. -/
theorem user_lists_otherwise_not_consulted {ctx : Ctx} {f : Flag} (ts : List Target)
    (h : f.contextTargets ≠ []) (hno : ∀ t ∈ f.contextTargets, ¬ KeylessUser t) :
    anyTargetMatch ctx { f with targets := ts } = anyTargetMatch ctx f := by
  rw [context_targets' h, context_targets' (f := { f with targets := ts }) h]
  show f.contextTargets.findSome? _ = _
  have : ∀ l : List Target, (∀ t ∈ l, ¬ KeylessUser t) →
      l.findSome? (entryMatch ctx { f with targets := ts }) = l.findSome? (entryMatch ctx f) := by
    intro l
    induction l with
    | nil => intro _; rfl
    | cons q l ih =>
      intro hl
      have hq := hl q (List.mem_cons_self ..)
      rw [List.findSome?_cons, List.findSome?_cons, entryMatch_ordinary hq, entryMatch_ordinary hq,
        ih (fun t ht => hl t (List.mem_cons_of_mem _ ht))]
  exact this _ hno

/-- (b) A keyless user-kind entry defers to the FIRST user target list with the same variation. -/
theorem keyless_user_defers {ctx : Ctx} {f : Flag} {t : Target} (hk : KeylessUser t)
    (tpre : List Target) (t1 : Target) (tpost : List Target)
    (hts : f.targets = tpre ++ t1 :: tpost)
    (hpre : ∀ q ∈ tpre, q.variation ≠ t.variation) (h1 : t1.variation = t.variation) :
    entryMatch ctx f t = targetMatch ctx t1 := by
  have hfind : f.targets.find? (fun t1 => t1.variation == t.variation) = some t1 := by
    rw [hts]
    clear hts
    induction tpre with
    | nil => simp [h1]
    | cons q tpre ih =>
      have hq := hpre q (List.mem_cons_self ..)
      rw [List.cons_append, List.find?_cons_of_neg (by simpa using hq)]
      exact ih (fun q' hq' => hpre q' (List.mem_cons_of_mem _ hq'))
  unfold entryMatch
  rw [if_pos ((keylessUser_iff t).2 hk), hfind]

/-- … and contributes nothing when no user target list has that variation. -/
theorem keyless_user_no_list {ctx : Ctx} {f : Flag} {t : Target} (hk : KeylessUser t)
    (hno : ∀ q ∈ f.targets, q.variation ≠ t.variation) :
    entryMatch ctx f t = none := by
  have hfind : f.targets.find? (fun t1 => t1.variation == t.variation) = none := by
    rw [List.find?_eq_none]
    intro q hq
    simpa using hno q hq
  unfold entryMatch
  rw [if_pos ((keylessUser_iff t).2 hk), hfind]

/-! ### 5′. Precomputed lookup tables do not change the targeting stage -/

theorem findSome?_congr' {α β : Type} (g g' : α → Option β) (l : List α)
    (h : ∀ q ∈ l, g q = g' q) : l.findSome? g = l.findSome? g' := by
  induction l with
  | nil => rfl
  | cons q l ih =>
    rw [List.findSome?_cons, List.findSome?_cons, h q (List.mem_cons_self ..),
      ih (fun q' hq' => h q' (List.mem_cons_of_mem _ hq'))]

/-- `PreprocessFlag` (which fills the key tables of the user target lists of raw flag data) leaves
the whole targeting stage unchanged, for every context. -/
theorem anyTargetMatch_preprocess (rx : RegexOracle) (ctx : Ctx) (f : Flag)
    (h : ∀ t ∈ f.targets, t.pre = none) :
    anyTargetMatch ctx (preprocessFlag rx f) = anyTargetMatch ctx f := by
  have hdefer : ∀ (p : Target → Bool) (l : List Target), (∀ t ∈ l, t.pre = none) →
      (∀ t, p { t with pre := preprocessStringSet t.values } = p t) →
      (match (l.map fun t => { t with pre := preprocessStringSet t.values }).find? p with
        | some t1 => targetMatch ctx t1
        | none => none) =
      (match l.find? p with
        | some t1 => targetMatch ctx t1
        | none => none) := by
    intro p l hl hp
    induction l with
    | nil => rfl
    | cons q l ih =>
      rw [List.map_cons, List.find?_cons, List.find?_cons, hp q]
      cases p q with
      | true => exact targetMatch_preprocess ctx q (hl q (List.mem_cons_self ..))
      | false => exact ih (fun t ht => hl t (List.mem_cons_of_mem _ ht))
  unfold anyTargetMatch
  show (if f.contextTargets.isEmpty then
      (f.targets.map fun t => { t with pre := preprocessStringSet t.values }).findSome?
        (targetMatch ctx)
    else f.contextTargets.findSome? _) = _
  split
  · rw [List.findSome?_map]
    exact findSome?_congr' _ _ _ (fun t ht => targetMatch_preprocess ctx t (h t ht))
  · apply findSome?_congr'
    intro t _
    split
    · exact hdefer _ f.targets h (fun _ => rfl)
    · rfl

/-! ### 6. A target match beats every rule -/

theorem over_rules {rec : Spec.FlagRec} {seg : Spec.SegRec} {env : Env} {f : Flag}
    {chain : List String} {v : Int} (hon : f.on = true)
    (hp : Spec.checkPrereqs rec env f chain = .ok) (ht : anyTargetMatch env.ctx f = some v) :
    Spec.evalBody rec seg env f chain = some (Spec.getVariation f v .targetMatch, true) :=
  C02.target_over_rules hon hp ht

/-- End to end for one user target list (no context targets, no prerequisites): a context whose
user key is listed gets the list's variation with TARGET_MATCH from `evaluate`, whatever the
rules and fallthrough are. -/
theorem evaluate_listed_key (env : Env) (f : Flag) (hc : env.ctx ≠ .invalid)
    (hon : f.on = true) (hp : f.prerequisites = []) (hct : f.contextTargets = [])
    (pre : List Target) (t : Target) (post : List Target) (hts : f.targets = pre ++ t :: post)
    (hpre : ∀ q ∈ pre, targetMatch env.ctx q = none)
    (hform : t.pre = none ∨ t.pre = preprocessStringSet t.values)
    (sc : SCtx) (hsc : env.ctx.byKind t.contextKind = some sc) (hkey : sc.key ∈ t.values)
    (h0 : 0 ≤ t.variation) (h1 : t.variation < f.variations.length) :
    (evaluate env f).result.detail.index = some t.variation ∧
    (evaluate env f).result.detail.value = f.variations.getD t.variation.toNat .null ∧
    (evaluate env f).result.detail.reason.kind = .targetMatch := by
  have hm : targetMatch env.ctx t = some t.variation :=
    (targetMatch_iff env.ctx t t.variation hform).2 ⟨rfl, sc, hsc, hkey⟩
  have ht : anyTargetMatch env.ctx f = some t.variation :=
    legacy_first_match hct pre t post hts hpre (by rw [hm]; rfl)
  exact C02.evaluate_target_match_valid env f t.variation hc hon hp ht h0 h1

/-! ### 7. Non-vacuity -/

section Examples

def alice : Ctx := .single { kind := "user", key := "alice" }
def aliceAtOrg : Ctx := .multi [{ kind := "user", key := "alice" }, { kind := "org", key := "acme" }]

/-- Listed order: both lists contain `alice`; the first one wins. -/
example : anyTargetMatch alice
    { targets := [{ values := ["bob"], variation := 0 }, { values := ["alice"], variation := 2 },
                  { values := ["alice"], variation := 1 }] } = some 2 :=
  legacy_first_match rfl [{ values := ["bob"], variation := 0 }]
    { values := ["alice"], variation := 2 } [{ values := ["alice"], variation := 1 }] rfl
    (by intro q hq; rw [List.mem_singleton.1 hq]
        simp [targetMatch, alice, Ctx.byKind, Ctx.individuals, normKind, defaultKind,
          Target.findKey, findKey])
    (by simp [targetMatch, alice, Ctx.byKind, Ctx.individuals, normKind, defaultKind,
          Target.findKey, findKey])

/-- Exact equality: `Alice` is not `alice`. -/
example : targetMatch alice { values := ["Alice", "alice "], variation := 1 } = none := by
  simp [targetMatch, alice, Ctx.byKind, Ctx.individuals, normKind, defaultKind,
    Target.findKey, findKey]

/-- A user-only context never matches an `org` list, even one listing its key. -/
example : targetMatch alice { contextKind := "org", values := ["alice"], variation := 1 } = none :=
  missing_kind (by simp [alice, Ctx.byKind, Ctx.individuals, normKind])

/-- A multi-kind context matches an `org` list by its `org` key. -/
example : targetMatch aliceAtOrg { contextKind := "org", values := ["acme"], variation := 1 } =
    some 1 := by
  simp [targetMatch, aliceAtOrg, Ctx.byKind, Ctx.individuals, normKind, Target.findKey, findKey]

/-- Context targets with a keyless user entry of variation 1, and two user lists naming `alice`. -/
def exDefer : Flag :=
  { targets := [{ values := ["alice"], variation := 0 }, { values := ["alice"], variation := 1 }],
    contextTargets := [{ contextKind := "org", values := ["acme"], variation := 0 },
                       { contextKind := "user", values := [], variation := 1 }] }

/-- With context targets, the keyless user entry (variation 1) defers to the user list with
variation 1; the user list with variation 0, which also lists `alice`, is not consulted. -/
example : anyTargetMatch alice exDefer = some 1 := by
  refine context_first_match [{ contextKind := "org", values := ["acme"], variation := 0 }]
    { contextKind := "user", values := [], variation := 1 } [] 1 rfl ?_ ?_
  · intro q hq; rw [List.mem_singleton.1 hq]
    rw [entryMatch_ordinary (by simp [KeylessUser])]
    exact missing_kind (by simp [alice, Ctx.byKind, Ctx.individuals, normKind])
  · rw [keyless_user_defers (f := exDefer)
      (t := { contextKind := "user", values := [], variation := 1 }) ⟨Or.inr rfl, rfl⟩
      [{ values := ["alice"], variation := 0 }] { values := ["alice"], variation := 1 } [] rfl
      (by intro q hq; rw [List.mem_singleton.1 hq]; decide) rfl]
    simp [targetMatch, alice, Ctx.byKind, Ctx.individuals, normKind, defaultKind,
      Target.findKey, findKey]

/-- With context targets and no keyless user entry, a user list naming the key is ignored. -/
example : anyTargetMatch alice
    { targets := [{ values := ["alice"], variation := 0 }],
      contextTargets := [{ contextKind := "org", values := ["acme"], variation := 1 }] } = none := by
  rw [context_targets' (by simp)]
  apply findSome?_none
  intro q hq; rw [List.mem_singleton.1 hq]
  rw [entryMatch_ordinary (by simp [KeylessUser])]
  exact missing_kind (by simp [alice, Ctx.byKind, Ctx.individuals, normKind])

end Examples

/-! ## Strengthened statements (theorem audit) -/

/-! The audit (C03 #7–#9, G1) found the targeting theorems to restate `anyTargetMatch` and the only
entry-point statement to need `contextTargets = []` and `prerequisites = []`.  This part gives an
independent characterisation of the targeting stage (A), the legacy/context-target interplay (B, E),
the individual context a list looks at for single- and multi-kind contexts (C), the targeting stage
at `evaluate` with prerequisites, both directions (D), and the key tables, including stale and
twice-preprocessed ones, up to the whole observation of `evaluate` (F). -/

/-! ### A. The lists consulted, as one flat list -/

/-- The list actually consulted for a context-target entry `t`: the entry itself, except that a
user-kind entry without keys stands for the FIRST user target list (`Targets`) with the same
variation — or for nothing, if there is none. -/
def effective (f : Flag) (t : Target) : Option Target :=
  if (t.contextKind == "" || t.contextKind == "user") && t.values.isEmpty then
    f.targets.find? (fun t1 => t1.variation == t.variation)
  else some t

/-- All target lists `anyTargetMatchVariation` consults for a flag, flattened, in the order it
consults them: the user target lists alone when there are no context targets; otherwise one list per
context-target entry (`effective`).  Every other user target list is never looked at. -/
def consulted (f : Flag) : List Target :=
  if f.contextTargets.isEmpty then f.targets else f.contextTargets.filterMap (effective f)

/-- What a context-target entry contributes is the match against its effective list. -/
theorem entryMatch_eq (ctx : Ctx) (f : Flag) (t : Target) :
    entryMatch ctx f t = (effective f t).bind (targetMatch ctx) := by
  unfold entryMatch effective
  split
  · cases f.targets.find? (fun t1 => t1.variation == t.variation) <;> rfl
  · rfl

/-- `findSome?` over a `filterMap`. -/
theorem findSome?_filterMap' {α β γ : Type} (e : α → Option β) (g : β → Option γ) (l : List α) :
    (l.filterMap e).findSome? g = l.findSome? (fun a => (e a).bind g) := by
  induction l with
  | nil => rfl
  | cons a l ih =>
    rw [List.filterMap_cons, List.findSome?_cons]
    cases h : e a with
    | none => simpa using ih
    | some b =>
      simp only [List.findSome?_cons, Option.bind_some]
      cases g b <;> simp [ih]

/-- Independent restatement of `anyTargetMatchVariation` (audit finding 7): it is the first-match
search of ONE flat list of target lists, `consulted f` — the legacy/context-target interplay is
entirely in which lists are on that list. -/
theorem anyTargetMatch_consulted (ctx : Ctx) (f : Flag) :
    anyTargetMatch ctx f = (consulted f).findSome? (targetMatch ctx) := by
  unfold consulted
  split
  · next h => simp [anyTargetMatch, h]
  · next h =>
    rw [findSome?_filterMap']
    have hne : f.contextTargets ≠ [] := by simpa [List.isEmpty_iff] using h
    rw [context_targets' hne]
    exact findSome?_congr' _ _ _ (fun t _ => entryMatch_eq ctx f t)

/-- Target list `t` holds the context: the context has an individual context of the list's kind
(`""` = `user`) and that individual's key is found in the list's key set (table if present, else the
slice). -/
def Holds (ctx : Ctx) (t : Target) : Prop :=
  ∃ sc, ctx.byKind t.contextKind = some sc ∧ t.findKey sc.key = true

/-- `targetMatchVariation` answers exactly when the list holds the context, and then with the list's
own variation — no hypothesis on tables. -/
theorem targetMatch_eq_some_iff (ctx : Ctx) (t : Target) (v : Int) :
    targetMatch ctx t = some v ↔ v = t.variation ∧ Holds ctx t := by
  unfold targetMatch Holds
  cases hb : ctx.byKind t.contextKind with
  | none => simp
  | some sc =>
    simp only []
    by_cases hk : t.findKey sc.key = true
    · rw [if_pos hk]
      constructor
      · intro h; injection h with h; exact ⟨h.symm, sc, rfl, hk⟩
      · rintro ⟨rfl, -⟩; rfl
    · rw [if_neg hk]
      constructor
      · intro h; cases h
      · rintro ⟨-, sc', hsc', hk'⟩
        injection hsc' with e
        subst e
        exact absurd hk' hk

/-- `targetMatchVariation` declines exactly when the list does not hold the context. -/
theorem targetMatch_eq_none_iff (ctx : Ctx) (t : Target) :
    targetMatch ctx t = none ↔ ¬ Holds ctx t := by
  constructor
  · intro h ⟨sc, h1, h2⟩
    have := (targetMatch_eq_some_iff ctx t t.variation).2 ⟨rfl, sc, h1, h2⟩
    rw [h] at this; cases this
  · intro h
    cases hm : targetMatch ctx t with
    | none => rfl
    | some v => exact absurd ((targetMatch_eq_some_iff ctx t v).1 hm).2 h

/-- The key table of a target list is absent or is the one `PreprocessFlag` computes from the list's
keys (in particular: preprocessed once, twice, or never). -/
def TableOK (t : Target) : Prop := t.pre = none ∨ t.pre = preprocessStringSet t.values

/-- With a sound table, "holds" is exact string membership of the individual context's key in the
listed keys. -/
theorem holds_iff_listed (ctx : Ctx) (t : Target) (h : TableOK t) :
    Holds ctx t ↔ ∃ sc, ctx.byKind t.contextKind = some sc ∧ sc.key ∈ t.values := by
  unfold Holds
  constructor
  · rintro ⟨sc, h1, h2⟩; exact ⟨sc, h1, (Target.findKey_iff t _ h).1 h2⟩
  · rintro ⟨sc, h1, h2⟩; exact ⟨sc, h1, (Target.findKey_iff t _ h).2 h2⟩

/-- The targeting stage answers `v` iff `v` is the variation of the FIRST consulted list that holds
the context — for every context (single-kind of any kind, multi-kind, invalid) and every flag. -/
theorem anyTargetMatch_eq_some_iff (ctx : Ctx) (f : Flag) (v : Int) :
    anyTargetMatch ctx f = some v ↔
      ∃ pre t post, consulted f = pre ++ t :: post ∧ (∀ q ∈ pre, ¬ Holds ctx q) ∧ Holds ctx t ∧
        v = t.variation := by
  rw [anyTargetMatch_consulted, List.findSome?_eq_some_iff]
  constructor
  · rintro ⟨pre, t, post, h1, h2, h3⟩
    obtain ⟨hv, hh⟩ := (targetMatch_eq_some_iff ctx t v).1 h2
    exact ⟨pre, t, post, h1, fun q hq => (targetMatch_eq_none_iff ctx q).1 (h3 q hq), hh, hv⟩
  · rintro ⟨pre, t, post, h1, h2, h3, h4⟩
    exact ⟨pre, t, post, h1, (targetMatch_eq_some_iff ctx t v).2 ⟨h4, h3⟩,
      fun q hq => (targetMatch_eq_none_iff ctx q).2 (h2 q hq)⟩

/-- The targeting stage declines iff no consulted list holds the context. -/
theorem anyTargetMatch_eq_none_iff (ctx : Ctx) (f : Flag) :
    anyTargetMatch ctx f = none ↔ ∀ t ∈ consulted f, ¬ Holds ctx t := by
  rw [anyTargetMatch_consulted, List.findSome?_eq_none_iff]
  exact forall₂_congr fun t _ => targetMatch_eq_none_iff ctx t

/-- Value selection does not read the user target lists. -/
theorem getValueForVR_targets (env : Env) (f : Flag) (ts : List Target) (vr : VariationOrRollout)
    (r : Reason) (st : St) :
    getValueForVR env { f with targets := ts } vr r st = getValueForVR env f vr r st := rfl

/-- `getOffValue` does not read the user target lists. -/
theorem getOffValue_targets (env : Env) (f : Flag) (ts : List Target) (r : Reason) (st : St) :
    getOffValue env { f with targets := ts } r st = getOffValue env f r st := rfl

/-- `getVariation` does not read the user target lists. -/
theorem getVariation_targets (env : Env) (f : Flag) (ts : List Target) (i : Int) (r : Reason) (st : St) :
    getVariation env { f with targets := ts } i r st = getVariation env f i r st := rfl

/-- The rule loop does not read the user target lists. -/
theorem rulesLoop_targets (seg : SegRec) (env : Env) (f : Flag) (ts : List Target) :
    ∀ rules i st, rulesLoop seg env { f with targets := ts } rules i st =
      rulesLoop seg env f rules i st := by
  intro rules
  induction rules with
  | nil => intro i st; rfl
  | cons r rules ih =>
    intro i st
    simp only [rulesLoop, getValueForVR_targets, ih]

/-- The prerequisite loop does not read the user target lists. -/
theorem prereqLoop_targets (rec : FlagRec) (env : Env) (f : Flag) (ts : List Target)
    (chain : List String) :
    ∀ ps st, prereqLoop rec env { f with targets := ts } chain ps st =
      prereqLoop rec env f chain ps st := by
  intro ps
  induction ps with
  | nil => intro st; rfl
  | cons p ps ih =>
    intro st
    simp only [prereqLoop, ih]

/-- One flag evaluation reads the user target lists only through the targeting stage's answer. -/
theorem evalBody_targets (rec : FlagRec) (seg : SegRec) (env : Env) (f : Flag) (ts : List Target)
    (chain : List String) (st : St)
    (h : anyTargetMatch env.ctx { f with targets := ts } = anyTargetMatch env.ctx f) :
    evalBody rec seg env { f with targets := ts } chain st = evalBody rec seg env f chain st := by
  simp only [evalBody, checkPrereqs, h, prereqLoop_targets, rulesLoop_targets, getOffValue_targets,
    getVariation_targets]

/-- `Evaluate` reads the user target lists only through the targeting stage: if replacing them
leaves `anyTargetMatchVariation` unchanged, the WHOLE observation (result, `IsExperiment`, status,
events, log, lookups, queries) is unchanged. -/
theorem evaluate_targets_congr (env : Env) (f : Flag) (ts : List Target)
    (h : anyTargetMatch env.ctx { f with targets := ts } = anyTargetMatch env.ctx f) :
    evaluate env { f with targets := ts } = evaluate env f := by
  unfold evaluate
  split
  · rfl
  · have : evalFlag (segFuel env.store) (flagFuel env.store) env { f with targets := ts } [] {} =
        evalFlag (segFuel env.store) (flagFuel env.store) env f [] {} :=
      evalBody_targets _ _ env f ts [] {} h
    rw [this]
    rfl


/-! ### B. Which lists are consulted -/

/-- No context targets: the user target lists are consulted, all of them, in order. -/
theorem consulted_legacy {f : Flag} (h : f.contextTargets = []) : consulted f = f.targets := by
  simp [consulted, h]

/-- With context targets: one effective list per entry, in entry order. -/
theorem consulted_context {f : Flag} (h : f.contextTargets ≠ []) :
    consulted f = f.contextTargets.filterMap (effective f) := by
  unfold consulted
  rw [if_neg]
  simpa [List.isEmpty_iff] using h

/-- An entry that is not a keyless user-kind entry is consulted itself. -/
theorem effective_ordinary {f : Flag} {t : Target} (h : ¬ KeylessUser t) : effective f t = some t := by
  unfold effective
  rw [if_neg]
  rwa [keylessUser_iff]

/-- A keyless user-kind entry stands for the first user target list with its variation. -/
theorem effective_keyless {f : Flag} {t : Target} (h : KeylessUser t) :
    effective f t = f.targets.find? (fun t1 => t1.variation == t.variation) := by
  unfold effective
  rw [if_pos ((keylessUser_iff t).2 h)]

/-- Without a keyless user-kind entry the consulted lists are the context-target lists themselves. -/
theorem consulted_no_keyless {f : Flag} (h : f.contextTargets ≠ [])
    (hno : ∀ t ∈ f.contextTargets, ¬ KeylessUser t) : consulted f = f.contextTargets := by
  rw [consulted_context h]
  have : ∀ l : List Target, (∀ t ∈ l, ¬ KeylessUser t) → l.filterMap (effective f) = l := by
    intro l
    induction l with
    | nil => intro _; rfl
    | cons q l ih =>
      intro hl
      rw [List.filterMap_cons, effective_ordinary (hl q (List.mem_cons_self ..)),
        ih (fun t ht => hl t (List.mem_cons_of_mem _ ht))]
  exact this _ hno

/-! ### C. Which individual context a list looks at -/

/-- An invalid context has no individual context of any kind. -/
theorem byKind_invalid (k : String) : Ctx.invalid.byKind k = none := rfl

/-- A single-kind context is looked at by exactly the lists of its own kind (`""` meaning `user`). -/
theorem byKind_single (c : SCtx) (k : String) :
    (Ctx.single c).byKind k = if c.kind = normKind k then some c else none := by
  simp only [Ctx.byKind, Ctx.individuals, List.find?_cons, List.find?_nil]
  by_cases h : c.kind = normKind k
  · have : (c.kind == normKind k) = true := by simpa using h
    rw [this, if_pos h]
  · have : (c.kind == normKind k) = false := by simpa using h
    rw [this, if_neg h]

/-- The individual context a list looks at is one of the context's individuals and has the list's
kind. -/
theorem byKind_some {ctx : Ctx} {k : String} {sc : SCtx} (h : ctx.byKind k = some sc) :
    sc ∈ ctx.individuals ∧ sc.kind = normKind k := by
  unfold Ctx.byKind at h
  exact ⟨List.mem_of_find?_eq_some h, by simpa using List.find?_some h⟩

/-- In a multi-kind context (kinds pairwise distinct, as `ldcontext` guarantees) a list of kind K
looks at THE individual context of kind K. -/
theorem byKind_multi (cs : List SCtx) (hnd : (cs.map (·.kind)).Nodup) (sc : SCtx) (hsc : sc ∈ cs)
    (k : String) (hk : sc.kind = normKind k) : (Ctx.multi cs).byKind k = some sc := by
  unfold Ctx.byKind Ctx.individuals
  induction cs with
  | nil => cases hsc
  | cons c cs ih =>
    rw [List.map_cons, List.nodup_cons] at hnd
    rw [List.find?_cons]
    rcases List.mem_cons.1 hsc with rfl | hmem
    · have : (sc.kind == normKind k) = true := by simpa using hk
      rw [this]
    · have hne : c.kind ≠ normKind k := by
        intro he
        apply hnd.1
        rw [he, ← hk]
        exact List.mem_map.2 ⟨sc, hmem, rfl⟩
      have : (c.kind == normKind k) = false := by simpa using hne
      rw [this]
      exact ih hnd.2 hmem

/-- A context lacking kind K is held by no K list. -/
theorem missing_kind_not_holds {ctx : Ctx} {t : Target} (h : ctx.byKind t.contextKind = none) :
    ¬ Holds ctx t := by
  rintro ⟨sc, h1, -⟩; rw [h] at h1; cases h1

/-! ### D. The targeting stage at the entry point `evaluate` -/

/-- The targeting stage at the entry point, with prerequisites: flag on, every prerequisite met,
`anyTargetMatchVariation` answers a valid index `v` ⇒ `Evaluate` returns variation `v`, reason
TARGET_MATCH with all other reason fields at their defaults, and `IsExperiment = false`. -/
theorem evaluate_of_anyTargetMatch (env : Env) (f : Flag) (v : Int) (hc : env.ctx ≠ .invalid)
    (hon : f.on = true) (hp : ∀ q ∈ f.prerequisites, C02.PrereqMet env f q)
    (ht : anyTargetMatch env.ctx f = some v) (h0 : 0 ≤ v) (h1 : v < f.variations.length) :
    C02.DetailIs (evaluate env f).result.detail
      { value := f.variations.getD v.toNat .null, index := some v, reason := .targetMatch } ∧
    (evaluate env f).result.isExperiment = false := by
  have hd := C02.evaluate_target env f v hc hon hp ht
  rw [C02.getVariation_ok .targetMatch h0 h1] at hd
  refine ⟨hd, C02.evaluate_isExperiment_early env f ?_⟩
  rw [hd.kind]
  exact ⟨nofun, nofun⟩

/-- A matching target list whose variation index is out of range makes `Evaluate` return
MALFORMED_FLAG. -/
theorem evaluate_target_bad_index (env : Env) (f : Flag) (v : Int) (hc : env.ctx ≠ .invalid)
    (hon : f.on = true) (hp : ∀ q ∈ f.prerequisites, C02.PrereqMet env f q)
    (ht : anyTargetMatch env.ctx f = some v) (hbad : v < 0 ∨ (f.variations.length : Int) ≤ v) :
    C02.DetailIs (evaluate env f).result.detail (Detail.forError .malformedFlag) := by
  have hd := C02.evaluate_target env f v hc hon hp ht
  rwa [C02.getVariation_bad .targetMatch hbad] at hd

/-- End to end for every kind of context: flag on, prerequisites met, `t` is the first consulted
list that holds the context ⇒ `Evaluate` returns `t`'s variation with TARGET_MATCH (rules and
fallthrough irrelevant), `IsExperiment = false`. -/
theorem evaluate_first_holding_list (env : Env) (f : Flag) (hc : env.ctx ≠ .invalid)
    (hon : f.on = true) (hp : ∀ q ∈ f.prerequisites, C02.PrereqMet env f q)
    (pre : List Target) (t : Target) (post : List Target) (hcons : consulted f = pre ++ t :: post)
    (hpre : ∀ q ∈ pre, ¬ Holds env.ctx q) (ht : Holds env.ctx t)
    (h0 : 0 ≤ t.variation) (h1 : t.variation < f.variations.length) :
    C02.DetailIs (evaluate env f).result.detail
      { value := f.variations.getD t.variation.toNat .null, index := some t.variation,
        reason := .targetMatch } ∧
    (evaluate env f).result.isExperiment = false :=
  evaluate_of_anyTargetMatch env f t.variation hc hon hp
    ((anyTargetMatch_eq_some_iff env.ctx f t.variation).2 ⟨pre, t, post, hcons, hpre, ht, rfl⟩) h0 h1

/-- Exactly when `Evaluate` answers TARGET_MATCH (valid context): the flag is on, every prerequisite
is met, and the first consulted list that holds the context has a valid variation index.  A Go
change that consults lists in another order, skips the prerequisite stage, or lets a rule win over a
target falsifies this. -/
theorem evaluate_target_match_iff (env : Env) (f : Flag) (hc : env.ctx ≠ .invalid) :
    (evaluate env f).result.detail.reason.kind = .targetMatch ↔
      f.on = true ∧ (∀ q ∈ f.prerequisites, C02.PrereqMet env f q) ∧
      ∃ pre t post, consulted f = pre ++ t :: post ∧ (∀ q ∈ pre, ¬ Holds env.ctx q) ∧
        Holds env.ctx t ∧ 0 ≤ t.variation ∧ t.variation < f.variations.length := by
  constructor
  · intro hk
    obtain ⟨hon, hp, v, hv, hi⟩ := (C02.evaluate_reason_inv env f).2.2.1 hk
    obtain ⟨pre, t, post, h1, h2, h3, rfl⟩ := (anyTargetMatch_eq_some_iff env.ctx f v).1 hv
    refine ⟨hon, hp, pre, t, post, h1, h2, h3, ?_⟩
    have hd := C02.evaluate_target env f t.variation hc hon hp hv
    rcases C02.getVariation_cases f t.variation .targetMatch with ⟨_, hb⟩ | ⟨h0, h1', _⟩
    · rw [hd.kind, hb] at hk; cases hk
    · exact ⟨h0, h1'⟩
  · rintro ⟨hon, hp, pre, t, post, h1, h2, h3, h0, h1'⟩
    exact (evaluate_first_holding_list env f hc hon hp pre t post h1 h2 h3 h0 h1').1.kind

/-- If no consulted list holds the context — e.g. the context lacks the lists' kinds, or its keys
are not listed — `Evaluate` never answers TARGET_MATCH. -/
theorem evaluate_no_list_holds (env : Env) (f : Flag)
    (h : ∀ t ∈ consulted f, ¬ Holds env.ctx t) :
    (evaluate env f).result.detail.reason.kind ≠ .targetMatch := by
  intro hk
  obtain ⟨_, _, v, hv, _⟩ := (C02.evaluate_reason_inv env f).2.2.1 hk
  rw [(anyTargetMatch_eq_none_iff env.ctx f).2 h] at hv
  cases hv

/-- A TARGET_MATCH result of `Evaluate` serves the variation of a consulted list that holds the
context. -/
theorem evaluate_target_match_holds (env : Env) (f : Flag)
    (hk : (evaluate env f).result.detail.reason.kind = .targetMatch) :
    ∃ t ∈ consulted f, Holds env.ctx t ∧ (evaluate env f).result.detail.index = some t.variation := by
  obtain ⟨_, _, v, hv, hi⟩ := (C02.evaluate_reason_inv env f).2.2.1 hk
  obtain ⟨pre, t, post, h1, -, h3, rfl⟩ := (anyTargetMatch_eq_some_iff env.ctx f v).1 hv
  exact ⟨t, by rw [h1]; simp, h3, hi⟩

/-! ### E. The legacy `targets` / `contextTargets` interplay at the entry point -/

/-- `evaluate_listed_key` with prerequisites and all fields: no context targets, prerequisites met,
`t` the first user list holding the key ⇒ TARGET_MATCH with `t.variation`. -/
theorem evaluate_listed_key_prereqs (env : Env) (f : Flag) (hc : env.ctx ≠ .invalid)
    (hon : f.on = true) (hp : ∀ q ∈ f.prerequisites, C02.PrereqMet env f q)
    (hct : f.contextTargets = [])
    (pre : List Target) (t : Target) (post : List Target) (hts : f.targets = pre ++ t :: post)
    (hpre : ∀ q ∈ pre, targetMatch env.ctx q = none) (hform : TableOK t)
    (sc : SCtx) (hsc : env.ctx.byKind t.contextKind = some sc) (hkey : sc.key ∈ t.values)
    (h0 : 0 ≤ t.variation) (h1 : t.variation < f.variations.length) :
    C02.DetailIs (evaluate env f).result.detail
      { value := f.variations.getD t.variation.toNat .null, index := some t.variation,
        reason := .targetMatch } ∧
    (evaluate env f).result.isExperiment = false := by
  have hm : targetMatch env.ctx t = some t.variation :=
    (targetMatch_iff env.ctx t t.variation hform).2 ⟨rfl, sc, hsc, hkey⟩
  exact evaluate_of_anyTargetMatch env f t.variation hc hon hp
    (legacy_first_match hct pre t post hts hpre (by rw [hm]; rfl)) h0 h1

/-- The context-target half of the property at the entry point (audit finding 8): with context
targets, an entry `t` of kind K that is not a keyless user entry, reached after entries contributing
nothing, whose keys list the context's K key ⇒ `Evaluate` returns `t.variation` with TARGET_MATCH.
K is arbitrary and the context may be single- or multi-kind. -/
theorem evaluate_context_target (env : Env) (f : Flag) (hc : env.ctx ≠ .invalid)
    (hon : f.on = true) (hp : ∀ q ∈ f.prerequisites, C02.PrereqMet env f q)
    (pre : List Target) (t : Target) (post : List Target)
    (hts : f.contextTargets = pre ++ t :: post)
    (hpre : ∀ q ∈ pre, entryMatch env.ctx f q = none) (hk : ¬ KeylessUser t) (hform : TableOK t)
    (sc : SCtx) (hsc : env.ctx.byKind t.contextKind = some sc) (hkey : sc.key ∈ t.values)
    (h0 : 0 ≤ t.variation) (h1 : t.variation < f.variations.length) :
    C02.DetailIs (evaluate env f).result.detail
      { value := f.variations.getD t.variation.toNat .null, index := some t.variation,
        reason := .targetMatch } ∧
    (evaluate env f).result.isExperiment = false := by
  have hm : entryMatch env.ctx f t = some t.variation := by
    rw [entryMatch_ordinary hk]
    exact (targetMatch_iff env.ctx t t.variation hform).2 ⟨rfl, sc, hsc, hkey⟩
  exact evaluate_of_anyTargetMatch env f t.variation hc hon hp
    (context_first_match pre t post t.variation hts hpre hm) h0 h1

/-- The keyless user entry at the entry point: a user-kind context-target entry without keys defers
to the FIRST user target list `t1` with the same variation; if `t1` lists the context's key,
`Evaluate` returns that variation with TARGET_MATCH. -/
theorem evaluate_keyless_user_defers (env : Env) (f : Flag) (hc : env.ctx ≠ .invalid)
    (hon : f.on = true) (hp : ∀ q ∈ f.prerequisites, C02.PrereqMet env f q)
    (pre : List Target) (t : Target) (post : List Target)
    (hts : f.contextTargets = pre ++ t :: post)
    (hpre : ∀ q ∈ pre, entryMatch env.ctx f q = none) (hk : KeylessUser t)
    (tpre : List Target) (t1 : Target) (tpost : List Target)
    (hts1 : f.targets = tpre ++ t1 :: tpost)
    (htpre : ∀ q ∈ tpre, q.variation ≠ t.variation) (hv : t1.variation = t.variation)
    (hform : TableOK t1)
    (sc : SCtx) (hsc : env.ctx.byKind t1.contextKind = some sc) (hkey : sc.key ∈ t1.values)
    (h0 : 0 ≤ t.variation) (h1 : t.variation < f.variations.length) :
    C02.DetailIs (evaluate env f).result.detail
      { value := f.variations.getD t.variation.toNat .null, index := some t.variation,
        reason := .targetMatch } ∧
    (evaluate env f).result.isExperiment = false := by
  have hm : entryMatch env.ctx f t = some t.variation := by
    rw [keyless_user_defers hk tpre t1 tpost hts1 htpre hv, ← hv]
    exact (targetMatch_iff env.ctx t1 t1.variation hform).2 ⟨rfl, sc, hsc, hkey⟩
  exact evaluate_of_anyTargetMatch env f t.variation hc hon hp
    (context_first_match pre t post t.variation hts hpre hm) h0 h1

/-- "User target lists are otherwise not consulted", at the entry point: with context targets and no
keyless user entry, replacing the user target lists by anything leaves the whole observation of
`Evaluate` unchanged. -/
theorem evaluate_user_lists_not_consulted (env : Env) (f : Flag) (ts : List Target)
    (h : f.contextTargets ≠ []) (hno : ∀ t ∈ f.contextTargets, ¬ KeylessUser t) :
    evaluate env { f with targets := ts } = evaluate env f :=
  evaluate_targets_congr env f ts (user_lists_otherwise_not_consulted ts h hno)


/-! ### F. Key tables -/

/-- The targeting stage reads `Targets` and `ContextTargets` only. -/
theorem anyTargetMatch_congr (ctx : Ctx) {f g : Flag} (h1 : f.targets = g.targets)
    (h2 : f.contextTargets = g.contextTargets) : anyTargetMatch ctx f = anyTargetMatch ctx g := by
  simp only [anyTargetMatch, h1, h2]

/-- Rewriting each user target list in a way that keeps its variation and its own match keeps the
targeting stage's answer (also through the keyless-user deferral). -/
theorem anyTargetMatch_map_targets (ctx : Ctx) (f : Flag) (g : Target → Target)
    (hv : ∀ t, (g t).variation = t.variation)
    (hm : ∀ t ∈ f.targets, targetMatch ctx (g t) = targetMatch ctx t) :
    anyTargetMatch ctx { f with targets := f.targets.map g } = anyTargetMatch ctx f := by
  have hdefer : ∀ (v : Int) (l : List Target), (∀ t ∈ l, targetMatch ctx (g t) = targetMatch ctx t) →
      (match (l.map g).find? (fun t1 => t1.variation == v) with
        | some t1 => targetMatch ctx t1
        | none => none) =
      (match l.find? (fun t1 => t1.variation == v) with
        | some t1 => targetMatch ctx t1
        | none => none) := by
    intro v l hl
    induction l with
    | nil => rfl
    | cons q l ih =>
      rw [List.map_cons, List.find?_cons, List.find?_cons, hv q]
      cases q.variation == v with
      | true => exact hl q (List.mem_cons_self ..)
      | false => exact ih (fun t ht => hl t (List.mem_cons_of_mem _ ht))
  unfold anyTargetMatch
  show (if f.contextTargets.isEmpty then (f.targets.map g).findSome? (targetMatch ctx)
    else f.contextTargets.findSome? _) = _
  split
  · rw [List.findSome?_map]
    exact findSome?_congr' _ _ _ (fun t ht => hm t ht)
  · apply findSome?_congr'
    intro t _
    split
    · exact hdefer _ f.targets hm
    · rfl

/-- Replacing a sound table by no table or by the precomputed one does not change a list's match. -/
theorem targetMatch_table (ctx : Ctx) (t : Target) (h : TableOK t) (tbl : Option (List String))
    (htbl : tbl = none ∨ tbl = preprocessStringSet t.values) :
    targetMatch ctx { t with pre := tbl } = targetMatch ctx t := by
  unfold targetMatch Target.findKey
  have e : ∀ k, findKey k t.values tbl = findKey k t.values t.pre := by
    intro k
    rcases h with h | h <;> rcases htbl with h' | h' <;> rw [h, h'] <;>
      simp only [findKey_table_transparent]
  simp only [e]

/-- The flag with every user-target key table dropped (as if never preprocessed). -/
def stripTables (f : Flag) : Flag :=
  { f with targets := f.targets.map fun t => { t with pre := none } }

/-- Sound tables are invisible: dropping them does not change the targeting stage. -/
theorem anyTargetMatch_strip (ctx : Ctx) (f : Flag) (h : ∀ t ∈ f.targets, TableOK t) :
    anyTargetMatch ctx (stripTables f) = anyTargetMatch ctx f :=
  anyTargetMatch_map_targets ctx f _ (fun _ => rfl)
    (fun t ht => targetMatch_table ctx t (h t ht) none (Or.inl rfl))

/-- After `PreprocessFlag` every user target list has a sound table, whatever it had before (stale,
none, or already preprocessed). -/
theorem preprocessFlag_tableOK (rx : RegexOracle) (f : Flag) :
    ∀ t ∈ (preprocessFlag rx f).targets, TableOK t := by
  intro t ht
  obtain ⟨t0, _, rfl⟩ := List.mem_map.1 ht
  exact Or.inr rfl

/-- For ANY flag — stale tables included — the targeting stage after `PreprocessFlag` is the table-
free one: membership is decided by the listed keys. -/
theorem anyTargetMatch_preprocess_any (rx : RegexOracle) (ctx : Ctx) (f : Flag) :
    anyTargetMatch ctx (preprocessFlag rx f) = anyTargetMatch ctx (stripTables f) := by
  rw [← anyTargetMatch_strip ctx (preprocessFlag rx f) (preprocessFlag_tableOK rx f)]
  apply anyTargetMatch_congr
  · show ((f.targets.map _).map _) = f.targets.map _
    rw [List.map_map]; rfl
  · rfl

/-- `anyTargetMatch_preprocess` for flags whose tables are absent OR already precomputed (audit
finding 9: preprocessing twice). -/
theorem anyTargetMatch_preprocess_tableOK (rx : RegexOracle) (ctx : Ctx) (f : Flag)
    (h : ∀ t ∈ f.targets, TableOK t) :
    anyTargetMatch ctx (preprocessFlag rx f) = anyTargetMatch ctx f := by
  rw [anyTargetMatch_preprocess_any, anyTargetMatch_strip ctx f h]

/-- `PreprocessFlag` is idempotent for the targeting stage. -/
theorem anyTargetMatch_preprocess_twice (rx : RegexOracle) (ctx : Ctx) (f : Flag) :
    anyTargetMatch ctx (preprocessFlag rx (preprocessFlag rx f)) =
      anyTargetMatch ctx (preprocessFlag rx f) :=
  anyTargetMatch_preprocess_tableOK rx ctx _ (preprocessFlag_tableOK rx f)

/-- "The same whether or not lookup tables were precomputed", at the entry point and for everything
observable: filling in the user-target key tables changes nothing `Evaluate` returns or does. -/
theorem evaluate_fill_tables (env : Env) (f : Flag) (h : ∀ t ∈ f.targets, TableOK t) :
    evaluate env { f with targets := f.targets.map fun t => { t with pre := preprocessStringSet t.values } } =
      evaluate env f :=
  evaluate_targets_congr env f _
    (anyTargetMatch_map_targets env.ctx f _ (fun _ => rfl)
      (fun t ht => targetMatch_table env.ctx t (h t ht) _ (Or.inr rfl)))

/-- … and neither does dropping sound tables. -/
theorem evaluate_strip_tables (env : Env) (f : Flag) (h : ∀ t ∈ f.targets, TableOK t) :
    evaluate env (stripTables f) = evaluate env f :=
  evaluate_targets_congr env f _ (anyTargetMatch_strip env.ctx f h)


/-! ### G. Non-vacuity of the strengthened statements -/

section AuditExamples

/-- The store of `C02.exEnv2` (flags `p` off, `q` on serving 0, `f`) with another context. -/
def exEnvAt (c : Ctx) : Env := { C02.exEnv2 with ctx := c }

def bob : Ctx := .single { kind := "user", key := "bob" }

/-- On, prerequisite `q` (met), two user lists naming `alice`, and context targets: an `org` list and
a keyless `user` entry of variation 1. -/
def exT : Flag :=
  { key := "f", on := true, prerequisites := [⟨"q", 0⟩],
    variations := [.str "a", .str "b", .str "c"], fallthrough := { variation := some 0 },
    targets := [{ values := ["alice"], variation := 0 }, { values := ["alice"], variation := 1 }],
    contextTargets := [{ contextKind := "org", values := ["acme"], variation := 2 },
                       { contextKind := "user", values := [], variation := 1 }] }

theorem exT_met_alice : ∀ q ∈ exT.prerequisites, C02.PrereqMet (exEnvAt alice) exT q := by
  intro q hq
  rw [show q = ⟨"q", 0⟩ from List.mem_singleton.1 hq]
  exact C02.met_of_run C02.exQ C02.ex2_find_q (by decide) rfl (by decide)

theorem exT_met_aliceAtOrg : ∀ q ∈ exT.prerequisites, C02.PrereqMet (exEnvAt aliceAtOrg) exT q := by
  intro q hq
  rw [show q = ⟨"q", 0⟩ from List.mem_singleton.1 hq]
  exact C02.met_of_run C02.exQ C02.ex2_find_q (by decide) rfl (by decide)

/-- Multi-kind context: the `org` list is consulted first and holds the `org` key: variation 2,
TARGET_MATCH, although the user lists name `alice` too and the prerequisite had to be evaluated. -/
example : C02.DetailIs (evaluate (exEnvAt aliceAtOrg) exT).result.detail
      { value := .str "c", index := some 2, reason := .targetMatch } ∧
    (evaluate (exEnvAt aliceAtOrg) exT).result.isExperiment = false :=
  evaluate_context_target (exEnvAt aliceAtOrg) exT (by simp [exEnvAt, aliceAtOrg]) rfl
    exT_met_aliceAtOrg []
    { contextKind := "org", values := ["acme"], variation := 2 }
    [{ contextKind := "user", values := [], variation := 1 }] rfl (by simp)
    (by simp [KeylessUser]) (Or.inl rfl) { kind := "org", key := "acme" }
    (by simp [exEnvAt, aliceAtOrg, Ctx.byKind, Ctx.individuals, normKind]) (by simp) (by decide)
    (by decide)

/-- Single-kind user context: the `org` list cannot hold it; the keyless `user` entry (variation 1)
defers to the user list with variation 1, not to the first user list (variation 0). -/
example : C02.DetailIs (evaluate (exEnvAt alice) exT).result.detail
      { value := .str "b", index := some 1, reason := .targetMatch } ∧
    (evaluate (exEnvAt alice) exT).result.isExperiment = false :=
  evaluate_keyless_user_defers (exEnvAt alice) exT (by simp [exEnvAt, alice]) rfl exT_met_alice
    [{ contextKind := "org", values := ["acme"], variation := 2 }]
    { contextKind := "user", values := [], variation := 1 } [] rfl
    (by intro q hq; rw [List.mem_singleton.1 hq, entryMatch_ordinary (by simp [KeylessUser])]
        exact missing_kind (by simp [exEnvAt, alice, Ctx.byKind, Ctx.individuals, normKind]))
    ⟨Or.inr rfl, rfl⟩
    [{ values := ["alice"], variation := 0 }] { values := ["alice"], variation := 1 } [] rfl
    (by intro q hq; rw [List.mem_singleton.1 hq]; decide) rfl (Or.inl rfl)
    { kind := "user", key := "alice" }
    (by simp [exEnvAt, alice, Ctx.byKind, Ctx.individuals, normKind, defaultKind]) (by simp)
    (by decide) (by decide)

/-- Without context targets the first user list naming the key wins (prerequisite met). -/
example : C02.DetailIs (evaluate (exEnvAt alice) { exT with contextTargets := [] }).result.detail
      { value := .str "a", index := some 0, reason := .targetMatch } ∧
    (evaluate (exEnvAt alice) { exT with contextTargets := [] }).result.isExperiment = false :=
  evaluate_listed_key_prereqs (exEnvAt alice) { exT with contextTargets := [] }
    (by simp [exEnvAt, alice]) rfl exT_met_alice rfl []
    { values := ["alice"], variation := 0 } [{ values := ["alice"], variation := 1 }] rfl (by simp)
    (Or.inl rfl) { kind := "user", key := "alice" }
    (by simp [exEnvAt, alice, Ctx.byKind, Ctx.individuals, normKind, defaultKind]) (by simp)
    (by decide) (by decide)

/-- The consulted lists of `exT`: the `org` list, then the user list with variation 1. -/
example : consulted exT = [{ contextKind := "org", values := ["acme"], variation := 2 },
    { values := ["alice"], variation := 1 }] := by decide

/-- `bob` is held by no consulted list of `exT`: never TARGET_MATCH. -/
example : (evaluate (exEnvAt bob) exT).result.detail.reason.kind ≠ .targetMatch :=
  evaluate_no_list_holds (exEnvAt bob) exT (by
    intro t ht
    have : t = { contextKind := "org", values := ["acme"], variation := 2 } ∨
        t = { values := ["alice"], variation := 1 } := by
      have hc : consulted exT = [{ contextKind := "org", values := ["acme"], variation := 2 },
        { values := ["alice"], variation := 1 }] := by decide
      rw [hc] at ht
      simpa using ht
    rcases this with rfl | rfl
    · exact missing_kind_not_holds (by simp [exEnvAt, bob, Ctx.byKind, Ctx.individuals, normKind])
    · rintro ⟨sc, h1, h2⟩
      simp [exEnvAt, bob, Ctx.byKind, Ctx.individuals, normKind, defaultKind] at h1
      subst h1
      simp [Target.findKey, findKey] at h2)

/-- Both directions of `evaluate_target_match_iff` occur. -/
example : (evaluate (exEnvAt alice) exT).result.detail.reason.kind = .targetMatch ∧
    (evaluate (exEnvAt bob) exT).result.detail.reason.kind = .fallthrough := by decide

/-- The kinds of `aliceAtOrg` are distinct, so `byKind_multi` applies to it. -/
example : (Ctx.multi [{ kind := "user", key := "alice" }, { kind := "org", key := "acme" }]).byKind "org" =
    some { kind := "org", key := "acme" } :=
  byKind_multi _ (by decide) _ (by simp) "org" (by simp [normKind])

/-- Context targets without keyless user entry: replacing the user lists (here by one naming
`alice`) changes nothing `Evaluate` returns or does. -/
example : evaluate (exEnvAt alice)
      { { exT with contextTargets := [{ contextKind := "org", values := ["acme"], variation := 2 }] } with
        targets := [{ values := ["alice"], variation := 0 }] } =
    evaluate (exEnvAt alice)
      { exT with contextTargets := [{ contextKind := "org", values := ["acme"], variation := 2 }] } :=
  evaluate_user_lists_not_consulted _ _ _ (by simp)
    (by intro t ht; rw [List.mem_singleton.1 ht]; simp [KeylessUser])

/-- The user lists of `exT` carry no table: filling the tables in is invisible. -/
example : evaluate (exEnvAt alice)
      { exT with targets := exT.targets.map fun t => { t with pre := preprocessStringSet t.values } } =
    evaluate (exEnvAt alice) exT :=
  evaluate_fill_tables _ _ (by intro t ht; simp [exT] at ht; rcases ht with rfl | rfl <;> exact Or.inl rfl)

/-- `TableOK` cannot be dropped: a stale table (keys of another list) changes the answer, exactly as
in Go, where `findValueInMapOrStrings` trusts a non-nil map. -/
example : targetMatch alice { values := ["alice"], variation := 1, pre := some ["bob"] } = none ∧
    targetMatch alice { values := ["alice"], variation := 1 } = some 1 := by decide

/-- `evaluate_first_holding_list` on the flat list: for `alice` the first consulted list (`org`)
does not hold her, the second (user list with variation 1) does. -/
example : C02.DetailIs (evaluate (exEnvAt alice) exT).result.detail
      { value := .str "b", index := some 1, reason := .targetMatch } ∧
    (evaluate (exEnvAt alice) exT).result.isExperiment = false :=
  evaluate_first_holding_list (exEnvAt alice) exT (by simp [exEnvAt, alice]) rfl exT_met_alice
    [{ contextKind := "org", values := ["acme"], variation := 2 }]
    { values := ["alice"], variation := 1 } [] (by decide)
    (by intro q hq; rw [List.mem_singleton.1 hq]
        exact missing_kind_not_holds (by simp [exEnvAt, alice, Ctx.byKind, Ctx.individuals, normKind]))
    ⟨{ kind := "user", key := "alice" },
      by simp [exEnvAt, alice, Ctx.byKind, Ctx.individuals, normKind, defaultKind],
      by simp [Target.findKey, findKey]⟩
    (by decide) (by decide)

/-- A user list naming `alice` with variation index 7 (out of range): MALFORMED_FLAG. -/
example : C02.DetailIs
    (evaluate (exEnvAt alice)
      { exT with contextTargets := [], targets := [{ values := ["alice"], variation := 7 }] }).result.detail
    (Detail.forError .malformedFlag) :=
  evaluate_target_bad_index (exEnvAt alice) _ 7 (by simp [exEnvAt, alice]) rfl exT_met_alice
    (by decide) (by decide)

end AuditExamples

end LD.C03

#print axioms LD.C03.findKey_table_transparent
#print axioms LD.C03.findKey_plain
#print axioms LD.C03.targetMatch_iff
#print axioms LD.C03.missing_kind
#print axioms LD.C03.legacy_only
#print axioms LD.C03.legacy_first_match
#print axioms LD.C03.context_targets
#print axioms LD.C03.context_first_match
#print axioms LD.C03.user_lists_otherwise_not_consulted
#print axioms LD.C03.keyless_user_defers
#print axioms LD.C03.keyless_user_no_list
#print axioms LD.C03.anyTargetMatch_preprocess
#print axioms LD.C03.over_rules
#print axioms LD.C03.evaluate_listed_key
#print axioms LD.C03.anyTargetMatch_consulted
#print axioms LD.C03.targetMatch_eq_some_iff
#print axioms LD.C03.anyTargetMatch_eq_some_iff
#print axioms LD.C03.anyTargetMatch_eq_none_iff
#print axioms LD.C03.consulted_no_keyless
#print axioms LD.C03.byKind_single
#print axioms LD.C03.byKind_multi
#print axioms LD.C03.evaluate_of_anyTargetMatch
#print axioms LD.C03.evaluate_target_bad_index
#print axioms LD.C03.evaluate_first_holding_list
#print axioms LD.C03.evaluate_target_match_iff
#print axioms LD.C03.evaluate_no_list_holds
#print axioms LD.C03.evaluate_target_match_holds
#print axioms LD.C03.evaluate_listed_key_prereqs
#print axioms LD.C03.evaluate_context_target
#print axioms LD.C03.evaluate_keyless_user_defers
#print axioms LD.C03.evaluate_targets_congr
#print axioms LD.C03.evaluate_user_lists_not_consulted
#print axioms LD.C03.anyTargetMatch_map_targets
#print axioms LD.C03.anyTargetMatch_strip
#print axioms LD.C03.preprocessFlag_tableOK
#print axioms LD.C03.anyTargetMatch_preprocess_any
#print axioms LD.C03.anyTargetMatch_preprocess_tableOK
#print axioms LD.C03.anyTargetMatch_preprocess_twice
#print axioms LD.C03.evaluate_fill_tables
#print axioms LD.C03.evaluate_strip_tables

/-
  C03 — Individual targeting semantics.

  "When targeting is on and prerequisites pass, a context whose key for kind K appears in a target
  list for K receives that list's variation with reason TARGET_MATCH regardless of any rule; lists
  are consulted in listed order and a context lacking kind K never matches a K list.  Flag data
  with no context-target lists uses the user target lists alone; when context-target lists exist,
  a user-kind entry with no keys defers to the user target list that has the same variation, and
  user target lists are otherwise not consulted.  Membership is exact string equality on keys, and
  is the same whether or not lookup tables were precomputed."

  `targetMatch` and `anyTargetMatch` are shared by the model and the specification, so these
  statements hold for both.
-/
import LDEval.Properties.C02

namespace LD.C03

/-! ### 1. Membership: exact string equality, with or without the precomputed table -/

/-- The precomputed table (`preprocessStringSet`) never changes the answer. -/
theorem findKey_table_transparent (key : String) (vals : List String) :
    findKey key vals (preprocessStringSet vals) = findKey key vals none := by
  unfold preprocessStringSet
  split <;> rfl

/-- Without a table, membership is list membership, i.e. exact equality with some listed key. -/
theorem findKey_plain (key : String) (vals : List String) :
    findKey key vals none = true ↔ key ∈ vals := by
  simp [findKey]

/-- A target whose table is absent or is the precomputed one. -/
theorem Target.findKey_iff (t : Target) (key : String)
    (hform : t.pre = none ∨ t.pre = preprocessStringSet t.values) :
    t.findKey key = true ↔ key ∈ t.values := by
  unfold Target.findKey
  rcases hform with h | h <;> rw [h]
  · exact findKey_plain key t.values
  · rw [findKey_table_transparent]; exact findKey_plain key t.values

/-- Preprocessing a flag's user target lists does not change any target match. -/
theorem targetMatch_preprocess (ctx : Ctx) (t : Target) (hform : t.pre = none) :
    targetMatch ctx { t with pre := preprocessStringSet t.values } = targetMatch ctx t := by
  unfold targetMatch Target.findKey
  simp only [hform, findKey_table_transparent]

/-! ### 2–3. One target list -/

theorem targetMatch_iff (ctx : Ctx) (t : Target) (v : Int)
    (hform : t.pre = none ∨ t.pre = preprocessStringSet t.values) :
    targetMatch ctx t = some v ↔
      v = t.variation ∧ ∃ sc, ctx.byKind t.contextKind = some sc ∧ sc.key ∈ t.values := by
  unfold targetMatch
  cases hb : ctx.byKind t.contextKind with
  | none => simp
  | some sc =>
    simp only []
    by_cases hk : t.findKey sc.key = true
    · rw [if_pos hk]
      rw [Target.findKey_iff t _ hform] at hk
      constructor
      · intro h; injection h with h; exact ⟨h.symm, sc, rfl, hk⟩
      · rintro ⟨rfl, -⟩; rfl
    · rw [if_neg hk]
      rw [Target.findKey_iff t _ hform] at hk
      constructor
      · intro h; cases h
      · rintro ⟨-, sc', hsc', hk'⟩
        injection hsc' with e
        subst e
        exact absurd hk' hk

/-- A context lacking kind K never matches a K list. -/
theorem missing_kind {ctx : Ctx} {t : Target} (h : ctx.byKind t.contextKind = none) :
    targetMatch ctx t = none := by
  simp [targetMatch, h]

/-- A match always serves the list's own variation. -/
theorem targetMatch_variation {ctx : Ctx} {t : Target} {v : Int} (h : targetMatch ctx t = some v) :
    v = t.variation := by
  unfold targetMatch at h
  split at h
  · split at h
    · injection h with h; exact h.symm
    · cases h
  · cases h

/-! ### 4. No context-target lists: the user target lists alone, in listed order -/

theorem legacy_only {ctx : Ctx} {f : Flag} (h : f.contextTargets = []) :
    anyTargetMatch ctx f = f.targets.findSome? (targetMatch ctx) := by
  simp [anyTargetMatch, h]

/-- `findSome?` returns the answer of the first element that answers. -/
theorem findSome?_first {α β : Type} (g : α → Option β) (pre : List α) (t : α) (post : List α)
    (b : β) (hpre : ∀ q ∈ pre, g q = none) (ht : g t = some b) :
    (pre ++ t :: post).findSome? g = some b := by
  induction pre with
  | nil => simp [ht]
  | cons q pre ih =>
    rw [List.cons_append, List.findSome?_cons, hpre q (List.mem_cons_self ..)]
    exact ih (fun q' hq' => hpre q' (List.mem_cons_of_mem _ hq'))

theorem findSome?_none {α β : Type} (g : α → Option β) (l : List α)
    (h : ∀ q ∈ l, g q = none) : l.findSome? g = none := by
  induction l with
  | nil => rfl
  | cons q l ih =>
    rw [List.findSome?_cons, h q (List.mem_cons_self ..)]
    exact ih (fun q' hq' => h q' (List.mem_cons_of_mem _ hq'))

/-- Explicit first-match form: the first user target list that matches decides. -/
theorem legacy_first_match {ctx : Ctx} {f : Flag} (h : f.contextTargets = [])
    (pre : List Target) (t : Target) (post : List Target) (hts : f.targets = pre ++ t :: post)
    (hpre : ∀ q ∈ pre, targetMatch ctx q = none) (ht : (targetMatch ctx t).isSome) :
    anyTargetMatch ctx f = some t.variation := by
  rw [legacy_only h, hts]
  obtain ⟨v, hv⟩ := Option.isSome_iff_exists.1 ht
  have := targetMatch_variation hv
  subst this
  exact findSome?_first _ pre t post _ hpre hv

theorem legacy_no_match {ctx : Ctx} {f : Flag} (h : f.contextTargets = [])
    (hno : ∀ q ∈ f.targets, targetMatch ctx q = none) : anyTargetMatch ctx f = none := by
  rw [legacy_only h]; exact findSome?_none _ _ hno

/-! ### 5. With context-target lists -/

/-- A context-target entry of the user kind (`""` or `"user"`) with no keys. -/
def KeylessUser (t : Target) : Prop :=
  (t.contextKind = "" ∨ t.contextKind = "user") ∧ t.values = []

/-- What one context-target entry contributes. -/
def entryMatch (ctx : Ctx) (f : Flag) (t : Target) : Option Int :=
  if (t.contextKind == "" || t.contextKind == "user") && t.values.isEmpty then
    (match f.targets.find? (fun t1 => t1.variation == t.variation) with
      | some t1 => targetMatch ctx t1
      | none => none)
  else targetMatch ctx t

theorem context_targets {ctx : Ctx} {f : Flag} (h : f.contextTargets ≠ []) :
    anyTargetMatch ctx f =
      f.contextTargets.findSome? (fun t =>
        if (t.contextKind == "" || t.contextKind == "user") && t.values.isEmpty then
          (match f.targets.find? (fun t1 => t1.variation == t.variation) with
            | some t1 => targetMatch ctx t1
            | none => none)
        else targetMatch ctx t) := by
  have hne : f.contextTargets.isEmpty = false := by
    cases hc : f.contextTargets with
    | nil => exact absurd hc h
    | cons _ _ => rfl
  unfold anyTargetMatch
  rw [hne]
  rfl

theorem context_targets' {ctx : Ctx} {f : Flag} (h : f.contextTargets ≠ []) :
    anyTargetMatch ctx f = f.contextTargets.findSome? (entryMatch ctx f) :=
  context_targets h

theorem keylessUser_iff (t : Target) :
    ((t.contextKind == "" || t.contextKind == "user") && t.values.isEmpty) = true ↔
      KeylessUser t := by
  simp [KeylessUser, List.isEmpty_iff]

/-- An entry that is not a keyless user-kind entry is matched on its own keys. -/
theorem entryMatch_ordinary {ctx : Ctx} {f : Flag} {t : Target} (h : ¬ KeylessUser t) :
    entryMatch ctx f t = targetMatch ctx t := by
  unfold entryMatch
  rw [if_neg]
  rwa [keylessUser_iff]

/-- Context-target entries are consulted in listed order: the first entry that contributes a
variation decides. -/
theorem context_first_match {ctx : Ctx} {f : Flag}
    (pre : List Target) (t : Target) (post : List Target) (v : Int)
    (hts : f.contextTargets = pre ++ t :: post)
    (hpre : ∀ q ∈ pre, entryMatch ctx f q = none) (ht : entryMatch ctx f t = some v) :
    anyTargetMatch ctx f = some v := by
  rw [context_targets' (by rw [hts]; simp), hts]
  exact findSome?_first _ pre t post v hpre ht

/-- (a) Without a keyless user-kind entry, the user target lists are not consulted at all. -/
theorem user_lists_otherwise_not_consulted {ctx : Ctx} {f : Flag} (ts : List Target)
    (h : f.contextTargets ≠ []) (hno : ∀ t ∈ f.contextTargets, ¬ KeylessUser t) :
    anyTargetMatch ctx { f with targets := ts } = anyTargetMatch ctx f := by
  rw [context_targets' h, context_targets' (f := { f with targets := ts }) h]
  show f.contextTargets.findSome? _ = _
  have : ∀ l : List Target, (∀ t ∈ l, ¬ KeylessUser t) →
      l.findSome? (entryMatch ctx { f with targets := ts }) = l.findSome? (entryMatch ctx f) := by
    intro l
    induction l with
    | nil => intro _; rfl
    | cons q l ih =>
      intro hl
      have hq := hl q (List.mem_cons_self ..)
      rw [List.findSome?_cons, List.findSome?_cons, entryMatch_ordinary hq, entryMatch_ordinary hq,
        ih (fun t ht => hl t (List.mem_cons_of_mem _ ht))]
  exact this _ hno

/-- (b) A keyless user-kind entry defers to the FIRST user target list with the same variation. -/
theorem keyless_user_defers {ctx : Ctx} {f : Flag} {t : Target} (hk : KeylessUser t)
    (tpre : List Target) (t1 : Target) (tpost : List Target)
    (hts : f.targets = tpre ++ t1 :: tpost)
    (hpre : ∀ q ∈ tpre, q.variation ≠ t.variation) (h1 : t1.variation = t.variation) :
    entryMatch ctx f t = targetMatch ctx t1 := by
  have hfind : f.targets.find? (fun t1 => t1.variation == t.variation) = some t1 := by
    rw [hts]
    clear hts
    induction tpre with
    | nil => simp [h1]
    | cons q tpre ih =>
      have hq := hpre q (List.mem_cons_self ..)
      rw [List.cons_append, List.find?_cons_of_neg (by simpa using hq)]
      exact ih (fun q' hq' => hpre q' (List.mem_cons_of_mem _ hq'))
  unfold entryMatch
  rw [if_pos ((keylessUser_iff t).2 hk), hfind]

/-- … and contributes nothing when no user target list has that variation. -/
theorem keyless_user_no_list {ctx : Ctx} {f : Flag} {t : Target} (hk : KeylessUser t)
    (hno : ∀ q ∈ f.targets, q.variation ≠ t.variation) :
    entryMatch ctx f t = none := by
  have hfind : f.targets.find? (fun t1 => t1.variation == t.variation) = none := by
    rw [List.find?_eq_none]
    intro q hq
    simpa using hno q hq
  unfold entryMatch
  rw [if_pos ((keylessUser_iff t).2 hk), hfind]

/-! ### 5′. Precomputed lookup tables do not change the targeting stage -/

theorem findSome?_congr' {α β : Type} (g g' : α → Option β) (l : List α)
    (h : ∀ q ∈ l, g q = g' q) : l.findSome? g = l.findSome? g' := by
  induction l with
  | nil => rfl
  | cons q l ih =>
    rw [List.findSome?_cons, List.findSome?_cons, h q (List.mem_cons_self ..),
      ih (fun q' hq' => h q' (List.mem_cons_of_mem _ hq'))]

/-- `PreprocessFlag` (which fills the key tables of the user target lists of raw flag data) leaves
the whole targeting stage unchanged, for every context. -/
theorem anyTargetMatch_preprocess (rx : RegexOracle) (ctx : Ctx) (f : Flag)
    (h : ∀ t ∈ f.targets, t.pre = none) :
    anyTargetMatch ctx (preprocessFlag rx f) = anyTargetMatch ctx f := by
  have hdefer : ∀ (p : Target → Bool) (l : List Target), (∀ t ∈ l, t.pre = none) →
      (∀ t, p { t with pre := preprocessStringSet t.values } = p t) →
      (match (l.map fun t => { t with pre := preprocessStringSet t.values }).find? p with
        | some t1 => targetMatch ctx t1
        | none => none) =
      (match l.find? p with
        | some t1 => targetMatch ctx t1
        | none => none) := by
    intro p l hl hp
    induction l with
    | nil => rfl
    | cons q l ih =>
      rw [List.map_cons, List.find?_cons, List.find?_cons, hp q]
      cases p q with
      | true => exact targetMatch_preprocess ctx q (hl q (List.mem_cons_self ..))
      | false => exact ih (fun t ht => hl t (List.mem_cons_of_mem _ ht))
  unfold anyTargetMatch
  show (if f.contextTargets.isEmpty then
      (f.targets.map fun t => { t with pre := preprocessStringSet t.values }).findSome?
        (targetMatch ctx)
    else f.contextTargets.findSome? _) = _
  split
  · rw [List.findSome?_map]
    exact findSome?_congr' _ _ _ (fun t ht => targetMatch_preprocess ctx t (h t ht))
  · apply findSome?_congr'
    intro t _
    split
    · exact hdefer _ f.targets h (fun _ => rfl)
    · rfl

/-! ### 6. A target match beats every rule -/

theorem over_rules {rec : Spec.FlagRec} {seg : Spec.SegRec} {env : Env} {f : Flag}
    {chain : List String} {v : Int} (hon : f.on = true)
    (hp : Spec.checkPrereqs rec env f chain = .ok) (ht : anyTargetMatch env.ctx f = some v) :
    Spec.evalBody rec seg env f chain = some (Spec.getVariation f v .targetMatch, true) :=
  C02.target_over_rules hon hp ht

/-- End to end for one user target list (no context targets, no prerequisites): a context whose
user key is listed gets the list's variation with TARGET_MATCH from `evaluate`, whatever the
rules and fallthrough are. -/
theorem evaluate_listed_key (env : Env) (f : Flag) (hc : env.ctx ≠ .invalid)
    (hon : f.on = true) (hp : f.prerequisites = []) (hct : f.contextTargets = [])
    (pre : List Target) (t : Target) (post : List Target) (hts : f.targets = pre ++ t :: post)
    (hpre : ∀ q ∈ pre, targetMatch env.ctx q = none)
    (hform : t.pre = none ∨ t.pre = preprocessStringSet t.values)
    (sc : SCtx) (hsc : env.ctx.byKind t.contextKind = some sc) (hkey : sc.key ∈ t.values)
    (h0 : 0 ≤ t.variation) (h1 : t.variation < f.variations.length) :
    (evaluate env f).result.detail.index = some t.variation ∧
    (evaluate env f).result.detail.value = f.variations.getD t.variation.toNat .null ∧
    (evaluate env f).result.detail.reason.kind = .targetMatch := by
  have hm : targetMatch env.ctx t = some t.variation :=
    (targetMatch_iff env.ctx t t.variation hform).2 ⟨rfl, sc, hsc, hkey⟩
  have ht : anyTargetMatch env.ctx f = some t.variation :=
    legacy_first_match hct pre t post hts hpre (by rw [hm]; rfl)
  exact C02.evaluate_target_match_valid env f t.variation hc hon hp ht h0 h1

/-! ### 7. Non-vacuity -/

section Examples

def alice : Ctx := .single { kind := "user", key := "alice" }
def aliceAtOrg : Ctx := .multi [{ kind := "user", key := "alice" }, { kind := "org", key := "acme" }]

/-- Listed order: both lists contain `alice`; the first one wins. -/
example : anyTargetMatch alice
    { targets := [{ values := ["bob"], variation := 0 }, { values := ["alice"], variation := 2 },
                  { values := ["alice"], variation := 1 }] } = some 2 :=
  legacy_first_match rfl [{ values := ["bob"], variation := 0 }]
    { values := ["alice"], variation := 2 } [{ values := ["alice"], variation := 1 }] rfl
    (by intro q hq; rw [List.mem_singleton.1 hq]
        simp [targetMatch, alice, Ctx.byKind, Ctx.individuals, normKind, defaultKind,
          Target.findKey, findKey])
    (by simp [targetMatch, alice, Ctx.byKind, Ctx.individuals, normKind, defaultKind,
          Target.findKey, findKey])

/-- Exact equality: `Alice` is not `alice`. -/
example : targetMatch alice { values := ["Alice", "alice "], variation := 1 } = none := by
  simp [targetMatch, alice, Ctx.byKind, Ctx.individuals, normKind, defaultKind,
    Target.findKey, findKey]

/-- A user-only context never matches an `org` list, even one listing its key. -/
example : targetMatch alice { contextKind := "org", values := ["alice"], variation := 1 } = none :=
  missing_kind (by simp [alice, Ctx.byKind, Ctx.individuals, normKind])

/-- A multi-kind context matches an `org` list by its `org` key. -/
example : targetMatch aliceAtOrg { contextKind := "org", values := ["acme"], variation := 1 } =
    some 1 := by
  simp [targetMatch, aliceAtOrg, Ctx.byKind, Ctx.individuals, normKind, Target.findKey, findKey]

/-- Context targets with a keyless user entry of variation 1, and two user lists naming `alice`. -/
def exDefer : Flag :=
  { targets := [{ values := ["alice"], variation := 0 }, { values := ["alice"], variation := 1 }],
    contextTargets := [{ contextKind := "org", values := ["acme"], variation := 0 },
                       { contextKind := "user", values := [], variation := 1 }] }

/-- With context targets, the keyless user entry (variation 1) defers to the user list with
variation 1; the user list with variation 0, which also lists `alice`, is not consulted. -/
example : anyTargetMatch alice exDefer = some 1 := by
  refine context_first_match [{ contextKind := "org", values := ["acme"], variation := 0 }]
    { contextKind := "user", values := [], variation := 1 } [] 1 rfl ?_ ?_
  · intro q hq; rw [List.mem_singleton.1 hq]
    rw [entryMatch_ordinary (by simp [KeylessUser])]
    exact missing_kind (by simp [alice, Ctx.byKind, Ctx.individuals, normKind])
  · rw [keyless_user_defers (f := exDefer)
      (t := { contextKind := "user", values := [], variation := 1 }) ⟨Or.inr rfl, rfl⟩
      [{ values := ["alice"], variation := 0 }] { values := ["alice"], variation := 1 } [] rfl
      (by intro q hq; rw [List.mem_singleton.1 hq]; decide) rfl]
    simp [targetMatch, alice, Ctx.byKind, Ctx.individuals, normKind, defaultKind,
      Target.findKey, findKey]

/-- With context targets and no keyless user entry, a user list naming the key is ignored. -/
example : anyTargetMatch alice
    { targets := [{ values := ["alice"], variation := 0 }],
      contextTargets := [{ contextKind := "org", values := ["acme"], variation := 1 }] } = none := by
  rw [context_targets' (by simp)]
  apply findSome?_none
  intro q hq; rw [List.mem_singleton.1 hq]
  rw [entryMatch_ordinary (by simp [KeylessUser])]
  exact missing_kind (by simp [alice, Ctx.byKind, Ctx.individuals, normKind])

end Examples

end LD.C03

#print axioms LD.C03.findKey_table_transparent
#print axioms LD.C03.findKey_plain
#print axioms LD.C03.targetMatch_iff
#print axioms LD.C03.missing_kind
#print axioms LD.C03.legacy_only
#print axioms LD.C03.legacy_first_match
#print axioms LD.C03.context_targets
#print axioms LD.C03.context_first_match
#print axioms LD.C03.user_lists_otherwise_not_consulted
#print axioms LD.C03.keyless_user_defers
#print axioms LD.C03.keyless_user_no_list
#print axioms LD.C03.anyTargetMatch_preprocess
#print axioms LD.C03.over_rules
#print axioms LD.C03.evaluate_listed_key

/-
  C08 — Experiment attribution (inExperiment / IsExperiment).

  The reason reports in-experiment exactly when the stage that decided the result was a rollout of
  kind experiment, the chosen bucket is not marked untracked and the context has the experiment's
  context kind; experiments always bucket by key and ignore bucket-by and secondary key.
  Result.IsExperiment is true exactly when the reason is in-experiment, or the result is a
  fallthrough of a flag with track-events-fallthrough, or a match of a rule with track-events; it
  is false for off, target, prerequisite-failed and error results.
-/
import LDEval.Properties.C07
import LDEval.Proofs.Refine

namespace LD.C08
open LD.C07

/-! ### The bucket chosen by the selection (both exits) -/

/-- `wv` is the bucket the selection chooses for bucket value `b`: the bucket at the scan index
(in-loop exit) or, when the scan finds none, the last bucket (fallback exit). -/
def Chosen (b : Rat) (ws : List WeightedVariation) (wv : WeightedVariation) : Prop :=
  (∃ i, scanIndex b ws 0 = some i ∧ ws[i]? = some wv) ∨
  (scanIndex b ws 0 = none ∧ ws.getLast? = some wv)

theorem Chosen.unique {b : Rat} {ws : List WeightedVariation} {wv wv' : WeightedVariation}
    (h : Chosen b ws wv) (h' : Chosen b ws wv') : wv = wv' := by
  rcases h with ⟨i, hi, hw⟩ | ⟨hn, hw⟩ <;> rcases h' with ⟨i', hi', hw'⟩ | ⟨hn', hw'⟩
  · rw [hi] at hi'
    cases hi'
    rw [hw] at hw'
    exact Option.some.inj hw'
  · rw [hi] at hn'; cases hn'
  · rw [hn] at hi'; cases hi'
  · rw [hw] at hw'
    exact Option.some.inj hw'

theorem Chosen.mem {b : Rat} {ws : List WeightedVariation} {wv : WeightedVariation}
    (h : Chosen b ws wv) : wv ∈ ws := by
  rcases h with ⟨i, _, hw⟩ | ⟨_, hw⟩
  · exact List.mem_of_getElem? hw
  · exact List.mem_of_getLast? hw

/-- A non-empty rollout always has a chosen bucket. -/
theorem Chosen.exists (b : Rat) {ws : List WeightedVariation} (hne : ws ≠ []) :
    ∃ wv, Chosen b ws wv := by
  cases h : scanIndex b ws 0 with
  | some i =>
    have hi := scanIndex_lt h
    exact ⟨ws[i], Or.inl ⟨i, h, List.getElem?_eq_getElem hi⟩⟩
  | none =>
    cases hl : ws.getLast? with
    | none => exact absurd (List.getLast?_eq_none_iff.mp hl) hne
    | some last => exact ⟨last, Or.inr ⟨h, hl⟩⟩

/-- The complete description of a rollout's selection: the result is the variation of the chosen
bucket, and in-experiment is `isExperiment ∧ ¬untracked ∧ ¬(context lacks kind)`. -/
theorem selection (env : Env) (vr : VariationOrRollout) (key salt : String) (v : Int) (e : Bool)
    (hv : vr.variation = none) :
    variationOrRollout env vr key salt = .ok (v, e) ↔
      ∃ b fail wv,
        computeBucket env.opts.secondaryKey env.ctx vr.rollout.isExperiment vr.rollout.seed
          vr.rollout.contextKind key vr.rollout.bucketBy salt = .ok (b, fail) ∧
        Chosen b vr.rollout.variations wv ∧ v = wv.variation ∧
        e = (vr.rollout.isExperiment && !wv.untracked && !(fail == .contextLacksKind)) := by
  unfold variationOrRollout
  simp only [hv]
  constructor
  · intro h
    split at h
    · cases h
    · rename_i last hlast
      split at h
      · cases h
      · rename_i b fail hb
        refine ⟨b, fail, ?_⟩
        split at h
        · rename_i r hr
          cases h
          rw [select_spec'] at hr
          obtain ⟨wv, hwv, hr⟩ := Option.map_eq_some_iff.mp hr
          obtain ⟨i, hi, hw⟩ := Option.bind_eq_some_iff.mp hwv
          simp only [Prod.mk.injEq] at hr
          exact ⟨wv, hb, Or.inl ⟨i, hi, hw⟩, hr.1.symm, hr.2.symm⟩
        · rename_i hr
          cases h
          rw [select_spec, Option.map_eq_none_iff] at hr
          exact ⟨last, hb, Or.inr ⟨hr, hlast⟩, rfl, rfl⟩
  · rintro ⟨b, fail, wv, hb, hch, rfl, rfl⟩
    rw [hb]
    rcases hch with ⟨i, hi, hw⟩ | ⟨hn, hw⟩
    · have hmem : wv ∈ vr.rollout.variations := List.mem_of_getElem? hw
      cases hl : vr.rollout.variations.getLast? with
      | none =>
        rw [List.getLast?_eq_none_iff.mp hl] at hmem
        cases hmem
      | some last =>
        simp only
        rw [select_spec', hi]
        simp [hw]
    · rw [hw]
      simp only
      rw [select_spec, hn]
      rfl

/-! ### 1. When the selection reports in-experiment -/

theorem in_experiment_iff (env : Env) (vr : VariationOrRollout) (key salt : String) (v : Int)
    (e : Bool) (h : variationOrRollout env vr key salt = .ok (v, e)) :
    e = true ↔
      vr.variation = none ∧ vr.rollout.isExperiment = true ∧
      (∃ sc, env.ctx.byKind vr.rollout.contextKind = some sc) ∧
      ∃ b fail,
        computeBucket env.opts.secondaryKey env.ctx vr.rollout.isExperiment vr.rollout.seed
          vr.rollout.contextKind key vr.rollout.bucketBy salt = .ok (b, fail) ∧
        ∃ wv ∈ vr.rollout.variations, wv.variation = v ∧ wv.untracked = false ∧
          Chosen b vr.rollout.variations wv := by
  cases hv : vr.variation with
  | some x =>
    unfold variationOrRollout at h
    simp only [hv] at h
    cases h
    simp
  | none =>
    obtain ⟨b, fail, wv, hb, hch, rfl, rfl⟩ := (selection env vr key salt v e hv).mp h
    have hlk := Rollout.computeBucket_lacksKind hb
    constructor
    · intro he
      simp only [Bool.and_eq_true, Bool.not_eq_true', beq_eq_false_iff_ne, ne_eq] at he
      obtain ⟨⟨h1, h2⟩, h3⟩ := he
      refine ⟨rfl, h1, ?_, b, fail, hb, wv, hch.mem, rfl, h2, hch⟩
      cases hk : env.ctx.byKind vr.rollout.contextKind with
      | none => exact absurd (hlk.mpr hk) h3
      | some sc => exact ⟨sc, rfl⟩
    · rintro ⟨_, h1, ⟨sc, hsc⟩, b', fail', hb', wv', _, _, h2, hch'⟩
      rw [hb] at hb'
      cases hb'
      have := hch.unique hch'
      subst this
      have h3 : fail ≠ .contextLacksKind := by
        intro hf
        rw [hlk.mp hf] at hsc
        cases hsc
      simp [h1, h2, h3]

/-- The failure reason is "context lacks kind" exactly when the context has no individual context
of the requested kind (regardless of bucket-by). -/
theorem lacks_kind_iff {sec : Bool} {ctx : Ctx} {isExp : Bool} {seed : Option Int}
    {ck key : String} {attr : Ref} {salt : String} {b : Rat} {fail : BucketFail}
    (h : computeBucket sec ctx isExp seed ck key attr salt = .ok (b, fail)) :
    fail = .contextLacksKind ↔ ctx.byKind ck = none :=
  Rollout.computeBucket_lacksKind h

/-- A fixed variation is never in-experiment. -/
theorem fixed_variation (env : Env) (vr : VariationOrRollout) (key salt : String) (x : Int)
    (hv : vr.variation = some x) : variationOrRollout env vr key salt = .ok (x, false) := by
  unfold variationOrRollout
  simp only [hv]

/-! ### 2. Experiments always bucket by key -/

theorem experiment_by_key (sec sec' : Bool) (ctx : Ctx) (seed : Option Int) (ck key : String)
    (attr attr' : Ref) (salt : String) :
    computeBucket sec ctx true seed ck key attr salt =
      computeBucket sec' ctx true seed ck key attr' salt :=
  Rollout.computeBucket_experiment sec sec' ctx seed ck key attr attr' salt

/-- At the level of the selection: for an experiment rollout, neither the bucket-by attribute nor
the secondary-key option influence the result. -/
theorem experiment_selection_by_key (env : Env) (vr : VariationOrRollout) (key salt : String)
    (hexp : vr.rollout.isExperiment = true) (attr : Ref) (sec : Bool) :
    variationOrRollout { env with opts := { env.opts with secondaryKey := sec } }
        { vr with rollout := { vr.rollout with bucketBy := attr } } key salt =
      variationOrRollout env vr key salt := by
  unfold variationOrRollout
  have hexp' : ({ vr.rollout with bucketBy := attr } : Rollout).isExperiment = true := hexp
  simp only [hexp, hexp']
  rw [experiment_by_key sec env.opts.secondaryKey env.ctx vr.rollout.seed vr.rollout.contextKind key
    attr vr.rollout.bucketBy salt]

/-! ### 3. From the selection to the reason -/

theorem reason_in_experiment (env : Env) (f : Flag) (vr : VariationOrRollout) (r : Reason)
    (h : (Spec.getValueForVR env f vr r).reason.inExperiment = true) :
    r.inExperiment = true ∨ ∃ v, variationOrRollout env vr f.key f.salt = .ok (v, true) := by
  unfold Spec.getValueForVR at h
  split at h
  · simp [Detail.forError, Reason.error] at h
  · rename_i index inExp heq
    cases inExp with
    | true => exact Or.inr ⟨index, heq⟩
    | false =>
      left
      unfold Spec.getVariation at h
      split at h
      · simp [Detail.forError, Reason.error] at h
      · simpa using h

/-- On a successful in-range selection from the fallthrough or a rule, the reason keeps its kind,
rule index and rule id, and reports in-experiment exactly as the selection says. -/
theorem reason_of_selection (env : Env) (f : Flag) (vr : VariationOrRollout) (r : Reason)
    (v : Int) (e : Bool)
    (hk : r.kind = .fallthrough ∨ r.kind = .ruleMatch) (hr : r.inExperiment = false)
    (h : variationOrRollout env vr f.key f.salt = .ok (v, e))
    (h0 : 0 ≤ v) (h1 : v < f.variations.length) :
    (Spec.getValueForVR env f vr r).reason.inExperiment = e ∧
    (Spec.getValueForVR env f vr r).reason.kind = r.kind ∧
    (Spec.getValueForVR env f vr r).reason.ruleIndex = r.ruleIndex ∧
    (Spec.getValueForVR env f vr r).reason.ruleId = r.ruleId ∧
    (Spec.getValueForVR env f vr r).index = some v := by
  unfold Spec.getValueForVR
  rw [h]
  simp only
  unfold Spec.getVariation
  rw [if_neg (by omega)]
  cases e with
  | false => simp [hr]
  | true =>
    rcases hk with hk | hk <;> simp [Reason.toExperiment, hk]

theorem reason_of_selection_fallthrough (env : Env) (f : Flag) (vr : VariationOrRollout)
    (v : Int) (e : Bool) (h : variationOrRollout env vr f.key f.salt = .ok (v, e))
    (h0 : 0 ≤ v) (h1 : v < f.variations.length) :
    (Spec.getValueForVR env f vr .fallthrough).reason =
      { kind := .fallthrough, inExperiment := e } := by
  unfold Spec.getValueForVR
  rw [h]
  simp only
  unfold Spec.getVariation
  rw [if_neg (by omega)]
  cases e <;> rfl

theorem reason_of_selection_ruleMatch (env : Env) (f : Flag) (vr : VariationOrRollout)
    (i : Nat) (id : String)
    (v : Int) (e : Bool) (h : variationOrRollout env vr f.key f.salt = .ok (v, e))
    (h0 : 0 ≤ v) (h1 : v < f.variations.length) :
    (Spec.getValueForVR env f vr (.ruleMatch i id)).reason =
      { kind := .ruleMatch, ruleIndex := i, ruleId := id, inExperiment := e } := by
  unfold Spec.getValueForVR
  rw [h]
  simp only
  unfold Spec.getVariation
  rw [if_neg (by omega)]
  cases e <;> rfl

/-- The code-shaped `getValueForVR` (which also threads the log) produces the same detail. -/
theorem model_getValueForVR (env : Env) (f : Flag) (vr : VariationOrRollout) (r : Reason) (st : St) :
    (getValueForVR env f vr r st).1 = Spec.getValueForVR env f vr r :=
  (getValueForVR_spec env f vr r st).1

/-! ### 4. Result.IsExperiment -/

theorem is_experiment_iff (f : Flag) (r : Reason) :
    isExperimentResult f r = true ↔
      r.inExperiment = true ∨
      (r.kind = .fallthrough ∧ f.trackEventsFallthrough = true) ∨
      (r.kind = .ruleMatch ∧ ∃ rule, 0 ≤ r.ruleIndex ∧
        f.rules[r.ruleIndex.toNat]? = some rule ∧ rule.trackEvents = true) := by
  unfold isExperimentResult
  cases hin : r.inExperiment with
  | true => simp
  | false =>
    cases hk : r.kind <;> simp
    by_cases hi : 0 ≤ r.ruleIndex
    · simp only [hi]
      cases f.rules[r.ruleIndex.toNat]? <;> simp
    · simp [hi]

/-! ### 5. Off, target, prerequisite-failed and error results are never experiments -/

theorem not_experiment_kinds (f : Flag) (r : Reason) (hin : r.inExperiment = false)
    (hk : r.kind = .off ∨ r.kind = .targetMatch ∨ r.kind = .prereqFailed ∨ r.kind = .error) :
    isExperimentResult f r = false := by
  unfold isExperimentResult
  rcases hk with hk | hk | hk | hk <;> simp [hin, hk]

theorem built_reasons_not_in_experiment (k : String) (ek : ErrKind) :
    Reason.off.inExperiment = false ∧ Reason.targetMatch.inExperiment = false ∧
    (Reason.prereqFailed k).inExperiment = false ∧ (Reason.error ek).inExperiment = false ∧
    Reason.fallthrough.inExperiment = false ∧ ∀ i id, (Reason.ruleMatch i id).inExperiment = false :=
  ⟨rfl, rfl, rfl, rfl, rfl, fun _ _ => rfl⟩

theorem not_experiment_built (f : Flag) (k : String) (ek : ErrKind) :
    isExperimentResult f .off = false ∧ isExperimentResult f .targetMatch = false ∧
    isExperimentResult f (.prereqFailed k) = false ∧ isExperimentResult f (.error ek) = false :=
  ⟨rfl, rfl, rfl, rfl⟩

/-- `reasonToExperimentReason` only ever touches fallthrough and rule-match reasons. -/
theorem toExperiment_other (r : Reason)
    (hk : r.kind = .off ∨ r.kind = .targetMatch ∨ r.kind = .prereqFailed ∨ r.kind = .error) :
    r.toExperiment = r := by
  unfold Reason.toExperiment
  rcases hk with hk | hk | hk | hk <;> simp [hk]

/-! ### 6. What `Evaluate` returns -/

/-- The big-segment status annotation is irrelevant for `IsExperiment`. -/
theorem status_irrelevant (f : Flag) (r : Reason) (s : Option Status) :
    isExperimentResult f { r with bigSegmentsStatus := s } = isExperimentResult f r := rfl

theorem evaluate_isExperiment (env : Env) (f : Flag) :
    (evaluate env f).result.isExperiment =
      isExperimentResult f (evaluate env f).result.detail.reason := by
  unfold evaluate
  split
  · rfl
  · rfl

/-! ### 7. Non-vacuity -/

section Examples

def tracked : WeightedVariation := { variation := 0, weight := 50000 }
def untrackedWv : WeightedVariation := { variation := 1, weight := 50000, untracked := true }

/-- In-loop exit. -/
example : Chosen (1/4) [tracked, untrackedWv] tracked :=
  Or.inl ⟨0, by decide +kernel, rfl⟩
/-- Fallback exit (bucket value 1 is below no threshold). -/
example : Chosen 1 [tracked, untrackedWv] untrackedWv :=
  Or.inr ⟨by decide +kernel, rfl⟩

example : isExperimentResult { key := "f", trackEventsFallthrough := true } .fallthrough = true := rfl
example : isExperimentResult { key := "f" } .fallthrough = false := rfl
example : isExperimentResult { key := "f" } { kind := .ruleMatch, ruleIndex := 0, inExperiment := true }
    = true := rfl
example : isExperimentResult { key := "f", rules := [{ trackEvents := true }] }
    (.ruleMatch 0 "r") = true := rfl
example : (Reason.ruleMatch 3 "r").toExperiment =
    { kind := .ruleMatch, ruleIndex := 3, ruleId := "r", inExperiment := true } := rfl
example : Reason.off.toExperiment = Reason.off := rfl

/-! End-to-end (SHA-1 included, evaluated by the kernel): an experiment over the user kind with a
tracked and an untracked bucket. -/

def scUser : SCtx := { kind := "user", key := "k" }
def scOrg : SCtx := { kind := "org", key := "k" }
def envUser : Env :=
  { opts := {}, store := {}, bs := none, ctx := Ctx.single scUser, rx := fun _ _ => none }
def envOrg : Env :=
  { opts := {}, store := {}, bs := none, ctx := Ctx.single scOrg, rx := fun _ _ => none }
def expVR : VariationOrRollout :=
  { rollout := { kind := "experiment", contextKind := "user",
                 variations := [tracked, untrackedWv] } }

/-- In experiment: experiment rollout, tracked bucket, context has the kind. -/
example : variationOrRollout envUser expVR "f" "salt3" = .ok (0, true) := by decide +kernel
/-- Not in experiment: the chosen bucket is untracked. -/
example : variationOrRollout envUser expVR "f" "salt" = .ok (1, false) := by decide +kernel
/-- Not in experiment: the context lacks the experiment's kind (bucket value 0, first bucket). -/
example : variationOrRollout envOrg expVR "f" "salt3" = .ok (0, false) := by decide +kernel
/-- Not in experiment: same data, but the rollout is not an experiment. -/
example : variationOrRollout envUser
    { expVR with rollout := { expVR.rollout with kind := "rollout" } } "f" "salt3" =
    .ok (0, false) := by decide +kernel

end Examples

end LD.C08

#print axioms LD.C08.selection
#print axioms LD.C08.in_experiment_iff
#print axioms LD.C08.lacks_kind_iff
#print axioms LD.C08.experiment_by_key
#print axioms LD.C08.experiment_selection_by_key
#print axioms LD.C08.reason_in_experiment
#print axioms LD.C08.reason_of_selection
#print axioms LD.C08.reason_of_selection_fallthrough
#print axioms LD.C08.reason_of_selection_ruleMatch
#print axioms LD.C08.model_getValueForVR
#print axioms LD.C08.is_experiment_iff
#print axioms LD.C08.not_experiment_kinds
#print axioms LD.C08.built_reasons_not_in_experiment
#print axioms LD.C08.not_experiment_built
#print axioms LD.C08.evaluate_isExperiment

/-
  C08 — Experiment attribution (inExperiment / IsExperiment).

  The reason reports in-experiment exactly when the stage that decided the result was a rollout of
  kind experiment, the chosen bucket is not marked untracked and the context has the experiment's
  context kind; experiments always bucket by key and ignore bucket-by and secondary key.
  Result.IsExperiment is true exactly when the reason is in-experiment, or the result is a
  fallthrough of a flag with track-events-fallthrough, or a match of a rule with track-events; it
  is false for off, target, prerequisite-failed and error results.
-/
import LDEval.Properties.C07
import LDEval.Proofs.Refine
import LDEval.Proofs.AuditOrigin
import LDEval.Proofs.Prereq

namespace LD.C08
open LD.C07

/-! ### The bucket chosen by the selection (both exits) -/

/-- `wv` is the bucket the selection chooses for bucket value `b`: the bucket at the scan index
(in-loop exit) or, when the scan finds none, the last bucket (fallback exit). -/
def Chosen (b : Rat) (ws : List WeightedVariation) (wv : WeightedVariation) : Prop :=
  (∃ i, scanIndex b ws 0 = some i ∧ ws[i]? = some wv) ∨
  (scanIndex b ws 0 = none ∧ ws.getLast? = some wv)

theorem Chosen.unique {b : Rat} {ws : List WeightedVariation} {wv wv' : WeightedVariation}
    (h : Chosen b ws wv) (h' : Chosen b ws wv') : wv = wv' := by
  rcases h with ⟨i, hi, hw⟩ | ⟨hn, hw⟩ <;> rcases h' with ⟨i', hi', hw'⟩ | ⟨hn', hw'⟩
  · rw [hi] at hi'
    cases hi'
    rw [hw] at hw'
    exact Option.some.inj hw'
  · rw [hi] at hn'; cases hn'
  · rw [hn] at hi'; cases hi'
  · rw [hw] at hw'
    exact Option.some.inj hw'

theorem Chosen.mem {b : Rat} {ws : List WeightedVariation} {wv : WeightedVariation}
    (h : Chosen b ws wv) : wv ∈ ws := by
  rcases h with ⟨i, _, hw⟩ | ⟨_, hw⟩
  · exact List.mem_of_getElem? hw
  · exact List.mem_of_getLast? hw

/-- A non-empty rollout always has a chosen bucket. -/
theorem Chosen.exists (b : Rat) {ws : List WeightedVariation} (hne : ws ≠ []) :
    ∃ wv, Chosen b ws wv := by
  cases h : scanIndex b ws 0 with
  | some i =>
    have hi := scanIndex_lt h
    exact ⟨ws[i], Or.inl ⟨i, h, List.getElem?_eq_getElem hi⟩⟩
  | none =>
    cases hl : ws.getLast? with
    | none => exact absurd (List.getLast?_eq_none_iff.mp hl) hne
    | some last => exact ⟨last, Or.inr ⟨h, hl⟩⟩

/-- The complete description of a rollout's selection: the result is the variation of the chosen
bucket, and in-experiment is `isExperiment ∧ ¬untracked ∧ ¬(context lacks kind)`. -/
theorem selection (env : Env) (vr : VariationOrRollout) (key salt : String) (v : Int) (e : Bool)
    (hv : vr.variation = none) :
    variationOrRollout env vr key salt = .ok (v, e) ↔
      ∃ b fail wv,
        computeBucket env.opts.secondaryKey env.ctx vr.rollout.isExperiment vr.rollout.seed
          vr.rollout.contextKind key vr.rollout.bucketBy salt = .ok (b, fail) ∧
        Chosen b vr.rollout.variations wv ∧ v = wv.variation ∧
        e = (vr.rollout.isExperiment && !wv.untracked && !(fail == .contextLacksKind)) := by
  unfold variationOrRollout
  simp only [hv]
  constructor
  · intro h
    split at h
    · cases h
    · rename_i last hlast
      split at h
      · cases h
      · rename_i b fail hb
        refine ⟨b, fail, ?_⟩
        split at h
        · rename_i r hr
          cases h
          rw [select_spec'] at hr
          obtain ⟨wv, hwv, hr⟩ := Option.map_eq_some_iff.mp hr
          obtain ⟨i, hi, hw⟩ := Option.bind_eq_some_iff.mp hwv
          simp only [Prod.mk.injEq] at hr
          exact ⟨wv, hb, Or.inl ⟨i, hi, hw⟩, hr.1.symm, hr.2.symm⟩
        · rename_i hr
          cases h
          rw [select_spec, Option.map_eq_none_iff] at hr
          exact ⟨last, hb, Or.inr ⟨hr, hlast⟩, rfl, rfl⟩
  · rintro ⟨b, fail, wv, hb, hch, rfl, rfl⟩
    rw [hb]
    rcases hch with ⟨i, hi, hw⟩ | ⟨hn, hw⟩
    · have hmem : wv ∈ vr.rollout.variations := List.mem_of_getElem? hw
      cases hl : vr.rollout.variations.getLast? with
      | none =>
        rw [List.getLast?_eq_none_iff.mp hl] at hmem
        cases hmem
      | some last =>
        simp only
        rw [select_spec', hi]
        simp [hw]
    · rw [hw]
      simp only
      rw [select_spec, hn]
      rfl

/-! ### 1. When the selection reports in-experiment -/

theorem in_experiment_iff (env : Env) (vr : VariationOrRollout) (key salt : String) (v : Int)
    (e : Bool) (h : variationOrRollout env vr key salt = .ok (v, e)) :
    e = true ↔
      vr.variation = none ∧ vr.rollout.isExperiment = true ∧
      (∃ sc, env.ctx.byKind vr.rollout.contextKind = some sc) ∧
      ∃ b fail,
        computeBucket env.opts.secondaryKey env.ctx vr.rollout.isExperiment vr.rollout.seed
          vr.rollout.contextKind key vr.rollout.bucketBy salt = .ok (b, fail) ∧
        ∃ wv ∈ vr.rollout.variations, wv.variation = v ∧ wv.untracked = false ∧
          Chosen b vr.rollout.variations wv := by
  cases hv : vr.variation with
  | some x =>
    unfold variationOrRollout at h
    simp only [hv] at h
    cases h
    simp
  | none =>
    obtain ⟨b, fail, wv, hb, hch, rfl, rfl⟩ := (selection env vr key salt v e hv).mp h
    have hlk := Rollout.computeBucket_lacksKind hb
    constructor
    · intro he
      simp only [Bool.and_eq_true, Bool.not_eq_true', beq_eq_false_iff_ne, ne_eq] at he
      obtain ⟨⟨h1, h2⟩, h3⟩ := he
      refine ⟨rfl, h1, ?_, b, fail, hb, wv, hch.mem, rfl, h2, hch⟩
      cases hk : env.ctx.byKind vr.rollout.contextKind with
      | none => exact absurd (hlk.mpr hk) h3
      | some sc => exact ⟨sc, rfl⟩
    · rintro ⟨_, h1, ⟨sc, hsc⟩, b', fail', hb', wv', _, _, h2, hch'⟩
      rw [hb] at hb'
      cases hb'
      have := hch.unique hch'
      subst this
      have h3 : fail ≠ .contextLacksKind := by
        intro hf
        rw [hlk.mp hf] at hsc
        cases hsc
      simp [h1, h2, h3]

/-- The failure reason is "context lacks kind" exactly when the context has no individual context
of the requested kind (regardless of bucket-by). -/
theorem lacks_kind_iff {sec : Bool} {ctx : Ctx} {isExp : Bool} {seed : Option Int}
    {ck key : String} {attr : Ref} {salt : String} {b : Rat} {fail : BucketFail}
    (h : computeBucket sec ctx isExp seed ck key attr salt = .ok (b, fail)) :
    fail = .contextLacksKind ↔ ctx.byKind ck = none :=
  Rollout.computeBucket_lacksKind h

/-- A fixed variation is never in-experiment. -/
theorem fixed_variation (env : Env) (vr : VariationOrRollout) (key salt : String) (x : Int)
    (hv : vr.variation = some x) : variationOrRollout env vr key salt = .ok (x, false) := by
  unfold variationOrRollout
  simp only [hv]

/-! ### 2. Experiments always bucket by key -/

theorem experiment_by_key (sec sec' : Bool) (ctx : Ctx) (seed : Option Int) (ck key : String)
    (attr attr' : Ref) (salt : String) :
    computeBucket sec ctx true seed ck key attr salt =
      computeBucket sec' ctx true seed ck key attr' salt :=
  Rollout.computeBucket_experiment sec sec' ctx seed ck key attr attr' salt

/-- At the level of the selection: for an experiment rollout, neither the bucket-by attribute nor
the secondary-key option influence the result. -/
theorem experiment_selection_by_key (env : Env) (vr : VariationOrRollout) (key salt : String)
    (hexp : vr.rollout.isExperiment = true) (attr : Ref) (sec : Bool) :
    variationOrRollout { env with opts := { env.opts with secondaryKey := sec } }
        { vr with rollout := { vr.rollout with bucketBy := attr } } key salt =
      variationOrRollout env vr key salt := by
  unfold variationOrRollout
  have hexp' : ({ vr.rollout with bucketBy := attr } : Rollout).isExperiment = true := hexp
  simp only [hexp, hexp']
  rw [experiment_by_key sec env.opts.secondaryKey env.ctx vr.rollout.seed vr.rollout.contextKind key
    attr vr.rollout.bucketBy salt]

/-! ### 3. From the selection to the reason -/

theorem reason_in_experiment (env : Env) (f : Flag) (vr : VariationOrRollout) (r : Reason)
    (h : (Spec.getValueForVR env f vr r).reason.inExperiment = true) :
    r.inExperiment = true ∨ ∃ v, variationOrRollout env vr f.key f.salt = .ok (v, true) := by
  unfold Spec.getValueForVR at h
  split at h
  · simp [Detail.forError, Reason.error] at h
  · rename_i index inExp heq
    cases inExp with
    | true => exact Or.inr ⟨index, heq⟩
    | false =>
      left
      unfold Spec.getVariation at h
      split at h
      · simp [Detail.forError, Reason.error] at h
      · simpa using h

/-- On a successful in-range selection from the fallthrough or a rule, the reason keeps its kind,
rule index and rule id, and reports in-experiment exactly as the selection says. -/
theorem reason_of_selection (env : Env) (f : Flag) (vr : VariationOrRollout) (r : Reason)
    (v : Int) (e : Bool)
    (hk : r.kind = .fallthrough ∨ r.kind = .ruleMatch) (hr : r.inExperiment = false)
    (h : variationOrRollout env vr f.key f.salt = .ok (v, e))
    (h0 : 0 ≤ v) (h1 : v < f.variations.length) :
    (Spec.getValueForVR env f vr r).reason.inExperiment = e ∧
    (Spec.getValueForVR env f vr r).reason.kind = r.kind ∧
    (Spec.getValueForVR env f vr r).reason.ruleIndex = r.ruleIndex ∧
    (Spec.getValueForVR env f vr r).reason.ruleId = r.ruleId ∧
    (Spec.getValueForVR env f vr r).index = some v := by
  unfold Spec.getValueForVR
  rw [h]
  simp only
  unfold Spec.getVariation
  rw [if_neg (by omega)]
  cases e with
  | false => simp [hr]
  | true =>
    rcases hk with hk | hk <;> simp [Reason.toExperiment, hk]

theorem reason_of_selection_fallthrough (env : Env) (f : Flag) (vr : VariationOrRollout)
    (v : Int) (e : Bool) (h : variationOrRollout env vr f.key f.salt = .ok (v, e))
    (h0 : 0 ≤ v) (h1 : v < f.variations.length) :
    (Spec.getValueForVR env f vr .fallthrough).reason =
      { kind := .fallthrough, inExperiment := e } := by
  unfold Spec.getValueForVR
  rw [h]
  simp only
  unfold Spec.getVariation
  rw [if_neg (by omega)]
  cases e <;> rfl

theorem reason_of_selection_ruleMatch (env : Env) (f : Flag) (vr : VariationOrRollout)
    (i : Nat) (id : String)
    (v : Int) (e : Bool) (h : variationOrRollout env vr f.key f.salt = .ok (v, e))
    (h0 : 0 ≤ v) (h1 : v < f.variations.length) :
    (Spec.getValueForVR env f vr (.ruleMatch i id)).reason =
      { kind := .ruleMatch, ruleIndex := i, ruleId := id, inExperiment := e } := by
  unfold Spec.getValueForVR
  rw [h]
  simp only
  unfold Spec.getVariation
  rw [if_neg (by omega)]
  cases e <;> rfl

/-- The code-shaped `getValueForVR` (which also threads the log) produces the same detail. -/
theorem model_getValueForVR (env : Env) (f : Flag) (vr : VariationOrRollout) (r : Reason) (st : St) :
    (getValueForVR env f vr r st).1 = Spec.getValueForVR env f vr r :=
  (getValueForVR_spec env f vr r st).1

/-! ### 4. Result.IsExperiment -/

theorem is_experiment_iff (f : Flag) (r : Reason) :
    isExperimentResult f r = true ↔
      r.inExperiment = true ∨
      (r.kind = .fallthrough ∧ f.trackEventsFallthrough = true) ∨
      (r.kind = .ruleMatch ∧ ∃ rule, 0 ≤ r.ruleIndex ∧
        f.rules[r.ruleIndex.toNat]? = some rule ∧ rule.trackEvents = true) := by
  unfold isExperimentResult
  cases hin : r.inExperiment with
  | true => simp
  | false =>
    cases hk : r.kind <;> simp
    by_cases hi : 0 ≤ r.ruleIndex
    · simp only [hi]
      cases f.rules[r.ruleIndex.toNat]? <;> simp
    · simp [hi]

/-! ### 5. Off, target, prerequisite-failed and error results are never experiments -/

theorem not_experiment_kinds (f : Flag) (r : Reason) (hin : r.inExperiment = false)
    (hk : r.kind = .off ∨ r.kind = .targetMatch ∨ r.kind = .prereqFailed ∨ r.kind = .error) :
    isExperimentResult f r = false := by
  unfold isExperimentResult
  rcases hk with hk | hk | hk | hk <;> simp [hin, hk]

theorem built_reasons_not_in_experiment (k : String) (ek : ErrKind) :
    Reason.off.inExperiment = false ∧ Reason.targetMatch.inExperiment = false ∧
    (Reason.prereqFailed k).inExperiment = false ∧ (Reason.error ek).inExperiment = false ∧
    Reason.fallthrough.inExperiment = false ∧ ∀ i id, (Reason.ruleMatch i id).inExperiment = false :=
  ⟨rfl, rfl, rfl, rfl, rfl, fun _ _ => rfl⟩

theorem not_experiment_built (f : Flag) (k : String) (ek : ErrKind) :
    isExperimentResult f .off = false ∧ isExperimentResult f .targetMatch = false ∧
    isExperimentResult f (.prereqFailed k) = false ∧ isExperimentResult f (.error ek) = false :=
  ⟨rfl, rfl, rfl, rfl⟩

/-- `reasonToExperimentReason` only ever touches fallthrough and rule-match reasons. -/
theorem toExperiment_other (r : Reason)
    (hk : r.kind = .off ∨ r.kind = .targetMatch ∨ r.kind = .prereqFailed ∨ r.kind = .error) :
    r.toExperiment = r := by
  unfold Reason.toExperiment
  rcases hk with hk | hk | hk | hk <;> simp [hk]

/-! ### 6. What `Evaluate` returns -/

/-- The big-segment status annotation is irrelevant for `IsExperiment`. -/
theorem status_irrelevant (f : Flag) (r : Reason) (s : Option Status) :
    isExperimentResult f { r with bigSegmentsStatus := s } = isExperimentResult f r := rfl

theorem evaluate_isExperiment (env : Env) (f : Flag) :
    (evaluate env f).result.isExperiment =
      isExperimentResult f (evaluate env f).result.detail.reason := by
  unfold evaluate
  split
  · rfl
  · rfl

/-! ### 7. Non-vacuity -/

section Examples

def tracked : WeightedVariation := { variation := 0, weight := 50000 }
def untrackedWv : WeightedVariation := { variation := 1, weight := 50000, untracked := true }

/-- In-loop exit. -/
example : Chosen (1/4) [tracked, untrackedWv] tracked :=
  Or.inl ⟨0, by decide +kernel, rfl⟩
/-- Fallback exit (bucket value 1 is below no threshold). -/
example : Chosen 1 [tracked, untrackedWv] untrackedWv :=
  Or.inr ⟨by decide +kernel, rfl⟩

example : isExperimentResult { key := "f", trackEventsFallthrough := true } .fallthrough = true := rfl
example : isExperimentResult { key := "f" } .fallthrough = false := rfl
example : isExperimentResult { key := "f" } { kind := .ruleMatch, ruleIndex := 0, inExperiment := true }
    = true := rfl
example : isExperimentResult { key := "f", rules := [{ trackEvents := true }] }
    (.ruleMatch 0 "r") = true := rfl
example : (Reason.ruleMatch 3 "r").toExperiment =
    { kind := .ruleMatch, ruleIndex := 3, ruleId := "r", inExperiment := true } := rfl
example : Reason.off.toExperiment = Reason.off := rfl

/-! End-to-end (SHA-1 included, evaluated by the kernel): an experiment over the user kind with a
tracked and an untracked bucket. -/

def scUser : SCtx := { kind := "user", key := "k" }
def scOrg : SCtx := { kind := "org", key := "k" }
def envUser : Env :=
  { opts := {}, store := {}, bs := none, ctx := Ctx.single scUser, rx := fun _ _ => none }
def envOrg : Env :=
  { opts := {}, store := {}, bs := none, ctx := Ctx.single scOrg, rx := fun _ _ => none }
def expVR : VariationOrRollout :=
  { rollout := { kind := "experiment", contextKind := "user",
                 variations := [tracked, untrackedWv] } }

/-- In experiment: experiment rollout, tracked bucket, context has the kind. -/
example : variationOrRollout envUser expVR "f" "salt3" = .ok (0, true) := by decide +kernel
/-- Not in experiment: the chosen bucket is untracked. -/
example : variationOrRollout envUser expVR "f" "salt" = .ok (1, false) := by decide +kernel
/-- Not in experiment: the context lacks the experiment's kind (bucket value 0, first bucket). -/
example : variationOrRollout envOrg expVR "f" "salt3" = .ok (0, false) := by decide +kernel
/-- Not in experiment: same data, but the rollout is not an experiment. -/
example : variationOrRollout envUser
    { expVR with rollout := { expVR.rollout with kind := "rollout" } } "f" "salt3" =
    .ok (0, false) := by decide +kernel

end Examples

/-! ## Strengthened statements (theorem audit) -/

section Audit
open LD.AuditC08

/-- The variation-or-rollout that the reason names as the deciding one: the flag's fallthrough for a
FALLTHROUGH reason, the one of the rule at the reported index for a RULE_MATCH reason, none
otherwise (off, target match, prerequisite failed, error). -/
def decidingVR (f : Flag) (r : Reason) : Option VariationOrRollout :=
  match r.kind with
  | .fallthrough => some f.fallthrough
  | .ruleMatch => if 0 ≤ r.ruleIndex then (f.rules[r.ruleIndex.toNat]?).map (·.vr) else none
  | _ => none

theorem decidingVR_congr (f : Flag) {r r' : Reason} (hk : r'.kind = r.kind)
    (hi : r'.ruleIndex = r.ruleIndex) : decidingVR f r' = decidingVR f r := by
  unfold decidingVR; rw [hk, hi]

/-- Spec level: a detail with a known origin is in-experiment exactly when the
variation-or-rollout its reason names selected its variation with the in-experiment bit. -/
theorem origin_inExperiment_iff {env : Env} {f : Flag} {d : Detail} (h : Origin env f d) :
    d.reason.inExperiment = true ↔
      ∃ vr v, decidingVR f d.reason = some vr ∧
        variationOrRollout env vr f.key f.salt = .ok (v, true) ∧ d.index = some v := by
  cases h with
  | early hk hin =>
    rw [hin]
    have : decidingVR f d.reason = none := by
      unfold decidingVR; rcases hk with hk | hk | hk | hk <;> rw [hk]
    simp [this]
  | fallthrough h =>
    subst h
    rcases getValueForVR_cases env f f.fallthrough .fallthrough with
      ⟨k, hd⟩ | ⟨v, e, hvr, -, -, hr, hi, -⟩
    · rw [hd]; simp [decidingVR, Detail.forError, Reason.error]
    · rw [hr, hi]
      cases e
      · simp [decidingVR, Reason.fallthrough, hvr]
      · simp [decidingVR, toExperiment_fallthrough, hvr]
  | rule j r hj h =>
    subst h
    rcases getValueForVR_cases env f r.vr (.ruleMatch j r.id) with
      ⟨k, hd⟩ | ⟨v, e, hvr, -, -, hr, hi, -⟩
    · rw [hd]; simp [decidingVR, Detail.forError, Reason.error]
    · rw [hr, hi]
      cases e
      · simp [decidingVR, Reason.ruleMatch, hj, hvr]
      · simp [decidingVR, toExperiment_ruleMatch, hj, hvr]

/-- The reason fields of `evaluate`'s result that do not depend on the big-segments status are
those of a Spec detail with a known origin (valid contexts). -/
theorem evaluate_origin (env : Env) (f : Flag) (hc : env.ctx ≠ .invalid) :
    ∃ d, Origin env f d ∧
      (evaluate env f).result.detail.value = d.value ∧
      (evaluate env f).result.detail.index = d.index ∧
      (evaluate env f).result.detail.reason.kind = d.reason.kind ∧
      (evaluate env f).result.detail.reason.ruleIndex = d.reason.ruleIndex ∧
      (evaluate env f).result.detail.reason.ruleId = d.reason.ruleId ∧
      (evaluate env f).result.detail.reason.inExperiment = d.reason.inExperiment := by
  obtain ⟨d, ok, hs, ho⟩ := evaluate_spec_origin env f hc
  obtain ⟨-, hv, hi, hk, hri, hid, -, -, hin⟩ := evaluate_detail_spec env f hc d ok hs
  exact ⟨d, ho, hv, hi, hk, hri, hid, hin⟩

/-- **In-experiment at the entry point (C08 #27).**  The reason returned by `Evaluator.Evaluate`
reports in-experiment exactly when the stage its kind names as deciding — the flag's fallthrough for
FALLTHROUGH, the rule at the reported rule index for RULE_MATCH — is a rollout whose selection for
this context returned the served variation index with the in-experiment bit set.  In particular it
never does for off, target-match, prerequisite-failed and error results. -/
theorem evaluate_inExperiment_iff (env : Env) (f : Flag) :
    (evaluate env f).result.detail.reason.inExperiment = true ↔
      ∃ vr v, decidingVR f (evaluate env f).result.detail.reason = some vr ∧
        variationOrRollout env vr f.key f.salt = .ok (v, true) ∧
        (evaluate env f).result.detail.index = some v := by
  by_cases hc : env.ctx = .invalid
  · rw [(evaluate_invalid f hc).2]
    simp [decidingVR, Detail.forError, Reason.error]
  · obtain ⟨d, ho, -, hi, hk, hri, -, hin⟩ := evaluate_origin env f hc
    rw [hin, hi, decidingVR_congr f hk hri]
    exact origin_inExperiment_iff ho

/-- **In-experiment, spelled out.**  `Evaluate`'s reason is in-experiment exactly when the deciding
variation-or-rollout (fallthrough or matched rule) has no fixed variation, its rollout is of kind
experiment, the context has an individual context of the experiment's context kind, and the bucket
chosen for the context (by key: `computeBucket` ignores bucket-by for experiments, see
`experiment_by_key`) is not marked untracked; the served variation is that bucket's. -/
theorem evaluate_inExperiment_iff_tracked (env : Env) (f : Flag) :
    (evaluate env f).result.detail.reason.inExperiment = true ↔
      ∃ vr, decidingVR f (evaluate env f).result.detail.reason = some vr ∧
        vr.variation = none ∧ vr.rollout.isExperiment = true ∧
        (∃ sc, env.ctx.byKind vr.rollout.contextKind = some sc) ∧
        ∃ b fail wv,
          computeBucket env.opts.secondaryKey env.ctx vr.rollout.isExperiment vr.rollout.seed
            vr.rollout.contextKind f.key vr.rollout.bucketBy f.salt = .ok (b, fail) ∧
          Chosen b vr.rollout.variations wv ∧ wv.untracked = false ∧
          (evaluate env f).result.detail.index = some wv.variation := by
  rw [evaluate_inExperiment_iff]
  constructor
  · rintro ⟨vr, v, hd, hvr, hidx⟩
    obtain ⟨hv, hexp, hsc, b, fail, hb, wv, -, hwv, hunt, hch⟩ :=
      (in_experiment_iff env vr f.key f.salt v true hvr).mp rfl
    exact ⟨vr, hd, hv, hexp, hsc, b, fail, wv, hb, hch, hunt, by rw [hidx, hwv]⟩
  · rintro ⟨vr, hd, hv, hexp, ⟨sc, hsc⟩, b, fail, wv, hb, hch, hunt, hidx⟩
    refine ⟨vr, wv.variation, hd, ?_, hidx⟩
    rw [selection env vr f.key f.salt wv.variation true hv]
    refine ⟨b, fail, wv, hb, hch, rfl, ?_⟩
    have h3 : fail ≠ .contextLacksKind := by
      intro hf
      rw [(lacks_kind_iff hb).mp hf] at hsc
      cases hsc
    simp [hexp, hunt, h3]

/-- In-experiment only ever comes with a FALLTHROUGH or RULE_MATCH reason. -/
theorem evaluate_inExperiment_kind (env : Env) (f : Flag)
    (h : (evaluate env f).result.detail.reason.inExperiment = true) :
    (evaluate env f).result.detail.reason.kind = .fallthrough ∨
    (evaluate env f).result.detail.reason.kind = .ruleMatch := by
  by_cases hc : env.ctx = .invalid
  · rw [(evaluate_invalid f hc).2] at h; cases h
  · obtain ⟨d, ho, -, -, hk, -, -, hin⟩ := evaluate_origin env f hc
    rw [hk]; exact ho.inExperiment_kind (hin ▸ h)

/-- A RULE_MATCH reason returned by `Evaluate` names an existing rule of the flag: the index is in
range and the reported rule id is that rule's id. -/
theorem evaluate_ruleMatch_rule (env : Env) (f : Flag)
    (hk : (evaluate env f).result.detail.reason.kind = .ruleMatch) :
    ∃ rule, 0 ≤ (evaluate env f).result.detail.reason.ruleIndex ∧
      f.rules[(evaluate env f).result.detail.reason.ruleIndex.toNat]? = some rule ∧
      (evaluate env f).result.detail.reason.ruleId = rule.id := by
  by_cases hc : env.ctx = .invalid
  · rw [(evaluate_invalid f hc).2] at hk; cases hk
  · obtain ⟨d, ho, -, -, hk', hri, hid, -⟩ := evaluate_origin env f hc
    obtain ⟨rule, h0, hr, hi, -⟩ := ho.ruleMatch_rule (hk' ▸ hk)
    exact ⟨rule, hri ▸ h0, hri ▸ hr, hid ▸ hi⟩

/-- **C08 #26, the missing entry-point theorem.**  `Result.IsExperiment` of what `Evaluate` returns is
false for off, target-match, prerequisite-failed and error results — whatever the flag's
track-events settings are. -/
theorem evaluate_not_experiment (env : Env) (f : Flag)
    (hk : (evaluate env f).result.detail.reason.kind = .off ∨
          (evaluate env f).result.detail.reason.kind = .targetMatch ∨
          (evaluate env f).result.detail.reason.kind = .prereqFailed ∨
          (evaluate env f).result.detail.reason.kind = .error) :
    (evaluate env f).result.isExperiment = false ∧
    (evaluate env f).result.detail.reason.inExperiment = false := by
  have hin : (evaluate env f).result.detail.reason.inExperiment = false := by
    cases hi : (evaluate env f).result.detail.reason.inExperiment with
    | false => rfl
    | true =>
      rcases evaluate_inExperiment_kind env f hi with h | h <;> rw [h] at hk <;> simp at hk
  exact ⟨by rw [evaluate_isExperiment]; exact not_experiment_kinds _ _ hin hk, hin⟩

/-- **`Result.IsExperiment` at the entry point.**  It is true exactly when the returned reason is
in-experiment, or the result is a FALLTHROUGH of a flag with track-events-fallthrough, or a
RULE_MATCH of a rule with track-events (by `evaluate_ruleMatch_rule` the rule at the reported index
always exists and is the matched one). -/
theorem evaluate_isExperiment_iff (env : Env) (f : Flag) :
    (evaluate env f).result.isExperiment = true ↔
      (evaluate env f).result.detail.reason.inExperiment = true ∨
      ((evaluate env f).result.detail.reason.kind = .fallthrough ∧
        f.trackEventsFallthrough = true) ∨
      ((evaluate env f).result.detail.reason.kind = .ruleMatch ∧
        ∃ rule, 0 ≤ (evaluate env f).result.detail.reason.ruleIndex ∧
          f.rules[(evaluate env f).result.detail.reason.ruleIndex.toNat]? = some rule ∧
          rule.trackEvents = true) := by
  rw [evaluate_isExperiment]; exact is_experiment_iff f _

/-- FALLTHROUGH results: `IsExperiment = inExperiment ∨ trackEventsFallthrough`. -/
theorem evaluate_isExperiment_fallthrough (env : Env) (f : Flag)
    (hk : (evaluate env f).result.detail.reason.kind = .fallthrough) :
    (evaluate env f).result.isExperiment =
      ((evaluate env f).result.detail.reason.inExperiment || f.trackEventsFallthrough) := by
  rw [evaluate_isExperiment]
  unfold isExperimentResult
  rw [hk]
  cases (evaluate env f).result.detail.reason.inExperiment <;> rfl

/-- RULE_MATCH results: `IsExperiment = inExperiment ∨ rule.trackEvents` for the matched rule. -/
theorem evaluate_isExperiment_ruleMatch (env : Env) (f : Flag)
    (hk : (evaluate env f).result.detail.reason.kind = .ruleMatch) :
    ∃ rule, f.rules[(evaluate env f).result.detail.reason.ruleIndex.toNat]? = some rule ∧
      (evaluate env f).result.detail.reason.ruleId = rule.id ∧
      (evaluate env f).result.isExperiment =
        ((evaluate env f).result.detail.reason.inExperiment || rule.trackEvents) := by
  obtain ⟨rule, h0, hr, hid⟩ := evaluate_ruleMatch_rule env f hk
  refine ⟨rule, hr, hid, ?_⟩
  rw [evaluate_isExperiment]
  unfold isExperimentResult
  rw [hk]
  simp only [ge_iff_le, h0, if_true, hr]
  cases (evaluate env f).result.detail.reason.inExperiment <;> rfl

/-- All kinds at once: `IsExperiment` as a function of the returned reason and the flag. -/
theorem evaluate_isExperiment_eq (env : Env) (f : Flag) :
    (evaluate env f).result.isExperiment =
      ((evaluate env f).result.detail.reason.inExperiment ||
        match (evaluate env f).result.detail.reason.kind with
        | .fallthrough => f.trackEventsFallthrough
        | .ruleMatch =>
          ((f.rules[(evaluate env f).result.detail.reason.ruleIndex.toNat]?).map
            (·.trackEvents)).getD false
        | _ => false) := by
  cases hk : (evaluate env f).result.detail.reason.kind with
  | fallthrough => exact evaluate_isExperiment_fallthrough env f hk
  | ruleMatch =>
    obtain ⟨rule, hr, -, h⟩ := evaluate_isExperiment_ruleMatch env f hk
    rw [h, hr]; rfl
  | off => obtain ⟨h1, h2⟩ := evaluate_not_experiment env f (.inl hk); rw [h1, h2]; rfl
  | targetMatch =>
    obtain ⟨h1, h2⟩ := evaluate_not_experiment env f (.inr (.inl hk)); rw [h1, h2]; rfl
  | prereqFailed =>
    obtain ⟨h1, h2⟩ := evaluate_not_experiment env f (.inr (.inr (.inl hk))); rw [h1, h2]; rfl
  | error =>
    obtain ⟨h1, h2⟩ := evaluate_not_experiment env f (.inr (.inr (.inr hk))); rw [h1, h2]; rfl

/-! #### `PrerequisiteFlagEvent.PrerequisiteResult.IsExperiment` (C08 #28) -/

/-- **The experiment bit carried by prerequisite events.**  Every event `Evaluate` records is for a
prerequisite flag `pf` returned by the store; its result detail has one of the three origins with
respect to `pf`, and its `IsExperiment` is `isExperiment` of `pf` (NOT of the dependent flag) on
that detail's reason.  Hence the laws of this file hold for events too: in-experiment exactly
when `pf`'s deciding fallthrough/rule rollout says so, never an experiment for off, target-match,
prerequisite-failed and error results of `pf`. -/
theorem event_isExperiment (env : Env) (top : Flag) :
    ∀ e ∈ (evaluate env top).events, ∃ pf ∈ env.store.flags.map (·.2),
      e.prereqKey = pf.key ∧ Origin env pf e.result.detail ∧
      e.result.isExperiment = isExperimentResult pf e.result.detail.reason ∧
      (e.result.detail.reason.inExperiment = true ↔
        ∃ vr v, decidingVR pf e.result.detail.reason = some vr ∧
          variationOrRollout env vr pf.key pf.salt = .ok (v, true) ∧
          e.result.detail.index = some v) ∧
      ((e.result.detail.reason.kind = .off ∨ e.result.detail.reason.kind = .targetMatch ∨
        e.result.detail.reason.kind = .prereqFailed ∨ e.result.detail.reason.kind = .error) →
        e.result.isExperiment = false) := by
  intro e he
  obtain ⟨f, pf, p, d, -, -, hfind, rfl, hs⟩ := evaluate_events_ok env top e he
  have ho : Origin env pf d := origin_evalFlag _ _ env pf [] d true hs
  refine ⟨pf, Store.findFlag_mem hfind, rfl, ho, rfl, origin_inExperiment_iff ho, ?_⟩
  intro hk
  apply not_experiment_kinds pf d.reason _ hk
  cases hi : d.reason.inExperiment with
  | false => rfl
  | true =>
    have hk' : d.reason.kind = .off ∨ d.reason.kind = .targetMatch ∨
        d.reason.kind = .prereqFailed ∨ d.reason.kind = .error := hk
    rcases ho.inExperiment_kind hi with h | h <;> rw [h] at hk' <;> simp at hk'

/-! Non-vacuity of the entry-point statements: whole evaluations (SHA-1 included) by the kernel. -/

/-- An on flag whose fallthrough is the experiment `expVR`; rule 0 never matches (`in []`), rule 1
matches every `user` context and tracks events. -/
def expFlag (salt : String) : Flag :=
  { key := "f", on := true, salt := salt, variations := [.bool false, .bool true],
    fallthrough := expVR }

def kindRule : FlagRule :=
  { id := "r1", trackEvents := true, vr := { variation := some 1 },
    clauses := [{ attr := Ref.newRef "kind", op := "in", values := [.str "user"] }] }

/-- Fallthrough into a tracked bucket of an experiment: in-experiment and `IsExperiment`. -/
example : (evaluate envUser (expFlag "salt3")).result.detail.reason.kind = .fallthrough ∧
    (evaluate envUser (expFlag "salt3")).result.detail.reason.inExperiment = true ∧
    (evaluate envUser (expFlag "salt3")).result.isExperiment = true := by decide +kernel
/-- Untracked bucket: neither. -/
example : (evaluate envUser (expFlag "salt")).result.detail.reason.kind = .fallthrough ∧
    (evaluate envUser (expFlag "salt")).result.detail.reason.inExperiment = false ∧
    (evaluate envUser (expFlag "salt")).result.isExperiment = false := by decide +kernel
/-- Untracked bucket but track-events-fallthrough: `IsExperiment` without in-experiment. -/
example : (evaluate envUser { expFlag "salt" with trackEventsFallthrough := true }).result.isExperiment
    = true := by decide +kernel
/-- A matched rule with track-events (hypothesis of `evaluate_isExperiment_ruleMatch`). -/
example : (evaluate envUser { expFlag "salt" with rules := [kindRule] }).result.detail.reason.kind
      = .ruleMatch ∧
    (evaluate envUser { expFlag "salt" with rules := [kindRule] }).result.isExperiment = true := by
  decide +kernel
/-- The hypotheses of `evaluate_not_experiment` are met by a flag that is off although it has
track-events-fallthrough and an experiment fallthrough … -/
example : (evaluate envUser { expFlag "salt3" with on := false, trackEventsFallthrough := true
    }).result.detail.reason.kind = .off := by decide +kernel
/-- … and by an error result (experiment over an empty rollout) of a flag with
track-events-fallthrough. -/
def emptyExpFlag : Flag :=
  { expFlag "salt3" with trackEventsFallthrough := true, fallthrough := { rollout := { kind := "experiment" } } }
example : (evaluate envUser emptyExpFlag).result.detail.reason.kind = .error := by decide +kernel
example : decidingVR (expFlag "s") { kind := .fallthrough } = some expVR := rfl

/-- An event whose prerequisite result is an experiment (`event_isExperiment` is not vacuous): the
prerequisite `f` is the experiment flag above, the dependent flag has no tracking at all. -/
example : ((evaluate { envUser with store := { flags := [("f", expFlag "salt3")] } }
      { key := "t", on := true, prerequisites := [{ key := "f", variation := 0 }],
        variations := [.bool true], fallthrough := { variation := some 0 } }).events.map
      (fun e => (e.prereqKey, e.result.isExperiment, e.result.detail.reason.inExperiment))) =
    [("f", true, true)] := by decide +kernel

end Audit

end LD.C08

#print axioms LD.C08.selection
#print axioms LD.C08.in_experiment_iff
#print axioms LD.C08.lacks_kind_iff
#print axioms LD.C08.experiment_by_key
#print axioms LD.C08.experiment_selection_by_key
#print axioms LD.C08.reason_in_experiment
#print axioms LD.C08.reason_of_selection
#print axioms LD.C08.reason_of_selection_fallthrough
#print axioms LD.C08.reason_of_selection_ruleMatch
#print axioms LD.C08.model_getValueForVR
#print axioms LD.C08.is_experiment_iff
#print axioms LD.C08.not_experiment_kinds
#print axioms LD.C08.built_reasons_not_in_experiment
#print axioms LD.C08.not_experiment_built
#print axioms LD.C08.evaluate_isExperiment
#print axioms LD.C08.origin_inExperiment_iff
#print axioms LD.C08.evaluate_origin
#print axioms LD.C08.evaluate_inExperiment_iff
#print axioms LD.C08.evaluate_inExperiment_iff_tracked
#print axioms LD.C08.evaluate_inExperiment_kind
#print axioms LD.C08.evaluate_ruleMatch_rule
#print axioms LD.C08.evaluate_not_experiment
#print axioms LD.C08.evaluate_isExperiment_iff
#print axioms LD.C08.evaluate_isExperiment_fallthrough
#print axioms LD.C08.evaluate_isExperiment_ruleMatch
#print axioms LD.C08.evaluate_isExperiment_eq
#print axioms LD.C08.event_isExperiment

/-
  C04 — Clause and operator semantics.

  "A clause matches iff the context of the clause's kind has the referenced attribute and some
  (attribute value or array element, clause value) pair satisfies the operator under its typed
  definition: `in` is type-and-value equality of primitives, startsWith/endsWith/contains are
  string tests, matches is an RE2 search, the four comparison operators are numeric order,
  before/after are timestamp order, the semVer operators are Semantic Versioning 2.0 precedence
  (minor/patch may be omitted); mismatched types, unparseable operands and unknown operators never
  satisfy it. Negation inverts the outcome only when the attribute exists (a missing kind or
  attribute is a non-match either way); attribute `kind` tests every kind present in the context; …
  reaching a non-segment clause whose attribute is undefined or syntactically invalid makes the
  evaluation MALFORMED_FLAG."

  The declarative operator table is `Sat`.  The theorems are stated for plain clauses (`pre = {}`)
  and lifted to preprocessed clauses through C14 at the end of the file.  For `matches` the table
  says `rx p a = some true`; the code first asks whether the pattern compiles (`rx p ""` has an
  answer), so the equivalence needs the oracle to be coherent (`Coherent rx`: a pattern without an
  answer on the empty subject has no answer on any subject).  That hypothesis is explicit and is
  only required when the operator is `matches`.
-/
import LDEval.Proofs.SemVer
import LDEval.Properties.C14

namespace LD.C04

/-- `Sat rx op u v`: the context value `u` and the clause value `v` satisfy operator `op`.

Unparsed values (`J.raw`, Go's `ldvalue.Raw`) enter the table exactly as the Go code treats them:
where the code asks `IsString()` / `IsNumber()` / `StringValue()` / `Float64Value()` / `Equal` the
operand is read through `J.unraw` (its parsed value); where it asks `Type()` the raw operand has no
usable type.  So the string, regexp, numeric and semVer rows are stated on `u.unraw` / `v.unraw`
(`parseSemVer` reads its operand through `unraw`, see `parseSemVer_eq_some_iff`); in the `in` row the
*context* value must itself be a primitive (a raw context value is found nowhere) while the clause
value is compared through `unraw`; and in the `before` / `after` rows neither operand may be raw
(`Time.valueToTimestamp` has no case for it, see `valueToTimestamp_raw`). -/
def Sat (rx : RegexOracle) (op : String) (u v : J) : Prop :=
  (op = "in" ∧ ((∃ a, u = .bool a ∧ v.unraw = .bool a) ∨ (∃ a, u = .num a ∧ v.unraw = .num a) ∨
      (∃ a, u = .str a ∧ v.unraw = .str a))) ∨
  (op = "startsWith" ∧ ∃ a b, u.unraw = .str a ∧ v.unraw = .str b ∧ strHasPrefix a b = true) ∨
  (op = "endsWith" ∧ ∃ a b, u.unraw = .str a ∧ v.unraw = .str b ∧ strHasSuffix a b = true) ∨
  (op = "contains" ∧ ∃ a b, u.unraw = .str a ∧ v.unraw = .str b ∧ strContains a b = true) ∨
  (op = "matches" ∧ ∃ a p, u.unraw = .str a ∧ v.unraw = .str p ∧ rx p a = some true) ∨
  (op = "lessThan" ∧ ∃ a b, u.unraw = .num a ∧ v.unraw = .num b ∧ a < b) ∨
  (op = "lessThanOrEqual" ∧ ∃ a b, u.unraw = .num a ∧ v.unraw = .num b ∧ a ≤ b) ∨
  (op = "greaterThan" ∧ ∃ a b, u.unraw = .num a ∧ v.unraw = .num b ∧ a > b) ∨
  (op = "greaterThanOrEqual" ∧ ∃ a b, u.unraw = .num a ∧ v.unraw = .num b ∧ a ≥ b) ∨
  (op = "before" ∧ ∃ t1 t2, Time.valueToTimestamp u = some t1 ∧ Time.valueToTimestamp v = some t2 ∧
      t1 < t2) ∨
  (op = "after" ∧ ∃ t1 t2, Time.valueToTimestamp u = some t1 ∧ Time.valueToTimestamp v = some t2 ∧
      t1 > t2) ∨
  (op = "semVerEqual" ∧ ∃ a b, parseSemVer u = some a ∧ parseSemVer v = some b ∧
      SemVerM.compare a b = 0) ∨
  (op = "semVerLessThan" ∧ ∃ a b, parseSemVer u = some a ∧ parseSemVer v = some b ∧
      SemVerM.compare a b = -1) ∨
  (op = "semVerGreaterThan" ∧ ∃ a b, parseSemVer u = some a ∧ parseSemVer v = some b ∧
      SemVerM.compare a b = 1)

/-- The fourteen operator names of the table (`segmentMatch` is handled elsewhere, see C05). -/
def opNames : List String :=
  ["in", "startsWith", "endsWith", "contains", "matches", "lessThan", "lessThanOrEqual",
   "greaterThan", "greaterThanOrEqual", "before", "after", "semVerEqual", "semVerLessThan",
   "semVerGreaterThan"]

/-- The oracle is coherent: a pattern that does not compile (no answer on the empty subject)
has no answer on any subject.  (Go: `regexp.Compile` fails independently of the subject.) -/
def Coherent (rx : RegexOracle) : Prop := ∀ p a, rx p "" = none → rx p a = none

variable (rx : RegexOracle)

/-- `Value.Equal` on primitives parses a raw operand on either side. -/
theorem primEq_iff (u v : J) :
    u.primEq v = true ↔ (∃ a, u.unraw = .bool a ∧ v.unraw = .bool a) ∨
      (∃ a, u.unraw = .num a ∧ v.unraw = .num a) ∨ (∃ a, u.unraw = .str a ∧ v.unraw = .str a) := by
  unfold J.primEq
  cases u.unraw <;> cases v.unraw <;> simp <;> exact eq_comm

/-- The typed linear search looks at the *type* of the context value first: a raw context value is
found nowhere, although `Equal` alone would parse it. -/
theorem linearFind_iff (vals : List J) (u : J) :
    linearFind vals u = true ↔ u.isRaw = false ∧ ∃ v ∈ vals, u.primEq v = true := by
  cases u <;> simp [linearFind, J.primEq, J.isRaw]

/-- The typed linear search is the `in` row of the table. -/
theorem linearFind_iff_sat (vals : List J) (u : J) :
    linearFind vals u = true ↔ ∃ v ∈ vals, (∃ a, u = .bool a ∧ v.unraw = .bool a) ∨
      (∃ a, u = .num a ∧ v.unraw = .num a) ∨ (∃ a, u = .str a ∧ v.unraw = .str a) := by
  cases u <;> simp [linearFind, primEq_iff]

/-- The timestamp conversion switches on `Type()`: a raw value is never a timestamp. -/
theorem valueToTimestamp_raw (w : J) : Time.valueToTimestamp (.raw w) = none := rfl

/-- The semVer conversion asks `IsString()` / `StringValue()`: it reads the parsed value. -/
theorem parseSemVer_eq_some_iff (u : J) (a : SemVer) :
    parseSemVer u = some a ↔ ∃ s, u.unraw = .str s ∧ SemVerM.parse s = some a := by
  unfold parseSemVer
  cases u.unraw <;> simp

theorem parseSemVer_raw (w : J) : parseSemVer (.raw w) = parseSemVer w := by simp [parseSemVer]

/-! ### The table, row by row -/

section rows
variable (u v : J)

theorem sat_in : Sat rx "in" u v ↔ (∃ a, u = .bool a ∧ v.unraw = .bool a) ∨
    (∃ a, u = .num a ∧ v.unraw = .num a) ∨ (∃ a, u = .str a ∧ v.unraw = .str a) := by simp [Sat]
theorem sat_startsWith : Sat rx "startsWith" u v ↔
    ∃ a b, u.unraw = .str a ∧ v.unraw = .str b ∧ strHasPrefix a b = true := by simp [Sat]
theorem sat_endsWith : Sat rx "endsWith" u v ↔
    ∃ a b, u.unraw = .str a ∧ v.unraw = .str b ∧ strHasSuffix a b = true := by simp [Sat]
theorem sat_contains : Sat rx "contains" u v ↔
    ∃ a b, u.unraw = .str a ∧ v.unraw = .str b ∧ strContains a b = true := by simp [Sat]
theorem sat_matches : Sat rx "matches" u v ↔
    ∃ a p, u.unraw = .str a ∧ v.unraw = .str p ∧ rx p a = some true := by simp [Sat]
theorem sat_lessThan : Sat rx "lessThan" u v ↔
    ∃ a b, u.unraw = .num a ∧ v.unraw = .num b ∧ a < b := by simp [Sat]
theorem sat_lessThanOrEqual : Sat rx "lessThanOrEqual" u v ↔
    ∃ a b, u.unraw = .num a ∧ v.unraw = .num b ∧ a ≤ b := by simp [Sat]
theorem sat_greaterThan : Sat rx "greaterThan" u v ↔
    ∃ a b, u.unraw = .num a ∧ v.unraw = .num b ∧ a > b := by simp [Sat]
theorem sat_greaterThanOrEqual : Sat rx "greaterThanOrEqual" u v ↔
    ∃ a b, u.unraw = .num a ∧ v.unraw = .num b ∧ a ≥ b := by simp [Sat]
theorem sat_before : Sat rx "before" u v ↔
    ∃ t1 t2, Time.valueToTimestamp u = some t1 ∧ Time.valueToTimestamp v = some t2 ∧ t1 < t2 := by
  simp [Sat]
theorem sat_after : Sat rx "after" u v ↔
    ∃ t1 t2, Time.valueToTimestamp u = some t1 ∧ Time.valueToTimestamp v = some t2 ∧ t1 > t2 := by
  simp [Sat]
theorem sat_semVerEqual : Sat rx "semVerEqual" u v ↔
    ∃ a b, parseSemVer u = some a ∧ parseSemVer v = some b ∧ SemVerM.compare a b = 0 := by
  simp [Sat]
theorem sat_semVerLessThan : Sat rx "semVerLessThan" u v ↔
    ∃ a b, parseSemVer u = some a ∧ parseSemVer v = some b ∧ SemVerM.compare a b = -1 := by
  simp [Sat]
theorem sat_semVerGreaterThan : Sat rx "semVerGreaterThan" u v ↔
    ∃ a b, parseSemVer u = some a ∧ parseSemVer v = some b ∧ SemVerM.compare a b = 1 := by
  simp [Sat]

end rows

/-! ### Raw (unparsed) operands, operator by operator -/

/-- OPAQUE: a raw context value satisfies `in` with nothing (`ClauseFindValue` switches on
`Type()`, and `asPrimitiveValueKey` too). -/
theorem sat_in_raw_ctx (w v : J) : ¬ Sat rx "in" (.raw w) v := by simp [Sat]

/-- OPAQUE: a raw operand on either side satisfies neither `before` nor `after`. -/
theorem sat_date_raw_ctx (op : String) (hop : op = "before" ∨ op = "after") (w v : J) :
    ¬ Sat rx op (.raw w) v := by
  rcases hop with rfl | rfl <;> simp [Sat, Time.valueToTimestamp]
theorem sat_date_raw_clause (op : String) (hop : op = "before" ∨ op = "after") (u w : J) :
    ¬ Sat rx op u (.raw w) := by
  rcases hop with rfl | rfl <;> simp [Sat, Time.valueToTimestamp]

/-- TRANSPARENT on the context side: for every operator but `in`, `before`, `after`, a raw context
value satisfies exactly what its parsed value satisfies. -/
theorem sat_raw_ctx (op : String) (hop : op ≠ "in" ∧ op ≠ "before" ∧ op ≠ "after") (w v : J) :
    Sat rx op (.raw w) v ↔ Sat rx op w v := by
  simp [Sat, hop, parseSemVer_raw]

/-- TRANSPARENT on the clause side: for every operator but `before`, `after` (so for `in` too:
`Equal` parses), a raw clause value satisfies exactly what its parsed value satisfies. -/
theorem sat_raw_clause (op : String) (hop : op ≠ "before" ∧ op ≠ "after") (u w : J) :
    Sat rx op u (.raw w) ↔ Sat rx op u w := by
  simp [Sat, hop, parseSemVer_raw]

/-- An operator name outside the table satisfies nothing. -/
theorem sat_unknown (op : String) (h : op ∉ opNames) (u v : J) : ¬ Sat rx op u v := by
  simp only [opNames, List.mem_cons, List.not_mem_nil, or_false, not_or] at h
  unfold Sat
  simp [h]

/-- The typed accessors of a plain clause parse the operand on the spot. -/
theorem doOp_plain_iff (c : Clause) (hpre : c.pre = {}) (hin : c.op ≠ "in")
    (hrx : c.op = "matches" → Coherent rx) (u v : J) (i : Nat) (hv : c.values[i]? = some v) :
    doOp rx c u v i = true ↔ Sat rx c.op u v := by
  have hts : c.valueAsTimestamp i = Time.valueToTimestamp v := by
    simp [Clause.valueAsTimestamp, hpre, hv]
  have hsv : c.valueAsSemVer i = parseSemVer v := by
    simp [Clause.valueAsSemVer, hpre, hv]
  have hre : c.valueAsRegexp rx i = parseRegexp rx v := by
    simp [Clause.valueAsRegexp, hpre, hv]
  unfold doOp
  simp only [hts, hsv, hre]
  by_cases h1 : c.op = "endsWith"
  · rw [h1, sat_endsWith]; simp only [String.reduceEq, beq_self_eq_true, if_true, if_false,
      beq_iff_eq]
    generalize u.unraw = u'; generalize v.unraw = v'; cases u' <;> cases v' <;> simp
  by_cases h2 : c.op = "startsWith"
  · rw [h2, sat_startsWith]; simp only [String.reduceEq, beq_self_eq_true, if_true, if_false,
      beq_iff_eq]
    generalize u.unraw = u'; generalize v.unraw = v'; cases u' <;> cases v' <;> simp
  by_cases h3 : c.op = "matches"
  · rw [h3, sat_matches]
    have hco := hrx h3
    simp only [parseRegexp]
    generalize u.unraw = u'; generalize v.unraw = v'
    cases u' <;> cases v' <;> simp
    rename_i a p
    cases h0 : rx p "" with
    | none => simp [hco p a h0]
    | some b0 => cases hra : rx p a <;> simp [hra]
  by_cases h4 : c.op = "contains"
  · rw [h4, sat_contains]; simp only [String.reduceEq, beq_self_eq_true, if_true, if_false,
      beq_iff_eq]
    generalize u.unraw = u'; generalize v.unraw = v'; cases u' <;> cases v' <;> simp
  by_cases h5 : c.op = "lessThan"
  · rw [h5, sat_lessThan]; simp only [String.reduceEq, beq_self_eq_true, if_true, if_false,
      beq_iff_eq]
    generalize u.unraw = u'; generalize v.unraw = v'; cases u' <;> cases v' <;> simp
  by_cases h6 : c.op = "lessThanOrEqual"
  · rw [h6, sat_lessThanOrEqual]; simp only [String.reduceEq, beq_self_eq_true, if_true, if_false,
      beq_iff_eq]
    generalize u.unraw = u'; generalize v.unraw = v'; cases u' <;> cases v' <;> simp
  by_cases h7 : c.op = "greaterThan"
  · rw [h7, sat_greaterThan]; simp only [String.reduceEq, beq_self_eq_true, if_true, if_false,
      beq_iff_eq]
    generalize u.unraw = u'; generalize v.unraw = v'; cases u' <;> cases v' <;> simp
  by_cases h8 : c.op = "greaterThanOrEqual"
  · rw [h8, sat_greaterThanOrEqual]; simp only [String.reduceEq, beq_self_eq_true, if_true, if_false,
      beq_iff_eq]
    generalize u.unraw = u'; generalize v.unraw = v'; cases u' <;> cases v' <;> simp
  by_cases h9 : c.op = "before"
  · rw [h9, sat_before]
    cases Time.valueToTimestamp v <;> cases Time.valueToTimestamp u <;> simp
  by_cases h10 : c.op = "after"
  · rw [h10, sat_after]
    cases Time.valueToTimestamp v <;> cases Time.valueToTimestamp u <;> simp
  by_cases h11 : c.op = "semVerEqual"
  · rw [h11, sat_semVerEqual]
    cases parseSemVer v <;> cases parseSemVer u <;> simp
  by_cases h12 : c.op = "semVerLessThan"
  · rw [h12, sat_semVerLessThan]
    cases parseSemVer v <;> cases parseSemVer u <;> simp
  by_cases h13 : c.op = "semVerGreaterThan"
  · rw [h13, sat_semVerGreaterThan]
    cases parseSemVer v <;> cases parseSemVer u <;> simp
  have hn : c.op ∉ opNames := by
    simp [opNames, hin, h1, h2, h3, h4, h5, h6, h7, h8, h9, h10, h11, h12, h13]
  simp [h1, h2, h3, h4, h5, h6, h7, h8, h9, h10, h11, h12, h13, sat_unknown rx c.op hn]

/-! ### 1. `matchAny`: some clause value satisfies the operator -/

/-- For a plain (not preprocessed) clause, a context value `u` matches iff some clause value
satisfies the operator with `u` under the typed table `Sat`.  The coherence of the regexp oracle is
needed for `matches` only.  (C14 lifts this to preprocessed clauses.) -/
theorem matchAny_iff (c : Clause) (hpre : c.pre = {}) (hrx : c.op = "matches" → Coherent rx)
    (u : J) : matchAny rx c u = true ↔ ∃ v ∈ c.values, Sat rx c.op u v := by
  unfold matchAny
  by_cases hin : c.op = "in"
  · simp only [hin, beq_self_eq_true, if_true]
    rw [findValue_plain c (by rw [hpre]), linearFind_iff_sat]
    simp only [sat_in]
  · have hne : (c.op == "in") = false := by simpa using hin
    simp only [hne, Bool.false_eq_true, if_false, anyIdx_iff, Nat.zero_add]
    constructor
    · rintro ⟨j, hj, h⟩
      exact ⟨c.values[j], List.getElem_mem hj,
        (doOp_plain_iff rx c hpre hin hrx u _ j (List.getElem?_eq_getElem hj)).1 h⟩
    · rintro ⟨v, hv, h⟩
      obtain ⟨j, hj, rfl⟩ := List.getElem_of_mem hv
      exact ⟨j, hj, (doOp_plain_iff rx c hpre hin hrx u _ j (List.getElem?_eq_getElem hj)).2 h⟩

/-- Unknown operators (anything but the fourteen names; that includes `segmentMatch` when it
reaches the non-segment code path) match nothing — with or without tables. -/
theorem unknown_op_never (c : Clause) (hop : c.op ∉ opNames) (u : J) : matchAny rx c u = false := by
  simp only [opNames, List.mem_cons, List.not_mem_nil, or_false, not_or] at hop
  have hd : ∀ cv i, doOp rx c u cv i = false := by
    intro cv i; unfold doOp; simp [hop]
  unfold matchAny
  have hne : (c.op == "in") = false := by simpa using hop.1
  simp only [hne, Bool.false_eq_true, if_false, hd]
  generalize 0 = k
  induction c.values generalizing k with
  | nil => rfl
  | cons a l ih => simp [anyIdx, ih]

/-! ### 2. Clauses on an ordinary attribute -/

/-- The values a context attribute offers to the operator: the elements of an array, else the
value itself.  The array test is `Type() == ArrayType`: an unparsed array (`.raw (.arr xs)`) is NOT
iterated, it is offered as the single value it is. -/
def elems : J → List J
  | .arr xs => xs
  | v => [v]

/-- The clause's kind is absent from the context: non-match, negated or not. -/
theorem missing_kind_no_match (c : Clause) (ctx : Ctx) (hdef : c.attr.isDefined = true)
    (herr : c.attr.errOf = none) (hk : c.attr.raw ≠ "kind")
    (hmiss : ctx.byKind c.contextKind = none) : clauseMatchNoSeg rx ctx c = .ok false := by
  unfold clauseMatchNoSeg
  simp [hdef, herr, hk, hmiss]

/-- The attribute is absent from the context of the clause's kind: non-match, negated or not. -/
theorem missing_attr_no_match (c : Clause) (ctx : Ctx) (sc : SCtx) (hdef : c.attr.isDefined = true)
    (herr : c.attr.errOf = none) (hk : c.attr.raw ≠ "kind")
    (hsc : ctx.byKind c.contextKind = some sc) (hmiss : sc.valueForRef c.attr = .null) :
    clauseMatchNoSeg rx ctx c = .ok false := by
  unfold clauseMatchNoSeg
  simp [hdef, herr, hk, hsc, hmiss]

/-- The null test is `IsNull()`, which parses: an attribute (in practice a nested member) holding
the unparsed text `null` is absent as well. -/
theorem null_attr_no_match (c : Clause) (ctx : Ctx) (sc : SCtx) (hdef : c.attr.isDefined = true)
    (herr : c.attr.errOf = none) (hk : c.attr.raw ≠ "kind")
    (hsc : ctx.byKind c.contextKind = some sc) (hmiss : (sc.valueForRef c.attr).unraw = .null) :
    clauseMatchNoSeg rx ctx c = .ok false := by
  have hn : (sc.valueForRef c.attr).isNull = true := (J.isNull_iff _).2 hmiss
  unfold clauseMatchNoSeg
  simp only [hdef, herr, hsc, Bool.not_true, Bool.false_eq_true, if_false, Option.isSome_none]
  have : (c.attr.raw == "kind") = false := by simpa using hk
  simp only [this, Bool.false_eq_true, if_false]
  cases h : sc.valueForRef c.attr <;> simp_all

/-- The attribute is present (its parsed value is not null): negate ⊻ (some element of the attribute
value and some clause value satisfy the operator). -/
theorem present_attr_match (c : Clause) (ctx : Ctx) (sc : SCtx) (hdef : c.attr.isDefined = true)
    (herr : c.attr.errOf = none) (hk : c.attr.raw ≠ "kind")
    (hsc : ctx.byKind c.contextKind = some sc) (hpres : (sc.valueForRef c.attr).unraw ≠ .null) :
    clauseMatchNoSeg rx ctx c =
      .ok (maybeNegate c.negate ((elems (sc.valueForRef c.attr)).any (matchAny rx c))) := by
  unfold clauseMatchNoSeg
  simp only [hdef, herr, hsc, Bool.not_true, Bool.false_eq_true, if_false, Option.isSome_none]
  have : (c.attr.raw == "kind") = false := by simpa using hk
  simp only [this, Bool.false_eq_true, if_false]
  have hn : (sc.valueForRef c.attr).isNull = false := (J.isNull_eq_false_iff _).2 hpres
  cases h : sc.valueForRef c.attr <;> simp_all [elems]

theorem maybeNegate_eq_true (n b : Bool) : maybeNegate n b = true ↔ (n = false ↔ b = true) := by
  cases n <;> cases b <;> simp [maybeNegate]

/-- A non-segment clause on an ordinary attribute, in full. -/
theorem clause_iff (c : Clause) (ctx : Ctx) (hdef : c.attr.isDefined = true)
    (herr : c.attr.errOf = none) (hk : c.attr.raw ≠ "kind") (hpre : c.pre = {})
    (hrx : c.op = "matches" → Coherent rx) :
    ∃ b, clauseMatchNoSeg rx ctx c = .ok b ∧
      (b = true ↔ ∃ sc, ctx.byKind c.contextKind = some sc ∧ (sc.valueForRef c.attr).unraw ≠ .null ∧
        (c.negate = false ↔
          ∃ u ∈ elems (sc.valueForRef c.attr), ∃ v ∈ c.values, Sat rx c.op u v)) := by
  cases hsc : ctx.byKind c.contextKind with
  | none =>
    exact ⟨false, missing_kind_no_match rx c ctx hdef herr hk hsc, by simp⟩
  | some sc =>
    by_cases hnull : (sc.valueForRef c.attr).unraw = .null
    · refine ⟨false, null_attr_no_match rx c ctx sc hdef herr hk hsc hnull, ?_⟩
      simp [hnull]
    · refine ⟨_, present_attr_match rx c ctx sc hdef herr hk hsc hnull, ?_⟩
      rw [maybeNegate_eq_true]
      simp only [Option.some.injEq, List.any_eq_true, matchAny_iff rx c hpre hrx]
      constructor
      · intro h; exact ⟨sc, rfl, hnull, h⟩
      · rintro ⟨sc', rfl, _, h⟩; exact h

/-! ### 3. Attribute `kind` -/

/-- The kinds a `kind` clause is tested against: every kind present in the context. -/
def kindsOf : Ctx → List String
  | .multi cs => cs.map (·.kind)
  | ctx => [ctx.kind]

theorem kindsOf_single (sc : SCtx) : kindsOf (.single sc) = [sc.kind] := rfl
theorem kindsOf_multi (cs : List SCtx) : kindsOf (.multi cs) = cs.map (·.kind) := rfl

/-- Attribute `kind` tests every kind present in the context (the clause's own `contextKind` is
not consulted), and negation inverts the outcome. -/
theorem kind_clause (c : Clause) (ctx : Ctx) (hk : c.attr.raw = "kind") (herr : c.attr.errOf = none) :
    clauseMatchNoSeg rx ctx c =
      .ok (maybeNegate c.negate ((kindsOf ctx).any fun k => matchAny rx c (.str k))) := by
  have hdef : c.attr.isDefined = true := by simp [Ref.isDefined, hk]
  unfold clauseMatchNoSeg clauseMatchByKind
  simp only [hdef, herr, hk]
  cases ctx <;> simp [kindsOf, List.any_map, Function.comp_def]

theorem kind_clause_iff (c : Clause) (ctx : Ctx) (hk : c.attr.raw = "kind")
    (herr : c.attr.errOf = none) (hpre : c.pre = {}) (hrx : c.op = "matches" → Coherent rx) :
    ∃ b, clauseMatchNoSeg rx ctx c = .ok b ∧
      (b = true ↔ (c.negate = false ↔
        ∃ k ∈ kindsOf ctx, ∃ v ∈ c.values, Sat rx c.op (.str k) v)) := by
  refine ⟨_, kind_clause rx c ctx hk herr, ?_⟩
  rw [maybeNegate_eq_true]
  simp only [List.any_eq_true, matchAny_iff rx c hpre hrx]

/-! ### 4. Malformed attribute references -/

theorem malformed_undefined (c : Clause) (ctx : Ctx) (h : c.attr.isDefined = false) :
    clauseMatchNoSeg rx ctx c = .error .emptyAttr := by
  unfold clauseMatchNoSeg; simp [h]

theorem malformed_invalid (c : Clause) (ctx : Ctx) (h : c.attr.isDefined = true)
    (he : c.attr.errOf.isSome = true) :
    clauseMatchNoSeg rx ctx c = .error (.badAttrRef c.attr.raw) := by
  unfold clauseMatchNoSeg; simp [h, he]

theorem malformed_kinds (s : String) :
    EvalErr.emptyAttr.kind = .malformedFlag ∧ (EvalErr.badAttrRef s).kind = .malformedFlag :=
  ⟨rfl, rfl⟩

/-! ### Lifting to preprocessed clauses (C14) -/

theorem matchAny_iff_preprocessed (c : Clause) (hrx : c.op = "matches" → Coherent rx) (u : J) :
    matchAny rx { c with pre := preprocessClause rx c } u = true ↔
      ∃ v ∈ c.values, Sat rx c.op u v := by
  rw [C14.matchAny_transparent]
  exact matchAny_iff rx { c with pre := {} } rfl hrx u

theorem clause_iff_preprocessed (c : Clause) (ctx : Ctx) (hdef : c.attr.isDefined = true)
    (herr : c.attr.errOf = none) (hk : c.attr.raw ≠ "kind") (hrx : c.op = "matches" → Coherent rx) :
    ∃ b, clauseMatchNoSeg rx ctx { c with pre := preprocessClause rx c } = .ok b ∧
      (b = true ↔ ∃ sc, ctx.byKind c.contextKind = some sc ∧ (sc.valueForRef c.attr).unraw ≠ .null ∧
        (c.negate = false ↔
          ∃ u ∈ elems (sc.valueForRef c.attr), ∃ v ∈ c.values, Sat rx c.op u v)) := by
  rw [C14.clause_transparent]
  exact clause_iff rx { c with pre := {} } ctx hdef herr hk rfl hrx

/-! ### 5. Non-vacuity -/

example : Sat rx "in" (.num 1) (.num 1) := by simp [Sat]
example : ¬ Sat rx "in" (.num 1) (.str "1") := by simp [Sat]
example : ¬ Sat rx "in" (.arr [.num 1]) (.num 1) := by simp [Sat]
example : Sat rx "lessThan" (.num 1) (.num 2) := by
  rw [sat_lessThan]; exact ⟨1, 2, rfl, rfl, by decide⟩
example : ¬ Sat rx "lessThan" (.str "1") (.num 2) := by simp [Sat]
example : Sat rx "startsWith" (.str "abc") (.str "ab") := by
  rw [sat_startsWith]; exact ⟨_, _, rfl, rfl, by decide⟩
example : Sat rx "before" (.num 1000) (.num 2000) := by
  rw [sat_before]; exact ⟨1000000000, 2000000000, by decide, by decide, by decide⟩
example : ¬ Sat rx "before" (.bool true) (.num 2000) := by
  rw [sat_before]; simp [Time.valueToTimestamp]
example : ¬ Sat rx "semVerEqual" (.num 2) (.num 2) := by
  rw [sat_semVerEqual]; simp [parseSemVer]
example : ¬ Sat rx "segmentMatch" (.str "a") (.str "a") := sat_unknown rx _ (by decide) _ _
example : ¬ Sat rx "In" (.str "a") (.str "a") := sat_unknown rx _ (by decide) _ _

/-- A coherent oracle exists (so `matchAny_iff` is not vacuous for `matches`). -/
example : Coherent (fun p a => if p = "(" then none else some (p = a)) := by
  intro p a h; by_cases hp : p = "(" <;> simp_all

/-- …and an incoherent one shows the hypothesis is needed: the table would say "match" where the
code says "pattern does not compile". -/
example : ¬ Coherent (fun _ a => if a = "" then none else some true) := by
  intro h; have := h "p" "x" (by simp); simp at this

def exCtx : Ctx := .single { kind := "user", key := "k", name := some "Bob" }
def exClause (attr : String) (neg : Bool) : Clause :=
  { attr := { raw := attr, single := attr }, op := "in", values := [.num 1, .str "Bob"],
    negate := neg }

example : clauseMatchNoSeg rx exCtx (exClause "name" false) = .ok true := by
  simp [clauseMatchNoSeg, exClause, exCtx, Ref.isDefined, Ref.errOf, Ctx.byKind, Ctx.individuals,
    normKind, defaultKind, SCtx.valueForRef, SCtx.topLevel, Ref.component, SCtx.descend,
    maybeNegate, matchAny, Clause.findValue, J.primEq]
example : clauseMatchNoSeg rx exCtx (exClause "name" true) = .ok false := by
  simp [clauseMatchNoSeg, exClause, exCtx, Ref.isDefined, Ref.errOf, Ctx.byKind, Ctx.individuals,
    normKind, defaultKind, SCtx.valueForRef, SCtx.topLevel, Ref.component, SCtx.descend,
    maybeNegate, matchAny, Clause.findValue, J.primEq]
/-- Missing attribute: non-match with and without negation. -/
example (neg : Bool) : clauseMatchNoSeg rx exCtx (exClause "email" neg) = .ok false := by
  simp [clauseMatchNoSeg, exClause, exCtx, Ref.isDefined, Ref.errOf, Ctx.byKind, Ctx.individuals,
    normKind, defaultKind, SCtx.valueForRef, SCtx.topLevel, Ref.component]
/-- Undefined attribute reference: MALFORMED_FLAG. -/
example : clauseMatchNoSeg rx exCtx { op := "in" } = .error .emptyAttr :=
  malformed_undefined rx _ _ (by simp [Ref.isDefined])

/-! #### Unparsed (raw) values -/

example : ¬ Sat rx "in" (.raw (.str "abc")) (.str "abc") := sat_in_raw_ctx rx _ _
example : Sat rx "in" (.str "abc") (.raw (.str "abc")) := by simp [Sat]
example : Sat rx "startsWith" (.raw (.str "abc")) (.raw (.str "ab")) := by
  rw [sat_startsWith]; exact ⟨_, _, rfl, rfl, by decide⟩
example : Sat rx "lessThan" (.raw (.num 1)) (.num 2) := by
  rw [sat_lessThan]; exact ⟨1, 2, rfl, rfl, by decide⟩
example : ¬ Sat rx "before" (.raw (.num 1000)) (.num 2000) := by
  rw [sat_before]; simp [Time.valueToTimestamp]
example : ¬ Sat rx "before" (.num 1000) (.raw (.num 2000)) := by
  rw [sat_before]; simp [Time.valueToTimestamp]

/-- A `user` context with the single custom attribute `a`. -/
def rawCtx (v : J) : Ctx := .single { kind := "user", key := "k", attrs := [("a", v)] }
/-- A plain (not preprocessed) clause on attribute `a`. -/
def rawClause (op : String) (vals : List J) : Clause :=
  { attr := { raw := "a", single := "a" }, op := op, values := vals }

/-- A raw string context value does NOT match `in ["abc"]` (the plain string does, and so does a
plain string against a raw clause value: `Equal` parses) … -/
example : clauseMatchNoSeg rx (rawCtx (.raw (.str "abc"))) (rawClause "in" [.str "abc"]) = .ok false := rfl
example : clauseMatchNoSeg rx (rawCtx (.str "abc")) (rawClause "in" [.str "abc"]) = .ok true := rfl
example : clauseMatchNoSeg rx (rawCtx (.str "abc")) (rawClause "in" [.raw (.str "abc")]) = .ok true := rfl
/-- … also when the equality-set table exists (two primitive clause values) … -/
example : clauseMatchNoSeg rx (rawCtx (.raw (.str "abc")))
    { rawClause "in" [.str "abc", .num 1] with pre := preprocessClause rx (rawClause "in" [.str "abc", .num 1]) }
      = .ok false := rfl
/-- … but it DOES match `startsWith "ab"`. -/
example : clauseMatchNoSeg rx (rawCtx (.raw (.str "abc"))) (rawClause "startsWith" [.str "ab"]) = .ok true := rfl
/-- A raw array is not iterated: `raw ["abc"]` does not match `startsWith "ab"`, the plain array does. -/
example : clauseMatchNoSeg rx (rawCtx (.raw (.arr [.str "abc"]))) (rawClause "startsWith" [.str "ab"])
    = .ok false := rfl
example : clauseMatchNoSeg rx (rawCtx (.arr [.str "abc"])) (rawClause "startsWith" [.str "ab"])
    = .ok true := rfl
/-- A raw string date does not match `before` (nor does a raw number, nor a raw clause value); the
plain string date does. -/
example : clauseMatchNoSeg rx (rawCtx (.raw (.str "1970-01-01T00:00:00Z"))) (rawClause "before" [.num 1000])
    = .ok false := rfl
example : clauseMatchNoSeg rx (rawCtx (.raw (.num 0))) (rawClause "before" [.num 1000]) = .ok false := rfl
example : clauseMatchNoSeg rx (rawCtx (.num 0)) (rawClause "before" [.raw (.num 1000)]) = .ok false := rfl
example : (clauseMatchNoSeg (fun _ _ => none) (rawCtx (.str "1970-01-01T00:00:00Z"))
    (rawClause "before" [.num 1000])).toOption = some true := by decide +kernel
/-- The null test parses: a member holding the unparsed text `null` is a missing attribute (no match
even when negated); navigation into an unparsed object parses it. -/
example : clauseMatchNoSeg rx (rawCtx (.obj [("b", .raw .null)]))
    { rawClause "in" [.num 1] with attr := Ref.newRef "/a/b", negate := true } = .ok false := rfl
example : clauseMatchNoSeg rx (rawCtx (.raw (.obj [("b", .num 1)])))
    { rawClause "in" [.num 1] with attr := Ref.newRef "/a/b" } = .ok true := rfl

#print axioms matchAny_iff
#print axioms unknown_op_never
#print axioms clause_iff
#print axioms missing_kind_no_match
#print axioms missing_attr_no_match
#print axioms null_attr_no_match
#print axioms present_attr_match
#print axioms sat_raw_ctx
#print axioms sat_raw_clause
#print axioms sat_in_raw_ctx
#print axioms sat_date_raw_ctx
#print axioms sat_date_raw_clause
#print axioms kind_clause
#print axioms kind_clause_iff
#print axioms malformed_undefined
#print axioms malformed_invalid
#print axioms matchAny_iff_preprocessed
#print axioms clause_iff_preprocessed


/-! ### The semVer operators are Semantic Versioning 2.0.0 precedence (§11), minor/patch optional -/

/-- Every well-formed version string, with minor and patch optionally omitted, parses to its
components (missing ones read as 0). -/
theorem semver_parse_render (p : SemVerM.Parts) (h : p.Valid) : SemVerM.parseBytes p.render =
    some { major := p.major, minor := p.minor.getD 0, patch := p.patch.getD 0,
           prerelease := SemVerM.str (SemVerM.joinDots p.pre), build := SemVerM.str (SemVerM.joinDots p.build) } :=
  SemVerM.parse_render p h

/-- On rendered versions the engine's comparison is the §11 precedence written declaratively
(`Spec.compare`, with `Spec.compare a b = -1 ↔ precLt a b`). Numeric prerelease identifiers must
fit in int64: go-semver parses them with wrapping arithmetic (a machine-checked counterexample is
`SemVerM.Examples.compare_spec_unbounded_counterexample`), which is behaviour of the external
library, outside what the property fixes. -/
theorem semver_compare_is_precedence (p q : SemVerM.Parts) (hp : p.Valid) (hq : q.Valid)
    (bp : p.PreBounded) (bq : q.PreBounded) (vp vq : SemVer)
    (h1 : SemVerM.parseBytes p.render = some vp) (h2 : SemVerM.parseBytes q.render = some vq) :
    SemVerM.compare vp vq = SemVerM.Spec.compare p q :=
  SemVerM.compare_spec_corrected p q hp hq bp bq vp vq h1 h2

/-- Precedence is a total preorder on parsed versions; build metadata never matters. -/
theorem semver_refl (v : SemVer) : SemVerM.compare v v = 0 := SemVerM.compare_refl v
theorem semver_antisymm (a b : SemVer) : SemVerM.compare a b = - SemVerM.compare b a :=
  SemVerM.compare_antisymm a b
theorem semver_build_ignored (a b : SemVer) (x : String) :
    SemVerM.compare { a with build := x } b = SemVerM.compare a b := SemVerM.compare_build_ignored a b x
theorem semver_trans_parsed (x y z : List UInt8) (a b c : SemVer)
    (ha : SemVerM.parseBytes x = some a) (hb : SemVerM.parseBytes y = some b) (hc : SemVerM.parseBytes z = some c)
    (h1 : SemVerM.compare a b ≤ 0) (h2 : SemVerM.compare b c ≤ 0) : SemVerM.compare a c ≤ 0 :=
  SemVerM.compare_trans_parsed x y z a b c ha hb hc h1 h2
/-- Unparseable operands: anything with a NUL or non-ASCII byte, a leading zero, an empty
component, … is rejected, hence never satisfies a semVer operator. -/
theorem semver_nonascii_rejected (inp : List UInt8) (h : ¬ SemVerM.Ascii inp) : SemVerM.parseBytes inp = none :=
  SemVerM.nonascii_rejected inp h

end LD.C04
